/-
  G2Ctl.lean — the hand-written control functions of V9.lean / Ipfix.lean / Parser.lean ARE the `…K` functions of
  Ctl.lean instantiated with the control skeleton regenerated from the Rust source (`Generated.ctl`).
  Every proof here is re-checked against what translate.py read from /repo on this run.
-/
import NetflowModel.Ctl
import NetflowModel.GeneratedCtl
namespace Netflow.G2
open Netflow

abbrev gk : Ctl := Generated.ctl

theorem gk_ipEntCmp : gk.ipEntCmp = .gt := rfl
theorem gk_ipEntThr : gk.ipEntThr = 32767 := rfl
theorem gk_ipEntSub : gk.ipEntSub = 32768 := rfl
theorem gk_ipValidCmp : gk.ipValidCmp = .gt := rfl
theorem gk_ipValidThr : gk.ipValidThr = 0 := rfl
theorem gk_ipVarLen : gk.ipVarLen = 65535 := rfl
theorem gk_ipVarEscCmp : gk.ipVarEscCmp = .eq := rfl
theorem gk_ipVarEsc : gk.ipVarEsc = 255 := rfl
theorem gk_ipBreakCmp1 : gk.ipBreakCmp1 = .eq := rfl
theorem gk_ipBreakVal : gk.ipBreakVal = 0 := rfl
theorem gk_ipBreakCmp2 : gk.ipBreakCmp2 = .lt := rfl
theorem gk_v9SkipEmpty : gk.v9SkipEmpty = true := rfl
theorem gk_gateFirst : gk.gateFirst = true := rfl

theorem parseV9OptTemplate_ctl : parseV9OptTemplateK gk = parseV9OptTemplate := by
  funext i; rfl

theorem v9TotalSize_ctl : v9TotalSizeK gk = v9TotalSize := by
  funext fs; rfl

/-- a record that does not decode leaves the input where it was, so the old `fold` fails again on every remaining iteration and
    returns what it had -/
theorem v9RecLoop_fail (c : Config) (fs : List TField) (n : Nat) (i : Bytes) (acc : List Rec)
    (h : v9ParseRec c fs 0 i = none) : v9RecLoop c fs n i acc = (acc, i) := by
  induction n with
  | zero => rfl
  | succ n ih => simp only [v9RecLoop, h]; exact ih

/-- stopping at the first record that does not decode (the code now) and going on (the `fold` before the fix) give the same result -/
theorem v9RecLoopK_eq (stop : Bool) (c : Config) (fs : List TField) (n : Nat) (i : Bytes) (acc : List Rec) :
    v9RecLoopK stop c fs n i acc = v9RecLoop c fs n i acc := by
  induction n generalizing i acc with
  | zero => rfl
  | succ n ih =>
    cases h : v9ParseRec c fs 0 i with
    | none =>
      cases stop with
      | true => simp only [v9RecLoopK, h, if_true]; exact (v9RecLoop_fail c fs (n + 1) i acc h).symm
      | false => simp only [v9RecLoopK, v9RecLoop, h, Bool.false_eq_true, if_false]; exact ih i acc
    | some p =>
      obtain ⟨r, i'⟩ := p
      simp only [v9RecLoopK, v9RecLoop, h]; exact ih i' (acc ++ [r])

theorem v9ParseBody_ctl (c : Config) (st : PState) (id : Nat) (body : Bytes) :
    v9ParseBodyK gk c st id body = v9ParseBody c st id body := by
  unfold v9ParseBodyK v9ParseBody
  have harms : gk.v9Arms = [.tmpl, .optTmpl, .optData, .data] := rfl
  have hz : gk.v9ZeroIsErr = true := rfl
  rw [harms]
  by_cases h1 : id = c.t.v9TemplateId
  · have hf : List.find? (v9ArmGuard c st id) [V9Arm.tmpl, .optTmpl, .optData, .data] = some .tmpl := by
      simp [List.find?, v9ArmGuard, h1]
    rw [hf, if_pos h1]; rfl
  · by_cases h2 : id = c.t.v9OptTemplateId
    · subst h2
      have hf : List.find? (v9ArmGuard c st c.t.v9OptTemplateId) [V9Arm.tmpl, .optTmpl, .optData, .data] = some .optTmpl := by
        simp [List.find?, v9ArmGuard, h1]
      rw [hf, if_neg h1, if_pos rfl]
      simp only [v9ArmRun, parseV9OptTemplate_ctl]
      try rfl
    · rw [if_neg h1, if_neg h2]
      cases h3 : amLookup id st.v9O with
      | some ot =>
        have hf : List.find? (v9ArmGuard c st id) [V9Arm.tmpl, .optTmpl, .optData, .data] = some .optData := by
          simp [List.find?, v9ArmGuard, h1, h2, h3]
        rw [hf]; simp only [v9ArmRun, h3]
        try rfl
      | none =>
        cases h4 : amLookup id st.v9T with
        | some t =>
          have hf : List.find? (v9ArmGuard c st id) [V9Arm.tmpl, .optTmpl, .optData, .data] = some .data := by
            simp [List.find?, v9ArmGuard, h1, h2, h3, h4]
          rw [hf]; simp only [v9ArmRun, h4, v9TotalSize_ctl, hz, if_true, v9RecLoopK_eq]
          try rfl
        | none =>
          have hf : List.find? (v9ArmGuard c st id) [V9Arm.tmpl, .optTmpl, .optData, .data] = none := by
            simp [List.find?, v9ArmGuard, h1, h2, h3, h4]
          rw [hf]

theorem v9ParseSet_ctl (c : Config) (st : PState) (i : Bytes) :
    v9ParseSetK gk c st i = v9ParseSet c st i := by
  unfold v9ParseSetK v9ParseSet
  simp only [v9ParseBody_ctl]
  rfl

theorem v9ParseSets_ctl (c : Config) (n : Nat) (st : PState) (i : Bytes) :
    v9ParseSetsK gk c n st i = v9ParseSets c n st i := by
  induction n generalizing st i with
  | zero => rfl
  | succ n ih =>
    unfold v9ParseSetsK v9ParseSets
    simp only [gk_v9SkipEmpty, Bool.true_and, v9ParseSet_ctl, ih]
    rfl


theorem parseV9_ctl (c : Config) (st : PState) (i : Bytes) : parseV9K gk c st i = parseV9 c st i := by
  unfold parseV9K parseV9
  simp only [v9ParseSets_ctl]
  rfl


theorem parseIpTField_ctl : parseIpTFieldK gk = parseIpTField := by
  funext i
  unfold parseIpTFieldK parseIpTField
  simp only [gk_ipEntCmp, gk_ipEntThr, gk_ipEntSub, Cmp.eval, decide_eq_true_eq]
  rfl


theorem ipValid_ctl : ipValidK gk = ipValid := by
  funext fs
  unfold ipValidK ipValid
  simp only [gk_ipValidCmp, gk_ipValidThr, Cmp.eval]


theorem parseIpTemplate_ctl : parseIpTemplateK gk = parseIpTemplate := by
  funext body
  unfold parseIpTemplateK parseIpTemplate
  simp only [parseIpTField_ctl]
  rfl


theorem parseIpOptTemplate_ctl : parseIpOptTemplateK gk = parseIpOptTemplate := by
  funext body
  unfold parseIpOptTemplateK parseIpOptTemplate
  simp only [parseIpTField_ctl]
  rfl


theorem ipFieldLength_ctl (f : IpTField) : ipFieldLengthK gk f = ipFieldLength f := by
  funext i
  unfold ipFieldLengthK ipFieldLength
  simp only [gk_ipVarLen, gk_ipVarEscCmp, gk_ipVarEsc, Cmp.eval, decide_eq_true_eq]
  rfl


theorem ipParseValue_ctl (c : Config) (f : IpTField) : ipParseValueK gk c f = ipParseValue c f := by
  funext i
  unfold ipParseValueK ipParseValue
  simp only [ipFieldLength_ctl]
  rfl


theorem ipParseRec_ctl (c : Config) (fs : List IpTField) (idx : Nat) (i : Bytes) :
    ipParseRecK gk c fs idx i = ipParseRec c fs idx i := by
  induction fs generalizing idx i with
  | nil => rfl
  | cons f fs ih =>
    unfold ipParseRecK ipParseRec
    simp only [ipParseValue_ctl, ih]
    rfl


theorem ipRecLoop_ctl (c : Config) (fs : List IpTField) (fuel : Nat) (i : Bytes) :
    ipRecLoopK gk c fs fuel i = ipRecLoop c fs fuel i := by
  induction fuel generalizing i with
  | zero => rfl
  | succ fuel ih =>
    unfold ipRecLoopK ipRecLoop
    simp only [ipParseRec_ctl, gk_ipBreakCmp1, gk_ipBreakVal, gk_ipBreakCmp2, Cmp.eval, decide_eq_true_eq, Bool.not_eq_true',
      decide_eq_false_iff_not, Nat.not_lt, ih, ge_iff_le]
    rfl


theorem find4 {α : Type} (p : α → Bool) (a b c d : α) :
    [a, b, c, d].find? p = if p a then some a else if p b then some b else if p c then some c else if p d then some d else none := by
  simp only [List.find?]
  cases p a <;> cases p b <;> cases p c <;> cases p d <;> rfl

theorem ipParseBody_ctl (c : Config) (st : PState) (id : Nat) (body : Bytes) :
    ipParseBodyK gk c st id body = ipParseBody c st id body := by
  unfold ipParseBodyK ipParseBody
  have harms : gk.ipArms = [.tmpl, .optTmpl, .data, .optData] := rfl
  have he : gk.ipEmptyErr = true := rfl
  rw [harms, find4]
  have hg : ipArmGuard gk c st id .tmpl = decide (id < c.t.ipSetMinRange ∧ id ≠ c.t.ipOptTemplateId) := by
    show (Cmp.eval .lt id c.t.ipSetMinRange && Cmp.eval .ne id c.t.ipOptTemplateId) = _
    simp only [Cmp.eval, Bool.decide_and]
  have hg2 : ipArmGuard gk c st id .optTmpl = decide (id = c.t.ipOptTemplateId) := rfl
  have hg3 : ipArmGuard gk c st id .data = (amLookup id st.ipT).isSome := rfl
  have hg4 : ipArmGuard gk c st id .optData = (amLookup id st.ipO).isSome := rfl
  rw [hg, hg2, hg3, hg4]
  by_cases h1 : id < c.t.ipSetMinRange ∧ id ≠ c.t.ipOptTemplateId
  · rw [if_pos h1, decide_eq_true h1, if_pos rfl]
    simp only [ipArmRun, parseIpTemplate_ctl, ipValid_ctl]
    try rfl
  · rw [if_neg h1, decide_eq_false h1, if_neg (by decide)]
    by_cases h2 : id = c.t.ipOptTemplateId
    · rw [if_pos h2, decide_eq_true h2, if_pos rfl]
      simp only [ipArmRun, parseIpOptTemplate_ctl, ipValid_ctl]
      try rfl
    · rw [if_neg h2, decide_eq_false h2, if_neg (by decide)]
      cases h3 : amLookup id st.ipT with
      | some t =>
        simp only [Option.isSome_some, if_true, ipArmRun, h3, he, Bool.true_and, ipRecLoop_ctl]
        try rfl
      | none =>
        cases h4 : amLookup id st.ipO with
        | some t =>
          simp only [Option.isSome_none, Option.isSome_some, if_true, Bool.false_eq_true, if_false, ipArmRun, h4, he, Bool.true_and, ipRecLoop_ctl]
          try rfl
        | none =>
          simp only [Option.isSome_none, Bool.false_eq_true, if_false]

theorem ipParseSet_ctl (c : Config) (st : PState) (i : Bytes) : ipParseSetK gk c st i = ipParseSet c st i := by
  unfold ipParseSetK ipParseSet
  simp only [ipParseBody_ctl]
  rfl

theorem ipParseSets_ctl (c : Config) (fuel : Nat) (st : PState) (i : Bytes) :
    ipParseSetsK gk c fuel st i = ipParseSets c fuel st i := by
  induction fuel generalizing st i with
  | zero => rfl
  | succ fuel ih =>
    unfold ipParseSetsK ipParseSets
    simp only [ipParseSet_ctl, ih]
    rfl


theorem parseIpfix_ctl (c : Config) (st : PState) (i : Bytes) : parseIpfixK gk c st i = parseIpfix c st i := by
  unfold parseIpfixK parseIpfix
  simp only [ipParseSets_ctl]
  rfl

theorem parseVersioned_ctl (c : Config) (st : PState) (kind : Nat) (body : Bytes) :
    parseVersionedK gk c st kind body = parseVersioned c st kind body := by
  unfold parseVersionedK parseVersioned
  simp only [parseV9_ctl, parseIpfix_ctl]
  rfl

theorem parsePacket_ctl (c : Config) (st : PState) (buf : Bytes) : parsePacketK gk c st buf = parsePacket c st buf := by
  unfold parsePacketK parsePacket
  simp only [parseVersioned_ctl, gk_gateFirst, if_true]
  rfl


theorem parseBytesF_ctl (c : Config) (fuel : Nat) (st : PState) (buf : Bytes) :
    parseBytesFK gk c fuel st buf = parseBytesF c fuel st buf := by
  induction fuel generalizing st buf with
  | zero => rfl
  | succ fuel ih =>
    unfold parseBytesFK parseBytesF
    simp only [parsePacket_ctl, ih]
    rfl


theorem parseBytes_ctl (c : Config) (st : PState) (buf : Bytes) : parseBytesK gk c st buf = parseBytes c st buf := by
  unfold parseBytesK parseBytes
  exact parseBytesF_ctl c _ st buf

end Netflow.G2
