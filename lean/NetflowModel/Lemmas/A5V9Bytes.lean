/-
  Lemmas/A5V9Bytes.lean — layer (a) of the C04 print-then-parse proof: big-endian codec round
  trips, `takeN` / `beU` on concatenations, association-map algebra.
-/
import NetflowModel.Lemmas.Basic
namespace Netflow

/-! ### `toBE` / `beNat` -/

theorem toBE_length (w n : Nat) : (toBE w n).length = w := by
  induction w generalizing n with
  | zero => simp [toBE]
  | succ w ih => simp [toBE, ih]

theorem beNat_nil : beNat [] = 0 := rfl

theorem list_rev_ind {α : Type} {P : List α → Prop} (hnil : P []) (snoc : ∀ l a, P l → P (l ++ [a])) :
    ∀ l, P l := by
  intro l
  rw [← List.reverse_reverse l]
  induction l.reverse with
  | nil => exact hnil
  | cons a t ih => rw [List.reverse_cons]; exact snoc _ _ ih

theorem foldl_be (bs : Bytes) (a : Nat) :
    bs.foldl (fun acc (b : UInt8) => acc * 256 + b.toNat) a = a * 256 ^ bs.length + beNat bs := by
  induction bs generalizing a with
  | nil => simp [beNat]
  | cons b bs ih =>
    simp only [List.foldl_cons, List.length_cons, beNat]
    rw [ih, ih (0 * 256 + b.toNat)]
    rw [Nat.pow_succ, Nat.add_mul, Nat.mul_assoc, Nat.mul_comm 256]
    simp [Nat.add_assoc]

theorem beNat_append (a b : Bytes) : beNat (a ++ b) = beNat a * 256 ^ b.length + beNat b := by
  simp only [beNat, List.foldl_append]
  rw [foldl_be]
  rfl

theorem beNat_singleton (b : UInt8) : beNat [b] = b.toNat := by simp [beNat]

theorem beNat_lt (bs : Bytes) : beNat bs < 256 ^ bs.length := by
  induction bs using list_rev_ind with
  | hnil => simp [beNat]
  | snoc bs b ih =>
    rw [beNat_append, beNat_singleton]
    simp only [List.length_append, List.length_singleton, Nat.pow_succ, Nat.pow_zero]
    have := b.toNat_lt
    omega

theorem beNat_toBE (w n : Nat) : beNat (toBE w n) = n % 256 ^ w := by
  induction w generalizing n with
  | zero => simp [toBE, beNat, Nat.mod_one]
  | succ w ih =>
    simp only [toBE]
    rw [beNat_append, ih, beNat_singleton]
    simp only [List.length_singleton, Nat.pow_one, UInt8.toNat_ofNat']
    have e : 256 ^ (w + 1) = 256 * 256 ^ w := by rw [Nat.pow_succ, Nat.mul_comm]
    rw [e, Nat.mod_mul]
    omega

theorem beNat_toBE_of_lt {w n : Nat} (h : n < 256 ^ w) : beNat (toBE w n) = n := by
  rw [beNat_toBE, Nat.mod_eq_of_lt h]

theorem toBE_beNat (bs : Bytes) : toBE bs.length (beNat bs) = bs := by
  induction bs using list_rev_ind with
  | hnil => simp [toBE]
  | snoc bs b ih =>
    rw [beNat_append, beNat_singleton]
    simp only [List.length_append, List.length_singleton, Nat.pow_one, toBE]
    have hb := b.toNat_lt
    have h1 : (beNat bs * 256 + b.toNat) / 256 = beNat bs := by omega
    have h2 : (beNat bs * 256 + b.toNat) % 256 = b.toNat := by omega
    rw [h1, h2, ih]
    simp

/-! ### primitive parsers on concatenations -/

theorem takeN_append {n : Nat} (a r : Bytes) (h : a.length = n) : takeN n (a ++ r) = some (a, r) := by
  subst h
  simp [takeN]

theorem beU_append {w : Nat} (a r : Bytes) (h : a.length = w) : beU w (a ++ r) = some (beNat a, r) := by
  subst h
  simp [beU]

theorem beU_toBE_append {w n : Nat} (r : Bytes) (h : n < 256 ^ w) : beU w (toBE w n ++ r) = some (n, r) := by
  rw [beU_append _ _ (toBE_length w n), beNat_toBE_of_lt h]

theorem takeN_short {n : Nat} {i : Bytes} (h : i.length < n) : takeN n i = none := by
  simp [takeN]; omega

theorem beU_short {w : Nat} {i : Bytes} (h : i.length < w) : beU w i = none := by
  simp [beU]; omega

example : beU 2 (toBE 2 515 ++ [7]) = some (515, [7]) := beU_toBE_append [7] (by decide)
example : takeN 2 ([1, 2] ++ [3]) = some ([1, 2], [3]) := takeN_append _ _ rfl

/-! ### association maps -/

theorem amLookup_amInsert {β : Type} (k j : Nat) (v : β) (l : List (Nat × β)) :
    amLookup j (amInsert k v l) = if j = k then some v else amLookup j l := by
  induction l with
  | nil => simp [amInsert, amLookup]
  | cons x xs ih =>
    obtain ⟨k', v'⟩ := x
    simp only [amInsert]
    by_cases h1 : k < k'
    · simp only [h1, ↓reduceIte, amLookup]
    · simp only [h1, ↓reduceIte]
      by_cases h2 : k = k'
      · subst h2
        simp only [↓reduceIte, amLookup]
        by_cases h3 : j = k <;> simp [h3]
      · simp only [h2, ↓reduceIte, amLookup, ih]
        by_cases h4 : j = k
        · have h3 : ¬ j = k' := by omega
          simp only [if_pos h4, if_neg h3]
        · simp only [if_neg h4]

/-- keys strictly increasing (the invariant `amInsert`/`amErase` maintain) -/
def AmSorted {β : Type} (l : List (Nat × β)) : Prop := (l.map (·.1)).Pairwise (· < ·)

theorem AmSorted.nil {β : Type} : AmSorted ([] : List (Nat × β)) := by simp [AmSorted]

theorem amLookup_none_of_lt {β : Type} (j : Nat) (l : List (Nat × β)) (h : ∀ p ∈ l, j < p.1) : amLookup j l = none := by
  induction l with
  | nil => rfl
  | cons x xs ih =>
    obtain ⟨k', v'⟩ := x
    have h1 := h (k', v') List.mem_cons_self
    simp only at h1
    simp only [amLookup]
    have : ¬ j = k' := by omega
    simp only [this, ↓reduceIte]
    exact ih (fun p hp => h p (List.mem_cons_of_mem _ hp))

theorem amLookup_amErase {β : Type} (k j : Nat) (l : List (Nat × β)) (hs : AmSorted l) :
    amLookup j (amErase k l) = if j = k then none else amLookup j l := by
  induction l with
  | nil => simp [amErase, amLookup]
  | cons x xs ih =>
    obtain ⟨k', v'⟩ := x
    simp only [AmSorted, List.map_cons, List.pairwise_cons] at hs
    obtain ⟨hlt, hs'⟩ := hs
    simp only [amErase]
    by_cases h2 : k = k'
    · subst h2
      simp only [↓reduceIte, amLookup]
      by_cases h3 : j = k
      · subst h3
        simp only [↓reduceIte]
        apply amLookup_none_of_lt
        intro p hp
        exact hlt p.1 (List.mem_map_of_mem hp)
      · simp [h3]
    · simp only [h2, ↓reduceIte, amLookup, ih hs']
      by_cases h4 : j = k
      · have h3 : ¬ j = k' := by omega
        simp only [if_pos h4, if_neg h3]
      · simp only [if_neg h4]

theorem mem_amInsert {β : Type} (k : Nat) (v : β) (l : List (Nat × β)) (p : Nat × β) (h : p ∈ amInsert k v l) :
    p = (k, v) ∨ p ∈ l := by
  induction l with
  | nil => simp [amInsert] at h; exact Or.inl h
  | cons x xs ih =>
    obtain ⟨k', v'⟩ := x
    simp only [amInsert] at h
    by_cases h1 : k < k'
    · simp only [h1, ↓reduceIte, List.mem_cons] at h
      rcases h with h | h | h
      · exact Or.inl h
      · exact Or.inr (by simp [h])
      · exact Or.inr (by simp [h])
    · simp only [h1, ↓reduceIte] at h
      by_cases h2 : k = k'
      · simp only [h2, ↓reduceIte, List.mem_cons] at h
        rcases h with h | h
        · exact Or.inl (by rw [h, h2])
        · exact Or.inr (by simp [h])
      · simp only [h2, ↓reduceIte, List.mem_cons] at h
        rcases h with h | h
        · exact Or.inr (by simp [h])
        · rcases ih h with h | h
          · exact Or.inl h
          · exact Or.inr (by simp [h])

theorem AmSorted.insert {β : Type} (k : Nat) (v : β) (l : List (Nat × β)) (hs : AmSorted l) : AmSorted (amInsert k v l) := by
  induction l with
  | nil => simp [amInsert, AmSorted]
  | cons x xs ih =>
    obtain ⟨k', v'⟩ := x
    have hs0 := hs
    simp only [AmSorted, List.map_cons, List.pairwise_cons] at hs
    obtain ⟨hlt, hs'⟩ := hs
    simp only [amInsert]
    by_cases h1 : k < k'
    · simp only [h1, ↓reduceIte]
      simp only [AmSorted, List.map_cons, List.pairwise_cons]
      refine ⟨?_, hlt, hs'⟩
      intro a ha
      simp only [List.mem_cons] at ha
      rcases ha with ha | ha
      · omega
      · have := hlt a ha; omega
    · simp only [h1, ↓reduceIte]
      by_cases h2 : k = k'
      · subst h2
        simp only [↓reduceIte]
        simp only [AmSorted, List.map_cons, List.pairwise_cons]
        exact ⟨hlt, hs'⟩
      · simp only [h2, ↓reduceIte]
        simp only [AmSorted, List.map_cons, List.pairwise_cons]
        refine ⟨?_, ih hs'⟩
        intro a ha
        obtain ⟨p, hp, rfl⟩ := List.mem_map.mp ha
        rcases mem_amInsert k v xs p hp with h | h
        · subst h; simp only; omega
        · exact hlt p.1 (List.mem_map_of_mem h)

theorem mem_amErase {β : Type} (k : Nat) (l : List (Nat × β)) (p : Nat × β) (h : p ∈ amErase k l) : p ∈ l := by
  induction l with
  | nil => simp [amErase] at h
  | cons x xs ih =>
    obtain ⟨k', v'⟩ := x
    simp only [amErase] at h
    by_cases h2 : k = k'
    · simp only [h2, ↓reduceIte] at h
      exact List.mem_cons_of_mem _ h
    · simp only [h2, ↓reduceIte, List.mem_cons] at h
      rcases h with h | h
      · simp [h]
      · exact List.mem_cons_of_mem _ (ih h)

theorem AmSorted.erase {β : Type} (k : Nat) (l : List (Nat × β)) (hs : AmSorted l) : AmSorted (amErase k l) := by
  induction l with
  | nil => simp [amErase, AmSorted]
  | cons x xs ih =>
    obtain ⟨k', v'⟩ := x
    simp only [AmSorted, List.map_cons, List.pairwise_cons] at hs
    obtain ⟨hlt, hs'⟩ := hs
    simp only [amErase]
    by_cases h2 : k = k'
    · simp only [h2, ↓reduceIte]; exact hs'
    · simp only [h2, ↓reduceIte]
      simp only [AmSorted, List.map_cons, List.pairwise_cons]
      refine ⟨?_, ih hs'⟩
      intro a ha
      obtain ⟨p, hp, rfl⟩ := List.mem_map.mp ha
      exact hlt p.1 (List.mem_map_of_mem (mem_amErase k xs p hp))

end Netflow
