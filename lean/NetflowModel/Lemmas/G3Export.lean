/-
  G3Export.lean — the interpretation of the exporter programs regenerated from `V9::to_be_bytes` / `IPFix::to_be_bytes`
  (GeneratedExport.lean) over the tree view of a model packet IS the hand-written exporter of Export.lean.
-/
import NetflowModel.ExportProg
import NetflowModel.GeneratedExport
import NetflowModel.Generated
namespace Netflow.G3
open Netflow

theorem concat_map_ok {α : Type} (xs : List α) (f : α → Out Bytes) (g : α → Bytes) (h : ∀ x, f x = .ok (g x)) :
    Out.concat (xs.map f) = .ok (xs.flatMap g) := by
  induction xs with
  | nil => rfl
  | cons x xs ih => simp only [List.map_cons, Out.concat, h x, ih, Out.append, List.flatMap_cons]

theorem append_ok_ok (a b : Bytes) : (Out.ok a).append (Out.ok b) = .ok (a ++ b) := rfl
theorem append_ok_nil (a : Out Bytes) : a.append (.ok []) = a := by
  cases a <;> simp [Out.append]

/-- one V9 field specifier -/
theorem tfield_prog (vc : ValueCfg) (f : TField) (env : EEnv) :
    runL vc [.num ["b3", "field_type_number"] 2, .num ["b3", "field_length"] 2] (("b3", treeOfTField f) :: env)
      = .ok (exportTField f) := by
  simp [runL, runE, EEnv.path, ETree.walk, ETree.field, treeOfTField, List.lookup, Out.append, exportTField]



/-! step lemmas: one statement each, the path fact as a hypothesis -/
theorem runL_cons (vc : ValueCfg) (e : Emit) (es : List Emit) (env : EEnv) :
    runL vc (e :: es) env = (runE vc e env).append (runL vc es env) := by simp [runL]
theorem runL_nil (vc : ValueCfg) (env : EEnv) : runL vc [] env = .ok [] := by simp [runL]
theorem runE_num (vc : ValueCfg) (p : List String) (w v : Nat) (env : EEnv) (hp : env.path p = some (.num v)) :
    runE vc (.num p w) env = .ok (toBE w v) := by simp [runE, hp]
theorem runE_bytes (vc : ValueCfg) (p : List String) (b : Bytes) (env : EEnv) (hp : env.path p = some (.bytes b)) :
    runE vc (.bytes p) env = .ok b := by simp [runE, hp]
theorem runE_value (vc : ValueCfg) (p : List String) (v : FieldValue) (env : EEnv) (hp : env.path p = some (.value v)) :
    runE vc (.value p) env = v.toBE vc := by simp [runE, hp]
theorem runE_each {α : Type} (vc : ValueCfg) (p : List String) (x : String) (body : List Emit) (env : EEnv)
    (as : List α) (tr : α → ETree) (hp : env.path p = some (.list (as.map tr))) :
    runE vc (.each p x body) env = Out.concat (as.map fun a => runL vc body ((x, tr a) :: env)) := by
  simp [runE, hp, List.map_map, Function.comp_def]
theorem runE_variant_hit (vc : ValueCfg) (p : List String) (variant x : String) (body : List Emit) (env : EEnv) (t : ETree)
    (hp : env.path p = some (.variant variant t)) :
    runE vc (.whenVariant p variant x body) env = runL vc body ((x, t) :: env) := by simp [runE, hp]
theorem runE_variant_miss (vc : ValueCfg) (p : List String) (variant name x : String) (body : List Emit) (env : EEnv) (t : ETree)
    (hp : env.path p = some (.variant name t)) (hne : name ≠ variant) :
    runE vc (.whenVariant p variant x body) env = .ok [] := by simp [runE, hp, hne]
theorem runE_some (vc : ValueCfg) (p : List String) (x : String) (body : List Emit) (env : EEnv) (t : ETree)
    (hp : env.path p = some (.some t)) : runE vc (.whenSome p x body) env = runL vc body ((x, t) :: env) := by simp [runE, hp]
theorem runE_none (vc : ValueCfg) (p : List String) (x : String) (body : List Emit) (env : EEnv)
    (hp : env.path p = some .none) : runE vc (.whenSome p x body) env = .ok [] := by simp [runE, hp]
theorem runE_payload (vc : ValueCfg) (p : List String) (env : EEnv) (n : String) (b : Bytes)
    (hp : env.path p = some (.variant n (.bytes b))) : runE vc (.payload p) env = .ok b := by simp [runE, hp]

macro "path_simp" : tactic => `(tactic|
  simp [EEnv.path, ETree.walk, ETree.field, List.lookup, treeOfTField, treeOfV9Template, treeOfV9OptTemplate, treeOfV9Body, treeOfV9Set,
        treeOfIpTField, treeOfIpBody, treeOfIpSet, treeOfRec])
macro "path_simp_h " h:term : tactic => `(tactic|
  simp [$h:term, EEnv.path, ETree.walk, ETree.field, List.lookup, treeOfTField, treeOfV9Template, treeOfV9OptTemplate, treeOfV9Body, treeOfV9Set,
        treeOfIpTField, treeOfIpBody, treeOfIpSet, treeOfRec])

/-- one V9 template record -/
theorem v9template_prog (vc : ValueCfg) (t : V9Template) (env : EEnv) :
    runL vc [.num ["b2", "template_id"] 2, .num ["b2", "field_count"] 2,
             .each ["b2", "fields"] "b3" [.num ["b3", "field_type_number"] 2, .num ["b3", "field_length"] 2]]
        (("b2", treeOfV9Template t) :: env)
      = .ok (exportV9Template t) := by
  rw [runL_cons, runL_cons, runL_cons, runL_nil,
      runE_num vc _ 2 t.id _ (by path_simp), runE_num vc _ 2 t.fieldCount _ (by path_simp),
      runE_each vc _ _ _ _ t.fields treeOfTField (by path_simp)]
  simp only [tfield_prog]
  rw [concat_map_ok t.fields _ exportTField (fun _ => rfl)]
  simp [Out.append, exportV9Template]

/-- one V9 options template record -/
theorem v9opttemplate_prog (vc : ValueCfg) (t : V9OptTemplate) (env : EEnv) :
    runL vc [.num ["b2", "template_id"] 2, .num ["b2", "options_scope_length"] 2, .num ["b2", "options_length"] 2,
             .each ["b2", "scope_fields"] "b3" [.num ["b3", "field_type_number"] 2, .num ["b3", "field_length"] 2],
             .each ["b2", "option_fields"] "b3" [.num ["b3", "field_type_number"] 2, .num ["b3", "field_length"] 2]]
        (("b2", treeOfV9OptTemplate t) :: env)
      = .ok (exportV9OptTemplate t) := by
  rw [runL_cons, runL_cons, runL_cons, runL_cons, runL_cons, runL_nil,
      runE_num vc _ 2 t.id _ (by path_simp), runE_num vc _ 2 t.scopeLen _ (by path_simp), runE_num vc _ 2 t.optLen _ (by path_simp),
      runE_each vc _ _ _ _ t.scope treeOfTField (by path_simp), runE_each vc _ _ _ _ t.opts treeOfTField (by path_simp)]
  simp only [tfield_prog]
  rw [concat_map_ok t.scope _ exportTField (fun _ => rfl), concat_map_ok t.opts _ exportTField (fun _ => rfl)]
  simp [Out.append, exportV9OptTemplate]

/-- one decoded record: every value in template order -/
theorem rec_prog (vc : ValueCfg) (x y : String) (r : Rec) (env : EEnv) :
    runL vc [.each [x] y [.value [y]]] ((x, treeOfRec r) :: env) = exportRec vc r := by
  rw [runL_cons, runL_nil, runE_each vc _ _ _ _ r (fun e => ETree.value e.2.2) (by path_simp), append_ok_nil]
  unfold exportRec
  congr 1
  apply List.map_congr_left
  intro e _
  rw [runL_cons, runL_nil, runE_value vc _ e.2.2 _ (by path_simp), append_ok_nil]








theorem v9templates_prog (vc : ValueCfg) (ts : List V9Template) (pad : Bytes) (env : EEnv) :
    runL vc v9TemplatesProg (("b1", .struct [("templates", .list (ts.map treeOfV9Template)), ("padding", .bytes pad)]) :: env)
      = .ok (ts.flatMap exportV9Template ++ pad) := by
  unfold v9TemplatesProg tfieldProg
  rw [runL_cons, runL_cons, runL_nil, runE_each vc _ _ _ _ ts treeOfV9Template (by path_simp), runE_bytes vc _ pad _ (by path_simp)]
  simp only [v9template_prog]
  rw [concat_map_ok ts _ exportV9Template (fun _ => rfl)]
  simp [Out.append]

theorem v9opttemplates_prog (vc : ValueCfg) (ts : List V9OptTemplate) (pad : Bytes) (env : EEnv) :
    runL vc v9OptTemplatesProg (("b1", .struct [("templates", .list (ts.map treeOfV9OptTemplate)), ("padding", .bytes pad)]) :: env)
      = .ok (ts.flatMap exportV9OptTemplate ++ pad) := by
  unfold v9OptTemplatesProg tfieldProg
  rw [runL_cons, runL_cons, runL_nil, runE_each vc _ _ _ _ ts treeOfV9OptTemplate (by path_simp), runE_bytes vc _ pad _ (by path_simp)]
  simp only [v9opttemplate_prog]
  rw [concat_map_ok ts _ exportV9OptTemplate (fun _ => rfl)]
  simp [Out.append]

theorem data_prog (vc : ValueCfg) (d x y : String) (recs : List Rec) (pad : Bytes) (env : EEnv) :
    runL vc [.each [d, "fields"] x [.each [x] y [.value [y]]], .bytes [d, "padding"]]
        ((d, .struct [("fields", .list (recs.map treeOfRec)), ("padding", .bytes pad)]) :: env)
      = (exportRecs vc recs).append (.ok pad) := by
  rw [runL_cons, runL_cons, runL_nil, runE_each vc _ _ _ _ recs treeOfRec (by path_simp), runE_bytes vc _ pad _ (by path_simp), append_ok_nil]
  simp only [rec_prog]
  rfl

theorem v9optdata_prog (vc : ValueCfg) (ss os : List (Nat × Bytes)) (pad : Bytes) (env : EEnv) :
    runL vc v9OptDataProg
        (("b1", .struct [("scope_fields", .list (ss.map fun s => .variant (scopeVariantName s.1) (.bytes s.2))),
                                   ("options_fields", .list (os.map fun o => .struct [("field_value", .bytes o.2)])),
                                   ("padding", .bytes pad)]) :: env)
      = .ok (ss.flatMap (·.2) ++ os.flatMap (·.2) ++ pad) := by
  unfold v9OptDataProg
  rw [runL_cons, runL_cons, runL_cons, runL_nil,
      runE_each vc _ _ _ _ ss (fun s => ETree.variant (scopeVariantName s.1) (.bytes s.2)) (by path_simp),
      runE_each vc _ _ _ _ os (fun o => ETree.struct [("field_value", .bytes o.2)]) (by path_simp),
      runE_bytes vc _ pad _ (by path_simp)]
  rw [concat_map_ok ss _ (·.2) (fun s => by
        rw [runL_cons, runL_nil, runE_payload vc _ _ (scopeVariantName s.1) s.2 (by path_simp)]; simp [Out.append]),
      concat_map_ok os _ (·.2) (fun o => by
        rw [runL_cons, runL_nil, runE_bytes vc _ o.2 _ (by path_simp)]; simp [Out.append])]
  simp [Out.append]

theorem v9set_body_path (s : V9Set) (env : EEnv) :
    EEnv.path (("b0", treeOfV9Set s) :: env) ["b0", "body"] = some (treeOfV9Body s.body) := by path_simp

theorem v9set_prog (vc : ValueCfg) (s : V9Set) (env : EEnv) :
    runL vc v9SetProg (("b0", treeOfV9Set s) :: env) = exportV9Set vc s := by
  unfold v9SetProg exportV9Set
  rw [runL_cons, runL_cons, runL_cons, runL_cons, runL_cons, runL_cons, runL_nil,
      runE_num vc _ 2 s.id _ (by path_simp), runE_num vc _ 2 s.len _ (by path_simp)]
  cases hb : s.body with
  | templates ts pad =>
    rw [runE_variant_hit vc _ "Template" _ _ _ _ (by rw [v9set_body_path, hb]; rfl),
        runE_variant_miss vc _ "OptionsTemplate" "Template" _ _ _ _ (by rw [v9set_body_path, hb]; rfl) (by decide),
        runE_variant_miss vc _ "Data" "Template" _ _ _ _ (by rw [v9set_body_path, hb]; rfl) (by decide),
        runE_variant_miss vc _ "OptionsData" "Template" _ _ _ _ (by rw [v9set_body_path, hb]; rfl) (by decide),
        v9templates_prog]
    simp [Out.append, exportV9Body]
  | optTemplates ts pad =>
    rw [runE_variant_miss vc _ "Template" "OptionsTemplate" _ _ _ _ (by rw [v9set_body_path, hb]; rfl) (by decide),
        runE_variant_hit vc _ "OptionsTemplate" _ _ _ _ (by rw [v9set_body_path, hb]; rfl),
        runE_variant_miss vc _ "Data" "OptionsTemplate" _ _ _ _ (by rw [v9set_body_path, hb]; rfl) (by decide),
        runE_variant_miss vc _ "OptionsData" "OptionsTemplate" _ _ _ _ (by rw [v9set_body_path, hb]; rfl) (by decide),
        v9opttemplates_prog]
    simp [Out.append, exportV9Body]
  | data recs pad =>
    rw [runE_variant_miss vc _ "Template" "Data" _ _ _ _ (by rw [v9set_body_path, hb]; rfl) (by decide),
        runE_variant_miss vc _ "OptionsTemplate" "Data" _ _ _ _ (by rw [v9set_body_path, hb]; rfl) (by decide),
        runE_variant_hit vc _ "Data" _ _ _ _ (by rw [v9set_body_path, hb]; rfl),
        runE_variant_miss vc _ "OptionsData" "Data" _ _ _ _ (by rw [v9set_body_path, hb]; rfl) (by decide)]
    unfold v9DataProg
    rw [data_prog]
    cases h : exportRecs vc recs <;> simp [Out.append, exportV9Body, h]
  | optData ss os pad =>
    rw [runE_variant_miss vc _ "Template" "OptionsData" _ _ _ _ (by rw [v9set_body_path, hb]; rfl) (by decide),
        runE_variant_miss vc _ "OptionsTemplate" "OptionsData" _ _ _ _ (by rw [v9set_body_path, hb]; rfl) (by decide),
        runE_variant_miss vc _ "Data" "OptionsData" _ _ _ _ (by rw [v9set_body_path, hb]; rfl) (by decide),
        runE_variant_hit vc _ "OptionsData" _ _ _ _ (by rw [v9set_body_path, hb]; rfl),
        v9optdata_prog]
    simp [Out.append, exportV9Body]


/-- the program regenerated from `V9::to_be_bytes` is: the six header fields, then `v9SetProg` for every flowset -/
theorem v9ExportProg_shape :
    Generated.v9ExportProg =
      [.num ["self", "header", "version"] 2, .num ["self", "header", "count"] 2, .num ["self", "header", "sys_up_time"] 4,
       .num ["self", "header", "unix_secs"] 4, .num ["self", "header", "sequence_number"] 4, .num ["self", "header", "source_id"] 4,
       .each ["self", "flowsets"] "b0" v9SetProg] := rfl

theorem v9hdr_path (c : Config) (hc : c.t.v9Hdr = Generated.v9Hdr) (h : List Nat) (sets : List V9Set) (n : String)
    (hn : n ∈ ["version", "count", "sys_up_time", "unix_secs", "sequence_number", "source_id"]) :
    EEnv.path [("self", treeOfV9 c h sets)] ["self", "header", n] = some (.num (Generated.v9Hdr.get n h)) := by
  simp only [List.mem_cons, List.mem_nil_iff, or_false] at hn
  rcases hn with rfl | rfl | rfl | rfl | rfl | rfl <;>
    simp [EEnv.path, ETree.walk, ETree.field, List.lookup, treeOfV9, treeOfHeader, hc, Generated.v9Hdr]

/-- **V9 exporter**: the regenerated program, run on the tree view of a model packet, is `exportV9` -/
theorem v9_prog (c : Config) (hc : c.t.v9Hdr = Generated.v9Hdr) (ho : c.t.v9HdrOrder = Generated.v9HdrOrder)
    (h : List Nat) (sets : List V9Set) :
    runL c.vc Generated.v9ExportProg [("self", treeOfV9 c h sets)] = exportV9 c h sets := by
  rw [v9ExportProg_shape]
  rw [runL_cons, runL_cons, runL_cons, runL_cons, runL_cons, runL_cons, runL_cons, runL_nil,
      runE_num c.vc _ 2 _ _ (v9hdr_path c hc h sets "version" (by simp)),
      runE_num c.vc _ 2 _ _ (v9hdr_path c hc h sets "count" (by simp)),
      runE_num c.vc _ 4 _ _ (v9hdr_path c hc h sets "sys_up_time" (by simp)),
      runE_num c.vc _ 4 _ _ (v9hdr_path c hc h sets "unix_secs" (by simp)),
      runE_num c.vc _ 4 _ _ (v9hdr_path c hc h sets "sequence_number" (by simp)),
      runE_num c.vc _ 4 _ _ (v9hdr_path c hc h sets "source_id" (by simp)),
      runE_each c.vc _ _ _ _ sets treeOfV9Set (by simp [EEnv.path, ETree.walk, ETree.field, List.lookup, treeOfV9])]
  simp only [v9set_prog]
  unfold exportV9
  rw [hc, ho]
  simp [Out.append, exportByOrder, Generated.v9HdrOrder, Layout.widthOf, Generated.v9Hdr, List.find?]
  cases Out.concat (List.map (exportV9Set c.vc) sets) <;> simp


/-! ### IPFIX -/


theorem ipfield_prog (vc : ValueCfg) (f : IpTField) (env : EEnv) :
    runL vc ipFieldProg (("b2", treeOfIpTField f) :: env) = .ok (exportIpTField f) := by
  unfold ipFieldProg
  rw [runL_cons, runL_cons, runL_cons, runL_nil, runE_num vc _ 2 f.typ _ (by path_simp), runE_num vc _ 2 f.len _ (by path_simp)]
  cases he : f.ent with
  | none =>
    rw [runE_none vc _ _ _ _ (by path_simp_h he)]
    simp [Out.append, exportIpTField, he]
  | some e =>
    rw [runE_some vc _ _ _ _ (.num e) (by path_simp_h he), runL_cons, runL_nil, runE_num vc _ 4 e _ (by path_simp)]
    simp [Out.append, exportIpTField, he]





theorem iptemplate_prog (vc : ValueCfg) (t : IpTemplate) (env : EEnv) :
    runL vc ipTemplateProg
        (("b1", .struct [("template_id", .num t.id), ("field_count", .num t.fieldCount),
            ("fields", .list (t.fields.map treeOfIpTField)), ("padding", .bytes t.pad)]) :: env)
      = .ok (toBE 2 t.id ++ toBE 2 t.fieldCount ++ t.fields.flatMap exportIpTField ++ t.pad) := by
  unfold ipTemplateProg
  rw [runL_cons, runL_cons, runL_cons, runL_cons, runL_nil, runE_num vc _ 2 t.id _ (by path_simp), runE_num vc _ 2 t.fieldCount _ (by path_simp),
      runE_each vc _ _ _ _ t.fields treeOfIpTField (by path_simp), runE_bytes vc _ t.pad _ (by path_simp)]
  simp only [ipfield_prog]
  rw [concat_map_ok t.fields _ exportIpTField (fun _ => rfl)]
  simp [Out.append]

theorem ipopttemplate_prog (vc : ValueCfg) (t : IpOptTemplate) (env : EEnv) :
    runL vc ipOptTemplateProg
        (("b1", .struct [("template_id", .num t.id), ("field_count", .num t.fieldCount), ("scope_field_count", .num t.scopeCount),
            ("fields", .list (t.fields.map treeOfIpTField)), ("padding", .bytes t.pad)]) :: env)
      = .ok (toBE 2 t.id ++ toBE 2 t.fieldCount ++ toBE 2 t.scopeCount ++ t.fields.flatMap exportIpTField ++ t.pad) := by
  unfold ipOptTemplateProg
  rw [runL_cons, runL_cons, runL_cons, runL_cons, runL_cons, runL_nil, runE_num vc _ 2 t.id _ (by path_simp),
      runE_num vc _ 2 t.fieldCount _ (by path_simp), runE_num vc _ 2 t.scopeCount _ (by path_simp),
      runE_each vc _ _ _ _ t.fields treeOfIpTField (by path_simp), runE_bytes vc _ t.pad _ (by path_simp)]
  simp only [ipfield_prog]
  rw [concat_map_ok t.fields _ exportIpTField (fun _ => rfl)]
  simp [Out.append]

theorem ipset_body_path (s : IpSet) (env : EEnv) :
    EEnv.path (("b0", treeOfIpSet s) :: env) ["b0", "body"] = some (treeOfIpBody s.body) := by path_simp

theorem ipset_prog (vc : ValueCfg) (s : IpSet) (env : EEnv) :
    runL vc ipSetProg (("b0", treeOfIpSet s) :: env) = exportIpSet vc s := by
  unfold ipSetProg exportIpSet
  rw [runL_cons, runL_cons, runL_cons, runL_cons, runL_cons, runL_cons, runL_nil,
      runE_num vc _ 2 s.id _ (by path_simp), runE_num vc _ 2 s.len _ (by path_simp)]
  cases hb : s.body with
  | template t =>
    rw [runE_variant_hit vc _ "Template" _ _ _ _ (by rw [ipset_body_path, hb]; rfl),
        runE_variant_miss vc _ "OptionsTemplate" "Template" _ _ _ _ (by rw [ipset_body_path, hb]; rfl) (by decide),
        runE_variant_miss vc _ "Data" "Template" _ _ _ _ (by rw [ipset_body_path, hb]; rfl) (by decide),
        runE_variant_miss vc _ "OptionsData" "Template" _ _ _ _ (by rw [ipset_body_path, hb]; rfl) (by decide),
        iptemplate_prog]
    simp [Out.append, exportIpBody]
  | optTemplate t =>
    rw [runE_variant_miss vc _ "Template" "OptionsTemplate" _ _ _ _ (by rw [ipset_body_path, hb]; rfl) (by decide),
        runE_variant_hit vc _ "OptionsTemplate" _ _ _ _ (by rw [ipset_body_path, hb]; rfl),
        runE_variant_miss vc _ "Data" "OptionsTemplate" _ _ _ _ (by rw [ipset_body_path, hb]; rfl) (by decide),
        runE_variant_miss vc _ "OptionsData" "OptionsTemplate" _ _ _ _ (by rw [ipset_body_path, hb]; rfl) (by decide),
        ipopttemplate_prog]
    simp [Out.append, exportIpBody]
  | data recs pad =>
    rw [runE_variant_miss vc _ "Template" "Data" _ _ _ _ (by rw [ipset_body_path, hb]; rfl) (by decide),
        runE_variant_miss vc _ "OptionsTemplate" "Data" _ _ _ _ (by rw [ipset_body_path, hb]; rfl) (by decide),
        runE_variant_hit vc _ "Data" _ _ _ _ (by rw [ipset_body_path, hb]; rfl),
        runE_variant_miss vc _ "OptionsData" "Data" _ _ _ _ (by rw [ipset_body_path, hb]; rfl) (by decide)]
    unfold ipDataProg
    rw [data_prog]
    cases h : exportRecs vc recs <;> simp [Out.append, exportIpBody, h]
  | optData recs pad =>
    rw [runE_variant_miss vc _ "Template" "OptionsData" _ _ _ _ (by rw [ipset_body_path, hb]; rfl) (by decide),
        runE_variant_miss vc _ "OptionsTemplate" "OptionsData" _ _ _ _ (by rw [ipset_body_path, hb]; rfl) (by decide),
        runE_variant_miss vc _ "Data" "OptionsData" _ _ _ _ (by rw [ipset_body_path, hb]; rfl) (by decide),
        runE_variant_hit vc _ "OptionsData" _ _ _ _ (by rw [ipset_body_path, hb]; rfl)]
    unfold ipDataProg
    rw [data_prog]
    cases h : exportRecs vc recs <;> simp [Out.append, exportIpBody, h]

theorem ipExportProg_shape :
    Generated.ipExportProg =
      [.num ["self", "header", "version"] 2, .num ["self", "header", "length"] 2, .num ["self", "header", "export_time"] 4,
       .num ["self", "header", "sequence_number"] 4, .num ["self", "header", "observation_domain_id"] 4,
       .each ["self", "flowsets"] "b0" ipSetProg] := rfl

theorem iphdr_path (c : Config) (hc : c.t.ipHdr = Generated.ipHdr) (h : List Nat) (sets : List IpSet) (n : String)
    (hn : n ∈ ["version", "length", "export_time", "sequence_number", "observation_domain_id"]) :
    EEnv.path [("self", treeOfIpfix c h sets)] ["self", "header", n] = some (.num (Generated.ipHdr.get n h)) := by
  simp only [List.mem_cons, List.mem_nil_iff, or_false] at hn
  rcases hn with rfl | rfl | rfl | rfl | rfl <;>
    simp [EEnv.path, ETree.walk, ETree.field, List.lookup, treeOfIpfix, treeOfHeader, hc, Generated.ipHdr]

/-- **IPFIX exporter**: the regenerated program, run on the tree view of a model message, is `exportIpfix` -/
theorem ipfix_prog (c : Config) (hc : c.t.ipHdr = Generated.ipHdr) (ho : c.t.ipHdrOrder = Generated.ipHdrOrder)
    (h : List Nat) (sets : List IpSet) :
    runL c.vc Generated.ipExportProg [("self", treeOfIpfix c h sets)] = exportIpfix c h sets := by
  rw [ipExportProg_shape]
  rw [runL_cons, runL_cons, runL_cons, runL_cons, runL_cons, runL_cons, runL_nil,
      runE_num c.vc _ 2 _ _ (iphdr_path c hc h sets "version" (by simp)),
      runE_num c.vc _ 2 _ _ (iphdr_path c hc h sets "length" (by simp)),
      runE_num c.vc _ 4 _ _ (iphdr_path c hc h sets "export_time" (by simp)),
      runE_num c.vc _ 4 _ _ (iphdr_path c hc h sets "sequence_number" (by simp)),
      runE_num c.vc _ 4 _ _ (iphdr_path c hc h sets "observation_domain_id" (by simp)),
      runE_each c.vc _ _ _ _ sets treeOfIpSet (by simp [EEnv.path, ETree.walk, ETree.field, List.lookup, treeOfIpfix])]
  simp only [ipset_prog]
  unfold exportIpfix
  rw [hc, ho]
  simp [Out.append, exportByOrder, Generated.ipHdrOrder, Layout.widthOf, Generated.ipHdr, List.find?]
  cases Out.concat (List.map (exportIpSet c.vc) sets) <;> simp

end Netflow.G3
