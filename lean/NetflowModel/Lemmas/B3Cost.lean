/-
  Lemmas/B3Cost.lean — size-of-result versus bytes-consumed lemmas for C15 (second half:
  the size of the value returned by `parse_bytes` is linear in the bytes received).

  Every stage lemma has the shape
      size (what the stage returns) + K * |rest| ≤ K * |input| (+ K₀)
  so that the stages compose by `omega`.  K = 115 is the worst cost per byte: a V9 / IPFIX data
  record consisting of ONE one-byte string field (64 map + 16 entry + 32 value + 3 lossy bytes).
-/
import NetflowModel.Lemmas.Basic
import NetflowModel.Cost
import NetflowModel.Generated
namespace Netflow.B3
open Netflow Cost

/-! ### lists of sizes -/

theorem sum_map_append {α : Type} (f : α → Nat) (a b : List α) :
    ((a ++ b).map f).sum = (a.map f).sum + (b.map f).sum := by
  simp [List.map_append, List.sum_append]

/-! ### `String::from_utf8_lossy` at most triples the length -/

theorem utf8LossyF_length : ∀ (f : Nat) (bs : Bytes), (utf8LossyF f bs).length ≤ 3 * bs.length := by
  intro f
  induction f with
  | zero => intro bs; simp [utf8LossyF]
  | succ f ih =>
    intro bs
    cases bs with
    | nil => simp [utf8LossyF]
    | cons b rest =>
      unfold utf8LossyF
      simp only []
      have hr := ih rest
      split
      · simp only [List.length_cons]; omega
      · split
        · cases rest with
          | nil => simp [replChar]
          | cons c r1 =>
            have h1 := ih r1
            simp only []
            split
            · simp only [List.length_cons] at *; omega
            · simp only [List.length_append, replChar, List.length_cons, List.length_nil] at *; omega
        · split
          · cases rest with
            | nil => simp [replChar]
            | cons c r1 =>
              have h1 := ih r1
              simp only []
              split
              · cases r1 with
                | nil => simp [replChar]
                | cons d r2 =>
                  have h2 := ih r2
                  simp only []
                  split
                  · simp only [List.length_cons] at *; omega
                  · simp only [List.length_append, replChar, List.length_cons, List.length_nil] at *; omega
              · simp only [List.length_append, replChar, List.length_cons, List.length_nil] at *; omega
          · split
            · cases rest with
              | nil => simp [replChar]
              | cons c r1 =>
                have h1 := ih r1
                simp only []
                split
                · cases r1 with
                  | nil => simp [replChar]
                  | cons d r2 =>
                    have h2 := ih r2
                    simp only []
                    split
                    · cases r2 with
                      | nil => simp [replChar]
                      | cons e r3 =>
                        have h3 := ih r3
                        simp only []
                        split
                        · simp only [List.length_cons] at *; omega
                        · simp only [List.length_append, replChar, List.length_cons, List.length_nil] at *; omega
                    · simp only [List.length_append, replChar, List.length_cons, List.length_nil] at *; omega
                · simp only [List.length_append, replChar, List.length_cons, List.length_nil] at *; omega
            · simp only [List.length_append, replChar, List.length_cons, List.length_nil] at *; omega

theorem utf8Lossy_length (bs : Bytes) : (utf8Lossy bs).length ≤ 3 * bs.length :=
  utf8LossyF_length _ _

/-! ### primitive parsers: lengths -/

theorem takeN_len {n : Nat} {i b r : Bytes} (h : takeN n i = some (b, r)) :
    b.length = n ∧ r.length + n = i.length := by
  obtain ⟨h1, h2, h3⟩ := takeN_some h
  subst h2 h3
  simp only [List.length_take, List.length_drop]
  omega

theorem beU_len {w : Nat} {i r : Bytes} {v : Nat} (h : beU w i = some (v, r)) :
    r.length + w = i.length := by
  obtain ⟨h1, _, h3⟩ := beU_some h
  subst h3
  simp only [List.length_drop]
  omega

theorem dnParse_len {arms : DnArms} {len : Nat} {sg : Bool} {i r : Bytes} {d : DataNumber}
    (h : DataNumber.parse arms len sg i = some (d, r)) : r.length + len = i.length := by
  unfold DataNumber.parse at h
  cases ha : arms.lookup (len, sg) with
  | none => simp [ha] at h
  | some arm =>
    simp only [ha] at h
    cases ht : takeN len i with
    | none => simp [ht] at h
    | some br =>
      obtain ⟨b, r1⟩ := br
      simp only [ht, Option.some.injEq, Prod.mk.injEq] at h
      obtain ⟨_, e⟩ := h
      subst e
      exact (takeN_len ht).2

/-! ### a decoded value is no larger than a constant plus three times the bytes it consumed -/

/-- `n` = bytes consumed.  `str`: lossy decoding can triple the length; `mac`: 6 bytes become
    a 17-character string. -/
theorem parseValue_cost {vc : ValueCfg} {ty : FType} {len : Nat} {i r : Bytes} {v : FieldValue}
    (h : parseValue vc ty len i = some (v, r)) :
    ∃ n, r.length + n = i.length ∧ valueSize v ≤ 32 + 3 * n ∧ (1 ≤ len → 1 ≤ n) := by
  cases ty <;> simp only [parseValue] at h
  case str =>
    cases ht : takeN len i with
    | none => simp [ht] at h
    | some br =>
      obtain ⟨b, r1⟩ := br
      simp only [ht, Option.some.injEq, Prod.mk.injEq] at h
      obtain ⟨e1, e2⟩ := h
      subst e1 e2
      obtain ⟨a1, a2⟩ := takeN_len ht
      have := utf8Lossy_length b
      exact ⟨len, a2, by simp only [valueSize]; omega, fun h => h⟩
  case vec =>
    cases ht : takeN len i with
    | none => simp [ht] at h
    | some br =>
      obtain ⟨b, r1⟩ := br
      simp only [ht, Option.some.injEq, Prod.mk.injEq] at h
      obtain ⟨e1, e2⟩ := h
      subst e1 e2
      obtain ⟨a1, a2⟩ := takeN_len ht
      exact ⟨len, a2, by simp only [valueSize]; omega, fun h => h⟩
  case unknown =>
    by_cases hu : vc.unknownFields = true
    · simp only [hu, ↓reduceIte] at h
      cases ht : takeN len i with
      | none => simp [ht] at h
      | some br =>
        obtain ⟨b, r1⟩ := br
        simp only [ht, Option.some.injEq, Prod.mk.injEq] at h
        obtain ⟨e1, e2⟩ := h
        subst e1 e2
        obtain ⟨a1, a2⟩ := takeN_len ht
        exact ⟨len, a2, by simp only [valueSize]; omega, fun h => h⟩
    · simp [hu] at h
  case mac =>
    cases ht : takeN 6 i with
    | none => simp [ht] at h
    | some br =>
      obtain ⟨b, r1⟩ := br
      simp only [ht, Option.some.injEq, Prod.mk.injEq] at h
      obtain ⟨e1, e2⟩ := h
      subst e1 e2
      obtain ⟨a1, a2⟩ := takeN_len ht
      exact ⟨6, a2, by simp only [valueSize]; omega, fun _ => by omega⟩
  case ip4 =>
    cases ht : beU 4 i with
    | none => simp [ht] at h
    | some br =>
      obtain ⟨b, r1⟩ := br
      simp only [ht, Option.some.injEq, Prod.mk.injEq] at h
      obtain ⟨e1, e2⟩ := h
      subst e1 e2
      exact ⟨4, beU_len ht, by simp only [valueSize]; omega, fun _ => by omega⟩
  case ip6 =>
    cases ht : beU 16 i with
    | none => simp [ht] at h
    | some br =>
      obtain ⟨b, r1⟩ := br
      simp only [ht, Option.some.injEq, Prod.mk.injEq] at h
      obtain ⟨e1, e2⟩ := h
      subst e1 e2
      exact ⟨16, beU_len ht, by simp only [valueSize]; omega, fun _ => by omega⟩
  case f64 =>
    cases ht : beU 8 i with
    | none => simp [ht] at h
    | some br =>
      obtain ⟨b, r1⟩ := br
      simp only [ht, Option.some.injEq, Prod.mk.injEq] at h
      obtain ⟨e1, e2⟩ := h
      subst e1 e2
      exact ⟨8, beU_len ht, by simp only [valueSize]; omega, fun _ => by omega⟩
  case proto =>
    cases ht : beU 1 i with
    | none => simp [ht] at h
    | some br =>
      obtain ⟨b, r1⟩ := br
      simp only [ht] at h
      cases hp : vc.protoParse b with
      | none => simp [hp] at h
      | some p =>
        simp only [hp, Option.some.injEq, Prod.mk.injEq] at h
        obtain ⟨e1, e2⟩ := h
        subst e1 e2
        exact ⟨1, beU_len ht, by simp only [valueSize]; omega, fun _ => by omega⟩
  all_goals
    first
    | (cases ht : DataNumber.parse vc.dnArms len false i with
       | none => simp [ht] at h
       | some br =>
         obtain ⟨b, r1⟩ := br
         simp only [ht, Option.some.injEq, Prod.mk.injEq] at h
         obtain ⟨e1, e2⟩ := h
         subst e1 e2
         exact ⟨len, dnParse_len ht, by simp only [valueSize, durOf]; omega, fun h => h⟩)
    | (cases ht : DataNumber.parse vc.dnArms len true i with
       | none => simp [ht] at h
       | some br =>
         obtain ⟨b, r1⟩ := br
         simp only [ht, Option.some.injEq, Prod.mk.injEq] at h
         obtain ⟨e1, e2⟩ := h
         subst e1 e2
         exact ⟨len, dnParse_len ht, by simp only [valueSize]; omega, fun h => h⟩)

/-! ### honesty: no template field of declared length zero -/

def honestFs (fs : List TField) : Bool := fs.all fun f => decide (0 < f.len)
def honestIpFs (fs : List IpTField) : Bool := fs.all fun f => decide (0 < f.len)
def honestV9T (t : V9Template) : Bool := honestFs t.fields
def honestV9O (t : V9OptTemplate) : Bool := honestFs t.scope && honestFs t.opts
def honestIpT (t : IpTemplate) : Bool := honestIpFs t.fields
def honestIpO (t : IpOptTemplate) : Bool := honestIpFs t.fields

/-- no cached template (in any of the four maps) has a field of declared length 0 -/
def Honest (st : PState) : Bool :=
  st.v9T.all (fun e => honestV9T e.2) && st.v9O.all (fun e => honestV9O e.2) &&
  st.ipT.all (fun e => honestIpT e.2) && st.ipO.all (fun e => honestIpO e.2)

def honestV9Body : V9Body → Bool
  | .templates ts _ => ts.all honestV9T
  | .optTemplates ts _ => ts.all honestV9O
  | _ => true

def honestIpBody : IpBody → Bool
  | .template t => honestIpT t
  | .optTemplate t => honestIpO t
  | _ => true

def honestPkt : Packet → Bool
  | .v9 _ ss => ss.all fun s => honestV9Body s.body
  | .ipfix _ ss => ss.all fun s => honestIpBody s.body
  | _ => true

/-- no template REPORTED in the result has a field of declared length 0 -/
def HonestPkts (pkts : List Packet) : Bool := pkts.all honestPkt

theorem amInsert_all {β : Type} (p : β → Bool) (k : Nat) (v : β) (hv : p v = true) :
    ∀ l : List (Nat × β), l.all (fun e => p e.2) = true → (amInsert k v l).all (fun e => p e.2) = true := by
  intro l
  induction l with
  | nil => intro _; simp [amInsert, hv]
  | cons x xs ih =>
    intro h
    obtain ⟨k', v'⟩ := x
    simp only [List.all_cons, Bool.and_eq_true] at h
    unfold amInsert
    split
    · simp only [List.all_cons, Bool.and_eq_true]; exact ⟨hv, h.1, h.2⟩
    · split
      · simp only [List.all_cons, Bool.and_eq_true]; exact ⟨hv, h.2⟩
      · simp only [List.all_cons, Bool.and_eq_true]; exact ⟨h.1, ih h.2⟩

theorem amErase_all {β : Type} (p : β → Bool) (k : Nat) :
    ∀ l : List (Nat × β), l.all (fun e => p e.2) = true → (amErase k l).all (fun e => p e.2) = true := by
  intro l
  induction l with
  | nil => intro _; simp [amErase]
  | cons x xs ih =>
    intro h
    obtain ⟨k', v'⟩ := x
    simp only [List.all_cons, Bool.and_eq_true] at h
    unfold amErase
    split
    · exact h.2
    · simp only [List.all_cons, Bool.and_eq_true]; exact ⟨h.1, ih h.2⟩

theorem amLookup_all {β : Type} (p : β → Bool) (k : Nat) (v : β) :
    ∀ l : List (Nat × β), l.all (fun e => p e.2) = true → amLookup k l = some v → p v = true := by
  intro l
  induction l with
  | nil => intro _ h; simp [amLookup] at h
  | cons x xs ih =>
    intro h hl
    obtain ⟨k', v'⟩ := x
    simp only [List.all_cons, Bool.and_eq_true] at h
    unfold amLookup at hl
    split at hl
    · simp only [Option.some.injEq] at hl; subst hl; exact h.1
    · exact ih h.2 hl

theorem Honest_iff (st : PState) : Honest st = true ↔
    st.v9T.all (fun e => honestV9T e.2) = true ∧ st.v9O.all (fun e => honestV9O e.2) = true ∧
    st.ipT.all (fun e => honestIpT e.2) = true ∧ st.ipO.all (fun e => honestIpO e.2) = true := by
  simp only [Honest, Bool.and_eq_true, and_assoc]

/-! ### generic loops -/

/-- `count(p, n)` : `n` items, each of which consumed at least `w` bytes -/
theorem countP_len {α : Type} {p : P α} {w : Nat}
    (hp : ∀ i a r, p i = some (a, r) → r.length + w ≤ i.length) :
    ∀ (n : Nat) (i : Bytes) (as : List α) (r : Bytes), countP p n i = some (as, r) →
      as.length = n ∧ r.length + w * n ≤ i.length := by
  intro n
  induction n with
  | zero => intro i as r h; simp [countP] at h; simp [h.1.symm, h.2.symm]
  | succ n ih =>
    intro i as r h
    simp only [countP] at h
    cases hpi : p i with
    | none => simp [hpi] at h
    | some ar =>
      obtain ⟨a, r1⟩ := ar
      simp only [hpi] at h
      cases hc : countP p n r1 with
      | none => simp [hc] at h
      | some asr =>
        obtain ⟨as', r2⟩ := asr
        simp only [hc, Option.some.injEq, Prod.mk.injEq] at h
        obtain ⟨e1, e2⟩ := h
        subst e1 e2
        have h1 := hp i a r1 hpi
        obtain ⟨h2, h3⟩ := ih r1 as' r2 hc
        rw [Nat.mul_succ]
        exact ⟨by simp [h2], by omega⟩

/-- `many0(p)` : sizes add up when every item satisfies `size + K·|rest| ≤ K·|input|` -/
theorem many0F_cost {α : Type} {p : P α} (size : α → Nat) (K : Nat)
    (hp : ∀ i a r, p i = some (a, r) → size a + K * r.length ≤ K * i.length) :
    ∀ (f : Nat) (i : Bytes) (as : List α) (r : Bytes), many0F p f i = .ok (as, r) →
      (as.map size).sum + K * r.length ≤ K * i.length := by
  intro f
  induction f with
  | zero => intro i as r h; simp [many0F] at h
  | succ f ih =>
    intro i as r h
    simp only [many0F] at h
    cases hpi : p i with
    | none =>
      simp only [hpi, Loop.ok.injEq, Prod.mk.injEq] at h
      obtain ⟨e1, e2⟩ := h
      subst e1 e2
      simp
    | some ar =>
      obtain ⟨a, r1⟩ := ar
      simp only [hpi] at h
      by_cases he : r1.length = i.length
      · simp [he] at h
      · simp only [he, ↓reduceIte] at h
        cases hm : many0F p f r1 with
        | ok x =>
          obtain ⟨as', r2⟩ := x
          simp only [hm, Loop.ok.injEq, Prod.mk.injEq] at h
          obtain ⟨e1, e2⟩ := h
          subst e1 e2
          have h1 := hp i a r1 hpi
          have h2 := ih r1 as' r2 hm
          simp only [List.map_cons, List.sum_cons]
          omega
        | err => simp [hm] at h
        | outOfFuel => simp [hm] at h

theorem parseLayout_len {proto : Nat → Nat} {lay : Layout} {i r : Bytes} {h : List Nat}
    (hp : parseLayout proto lay i = some (h, r)) : r.length + lay.wireLen = i.length := by
  obtain ⟨h1, h2⟩ := parseLayout_consumes proto lay i h r hp
  subst h2
  simp only [List.length_drop]
  omega

end Netflow.B3
