/-
  Lemmas/Consume.lean — every packet parser, when it succeeds, returns the input minus exactly
  the wire length announced by the packet's own header fields.
-/
import NetflowModel.Lemmas.Basic
import NetflowModel.Preds
namespace Netflow
open Preds

/-- facts about the generated tables that the framing theorems need (decidable; discharged for
    `Generated.tables` by `decide`) -/
def Tables.framingOk (t : Tables) : Bool :=
  t.v9SetHdr.wireLen == 4 && t.ipHdr.wireLen == 14 && t.ipSetHdr.wireLen == 4 &&
  t.dispatch.all (fun p => p.1 == p.2)

theorem parseFixed_consumes (c : Config) (hdr rec : Layout) (i : Bytes) (h : List Nat) (rs : List (List Nat)) (r : Bytes)
    (hp : parseFixed c hdr rec i = some ((h, rs), r)) :
    hdr.wireLen + rec.wireLen * hdr.get "count" h ≤ i.length ∧
    r = i.drop (hdr.wireLen + rec.wireLen * hdr.get "count" h) ∧ rs.length = hdr.get "count" h := by
  unfold parseFixed at hp
  cases hh : parseLayout c.t.protoFromU8 hdr i with
  | none => simp [hh] at hp
  | some hr =>
    obtain ⟨h', r1⟩ := hr
    simp only [hh] at hp
    cases hc : countP (parseLayout c.t.protoFromU8 rec) (hdr.get "count" h') r1 with
    | none => simp [hc] at hp
    | some cr =>
      obtain ⟨rs', r2⟩ := cr
      simp only [hc, Option.some.injEq, Prod.mk.injEq] at hp
      obtain ⟨⟨e1, e2⟩, e3⟩ := hp
      subst e1 e2 e3
      obtain ⟨a1, a2⟩ := parseLayout_consumes _ _ _ _ _ hh
      obtain ⟨b1, b2, b3⟩ := countP_consumes (parseLayout_consumes c.t.protoFromU8 rec) _ _ _ _ hc
      subst a2
      rw [List.length_drop] at b1
      exact ⟨by omega, by rw [b2, List.drop_drop], b3⟩

theorem v9ParseSet_consumes (c : Config) (hw : c.t.v9SetHdr.wireLen = 4) (st st' : PState) (i : Bytes) (s : V9Set) (r : Bytes)
    (hp : v9ParseSet c st i = (st', .ok (s, r))) :
    max s.len 4 ≤ i.length ∧ r = i.drop (max s.len 4) := by
  unfold v9ParseSet at hp
  cases hh : parseLayout c.t.protoFromU8 c.t.v9SetHdr i with
  | none => simp [hh] at hp
  | some hr =>
    obtain ⟨h, r1⟩ := hr
    simp only [hh] at hp
    cases ht : takeN (c.t.v9SetHdr.get "length" h - 4) r1 with
    | none => simp [ht] at hp
    | some br =>
      obtain ⟨body, r2⟩ := br
      simp only [ht] at hp
      obtain ⟨a1, a2⟩ := parseLayout_consumes _ _ _ _ _ hh
      obtain ⟨b1, _, b3⟩ := takeN_some ht
      rw [hw] at a1 a2
      subst a2
      rw [List.length_drop] at b1
      cases hb : v9ParseBody c st (c.t.v9SetHdr.get "flowset_id" h) body with
      | mk st2 res =>
        cases res with
        | ok b =>
          simp only [hb, Prod.mk.injEq, Res.ok.injEq] at hp
          obtain ⟨_, e2, e3⟩ := hp
          subst e2 e3
          simp only
          refine ⟨by omega, ?_⟩
          rw [b3, List.drop_drop]; congr 1; omega
        | err => simp [hb] at hp
        | panic => simp [hb] at hp
        | overflow => simp [hb] at hp

theorem v9ParseSets_consumes (c : Config) (hw : c.t.v9SetHdr.wireLen = 4) :
    ∀ (n : Nat) (st st' : PState) (i : Bytes) (ss : List V9Set) (r : Bytes),
      v9ParseSets c n st i = (st', .ok (ss, r)) → v9SetsLen ss ≤ i.length ∧ r = i.drop (v9SetsLen ss) := by
  intro n
  induction n with
  | zero =>
    intro st st' i ss r h
    simp only [v9ParseSets, Prod.mk.injEq, Res.ok.injEq] at h
    obtain ⟨_, e1, e2⟩ := h
    subst e1 e2
    simp [v9SetsLen]
  | succ n ih =>
    intro st st' i ss r h
    unfold v9ParseSets at h
    by_cases he : i.isEmpty = true
    · simp only [he, if_true] at h
      exact ih _ _ _ _ _ h
    · simp only [he, Bool.false_eq_true, ↓reduceIte] at h
      cases hs : v9ParseSet c st i with
      | mk st1 res =>
        cases res with
        | ok sr =>
          obtain ⟨s, r1⟩ := sr
          simp only [hs] at h
          cases hrest : v9ParseSets c n st1 r1 with
          | mk st2 res2 =>
            cases res2 with
            | ok ssr =>
              obtain ⟨ss', r2⟩ := ssr
              simp only [hrest, Prod.mk.injEq, Res.ok.injEq] at h
              obtain ⟨_, e1, e2⟩ := h
              subst e1 e2
              obtain ⟨a1, a2⟩ := v9ParseSet_consumes c hw _ _ _ _ _ hs
              obtain ⟨b1, b2⟩ := ih _ _ _ _ _ hrest
              subst a2
              rw [List.length_drop] at b1
              simp only [v9SetsLen]
              exact ⟨by omega, by rw [b2, List.drop_drop]⟩
            | err => simp [hrest] at h
            | panic => simp [hrest] at h
            | overflow => simp [hrest] at h
        | err => simp [hs] at h
        | panic => simp [hs] at h
        | overflow => simp [hs] at h

theorem parseV9_consumes (c : Config) (hw : c.t.v9SetHdr.wireLen = 4) (st st' : PState) (i : Bytes) (p : Packet) (r : Bytes)
    (hp : parseV9 c st i = (st', .ok (p, r))) :
    ∃ h ss, p = .v9 h ss ∧ c.t.v9Hdr.wireLen + v9SetsLen ss ≤ i.length ∧ r = i.drop (c.t.v9Hdr.wireLen + v9SetsLen ss) := by
  unfold parseV9 at hp
  cases hh : parseLayout c.t.protoFromU8 c.t.v9Hdr i with
  | none => simp [hh] at hp
  | some hr =>
    obtain ⟨h, r1⟩ := hr
    simp only [hh] at hp
    cases hs : v9ParseSets c (c.t.v9Hdr.get "count" h) st r1 with
    | mk st1 res =>
      cases res with
      | ok ssr =>
        obtain ⟨ss, r2⟩ := ssr
        simp only [hs, Prod.mk.injEq, Res.ok.injEq] at hp
        obtain ⟨_, e1, e2⟩ := hp
        obtain ⟨a1, a2⟩ := parseLayout_consumes _ _ _ _ _ hh
        obtain ⟨b1, b2⟩ := v9ParseSets_consumes c hw _ _ _ _ _ _ hs
        subst a2
        rw [List.length_drop] at b1
        exact ⟨h, ss, e1.symm, by omega, by rw [← e2, b2, List.drop_drop]⟩
      | err => simp [hs] at hp
      | panic => simp [hs] at hp
      | overflow => simp [hs] at hp

theorem parseIpfix_consumes (c : Config) (hw : c.t.ipHdr.wireLen = 14) (st st' : PState) (i : Bytes) (p : Packet) (r : Bytes)
    (hp : parseIpfix c st i = (st', .ok (p, r))) :
    ∃ h ss, p = .ipfix h ss ∧ 14 + (c.t.ipHdr.get "length" h - 16) ≤ i.length ∧
      r = i.drop (14 + (c.t.ipHdr.get "length" h - 16)) := by
  unfold parseIpfix at hp
  cases hh : parseLayout c.t.protoFromU8 c.t.ipHdr i with
  | none => simp [hh] at hp
  | some hr =>
    obtain ⟨h, r1⟩ := hr
    simp only [hh] at hp
    cases ht : takeN (c.t.ipHdr.get "length" h - 16) r1 with
    | none => simp [ht] at hp
    | some br =>
      obtain ⟨body, r2⟩ := br
      simp only [ht] at hp
      obtain ⟨a1, a2⟩ := parseLayout_consumes _ _ _ _ _ hh
      obtain ⟨b1, _, b3⟩ := takeN_some ht
      rw [hw] at a1 a2
      subst a2
      rw [List.length_drop] at b1
      cases hs : ipParseSets c (body.length + 1) st body with
      | mk st1 res =>
        cases res with
        | ok ss =>
          simp only [hs, Prod.mk.injEq, Res.ok.injEq] at hp
          obtain ⟨_, e1, e2⟩ := hp
          exact ⟨h, ss, e1.symm, by omega, by rw [← e2, b3, List.drop_drop]⟩
        | err => simp [hs] at hp
        | panic => simp [hs] at hp
        | overflow => simp [hs] at hp

end Netflow
