/-
  Lemmas/A7ExportStream.lean — the stream-level form of C09 / C10 in terms of the oracle predicate
  `Preds.reexportOk`: along a whole `parse_bytes` run, every selected V9 / IPFIX packet that is in
  the lossless class (w.r.t. the cache state at the moment it was parsed) re-exports to exactly
  the slice of the buffer it occupied.
-/
import NetflowModel.Lemmas.A7ExportPacket
import NetflowModel.Props.C02
namespace Netflow.A7
open Netflow Preds Props

/-- facts about the generated tables needed by the export theorems (decidable) -/
def exportTablesOk (t : Tables) : Bool :=
  t.framingOk && v9SetHdrOk t && v9HdrOk t && ipSetHdrOk t && ipHdrOk t

/-- per-packet lossless class, relative to the cache state `st` before the packet -/
def pktLossless (c : Config) (st : PState) : Packet → Bool
  | .v9 _ ss => V9Lossless c st ss
  | .ipfix h ss => IpLossless c st h ss
  | _ => true

/-- the class along a `parse_bytes` run (mirrors `parseBytesF`): every packet selected by `sel` is
    lossless w.r.t. the state it was parsed in -/
def streamLossless (c : Config) (sel : Packet → Bool) : Nat → PState → Bytes → Bool
  | 0, _, _ => true
  | fuel + 1, st, buf =>
    if buf.isEmpty then true
    else
      match parsePacket c st buf with
      | (st', .ok pkt rest) =>
        (!sel pkt || pktLossless c st pkt) && (if rest.isEmpty then true else streamLossless c sel fuel st' rest)
      | _ => true

theorem framingOk_dispatchOk {t : Tables} (h : t.framingOk = true) : dispatchOk t = true := by
  simp only [Tables.framingOk, Bool.and_eq_true] at h
  exact h.2

/-- a successfully parsed packet occupies the first `wireLen` bytes of the buffer -/
theorem parsePacket_ok_wireLen (c : Config) (hf : c.t.framingOk = true) (st st' : PState) (buf : Bytes)
    (p : Packet) (rest : Bytes) (h : parsePacket c st buf = (st', .ok p rest)) :
    ∃ n, wireLen c p = some n ∧ n ≤ buf.length ∧ rest = buf.drop n := by
  obtain ⟨kind, hbuf, hv⟩ := parsePacket_ok_inv c (framingOk_dispatchOk hf) st st' buf p rest h
  obtain ⟨m, hw, hm, hr⟩ := C02_versioned_ok c hf _ _ _ _ _ _ hv
  have hlen : 2 ≤ buf.length := by
    have := congrArg List.length hbuf
    simp only [List.length_append, toBE_length, List.length_drop] at this
    omega
  rw [List.length_drop] at hm
  exact ⟨2 + m, hw, by omega, by rw [hr, List.drop_drop]⟩

theorem reexport_stream (c : Config) (ht : exportTablesOk c.t = true) (sel : Packet → Bool)
    (hsel : ∀ p, sel p = true → isV9Pkt p = true ∨ isIpfixPkt p = true) :
    ∀ (fuel : Nat) (st st' : PState) (buf : Bytes) (pkts : List Packet),
      parseBytesF c fuel st buf = (st', .done pkts) → streamLossless c sel fuel st buf = true →
      reexportOk c sel buf pkts (pkts.map (exportPacket c)) = true := by
  simp only [exportTablesOk, Bool.and_eq_true] at ht
  obtain ⟨⟨⟨⟨hf, h9s⟩, h9h⟩, his⟩, hih⟩ := ht
  have hd := framingOk_dispatchOk hf
  intro fuel
  induction fuel with
  | zero => intro st st' buf pkts h; simp [parseBytesF] at h
  | succ fuel ih =>
    intro st st' buf pkts h hl
    unfold parseBytesF at h
    unfold streamLossless at hl
    by_cases he : buf.isEmpty = true
    · simp only [he, ↓reduceIte, Prod.mk.injEq, Outcome.done.injEq] at h
      rw [← h.2]; rfl
    · simp only [he, Bool.false_eq_true, ↓reduceIte] at h hl
      cases hp : parsePacket c st buf with
      | mk st1 step =>
        simp only [hp] at h hl
        cases step with
        | ok pkt rest =>
          simp only [Bool.and_eq_true] at hl
          obtain ⟨hl1, hl2⟩ := hl
          obtain ⟨n, hw, hn, hr⟩ := parsePacket_ok_wireLen c hf st st1 buf pkt rest hp
          have htake : buf.take n = buf.take (buf.length - rest.length) := by
            rw [hr, List.length_drop]; congr 1; omega
          -- the head packet
          have hhead : (!sel pkt || exportPacket c pkt == some (.ok (buf.take n))) = true := by
            by_cases hs : sel pkt = true
            · simp only [hs, Bool.not_true, Bool.false_or] at hl1 ⊢
              rw [htake]
              cases pkt with
              | v9 hd9 ss =>
                simp only [pktLossless] at hl1
                rw [parsePacket_v9_coh c hd h9s h9h st st1 buf hd9 ss rest hp hl1]
                simp
              | ipfix hdi ss =>
                simp only [pktLossless] at hl1
                rw [parsePacket_ipfix_coh c hd his hih st st1 buf hdi ss rest hp hl1]
                simp
              | v5 a b => rcases hsel _ hs with h1 | h1 <;> simp [isV9Pkt, isIpfixPkt] at h1
              | v7 a b => rcases hsel _ hs with h1 | h1 <;> simp [isV9Pkt, isIpfixPkt] at h1
              | error a b => rcases hsel _ hs with h1 | h1 <;> simp [isV9Pkt, isIpfixPkt] at h1
            · simp [hs]
          by_cases hre : rest.isEmpty = true
          · simp only [hre, ↓reduceIte, Prod.mk.injEq, Outcome.done.injEq] at h
            rw [← h.2]
            simp only [List.map_cons, List.map_nil, reexportOk, hw, hhead, Bool.true_and]
          · simp only [hre, Bool.false_eq_true, ↓reduceIte] at h hl2
            cases hrec : parseBytesF c fuel st1 rest with
            | mk st2 out =>
              simp only [hrec, Prod.mk.injEq] at h
              cases out with
              | done ps =>
                simp only [Outcome.cons, Outcome.done.injEq] at h
                have hps := ih _ _ _ _ hrec hl2
                rw [← h.2]
                simp only [List.map_cons, reexportOk, hw, hhead, Bool.true_and]
                rw [← hr]; exact hps
              | panic ps => simp [Outcome.cons] at h
              | overflow ps => simp [Outcome.cons] at h
        | fail e =>
          simp only [Prod.mk.injEq, Outcome.done.injEq] at h
          rw [← h.2]
          simp [reexportOk, wireLen, exportPacket]
        | unallowed =>
          simp only [Prod.mk.injEq, Outcome.done.injEq] at h
          rw [← h.2]; rfl
        | panic => simp at h
        | overflow => simp at h

end Netflow.A7
