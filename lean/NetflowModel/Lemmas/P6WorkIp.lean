/-
  Lemmas/P6WorkIp.lean — helper lemmas for `Props/C15c.lean`: the work model of the IPFIX record loop (`CostWork.lean`).
-/
import NetflowModel.Lemmas.P6Work
namespace Netflow.P6
open Netflow Cost

theorem ipRecAttempts_le (c : Config) (fs : List IpTField) (i : Bytes) : ipRecAttempts c fs i ≤ fs.length := by
  induction fs generalizing i with
  | nil => simp [ipRecAttempts]
  | cons f fs ih =>
    simp only [ipRecAttempts, List.length_cons]
    cases h : ipParseValue c f i with
    | none => simp
    | some p => obtain ⟨v, r⟩ := p; simp only []; have := ih r; omega

/-- one decoded IPFIX record (one single-entry map per field) is at least as large as its number of fields -/
theorem ipParseRec_sizes (c : Config) (fs : List IpTField) (idx : Nat) (i : Bytes) (es : List Rec) (r : Bytes)
    (h : ipParseRec c fs idx i = some (es, r)) : fs.length ≤ (es.map recSize).sum := by
  induction fs generalizing idx i es r with
  | nil => simp
  | cons f fs ih =>
    simp only [ipParseRec] at h
    cases h1 : ipParseValue c f i with
    | none => simp [h1] at h
    | some p =>
      obtain ⟨v, r1⟩ := p
      simp only [h1] at h
      cases h2 : ipParseRec c fs (idx + 1) r1 with
      | none => simp [h2] at h
      | some q =>
        obtain ⟨es', r2⟩ := q
        simp only [h2, Option.some.injEq, Prod.mk.injEq] at h
        have := ih (idx + 1) r1 es' r2 h2
        rw [← h.1]
        simp only [List.map_cons, List.sum_cons, List.length_cons, recSize]
        omega

/-- a data set that DECODES: the decode attempts of the record loop are paid by the records returned -/
theorem ipRecWork_ok (c : Config) (fs : List IpTField) (fuel : Nat) (i : Bytes) (recs : List Rec) (r : Bytes)
    (h : ipRecLoop c fs fuel i = .ok (recs, r)) : ipRecWork c fs fuel i ≤ (recs.map recSize).sum := by
  induction fuel generalizing i recs r with
  | zero => simp [ipRecLoop] at h
  | succ fuel ih =>
    have ha := ipRecAttempts_le c fs i
    simp only [ipRecLoop] at h
    simp only [ipRecWork]
    cases h1 : ipParseRec c fs 0 i with
    | none => simp [h1] at h
    | some p =>
      obtain ⟨es, r1⟩ := p
      have hs := ipParseRec_sizes c fs 0 i es r1 h1
      simp only [h1] at h ⊢
      by_cases ht : i.length - r1.length = 0
      · simp only [ht, if_true] at h ⊢
        simp only [Res.ok.injEq, Prod.mk.injEq] at h
        rw [← h.1]; omega
      · simp only [ht, if_false] at h ⊢
        by_cases hg : r1.length ≥ i.length - r1.length
        · simp only [hg, if_true] at h ⊢
          cases h2 : ipRecLoop c fs fuel r1 with
          | ok q =>
            obtain ⟨more, r'⟩ := q
            simp only [h2, Res.ok.injEq, Prod.mk.injEq] at h
            have := ih r1 more r' h2
            rw [← h.1]
            simp only [List.map_append, List.sum_append]; omega
          | err => simp [h2] at h
          | panic => simp [h2] at h
          | overflow => simp [h2] at h
        · simp only [hg, if_false] at h ⊢
          simp only [Res.ok.injEq, Prod.mk.injEq] at h
          rw [← h.1]; omega

/-- ANY data set (decoded or not): every iteration but the last consumes a byte, so the attempts are at most fields × (bytes + 1) -/
theorem ipRecWork_le (c : Config) (fs : List IpTField) (fuel : Nat) (i : Bytes) :
    ipRecWork c fs fuel i ≤ fs.length * (i.length + 1) := by
  induction fuel generalizing i with
  | zero => simp [ipRecWork]
  | succ fuel ih =>
    have ha := ipRecAttempts_le c fs i
    simp only [ipRecWork]
    cases h1 : ipParseRec c fs 0 i with
    | none => simp only [Nat.add_zero, Nat.mul_add, Nat.mul_one]; omega
    | some p =>
      obtain ⟨es, r1⟩ := p
      simp only []
      by_cases ht : i.length - r1.length = 0
      · simp only [ht, if_true, Nat.add_zero, Nat.mul_add, Nat.mul_one]; omega
      · simp only [ht, if_false]
        by_cases hg : r1.length ≥ i.length - r1.length
        · simp only [hg, if_true]
          have h2 := ih r1
          have hlt : r1.length + 1 ≤ i.length := by omega
          have h3 : fs.length * (r1.length + 1) ≤ fs.length * i.length := Nat.mul_le_mul_left _ hlt
          have h4 := Nat.le_trans h2 h3
          simp only [Nat.mul_add, Nat.mul_one]
          omega
        · simp only [hg, if_false, Nat.add_zero, Nat.mul_add, Nat.mul_one]; omega

end Netflow.P6
