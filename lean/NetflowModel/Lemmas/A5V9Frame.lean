/-
  Lemmas/A5V9Frame.lean — layers (g) and (h) of the C04 proof: flowset framing (`FlowSet::parse`:
  header, `take(length-4)`, body), the per-flowset conformance predicate, the fold over the packet's
  flowsets threading template memory and parser caches, and the packet header.
-/
import NetflowModel.Lemmas.A5V9Options
namespace Netflow
open Spec

/-! ### layout facts (decidable; discharged for `Generated.tables` by `decide`) -/

/-- what the proof uses of the generated V9 layouts and constants: the header is a constant
    version followed by a 2-byte and four 4-byte wire fields, `count` is field 1; the flowset
    header is two 2-byte wire fields `flowset_id`, `length`; template / options-template flowset
    ids are 0 / 1; version 9 dispatches to the V9 parser. -/
def V9LayoutOk (t : Tables) : Prop :=
  t.v9Hdr.map (·.kind) = [.const 9, .wire 2, .wire 4, .wire 4, .wire 4, .wire 4] ∧
  t.v9Hdr.indexOf "count" = 1 ∧
  t.v9SetHdr.map (·.kind) = [.wire 2, .wire 2] ∧
  t.v9SetHdr.indexOf "flowset_id" = 0 ∧ t.v9SetHdr.indexOf "length" = 1 ∧
  t.v9TemplateId = 0 ∧ t.v9OptTemplateId = 1 ∧ t.dispatch.lookup 9 = some 9

instance (t : Tables) : Decidable (V9LayoutOk t) := by unfold V9LayoutOk; infer_instance

theorem v9LayoutOk_generated : V9LayoutOk Generated.tables := by decide

theorem parseFields_wire (proto : Nat → Nat) (f : LField) (fs : Layout) (acc : List Nat) (w v : Nat) (r : Bytes)
    (hk : f.kind = .wire w) (hv : v < 256 ^ w) :
    parseFields proto (f :: fs) acc (toBE w v ++ r) = parseFields proto fs (acc ++ [v]) r := by
  simp only [parseFields, hk, beU_toBE_append r hv]

theorem parseFields_const (proto : Nat → Nat) (f : LField) (fs : Layout) (acc : List Nat) (v : Nat) (i : Bytes)
    (hk : f.kind = .const v) :
    parseFields proto (f :: fs) acc i = parseFields proto fs (acc ++ [v]) i := by
  simp only [parseFields, hk]

theorem p32 : 256 ^ 4 = 4294967296 := by decide

/-- the flowset header: two 16-bit numbers -/
theorem parseLayout_setHdr (proto : Nat → Nat) (lay : Layout) (h : lay.map (·.kind) = [.wire 2, .wire 2])
    (a b : Nat) (r : Bytes) (ha : a < 65536) (hb : b < 65536) :
    parseLayout proto lay (toBE 2 a ++ (toBE 2 b ++ r)) = some ([a, b], r) := by
  obtain ⟨f1, l1, rfl, k1, h⟩ := List.map_eq_cons_iff.mp h
  obtain ⟨f2, l2, rfl, k2, h⟩ := List.map_eq_cons_iff.mp h
  have : l2 = [] := List.map_eq_nil_iff.mp h
  subst this
  unfold parseLayout
  rw [parseFields_wire proto f1 _ _ 2 a _ k1 (by rw [p16]; exact ha),
      parseFields_wire proto f2 _ _ 2 b _ k2 (by rw [p16]; exact hb)]
  simp [parseFields]

/-- the packet header after the version: count and four 32-bit numbers -/
theorem parseLayout_v9Hdr (proto : Nat → Nat) (lay : Layout)
    (h : lay.map (·.kind) = [.const 9, .wire 2, .wire 4, .wire 4, .wire 4, .wire 4])
    (n a b c d : Nat) (r : Bytes) (hn : n < 65536) (ha : a < 4294967296) (hb : b < 4294967296)
    (hc : c < 4294967296) (hd : d < 4294967296) :
    parseLayout proto lay (toBE 2 n ++ (toBE 4 a ++ (toBE 4 b ++ (toBE 4 c ++ (toBE 4 d ++ r))))) =
      some ([9, n, a, b, c, d], r) := by
  obtain ⟨f0, l0, rfl, k0, h⟩ := List.map_eq_cons_iff.mp h
  obtain ⟨f1, l1, rfl, k1, h⟩ := List.map_eq_cons_iff.mp h
  obtain ⟨f2, l2, rfl, k2, h⟩ := List.map_eq_cons_iff.mp h
  obtain ⟨f3, l3, rfl, k3, h⟩ := List.map_eq_cons_iff.mp h
  obtain ⟨f4, l4, rfl, k4, h⟩ := List.map_eq_cons_iff.mp h
  obtain ⟨f5, l5, rfl, k5, h⟩ := List.map_eq_cons_iff.mp h
  have : l5 = [] := List.map_eq_nil_iff.mp h
  subst this
  unfold parseLayout
  rw [parseFields_const proto f0 _ _ 9 _ k0,
      parseFields_wire proto f1 _ _ 2 n _ k1 (by rw [p16]; exact hn),
      parseFields_wire proto f2 _ _ 4 a _ k2 (by rw [p32]; exact ha),
      parseFields_wire proto f3 _ _ 4 b _ k3 (by rw [p32]; exact hb),
      parseFields_wire proto f4 _ _ 4 c _ k4 (by rw [p32]; exact hc),
      parseFields_wire proto f5 _ _ 4 d _ k5 (by rw [p32]; exact hd)]
  simp [parseFields]

/-! ### layer (g): flowset framing -/

theorem frame_length (id : Nat) (body : Bytes) : (frame id body).length = body.length + 4 := by
  simp only [frame, List.length_append, toBE_length]; omega

theorem encV9FS_length_pos (s : V9FS) : 0 < (encV9FS s).length := by
  cases s <;> simp only [encV9FS, frame_length] <;> omega

/-- LAYER (g): `FlowSet::parse` on a framed flowset: the header round-trips, `take(length-4)` cuts
    exactly the body, the remaining input is untouched. -/
theorem v9ParseSet_frame (c : Config) (hl : V9LayoutOk c.t) (st st' : PState) (id : Nat) (body rest : Bytes) (b : V9Body)
    (hid : id < 65536) (hlen : body.length + 4 < 65536)
    (hb : v9ParseBody c st id body = (st', .ok b)) :
    v9ParseSet c st (frame id body ++ rest) = (st', .ok ({ id := id, len := body.length + 4, body := b }, rest)) := by
  obtain ⟨-, -, hk, hi0, hi1, -⟩ := hl
  have hp := parseLayout_setHdr c.t.protoFromU8 c.t.v9SetHdr hk id (body.length + 4) (body ++ rest) hid hlen
  have g0 : c.t.v9SetHdr.get "flowset_id" [id, body.length + 4] = id := by simp [Layout.get, hi0]
  have g1 : c.t.v9SetHdr.get "length" [id, body.length + 4] = body.length + 4 := by simp [Layout.get, hi1]
  simp only [v9ParseSet, frame, List.append_assoc, hp, g0, g1, Nat.add_sub_cancel, takeN_append body rest rfl, hb]

/-! ### per-flowset conformance: everything the round trip needs that `Spec.expV9Set` does not impose -/

/-- Conformance of one flowset relative to the template memory `d` in force when it arrives.
    * every flowset: the body fits the 16-bit length field;
    * template / options-template flowsets: every record is well formed (numbers fit 16 bits, count
      and byte-length fields agree with the lists) and the padding is not parseable as a further record;
    * data flowsets: the id is a data-flowset id (not 0 / 1) that fits 16 bits; records governed by a
      data template satisfy the per-field side conditions (`recOk`); an options template must be
      decodable by the crate (`optDataOk`). -/
def setConf (c : Config) (names : List (Nat × String)) (d : List (Nat × V9Def)) : V9FS → Bool
  | .templates ts pad =>
    ts.all v9TemplateWf && (parseV9Template pad).isNone &&
    decide ((ts.flatMap encV9Template ++ pad).length + 4 < 65536)
  | .optTemplates ts pad =>
    ts.all v9OptTemplateWf && (parseV9OptTemplate pad).isNone &&
    decide ((ts.flatMap encV9OptTemplate ++ pad).length + 4 < 65536)
  | .data id recs pad =>
    decide (2 ≤ id) && decide (id < 65536) && decide ((recs.flatMap List.flatten ++ pad).length + 4 < 65536) &&
    match amLookup id d with
    | some (.t t) => recs.all (recOk c names t.fields)
    | some (.o t) => optDataOk c t
    | none => true

/-- LAYERS (d)–(g) assembled: one flowset. -/
theorem v9ParseSet_enc (c : Config) (names : List (Nat × String)) (harms : DnArmsOk c.t.dnArms) (hl : V9LayoutOk c.t)
    (d d1 : List (Nat × V9Def)) (st : PState) (hR : Repr9 d st) (s : V9FS) (out : V9Set) (rest : Bytes)
    (hexp : expV9Set c names d s = some (d1, some out)) (hconf : setConf c names d s = true) :
    ∃ st', v9ParseSet c st (encV9FS s ++ rest) = (st', .ok (out, rest)) ∧ Repr9 d1 st' := by
  have hl' := hl
  obtain ⟨-, -, -, -, -, h0, h1, -⟩ := hl'
  cases s with
  | templates ts pad =>
    simp only [setConf, Bool.and_eq_true, decide_eq_true_eq, Option.isNone_iff_eq_none] at hconf
    obtain ⟨⟨hwf, hpad⟩, hlen⟩ := hconf
    simp only [expV9Set, Option.some.injEq, Prod.mk.injEq] at hexp
    obtain ⟨rfl, rfl⟩ := hexp
    refine ⟨insertV9Templates st ts, ?_, hR.insertTemplates ts⟩
    simp only [encV9FS, frame_length]
    exact v9ParseSet_frame c hl st _ 0 _ rest _ (by omega) hlen (v9ParseBody_templates c st ts pad h0 hwf hpad)
  | optTemplates ts pad =>
    simp only [setConf, Bool.and_eq_true, decide_eq_true_eq, Option.isNone_iff_eq_none] at hconf
    obtain ⟨⟨hwf, hpad⟩, hlen⟩ := hconf
    simp only [expV9Set, Option.some.injEq, Prod.mk.injEq] at hexp
    obtain ⟨rfl, rfl⟩ := hexp
    refine ⟨insertV9OptTemplates st ts, ?_, hR.insertOptTemplates ts⟩
    simp only [encV9FS, frame_length]
    exact v9ParseSet_frame c hl st _ 1 _ rest _ (by omega) hlen (v9ParseBody_optTemplates c st ts pad h0 h1 hwf hpad)
  | data id recs pad =>
    simp only [setConf, Bool.and_eq_true, decide_eq_true_eq] at hconf
    obtain ⟨⟨⟨hid2, hid⟩, hlen⟩, hm⟩ := hconf
    have hid0 : id ≠ c.t.v9TemplateId := by rw [h0]; omega
    have hid1 : id ≠ c.t.v9OptTemplateId := by rw [h1]; omega
    simp only [expV9Set] at hexp
    cases hd : amLookup id d with
    | none => simp [hd] at hexp
    | some df =>
      cases df with
      | t t =>
        simp only [hd] at hexp hm
        obtain ⟨hT, hO⟩ := hR.of_t hd
        by_cases hsum : (t.fields.map (·.len)).sum = 0 ∨ pad.length ≥ (t.fields.map (·.len)).sum
        · simp [hsum] at hexp
        · simp only [hsum, ↓reduceIte] at hexp
          cases hall : allSome (recs.map (expV9Rec c names t.fields)) with
          | none => simp [hall] at hexp
          | some rs =>
            simp only [hall, Option.some.injEq, Prod.mk.injEq] at hexp
            obtain ⟨rfl, rfl⟩ := hexp
            refine ⟨st, ?_, hR⟩
            simp only [encV9FS, frame_length]
            exact v9ParseSet_frame c hl st st id _ rest _ hid hlen
              (v9ParseBody_data c names harms st id t recs pad rs hid0 hid1 hO hT (by omega) (by omega) (by omega) hall hm)
      | o t =>
        simp only [hd] at hexp hm
        have hO := hR.of_o hd
        split at hexp
        · simp at hexp
        · next hany =>
          cases recs with
          | nil => simp at hexp
          | cons r recs' =>
            cases recs' with
            | cons r2 rs2 => simp at hexp
            | nil =>
              simp only [Option.some.injEq, Prod.mk.injEq] at hexp
              obtain ⟨rfl, rfl⟩ := hexp
              simp only [List.any_cons, List.any_nil, Bool.or_false, decide_eq_true_eq, not_or, ne_eq, Decidable.not_not] at hany
              obtain ⟨_, hlens⟩ := hany
              refine ⟨st, ?_, hR⟩
              simp only [encV9FS, frame_length]
              have hflat : [r].flatMap List.flatten = r.flatten := by simp
              rw [hflat] at hlen ⊢
              exact v9ParseSet_frame c hl st st id _ rest _ hid hlen
                (v9ParseBody_optData c st id t r pad hid0 hid1 hO hlens hm)

/-! ### layer (h): the fold over the packet's flowsets -/

/-- conformance of the flowsets of one packet, threading the template memory exactly as
    `Spec.expV9Sets` does -/
def setsConf (c : Config) (names : List (Nat × String)) : List (Nat × V9Def) → List V9FS → Bool
  | _, [] => true
  | d, s :: ss =>
    setConf c names d s &&
    match expV9Set c names d s with
    | some (d1, _) => setsConf c names d1 ss
    | none => true

theorem expV9Sets_cons_some {c : Config} {names : List (Nat × String)} {d d2 : List (Nat × V9Def)} {s : V9FS}
    {ss : List V9FS} {outs : List V9Set} (h : expV9Sets c names d (s :: ss) = some (d2, some outs)) :
    ∃ d1 a b, expV9Set c names d s = some (d1, some a) ∧ expV9Sets c names d1 ss = some (d2, some b) ∧ outs = a :: b := by
  simp only [expV9Sets] at h
  cases h1 : expV9Set c names d s with
  | none => simp [h1] at h
  | some r1 =>
    obtain ⟨d1, s1⟩ := r1
    simp only [h1] at h
    cases h2 : expV9Sets c names d1 ss with
    | none => simp [h2] at h
    | some r2 =>
      obtain ⟨d2', ss1⟩ := r2
      simp only [h2] at h
      cases s1 with
      | none => simp at h
      | some a =>
        cases ss1 with
        | none => simp at h
        | some b =>
          simp only [Option.some.injEq, Prod.mk.injEq] at h
          obtain ⟨rfl, rfl⟩ := h
          exact ⟨d1, a, b, rfl, h2, rfl⟩

/-- LAYER (h), fold: `parse_flowsets` over `count = number of flowsets` iterations decodes every
    flowset in order, threading the caches, and stops exactly at `rest`. -/
theorem v9ParseSets_enc (c : Config) (names : List (Nat × String)) (harms : DnArmsOk c.t.dnArms) (hl : V9LayoutOk c.t) :
    ∀ (ss : List V9FS) (d d2 : List (Nat × V9Def)) (st : PState) (outs : List V9Set) (rest : Bytes),
      Repr9 d st → expV9Sets c names d ss = some (d2, some outs) → setsConf c names d ss = true →
      ∃ st', v9ParseSets c ss.length st (ss.flatMap encV9FS ++ rest) = (st', .ok (outs, rest)) ∧ Repr9 d2 st' := by
  intro ss
  induction ss with
  | nil =>
    intro d d2 st outs rest hR hexp _
    simp only [expV9Sets, Option.some.injEq, Prod.mk.injEq] at hexp
    obtain ⟨rfl, rfl⟩ := hexp
    exact ⟨st, by simp [v9ParseSets], hR⟩
  | cons s ss ih =>
    intro d d2 st outs rest hR hexp hconf
    obtain ⟨d1, a, b, e1, e2, rfl⟩ := expV9Sets_cons_some hexp
    simp only [setsConf, e1, Bool.and_eq_true] at hconf
    obtain ⟨hc1, hc2⟩ := hconf
    obtain ⟨st1, p1, hR1⟩ := v9ParseSet_enc c names harms hl d d1 st hR s a (ss.flatMap encV9FS ++ rest) e1 hc1
    obtain ⟨st2, p2, hR2⟩ := ih d1 d2 st1 b rest hR1 e2 hc2
    refine ⟨st2, ?_, hR2⟩
    have hne : (encV9FS s ++ (ss.flatMap encV9FS ++ rest)).isEmpty = false := by
      have := encV9FS_length_pos s
      cases hs : encV9FS s with
      | nil => rw [hs] at this; simp at this
      | cons x xs => rfl
    simp only [List.length_cons, v9ParseSets, List.flatMap_cons, List.append_assoc, hne, Bool.false_eq_true,
      ↓reduceIte, p1, p2]

end Netflow
