/-
  Lemmas/A7ExportIpfix.lean — parse-then-print for IPFIX, bottom-up: field specifiers, template and
  options-template records, data records, the record loop, set bodies, sets, the set sequence and
  the message.
-/
import NetflowModel.Lemmas.A7ExportV9
namespace Netflow.A7

/-! ### exporter result algebra (append) -/

theorem Out.ok_nil_append (y : Out Bytes) : (Out.ok ([] : Bytes)).append y = y := by
  cases y <;> simp [Out.append]

theorem Out.append_assoc (x y z : Out Bytes) : (x.append y).append z = x.append (y.append z) := by
  cases x <;> cases y <;> cases z <;> simp [Out.append]

theorem Out.concat_append (xs ys : List (Out Bytes)) :
    Out.concat (xs ++ ys) = (Out.concat xs).append (Out.concat ys) := by
  induction xs with
  | nil => simp [Out.concat, Out.ok_nil_append]
  | cons x xs ih => simp only [List.cons_append, Out.concat, ih, Out.append_assoc]

theorem exportRecs_append (vc : ValueCfg) (a b : List Rec) :
    exportRecs vc (a ++ b) = (exportRecs vc a).append (exportRecs vc b) := by
  simp only [exportRecs, List.map_append, Out.concat_append]

/-! ### template field specifiers -/

/-- field specifiers WITHOUT the enterprise bit are re-exported exactly; with the bit the
    exporter writes the cleared number (see `C10_fails_enterprise`) -/
theorem parseIpTField_coh : CohOn parseIpTField exportIpTField (fun f => f.ent = none) := by
  intro i a r h hq
  unfold parseIpTField at h
  cases h1 : beU 2 i with
  | none => simp [h1] at h
  | some x =>
    obtain ⟨t, r1⟩ := x
    simp only [h1] at h
    cases h2 : beU 2 r1 with
    | none => simp [h2] at h
    | some y =>
      obtain ⟨l, r2⟩ := y
      simp only [h2] at h
      by_cases ht : t > 32767
      · simp only [ht, ↓reduceIte] at h
        cases h3 : beU 4 r2 with
        | none => simp [h3] at h
        | some z =>
          obtain ⟨e, r3⟩ := z
          simp only [h3, Option.some.injEq, Prod.mk.injEq] at h
          obtain ⟨e1, e2⟩ := h
          subst e1
          simp at hq
      · simp only [ht, ↓reduceIte, Option.some.injEq, Prod.mk.injEq] at h
        obtain ⟨e1, e2⟩ := h
        subst e1 e2
        simp only [exportIpTField, List.append_nil]
        rw [List.append_assoc, beU_coh h2, beU_coh h1]

def noEnterprise (fs : List IpTField) : Bool := fs.all fun f => f.ent.isNone

theorem noEnterprise_mem {fs : List IpTField} (h : noEnterprise fs = true) : ∀ f ∈ fs, f.ent = none := by
  intro f hf
  simp only [noEnterprise, List.all_eq_true] at h
  have := h f hf
  simpa using this

/-- a template set is parsed as ONE template (id, count, `many0` field specifiers, rest = padding)
    whatever it contains; as long as no parsed specifier has the enterprise bit the re-export is the
    set body — also when the set really held several template records -/
theorem parseIpTemplate_coh (body : Bytes) (t : IpTemplate) (h : parseIpTemplate body = .ok t)
    (hne : noEnterprise t.fields = true) :
    toBE 2 t.id ++ toBE 2 t.fieldCount ++ t.fields.flatMap exportIpTField ++ t.pad = body := by
  unfold parseIpTemplate at h
  cases h1 : beU 2 body with
  | none => simp [h1] at h
  | some x =>
    obtain ⟨id, r1⟩ := x
    simp only [h1] at h
    cases h2 : beU 2 r1 with
    | none => simp [h2] at h
    | some y =>
      obtain ⟨fc, r2⟩ := y
      simp only [h2] at h
      cases hm : many0 parseIpTField r2 with
      | ok z =>
        obtain ⟨fs, pad⟩ := z
        simp only [hm, Res.ok.injEq] at h
        subst h
        simp only at hne ⊢
        simp only [List.append_assoc]
        rw [many0_coh parseIpTField_coh r2 fs pad hm (noEnterprise_mem hne), beU_coh h2, beU_coh h1]
      | err => simp [hm] at h
      | outOfFuel => simp [hm] at h

theorem parseIpOptTemplate_coh (body : Bytes) (t : IpOptTemplate) (h : parseIpOptTemplate body = .ok t)
    (hne : noEnterprise t.fields = true) :
    toBE 2 t.id ++ toBE 2 t.fieldCount ++ toBE 2 t.scopeCount ++ t.fields.flatMap exportIpTField ++ t.pad = body := by
  unfold parseIpOptTemplate at h
  cases h1 : beU 2 body with
  | none => simp [h1] at h
  | some x =>
    obtain ⟨id, r1⟩ := x
    simp only [h1] at h
    cases h2 : beU 2 r1 with
    | none => simp [h2] at h
    | some y =>
      obtain ⟨fc, r2⟩ := y
      simp only [h2] at h
      cases h3 : beU 2 r2 with
      | none => simp [h3] at h
      | some y' =>
        obtain ⟨sc, r3⟩ := y'
        simp only [h3] at h
        cases hm : countP parseIpTField (if sc ≤ fc then fc else min (sc + fc) 65535) r3 with
        | none => simp [hm] at h
        | some z =>
          obtain ⟨fs, pad⟩ := z
          simp only [hm, Res.ok.injEq] at h
          subst h
          simp only at hne ⊢
          simp only [List.append_assoc]
          rw [countP_coh parseIpTField_coh _ r3 fs pad hm (noEnterprise_mem hne), beU_coh h3, beU_coh h2,
            beU_coh h1]

/-! ### data records -/

def ipFieldTy (c : Config) (f : IpTField) : FType := c.t.ipTy (c.t.ipField f.typ)

/-- static class of IPFIX field specifiers: fixed length (the variable-length prefix is not kept),
    and either enterprise-specific (kept as raw bytes) or a `LosslessField` -/
def ipFieldOk (c : Config) (f : IpTField) : Bool :=
  f.len != 65535 && (f.ent.isSome || LosslessField c.vc (ipFieldTy c f) f.len)

def IpLosslessFields (c : Config) (fs : List IpTField) : Bool := fs.all (ipFieldOk c)

theorem ipParseValue_coh (c : Config) (f : IpTField) (i : Bytes) (v : FieldValue) (r : Bytes)
    (h : ipParseValue c f i = some (v, r)) (hf : ipFieldOk c f = true) (hv : ValueOk c.vc v = true) :
    ∃ bs, v.toBE c.vc = .ok bs ∧ bs ++ r = i := by
  simp only [ipFieldOk, Bool.and_eq_true, bne_iff_ne, ne_eq, Bool.or_eq_true] at hf
  obtain ⟨hlen, hcase⟩ := hf
  unfold ipParseValue at h
  have hfl : ipFieldLength f i = some (f.len, i) := by simp [ipFieldLength, hlen]
  simp only [hfl] at h
  cases he : f.ent with
  | some e =>
    simp only [he] at h
    cases ht : takeN f.len i with
    | none => simp [ht] at h
    | some x =>
      obtain ⟨b, r1⟩ := x
      simp only [ht, Option.some.injEq, Prod.mk.injEq] at h
      obtain ⟨e1, e2⟩ := h
      subst e1 e2
      exact ⟨b, rfl, takeN_coh ht⟩
  | none =>
    simp only [he] at h
    simp only [he, Option.isSome_none, Bool.false_eq_true, false_or] at hcase
    exact parseValue_coh c.vc _ _ _ _ _ h hcase hv

theorem ipParseRec_coh (c : Config) :
    ∀ (fs : List IpTField) (idx : Nat) (i : Bytes) (es : List Rec) (r : Bytes),
      ipParseRec c fs idx i = some (es, r) → IpLosslessFields c fs = true → RecsOk c.vc es = true →
      ∃ bs, exportRecs c.vc es = .ok bs ∧ bs ++ r = i := by
  intro fs
  induction fs with
  | nil =>
    intro idx i es r h _ _
    simp only [ipParseRec, Option.some.injEq, Prod.mk.injEq] at h
    obtain ⟨e1, e2⟩ := h
    subst e1 e2
    exact ⟨[], rfl, rfl⟩
  | cons f fs ih =>
    intro idx i es r h hl hv
    simp only [IpLosslessFields, List.all_cons, Bool.and_eq_true] at hl
    obtain ⟨hf, hfs⟩ := hl
    unfold ipParseRec at h
    cases hp : ipParseValue c f i with
    | none => simp [hp] at h
    | some x =>
      obtain ⟨v, r1⟩ := x
      simp only [hp] at h
      cases hr : ipParseRec c fs (idx + 1) r1 with
      | none => simp [hr] at h
      | some y =>
        obtain ⟨es', r2⟩ := y
        simp only [hr, Option.some.injEq, Prod.mk.injEq] at h
        obtain ⟨e1, e2⟩ := h
        subst e1 e2
        simp only [RecsOk, List.all_cons, Bool.and_eq_true, RecOk, List.all_nil, Bool.and_true] at hv
        obtain ⟨hv1, hv2⟩ := hv
        obtain ⟨b1, hb1, hc1⟩ := ipParseValue_coh c f i v r1 hp hf hv1
        obtain ⟨b2, hb2, hc2⟩ := ih (idx + 1) r1 es' r2 hr hfs hv2
        refine ⟨b1 ++ b2, ?_, ?_⟩
        · rw [exportRecs_cons]
          have : exportRec c.vc [(idx, ipFieldDisc c f, v)] = .ok b1 := by
            simp only [exportRec, List.map_cons, List.map_nil, Out.concat, hb1]
            simp [Out.append]
          exact Out.append_eq_ok this hb2
        · rw [List.append_assoc, hc2, hc1]

theorem RecsOk_append (vc : ValueCfg) (a b : List Rec) :
    RecsOk vc (a ++ b) = (RecsOk vc a && RecsOk vc b) := by
  simp [RecsOk]

theorem ipRecLoop_coh (c : Config) (fs : List IpTField) (hl : IpLosslessFields c fs = true) :
    ∀ (fuel : Nat) (i : Bytes) (recs : List Rec) (pad : Bytes),
      ipRecLoop c fs fuel i = .ok (recs, pad) → RecsOk c.vc recs = true →
      ∃ bs, exportRecs c.vc recs = .ok bs ∧ bs ++ pad = i := by
  intro fuel
  induction fuel with
  | zero => intro i recs pad h; simp [ipRecLoop] at h
  | succ fuel ih =>
    intro i recs pad h hok
    unfold ipRecLoop at h
    cases hp : ipParseRec c fs 0 i with
    | none => simp [hp] at h
    | some x =>
      obtain ⟨es, r⟩ := x
      simp only [hp] at h
      by_cases h0 : i.length - r.length = 0
      · simp only [h0, ↓reduceIte, Res.ok.injEq, Prod.mk.injEq] at h
        obtain ⟨e1, e2⟩ := h
        subst e1 e2
        exact ipParseRec_coh c fs 0 i es r hp hl hok
      · simp only [h0, ↓reduceIte] at h
        by_cases hge : r.length ≥ i.length - r.length
        · simp only [hge, ↓reduceIte] at h
          cases hr : ipRecLoop c fs fuel r with
          | ok y =>
            obtain ⟨more, r'⟩ := y
            simp only [hr, Res.ok.injEq, Prod.mk.injEq] at h
            obtain ⟨e1, e2⟩ := h
            subst e1 e2
            rw [RecsOk_append, Bool.and_eq_true] at hok
            obtain ⟨hok1, hok2⟩ := hok
            obtain ⟨b1, hb1, hc1⟩ := ipParseRec_coh c fs 0 i es r hp hl hok1
            obtain ⟨b2, hb2, hc2⟩ := ih r more r' hr hok2
            refine ⟨b1 ++ b2, ?_, ?_⟩
            · rw [exportRecs_append]; exact Out.append_eq_ok hb1 hb2
            · rw [List.append_assoc, hc2, hc1]
          | err => simp [hr] at h
          | panic => simp [hr] at h
          | overflow => simp [hr] at h
        · simp only [hge, ↓reduceIte, Res.ok.injEq, Prod.mk.injEq] at h
          obtain ⟨e1, e2⟩ := h
          subst e1 e2
          exact ipParseRec_coh c fs 0 i es r hp hl hok

/-! ### set bodies -/

/-- the cached IPFIX templates and options templates with an id in `ids` have lossless fields -/
def ipStOk (c : Config) (ids : List Nat) (st : PState) : Bool :=
  (st.ipT.all fun kt => !ids.contains kt.1 || IpLosslessFields c kt.2.fields) &&
  (st.ipO.all fun kt => !ids.contains kt.1 || IpLosslessFields c kt.2.fields)

/-- condition on a decoded set body with set id `id` -/
def ipBodyOk (c : Config) (ids : List Nat) (id : Nat) : IpBody → Bool
  | .template t => noEnterprise t.fields && (!ids.contains t.id || IpLosslessFields c t.fields)
  | .optTemplate t => noEnterprise t.fields && (!ids.contains t.id || IpLosslessFields c t.fields)
  | .data recs _ => ids.contains id && RecsOk c.vc recs
  | .optData recs _ => ids.contains id && RecsOk c.vc recs

theorem ipParseBody_coh (c : Config) (ids : List Nat) (st st' : PState) (id : Nat) (body : Bytes) (b : IpBody)
    (h : ipParseBody c st id body = (st', .ok b)) (hst : ipStOk c ids st = true)
    (hb : ipBodyOk c ids id b = true) :
    exportIpBody c.vc b = .ok body ∧ ipStOk c ids st' = true := by
  simp only [ipStOk, Bool.and_eq_true, List.all_eq_true] at hst
  obtain ⟨hstT, hstO⟩ := hst
  unfold ipParseBody at h
  split at h
  · cases hp : parseIpTemplate body with
    | ok t =>
      simp only [hp] at h
      by_cases hv : ipValid t.fields = true
      · simp only [hv, ↓reduceIte, Prod.mk.injEq, Res.ok.injEq] at h
        obtain ⟨e1, e2⟩ := h
        subst e1 e2
        simp only [ipBodyOk, Bool.and_eq_true] at hb
        obtain ⟨hne, hlf⟩ := hb
        refine ⟨?_, ?_⟩
        · simp only [exportIpBody]
          rw [parseIpTemplate_coh body t hp hne]
        · simp only [ipStOk, Bool.and_eq_true, List.all_eq_true]
          refine ⟨?_, ?_⟩
          · intro x hx
            rcases mem_amInsert hx with hx | hx
            · subst hx; exact hlf
            · exact hstT x hx
          · intro x hx
            exact hstO x (mem_amErase hx)
      · simp [hv] at h
    | err => simp [hp] at h
    | panic => simp [hp] at h
    | overflow => simp [hp] at h
  · split at h
    · cases hp : parseIpOptTemplate body with
      | ok t =>
        simp only [hp] at h
        by_cases hv : ipValid t.fields = true
        · simp only [hv, ↓reduceIte, Prod.mk.injEq, Res.ok.injEq] at h
          obtain ⟨e1, e2⟩ := h
          subst e1 e2
          simp only [ipBodyOk, Bool.and_eq_true] at hb
          obtain ⟨hne, hlf⟩ := hb
          refine ⟨?_, ?_⟩
          · simp only [exportIpBody]
            rw [parseIpOptTemplate_coh body t hp hne]
          · simp only [ipStOk, Bool.and_eq_true, List.all_eq_true]
            refine ⟨?_, ?_⟩
            · intro x hx
              exact hstT x (mem_amErase hx)
            · intro x hx
              rcases mem_amInsert hx with hx | hx
              · subst hx; exact hlf
              · exact hstO x hx
        · simp [hv] at h
      | err => simp [hp] at h
      | panic => simp [hp] at h
      | overflow => simp [hp] at h
    · have hst : ipStOk c ids st = true := by
        simp only [ipStOk, Bool.and_eq_true, List.all_eq_true]; exact ⟨hstT, hstO⟩
      cases ht : amLookup id st.ipT with
      | some t =>
        simp only [ht] at h
        by_cases hem : t.fields.isEmpty = true
        · simp [hem] at h
        · simp only [hem, Bool.false_eq_true, ↓reduceIte] at h
          cases hl : ipRecLoop c t.fields (body.length + 1) body with
          | ok x =>
            obtain ⟨recs, pad⟩ := x
            simp only [hl, Prod.mk.injEq, Res.ok.injEq] at h
            obtain ⟨e1, e2⟩ := h
            subst e1 e2
            simp only [ipBodyOk, Bool.and_eq_true] at hb
            obtain ⟨hid, hrecs⟩ := hb
            have hlt : IpLosslessFields c t.fields = true := by
              have := hstT _ (amLookup_mem ht)
              simp only [hid, Bool.not_true, Bool.false_or] at this
              exact this
            obtain ⟨bs, hbs, hcb⟩ := ipRecLoop_coh c t.fields hlt _ _ _ _ hl hrecs
            refine ⟨?_, hst⟩
            simp only [exportIpBody]
            rw [Out.append_eq_ok hbs rfl, hcb]
          | err => simp [hl] at h
          | panic => simp [hl] at h
          | overflow => simp [hl] at h
      | none =>
        simp only [ht] at h
        cases ho : amLookup id st.ipO with
        | none => simp [ho] at h
        | some t =>
          simp only [ho] at h
          by_cases hem : t.fields.isEmpty = true
          · simp [hem] at h
          · simp only [hem, Bool.false_eq_true, ↓reduceIte] at h
            cases hl : ipRecLoop c t.fields (body.length + 1) body with
            | ok x =>
              obtain ⟨recs, pad⟩ := x
              simp only [hl, Prod.mk.injEq, Res.ok.injEq] at h
              obtain ⟨e1, e2⟩ := h
              subst e1 e2
              simp only [ipBodyOk, Bool.and_eq_true] at hb
              obtain ⟨hid, hrecs⟩ := hb
              have hlt : IpLosslessFields c t.fields = true := by
                have := hstO _ (amLookup_mem ho)
                simp only [hid, Bool.not_true, Bool.false_or] at this
                exact this
              obtain ⟨bs, hbs, hcb⟩ := ipRecLoop_coh c t.fields hlt _ _ _ _ hl hrecs
              refine ⟨?_, hst⟩
              simp only [exportIpBody]
              rw [Out.append_eq_ok hbs rfl, hcb]
            | err => simp [hl] at h
            | panic => simp [hl] at h
            | overflow => simp [hl] at h

/-! ### sets -/

def ipSetHdrOk (t : Tables) : Bool :=
  allWire t.ipSetHdr &&
  wirePairs t.ipSetHdr 0 == [(t.ipSetHdr.indexOf "header_id", 2), (t.ipSetHdr.indexOf "length", 2)]

theorem ipParseSet_coh (c : Config) (hh : ipSetHdrOk c.t = true) (ids : List Nat) (st st' : PState)
    (i : Bytes) (s : IpSet) (r : Bytes)
    (h : ipParseSet c st i = (st', .ok (s, r))) (hst : ipStOk c ids st = true)
    (hb : ipBodyOk c ids s.id s.body = true) :
    (∃ bs, exportIpSet c.vc s = .ok bs ∧ bs ++ r = i ∧ bs.length = max s.len 4) ∧ ipStOk c ids st' = true := by
  simp only [ipSetHdrOk, Bool.and_eq_true, beq_iff_eq] at hh
  obtain ⟨hw, hp⟩ := hh
  unfold ipParseSet at h
  cases hl : parseLayout c.t.protoFromU8 c.t.ipSetHdr i with
  | none => simp [hl] at h
  | some x =>
    obtain ⟨hd, r1⟩ := x
    simp only [hl] at h
    cases ht : takeN (c.t.ipSetHdr.get "length" hd - 4) r1 with
    | none => simp [ht] at h
    | some y =>
      obtain ⟨body, r2⟩ := y
      simp only [ht] at h
      cases hbd : ipParseBody c st (c.t.ipSetHdr.get "header_id" hd) body with
      | mk st2 res =>
        cases res with
        | ok b =>
          simp only [hbd, Prod.mk.injEq, Res.ok.injEq] at h
          obtain ⟨e0, e1, e2⟩ := h
          subst e0 e1 e2
          simp only at hb
          obtain ⟨hx, hst'⟩ := ipParseBody_coh c ids _ _ _ _ _ hbd hst hb
          refine ⟨⟨(toBE 2 (c.t.ipSetHdr.get "header_id" hd) ++ toBE 2 (c.t.ipSetHdr.get "length" hd)) ++ body,
            ?_, ?_, ?_⟩, hst'⟩
          · simp only [exportIpSet]
            exact Out.append_eq_ok rfl hx
          · have hc := parseLayout_coh _ _ hw _ _ _ hl
            rw [hp] at hc
            simp only [emitPairs_cons, emitPairs_nil, List.append_nil] at hc
            simp only [Layout.get]
            rw [List.append_assoc, takeN_coh ht]
            exact hc
          · simp only [List.length_append, toBE_length, takeN_length ht]
            omega
        | err => simp [hbd] at h
        | panic => simp [hbd] at h
        | overflow => simp [hbd] at h

def ipSetsOk (c : Config) (ids : List Nat) (ss : List IpSet) : Bool :=
  ss.all fun s => ipBodyOk c ids s.id s.body

/-- wire length of the decoded sets, from their own length fields -/
def ipSetsLen : List IpSet → Nat
  | [] => 0
  | s :: ss => max s.len 4 + ipSetsLen ss

/-- the decoded sets re-export to a PREFIX of the message body; `left` is what the parser dropped
    at the first set that did not decode -/
theorem ipParseSets_coh (c : Config) (hh : ipSetHdrOk c.t = true) (ids : List Nat) :
    ∀ (fuel : Nat) (st st' : PState) (i : Bytes) (ss : List IpSet),
      ipParseSets c fuel st i = (st', .ok ss) → ipStOk c ids st = true → ipSetsOk c ids ss = true →
      ∃ bs left, Out.concat (ss.map (exportIpSet c.vc)) = .ok bs ∧ bs ++ left = i ∧ bs.length = ipSetsLen ss := by
  intro fuel
  induction fuel with
  | zero => intro st st' i ss h; simp [ipParseSets] at h
  | succ fuel ih =>
    intro st st' i ss h hst hss
    unfold ipParseSets at h
    cases hs : ipParseSet c st i with
    | mk st1 res =>
      cases res with
      | ok sr =>
        obtain ⟨s, r1⟩ := sr
        simp only [hs] at h
        by_cases hlen : r1.length = i.length
        · simp [hlen] at h
        · simp only [hlen, ↓reduceIte] at h
          cases hrest : ipParseSets c fuel st1 r1 with
          | mk st2 res2 =>
            cases res2 with
            | ok ss' =>
              simp only [hrest, Prod.mk.injEq, Res.ok.injEq] at h
              obtain ⟨_, e1⟩ := h
              subst e1
              simp only [ipSetsOk, List.all_cons, Bool.and_eq_true] at hss
              obtain ⟨hs1, hs2⟩ := hss
              obtain ⟨⟨b1, hb1, hc1, hl1⟩, hst1⟩ := ipParseSet_coh c hh ids _ _ _ _ _ hs hst hs1
              obtain ⟨b2, left, hb2, hc2, hl2⟩ := ih _ _ _ _ hrest hst1 hs2
              refine ⟨b1 ++ b2, left, ?_, ?_, ?_⟩
              · simp only [List.map_cons, Out.concat_cons]
                exact Out.append_eq_ok hb1 hb2
              · rw [List.append_assoc, hc2, hc1]
              · simp only [List.length_append, ipSetsLen, hl1, hl2]
            | err => simp [hrest] at h
            | panic => simp [hrest] at h
            | overflow => simp [hrest] at h
      | err =>
        simp only [hs, Prod.mk.injEq, Res.ok.injEq] at h
        obtain ⟨_, e1⟩ := h
        subst e1
        exact ⟨[], i, rfl, rfl, rfl⟩
      | panic => simp [hs] at h
      | overflow => simp [hs] at h

/-! ### the message -/

def ipHdrOk (t : Tables) : Bool :=
  match t.ipHdr with
  | [] => false
  | f :: fs =>
    f.kind == .const 10 && allWire fs &&
    t.ipHdrOrder.map (fun n => (t.ipHdr.indexOf n, t.ipHdr.widthOf n)) == (0, 2) :: wirePairs fs 1

/-- ids of the data / options-data sets of a decoded message -/
def ipDataIds : List IpSet → List Nat
  | [] => []
  | s :: ss =>
    match s.body with
    | .data _ _ => s.id :: ipDataIds ss
    | .optData _ _ => s.id :: ipDataIds ss
    | _ => ipDataIds ss

theorem parseIpfix_coh_ex (c : Config) (hh : ipSetHdrOk c.t = true) (hk : ipHdrOk c.t = true) (ids : List Nat)
    (st st' : PState) (i : Bytes) (h : List Nat) (ss : List IpSet) (rest : Bytes)
    (hp : parseIpfix c st i = (st', .ok (.ipfix h ss, rest)))
    (hst : ipStOk c ids st = true) (hss : ipSetsOk c ids ss = true)
    (hall : ipSetsLen ss = c.t.ipHdr.get "length" h - 16) :
    ∃ x, exportIpfix c h ss = .ok (toBE 2 10 ++ x) ∧ x ++ rest = i := by
  unfold ipHdrOk at hk
  unfold parseIpfix at hp
  cases hlay : c.t.ipHdr with
  | nil => simp [hlay] at hk
  | cons f fs =>
    simp only [hlay, Bool.and_eq_true, beq_iff_eq] at hk
    obtain ⟨⟨hk1, hk2⟩, hk3⟩ := hk
    cases hl : parseLayout c.t.protoFromU8 c.t.ipHdr i with
    | none => simp [hl] at hp
    | some x =>
      obtain ⟨hd, r1⟩ := x
      simp only [hl] at hp
      cases ht : takeN (c.t.ipHdr.get "length" hd - 16) r1 with
      | none => simp [ht] at hp
      | some y =>
        obtain ⟨body, r2⟩ := y
        simp only [ht] at hp
        cases hs : ipParseSets c (body.length + 1) st body with
        | mk st1 res =>
          cases res with
          | ok ss' =>
            simp only [hs, Prod.mk.injEq, Res.ok.injEq, Packet.ipfix.injEq] at hp
            obtain ⟨_, ⟨e1, e2⟩, e3⟩ := hp
            subst e1 e2 e3
            obtain ⟨b2, left, hb2, hc2, hl2⟩ := ipParseSets_coh c hh ids _ _ _ _ _ hs hst hss
            have hbl := takeN_length ht
            have hleft : left = [] := by
              have : (b2 ++ left).length = body.length := by rw [hc2]
              rw [List.length_append] at this
              apply List.eq_nil_of_length_eq_zero
              omega
            subst hleft
            rw [List.append_nil] at hc2
            subst hc2
            have hl' := hl
            rw [hlay] at hl'
            obtain ⟨hg, hc1⟩ := parseLayout_const_coh _ f fs 10 hk1 hk2 _ _ _ hl'
            have hexp : exportByOrder c.t.ipHdr c.t.ipHdrOrder hd =
                toBE 2 10 ++ emitPairs hd (wirePairs fs 1) := by
              rw [exportByOrder_eq_emitPairs, hlay, hk3, emitPairs_cons]
              simp only [hg]
            refine ⟨emitPairs hd (wirePairs fs 1) ++ b2, ?_, ?_⟩
            · simp only [exportIpfix]
              rw [Out.append_eq_ok rfl hb2, hexp, List.append_assoc]
            · rw [List.append_assoc, takeN_coh ht, hc1]
          | err => simp [hs] at hp
          | panic => simp [hs] at hp
          | overflow => simp [hs] at hp

theorem parseIpfix_coh (c : Config) (hh : ipSetHdrOk c.t = true) (hk : ipHdrOk c.t = true) (ids : List Nat)
    (st st' : PState) (i : Bytes) (h : List Nat) (ss : List IpSet) (rest : Bytes)
    (hp : parseIpfix c st i = (st', .ok (.ipfix h ss, rest)))
    (hst : ipStOk c ids st = true) (hss : ipSetsOk c ids ss = true)
    (hall : ipSetsLen ss = c.t.ipHdr.get "length" h - 16) :
    exportIpfix c h ss = .ok (toBE 2 10 ++ i.take (i.length - rest.length)) := by
  obtain ⟨x, hx, hc⟩ := parseIpfix_coh_ex c hh hk ids st st' i h ss rest hp hst hss hall
  rw [hx, prefix_eq_take hc]

/-! ### the message-level class -/

def ipSetOk (c : Config) (ids : List Nat) (s : IpSet) : Bool :=
  match s.body with
  | .template t => noEnterprise t.fields && (!ids.contains t.id || IpLosslessFields c t.fields)
  | .optTemplate t => noEnterprise t.fields && (!ids.contains t.id || IpLosslessFields c t.fields)
  | .data recs _ => RecsOk c.vc recs
  | .optData recs _ => RecsOk c.vc recs

/-- THE CLASS on which IPFIX re-export is byte-exact:
    * every set of the message was decoded (the decoded sets' lengths add up to `length - 16`);
    * no field specifier in a template / options-template set of the message carries the
      enterprise bit;
    * every template or options template that can govern one of the message's data sets (cached in
      `st` or announced in the message) has only fixed-length (`len ≠ 65535`) fields that are
      enterprise-specific (raw bytes) or `LosslessField`;
    * every decoded data value is `ValueOk`. -/
def IpLossless (c : Config) (st : PState) (h : List Nat) (ss : List IpSet) : Bool :=
  ipStOk c (ipDataIds ss) st && ss.all (ipSetOk c (ipDataIds ss)) &&
  ipSetsLen ss == c.t.ipHdr.get "length" h - 16

theorem mem_ipDataIds : ∀ (ss : List IpSet) (s : IpSet),
    s ∈ ss → (∃ recs pad, s.body = .data recs pad ∨ s.body = .optData recs pad) → s.id ∈ ipDataIds ss := by
  intro ss
  induction ss with
  | nil => intro s h; cases h
  | cons x xs ih =>
    intro s hm hb
    simp only [List.mem_cons] at hm
    rcases hm with hm | hm
    · subst hm
      obtain ⟨recs, pad, hb | hb⟩ := hb
      · simp only [ipDataIds, hb]; exact List.mem_cons_self
      · simp only [ipDataIds, hb]; exact List.mem_cons_self
    · have := ih s hm hb
      simp only [ipDataIds]
      split
      · exact List.mem_cons_of_mem _ this
      · exact List.mem_cons_of_mem _ this
      · exact this

theorem ipSetsOk_of_lossless (c : Config) (ss : List IpSet)
    (h : ss.all (ipSetOk c (ipDataIds ss)) = true) : ipSetsOk c (ipDataIds ss) ss = true := by
  simp only [ipSetsOk, List.all_eq_true] at h ⊢
  intro s hs
  have h1 := h s hs
  unfold ipSetOk at h1
  cases hb : s.body with
  | template t => simp only [hb] at h1; simp only [ipBodyOk]; exact h1
  | optTemplate t => simp only [hb] at h1; simp only [ipBodyOk]; exact h1
  | data recs pad =>
    simp only [hb] at h1
    simp only [ipBodyOk, Bool.and_eq_true]
    refine ⟨?_, h1⟩
    simpa using mem_ipDataIds ss s hs ⟨recs, pad, Or.inl hb⟩
  | optData recs pad =>
    simp only [hb] at h1
    simp only [ipBodyOk, Bool.and_eq_true]
    refine ⟨?_, h1⟩
    simpa using mem_ipDataIds ss s hs ⟨recs, pad, Or.inr hb⟩

/-- observable of one `parseIpfix` call: (what `to_be_bytes` returns, the bytes the message occupied) -/
def ipReexport (c : Config) (st : PState) (i : Bytes) : Option (Out Bytes × Bytes) :=
  match parseIpfix c st i with
  | (_, .ok (.ipfix h ss, rest)) => some (exportIpfix c h ss, toBE 2 10 ++ i.take (i.length - rest.length))
  | _ => none

end Netflow.A7
