/-
  Lemmas/C1xOracles.lean — helper lemmas for three runtime-oracle clauses that had no model theorem:
    * `Findings.noRecordsOfUnknownTemplates` (C17),
    * equality of the V9 caches of the flag-off and the flag-on run (C17),
    * `Preds.noRecordsFor` (C07).
  Property theorems are in Props/C17b.lean and Props/C07b.lean.
-/
import NetflowModel.Lemmas.A2State
import NetflowModel.Lemmas.A3Local
import NetflowModel.Lemmas.B2Feature
import NetflowModel.Findings
namespace Netflow.C1x
open Netflow

/-! ## 1. `Findings.noRecordsOfUnknownTemplates` : the predicate's bookkeeping, named -/

/-- (v9 data templates, ipfix templates, ipfix options templates) : id ↦ has an unknown-typed field -/
abbrev Track := List (Nat × Bool) × List (Nat × Bool) × List (Nat × Bool)

def unkV9 (c : Config) (t : V9Template) : Bool := t.fields.any fun f => c.t.v9Ty (c.t.v9Field f.typ) == .unknown
def unkIp (c : Config) (fs : List IpTField) : Bool := fs.any fun f => f.ent.isNone && c.t.ipTy (c.t.ipField f.typ) == .unknown

def initTrack (c : Config) (st : PState) : Track :=
  (st.v9T.map (fun e => (e.1, unkV9 c e.2)), st.ipT.map (fun e => (e.1, unkIp c e.2.fields)),
   st.ipO.map (fun e => (e.1, unkIp c e.2.fields)))

def stepV9 (c : Config) (acc : Track × Bool) (s : V9Set) : Track × Bool :=
  let (m, ok) := acc
  match s.body with
  | .templates ts _ => ((ts.foldl (fun t x => (x.id, unkV9 c x) :: t) m.1, m.2.1, m.2.2), ok)
  | .optTemplates ts _ => ((m.1.filter (fun e => !(ts.any fun x => x.id == e.1)), m.2.1, m.2.2), ok)
  | .data recs _ => (m, ok && (recs.isEmpty || (m.1.lookup s.id) != some true))
  | _ => (m, ok)

def stepIp (c : Config) (acc : Track × Bool) (s : IpSet) : Track × Bool :=
  let (m, ok) := acc
  match s.body with
  | .template t => ((m.1, (t.id, unkIp c t.fields) :: m.2.1, m.2.2.filter (·.1 != t.id)), ok)
  | .optTemplate t => ((m.1, m.2.1.filter (·.1 != t.id), (t.id, unkIp c t.fields) :: m.2.2), ok)
  | .data recs _ => (m, ok && (recs.isEmpty || (m.2.1.lookup s.id) != some true))
  | .optData recs _ => (m, ok && (recs.isEmpty || (m.2.2.lookup s.id) != some true))

def stepPkt (c : Config) (acc : Track × Bool) (p : Packet) : Track × Bool :=
  match p with
  | .v9 _ ss => ss.foldl (stepV9 c) acc
  | .ipfix _ ss => ss.foldl (stepIp c) acc
  | _ => acc

/-- the oracle predicate is the fold of `stepPkt` from `initTrack` -/
theorem noRecords_eq (c : Config) (before after : PState) (pkts : List Packet) :
    Findings.noRecordsOfUnknownTemplates c before after pkts =
      (pkts.foldl (stepPkt c) (initTrack c before, true)).2 := rfl


/-! ### association lists (`lookup`, most recent first) against the sorted maps -/

theorem lookup_cons_eq {β : Type} (id k : Nat) (b : β) (m : List (Nat × β)) :
    ((k, b) :: m).lookup id = if id = k then some b else m.lookup id := by
  by_cases h : id = k
  · subst h; simp [List.lookup]
  · have : (id == k) = false := by simpa using h
    simp [List.lookup, this, h]

theorem lookup_map_eq {α β : Type} (f : α → β) (id : Nat) : ∀ l : List (Nat × α),
    (l.map (fun e => (e.1, f e.2))).lookup id = (amLookup id l).map f := by
  intro l
  induction l with
  | nil => rfl
  | cons x xs ih =>
    obtain ⟨k, v⟩ := x
    simp only [List.map_cons, lookup_cons_eq, amLookup, ih]
    split <;> rfl

/-- filtering on a predicate of the key -/
theorem lookup_filter_key {β : Type} (p : Nat → Bool) (q : Nat × β → Bool) (hq : ∀ e, q e = !p e.1) (id : Nat) :
    ∀ m : List (Nat × β), (m.filter q).lookup id = if p id then none else m.lookup id := by
  intro m
  induction m with
  | nil => simp
  | cons x xs ih =>
    obtain ⟨k, b⟩ := x
    by_cases hk : p k = true
    · have : q (k, b) = false := by rw [hq]; simp [hk]
      rw [List.filter_cons_of_neg (by simp [this]), ih, lookup_cons_eq]
      by_cases hid : id = k
      · subst hid; simp [hk]
      · simp [hid]
    · have hk' : p k = false := by simpa using hk
      have : q (k, b) = true := by rw [hq]; simp [hk']
      rw [List.filter_cons_of_pos this, lookup_cons_eq, lookup_cons_eq, ih]
      by_cases hid : id = k
      · subst hid; simp [hk']
      · simp [hid]

theorem lookup_filter_ne {β : Type} (k id : Nat) (m : List (Nat × β)) :
    (m.filter (·.1 != k)).lookup id = if id = k then none else m.lookup id := by
  have := lookup_filter_key (β := β) (fun x => x == k) (·.1 != k) (fun e => rfl) id m
  rw [this]
  by_cases h : id = k <;> simp [h]


/-! ### the correspondence between the predicate's bookkeeping and the real caches

  Only one direction is needed (and only that one survives `amErase` on a map with duplicate keys): WHEN
  the predicate has an entry for an id, the cache holds a template for it and the entry says whether that
  template has an unknown-typed field.  No well-formedness of the caches is required. -/

def Corr (c : Config) (m : Track) (st : PState) : Prop :=
  (∀ id x, m.1.lookup id = some x → (amLookup id st.v9T).map (unkV9 c) = some x) ∧
  (∀ id x, m.2.1.lookup id = some x → (amLookup id st.ipT).map (fun t => unkIp c t.fields) = some x) ∧
  (∀ id x, m.2.2.lookup id = some x → (amLookup id st.ipO).map (fun t => unkIp c t.fields) = some x)

theorem corr_init (c : Config) (st : PState) : Corr c (initTrack c st) st :=
  ⟨fun id x h => by rw [← h]; exact (lookup_map_eq _ id _).symm,
   fun id x h => by rw [← h]; exact (lookup_map_eq (fun t : IpTemplate => unkIp c t.fields) id _).symm,
   fun id x h => by rw [← h]; exact (lookup_map_eq (fun t : IpOptTemplate => unkIp c t.fields) id _).symm⟩

theorem foldl_templates (c : Config) : ∀ (ts : List V9Template) (m : List (Nat × Bool)) (st : PState),
    (∀ id x, m.lookup id = some x → (amLookup id st.v9T).map (unkV9 c) = some x) →
    ∀ id x, (ts.foldl (fun t x => (x.id, unkV9 c x) :: t) m).lookup id = some x →
      (amLookup id (insertV9Templates st ts).v9T).map (unkV9 c) = some x := by
  intro ts
  induction ts with
  | nil => intro m st h id x; exact h id x
  | cons t ts ih =>
    intro m st h id x
    simp only [List.foldl_cons, insertV9Templates]
    apply ih
    intro id' x'
    simp only [lookup_cons_eq, amLookup_amInsert_a2]
    by_cases e : id' = t.id
    · simp only [e, ↓reduceIte]; intro hx; rw [← hx]; rfl
    · simp only [e, ↓reduceIte]; exact h id' x'

/-- an id not redefined by the options templates keeps its V9 data-template entry -/
theorem optTemplates_v9T (ts : List V9OptTemplate) (st : PState) (id : Nat)
    (h : (ts.any fun x => x.id == id) = false) :
    amLookup id (insertV9OptTemplates st ts).v9T = amLookup id st.v9T := by
  apply (insertV9OptTemplates_other id ts st ?_).1
  intro u hu e
  rw [List.any_eq_false] at h
  exact h u hu (by simp [e])

theorem unkV9_true {c : Config} {t : V9Template} (h : unkV9 c t = true) :
    ∃ f ∈ t.fields, c.t.v9Ty (c.t.v9Field f.typ) = .unknown := by
  simpa [unkV9] using h

theorem unkIp_true {c : Config} {fs : List IpTField} (h : unkIp c fs = true) :
    ∃ f ∈ fs, f.ent = none ∧ c.t.ipTy (c.t.ipField f.typ) = .unknown := by
  simpa [unkIp] using h

/-- the predicate's test on a data set passes when the cached template has no unknown-typed field -/
theorem lookup_ne_true {m : List (Nat × Bool)} {id : Nat} {o : Option Bool}
    (h : ∀ x, m.lookup id = some x → o = some x) (ho : o = some false) :
    (m.lookup id != some true) = true := by
  cases hl : m.lookup id with
  | none => rfl
  | some x =>
    have := h x hl
    rw [ho] at this
    simp only [Option.some.injEq] at this
    subst this; rfl

/-- flag off: one REPORTED V9 flowset body moves the predicate's bookkeeping exactly as it moves the
    caches, and never falsifies the predicate -/
theorem stepV9_body (c : Config) (st st' : PState) (id len : Nat) (body : Bytes) (b : V9Body) (m : Track) (ok : Bool)
    (hc : Corr c m st)
    (h : v9ParseBody (B2.flag c false) st id body = (st', .ok b)) :
    (stepV9 c (m, ok) ⟨id, len, b⟩).2 = ok ∧ Corr c (stepV9 c (m, ok) ⟨id, len, b⟩).1 st' := by
  obtain ⟨c1, c2, c3⟩ := hc
  by_cases h1 : id = c.t.v9TemplateId
  · simp only [v9ParseBody, if_pos h1] at h
    cases hm : many0 parseV9Template body with
    | ok x =>
      obtain ⟨ts, pad⟩ := x
      simp only [hm, Prod.mk.injEq, Res.ok.injEq] at h
      obtain ⟨e1, e2⟩ := h
      subst e1 e2
      obtain ⟨f1, f2⟩ := insertV9Templates_ip ts st
      refine ⟨rfl, foldl_templates c ts m.1 st c1, ?_, ?_⟩
      · intro id'; rw [f1]; exact c2 id'
      · intro id'; rw [f2]; exact c3 id'
    | err => simp [hm] at h
    | outOfFuel => simp [hm] at h
  · by_cases h2 : id = c.t.v9OptTemplateId
    · simp only [v9ParseBody, if_neg h1, if_pos h2] at h
      cases hm : many0 parseV9OptTemplate body with
      | ok x =>
        obtain ⟨ts, pad⟩ := x
        simp only [hm, Prod.mk.injEq, Res.ok.injEq] at h
        obtain ⟨e1, e2⟩ := h
        subst e1 e2
        obtain ⟨f1, f2⟩ := insertV9OptTemplates_ip ts st
        refine ⟨rfl, ?_, ?_, ?_⟩
        · intro id' x'
          show (m.1.filter (fun e => !(ts.any fun x => x.id == e.1))).lookup id' = some x' → _
          rw [lookup_filter_key (fun k => ts.any fun x => x.id == k) _ (fun e => rfl) id' m.1]
          cases ha : (ts.any fun x => x.id == id') with
          | true => simp
          | false =>
            simp only [Bool.false_eq_true, ↓reduceIte]
            rw [optTemplates_v9T ts st id' ha]
            exact c1 id' x'
        · intro id'; rw [f1]; exact c2 id'
        · intro id'; rw [f2]; exact c3 id'
      | err => simp [hm] at h
      | outOfFuel => simp [hm] at h
    · cases hO : amLookup id st.v9O with
      | some ot =>
        simp only [v9ParseBody, if_neg h1, if_neg h2, hO] at h
        cases hsl : v9ScopeLoop (B2.flag c false) ot.scope body with
        | none => simp [hsl] at h
        | some x =>
          obtain ⟨ss, r⟩ := x
          simp only [hsl] at h
          cases hol : v9OptLoop (B2.flag c false) ot.opts r with
          | none => simp [hol] at h
          | some y =>
            obtain ⟨os, pad⟩ := y
            simp only [hol, Prod.mk.injEq, Res.ok.injEq] at h
            obtain ⟨e1, e2⟩ := h
            subst e1 e2
            exact ⟨rfl, c1, c2, c3⟩
      | none =>
        cases hT : amLookup id st.v9T with
        | none => simp [v9ParseBody, if_neg h1, if_neg h2, hO, hT] at h
        | some t =>
          cases hu : unkV9 c t with
          | true =>
            rw [B2.v9ParseBody_unknown_off c st id body t h1 h2 hO hT (unkV9_true hu)] at h
            by_cases h0 : v9TotalSize t.fields = 0
            · simp [h0] at h
            · simp only [if_neg h0, Prod.mk.injEq, Res.ok.injEq] at h
              obtain ⟨e1, e2⟩ := h
              subst e1 e2
              refine ⟨?_, c1, c2, c3⟩
              simp [stepV9]
          | false =>
            have hl := lookup_ne_true (c1 id) (by rw [hT]; simp [hu])
            simp only [v9ParseBody, if_neg h1, if_neg h2, hO, hT] at h
            by_cases h0 : v9TotalSize t.fields = 0
            · simp [h0] at h
            · simp only [if_neg h0, Prod.mk.injEq, Res.ok.injEq] at h
              obtain ⟨e1, e2⟩ := h
              subst e1 e2
              refine ⟨?_, c1, c2, c3⟩
              simp only [stepV9, hl, Bool.or_true, Bool.and_true]

/-- flag off: one REPORTED IPFIX set body, same -/
theorem stepIp_body (c : Config) (st st' : PState) (id len : Nat) (body : Bytes) (b : IpBody) (m : Track) (ok : Bool)
    (hc : Corr c m st)
    (h : ipParseBody (B2.flag c false) st id body = (st', .ok b)) :
    (stepIp c (m, ok) ⟨id, len, b⟩).2 = ok ∧ Corr c (stepIp c (m, ok) ⟨id, len, b⟩).1 st' := by
  obtain ⟨c1, c2, c3⟩ := hc
  by_cases h1 : id < c.t.ipSetMinRange ∧ id ≠ c.t.ipOptTemplateId
  · simp only [ipParseBody, if_pos h1] at h
    cases hm : parseIpTemplate body with
    | ok t =>
      simp only [hm] at h
      by_cases hv : ipValid t.fields = true
      · simp only [hv, ↓reduceIte, Prod.mk.injEq, Res.ok.injEq] at h
        obtain ⟨e1, e2⟩ := h
        subst e1 e2
        refine ⟨rfl, c1, ?_, ?_⟩
        · intro id' x'
          show ((t.id, unkIp c t.fields) :: m.2.1).lookup id' = some x' → _
          simp only [lookup_cons_eq, amLookup_amInsert_a2]
          by_cases e : id' = t.id
          · simp only [e, ↓reduceIte]; intro hx; rw [← hx]; rfl
          · simp only [e, ↓reduceIte]; exact c2 id' x'
        · intro id' x'
          show (m.2.2.filter (·.1 != t.id)).lookup id' = some x' → _
          rw [lookup_filter_ne]
          by_cases e : id' = t.id
          · simp [e]
          · simp only [e, ↓reduceIte, amLookup_amErase_ne_a2 e]; exact c3 id' x'
      · simp [hv] at h
    | err => simp [hm] at h
    | panic => simp [hm] at h
    | overflow => simp [hm] at h
  · by_cases h2 : id = c.t.ipOptTemplateId
    · simp only [ipParseBody, if_neg h1, if_pos h2] at h
      cases hm : parseIpOptTemplate body with
      | ok t =>
        simp only [hm] at h
        by_cases hv : ipValid t.fields = true
        · simp only [hv, ↓reduceIte, Prod.mk.injEq, Res.ok.injEq] at h
          obtain ⟨e1, e2⟩ := h
          subst e1 e2
          refine ⟨rfl, c1, ?_, ?_⟩
          · intro id' x'
            show (m.2.1.filter (·.1 != t.id)).lookup id' = some x' → _
            rw [lookup_filter_ne]
            by_cases e : id' = t.id
            · simp [e]
            · simp only [e, ↓reduceIte, amLookup_amErase_ne_a2 e]; exact c2 id' x'
          · intro id' x'
            show ((t.id, unkIp c t.fields) :: m.2.2).lookup id' = some x' → _
            simp only [lookup_cons_eq, amLookup_amInsert_a2]
            by_cases e : id' = t.id
            · simp only [e, ↓reduceIte]; intro hx; rw [← hx]; rfl
            · simp only [e, ↓reduceIte]; exact c3 id' x'
        · simp [hv] at h
      | err => simp [hm] at h
      | panic => simp [hm] at h
      | overflow => simp [hm] at h
    · cases hT : amLookup id st.ipT with
      | some t =>
        cases hu : unkIp c t.fields with
        | true =>
          rw [B2.ipParseBody_unknown_off_t c st id body t h1 h2 hT (unkIp_true hu)] at h
          simp at h
        | false =>
          have hl := lookup_ne_true (c2 id) (by rw [hT]; simp [hu])
          simp only [ipParseBody, if_neg h1, if_neg h2, hT] at h
          by_cases he : t.fields.isEmpty = true
          · simp [he] at h
          · simp only [he, Bool.false_eq_true, ↓reduceIte] at h
            cases hr : ipRecLoop (B2.flag c false) t.fields (body.length + 1) body with
            | ok x =>
              obtain ⟨recs, pad⟩ := x
              simp only [hr, Prod.mk.injEq, Res.ok.injEq] at h
              obtain ⟨e1, e2⟩ := h
              subst e1 e2
              refine ⟨?_, c1, c2, c3⟩
              simp only [stepIp, hl, Bool.or_true, Bool.and_true]
            | err => simp [hr] at h
            | panic => simp [hr] at h
            | overflow => simp [hr] at h
      | none =>
        cases hO : amLookup id st.ipO with
        | none => simp [ipParseBody, if_neg h1, if_neg h2, hT, hO] at h
        | some t =>
          cases hu : unkIp c t.fields with
          | true =>
            rw [B2.ipParseBody_unknown_off_o c st id body t h1 h2 hT hO (unkIp_true hu)] at h
            simp at h
          | false =>
            have hl := lookup_ne_true (c3 id) (by rw [hO]; simp [hu])
            simp only [ipParseBody, if_neg h1, if_neg h2, hT, hO] at h
            by_cases he : t.fields.isEmpty = true
            · simp [he] at h
            · simp only [he, Bool.false_eq_true, ↓reduceIte] at h
              cases hr : ipRecLoop (B2.flag c false) t.fields (body.length + 1) body with
              | ok x =>
                obtain ⟨recs, pad⟩ := x
                simp only [hr, Prod.mk.injEq, Res.ok.injEq] at h
                obtain ⟨e1, e2⟩ := h
                subst e1 e2
                refine ⟨?_, c1, c2, c3⟩
                simp only [stepIp, hl, Bool.or_true, Bool.and_true]
              | err => simp [hr] at h
              | panic => simp [hr] at h
              | overflow => simp [hr] at h

theorem pair_eta {α β : Type} (x : α × β) (b : β) (h : x.2 = b) : x = (x.1, b) := by
  cases x; simp at h; simp [h]

theorem stepV9_sets (c : Config) : ∀ (n : Nat) (st st' : PState) (i : Bytes) (ss : List V9Set) (r : Bytes)
    (m : Track) (ok : Bool), Corr c m st →
    v9ParseSets (B2.flag c false) n st i = (st', .ok (ss, r)) →
    (ss.foldl (stepV9 c) (m, ok)).2 = ok ∧ Corr c (ss.foldl (stepV9 c) (m, ok)).1 st' := by
  intro n
  induction n with
  | zero =>
    intro st st' i ss r m ok hc h
    simp only [v9ParseSets, Prod.mk.injEq, Res.ok.injEq] at h
    obtain ⟨e1, e2, _⟩ := h
    subst e1 e2
    exact ⟨rfl, hc⟩
  | succ n ih =>
    intro st st' i ss r m ok hc h
    by_cases hne : i = []
    · subst hne
      rw [v9ParseSets_nil] at h
      simp only [Prod.mk.injEq, Res.ok.injEq] at h
      obtain ⟨e1, e2, _⟩ := h
      subst e1 e2
      exact ⟨rfl, hc⟩
    · obtain ⟨st1, s, r1, ss', hs, hrest, e⟩ := v9ParseSets_succ_ok_inv hne h
      subst e
      obtain ⟨hd, r0, body, b, _, _, hb, es⟩ := v9ParseSet_ok_inv hs
      subst es
      obtain ⟨k1, k2⟩ := stepV9_body c st st1 _ (c.t.v9SetHdr.get "length" hd) body b m ok hc hb
      simp only [List.foldl_cons]
      rw [pair_eta _ ok k1]
      exact ih st1 st' r1 ss' r _ ok k2 hrest

theorem ipParseSet_err_state {c : Config} {st st' : PState} {i : Bytes}
    (h : ipParseSet c st i = (st', .err)) : st' = st := by
  unfold ipParseSet at h
  cases hh : parseLayout c.t.protoFromU8 c.t.ipSetHdr i with
  | none => simp only [hh, Prod.mk.injEq] at h; exact h.1.symm
  | some x =>
    obtain ⟨hd, r⟩ := x
    simp only [hh] at h
    cases ht : takeN (c.t.ipSetHdr.get "length" hd - 4) r with
    | none => simp only [ht, Prod.mk.injEq] at h; exact h.1.symm
    | some y =>
      obtain ⟨body, r'⟩ := y
      simp only [ht] at h
      cases hb : ipParseBody c st (c.t.ipSetHdr.get "header_id" hd) body with
      | mk s1 res =>
        rw [hb] at h
        cases res with
        | ok b => simp at h
        | err =>
          simp only [Prod.mk.injEq] at h
          rcases B2.ipParseBody_state c st _ body s1 _ hb with e | ⟨t, e, _⟩ | ⟨t, e, _⟩
          · rw [← h.1, e]
          · simp at e
          · simp at e
        | panic => simp at h
        | overflow => simp at h

theorem stepIp_sets (c : Config) : ∀ (f : Nat) (st st' : PState) (i : Bytes) (ss : List IpSet)
    (m : Track) (ok : Bool), Corr c m st →
    ipParseSets (B2.flag c false) f st i = (st', .ok ss) →
    (ss.foldl (stepIp c) (m, ok)).2 = ok ∧ Corr c (ss.foldl (stepIp c) (m, ok)).1 st' := by
  intro f
  induction f with
  | zero => intro st st' i ss m ok _ h; simp [ipParseSets] at h
  | succ f ih =>
    intro st st' i ss m ok hc h
    simp only [ipParseSets] at h
    cases hs : ipParseSet (B2.flag c false) st i with
    | mk st1 q =>
      rw [hs] at h
      cases q with
      | ok a =>
        obtain ⟨s, r⟩ := a
        dsimp only at h
        by_cases hlen : r.length = i.length
        · simp [hlen] at h
        · simp only [hlen, ↓reduceIte] at h
          cases hr : ipParseSets (B2.flag c false) f st1 r with
          | mk st2 q2 =>
            rw [hr] at h
            cases q2 with
            | ok ss' =>
              simp only [Prod.mk.injEq, Res.ok.injEq] at h
              obtain ⟨e1, e2⟩ := h
              subst e1 e2
              obtain ⟨hd, r0, body, b, _, _, hb, es⟩ := ipParseSet_ok_inv hs
              subst es
              obtain ⟨k1, k2⟩ := stepIp_body c st st1 _ (c.t.ipSetHdr.get "length" hd) body b m ok hc hb
              simp only [List.foldl_cons]
              rw [pair_eta _ ok k1]
              exact ih st1 st2 r ss' _ ok k2 hr
            | err => simp at h
            | panic => simp at h
            | overflow => simp at h
      | err =>
        simp only [Prod.mk.injEq, Res.ok.injEq] at h
        obtain ⟨e1, e2⟩ := h
        subst e1 e2
        rw [ipParseSet_err_state hs]
        exact ⟨rfl, hc⟩
      | panic => simp at h
      | overflow => simp at h

/-- flag off: one accepted packet moves the bookkeeping as it moves the caches -/
theorem stepPkt_packet (c : Config) (st st' : PState) (buf : Bytes) (pkt : Packet) (rest : Bytes) (m : Track) (ok : Bool)
    (hc : Corr c m st)
    (h : parsePacket (B2.flag c false) st buf = (st', .ok pkt rest)) :
    (stepPkt c (m, ok) pkt).2 = ok ∧ Corr c (stepPkt c (m, ok) pkt).1 st' := by
  rcases parsePacket_inv _ _ _ _ _ h with ⟨_, _, hs⟩ | ⟨v, _, _, _, hs⟩ | ⟨v, _, _, _, _, hs⟩ | ⟨v, kind, _, _, _, hpv⟩
  · simp at hs
  · simp at hs
  · simp at hs
  · rcases parseVersioned_ok_inv hpv with ⟨_, e, hd, rs, _, ep⟩ | ⟨_, e, hd, rs, _, ep⟩ | ⟨_, hp⟩ | ⟨_, hp⟩
    · subst e ep; exact ⟨rfl, hc⟩
    · subst e ep; exact ⟨rfl, hc⟩
    · obtain ⟨hd, r1, ss, _, hs, e⟩ := parseV9_ok_inv hp
      subst e
      exact stepV9_sets c _ st st' r1 ss rest m ok hc hs
    · obtain ⟨hd, r1, body, ss, _, _, hs, e⟩ := parseIpfix_ok_inv hp
      subst e
      exact stepIp_sets c _ st st' body ss m ok hc hs

/-- the whole call: the fold of the predicate never leaves `ok`.  (A failing packet ends the call — its
    error element is the last one and is skipped by the predicate — so templates cached by a V9 packet that
    fails midway, which are never reported, cannot be consulted by a later packet of the same call.) -/
theorem noRecords_parseBytesF (c : Config) : ∀ (f : Nat) (st st' : PState) (buf : Bytes) (pkts : List Packet)
    (m : Track) (ok : Bool), Corr c m st →
    parseBytesF (B2.flag c false) f st buf = (st', .done pkts) →
    (pkts.foldl (stepPkt c) (m, ok)).2 = ok := by
  intro f
  induction f with
  | zero => intro st st' buf pkts m ok _ h; simp [parseBytesF] at h
  | succ f ih =>
    intro st st' buf pkts m ok hc h
    unfold parseBytesF at h
    by_cases he : buf.isEmpty = true
    · simp only [he, ↓reduceIte, Prod.mk.injEq, Outcome.done.injEq] at h
      rw [← h.2]; rfl
    · simp only [he, Bool.false_eq_true, ↓reduceIte] at h
      cases hp : parsePacket (B2.flag c false) st buf with
      | mk st1 step =>
        rw [hp] at h
        cases step with
        | ok pkt rest =>
          obtain ⟨k1, k2⟩ := stepPkt_packet c st st1 buf pkt rest m ok hc hp
          dsimp only at h
          by_cases hre : rest.isEmpty = true
          · simp only [hre, ↓reduceIte, Prod.mk.injEq, Outcome.done.injEq] at h
            rw [← h.2]; exact k1
          · simp only [hre, Bool.false_eq_true, ↓reduceIte] at h
            cases hrec : parseBytesF (B2.flag c false) f st1 rest with
            | mk st2 out =>
              rw [hrec] at h
              simp only [Prod.mk.injEq] at h
              cases out with
              | done ps =>
                simp only [Outcome.cons, Outcome.done.injEq] at h
                rw [← h.2, List.foldl_cons, pair_eta _ ok k1]
                exact ih st1 st2 rest ps _ ok k2 hrec
              | panic ps => simp [Outcome.cons] at h
              | overflow ps => simp [Outcome.cons] at h
        | fail e =>
          simp only [Prod.mk.injEq, Outcome.done.injEq] at h
          rw [← h.2]; rfl
        | unallowed =>
          simp only [Prod.mk.injEq, Outcome.done.injEq] at h
          rw [← h.2]; rfl
        | panic => simp at h
        | overflow => simp at h

/-! ## 2. the V9 caches never depend on the feature flag

  Both builds walk through the SAME packet boundaries: whether a packet is accepted, and where the next
  one starts, does not depend on the flag nor on the IPFIX caches (an IPFIX message is consumed by
  `take(length - 16)` whatever happens inside).  `stepKind` / `resKind` keep exactly that information. -/

def resKind : Res (Packet × Bytes) → Nat × Bytes
  | .ok (_, r) => (0, r)
  | .err => (1, [])
  | .panic => (3, [])
  | .overflow => (4, [])

def stepKind : Step → Nat × Bytes
  | .ok _ r => (0, r)
  | .fail _ => (1, [])
  | .unallowed => (2, [])
  | .panic => (3, [])
  | .overflow => (4, [])

theorem stepKind_liftRes (v : Nat) (body : Bytes) (q : Res (Packet × Bytes)) :
    stepKind (liftRes v body q) = resKind q := by
  cases q with
  | ok a => obtain ⟨p, r⟩ := a; rfl
  | _ => rfl

theorem resKind_of_rmap {q1 q2 : Res (Packet × Bytes)}
    (h : B2.rmap Prod.snd q1 = B2.rmap Prod.snd q2) : resKind q1 = resKind q2 := by
  cases q1 with
  | ok a1 =>
    cases q2 with
    | ok a2 => obtain ⟨p1, r1⟩ := a1; obtain ⟨p2, r2⟩ := a2; simp only [B2.rmap, Res.ok.injEq] at h; simp [resKind, h]
    | _ => simp [B2.rmap] at h
  | err => cases q2 <;> simp [B2.rmap] at h ⊢
  | panic => cases q2 <;> simp [B2.rmap] at h ⊢
  | overflow => cases q2 <;> simp [B2.rmap] at h ⊢

/-- an IPFIX message never touches the V9 caches -/
theorem parseIpfix_v9_frame (c : Config) (st : PState) (i : Bytes) : AgreeV9 (parseIpfix c st i).1 st :=
  parseIpfix_inv (c := c) (I := fun x => AgreeV9 x st)
    (fun s id b hI => by
      obtain ⟨f1, f2⟩ := ipParseBody_v9_frame c s id b
      exact ⟨f1.trans hI.1, f2.trans hI.2⟩) st i ⟨rfl, rfl⟩

/-- what `parseIpfix` does to the input, as a function of the tables and the bytes only -/
def ipfixKind (c : Config) (i : Bytes) : Nat × Bytes :=
  match parseLayout c.t.protoFromU8 c.t.ipHdr i with
  | none => (1, [])
  | some (h, r) =>
    match takeN (c.t.ipHdr.get "length" h - 16) r with
    | none => (1, [])
    | some (_, r') => (0, r')

/-- acceptance and the rest of an IPFIX message depend on neither the caches nor the flag -/
theorem parseIpfix_kind (c : Config) (hw : 0 < c.t.ipSetHdr.wireLen) (st : PState) (i : Bytes) :
    resKind (parseIpfix c st i).2 = ipfixKind c i := by
  unfold parseIpfix ipfixKind
  cases hh : parseLayout c.t.protoFromU8 c.t.ipHdr i with
  | none => rfl
  | some x =>
    obtain ⟨h, r⟩ := x
    dsimp only
    cases ht : takeN (c.t.ipHdr.get "length" h - 16) r with
    | none => rfl
    | some y =>
      obtain ⟨body, r'⟩ := y
      dsimp only
      cases hs : ipParseSets c (body.length + 1) st body with
      | mk st1 q =>
        cases q with
        | ok ss => rfl
        | err => exact absurd hs (B2.ipParseSets_ne_err c hw _ _ _ _)
        | panic => have := ipParseSets_no_panic c (body.length + 1) st body; rw [hs] at this; simp at this
        | overflow =>
          have := ipParseSets_fuel c (body.length + 1) st body (Nat.lt_succ_self _)
          rw [hs] at this; simp at this

theorem parseV9_kind (c : Config) (b1 b2 : Bool) (s1 s2 : PState) (i : Bytes) (h : AgreeV9 s1 s2) :
    AgreeV9 (parseV9 (B2.flag c b1) s1 i).1 (parseV9 (B2.flag c b2) s2 i).1 ∧
    resKind (parseV9 (B2.flag c b1) s1 i).2 = resKind (parseV9 (B2.flag c b2) s2 i).2 := by
  obtain ⟨e, a⟩ := parseV9_rel (c := B2.flag c b1) (v9ParseBody_respects_agree _) s1 s2 i h
  obtain ⟨g1, g2⟩ := B2.parseV9_sim c b1 b2 s2 i
  refine ⟨?_, ?_⟩
  · rw [← g1]; exact a
  · rw [e]; exact resKind_of_rmap g2

theorem parseVersioned_kind (c : Config) (hw : 0 < c.t.ipSetHdr.wireLen) (b1 b2 : Bool) (s1 s2 : PState)
    (kind : Nat) (body : Bytes) (h : AgreeV9 s1 s2) :
    AgreeV9 (parseVersioned (B2.flag c b1) s1 kind body).1 (parseVersioned (B2.flag c b2) s2 kind body).1 ∧
    stepKind (parseVersioned (B2.flag c b1) s1 kind body).2 = stepKind (parseVersioned (B2.flag c b2) s2 kind body).2 := by
  unfold parseVersioned
  by_cases k5 : kind = 5
  · simp only [if_pos k5, B2.parseFixed_flag]
    cases parseFixed c c.t.v5Hdr c.t.v5Rec body with
    | none => exact ⟨h, rfl⟩
    | some x => obtain ⟨⟨hd, rs⟩, r⟩ := x; exact ⟨h, rfl⟩
  · simp only [if_neg k5]
    by_cases k7 : kind = 7
    · simp only [if_pos k7, B2.parseFixed_flag]
      cases parseFixed c c.t.v7Hdr c.t.v7Rec body with
      | none => exact ⟨h, rfl⟩
      | some x => obtain ⟨⟨hd, rs⟩, r⟩ := x; exact ⟨h, rfl⟩
    · simp only [if_neg k7]
      by_cases k9 : kind = 9
      · simp only [if_pos k9, stepKind_liftRes]
        exact parseV9_kind c b1 b2 s1 s2 body h
      · simp only [if_neg k9]
        by_cases k10 : kind = 10
        · simp only [if_pos k10, stepKind_liftRes]
          refine ⟨?_, ?_⟩
          · obtain ⟨a1, a2⟩ := parseIpfix_v9_frame (B2.flag c b1) s1 body
            obtain ⟨a3, a4⟩ := parseIpfix_v9_frame (B2.flag c b2) s2 body
            exact ⟨a1.trans (h.1.trans a3.symm), a2.trans (h.2.trans a4.symm)⟩
          · rw [parseIpfix_kind (B2.flag c b1) hw, parseIpfix_kind (B2.flag c b2) hw]; rfl
        · simp only [if_neg k10]
          exact ⟨h, by trivial⟩

theorem parsePacket_kind (c : Config) (hw : 0 < c.t.ipSetHdr.wireLen) (b1 b2 : Bool) (s1 s2 : PState)
    (buf : Bytes) (h : AgreeV9 s1 s2) :
    AgreeV9 (parsePacket (B2.flag c b1) s1 buf).1 (parsePacket (B2.flag c b2) s2 buf).1 ∧
    stepKind (parsePacket (B2.flag c b1) s1 buf).2 = stepKind (parsePacket (B2.flag c b2) s2 buf).2 := by
  unfold parsePacket
  cases beU 2 buf with
  | none => exact ⟨h, rfl⟩
  | some x =>
    obtain ⟨v, body⟩ := x
    dsimp only
    by_cases ha : c.allowed.contains v = true
    · simp only [ha, ↓reduceIte]
      cases c.t.dispatch.lookup v with
      | none => exact ⟨h, rfl⟩
      | some kind => exact parseVersioned_kind c hw b1 b2 s1 s2 kind body h
    · simp only [ha, Bool.false_eq_true, ↓reduceIte]
      exact ⟨h, by trivial⟩

/-- the whole call, from V9-agreeing states, under any two flag values: the V9 caches agree afterwards -/
theorem parseBytesF_v9_agree (c : Config) (hw : 0 < c.t.ipSetHdr.wireLen) (b1 b2 : Bool) :
    ∀ (f : Nat) (s1 s2 : PState) (buf : Bytes), AgreeV9 s1 s2 →
      AgreeV9 (parseBytesF (B2.flag c b1) f s1 buf).1 (parseBytesF (B2.flag c b2) f s2 buf).1 := by
  intro f
  induction f with
  | zero => intro s1 s2 buf h; exact h
  | succ f ih =>
    intro s1 s2 buf h
    unfold parseBytesF
    by_cases he : buf.isEmpty = true
    · simp only [he, ↓reduceIte]; exact h
    · simp only [he, Bool.false_eq_true, ↓reduceIte]
      obtain ⟨a, k⟩ := parsePacket_kind c hw b1 b2 s1 s2 buf h
      revert a k
      generalize parsePacket (B2.flag c b1) s1 buf = x
      generalize parsePacket (B2.flag c b2) s2 buf = y
      obtain ⟨t1, q1⟩ := x
      obtain ⟨t2, q2⟩ := y
      intro a k
      dsimp only at a k
      cases q1 with
      | ok p1 r1 =>
        cases q2 with
        | ok p2 r2 =>
          simp only [stepKind, Prod.mk.injEq, true_and] at k
          subst k
          dsimp only
          by_cases hre : r1.isEmpty = true
          · simp only [hre, ↓reduceIte]; exact a
          · simp only [hre, Bool.false_eq_true, ↓reduceIte]
            exact ih t1 t2 r1 a
        | _ => simp [stepKind] at k
      | fail e1 => cases q2 <;> first | exact a | simp [stepKind] at k
      | unallowed => cases q2 <;> first | exact a | simp [stepKind] at k
      | panic => cases q2 <;> first | exact a | simp [stepKind] at k
      | overflow => cases q2 <;> first | exact a | simp [stepKind] at k


/-! ## 3. C07 : `Preds.noRecordsFor` on the generator's buffer shape

  `pre ++ p` : a chain of self-delimiting accepted packets, then ONE packet of the protocol in question
  whose sets are: a chain `front` of sets that decode, then a set with the unknown id `tid`. -/

/-- every byte string of the list is exactly one flowset that decodes in the state reached after the
    previous ones; result: the state after them and the decoded flowsets -/
def v9SetChain (c : Config) : PState → List Bytes → Option (PState × List V9Set)
  | st, [] => some (st, [])
  | st, a :: as =>
    match v9ParseSet c st a with
    | (st1, .ok (s, [])) =>
      (match v9SetChain c st1 as with
       | some (st2, ss) => some (st2, s :: ss)
       | none => none)
    | _ => none

def ipSetChain (c : Config) : PState → List Bytes → Option (PState × List IpSet)
  | st, [] => some (st, [])
  | st, a :: as =>
    match ipParseSet c st a with
    | (st1, .ok (s, [])) =>
      (match ipSetChain c st1 as with
       | some (st2, ss) => some (st2, s :: ss)
       | none => none)
    | _ => none

theorem v9SetChain_cons_inv {c : Config} {st st2 : PState} {a : Bytes} {as : List Bytes} {ss : List V9Set}
    (h : v9SetChain c st (a :: as) = some (st2, ss)) :
    ∃ st1 s ss', v9ParseSet c st a = (st1, .ok (s, [])) ∧ v9SetChain c st1 as = some (st2, ss') ∧ ss = s :: ss' := by
  unfold v9SetChain at h
  split at h
  · rename_i st1 s hs
    split at h
    · rename_i st2' ss' hc
      simp only [Option.some.injEq, Prod.mk.injEq] at h
      exact ⟨st1, s, ss', hs, by rw [hc, h.1], h.2.symm⟩
    · simp at h
  · simp at h

theorem ipSetChain_cons_inv {c : Config} {st st2 : PState} {a : Bytes} {as : List Bytes} {ss : List IpSet}
    (h : ipSetChain c st (a :: as) = some (st2, ss)) :
    ∃ st1 s ss', ipParseSet c st a = (st1, .ok (s, [])) ∧ ipSetChain c st1 as = some (st2, ss') ∧ ss = s :: ss' := by
  unfold ipSetChain at h
  split at h
  · rename_i st1 s hs
    split at h
    · rename_i st2' ss' hc
      simp only [Option.some.injEq, Prod.mk.injEq] at h
      exact ⟨st1, s, ss', hs, by rw [hc, h.1], h.2.symm⟩
    · simp at h
  · simp at h

theorem v9ParseSet_ok_ne_nil {c : Config} (hw : c.t.v9SetHdr.wireLen = 4) {st st' : PState} {i : Bytes} {s : V9Set} {r : Bytes}
    (h : v9ParseSet c st i = (st', .ok (s, r))) : i ≠ [] := by
  obtain ⟨hd, r1, body, b, hh, _, _, _⟩ := v9ParseSet_ok_inv h
  obtain ⟨a1, _⟩ := parseLayout_consumes _ _ _ _ _ hh
  intro e; subst e; simp at a1; omega

/-- the flowsets of `front` decode, then the flowset loop fails on what follows: the packet's loop fails
    with the state reached at the failure -/
theorem v9ParseSets_chain_err (c : Config) (hw : c.t.v9SetHdr.wireLen = 4) :
    ∀ (front : List Bytes) (st st2 st3 : PState) (ss : List V9Set) (n : Nat) (b : Bytes),
      v9SetChain c st front = some (st2, ss) → v9ParseSets c n st2 b = (st3, .err) →
      v9ParseSets c (front.length + n) st (front.flatten ++ b) = (st3, .err) := by
  intro front
  induction front with
  | nil =>
    intro st st2 st3 ss n b h1 h2
    simp only [v9SetChain, Option.some.injEq, Prod.mk.injEq] at h1
    rw [← h1.1] at h2
    simpa using h2
  | cons a as ih =>
    intro st st2 st3 ss n b h1 h2
    obtain ⟨st1, s, ss', hs, hc, _⟩ := v9SetChain_cons_inv h1
    have hne := v9ParseSet_ok_ne_nil hw hs
    have e1 : (a :: as).length + n = (as.length + n) + 1 := by simp only [List.length_cons]; omega
    have e2 : (a :: as).flatten ++ b = a ++ (as.flatten ++ b) := by simp
    rw [e1, e2]
    have hs' := v9ParseSet_ext c _ _ _ _ _ hs (as.flatten ++ b)
    rw [List.nil_append] at hs'
    exact v9ParseSets_succ_err_intro (by simp [hne]) hs' (ih st1 st2 st3 ss' n b hc h2)

/-- a flowset whose header carries the data id `tid`, unknown to V9 in state `st` : the loop fails -/
theorem v9ParseSets_unknown_head (c : Config) (hw : c.t.v9SetHdr.wireLen = 4) (st : PState) (n : Nat) (b : Bytes)
    (sh : List Nat) (r1 : Bytes) (tid : Nat)
    (hs : parseLayout c.t.protoFromU8 c.t.v9SetHdr b = some (sh, r1))
    (hid : c.t.v9SetHdr.get "flowset_id" sh = tid)
    (h1 : tid ≠ c.t.v9TemplateId) (h2 : tid ≠ c.t.v9OptTemplateId) (hunk : ¬ KnownV9 st tid) :
    v9ParseSets c (n + 1) st b = (st, .err) := by
  have hne : b ≠ [] := by
    obtain ⟨a1, _⟩ := parseLayout_consumes _ _ _ _ _ hs
    intro e; subst e; simp at a1; omega
  have hO : amLookup tid st.v9O = none := by
    cases h : amLookup tid st.v9O with
    | none => rfl
    | some x => exact absurd (Or.inr (by simp [h])) hunk
  have hT : amLookup tid st.v9T = none := by
    cases h : amLookup tid st.v9T with
    | none => rfl
    | some x => exact absurd (Or.inl (by simp [h])) hunk
  apply v9ParseSets_succ_err_here hne
  unfold v9ParseSet
  simp only [hs, hid]
  cases ht : takeN (c.t.v9SetHdr.get "length" sh - 4) r1 with
  | none => rfl
  | some x =>
    obtain ⟨body, r'⟩ := x
    simp [v9ParseBody, h1, h2, hO, hT]

/-- the whole V9 packet is rejected with a `Partial` error carrying everything after the version word -/
theorem parsePacket_v9_unknown (c : Config) (hw : c.t.v9SetHdr.wireLen = 4) (st st2 : PState) (p body : Bytes) (v : Nat)
    (hd : List Nat) (front : List Bytes) (ss : List V9Set) (b : Bytes) (sh : List Nat) (r1 : Bytes) (tid : Nat)
    (hv : beU 2 p = some (v, body)) (ha : c.allowed.contains v = true) (hdp : c.t.dispatch.lookup v = some 9)
    (hh : parseLayout c.t.protoFromU8 c.t.v9Hdr body = some (hd, front.flatten ++ b))
    (hfront : v9SetChain c st front = some (st2, ss))
    (hcount : front.length < c.t.v9Hdr.get "count" hd)
    (hs : parseLayout c.t.protoFromU8 c.t.v9SetHdr b = some (sh, r1))
    (hid : c.t.v9SetHdr.get "flowset_id" sh = tid)
    (h1 : tid ≠ c.t.v9TemplateId) (h2 : tid ≠ c.t.v9OptTemplateId) (hunk : ¬ KnownV9 st2 tid) :
    parsePacket c st p = (st2, .fail (.partialParse 9 body)) := by
  obtain ⟨n, hn⟩ : ∃ n, c.t.v9Hdr.get "count" hd = front.length + (n + 1) := ⟨c.t.v9Hdr.get "count" hd - front.length - 1, by omega⟩
  have hl := v9ParseSets_chain_err c hw front st st2 st2 ss (n + 1) b hfront
    (v9ParseSets_unknown_head c hw st2 n b sh r1 tid hs hid h1 h2 hunk)
  have e : parseV9 c st body = (st2, .err) := by simp [parseV9, hh, hn, hl]
  simp only [parsePacket, hv, ha, ↓reduceIte, hdp]
  rw [parseVersioned_9, e]; rfl

/-! ### IPFIX -/

theorem ipParseSet_ok_ne_nil {c : Config} (hw : 0 < c.t.ipSetHdr.wireLen) {st st' : PState} {i : Bytes} {s : IpSet} {r : Bytes}
    (h : ipParseSet c st i = (st', .ok (s, r))) : i ≠ [] := by
  have := ipParseSet_progress c hw _ _ _ _ _ h
  intro e; subst e; simp at this

/-- the sets of `front` decode, the next set fails: the set loop reports exactly the sets of `front` -/
theorem ipParseSets_chain_stop (c : Config) (hw : 0 < c.t.ipSetHdr.wireLen) :
    ∀ (front : List Bytes) (st st2 st3 : PState) (ss : List IpSet) (f : Nat) (b : Bytes),
      ipSetChain c st front = some (st2, ss) → ipParseSet c st2 b = (st3, .err) →
      front.length < f →
      ipParseSets c f st (front.flatten ++ b) = (st3, .ok ss) := by
  intro front
  induction front with
  | nil =>
    intro st st2 st3 ss f b h1 h2 hf
    simp only [ipSetChain, Option.some.injEq, Prod.mk.injEq] at h1
    obtain ⟨e1, e2⟩ := h1
    subst e1 e2
    obtain ⟨f', rfl⟩ : ∃ f', f = f' + 1 := ⟨f - 1, by simp at hf; omega⟩
    simp [ipParseSets, h2]
  | cons a as ih =>
    intro st st2 st3 ss f b h1 h2 hf
    obtain ⟨st1, s, ss', hs, hc, e⟩ := ipSetChain_cons_inv h1
    subst e
    obtain ⟨f', rfl⟩ : ∃ f', f = f' + 1 := ⟨f - 1, by simp at hf; omega⟩
    have hne := ipParseSet_ok_ne_nil hw hs
    have e2 : (a :: as).flatten ++ b = a ++ (as.flatten ++ b) := by simp
    rw [e2]
    have hs' := ipParseSet_ext c _ _ _ _ _ hs (as.flatten ++ b)
    rw [List.nil_append] at hs'
    have hlen : ¬ (as.flatten ++ b).length = (a ++ (as.flatten ++ b)).length := by
      have : 0 < a.length := by cases a with | nil => exact absurd rfl hne | cons _ _ => simp
      simp only [List.length_append]; omega
    have := ih st1 st2 st3 ss' f' b hc h2 (by simp only [List.length_cons] at hf; omega)
    simp only [ipParseSets, hs', hlen, ↓reduceIte, this]

/-- a set whose header carries the data id `tid`, unknown to IPFIX in state `st` : it fails, state unchanged -/
theorem ipParseSet_unknown_head (c : Config) (st : PState) (b : Bytes) (sh : List Nat) (r1 : Bytes) (tid : Nat)
    (hs : parseLayout c.t.protoFromU8 c.t.ipSetHdr b = some (sh, r1))
    (hid : c.t.ipSetHdr.get "header_id" sh = tid)
    (h1 : c.t.ipSetMinRange ≤ tid) (h2 : tid ≠ c.t.ipOptTemplateId) (hunk : ¬ KnownIp st tid) :
    ipParseSet c st b = (st, .err) := by
  have hT : amLookup tid st.ipT = none := by
    cases h : amLookup tid st.ipT with
    | none => rfl
    | some x => exact absurd (Or.inl (by simp [h])) hunk
  have hO : amLookup tid st.ipO = none := by
    cases h : amLookup tid st.ipO with
    | none => rfl
    | some x => exact absurd (Or.inr (by simp [h])) hunk
  have h1' : ¬ tid < c.t.ipSetMinRange := by omega
  unfold ipParseSet
  simp only [hs, hid]
  cases ht : takeN (c.t.ipSetHdr.get "length" sh - 4) r1 with
  | none => rfl
  | some x =>
    obtain ⟨body, r'⟩ := x
    simp [ipParseBody, h1', h2, hO, hT]

/-- the IPFIX message is accepted, reporting exactly the sets in front of the unknown one -/
theorem parsePacket_ipfix_unknown (c : Config) (hw : 0 < c.t.ipSetHdr.wireLen) (st st2 : PState) (p body : Bytes) (v : Nat)
    (hd : List Nat) (r msg rest : Bytes) (front : List Bytes) (ss : List IpSet) (b : Bytes) (sh : List Nat) (r1 : Bytes) (tid : Nat)
    (hv : beU 2 p = some (v, body)) (ha : c.allowed.contains v = true) (hdp : c.t.dispatch.lookup v = some 10)
    (hh : parseLayout c.t.protoFromU8 c.t.ipHdr body = some (hd, r))
    (ht : takeN (c.t.ipHdr.get "length" hd - 16) r = some (msg, rest))
    (hmsg : msg = front.flatten ++ b)
    (hfront : ipSetChain c st front = some (st2, ss))
    (hs : parseLayout c.t.protoFromU8 c.t.ipSetHdr b = some (sh, r1))
    (hid : c.t.ipSetHdr.get "header_id" sh = tid)
    (h1 : c.t.ipSetMinRange ≤ tid) (h2 : tid ≠ c.t.ipOptTemplateId) (hunk : ¬ KnownIp st2 tid) :
    parsePacket c st p = (st2, .ok (.ipfix hd ss) rest) := by
  have hflen : front.length ≤ front.flatten.length := by
    clear hmsg
    induction front generalizing st ss with
    | nil => simp
    | cons a as ih =>
      obtain ⟨st1, s, ss', hs1, hc, _⟩ := ipSetChain_cons_inv hfront
      have hne := ipParseSet_ok_ne_nil hw hs1
      have : 0 < a.length := by cases a with | nil => exact absurd rfl hne | cons _ _ => simp
      have := ih st1 ss' hc
      simp only [List.length_cons, List.flatten_cons, List.length_append]; omega
  have hl := ipParseSets_chain_stop c hw front st st2 st2 ss (msg.length + 1) b hfront
    (ipParseSet_unknown_head c st2 b sh r1 tid hs hid h1 h2 hunk)
    (by rw [hmsg, List.length_append]; omega)
  rw [← hmsg] at hl
  have e : parseIpfix c st body = (st2, .ok (.ipfix hd ss, rest)) := by simp [parseIpfix, hh, ht, hl]
  simp only [parsePacket, hv, ha, ↓reduceIte, hdp]
  rw [parseVersioned_10, e]; rfl

/-! ### the packets in front -/

theorem parsePacket_ok_not_error {c : Config} {st st' : PState} {a : Bytes} {pkt : Packet} {rest : Bytes}
    (h : parsePacket c st a = (st', .ok pkt rest)) : ∀ k r, pkt ≠ .error k r := by
  intro k r e
  subst e
  rcases parsePacket_inv _ _ _ _ _ h with ⟨_, _, hs⟩ | ⟨v, _, _, _, hs⟩ | ⟨v, _, _, _, _, hs⟩ | ⟨v, kind, _, _, _, hpv⟩
  · simp at hs
  · simp at hs
  · simp at hs
  · rcases parseVersioned_ok_inv hpv with ⟨_, _, hd, rs, _, ep⟩ | ⟨_, _, hd, rs, _, ep⟩ | ⟨_, hp⟩ | ⟨_, hp⟩
    · simp at ep
    · simp at ep
    · obtain ⟨_, _, _, _, _, e⟩ := parseV9_ok_inv hp; simp at e
    · obtain ⟨_, _, _, _, _, _, _, e⟩ := parseIpfix_ok_inv hp; simp at e

/-- a chain of self-delimiting packets is reported without any error element -/
theorem chainOk_no_error (c : Config) (hf : c.t.framingOk = true) : ∀ (pre : List Bytes) (st : PState),
    chainOk c st pre = true → ∀ p ∈ (foldCalls c st pre).2, ∀ k r, p ≠ .error k r := by
  intro pre
  induction pre with
  | nil => intro st _ p hp; simp [foldCalls] at hp
  | cons q qs ih =>
    intro st h p hp
    simp only [chainOk, Bool.and_eq_true] at h
    obtain ⟨h1, h2⟩ := h
    obtain ⟨st', pkt, hpk, _⟩ := selfDelimiting_inv h1
    rw [hpk] at h2
    rw [foldCalls_cons_selfDelimiting c hf hpk] at hp
    simp only [List.mem_cons] at hp
    rcases hp with e | hp
    · subst e; exact parsePacket_ok_not_error hpk
    · exact ih st' h2 p hp

/-- `Preds.noRecordsFor` for a result of the shape `front packets ++ [last]` -/
theorem noRecordsFor_concat (tid proto : Nat) (pkts0 : List Packet) (last : Packet)
    (h9 : proto = 9 → ∀ hd ss, Packet.v9 hd ss ∈ pkts0 ++ [last] → ∀ s ∈ ss, s.id ≠ tid)
    (h10 : proto = 10 → ∀ hd ss, Packet.ipfix hd ss ∈ pkts0 ++ [last] → ∀ s ∈ ss, s.id ≠ tid)
    (hlast : (proto = 9 ∧ ∃ body rem, last = .error (.partialParse 9 body) rem) ∨ (proto = 10 ∧ ∃ hd ss, last = .ipfix hd ss))
    (hne : ∀ p ∈ pkts0, ∀ k r, p ≠ .error k r) :
    Preds.noRecordsFor tid proto (pkts0 ++ [last]) = true := by
  unfold Preds.noRecordsFor
  simp only [Bool.and_eq_true, List.all_eq_true, List.dropLast_concat, List.getLast?_concat]
  refine ⟨⟨?_, ?_⟩, ?_⟩
  · intro x hx
    cases x with
    | v9 hd ss =>
      by_cases hp : proto = 9
      · have := h9 hp hd ss hx
        simp only [Bool.or_eq_true, List.all_eq_true]
        right; intro s hs; simpa using this s hs
      · simp [hp]
    | ipfix hd ss =>
      by_cases hp : proto = 10
      · have := h10 hp hd ss hx
        simp only [Bool.or_eq_true, List.all_eq_true]
        right; intro s hs; simpa using this s hs
      · simp [hp]
    | _ => rfl
  · rcases hlast with ⟨hp, body, rem, e⟩ | ⟨hp, hd, ss, e⟩
    · subst e hp; rfl
    · subst e hp; rfl
  · intro x hx
    cases x with
    | error k r => exact absurd rfl (hne _ hx k r)
    | _ => rfl


/-! ### an id becomes known only through a set that defines it -/

/-- the flowset is a template / options-template flowset containing a definition of `tid` -/
def v9Defines (tid : Nat) (s : V9Set) : Bool :=
  match s.body with
  | .templates ts _ => ts.any (·.id == tid)
  | .optTemplates ts _ => ts.any (·.id == tid)
  | _ => false

def ipDefines (tid : Nat) (s : IpSet) : Bool :=
  match s.body with
  | .template t => t.id == tid
  | .optTemplate t => t.id == tid
  | _ => false

theorem v9ParseBody_known_inv (c : Config) (tid : Nat) (st st' : PState) (id len : Nat) (body : Bytes) (b : V9Body)
    (h : v9ParseBody c st id body = (st', .ok b)) (hk : KnownV9 st' tid) :
    KnownV9 st tid ∨ v9Defines tid ⟨id, len, b⟩ = true := by
  rcases B2.v9ParseBody_state c st id body st' _ h with e | ⟨ts, pad, e1, e2⟩ | ⟨ts, pad, e1, e2⟩
  · left; rw [← e]; exact hk
  · simp only [Res.ok.injEq] at e1
    subst e1 e2
    by_cases hd : ts.any (·.id == tid) = true
    · right; exact hd
    · left
      have hn : ∀ u ∈ ts, u.id ≠ tid := by
        intro u hu e
        apply hd
        rw [List.any_eq_true]
        exact ⟨u, hu, by simp [e]⟩
      obtain ⟨a1, a2⟩ := insertV9Templates_other tid ts st hn
      unfold KnownV9 at hk ⊢
      rw [a1, a2] at hk; exact hk
  · simp only [Res.ok.injEq] at e1
    subst e1 e2
    by_cases hd : ts.any (·.id == tid) = true
    · right; exact hd
    · left
      have hn : ∀ u ∈ ts, u.id ≠ tid := by
        intro u hu e
        apply hd
        rw [List.any_eq_true]
        exact ⟨u, hu, by simp [e]⟩
      obtain ⟨a1, a2⟩ := insertV9OptTemplates_other tid ts st hn
      unfold KnownV9 at hk ⊢
      rw [a1, a2] at hk; exact hk

theorem ipParseBody_known_inv (c : Config) (tid : Nat) (st st' : PState) (id len : Nat) (body : Bytes) (b : IpBody)
    (h : ipParseBody c st id body = (st', .ok b)) (hk : KnownIp st' tid) :
    KnownIp st tid ∨ ipDefines tid ⟨id, len, b⟩ = true := by
  rcases B2.ipParseBody_state c st id body st' _ h with e | ⟨t, e1, e2⟩ | ⟨t, e1, e2⟩
  · left; rw [← e]; exact hk
  · simp only [Res.ok.injEq] at e1
    subst e1 e2
    by_cases hd : t.id = tid
    · right; simp [ipDefines, hd]
    · left
      have hd' : tid ≠ t.id := fun e => hd e.symm
      unfold KnownIp at hk ⊢
      simp only [amLookup_amInsert_a2, hd', ↓reduceIte, amLookup_amErase_ne_a2 hd'] at hk
      exact hk
  · simp only [Res.ok.injEq] at e1
    subst e1 e2
    by_cases hd : t.id = tid
    · right; simp [ipDefines, hd]
    · left
      have hd' : tid ≠ t.id := fun e => hd e.symm
      unfold KnownIp at hk ⊢
      simp only [amLookup_amInsert_a2, hd', ↓reduceIte, amLookup_amErase_ne_a2 hd'] at hk
      exact hk

theorem v9SetChain_known (c : Config) (tid : Nat) : ∀ (front : List Bytes) (st st2 : PState) (ss : List V9Set),
    v9SetChain c st front = some (st2, ss) → KnownV9 st2 tid →
    KnownV9 st tid ∨ ∃ s ∈ ss, v9Defines tid s = true := by
  intro front
  induction front with
  | nil =>
    intro st st2 ss h hk
    simp only [v9SetChain, Option.some.injEq, Prod.mk.injEq] at h
    left; rw [h.1]; exact hk
  | cons a as ih =>
    intro st st2 ss h hk
    obtain ⟨st1, s, ss', hs, hc, e⟩ := v9SetChain_cons_inv h
    subst e
    rcases ih st1 st2 ss' hc hk with h1 | ⟨s', hs', hd⟩
    · obtain ⟨hd, r0, body, b, _, _, hb, es⟩ := v9ParseSet_ok_inv hs
      subst es
      rcases v9ParseBody_known_inv c tid st st1 _ (c.t.v9SetHdr.get "length" hd) body b hb h1 with h2 | h2
      · exact Or.inl h2
      · exact Or.inr ⟨_, List.mem_cons_self, h2⟩
    · exact Or.inr ⟨s', List.mem_cons_of_mem _ hs', hd⟩

theorem ipSetChain_known (c : Config) (tid : Nat) : ∀ (front : List Bytes) (st st2 : PState) (ss : List IpSet),
    ipSetChain c st front = some (st2, ss) → KnownIp st2 tid →
    KnownIp st tid ∨ ∃ s ∈ ss, ipDefines tid s = true := by
  intro front
  induction front with
  | nil =>
    intro st st2 ss h hk
    simp only [ipSetChain, Option.some.injEq, Prod.mk.injEq] at h
    left; rw [h.1]; exact hk
  | cons a as ih =>
    intro st st2 ss h hk
    obtain ⟨st1, s, ss', hs, hc, e⟩ := ipSetChain_cons_inv h
    subst e
    rcases ih st1 st2 ss' hc hk with h1 | ⟨s', hs', hd⟩
    · obtain ⟨hd, r0, body, b, _, _, hb, es⟩ := ipParseSet_ok_inv hs
      subst es
      rcases ipParseBody_known_inv c tid st st1 _ (c.t.ipSetHdr.get "length" hd) body b hb h1 with h2 | h2
      · exact Or.inl h2
      · exact Or.inr ⟨_, List.mem_cons_self, h2⟩
    · exact Or.inr ⟨s', List.mem_cons_of_mem _ hs', hd⟩


instance (st : PState) (id : Nat) : Decidable (KnownV9 st id) := by unfold KnownV9; infer_instance
instance (st : PState) (id : Nat) : Decidable (KnownIp st id) := by unfold KnownIp; infer_instance

end Netflow.C1x
