/-
  Lemmas/P3Count.lean — helpers for Props/C04c.lean: the V9 header `count` as RFC 3954 defines it
  (number of RECORDS in the packet, not number of flowsets).

  * `v9ParseSets_nil`, `v9ParseSets_add` — the flowset loop skips every iteration that starts with
    empty input, so running MORE iterations than needed to reach the end of the buffer changes nothing.
  * `v9ParseSets_enc_le` — layer (h) of the C04 proof with `count ≥ number of flowsets`, for a packet
    that ends its buffer.
  * `parseV9_enc_le` — the same through the packet header.
  * `fsRecords`, `rfcCount`, `length_le_rfcCount` — the RFC 3954 record count of an abstract message and
    `number of flowsets ≤ rfcCount` when no flowset is empty.
-/
import NetflowModel.Lemmas.A5V9Frame
namespace Netflow.P3
open Netflow Netflow.Spec

/-! ### the flowset loop on empty input -/

/-- on empty input every iteration of `parse_flowsets` is skipped -/
theorem v9ParseSets_nil (c : Config) : ∀ (n : Nat) (st : PState), v9ParseSets c n st [] = (st, .ok ([], []))
  | 0, _ => rfl
  | n + 1, st => by
    simp only [v9ParseSets, List.isEmpty_nil, ↓reduceIte]
    exact v9ParseSets_nil c n st

/-- KEY LEMMA: if `n` iterations already consume the whole input, `k` further iterations are skipped. -/
theorem v9ParseSets_add (c : Config) (k : Nat) :
    ∀ (n : Nat) (st st' : PState) (i : Bytes) (ss : List V9Set),
      v9ParseSets c n st i = (st', .ok (ss, [])) → v9ParseSets c (n + k) st i = (st', .ok (ss, [])) := by
  intro n
  induction n with
  | zero =>
    intro st st' i ss h
    simp only [v9ParseSets, Prod.mk.injEq, Res.ok.injEq] at h
    obtain ⟨rfl, rfl, rfl⟩ := h
    rw [Nat.zero_add]
    exact v9ParseSets_nil c k st
  | succ n ih =>
    intro st st' i ss h
    have e : n + 1 + k = (n + k) + 1 := by omega
    rw [e]
    by_cases he : i.isEmpty = true
    · simp only [v9ParseSets, he, ↓reduceIte] at h ⊢
      exact ih st st' i ss h
    · simp only [v9ParseSets, he, Bool.false_eq_true, ↓reduceIte] at h ⊢
      cases h1 : v9ParseSet c st i with
      | mk st1 r1 =>
        cases r1 with
        | ok sr =>
          obtain ⟨s, r⟩ := sr
          simp only [h1] at h ⊢
          cases h2 : v9ParseSets c n st1 r with
          | mk st2 r2 =>
            cases r2 with
            | ok q =>
              obtain ⟨ss2, r'⟩ := q
              simp only [h2, Prod.mk.injEq, Res.ok.injEq] at h
              obtain ⟨rfl, rfl, rfl⟩ := h
              rw [ih st1 st2 r ss2 h2]
            | err => simp [h2] at h
            | panic => simp [h2] at h
            | overflow => simp [h2] at h
        | err => simp [h1] at h
        | panic => simp [h1] at h
        | overflow => simp [h1] at h

/-- the same, with `≤` -/
theorem v9ParseSets_le (c : Config) {n n' : Nat} (hle : n ≤ n') {st st' : PState} {i : Bytes} {ss : List V9Set}
    (h : v9ParseSets c n st i = (st', .ok (ss, []))) : v9ParseSets c n' st i = (st', .ok (ss, [])) := by
  obtain ⟨k, rfl⟩ := Nat.exists_eq_add_of_le hle
  exact v9ParseSets_add c k n st st' i ss h

/-! ### layer (h) with `count ≥ number of flowsets` -/

/-- LAYER (h), fold, RFC count: `parse_flowsets` over ANY `count ≥ number of flowsets` iterations
    decodes every flowset of a packet that ends the buffer, threading the caches. -/
theorem v9ParseSets_enc_le (c : Config) (names : List (Nat × String)) (harms : DnArmsOk c.t.dnArms) (hl : V9LayoutOk c.t)
    (ss : List V9FS) (n : Nat) (hn : ss.length ≤ n) (d d2 : List (Nat × V9Def)) (st : PState) (outs : List V9Set)
    (hR : Repr9 d st) (hexp : expV9Sets c names d ss = some (d2, some outs)) (hconf : setsConf c names d ss = true) :
    ∃ st', v9ParseSets c n st (ss.flatMap encV9FS) = (st', .ok (outs, [])) ∧ Repr9 d2 st' := by
  obtain ⟨st', hp, hR'⟩ := v9ParseSets_enc c names harms hl ss d d2 st outs [] hR hexp hconf
  rw [List.append_nil] at hp
  exact ⟨st', v9ParseSets_le c hn hp, hR'⟩

/-- the header-level conformance conditions (numbers fit their wire widths) and the per-flowset
    conditions `setsConf`; NOTHING relates `count` to the number of flowsets.  (Same formula as
    `Props.C04Conformant`, restated here so that Lemmas/ does not import Props/.) -/
def hdrSetsConf (c : Config) (names : List (Nat × String)) (d : List (Nat × V9Def)) (m : V9Msg) : Bool :=
  decide (m.count < 65536) && decide (m.sysUpTime < 4294967296) && decide (m.unixSecs < 4294967296) &&
  decide (m.seq < 4294967296) && decide (m.sourceId < 4294967296) && setsConf c names d m.sets

/-- LAYER (h), header, RFC count: `V9::parse` on everything after the version, packet last in buffer -/
theorem parseV9_enc_le (c : Config) (names : List (Nat × String)) (harms : DnArmsOk c.t.dnArms) (hl : V9LayoutOk c.t)
    (d d2 : List (Nat × V9Def)) (st : PState) (m : V9Msg) (outs : List V9Set)
    (hR : Repr9 d st) (hcount : m.sets.length ≤ m.count)
    (hexp : expV9Sets c names d m.sets = some (d2, some outs))
    (hconf : hdrSetsConf c names d m = true) :
    ∃ st', parseV9 c st (toBE 2 m.count ++ (toBE 4 m.sysUpTime ++ (toBE 4 m.unixSecs ++ (toBE 4 m.seq ++
              (toBE 4 m.sourceId ++ m.sets.flatMap encV9FS))))) =
            (st', .ok (.v9 [9, m.count, m.sysUpTime, m.unixSecs, m.seq, m.sourceId] outs, [])) ∧ Repr9 d2 st' := by
  simp only [hdrSetsConf, Bool.and_eq_true, decide_eq_true_eq] at hconf
  obtain ⟨⟨⟨⟨⟨h1, h2⟩, h3⟩, h4⟩, h5⟩, hs⟩ := hconf
  obtain ⟨st', p, hR'⟩ := v9ParseSets_enc_le c names harms hl m.sets m.count hcount d d2 st outs hR hexp hs
  refine ⟨st', ?_, hR'⟩
  obtain ⟨hk, hi, -⟩ := hl
  have hp := parseLayout_v9Hdr c.t.protoFromU8 c.t.v9Hdr hk m.count m.sysUpTime m.unixSecs m.seq m.sourceId
    (m.sets.flatMap encV9FS) h1 h2 h3 h4 h5
  have hg : c.t.v9Hdr.get "count" [9, m.count, m.sysUpTime, m.unixSecs, m.seq, m.sourceId] = m.count := by
    simp [Layout.get, hi]
  simp only [parseV9, hp, hg, p]

/-! ### the RFC 3954 record count -/

/-- number of records in one flowset: template records, options-template records, or data records -/
def fsRecords : V9FS → Nat
  | .templates ts _ => ts.length
  | .optTemplates ts _ => ts.length
  | .data _ recs _ => recs.length

/-- RFC 3954 §5.1 `Count`: "the total number of records in the Export Packet, which is the sum of
    Options FlowSet records, Template FlowSet records, and Data FlowSet records" -/
def rfcCount (m : V9Msg) : Nat := (m.sets.map fsRecords).sum

theorem length_le_sum_fsRecords : ∀ (ss : List V9FS), (∀ s ∈ ss, 1 ≤ fsRecords s) → ss.length ≤ (ss.map fsRecords).sum
  | [], _ => Nat.le_refl _
  | s :: ss, h => by
    have h1 := h s (List.mem_cons_self ..)
    have h2 := length_le_sum_fsRecords ss (fun x hx => h x (List.mem_cons_of_mem _ hx))
    simp only [List.length_cons, List.map_cons, List.sum_cons]
    omega

/-- a message none of whose flowsets is empty has at least as many records as flowsets -/
theorem length_le_rfcCount (m : V9Msg) (h : ∀ s ∈ m.sets, 1 ≤ fsRecords s) : m.sets.length ≤ rfcCount m :=
  length_le_sum_fsRecords m.sets h

/-- decidable form of "no flowset is empty" -/
def noEmptySet (m : V9Msg) : Bool := m.sets.all fun s => decide (1 ≤ fsRecords s)

theorem length_le_rfcCount_of_noEmptySet (m : V9Msg) (h : noEmptySet m = true) : m.sets.length ≤ rfcCount m := by
  apply length_le_rfcCount
  intro s hs
  simp only [noEmptySet, List.all_eq_true, decide_eq_true_eq] at h
  exact h s hs

/-- the count is strictly larger than the number of flowsets as soon as one flowset holds two records
    (so `Spec.expMsg`, which demands `count = number of flowsets`, rejects the RFC-conformant header) -/
theorem length_lt_sum_fsRecords : ∀ (ss : List V9FS), (∀ s ∈ ss, 1 ≤ fsRecords s) → (∃ s ∈ ss, 2 ≤ fsRecords s) →
    ss.length < (ss.map fsRecords).sum
  | [], _, h => by obtain ⟨s, hs, _⟩ := h; cases hs
  | s :: ss, h, h2 => by
    have h1 := h s (List.mem_cons_self ..)
    have hle := length_le_sum_fsRecords ss (fun x hx => h x (List.mem_cons_of_mem _ hx))
    simp only [List.length_cons, List.map_cons, List.sum_cons]
    obtain ⟨x, hx, hx2⟩ := h2
    rcases List.mem_cons.mp hx with rfl | hx'
    · omega
    · have := length_lt_sum_fsRecords ss (fun x hx => h x (List.mem_cons_of_mem _ hx)) ⟨x, hx', hx2⟩
      omega

end Netflow.P3
