/-
  Lemmas/A6IpfixValue.lean — layer (d) of the C05 print-then-parse proof: the library's value
  decoder `parseValue` agrees with the specification's `interpSpec` on every supported
  (type, width) pair, and the IPFIX field decoder `ipParseValue` (fixed, short and long variable
  length framing, enterprise fields) agrees with `Spec.expIpField`.
-/
import NetflowModel.Lemmas.A6IpfixTemplate
import NetflowModel.Spec.Expected
import NetflowModel.Findings
namespace Netflow
open Spec

/-- the arms of `DataNumber::parse` the specification relies on (decidable; discharged for
    `Generated.dnArms` by `decide`) -/
def DnArmsOk_a6 (arms : DnArms) : Bool :=
  arms.lookup (1, false) == some .u8 && arms.lookup (2, false) == some .u16 &&
  arms.lookup (3, false) == some .u24 && arms.lookup (4, false) == some .u32 &&
  arms.lookup (8, false) == some .u64 && arms.lookup (16, false) == some .u128 &&
  arms.lookup (1, true) == some .i32 && arms.lookup (2, true) == some .i32 &&
  arms.lookup (3, true) == some .i24 && arms.lookup (4, true) == some .i32 &&
  arms.lookup (8, true) == some .i32 && arms.lookup (16, true) == some .i32

theorem DataNumber_parse_append (arms : DnArms) (sg : Bool) (arm : DnArm) (bs r : Bytes)
    (h : arms.lookup (bs.length, sg) = some arm) :
    DataNumber.parse arms bs.length sg (bs ++ r) = some (DataNumber.make arm sg bs, r) := by
  simp only [DataNumber.parse, h, takeN_append_a6]

theorem beInt_bounds_a6 (bs : Bytes) :
    -((256 ^ bs.length : Nat) : Int) ≤ 2 * beInt bs ∧ 2 * beInt bs < ((256 ^ bs.length : Nat) : Int) := by
  have h := beNat_lt_a6 bs
  simp only [beInt]
  split <;> omega

theorem wrap32_id (z : Int) (h1 : -2147483648 ≤ z) (h2 : z < 2147483648) :
    wrapSigned 32 (wrapUnsigned 32 z) = z := by
  have p : (2 : Nat) ^ 32 = 4294967296 := by decide
  have hu : wrapUnsigned 32 z = (z % 4294967296).toNat := by simp only [wrapUnsigned, p]; rfl
  show (if 2 * (wrapUnsigned 32 z % 2 ^ 32) < 2 ^ 32 then ((wrapUnsigned 32 z % 2 ^ 32 : Nat) : Int)
    else ((wrapUnsigned 32 z % 2 ^ 32 : Nat) : Int) - ((2 ^ 32 : Nat) : Int)) = z
  by_cases hc : 2 * (wrapUnsigned 32 z % 2 ^ 32) < 2 ^ 32
  · rw [if_pos hc]; rw [p] at hc ⊢; rw [hu] at hc ⊢; omega
  · rw [if_neg hc]; rw [p] at hc ⊢; rw [hu] at hc ⊢; omega

theorem signedWide_false {bs : Bytes} (h : Findings.signedWide bs = false) (hl : bs.length = 8 ∨ bs.length = 16) :
    -2147483648 ≤ beInt bs ∧ beInt bs < 2147483648 := by
  simp only [Findings.signedWide, Bool.and_eq_false_iff, Bool.or_eq_false_iff, decide_eq_false_iff_not] at h
  rcases h with h | h
  · omega
  · have e : (2 : Int) ^ 31 = 2147483648 := by decide
    rw [e] at h
    omega

/-- `parseValue` on the exact bytes of a field returns what the specification says the bytes mean -/
theorem parseValue_interp_a6 (c : ValueCfg) (names : List (Nat × String)) (ty : FType) (bs r : Bytes) (v : FieldValue)
    (harms : DnArmsOk_a6 c.dnArms = true) (hty : ty ≠ .proto)
    (hu : ty = .unknown → c.unknownFields = true)
    (hs : ty = .signed → Findings.signedWide bs = false)
    (h : interpSpec names ty bs = some v) :
    parseValue c ty bs.length (bs ++ r) = some (v, r) := by
  simp only [DnArmsOk_a6, Bool.and_eq_true, beq_iff_eq] at harms
  obtain ⟨⟨⟨⟨⟨⟨⟨⟨⟨⟨⟨a1, a2⟩, a3⟩, a4⟩, a8⟩, a16⟩, s1⟩, s2⟩, s3⟩, s4⟩, s8⟩, s16⟩ := harms
  have hdur : bs.length ∈ [1, 2, 3, 4, 8] → ∃ arm, c.dnArms.lookup (bs.length, false) = some arm ∧
      (DataNumber.make arm false bs).toUsize = beNat bs := by
    intro hm
    simp only [List.mem_cons, List.mem_nil_iff, or_false] at hm
    rcases hm with e | e | e | e | e <;> rw [e]
    · exact ⟨_, a1, rfl⟩
    · exact ⟨_, a2, rfl⟩
    · exact ⟨_, a3, rfl⟩
    · exact ⟨_, a4, rfl⟩
    · exact ⟨_, a8, rfl⟩
  cases ty with
  | proto => exact absurd rfl hty
  | unsigned =>
    simp only [interpSpec, unsignedOf] at h
    simp only [parseValue]
    split at h <;> rename_i hl
    · rw [← hl] at a1; rw [DataNumber_parse_append _ _ _ _ _ a1]; simpa [DataNumber.make] using h
    · rw [← hl] at a2; rw [DataNumber_parse_append _ _ _ _ _ a2]; simpa [DataNumber.make] using h
    · rw [← hl] at a3; rw [DataNumber_parse_append _ _ _ _ _ a3]; simpa [DataNumber.make] using h
    · rw [← hl] at a4; rw [DataNumber_parse_append _ _ _ _ _ a4]; simpa [DataNumber.make] using h
    · rw [← hl] at a8; rw [DataNumber_parse_append _ _ _ _ _ a8]; simpa [DataNumber.make] using h
    · rw [← hl] at a16; rw [DataNumber_parse_append _ _ _ _ _ a16]; simpa [DataNumber.make] using h
    · simp at h
  | signed =>
    have hb := beInt_bounds_a6 bs
    simp only [interpSpec, signedOf] at h
    simp only [parseValue]
    split at h <;> rename_i hl
    · rw [hl] at hb; simp only [Nat.reducePow] at hb
      rw [← hl] at s1; rw [DataNumber_parse_append _ _ _ _ _ s1]
      simp only [DataNumber.make, ↓reduceIte]; rw [wrap32_id _ (by omega) (by omega)]; simpa using h
    · rw [hl] at hb; simp only [Nat.reducePow] at hb
      rw [← hl] at s2; rw [DataNumber_parse_append _ _ _ _ _ s2]
      simp only [DataNumber.make, ↓reduceIte]; rw [wrap32_id _ (by omega) (by omega)]; simpa using h
    · rw [hl] at hb; simp only [Nat.reducePow] at hb
      rw [← hl] at s4; rw [DataNumber_parse_append _ _ _ _ _ s4]
      simp only [DataNumber.make, ↓reduceIte]; rw [wrap32_id _ (by omega) (by omega)]; simpa using h
    · obtain ⟨b1, b2⟩ := signedWide_false (hs rfl) (Or.inl hl)
      rw [← hl] at s8; rw [DataNumber_parse_append _ _ _ _ _ s8]
      simp only [DataNumber.make, ↓reduceIte]; rw [wrap32_id _ b1 b2]; simpa using h
    · obtain ⟨b1, b2⟩ := signedWide_false (hs rfl) (Or.inr hl)
      rw [← hl] at s16; rw [DataNumber_parse_append _ _ _ _ _ s16]
      simp only [DataNumber.make, ↓reduceIte]; rw [wrap32_id _ b1 b2]; simpa using h
    · rw [← hl] at s3; rw [DataNumber_parse_append _ _ _ _ _ s3]
      simpa [DataNumber.make] using h
    · simp at h
  | str =>
    simp only [interpSpec, Option.some.injEq] at h
    simp only [parseValue, takeN_append_a6, h]
  | vec =>
    simp only [interpSpec, Option.some.injEq] at h
    simp only [parseValue, takeN_append_a6, h]
  | unknown =>
    simp only [interpSpec, Option.some.injEq] at h
    simp only [parseValue, hu rfl, ↓reduceIte, takeN_append_a6, h]
  | ip4 =>
    simp only [interpSpec] at h
    split at h
    · rename_i hl
      simp only [Option.some.injEq] at h
      have := beU_append_a6 bs r
      rw [hl] at this
      simp only [parseValue, this, h]
    · simp at h
  | ip6 =>
    simp only [interpSpec] at h
    split at h
    · rename_i hl
      simp only [Option.some.injEq] at h
      have := beU_append_a6 bs r
      rw [hl] at this
      simp only [parseValue, this, h]
    · simp at h
  | f64 =>
    simp only [interpSpec] at h
    split at h
    · rename_i hl
      simp only [Option.some.injEq] at h
      have := beU_append_a6 bs r
      rw [hl] at this
      simp only [parseValue, this, h]
    · simp at h
  | mac =>
    simp only [interpSpec] at h
    split at h
    · rename_i hl
      simp only [Option.some.injEq] at h
      have := takeN_append_a6 bs r
      rw [hl] at this
      simp only [parseValue, this, h]
    · simp at h
  | durS =>
    simp only [interpSpec] at h
    split at h
    · rename_i hl
      obtain ⟨arm, e1, e2⟩ := hdur hl
      simp only [Option.some.injEq] at h
      simp only [parseValue, DataNumber_parse_append _ _ _ _ _ e1, durOf, e2, ← h]
      try simp [Nat.mod_one]
    · simp at h
  | durMs =>
    simp only [interpSpec] at h
    split at h
    · rename_i hl
      obtain ⟨arm, e1, e2⟩ := hdur hl
      simp only [Option.some.injEq] at h
      simp only [parseValue, DataNumber_parse_append _ _ _ _ _ e1, durOf, e2, ← h]
      try simp
    · simp at h
  | durUs =>
    simp only [interpSpec] at h
    split at h
    · rename_i hl
      obtain ⟨arm, e1, e2⟩ := hdur hl
      simp only [Option.some.injEq] at h
      simp only [parseValue, DataNumber_parse_append _ _ _ _ _ e1, durOf, e2, ← h]
      try simp
    · simp at h
  | durNs =>
    simp only [interpSpec] at h
    split at h
    · rename_i hl
      obtain ⟨arm, e1, e2⟩ := hdur hl
      simp only [Option.some.injEq] at h
      simp only [parseValue, DataNumber_parse_append _ _ _ _ _ e1, durOf, e2, ← h]
      try simp
    · simp at h

/-! ### IPFIX field framing (RFC 7011 §7) -/

/-- the framing conditions `Spec.expIpField` imposes, extracted -/
theorem expIpField_inv (c : Config) (names : List (Nat × String)) (f : IpTField) (v : FieldBytes) (val : FieldValue)
    (h : expIpField c names f v = some val) :
    ((f.len = 65535) ↔ (v.form ≠ .fixed)) ∧ (f.len ≠ 65535 → v.content.length = f.len) ∧
    (v.form = .short → v.content.length < 255) ∧ v.content.length < 65536 ∧
    (match ipFieldTy c f with
     | none => val = .vec v.content
     | some ty => interpSpec names ty v.content = some val) := by
  unfold expIpField at h
  split at h
  · simp at h
  · rename_i h1
    split at h
    · simp at h
    · rename_i h2
      split at h
      · simp at h
      · rename_i h3
        split at h
        · simp at h
        · rename_i h4
          refine ⟨?_, ?_, ?_, by omega, ?_⟩
          · have := Decidable.not_not.mp h1
            rw [this]
          · intro hne
            by_cases hc : v.content.length = f.len
            · exact hc
            · exact absurd ⟨hne, hc⟩ h2
          · intro hs
            by_cases hc : v.content.length < 255
            · exact hc
            · exact absurd ⟨hs, by omega⟩ h3
          · cases hty : ipFieldTy c f with
            | none => simp only [hty, Option.some.injEq] at h; exact h.symm
            | some ty => simp only [hty] at h; exact h

theorem ipFieldLength_enc (f : IpTField) (v : FieldBytes) (r : Bytes)
    (h1 : (f.len = 65535) ↔ (v.form ≠ .fixed)) (h2 : f.len ≠ 65535 → v.content.length = f.len)
    (h3 : v.form = .short → v.content.length < 255) (h4 : v.content.length < 65536) :
    ipFieldLength f (encFieldBytes v ++ r) = some (v.content.length, v.content ++ r) := by
  obtain ⟨content, form⟩ := v
  cases form with
  | fixed =>
    have hne : f.len ≠ 65535 := fun e => (h1.1 e) rfl
    simp only [ipFieldLength, encFieldBytes, if_neg hne, h2 hne]
  | short =>
    have he : f.len = 65535 := h1.2 (by simp)
    have hl : content.length < 255 := h3 rfl
    simp only [ipFieldLength, encFieldBytes, if_pos he, List.append_assoc]
    rw [beU1_toBE (by omega)]
    simp only
    rw [if_neg (by omega)]
  | long =>
    have he : f.len = 65535 := h1.2 (by simp)
    simp only [ipFieldLength, encFieldBytes, if_pos he, List.append_assoc]
    have e1 : beU 1 ([255] ++ (toBE 2 content.length ++ (content ++ r))) = some (255, toBE 2 content.length ++ (content ++ r)) := by
      simp [beU, beNat]
    rw [e1]
    simp only [↓reduceIte]
    rw [beU2_toBE h4]

/-- value-level side conditions of one (template field, field bytes) pair: the two places where the
    crate's value decoder departs from the specification -/
def ipFieldValOk (c : Config) (f : IpTField) (v : FieldBytes) : Bool :=
  match f.ent with
  | some _ => true
  | none =>
    (c.t.ipTy (c.t.ipField f.typ) != .signed || !Findings.signedWide v.content) &&
    (c.t.ipTy (c.t.ipField f.typ) != .unknown || c.unknownFields)

/-- no IPFIX information element is decoded as a `ProtocolTypes` value -/
def NoProto (c : Config) : Prop := ∀ n, c.t.ipTy (c.t.ipField n) ≠ FType.proto

/-- (d) one field value: framing + interpretation -/
theorem ipParseValue_enc (c : Config) (names : List (Nat × String)) (f : IpTField) (v : FieldBytes)
    (val : FieldValue) (r : Bytes)
    (harms : DnArmsOk_a6 c.t.dnArms = true) (hnp : NoProto c) (hok : ipFieldValOk c f v = true)
    (h : expIpField c names f v = some val) :
    ipParseValue c f (encFieldBytes v ++ r) = some (val, r) := by
  obtain ⟨h1, h2, h3, h4, h5⟩ := expIpField_inv c names f v val h
  simp only [ipParseValue, ipFieldLength_enc f v r h1 h2 h3 h4]
  cases he : f.ent with
  | some pen =>
    simp only [ipFieldTy, he] at h5
    simp only [takeN_append_a6, h5]
  | none =>
    simp only [ipFieldTy, he] at h5
    simp only [ipFieldValOk, he, Bool.and_eq_true, Bool.or_eq_true, bne_iff_ne, ne_eq, Bool.not_eq_true'] at hok
    simp only
    apply parseValue_interp_a6 c.vc names _ _ _ _ harms (hnp f.typ) _ _ h5
    · intro hu
      rcases hok.2 with h | h
      · exact absurd hu h
      · exact h
    · intro hs
      rcases hok.1 with h | h
      · exact absurd hs h
      · exact h

end Netflow
