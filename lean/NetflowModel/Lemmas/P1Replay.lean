/-
  Lemmas/P1Replay.lean — helpers for Props/C06c.lean: the template caches after a call are the
  REPLAY of the template records the call reported.

  * `replayV9Set / replayIpSet / replayPkt / replay` : apply to the caches exactly the template
    records reported in a set / packet / list of packets, in order (the update expressions are the
    ones of `v9ParseBody` / `ipParseBody`).
  * every parsing stage, from the set body up to `parseBytesF`, is characterised:
    result `ok` ⇒ new state = replay of what was returned; anything else ⇒ state unchanged, with the
    single exception of a V9 packet that fails after some flowsets were already parsed.
  * the IPFIX set loop can report an error only when a set consumes no byte at all; that needs a
    set header that occupies no bytes, and then no set ever has a body, so the state is unchanged
    (`ipParseSets_err_frame`, no hypothesis on the tables).
-/
import NetflowModel.Lemmas.A2State
import NetflowModel.Lemmas.C1xOracles
namespace Netflow.P1
open Netflow Netflow.C1x

/-! ### definitions -/

/-- what a reported V9 flowset body teaches the caches -/
def replayV9Body (st : PState) : V9Body → PState
  | .templates ts _ => insertV9Templates st ts
  | .optTemplates ts _ => insertV9OptTemplates st ts
  | _ => st

def replayV9Set (st : PState) (s : V9Set) : PState := replayV9Body st s.body

/-- what a reported IPFIX set body teaches the caches -/
def replayIpBody (st : PState) : IpBody → PState
  | .template t => { st with ipT := amInsert t.id t st.ipT, ipO := amErase t.id st.ipO }
  | .optTemplate t => { st with ipO := amInsert t.id t st.ipO, ipT := amErase t.id st.ipT }
  | _ => st

def replayIpSet (st : PState) (s : IpSet) : PState := replayIpBody st s.body

/-- apply to the caches exactly the template records REPORTED in a packet, in order -/
def replayPkt (st : PState) : Packet → PState
  | .v9 _ ss => ss.foldl replayV9Set st
  | .ipfix _ ss => ss.foldl replayIpSet st
  | _ => st

def replay (st : PState) (pkts : List Packet) : PState := pkts.foldl replayPkt st

/-- the list ends in the error a failing V9 parse is reported as -/
def endsInV9Err (pkts : List Packet) : Bool :=
  match pkts.getLast? with
  | some (.error (.partialParse 9 _) _) => true
  | _ => false

/-- a packet reports a V9 / IPFIX set that defines template id `id` -/
def pktDefinesV9 (id : Nat) : Packet → Bool
  | .v9 _ ss => ss.any (v9Defines id)
  | _ => false

def pktDefinesIp (id : Nat) : Packet → Bool
  | .ipfix _ ss => ss.any (ipDefines id)
  | _ => false

/-- the packets of an outcome -/
def outPkts : Outcome → List Packet
  | .done ps => ps
  | .panic ps => ps
  | .overflow ps => ps

/-- everything a history of calls reports, in order (the state is threaded as `parseBytes` does) -/
def histPkts (c : Config) : PState → List Bytes → List Packet
  | _, [] => []
  | st, b :: bs => outPkts (parseBytes c st b).2 ++ histPkts c (parseBytes c st b).1 bs

theorem replay_nil (st : PState) : replay st [] = st := rfl

theorem replay_cons (st : PState) (p : Packet) (ps : List Packet) :
    replay st (p :: ps) = replay (replayPkt st p) ps := rfl

theorem replay_append (st : PState) (a b : List Packet) : replay st (a ++ b) = replay (replay st a) b := by
  simp [replay, List.foldl_append]

theorem endsInV9Err_iff (pkts : List Packet) :
    endsInV9Err pkts = false ↔ ∀ b r, pkts.getLast? ≠ some (.error (.partialParse 9 b) r) := by
  unfold endsInV9Err
  constructor
  · intro h b r e
    rw [e] at h
    simp at h
  · intro h
    split
    · rename_i b r e
      exact absurd e (h b r)
    · rfl

/-! ### V9 stages -/

theorem v9ParseBody_ok_replay (c : Config) (st st' : PState) (id : Nat) (b : Bytes) (body : V9Body)
    (h : v9ParseBody c st id b = (st', .ok body)) : st' = replayV9Body st body := by
  unfold v9ParseBody at h
  grind [replayV9Body]

theorem v9ParseSet_ok_replay (c : Config) (st st' : PState) (i : Bytes) (s : V9Set) (r : Bytes)
    (h : v9ParseSet c st i = (st', .ok (s, r))) : st' = replayV9Set st s := by
  unfold v9ParseSet at h
  have := v9ParseBody_ok_replay c st
  grind [replayV9Set]

theorem v9ParseSets_ok_replay (c : Config) : ∀ (n : Nat) (st st' : PState) (i : Bytes) (ss : List V9Set) (r : Bytes),
    v9ParseSets c n st i = (st', .ok (ss, r)) → st' = ss.foldl replayV9Set st := by
  intro n
  induction n with
  | zero => intro st st' i ss r h; simp [v9ParseSets] at h; obtain ⟨h1, h2, _⟩ := h; subst h1 h2; rfl
  | succ n ih =>
    intro st st' i ss r h
    unfold v9ParseSets at h
    by_cases he : i.isEmpty = true
    · simp only [he, ↓reduceIte] at h
      exact ih _ _ _ _ _ h
    · simp only [he, Bool.false_eq_true, ↓reduceIte] at h
      cases hs : v9ParseSet c st i with
      | mk st1 res =>
        simp only [hs] at h
        cases res with
        | ok sr =>
          obtain ⟨s, r1⟩ := sr
          simp only at h
          have e1 := v9ParseSet_ok_replay c _ _ _ _ _ hs
          cases hr : v9ParseSets c n st1 r1 with
          | mk st2 res2 =>
            simp only [hr] at h
            cases res2 with
            | ok x =>
              obtain ⟨ss', r'⟩ := x
              simp only [Prod.mk.injEq, Res.ok.injEq] at h
              obtain ⟨h1, h2, _⟩ := h
              have e2 := ih _ _ _ _ _ hr
              subst h1 h2 e1
              simpa using e2
            | err => simp at h
            | panic => simp at h
            | overflow => simp at h
        | err => simp at h
        | panic => simp at h
        | overflow => simp at h

theorem parseV9_ok_replay (c : Config) (st st' : PState) (i : Bytes) (p : Packet) (r : Bytes)
    (h : parseV9 c st i = (st', .ok (p, r))) : st' = replayPkt st p := by
  unfold parseV9 at h
  have := v9ParseSets_ok_replay c
  grind [replayPkt]

/-- V9 input never touches the IPFIX maps (whatever the outcome) -/
theorem parseV9_agreeIp (c : Config) (st : PState) (i : Bytes) : AgreeIp (parseV9 c st i).1 st :=
  parseV9_inv (I := fun s => AgreeIp s st)
    (fun s id b hI => by
      obtain ⟨f1, f2⟩ := v9ParseBody_ip_frame c s id b
      exact ⟨f1.trans hI.1, f2.trans hI.2⟩) st i ⟨rfl, rfl⟩

/-! ### IPFIX stages -/

theorem ipParseBody_ok_replay (c : Config) (st st' : PState) (id : Nat) (b : Bytes) (body : IpBody)
    (h : ipParseBody c st id b = (st', .ok body)) : st' = replayIpBody st body := by
  unfold ipParseBody at h
  grind [replayIpBody]

theorem ipParseSet_ok_replay (c : Config) (st st' : PState) (i : Bytes) (s : IpSet) (r : Bytes)
    (h : ipParseSet c st i = (st', .ok (s, r))) : st' = replayIpSet st s := by
  unfold ipParseSet at h
  have := ipParseBody_ok_replay c st
  grind [replayIpSet]

/-- a set that is not returned leaves the state alone -/
theorem ipParseSet_notok_frame (c : Config) (st : PState) (i : Bytes)
    (h : ∀ x, (ipParseSet c st i).2 ≠ .ok x) : (ipParseSet c st i).1 = st := by
  unfold ipParseSet at h ⊢
  have := ipParseBody_err_frame c st
  grind

theorem ipParseSets_ok_replay (c : Config) : ∀ (f : Nat) (st st' : PState) (i : Bytes) (ss : List IpSet),
    ipParseSets c f st i = (st', .ok ss) → st' = ss.foldl replayIpSet st := by
  intro f
  induction f with
  | zero => intro st st' i ss h; simp [ipParseSets] at h
  | succ f ih =>
    intro st st' i ss h
    unfold ipParseSets at h
    cases hs : ipParseSet c st i with
    | mk st1 res =>
      simp only [hs] at h
      cases res with
      | ok sr =>
        obtain ⟨s, r1⟩ := sr
        simp only at h
        have e1 := ipParseSet_ok_replay c _ _ _ _ _ hs
        by_cases hl : r1.length = i.length
        · simp [hl] at h
        · simp only [hl, ↓reduceIte] at h
          cases hr : ipParseSets c f st1 r1 with
          | mk st2 res2 =>
            simp only [hr] at h
            cases res2 with
            | ok ss' =>
              simp only [Prod.mk.injEq, Res.ok.injEq] at h
              obtain ⟨h1, h2⟩ := h
              have e2 := ih _ _ _ _ hr
              subst h1 h2 e1
              simpa using e2
            | err => simp at h
            | panic => simp at h
            | overflow => simp at h
      | err =>
        simp only [Prod.mk.injEq, Res.ok.injEq] at h
        have := ipParseSet_notok_frame c st i (by rw [hs]; simp)
        rw [hs] at this
        simp only at this
        rw [← h.1, ← h.2, this]
        rfl
      | panic => simp at h
      | overflow => simp at h

/-! #### the set loop's error outcome: only with a set header of zero bytes, and then nothing is learned -/

/-- a layout that occupies no bytes decodes to the same values whatever the input, and consumes nothing -/
theorem parseFields_const (proto : Nat → Nat) : ∀ (lay : Layout) (acc : List Nat), lay.wireLen = 0 →
    ∃ vals, ∀ i, parseFields proto lay acc i = some (vals, i) := by
  intro lay
  induction lay with
  | nil => intro acc _; exact ⟨acc, fun i => rfl⟩
  | cons f fs ih =>
    intro acc hw
    have hw' : f.kind.width + Layout.wireLen fs = 0 := by
      simpa [Layout.wireLen] using hw
    have hfs : Layout.wireLen fs = 0 := by omega
    cases hk : f.kind with
    | wire w =>
      have : w = 0 := by simp [hk, FKind.width] at hw'; omega
      subst this
      obtain ⟨vals, hv⟩ := ih (acc ++ [beNat []]) hfs
      refine ⟨vals, fun i => ?_⟩
      simp only [parseFields, hk]
      have : beU 0 i = some (beNat [], i) := by simp [beU]
      rw [this]
      exact hv i
    | const v =>
      obtain ⟨vals, hv⟩ := ih (acc ++ [v]) hfs
      refine ⟨vals, fun i => ?_⟩
      simp only [parseFields, hk]
      exact hv i
    | protoOf src =>
      obtain ⟨vals, hv⟩ := ih (acc ++ [proto (acc.getD src 0)]) hfs
      refine ⟨vals, fun i => ?_⟩
      simp only [parseFields, hk]
      exact hv i

/-- an empty set body teaches nothing -/
theorem ipParseBody_nil_frame (c : Config) (st : PState) (id : Nat) : (ipParseBody c st id []).1 = st := by
  have h1 : parseIpTemplate [] = .err := by simp [parseIpTemplate, beU]
  have h2 : parseIpOptTemplate [] = .err := by simp [parseIpOptTemplate, beU]
  unfold ipParseBody
  rw [h1, h2]
  grind

theorem ipParseSets_no_err_of_progress (c : Config)
    (hp : ∀ st st' i s r, ipParseSet c st i = (st', .ok (s, r)) → r.length < i.length) :
    ∀ (f : Nat) (st : PState) (i : Bytes), (ipParseSets c f st i).2 ≠ .err := by
  intro f
  induction f with
  | zero => intro st i; simp [ipParseSets]
  | succ f ih =>
    intro st i
    unfold ipParseSets
    have := hp st
    grind

theorem ipParseSets_frame_of_set_frame (c : Config) (hs : ∀ st i, (ipParseSet c st i).1 = st) :
    ∀ (f : Nat) (st : PState) (i : Bytes), (ipParseSets c f st i).1 = st := by
  intro f
  induction f with
  | zero => intro st i; simp [ipParseSets]
  | succ f ih =>
    intro st i
    unfold ipParseSets
    have := hs st i
    grind

/-- the IPFIX set loop reports an error (`Many0`: a set that consumed nothing) only when the set
    header occupies no bytes — and then nothing was learned.  No hypothesis on the tables. -/
theorem ipParseSets_err_frame (c : Config) (f : Nat) (st st' : PState) (i : Bytes)
    (h : ipParseSets c f st i = (st', .err)) : st' = st := by
  by_cases hw : 0 < c.t.ipSetHdr.wireLen
  · have := ipParseSets_no_err c hw f st i
    rw [h] at this
    simp at this
  · obtain ⟨vals, hv⟩ := parseFields_const c.t.protoFromU8 c.t.ipSetHdr [] (by omega)
    by_cases hl : c.t.ipSetHdr.get "length" vals - 4 = 0
    · -- every set has an empty body
      have hs : ∀ st i, (ipParseSet c st i).1 = st := by
        intro st i
        unfold ipParseSet
        have ht : takeN 0 i = some ([], i) := by simp [takeN]
        simp only [parseLayout, hv, hl, ht]
        have := ipParseBody_nil_frame c st (c.t.ipSetHdr.get "header_id" vals)
        grind
      have := ipParseSets_frame_of_set_frame c hs f st i
      rw [h] at this
      exact this
    · -- every set that parses consumes its (non-empty) body
      have hp : ∀ st st' i s r, ipParseSet c st i = (st', .ok (s, r)) → r.length < i.length := by
        intro st st' i s r hps
        unfold ipParseSet at hps
        simp only [parseLayout, hv] at hps
        cases ht : takeN (c.t.ipSetHdr.get "length" vals - 4) i with
        | none => simp [ht] at hps
        | some br =>
          obtain ⟨body, r2⟩ := br
          obtain ⟨a1, _, a3⟩ := takeN_some ht
          simp only [ht] at hps
          have : r = r2 := by grind
          subst this
          rw [a3, List.length_drop]
          omega
      have := ipParseSets_no_err_of_progress c hp f st i
      rw [h] at this
      simp at this

theorem parseIpfix_ok_replay (c : Config) (st st' : PState) (i : Bytes) (p : Packet) (r : Bytes)
    (h : parseIpfix c st i = (st', .ok (p, r))) : st' = replayPkt st p := by
  unfold parseIpfix at h
  have := ipParseSets_ok_replay c
  grind [replayPkt]

/-- an IPFIX message that is reported as an error teaches nothing (no hypothesis on the tables) -/
theorem parseIpfix_err_frame (c : Config) (st st' : PState) (i : Bytes)
    (h : parseIpfix c st i = (st', .err)) : st' = st := by
  unfold parseIpfix at h
  have := ipParseSets_err_frame c
  grind

/-! ### one packet -/

theorem liftRes_fail {v : Nat} {b : Bytes} {x : Res (Packet × Bytes)} {e : ErrKind} :
    liftRes v b x = .fail e ↔ x = .err ∧ e = .partialParse v b := by
  cases x with
  | ok a => obtain ⟨p', r'⟩ := a; simp [liftRes]
  | err => simp [liftRes]; exact eq_comm
  | _ => simp [liftRes]

/-- what one dispatch arm does to the caches -/
theorem parseVersioned_replay (c : Config) (st st' : PState) (k : Nat) (i : Bytes) (s : Step)
    (h : parseVersioned c st k i = (st', s)) :
    (∀ p r, s = .ok p r → st' = replayPkt st p) ∧
    (∀ e, s = .fail e → AgreeIp st' st ∧ (st' = st ∨ e = .partialParse 9 i)) ∧
    (s = .unallowed → st' = st) := by
  unfold parseVersioned at h
  have h9 := parseV9_ok_replay c st
  have h9' := parseV9_agreeIp c st i
  have h10 := parseIpfix_ok_replay c st
  have h10' := parseIpfix_err_frame c st
  refine ⟨?_, ?_, ?_⟩
  · intro p r hs
    subst hs
    split at h
    · grind [replayPkt]
    · split at h
      · grind [replayPkt]
      · split at h
        · simp only [Prod.mk.injEq, liftRes_ok] at h
          exact h9 _ _ _ _ (Prod.ext h.1 h.2)
        · split at h
          · simp only [Prod.mk.injEq, liftRes_ok] at h
            exact h10 _ _ _ _ (Prod.ext h.1 h.2)
          · simp at h
  · intro e hs
    subst hs
    split at h
    · have : st' = st := by grind
      subst this; exact ⟨⟨rfl, rfl⟩, Or.inl rfl⟩
    · split at h
      · have : st' = st := by grind
        subst this; exact ⟨⟨rfl, rfl⟩, Or.inl rfl⟩
      · split at h
        · simp only [Prod.mk.injEq, liftRes_fail] at h
          obtain ⟨h1, _, h3⟩ := h
          rw [← h1]
          exact ⟨h9', Or.inr h3⟩
        · split at h
          · simp only [Prod.mk.injEq, liftRes_fail] at h
            obtain ⟨h1, h2, _⟩ := h
            have := h10' _ _ (Prod.ext h1 h2)
            subst this; exact ⟨⟨rfl, rfl⟩, Or.inl rfl⟩
          · simp only [Prod.mk.injEq] at h
            rw [← h.1]; exact ⟨⟨rfl, rfl⟩, Or.inl rfl⟩
  · intro hs
    subst hs
    split at h
    · grind
    · split at h
      · grind
      · split at h
        · simp only [Prod.mk.injEq] at h
          have := h.2
          cases hx : (parseV9 c st i).2 <;> simp [hx, liftRes] at this
        · split at h
          · simp only [Prod.mk.injEq] at h
            have := h.2
            cases hx : (parseIpfix c st i).2 <;> simp [hx, liftRes] at this
          · simp at h

theorem parsePacket_replay (c : Config) (st st' : PState) (buf : Bytes) (s : Step)
    (h : parsePacket c st buf = (st', s)) :
    (∀ p r, s = .ok p r → st' = replayPkt st p) ∧
    (∀ e, s = .fail e → AgreeIp st' st ∧ (st' = st ∨ e = .partialParse 9 (buf.drop 2))) ∧
    (s = .unallowed → st' = st) := by
  rcases parsePacket_inv c st st' buf s h with ⟨_, e, hs⟩ | ⟨_, _, _, e, hs⟩ | ⟨_, _, _, _, e, hs⟩ | ⟨v, k, hv, ha, hd, hp⟩
  · subst e hs; exact ⟨by simp, fun _ _ => ⟨⟨rfl, rfl⟩, Or.inl rfl⟩, fun _ => rfl⟩
  · subst e hs; exact ⟨by simp, fun _ _ => ⟨⟨rfl, rfl⟩, Or.inl rfl⟩, fun _ => rfl⟩
  · subst e hs; exact ⟨by simp, fun _ _ => ⟨⟨rfl, rfl⟩, Or.inl rfl⟩, fun _ => rfl⟩
  · exact parseVersioned_replay c st st' k _ s hp

/-! ### one call -/

theorem endsInV9Err_cons (p : Packet) (ps : List Packet) (h : ps ≠ []) :
    endsInV9Err (p :: ps) = endsInV9Err ps := by
  cases ps with
  | nil => exact absurd rfl h
  | cons q qs => simp [endsInV9Err, List.getLast?_cons_cons]

theorem endsInV9Err_tail (p : Packet) (ps : List Packet) (h : endsInV9Err (p :: ps) = false) :
    endsInV9Err ps = false := by
  cases ps with
  | nil => rfl
  | cons q qs => rw [endsInV9Err_cons p _ (by simp)] at h; exact h

/-- the packet loop: the IPFIX maps are always the replay of what was reported; the whole state is,
    unless the call ended in a failing V9 packet -/
theorem parseBytesF_replay (c : Config) : ∀ (f : Nat) (st st' : PState) (buf : Bytes) (pkts : List Packet),
    parseBytesF c f st buf = (st', .done pkts) →
    AgreeIp st' (replay st pkts) ∧ (endsInV9Err pkts = false → st' = replay st pkts) := by
  intro f
  induction f with
  | zero => intro st st' buf ps h; simp [parseBytesF] at h
  | succ f ih =>
    intro st st' buf ps h
    unfold parseBytesF at h
    by_cases he : buf.isEmpty = true
    · simp only [he, ↓reduceIte, Prod.mk.injEq, Outcome.done.injEq] at h
      rw [← h.1, ← h.2]
      exact ⟨⟨rfl, rfl⟩, fun _ => rfl⟩
    · simp only [he, Bool.false_eq_true, ↓reduceIte] at h
      cases hp : parsePacket c st buf with
      | mk st1 step =>
        simp only [hp] at h
        obtain ⟨k1, k2, k3⟩ := parsePacket_replay c _ _ _ _ hp
        cases step with
        | ok pkt rest =>
          have e1 := k1 pkt rest rfl
          simp only at h
          by_cases hr : rest.isEmpty = true
          · simp only [hr, ↓reduceIte, Prod.mk.injEq, Outcome.done.injEq] at h
            rw [← h.1, ← h.2, e1]
            exact ⟨⟨rfl, rfl⟩, fun _ => rfl⟩
          · simp only [hr, Bool.false_eq_true, ↓reduceIte] at h
            cases hrec : parseBytesF c f st1 rest with
            | mk st2 out =>
              simp only [hrec, Prod.mk.injEq] at h
              cases out with
              | done ps' =>
                simp only [Outcome.cons, Outcome.done.injEq] at h
                obtain ⟨i1, i2⟩ := ih _ _ _ _ hrec
                rw [← h.1, ← h.2, replay_cons, ← e1]
                exact ⟨i1, fun hh => i2 (endsInV9Err_tail _ _ hh)⟩
              | panic _ => simp [Outcome.cons] at h
              | overflow _ => simp [Outcome.cons] at h
        | fail e =>
          simp only [Prod.mk.injEq, Outcome.done.injEq] at h
          obtain ⟨a1, a2⟩ := k2 e rfl
          rw [← h.1, ← h.2]
          refine ⟨a1, fun hh => ?_⟩
          rcases a2 with a2 | a2
          · exact a2
          · subst a2
            simp [endsInV9Err] at hh
        | unallowed =>
          simp only [Prod.mk.injEq, Outcome.done.injEq] at h
          rw [← h.1, ← h.2, k3 rfl]
          exact ⟨⟨rfl, rfl⟩, fun _ => rfl⟩
        | panic => simp at h
        | overflow => simp at h

/-! ### what a replay can change: only the ids that a reported set defines -/

theorem replayV9Set_other (id : Nat) (st : PState) (s : V9Set) (h : v9Defines id s = false) :
    amLookup id (replayV9Set st s).v9T = amLookup id st.v9T ∧
    amLookup id (replayV9Set st s).v9O = amLookup id st.v9O := by
  unfold replayV9Set replayV9Body
  unfold v9Defines at h
  split
  · rename_i ts pad hb
    rw [hb] at h
    simp only [List.any_eq_false, beq_iff_eq] at h
    exact insertV9Templates_other id ts st h
  · rename_i ts pad hb
    rw [hb] at h
    simp only [List.any_eq_false, beq_iff_eq] at h
    exact insertV9OptTemplates_other id ts st h
  · exact ⟨rfl, rfl⟩

theorem replayV9Set_ip (st : PState) (s : V9Set) :
    (replayV9Set st s).ipT = st.ipT ∧ (replayV9Set st s).ipO = st.ipO := by
  unfold replayV9Set replayV9Body
  split
  · exact insertV9Templates_ip _ st
  · exact insertV9OptTemplates_ip _ st
  · exact ⟨rfl, rfl⟩

theorem replayIpSet_other (id : Nat) (st : PState) (s : IpSet) (h : ipDefines id s = false) :
    amLookup id (replayIpSet st s).ipT = amLookup id st.ipT ∧
    amLookup id (replayIpSet st s).ipO = amLookup id st.ipO := by
  unfold replayIpSet replayIpBody
  unfold ipDefines at h
  split
  · rename_i t hb
    rw [hb] at h
    have ht : id ≠ t.id := by intro e; simp [e] at h
    simp [amLookup_amInsert_a2, ht, amLookup_amErase_ne_a2 ht]
  · rename_i t hb
    rw [hb] at h
    have ht : id ≠ t.id := by intro e; simp [e] at h
    simp [amLookup_amInsert_a2, ht, amLookup_amErase_ne_a2 ht]
  · exact ⟨rfl, rfl⟩

theorem replayIpSet_v9 (st : PState) (s : IpSet) :
    (replayIpSet st s).v9T = st.v9T ∧ (replayIpSet st s).v9O = st.v9O := by
  unfold replayIpSet replayIpBody
  split <;> exact ⟨rfl, rfl⟩

theorem foldl_replayV9Set_other (id : Nat) : ∀ (ss : List V9Set) (st : PState), ss.any (v9Defines id) = false →
    amLookup id (ss.foldl replayV9Set st).v9T = amLookup id st.v9T ∧
    amLookup id (ss.foldl replayV9Set st).v9O = amLookup id st.v9O := by
  intro ss
  induction ss with
  | nil => intro st _; exact ⟨rfl, rfl⟩
  | cons s ss ih =>
    intro st h
    simp only [List.any_cons, Bool.or_eq_false_iff] at h
    obtain ⟨a1, a2⟩ := ih (replayV9Set st s) h.2
    obtain ⟨b1, b2⟩ := replayV9Set_other id st s h.1
    simp only [List.foldl_cons]
    exact ⟨a1.trans b1, a2.trans b2⟩

theorem foldl_replayIpSet_other (id : Nat) : ∀ (ss : List IpSet) (st : PState), ss.any (ipDefines id) = false →
    amLookup id (ss.foldl replayIpSet st).ipT = amLookup id st.ipT ∧
    amLookup id (ss.foldl replayIpSet st).ipO = amLookup id st.ipO := by
  intro ss
  induction ss with
  | nil => intro st _; exact ⟨rfl, rfl⟩
  | cons s ss ih =>
    intro st h
    simp only [List.any_cons, Bool.or_eq_false_iff] at h
    obtain ⟨a1, a2⟩ := ih (replayIpSet st s) h.2
    obtain ⟨b1, b2⟩ := replayIpSet_other id st s h.1
    simp only [List.foldl_cons]
    exact ⟨a1.trans b1, a2.trans b2⟩

theorem foldl_replayV9Set_ip : ∀ (ss : List V9Set) (st : PState),
    (ss.foldl replayV9Set st).ipT = st.ipT ∧ (ss.foldl replayV9Set st).ipO = st.ipO := by
  intro ss
  induction ss with
  | nil => intro st; exact ⟨rfl, rfl⟩
  | cons s ss ih =>
    intro st
    obtain ⟨a1, a2⟩ := ih (replayV9Set st s)
    obtain ⟨b1, b2⟩ := replayV9Set_ip st s
    simp only [List.foldl_cons]
    exact ⟨a1.trans b1, a2.trans b2⟩

theorem foldl_replayIpSet_v9 : ∀ (ss : List IpSet) (st : PState),
    (ss.foldl replayIpSet st).v9T = st.v9T ∧ (ss.foldl replayIpSet st).v9O = st.v9O := by
  intro ss
  induction ss with
  | nil => intro st; exact ⟨rfl, rfl⟩
  | cons s ss ih =>
    intro st
    obtain ⟨a1, a2⟩ := ih (replayIpSet st s)
    obtain ⟨b1, b2⟩ := replayIpSet_v9 st s
    simp only [List.foldl_cons]
    exact ⟨a1.trans b1, a2.trans b2⟩

theorem replayPkt_other_v9 (id : Nat) (st : PState) (p : Packet) (h : pktDefinesV9 id p = false) :
    amLookup id (replayPkt st p).v9T = amLookup id st.v9T ∧
    amLookup id (replayPkt st p).v9O = amLookup id st.v9O := by
  cases p with
  | v9 hd ss => exact foldl_replayV9Set_other id ss st h
  | ipfix hd ss =>
    obtain ⟨a, b⟩ := foldl_replayIpSet_v9 ss st
    simp [replayPkt, a, b]
  | _ => exact ⟨rfl, rfl⟩

theorem replayPkt_other_ip (id : Nat) (st : PState) (p : Packet) (h : pktDefinesIp id p = false) :
    amLookup id (replayPkt st p).ipT = amLookup id st.ipT ∧
    amLookup id (replayPkt st p).ipO = amLookup id st.ipO := by
  cases p with
  | ipfix hd ss => exact foldl_replayIpSet_other id ss st h
  | v9 hd ss =>
    obtain ⟨a, b⟩ := foldl_replayV9Set_ip ss st
    simp [replayPkt, a, b]
  | _ => exact ⟨rfl, rfl⟩

theorem replay_other_v9 (id : Nat) : ∀ (ps : List Packet) (st : PState), (∀ p ∈ ps, pktDefinesV9 id p = false) →
    amLookup id (replay st ps).v9T = amLookup id st.v9T ∧
    amLookup id (replay st ps).v9O = amLookup id st.v9O := by
  intro ps
  induction ps with
  | nil => intro st _; exact ⟨rfl, rfl⟩
  | cons p ps ih =>
    intro st h
    obtain ⟨a1, a2⟩ := ih (replayPkt st p) (fun q hq => h q (List.mem_cons_of_mem _ hq))
    obtain ⟨b1, b2⟩ := replayPkt_other_v9 id st p (h p List.mem_cons_self)
    rw [replay_cons]
    exact ⟨a1.trans b1, a2.trans b2⟩

theorem replay_other_ip (id : Nat) : ∀ (ps : List Packet) (st : PState), (∀ p ∈ ps, pktDefinesIp id p = false) →
    amLookup id (replay st ps).ipT = amLookup id st.ipT ∧
    amLookup id (replay st ps).ipO = amLookup id st.ipO := by
  intro ps
  induction ps with
  | nil => intro st _; exact ⟨rfl, rfl⟩
  | cons p ps ih =>
    intro st h
    obtain ⟨a1, a2⟩ := ih (replayPkt st p) (fun q hq => h q (List.mem_cons_of_mem _ hq))
    obtain ⟨b1, b2⟩ := replayPkt_other_ip id st p (h p List.mem_cons_self)
    rw [replay_cons]
    exact ⟨a1.trans b1, a2.trans b2⟩

/-! ### the IPFIX half of a replay depends only on the IPFIX half of the start state -/

theorem replayIpSet_agreeIp (s1 s2 : PState) (s : IpSet) (h : AgreeIp s1 s2) :
    AgreeIp (replayIpSet s1 s) (replayIpSet s2 s) := by
  obtain ⟨h1, h2⟩ := h
  unfold replayIpSet replayIpBody
  split <;> simp [AgreeIp, h1, h2]

theorem replayPkt_agreeIp (s1 s2 : PState) (p : Packet) (h : AgreeIp s1 s2) :
    AgreeIp (replayPkt s1 p) (replayPkt s2 p) := by
  cases p with
  | ipfix hd ss =>
    simp only [replayPkt]
    induction ss generalizing s1 s2 with
    | nil => exact h
    | cons s ss ih => simp only [List.foldl_cons]; exact ih _ _ (replayIpSet_agreeIp _ _ s h)
  | v9 hd ss =>
    obtain ⟨a1, a2⟩ := foldl_replayV9Set_ip ss s1
    obtain ⟨b1, b2⟩ := foldl_replayV9Set_ip ss s2
    exact ⟨by simp only [replayPkt]; rw [a1, b1]; exact h.1, by simp only [replayPkt]; rw [a2, b2]; exact h.2⟩
  | _ => exact h

theorem replay_agreeIp : ∀ (ps : List Packet) (s1 s2 : PState), AgreeIp s1 s2 → AgreeIp (replay s1 ps) (replay s2 ps) := by
  intro ps
  induction ps with
  | nil => intro s1 s2 h; exact h
  | cons p ps ih => intro s1 s2 h; rw [replay_cons, replay_cons]; exact ih _ _ (replayPkt_agreeIp _ _ p h)

/-! ### one call, `parseBytes` form; histories -/

theorem parseBytes_replay (c : Config) (st st' : PState) (buf : Bytes) (pkts : List Packet)
    (h : parseBytes c st buf = (st', .done pkts)) :
    AgreeIp st' (replay st pkts) ∧ (endsInV9Err pkts = false → st' = replay st pkts) :=
  parseBytesF_replay c _ _ _ _ _ h

/-- a call's result, destructured (the outcome is always `done`) -/
theorem parseBytes_eq_done (c : Config) (st : PState) (buf : Bytes) :
    parseBytes c st buf = ((parseBytes c st buf).1, .done (outPkts (parseBytes c st buf).2)) := by
  obtain ⟨pkts, hd⟩ := parseBytes_done c st buf
  apply Prod.ext
  · rfl
  · simp only [hd, outPkts]

theorem endsInV9Err_false_of_not_mem (pkts : List Packet)
    (h : ∀ b r, Packet.error (.partialParse 9 b) r ∉ pkts) : endsInV9Err pkts = false := by
  rw [endsInV9Err_iff]
  intro b r e
  exact h b r (List.mem_of_getLast? e)

theorem hist_replay (c : Config) : ∀ (hist : List Bytes) (st : PState),
    (∀ b r, Packet.error (.partialParse 9 b) r ∉ histPkts c st hist) →
    hist.foldl (fun s b => (parseBytes c s b).1) st = replay st (histPkts c st hist) := by
  intro hist
  induction hist with
  | nil => intro st _; rfl
  | cons b bs ih =>
    intro st h
    simp only [List.foldl_cons, histPkts]
    have h1 : ∀ b' r, Packet.error (.partialParse 9 b') r ∉ outPkts (parseBytes c st b).2 :=
      fun b' r hm => h b' r (by simp only [histPkts]; exact List.mem_append_left _ hm)
    have h2 : ∀ b' r, Packet.error (.partialParse 9 b') r ∉ histPkts c (parseBytes c st b).1 bs :=
      fun b' r hm => h b' r (by simp only [histPkts]; exact List.mem_append_right _ hm)
    have e := (parseBytes_replay c st _ b _ (parseBytes_eq_done c st b)).2 (endsInV9Err_false_of_not_mem _ h1)
    rw [replay_append, ← e]
    exact ih _ h2

theorem hist_replay_ip (c : Config) : ∀ (hist : List Bytes) (st : PState),
    AgreeIp (hist.foldl (fun s b => (parseBytes c s b).1) st) (replay st (histPkts c st hist)) := by
  intro hist
  induction hist with
  | nil => intro st; exact ⟨rfl, rfl⟩
  | cons b bs ih =>
    intro st
    simp only [List.foldl_cons, histPkts]
    have e := (parseBytes_replay c st _ b _ (parseBytes_eq_done c st b)).1
    rw [replay_append]
    obtain ⟨i1, i2⟩ := ih (parseBytes c st b).1
    obtain ⟨j1, j2⟩ := replay_agreeIp (histPkts c (parseBytes c st b).1 bs) _ _ e
    exact ⟨i1.trans j1, i2.trans j2⟩

/-! ### the failing V9 packet: what it teaches is the replay of the flowsets that parsed before the failure -/

/-- the flowsets the V9 flowset loop parses before it ends (normally or at the first failing flowset) -/
def v9SetsDone (c : Config) : Nat → PState → Bytes → List V9Set
  | 0, _, _ => []
  | n + 1, st, i =>
    if i.isEmpty then v9SetsDone c n st i
    else
      match v9ParseSet c st i with
      | (st', .ok (s, r)) => s :: v9SetsDone c n st' r
      | _ => []

/-- the flowsets of a V9 packet body (input after the version word) that parse, in state `st` -/
def v9Learned (c : Config) (st : PState) (body : Bytes) : List V9Set :=
  match parseLayout c.t.protoFromU8 c.t.v9Hdr body with
  | none => []
  | some (h, r) => v9SetsDone c (c.t.v9Hdr.get "count" h) st r

/-- like `replayPkt`, but the error a failing V9 packet is reported as replays the flowsets of the
    recorded remaining bytes that parse -/
def replayPktX (c : Config) (st : PState) : Packet → PState
  | .error (.partialParse 9 b) _ => (v9Learned c st b).foldl replayV9Set st
  | p => replayPkt st p

def replayX (c : Config) (st : PState) (pkts : List Packet) : PState := pkts.foldl (replayPktX c) st

theorem v9ParseSet_notok_frame (c : Config) (st : PState) (i : Bytes)
    (h : ∀ x, (v9ParseSet c st i).2 ≠ .ok x) : (v9ParseSet c st i).1 = st := by
  unfold v9ParseSet at h ⊢
  have := v9ParseBody_err_frame c st
  grind

theorem v9ParseSets_state (c : Config) : ∀ (n : Nat) (st : PState) (i : Bytes),
    (v9ParseSets c n st i).1 = (v9SetsDone c n st i).foldl replayV9Set st := by
  intro n
  induction n with
  | zero => intro st i; rfl
  | succ n ih =>
    intro st i
    unfold v9ParseSets v9SetsDone
    by_cases he : i.isEmpty = true
    · simp only [he, ↓reduceIte]; exact ih st i
    · simp only [he, Bool.false_eq_true, ↓reduceIte]
      cases hs : v9ParseSet c st i with
      | mk st1 res =>
        cases res with
        | ok sr =>
          obtain ⟨s, r1⟩ := sr
          have e1 := v9ParseSet_ok_replay c _ _ _ _ _ hs
          have e2 := ih st1 r1
          simp only [List.foldl_cons, ← e1, ← e2]
          cases v9ParseSets c n st1 r1 with
          | mk st2 res2 => cases res2 <;> rfl
        | err =>
          have := v9ParseSet_notok_frame c st i (by rw [hs]; simp)
          rw [hs] at this
          simpa using this
        | panic =>
          have := v9ParseSet_notok_frame c st i (by rw [hs]; simp)
          rw [hs] at this
          simpa using this
        | overflow =>
          have := v9ParseSet_notok_frame c st i (by rw [hs]; simp)
          rw [hs] at this
          simpa using this

/-- for a flowset loop that succeeds, the flowsets "done" are the flowsets returned -/
theorem v9SetsDone_ok (c : Config) : ∀ (n : Nat) (st st' : PState) (i : Bytes) (ss : List V9Set) (r : Bytes),
    v9ParseSets c n st i = (st', .ok (ss, r)) → v9SetsDone c n st i = ss := by
  intro n
  induction n with
  | zero => intro st st' i ss r h; simp [v9ParseSets] at h; simp [v9SetsDone, h.2.1]
  | succ n ih =>
    intro st st' i ss r h
    unfold v9ParseSets at h
    unfold v9SetsDone
    by_cases he : i.isEmpty = true
    · simp only [he, ↓reduceIte] at h ⊢; exact ih _ _ _ _ _ h
    · simp only [he, Bool.false_eq_true, ↓reduceIte] at h ⊢
      cases hs : v9ParseSet c st i with
      | mk st1 res =>
        simp only [hs] at h
        cases res with
        | ok sr =>
          obtain ⟨s, r1⟩ := sr
          simp only at h ⊢
          cases hr : v9ParseSets c n st1 r1 with
          | mk st2 res2 =>
            simp only [hr] at h
            cases res2 with
            | ok x =>
              obtain ⟨ss', r'⟩ := x
              simp only [Prod.mk.injEq, Res.ok.injEq] at h
              rw [ih _ _ _ _ _ hr, ← h.2.1]
            | err => simp at h
            | panic => simp at h
            | overflow => simp at h
        | err => simp at h
        | panic => simp at h
        | overflow => simp at h

theorem parseV9_state (c : Config) (st : PState) (i : Bytes) :
    (parseV9 c st i).1 = (v9Learned c st i).foldl replayV9Set st := by
  unfold parseV9 v9Learned
  cases parseLayout c.t.protoFromU8 c.t.v9Hdr i with
  | none => rfl
  | some hr =>
    obtain ⟨h, r⟩ := hr
    simp only
    rw [← v9ParseSets_state]
    cases v9ParseSets c (c.t.v9Hdr.get "count" h) st r with
    | mk st2 res2 => cases res2 <;> rfl

/-- a V9 packet that is returned: the flowsets that parse are the flowsets it reports -/
theorem v9Learned_ok (c : Config) (st st' : PState) (i : Bytes) (hd : List Nat) (ss : List V9Set) (r : Bytes)
    (h : parseV9 c st i = (st', .ok (.v9 hd ss, r))) : v9Learned c st i = ss := by
  unfold parseV9 at h
  unfold v9Learned
  have := v9SetsDone_ok c
  grind

theorem parseVersioned_failX (c : Config) (st st' : PState) (k : Nat) (i : Bytes) (e : ErrKind)
    (h : parseVersioned c st k i = (st', .fail e)) :
    (e = .partialParse 9 i ∧ st' = (parseV9 c st i).1) ∨ (st' = st ∧ ∀ b, e ≠ .partialParse 9 b) := by
  unfold parseVersioned at h
  have h10' := parseIpfix_err_frame c st
  split at h
  · right; grind
  · split at h
    · right; grind
    · split at h
      · simp only [Prod.mk.injEq, liftRes_fail] at h
        exact Or.inl ⟨h.2.2, h.1.symm⟩
      · split at h
        · simp only [Prod.mk.injEq, liftRes_fail] at h
          obtain ⟨h1, h2, h3⟩ := h
          have := h10' _ _ (Prod.ext h1 h2)
          right
          exact ⟨this, by rw [h3]; simp⟩
        · simp only [Prod.mk.injEq, Step.fail.injEq] at h
          right
          exact ⟨h.1.symm, by rw [← h.2]; simp⟩

theorem parsePacket_failX (c : Config) (st st' : PState) (buf : Bytes) (e : ErrKind)
    (h : parsePacket c st buf = (st', .fail e)) : st' = replayPktX c st (.error e buf) := by
  rcases parsePacket_inv c st st' buf _ h with ⟨_, e1, hs⟩ | ⟨_, _, _, e1, hs⟩ | ⟨_, _, _, _, e1, hs⟩ | ⟨v, k, hv, ha, hd, hp⟩
  · simp only [Step.fail.injEq] at hs; subst e1 hs; rfl
  · simp at hs
  · simp only [Step.fail.injEq] at hs; subst e1 hs; rfl
  · rcases parseVersioned_failX c _ _ _ _ _ hp with ⟨e1, e2⟩ | ⟨e1, e2⟩
    · subst e1
      simp only [replayPktX]
      rw [e2, parseV9_state]
    · subst e1
      cases e with
      | partialParse ver b =>
        by_cases hv9 : ver = 9
        · subst hv9; exact absurd rfl (e2 b)
        · unfold replayPktX
          split
          · rename_i heq; simp at heq; exact absurd heq.1.1 hv9
          · rfl
      | _ => rfl

theorem parseVersioned_ok_not_error (c : Config) (st st' : PState) (k : Nat) (i : Bytes) (p : Packet) (r : Bytes)
    (h : parseVersioned c st k i = (st', .ok p r)) : ∀ e b, p ≠ .error e b := by
  unfold parseVersioned at h
  unfold parseV9 parseIpfix at h
  intro e b hp
  subst hp
  grind [liftRes_ok]

theorem parsePacket_okX (c : Config) (st st' : PState) (buf : Bytes) (p : Packet) (r : Bytes)
    (h : parsePacket c st buf = (st', .ok p r)) : st' = replayPktX c st p := by
  have e1 := (parsePacket_replay c _ _ _ _ h).1 p r rfl
  rcases parsePacket_inv c st st' buf _ h with ⟨_, _, hs⟩ | ⟨_, _, _, _, hs⟩ | ⟨_, _, _, _, _, hs⟩ | ⟨v, k, hv, ha, hd, hp⟩
  · simp at hs
  · simp at hs
  · simp at hs
  · have := parseVersioned_ok_not_error c _ _ _ _ _ _ hp
    rw [e1]
    cases p with
    | error e b => exact absurd rfl (this e b)
    | _ => rfl

/-- the packet loop, unconditionally: the state after a call is the extended replay of what was reported -/
theorem parseBytesF_replayX (c : Config) : ∀ (f : Nat) (st st' : PState) (buf : Bytes) (pkts : List Packet),
    parseBytesF c f st buf = (st', .done pkts) → st' = replayX c st pkts := by
  intro f
  induction f with
  | zero => intro st st' buf ps h; simp [parseBytesF] at h
  | succ f ih =>
    intro st st' buf ps h
    unfold parseBytesF at h
    by_cases he : buf.isEmpty = true
    · simp only [he, ↓reduceIte, Prod.mk.injEq, Outcome.done.injEq] at h
      rw [← h.1, ← h.2]; rfl
    · simp only [he, Bool.false_eq_true, ↓reduceIte] at h
      cases hp : parsePacket c st buf with
      | mk st1 step =>
        simp only [hp] at h
        cases step with
        | ok pkt rest =>
          have e1 := parsePacket_okX c _ _ _ _ _ hp
          simp only at h
          by_cases hr : rest.isEmpty = true
          · simp only [hr, ↓reduceIte, Prod.mk.injEq, Outcome.done.injEq] at h
            rw [← h.1, ← h.2, e1]; rfl
          · simp only [hr, Bool.false_eq_true, ↓reduceIte] at h
            cases hrec : parseBytesF c f st1 rest with
            | mk st2 out =>
              simp only [hrec, Prod.mk.injEq] at h
              cases out with
              | done ps' =>
                simp only [Outcome.cons, Outcome.done.injEq] at h
                have i1 := ih _ _ _ _ hrec
                rw [← h.1, ← h.2, i1, e1]; rfl
              | panic _ => simp [Outcome.cons] at h
              | overflow _ => simp [Outcome.cons] at h
        | fail e =>
          simp only [Prod.mk.injEq, Outcome.done.injEq] at h
          have e1 := parsePacket_failX c _ _ _ _ hp
          rw [← h.1, ← h.2, e1]; rfl
        | unallowed =>
          simp only [Prod.mk.injEq, Outcome.done.injEq] at h
          have := (parsePacket_replay c _ _ _ _ hp).2.2 rfl
          rw [← h.1, ← h.2, this]; rfl
        | panic => simp at h
        | overflow => simp at h

theorem replayPktX_eq_replayPkt (c : Config) (st : PState) (p : Packet)
    (h : ∀ b r, p ≠ .error (.partialParse 9 b) r) : replayPktX c st p = replayPkt st p := by
  unfold replayPktX
  split
  · rename_i b r
    exact absurd rfl (h b r)
  · rfl

theorem replayX_eq_replay (c : Config) : ∀ (ps : List Packet) (st : PState),
    (∀ b r, Packet.error (.partialParse 9 b) r ∉ ps) → replayX c st ps = replay st ps := by
  intro ps
  induction ps with
  | nil => intro st _; rfl
  | cons p ps ih =>
    intro st h
    have e : replayPktX c st p = replayPkt st p :=
      replayPktX_eq_replayPkt c st p (fun b r hp => h b r (by rw [hp]; exact List.mem_cons_self))
    show replayX c (replayPktX c st p) ps = replay (replayPkt st p) ps
    rw [e]
    exact ih _ (fun b r hm => h b r (List.mem_cons_of_mem _ hm))

theorem replayX_concat (c : Config) (st : PState) (front : List Packet) (last : Packet) :
    replayX c st (front ++ [last]) = replayPktX c (replayX c st front) last := by
  simp [replayX, List.foldl_append]

/-- an error element can only be the last element of a call's result -/
theorem parseBytesF_errors_last (c : Config) : ∀ (f : Nat) (st st' : PState) (buf : Bytes) (pkts : List Packet),
    parseBytesF c f st buf = (st', .done pkts) → ∀ p ∈ pkts.dropLast, ∀ e r, p ≠ .error e r := by
  intro f
  induction f with
  | zero => intro st st' buf ps h; simp [parseBytesF] at h
  | succ f ih =>
    intro st st' buf ps h
    unfold parseBytesF at h
    by_cases he : buf.isEmpty = true
    · simp only [he, ↓reduceIte, Prod.mk.injEq, Outcome.done.injEq] at h
      rw [← h.2]; simp
    · simp only [he, Bool.false_eq_true, ↓reduceIte] at h
      cases hp : parsePacket c st buf with
      | mk st1 step =>
        simp only [hp] at h
        cases step with
        | ok pkt rest =>
          simp only at h
          by_cases hr : rest.isEmpty = true
          · simp only [hr, ↓reduceIte, Prod.mk.injEq, Outcome.done.injEq] at h
            rw [← h.2]; simp
          · simp only [hr, Bool.false_eq_true, ↓reduceIte] at h
            cases hrec : parseBytesF c f st1 rest with
            | mk st2 out =>
              simp only [hrec, Prod.mk.injEq] at h
              cases out with
              | done ps' =>
                simp only [Outcome.cons, Outcome.done.injEq] at h
                have i1 := ih _ _ _ _ hrec
                rw [← h.2]
                intro p hm
                cases ps' with
                | nil => simp at hm
                | cons q qs =>
                  rw [List.dropLast_cons_cons] at hm
                  simp only [List.mem_cons] at hm
                  rcases hm with hm | hm
                  · subst hm
                    rcases parsePacket_inv c st st1 buf _ hp with ⟨_, _, hs⟩ | ⟨_, _, _, _, hs⟩ | ⟨_, _, _, _, _, hs⟩ | ⟨v, k, hv, ha, hd, hpv⟩
                    · simp at hs
                    · simp at hs
                    · simp at hs
                    · exact parseVersioned_ok_not_error c _ _ _ _ _ _ hpv
                  · exact i1 p hm
              | panic _ => simp [Outcome.cons] at h
              | overflow _ => simp [Outcome.cons] at h
        | fail e =>
          simp only [Prod.mk.injEq, Outcome.done.injEq] at h
          rw [← h.2]; simp
        | unallowed =>
          simp only [Prod.mk.injEq, Outcome.done.injEq] at h
          rw [← h.2]; simp
        | panic => simp at h
        | overflow => simp at h

/-! ### packets without template sets teach nothing -/

def v9IsTemplateSet (s : V9Set) : Bool :=
  match s.body with
  | .templates _ _ => true
  | .optTemplates _ _ => true
  | _ => false

def ipIsTemplateSet (s : IpSet) : Bool :=
  match s.body with
  | .template _ => true
  | .optTemplate _ => true
  | _ => false

/-- the packet reports at least one template / options-template set -/
def pktHasTemplateSet : Packet → Bool
  | .v9 _ ss => ss.any v9IsTemplateSet
  | .ipfix _ ss => ss.any ipIsTemplateSet
  | _ => false

theorem replayPkt_no_template (st : PState) (p : Packet) (h : pktHasTemplateSet p = false) : replayPkt st p = st := by
  cases p with
  | v9 hd ss =>
    simp only [pktHasTemplateSet] at h
    simp only [replayPkt]
    induction ss with
    | nil => rfl
    | cons s ss ih =>
      simp only [List.any_cons, Bool.or_eq_false_iff] at h
      have : replayV9Set st s = st := by
        have h1 := h.1
        unfold v9IsTemplateSet at h1
        unfold replayV9Set replayV9Body
        split <;> simp_all
      simp only [List.foldl_cons, this]
      exact ih h.2
  | ipfix hd ss =>
    simp only [pktHasTemplateSet] at h
    simp only [replayPkt]
    induction ss with
    | nil => rfl
    | cons s ss ih =>
      simp only [List.any_cons, Bool.or_eq_false_iff] at h
      have : replayIpSet st s = st := by
        have h1 := h.1
        unfold ipIsTemplateSet at h1
        unfold replayIpSet replayIpBody
        split <;> simp_all
      simp only [List.foldl_cons, this]
      exact ih h.2
  | _ => rfl

theorem replay_no_template : ∀ (ps : List Packet) (st : PState), (∀ p ∈ ps, pktHasTemplateSet p = false) →
    replay st ps = st := by
  intro ps
  induction ps with
  | nil => intro st _; rfl
  | cons p ps ih =>
    intro st h
    rw [replay_cons, replayPkt_no_template st p (h p List.mem_cons_self)]
    exact ih st (fun q hq => h q (List.mem_cons_of_mem _ hq))

end Netflow.P1
