/-
  Lemmas/B3CostV9.lean — size of what the V9 parser returns versus the bytes it consumed.
-/
import NetflowModel.Lemmas.B3Cost
namespace Netflow.B3
open Netflow Cost

/-- the entries of one record (without the 64 bytes of the map node) -/
def entSum (es : Rec) : Nat := (es.map fun e => 16 + valueSize e.2.2).sum

theorem recSize_eq (es : Rec) : recSize es = 64 + entSum es := rfl

/-! ### templates -/

theorem parseTField_len {i r : Bytes} {f : TField} (h : parseTField i = some (f, r)) :
    r.length + 4 ≤ i.length := by
  unfold parseTField at h
  cases h1 : beU 2 i with
  | none => simp [h1] at h
  | some x =>
    obtain ⟨t, r1⟩ := x
    simp only [h1] at h
    cases h2 : beU 2 r1 with
    | none => simp [h2] at h
    | some y =>
      obtain ⟨l, r2⟩ := y
      simp only [h2, Option.some.injEq, Prod.mk.injEq] at h
      obtain ⟨_, e⟩ := h
      subst e
      have := beU_len h1
      have := beU_len h2
      omega

/-- a V9 template of `n` fields consumed at least `4 + 4n` bytes -/
theorem parseV9Template_len (i : Bytes) (t : V9Template) (r : Bytes) (h : parseV9Template i = some (t, r)) :
    r.length + 4 + 4 * t.fields.length ≤ i.length := by
  unfold parseV9Template at h
  cases h1 : beU 2 i with
  | none => simp [h1] at h
  | some x =>
    obtain ⟨id, r1⟩ := x
    simp only [h1] at h
    cases h2 : beU 2 r1 with
    | none => simp [h2] at h
    | some y =>
      obtain ⟨fc, r2⟩ := y
      simp only [h2] at h
      cases h3 : countP parseTField fc r2 with
      | none => simp [h3] at h
      | some z =>
        obtain ⟨fs, r3⟩ := z
        simp only [h3, Option.some.injEq, Prod.mk.injEq] at h
        obtain ⟨e1, e2⟩ := h
        subst e1 e2
        have := beU_len h1
        have := beU_len h2
        obtain ⟨a1, a2⟩ := countP_len (fun i a r h => parseTField_len h) _ _ _ _ h3
        simp only
        omega

/-- a V9 template of `n` fields costs `32 + 8n` and consumed `4 + 4n` bytes -/
theorem parseV9Template_cost (i : Bytes) (t : V9Template) (r : Bytes) (h : parseV9Template i = some (t, r)) :
    (32 + 8 * t.fields.length) + 8 * r.length ≤ 8 * i.length := by
  have := parseV9Template_len i t r h
  omega

/-- a V9 options template of `n` fields costs `64 + 8n` and consumed `6 + 4n` bytes -/
theorem parseV9OptTemplate_cost (i : Bytes) (t : V9OptTemplate) (r : Bytes) (h : parseV9OptTemplate i = some (t, r)) :
    (64 + 8 * (t.scope.length + t.opts.length)) + 11 * r.length ≤ 11 * i.length := by
  unfold parseV9OptTemplate at h
  cases h1 : beU 2 i with
  | none => simp [h1] at h
  | some x =>
    obtain ⟨id, r1⟩ := x
    simp only [h1] at h
    cases h2 : beU 2 r1 with
    | none => simp [h2] at h
    | some y =>
      obtain ⟨sl, r2⟩ := y
      simp only [h2] at h
      cases h2' : beU 2 r2 with
      | none => simp [h2'] at h
      | some y' =>
        obtain ⟨ol, r2'⟩ := y'
        simp only [h2'] at h
        cases h3 : countP parseTField (sl / 4) r2' with
        | none => simp [h3] at h
        | some z =>
          obtain ⟨ss, r3⟩ := z
          simp only [h3] at h
          cases h4 : countP parseTField (ol / 4) r3 with
          | none => simp [h4] at h
          | some w =>
            obtain ⟨os, r4⟩ := w
            simp only [h4, Option.some.injEq, Prod.mk.injEq] at h
            obtain ⟨e1, e2⟩ := h
            subst e1 e2
            have := beU_len h1
            have := beU_len h2
            have := beU_len h2'
            obtain ⟨a1, a2⟩ := countP_len (fun i a r h => parseTField_len h) _ _ _ _ h3
            obtain ⟨b1, b2⟩ := countP_len (fun i a r h => parseTField_len h) _ _ _ _ h4
            simp only
            omega

/-! ### data records -/

/-- THE structural fact: a record of a template with `k` fields has `k` entries, whatever
    the number of bytes consumed. -/
theorem v9ParseRec_length (c : Config) :
    ∀ (fs : List TField) (idx : Nat) (i : Bytes) (es : Rec) (r : Bytes),
      v9ParseRec c fs idx i = some (es, r) → es.length = fs.length ∧ r.length ≤ i.length := by
  intro fs
  induction fs with
  | nil => intro idx i es r h; simp [v9ParseRec] at h; simp [h.1.symm, h.2.symm]
  | cons f fs ih =>
    intro idx i es r h
    simp only [v9ParseRec] at h
    cases hv : parseValue c.vc (c.t.v9Ty (c.t.v9Field f.typ)) f.len i with
    | none => simp [hv] at h
    | some x =>
      obtain ⟨v, r1⟩ := x
      simp only [hv] at h
      cases hr : v9ParseRec c fs (idx + 1) r1 with
      | none => simp [hr] at h
      | some y =>
        obtain ⟨es', r2⟩ := y
        simp only [hr, Option.some.injEq, Prod.mk.injEq] at h
        obtain ⟨e1, e2⟩ := h
        subst e1 e2
        obtain ⟨n, a1, _, _⟩ := parseValue_cost hv
        obtain ⟨b1, b2⟩ := ih _ _ _ _ hr
        exact ⟨by simp [b1], by omega⟩

/-- with honest fields every entry consumed at least one byte: 16 + 32 + 3·consumed ≤ 51·consumed -/
theorem v9ParseRec_cost (c : Config) :
    ∀ (fs : List TField) (idx : Nat) (i : Bytes) (es : Rec) (r : Bytes), honestFs fs = true →
      v9ParseRec c fs idx i = some (es, r) →
      entSum es + 51 * r.length ≤ 51 * i.length ∧ r.length + fs.length ≤ i.length := by
  intro fs
  induction fs with
  | nil => intro idx i es r _ h; simp [v9ParseRec] at h; obtain ⟨e1, e2⟩ := h; subst e1 e2; simp [entSum]
  | cons f fs ih =>
    intro idx i es r hf h
    simp only [honestFs, List.all_cons, Bool.and_eq_true, decide_eq_true_eq] at hf
    simp only [v9ParseRec] at h
    cases hv : parseValue c.vc (c.t.v9Ty (c.t.v9Field f.typ)) f.len i with
    | none => simp [hv] at h
    | some x =>
      obtain ⟨v, r1⟩ := x
      simp only [hv] at h
      cases hr : v9ParseRec c fs (idx + 1) r1 with
      | none => simp [hr] at h
      | some y =>
        obtain ⟨es', r2⟩ := y
        simp only [hr, Option.some.injEq, Prod.mk.injEq] at h
        obtain ⟨e1, e2⟩ := h
        subst e1 e2
        obtain ⟨n, a1, a2, a3⟩ := parseValue_cost hv
        have a4 := a3 hf.1
        obtain ⟨b1, b2⟩ := ih _ _ _ _ hf.2 hr
        simp only [entSum, List.map_cons, List.sum_cons, List.length_cons] at b1 ⊢
        exact ⟨by omega, by omega⟩

/-- the record loop: at most `n` records (no honesty needed) -/
theorem v9RecLoop_count (c : Config) (fs : List TField) :
    ∀ (n : Nat) (i : Bytes) (acc recs : List Rec) (pad : Bytes),
      v9RecLoop c fs n i acc = (recs, pad) → recs.length ≤ acc.length + n ∧ pad.length ≤ i.length := by
  intro n
  induction n with
  | zero =>
    intro i acc recs pad h
    simp only [v9RecLoop, Prod.mk.injEq] at h
    simp [h.1.symm, h.2.symm]
  | succ n ih =>
    intro i acc recs pad h
    simp only [v9RecLoop] at h
    cases hr : v9ParseRec c fs 0 i with
    | none =>
      simp only [hr] at h
      have := ih _ _ _ _ h
      omega
    | some x =>
      obtain ⟨es, r⟩ := x
      simp only [hr] at h
      obtain ⟨a1, a2⟩ := ih _ _ _ _ h
      have := (v9ParseRec_length c _ _ _ _ _ hr).2
      simp only [List.length_append, List.length_cons, List.length_nil] at a1
      omega

/-- the record loop with an honest, non-empty field list: 115 per byte -/
theorem v9RecLoop_cost (c : Config) (fs : List TField) (hf : honestFs fs = true) (hne : fs ≠ []) :
    ∀ (n : Nat) (i : Bytes) (acc recs : List Rec) (pad : Bytes),
      v9RecLoop c fs n i acc = (recs, pad) →
      (recs.map recSize).sum + 115 * pad.length ≤ (acc.map recSize).sum + 115 * i.length := by
  have hlen : 1 ≤ fs.length := by
    cases fs with
    | nil => exact absurd rfl hne
    | cons _ _ => simp
  intro n
  induction n with
  | zero =>
    intro i acc recs pad h
    simp only [v9RecLoop, Prod.mk.injEq] at h
    simp [h.1.symm, h.2.symm]
  | succ n ih =>
    intro i acc recs pad h
    simp only [v9RecLoop] at h
    cases hr : v9ParseRec c fs 0 i with
    | none =>
      simp only [hr] at h
      exact ih _ _ _ _ h
    | some x =>
      obtain ⟨es, r⟩ := x
      simp only [hr] at h
      have a := ih _ _ _ _ h
      obtain ⟨b1, b2⟩ := v9ParseRec_cost c _ _ _ _ _ hf hr
      rw [sum_map_append] at a
      simp only [List.map_cons, List.map_nil, List.sum_cons, List.sum_nil, recSize_eq] at a
      omega

/-! ### options data -/

theorem v9ScopeLoop_cost (c : Config) :
    ∀ (fs : List TField) (i : Bytes) (vs : List (Nat × Bytes)) (r : Bytes),
      v9ScopeLoop c fs i = some (vs, r) →
      (vs.map fun x => 32 + x.2.length).sum + 33 * r.length ≤ 33 * i.length := by
  intro fs
  induction fs with
  | nil => intro i vs r h; simp [v9ScopeLoop] at h; obtain ⟨e1, e2⟩ := h; subst e1 e2; simp
  | cons f fs ih =>
    intro i vs r h
    simp only [v9ScopeLoop] at h
    cases ht : takeN f.len i with
    | none => simp [ht] at h; obtain ⟨e1, e2⟩ := h; subst e1 e2; simp
    | some x =>
      obtain ⟨v, r1⟩ := x
      simp only [ht] at h
      obtain ⟨t1, t2⟩ := takeN_len ht
      by_cases hk : c.t.scopeKnown f.typ = true
      · simp only [hk, ↓reduceIte] at h
        by_cases he : r1.length = i.length
        · simp [he] at h
        · simp only [he, ↓reduceIte] at h
          cases hl : v9ScopeLoop c fs r1 with
          | none => simp [hl] at h
          | some y =>
            obtain ⟨vs', r2⟩ := y
            simp only [hl, Option.some.injEq, Prod.mk.injEq] at h
            obtain ⟨e1, e2⟩ := h
            subst e1 e2
            have := ih _ _ _ hl
            simp only [List.map_cons, List.sum_cons]
            omega
      · simp only [hk, Bool.false_eq_true, ↓reduceIte, Option.some.injEq, Prod.mk.injEq] at h
        obtain ⟨e1, e2⟩ := h; subst e1 e2; simp

theorem v9OptLoop_cost (c : Config) :
    ∀ (fs : List TField) (i : Bytes) (vs : List (Nat × Bytes)) (r : Bytes),
      v9OptLoop c fs i = some (vs, r) →
      (vs.map fun x => 32 + x.2.length).sum + 33 * r.length ≤ 33 * i.length := by
  intro fs
  induction fs with
  | nil => intro i vs r h; simp [v9OptLoop] at h; obtain ⟨e1, e2⟩ := h; subst e1 e2; simp
  | cons f fs ih =>
    intro i vs r h
    simp only [v9OptLoop] at h
    cases ht : takeN f.len i with
    | none => simp [ht] at h; obtain ⟨e1, e2⟩ := h; subst e1 e2; simp
    | some x =>
      obtain ⟨v, r1⟩ := x
      simp only [ht] at h
      obtain ⟨t1, t2⟩ := takeN_len ht
      by_cases he : r1.length = i.length
      · simp [he] at h
      · simp only [he, ↓reduceIte] at h
        cases hl : v9OptLoop c fs r1 with
        | none => simp [hl] at h
        | some y =>
          obtain ⟨vs', r2⟩ := y
          simp only [hl, Option.some.injEq, Prod.mk.injEq] at h
          obtain ⟨e1, e2⟩ := h
          subst e1 e2
          have := ih _ _ _ hl
          simp only [List.map_cons, List.sum_cons]
          omega

/-! ### state updates keep honesty -/

theorem insertV9Templates_honest :
    ∀ (ts : List V9Template) (st : PState), Honest st = true → ts.all honestV9T = true →
      Honest (insertV9Templates st ts) = true := by
  intro ts
  induction ts with
  | nil => intro st h _; exact h
  | cons t ts ih =>
    intro st h ht
    simp only [List.all_cons, Bool.and_eq_true] at ht
    simp only [insertV9Templates]
    apply ih _ _ ht.2
    rw [Honest_iff] at h ⊢
    obtain ⟨h1, h2, h3, h4⟩ := h
    exact ⟨amInsert_all honestV9T _ _ ht.1 _ h1, amErase_all honestV9O _ _ h2, h3, h4⟩

theorem insertV9OptTemplates_honest :
    ∀ (ts : List V9OptTemplate) (st : PState), Honest st = true → ts.all honestV9O = true →
      Honest (insertV9OptTemplates st ts) = true := by
  intro ts
  induction ts with
  | nil => intro st h _; exact h
  | cons t ts ih =>
    intro st h ht
    simp only [List.all_cons, Bool.and_eq_true] at ht
    simp only [insertV9OptTemplates]
    apply ih _ _ ht.2
    rw [Honest_iff] at h ⊢
    obtain ⟨h1, h2, h3, h4⟩ := h
    exact ⟨amErase_all honestV9T _ _ h1, amInsert_all honestV9O _ _ ht.1 _ h2, h3, h4⟩

/-! ### flowset bodies, flowsets, packets -/

def v9BodySize : V9Body → Nat
  | .templates ts pad => (ts.map fun t => 32 + 8 * t.fields.length).sum + pad.length
  | .optTemplates ts pad => (ts.map fun t => 64 + 8 * (t.scope.length + t.opts.length)).sum + pad.length
  | .data recs pad => (recs.map recSize).sum + pad.length
  | .optData ss os pad => (ss.map fun x => 32 + x.2.length).sum + (os.map fun x => 32 + x.2.length).sum + pad.length

theorem v9SetSize_eq (s : V9Set) : v9SetSize s = 48 + v9BodySize s.body := by
  obtain ⟨id, len, body⟩ := s
  cases body <;> rfl

theorem v9TotalSize_nil : v9TotalSize [] = 0 := rfl

/-- a flowset body: with an honest cache and honest announced templates the body's size is at
    most 115 per body byte, and the cache stays honest -/
theorem v9ParseBody_cost (c : Config) (st st' : PState) (id : Nat) (body : Bytes) (b : V9Body)
    (hH : Honest st = true) (h : v9ParseBody c st id body = (st', .ok b)) (hb : honestV9Body b = true) :
    Honest st' = true ∧ v9BodySize b ≤ 115 * body.length := by
  unfold v9ParseBody at h
  by_cases h1 : id = c.t.v9TemplateId
  · simp only [h1, ↓reduceIte] at h
    cases hm : many0 parseV9Template body with
    | ok x =>
      obtain ⟨ts, pad⟩ := x
      simp only [hm, Prod.mk.injEq, Res.ok.injEq] at h
      obtain ⟨e1, e2⟩ := h
      subst e1 e2
      simp only [honestV9Body] at hb
      have := many0F_cost (fun t : V9Template => 32 + 8 * t.fields.length) 8 parseV9Template_cost _ _ _ _ hm
      exact ⟨insertV9Templates_honest _ _ hH hb, by simp only [v9BodySize]; omega⟩
    | err => simp [hm] at h
    | outOfFuel => simp [hm] at h
  · simp only [h1, ↓reduceIte] at h
    by_cases h2 : id = c.t.v9OptTemplateId
    · simp only [h2, ↓reduceIte] at h
      cases hm : many0 parseV9OptTemplate body with
      | ok x =>
        obtain ⟨ts, pad⟩ := x
        simp only [hm, Prod.mk.injEq, Res.ok.injEq] at h
        obtain ⟨e1, e2⟩ := h
        subst e1 e2
        simp only [honestV9Body] at hb
        have := many0F_cost (fun t : V9OptTemplate => 64 + 8 * (t.scope.length + t.opts.length)) 11
          parseV9OptTemplate_cost _ _ _ _ hm
        exact ⟨insertV9OptTemplates_honest _ _ hH hb, by simp only [v9BodySize]; omega⟩
      | err => simp [hm] at h
      | outOfFuel => simp [hm] at h
    · simp only [h2, ↓reduceIte] at h
      cases ho : amLookup id st.v9O with
      | some ot =>
        simp only [ho] at h
        cases hs : v9ScopeLoop c ot.scope body with
        | none => simp [hs] at h
        | some x =>
          obtain ⟨ss, r⟩ := x
          simp only [hs] at h
          cases hl : v9OptLoop c ot.opts r with
          | none => simp [hl] at h
          | some y =>
            obtain ⟨os, pad⟩ := y
            simp only [hl, Prod.mk.injEq, Res.ok.injEq] at h
            obtain ⟨e1, e2⟩ := h
            subst e1 e2
            have := v9ScopeLoop_cost c _ _ _ _ hs
            have := v9OptLoop_cost c _ _ _ _ hl
            exact ⟨hH, by simp only [v9BodySize]; omega⟩
      | none =>
        simp only [ho] at h
        cases ht : amLookup id st.v9T with
        | none => simp [ht] at h
        | some t =>
          simp only [ht] at h
          by_cases hz : v9TotalSize t.fields = 0
          · simp [hz] at h
          · simp only [hz, ↓reduceIte] at h
            cases hl : v9RecLoop c t.fields (body.length / v9TotalSize t.fields) body [] with
            | mk recs pad =>
              simp only [hl, Prod.mk.injEq, Res.ok.injEq] at h
              obtain ⟨e1, e2⟩ := h
              subst e1 e2
              have hft : honestFs t.fields = true :=
                amLookup_all honestV9T _ _ _ ((Honest_iff st).1 hH).1 ht
              have hne : t.fields ≠ [] := by
                intro he; rw [he] at hz; exact hz v9TotalSize_nil
              have := v9RecLoop_cost c _ hft hne _ _ _ _ _ hl
              simp only [List.map_nil, List.sum_nil] at this
              exact ⟨hH, by simp only [v9BodySize]; omega⟩

theorem v9ParseSet_cost (c : Config) (hw : 1 ≤ c.t.v9SetHdr.wireLen) (st st' : PState) (i : Bytes) (s : V9Set) (r : Bytes)
    (hH : Honest st = true) (h : v9ParseSet c st i = (st', .ok (s, r))) (hb : honestV9Body s.body = true) :
    Honest st' = true ∧ v9SetSize s + 115 * r.length ≤ 115 * i.length := by
  unfold v9ParseSet at h
  cases hh : parseLayout c.t.protoFromU8 c.t.v9SetHdr i with
  | none => simp [hh] at h
  | some hr =>
    obtain ⟨hd, r1⟩ := hr
    simp only [hh] at h
    cases ht : takeN (c.t.v9SetHdr.get "length" hd - 4) r1 with
    | none => simp [ht] at h
    | some br =>
      obtain ⟨body, r2⟩ := br
      simp only [ht] at h
      have a := parseLayout_len hh
      obtain ⟨b1, b2⟩ := takeN_len ht
      cases hbd : v9ParseBody c st (c.t.v9SetHdr.get "flowset_id" hd) body with
      | mk st2 res =>
        cases res with
        | ok b =>
          simp only [hbd, Prod.mk.injEq, Res.ok.injEq] at h
          obtain ⟨e1, e2, e3⟩ := h
          subst e1 e2 e3
          obtain ⟨c1, c2⟩ := v9ParseBody_cost c _ _ _ _ _ hH hbd hb
          rw [v9SetSize_eq]
          simp only at c2 ⊢
          exact ⟨c1, by omega⟩
        | err => simp [hbd] at h
        | panic => simp [hbd] at h
        | overflow => simp [hbd] at h

theorem v9ParseSets_cost (c : Config) (hw : 1 ≤ c.t.v9SetHdr.wireLen) :
    ∀ (n : Nat) (st st' : PState) (i : Bytes) (ss : List V9Set) (r : Bytes), Honest st = true →
      v9ParseSets c n st i = (st', .ok (ss, r)) → (ss.all fun s => honestV9Body s.body) = true →
      Honest st' = true ∧ (ss.map v9SetSize).sum + 115 * r.length ≤ 115 * i.length := by
  intro n
  induction n with
  | zero =>
    intro st st' i ss r hH h _
    simp only [v9ParseSets, Prod.mk.injEq, Res.ok.injEq] at h
    obtain ⟨e0, e1, e2⟩ := h
    subst e0 e1 e2
    exact ⟨hH, by simp⟩
  | succ n ih =>
    intro st st' i ss r hH h hb
    unfold v9ParseSets at h
    by_cases he : i.isEmpty = true
    · simp only [he, if_true] at h
      exact ih _ _ _ _ _ hH h hb
    · simp only [he, Bool.false_eq_true, ↓reduceIte] at h
      cases hs : v9ParseSet c st i with
      | mk st1 res =>
        cases res with
        | ok sr =>
          obtain ⟨s, r1⟩ := sr
          simp only [hs] at h
          cases hrest : v9ParseSets c n st1 r1 with
          | mk st2 res2 =>
            cases res2 with
            | ok ssr =>
              obtain ⟨ss', r2⟩ := ssr
              simp only [hrest, Prod.mk.injEq, Res.ok.injEq] at h
              obtain ⟨e0, e1, e2⟩ := h
              subst e0 e1 e2
              simp only [List.all_cons, Bool.and_eq_true] at hb
              obtain ⟨a1, a2⟩ := v9ParseSet_cost c hw _ _ _ _ _ hH hs hb.1
              obtain ⟨b1, b2⟩ := ih _ _ _ _ _ a1 hrest hb.2
              simp only [List.map_cons, List.sum_cons]
              exact ⟨b1, by omega⟩
            | err => simp [hrest] at h
            | panic => simp [hrest] at h
            | overflow => simp [hrest] at h
        | err => simp [hs] at h
        | panic => simp [hs] at h
        | overflow => simp [hs] at h

theorem parseV9_cost (c : Config) (hw : 1 ≤ c.t.v9SetHdr.wireLen) (st st' : PState) (i : Bytes) (p : Packet) (r : Bytes)
    (hH : Honest st = true) (h : parseV9 c st i = (st', .ok (p, r))) (hb : honestPkt p = true) :
    Honest st' = true ∧ packetSize p + 115 * r.length ≤ 64 + 115 * i.length := by
  unfold parseV9 at h
  cases hh : parseLayout c.t.protoFromU8 c.t.v9Hdr i with
  | none => simp [hh] at h
  | some hr =>
    obtain ⟨hd, r1⟩ := hr
    simp only [hh] at h
    cases hs : v9ParseSets c (c.t.v9Hdr.get "count" hd) st r1 with
    | mk st1 res =>
      cases res with
      | ok ssr =>
        obtain ⟨ss, r2⟩ := ssr
        simp only [hs, Prod.mk.injEq, Res.ok.injEq] at h
        obtain ⟨e0, e1, e2⟩ := h
        subst e0 e1 e2
        simp only [honestPkt] at hb
        have a := parseLayout_len hh
        obtain ⟨b1, b2⟩ := v9ParseSets_cost c hw _ _ _ _ _ _ hH hs hb
        simp only [packetSize]
        exact ⟨b1, by omega⟩
      | err => simp [hs] at h
      | panic => simp [hs] at h
      | overflow => simp [hs] at h

end Netflow.B3
