/-
  Lemmas/A5V9Templates.lean — layer (e) of the C04 proof: template and options-template flowsets
  (`count`, greedy `many0`), the representation relation `Repr9` between the exporter-side template
  memory and the parser's two caches, and its preservation by `insertV9Templates` /
  `insertV9OptTemplates`.
-/
import NetflowModel.Lemmas.A5V9Record
namespace Netflow
open Spec

/-! ### well-formedness of what is written (all numbers fit their wire width) -/

def tfieldWf (f : TField) : Bool := decide (f.typ < 65536) && decide (f.len < 65536)

/-- a template record whose numbers fit 16 bits and whose count field is the number of fields -/
def v9TemplateWf (t : V9Template) : Bool :=
  decide (t.id < 65536) && decide (t.fieldCount = t.fields.length) && decide (t.fieldCount < 65536) &&
  t.fields.all tfieldWf

/-- an options template record: lengths are BYTE lengths of the two field-specifier lists (RFC 3954 §6.1) -/
def v9OptTemplateWf (t : V9OptTemplate) : Bool :=
  decide (t.id < 65536) && decide (t.scopeLen = 4 * t.scope.length) && decide (t.optLen = 4 * t.opts.length) &&
  decide (t.scopeLen < 65536) && decide (t.optLen < 65536) && t.scope.all tfieldWf && t.opts.all tfieldWf

theorem p16 : 256 ^ 2 = 65536 := by decide

theorem parseTField_enc (f : TField) (r : Bytes) (h : tfieldWf f = true) :
    parseTField (encTField f ++ r) = some (f, r) := by
  simp only [tfieldWf, Bool.and_eq_true, decide_eq_true_eq] at h
  obtain ⟨h1, h2⟩ := h
  simp only [parseTField, encTField, List.append_assoc,
    beU_toBE_append _ (show f.typ < 256 ^ 2 by rw [p16]; exact h1),
    beU_toBE_append _ (show f.len < 256 ^ 2 by rw [p16]; exact h2)]

theorem encTField_length (f : TField) : (encTField f).length = 4 := by
  simp [encTField, toBE_length]

theorem countP_tfields_enc : ∀ (fs : List TField) (r : Bytes), fs.all tfieldWf = true →
    countP parseTField fs.length (fs.flatMap encTField ++ r) = some (fs, r) := by
  intro fs
  induction fs with
  | nil => intro r _; simp [countP]
  | cons f fs ih =>
    intro r h
    simp only [List.all_cons, Bool.and_eq_true] at h
    simp only [List.length_cons, countP, List.flatMap_cons, List.append_assoc, parseTField_enc f _ h.1, ih r h.2]

theorem parseV9Template_enc (t : V9Template) (r : Bytes) (h : v9TemplateWf t = true) :
    parseV9Template (encV9Template t ++ r) = some (t, r) := by
  simp only [v9TemplateWf, Bool.and_eq_true, decide_eq_true_eq] at h
  obtain ⟨⟨⟨h1, h2⟩, h3⟩, h4⟩ := h
  simp only [parseV9Template, encV9Template, List.append_assoc,
    beU_toBE_append _ (show t.id < 256 ^ 2 by rw [p16]; exact h1),
    beU_toBE_append _ (show t.fieldCount < 256 ^ 2 by rw [p16]; exact h3)]
  rw [h2, countP_tfields_enc t.fields r h4]
  simp only [← h2]

theorem encV9Template_pos (t : V9Template) : 0 < (encV9Template t).length := by
  simp only [encV9Template, List.length_append, toBE_length]; omega

theorem parseV9OptTemplate_enc (t : V9OptTemplate) (r : Bytes) (h : v9OptTemplateWf t = true) :
    parseV9OptTemplate (encV9OptTemplate t ++ r) = some (t, r) := by
  simp only [v9OptTemplateWf, Bool.and_eq_true, decide_eq_true_eq] at h
  obtain ⟨⟨⟨⟨⟨⟨h1, h2⟩, h3⟩, h4⟩, h5⟩, h6⟩, h7⟩ := h
  simp only [parseV9OptTemplate, encV9OptTemplate, List.append_assoc,
    beU_toBE_append _ (show t.id < 256 ^ 2 by rw [p16]; exact h1),
    beU_toBE_append _ (show t.scopeLen < 256 ^ 2 by rw [p16]; exact h4),
    beU_toBE_append _ (show t.optLen < 256 ^ 2 by rw [p16]; exact h5)]
  have e1 : t.scopeLen / 4 = t.scope.length := by omega
  have e2 : t.optLen / 4 = t.opts.length := by omega
  rw [e1, e2, countP_tfields_enc t.scope _ h6]
  simp only [countP_tfields_enc t.opts r h7]

theorem encV9OptTemplate_pos (t : V9OptTemplate) : 0 < (encV9OptTemplate t).length := by
  simp only [encV9OptTemplate, List.length_append, toBE_length]; omega

/-- RFC padding (fewer than 4 bytes) is not mistaken for a further template record -/
theorem parseV9Template_short {pad : Bytes} (h : pad.length < 4) : parseV9Template pad = none := by
  unfold parseV9Template
  cases h1 : beU 2 pad with
  | none => rfl
  | some vr =>
    obtain ⟨v, r⟩ := vr
    obtain ⟨a, _, c⟩ := beU_some h1
    have : beU 2 r = none := beU_short (by rw [c, List.length_drop]; omega)
    simp only [this]

theorem parseV9OptTemplate_short {pad : Bytes} (h : pad.length < 6) : parseV9OptTemplate pad = none := by
  unfold parseV9OptTemplate
  cases h1 : beU 2 pad with
  | none => rfl
  | some vr =>
    obtain ⟨v, r⟩ := vr
    obtain ⟨a, _, c⟩ := beU_some h1
    simp only
    cases h2 : beU 2 r with
    | none => rfl
    | some vr2 =>
      obtain ⟨v2, r2⟩ := vr2
      obtain ⟨a2, _, c2⟩ := beU_some h2
      have : beU 2 r2 = none := beU_short (by rw [c2, c, List.length_drop, List.length_drop]; omega)
      simp only [this]

/-- CAREFUL: `many0` is greedy.  Four zero bytes of "padding" ARE a template record (id 0, no
    fields), so padding of 4+ bytes in a template flowset is reported as extra templates. -/
theorem parseV9Template_zero_pad :
    parseV9Template [0, 0, 0, 0] = some ({ id := 0, fieldCount := 0, fields := [] }, []) := by decide

/-! ### greedy `many0` over a concatenation of written records -/

theorem flatMap_length_ge {α : Type} (enc : α → Bytes) (wf : α → Prop) (hpos : ∀ a, wf a → 0 < (enc a).length) :
    ∀ ts : List α, (∀ t ∈ ts, wf t) → ts.length ≤ (ts.flatMap enc).length := by
  intro ts
  induction ts with
  | nil => intro _; simp
  | cons t ts ih =>
    intro h
    have h1 := hpos t (h t List.mem_cons_self)
    have h2 := ih (fun x hx => h x (List.mem_cons_of_mem _ hx))
    simp only [List.flatMap_cons, List.length_append, List.length_cons]
    omega

theorem many0F_enc {α : Type} (p : P α) (enc : α → Bytes) (wf : α → Prop)
    (hp : ∀ a r, wf a → p (enc a ++ r) = some (a, r)) (hpos : ∀ a, wf a → 0 < (enc a).length) :
    ∀ (ts : List α) (pad : Bytes) (fuel : Nat), (∀ t ∈ ts, wf t) → p pad = none → ts.length < fuel →
      many0F p fuel (ts.flatMap enc ++ pad) = .ok (ts, pad) := by
  intro ts
  induction ts with
  | nil =>
    intro pad fuel _ hpad hf
    cases fuel with
    | zero => omega
    | succ f => simp [many0F, hpad]
  | cons t ts ih =>
    intro pad fuel hwf hpad hf
    cases fuel with
    | zero => omega
    | succ f =>
      have hw := hwf t List.mem_cons_self
      have h1 := hpos t hw
      simp only [List.length_cons] at hf
      have hne : ¬ (ts.flatMap enc ++ pad).length = (enc t ++ (ts.flatMap enc ++ pad)).length := by
        rw [List.length_append (as := enc t)]; omega
      simp only [many0F, List.flatMap_cons, List.append_assoc, hp t _ hw, hne, ↓reduceIte,
        ih pad f (fun x hx => hwf x (List.mem_cons_of_mem _ hx)) hpad (by omega)]

theorem many0_enc {α : Type} (p : P α) (enc : α → Bytes) (wf : α → Prop)
    (hp : ∀ a r, wf a → p (enc a ++ r) = some (a, r)) (hpos : ∀ a, wf a → 0 < (enc a).length)
    (ts : List α) (pad : Bytes) (hwf : ∀ t ∈ ts, wf t) (hpad : p pad = none) :
    many0 p (ts.flatMap enc ++ pad) = .ok (ts, pad) := by
  unfold many0
  apply many0F_enc p enc wf hp hpos ts pad _ hwf hpad
  have := flatMap_length_ge enc wf hpos ts hwf
  rw [List.length_append]
  omega

/-- LAYER (e): a template flowset body decodes to exactly the templates written, then padding —
    PROVIDED the padding is not itself parseable as a template record (`parseV9Template_short`:
    true for the 0..3 bytes RFC 3954 allows; false for 4+ zero bytes, `parseV9Template_zero_pad`). -/
theorem many0_templates_enc (ts : List V9Template) (pad : Bytes)
    (hwf : ts.all v9TemplateWf = true) (hpad : parseV9Template pad = none) :
    many0 parseV9Template (ts.flatMap encV9Template ++ pad) = .ok (ts, pad) :=
  many0_enc parseV9Template encV9Template (fun t => v9TemplateWf t = true)
    (fun a r h => parseV9Template_enc a r h) (fun a _ => encV9Template_pos a) ts pad
    (fun t ht => List.all_eq_true.mp hwf t ht) hpad

theorem many0_optTemplates_enc (ts : List V9OptTemplate) (pad : Bytes)
    (hwf : ts.all v9OptTemplateWf = true) (hpad : parseV9OptTemplate pad = none) :
    many0 parseV9OptTemplate (ts.flatMap encV9OptTemplate ++ pad) = .ok (ts, pad) :=
  many0_enc parseV9OptTemplate encV9OptTemplate (fun t => v9OptTemplateWf t = true)
    (fun a r h => parseV9OptTemplate_enc a r h) (fun a _ => encV9OptTemplate_pos a) ts pad
    (fun t ht => List.all_eq_true.mp hwf t ht) hpad

/-- non-vacuity: two well-formed templates followed by 3 bytes of padding -/
example : [(⟨256, 2, [⟨8, 4⟩, ⟨4, 1⟩]⟩ : V9Template), ⟨257, 1, [⟨1, 8⟩]⟩].all v9TemplateWf = true ∧
    parseV9Template [0, 0, 0] = none := by decide
/-- non-vacuity: a well-formed options template, 2 bytes of padding -/
example : [(⟨258, 4, 8, [⟨1, 4⟩], [⟨34, 4⟩, ⟨35, 1⟩]⟩ : V9OptTemplate)].all v9OptTemplateWf = true ∧
    parseV9OptTemplate [0, 0] = none := by decide

/-! ### `Repr9`: the parser's caches represent the exporter-side template memory -/

/-- `st` represents `d`: an id is a data template in `d` iff it is (the same template) in `st.v9T`,
    an options template in `d` iff in `st.v9O` (so ids absent from `d` are absent from both maps and
    no id is in both), and both caches are in canonical (key-sorted) form, as every cache the
    parser builds is. -/
structure Repr9 (d : List (Nat × V9Def)) (st : PState) : Prop where
  sT : AmSorted st.v9T
  sO : AmSorted st.v9O
  t : ∀ id t, amLookup id d = some (.t t) ↔ amLookup id st.v9T = some t
  o : ∀ id t, amLookup id d = some (.o t) ↔ amLookup id st.v9O = some t

theorem Repr9.empty : Repr9 [] {} :=
  ⟨AmSorted.nil, AmSorted.nil, fun _ _ => by simp [amLookup], fun _ _ => by simp [amLookup]⟩

theorem Repr9.absent {d : List (Nat × V9Def)} {st : PState} (h : Repr9 d st) (id : Nat) (hd : amLookup id d = none) :
    amLookup id st.v9T = none ∧ amLookup id st.v9O = none := by
  constructor
  · cases hl : amLookup id st.v9T with
    | none => rfl
    | some t => have := (h.t id t).mpr hl; rw [hd] at this; simp at this
  · cases hl : amLookup id st.v9O with
    | none => rfl
    | some t => have := (h.o id t).mpr hl; rw [hd] at this; simp at this

theorem Repr9.of_t {d : List (Nat × V9Def)} {st : PState} (h : Repr9 d st) {id : Nat} {t : V9Template}
    (hd : amLookup id d = some (.t t)) : amLookup id st.v9T = some t ∧ amLookup id st.v9O = none := by
  refine ⟨(h.t id t).mp hd, ?_⟩
  cases hl : amLookup id st.v9O with
  | none => rfl
  | some o => have := (h.o id o).mpr hl; rw [hd] at this; simp at this

theorem Repr9.of_o {d : List (Nat × V9Def)} {st : PState} (h : Repr9 d st) {id : Nat} {t : V9OptTemplate}
    (hd : amLookup id d = some (.o t)) : amLookup id st.v9O = some t := (h.o id t).mp hd

theorem Repr9.insert_t {d : List (Nat × V9Def)} {st : PState} (h : Repr9 d st) (t : V9Template) :
    Repr9 (v9Insert d t.id (.t t)) { st with v9T := amInsert t.id t st.v9T, v9O := amErase t.id st.v9O } := by
  refine ⟨AmSorted.insert _ _ _ h.sT, AmSorted.erase _ _ h.sO, ?_, ?_⟩
  · intro id t'
    simp only [v9Insert, amLookup_amInsert]
    by_cases hid : id = t.id
    · simp [hid]
    · simp only [hid, ↓reduceIte]; exact h.t id t'
  · intro id t'
    simp only [v9Insert, amLookup_amInsert, amLookup_amErase _ _ _ h.sO]
    by_cases hid : id = t.id
    · simp [hid]
    · simp only [hid, ↓reduceIte]; exact h.o id t'

theorem Repr9.insert_o {d : List (Nat × V9Def)} {st : PState} (h : Repr9 d st) (t : V9OptTemplate) :
    Repr9 (v9Insert d t.id (.o t)) { st with v9O := amInsert t.id t st.v9O, v9T := amErase t.id st.v9T } := by
  refine ⟨AmSorted.erase _ _ h.sT, AmSorted.insert _ _ _ h.sO, ?_, ?_⟩
  · intro id t'
    simp only [v9Insert, amLookup_amInsert, amLookup_amErase _ _ _ h.sT]
    by_cases hid : id = t.id
    · simp [hid]
    · simp only [hid, ↓reduceIte]; exact h.t id t'
  · intro id t'
    simp only [v9Insert, amLookup_amInsert]
    by_cases hid : id = t.id
    · simp [hid]
    · simp only [hid, ↓reduceIte]; exact h.o id t'

/-- `insertV9Templates` (insert into one cache, erase from the sibling) tracks the spec's
    "latest definition wins" fold -/
theorem Repr9.insertTemplates : ∀ (ts : List V9Template) {d : List (Nat × V9Def)} {st : PState}, Repr9 d st →
    Repr9 (ts.foldl (fun d t => v9Insert d t.id (.t t)) d) (insertV9Templates st ts) := by
  intro ts
  induction ts with
  | nil => intro d st h; exact h
  | cons t ts ih => intro d st h; exact ih (h.insert_t t)

theorem Repr9.insertOptTemplates : ∀ (ts : List V9OptTemplate) {d : List (Nat × V9Def)} {st : PState}, Repr9 d st →
    Repr9 (ts.foldl (fun d t => v9Insert d t.id (.o t)) d) (insertV9OptTemplates st ts) := by
  intro ts
  induction ts with
  | nil => intro d st h; exact h
  | cons t ts ih => intro d st h; exact ih (h.insert_o t)

/-- without the sortedness component the insert/erase pair does NOT track the spec: erasing from a
    cache with a duplicated key leaves a stale options template behind -/
theorem amErase_unsorted_stale :
    amLookup 7 (amErase 7 [(7, 1), (7, 2)]) = some 2 := by decide

/-! ### `v9ParseBody` on template / options-template flowsets -/

theorem v9ParseBody_templates (c : Config) (st : PState) (ts : List V9Template) (pad : Bytes)
    (h0 : c.t.v9TemplateId = 0)
    (hwf : ts.all v9TemplateWf = true) (hpad : parseV9Template pad = none) :
    v9ParseBody c st 0 (ts.flatMap encV9Template ++ pad) = (insertV9Templates st ts, .ok (.templates ts pad)) := by
  simp only [v9ParseBody, h0, ↓reduceIte, many0_templates_enc ts pad hwf hpad]

theorem v9ParseBody_optTemplates (c : Config) (st : PState) (ts : List V9OptTemplate) (pad : Bytes)
    (h0 : c.t.v9TemplateId = 0) (h1 : c.t.v9OptTemplateId = 1)
    (hwf : ts.all v9OptTemplateWf = true) (hpad : parseV9OptTemplate pad = none) :
    v9ParseBody c st 1 (ts.flatMap encV9OptTemplate ++ pad) =
      (insertV9OptTemplates st ts, .ok (.optTemplates ts pad)) := by
  simp only [v9ParseBody, h0, h1, Nat.succ_ne_self, ↓reduceIte, many0_optTemplates_enc ts pad hwf hpad]

end Netflow
