/-
  Lemmas/B3CostIp.lean — size of what the IPFIX parser returns versus the bytes it consumed.
-/
import NetflowModel.Lemmas.B3CostV9
namespace Netflow.B3
open Netflow Cost

theorem sum_map_const {α : Type} (k : Nat) (l : List α) : (l.map fun _ => k).sum = k * l.length := by
  induction l with
  | nil => simp
  | cons x xs ih => simp only [List.map_cons, List.sum_cons, List.length_cons, ih, Nat.mul_succ]; omega

/-! ### templates -/

theorem parseIpTField_len {i r : Bytes} {f : IpTField} (h : parseIpTField i = some (f, r)) :
    r.length + 4 ≤ i.length := by
  unfold parseIpTField at h
  cases h1 : beU 2 i with
  | none => simp [h1] at h
  | some x =>
    obtain ⟨t, r1⟩ := x
    simp only [h1] at h
    cases h2 : beU 2 r1 with
    | none => simp [h2] at h
    | some y =>
      obtain ⟨l, r2⟩ := y
      simp only [h2] at h
      have := beU_len h1
      have := beU_len h2
      by_cases ht : t > 32767
      · simp only [ht, ↓reduceIte] at h
        cases h3 : beU 4 r2 with
        | none => simp [h3] at h
        | some z =>
          obtain ⟨e, r3⟩ := z
          simp only [h3, Option.some.injEq, Prod.mk.injEq] at h
          obtain ⟨_, e2⟩ := h
          subst e2
          have := beU_len h3
          omega
      · simp only [ht, ↓reduceIte, Option.some.injEq, Prod.mk.injEq] at h
        obtain ⟨_, e2⟩ := h
        subst e2
        omega

/-- an IPFIX template of `n` fields costs `32 + 16n + |pad|` and consumed `≥ 4 + 4n + |pad|` bytes -/
theorem parseIpTemplate_cost (body : Bytes) (t : IpTemplate) (h : parseIpTemplate body = .ok t) :
    32 + 16 * t.fields.length + t.pad.length ≤ 8 * body.length := by
  unfold parseIpTemplate at h
  cases h1 : beU 2 body with
  | none => simp [h1] at h
  | some x =>
    obtain ⟨id, r1⟩ := x
    simp only [h1] at h
    cases h2 : beU 2 r1 with
    | none => simp [h2] at h
    | some y =>
      obtain ⟨fc, r2⟩ := y
      simp only [h2] at h
      cases hm : many0 parseIpTField r2 with
      | ok z =>
        obtain ⟨fs, pad⟩ := z
        simp only [hm, Res.ok.injEq] at h
        subst h
        have := beU_len h1
        have := beU_len h2
        have hc := many0F_cost (fun _ : IpTField => 16) 4
          (fun i a r h => by have := parseIpTField_len h; omega) _ _ _ _ hm
        rw [sum_map_const] at hc
        simp only
        omega
      | err => simp [hm] at h
      | outOfFuel => simp [hm] at h

theorem parseIpOptTemplate_cost (body : Bytes) (t : IpOptTemplate) (h : parseIpOptTemplate body = .ok t) :
    32 + 16 * t.fields.length + t.pad.length ≤ 8 * body.length := by
  unfold parseIpOptTemplate at h
  cases h1 : beU 2 body with
  | none => simp [h1] at h
  | some x =>
    obtain ⟨id, r1⟩ := x
    simp only [h1] at h
    cases h2 : beU 2 r1 with
    | none => simp [h2] at h
    | some y =>
      obtain ⟨fc, r2⟩ := y
      simp only [h2] at h
      cases h3 : beU 2 r2 with
      | none => simp [h3] at h
      | some y' =>
        obtain ⟨sc, r3⟩ := y'
        simp only [h3] at h
        cases hm : countP parseIpTField (if sc ≤ fc then fc else min (sc + fc) 65535) r3 with
        | none => simp [hm] at h
        | some z =>
          obtain ⟨fs, pad⟩ := z
          simp only [hm, Res.ok.injEq] at h
          subst h
          have := beU_len h1
          have := beU_len h2
          have := beU_len h3
          obtain ⟨a1, a2⟩ := countP_len (fun i a r h => parseIpTField_len h) _ _ _ _ hm
          simp only
          omega

/-! ### field values and records -/

theorem ipFieldLength_len {f : IpTField} {i r : Bytes} {len : Nat} (h : ipFieldLength f i = some (len, r)) :
    r.length ≤ i.length ∧ (f.len = 65535 → r.length + 1 ≤ i.length) ∧ (f.len ≠ 65535 → len = f.len) := by
  unfold ipFieldLength at h
  by_cases hv : f.len = 65535
  · simp only [hv, ↓reduceIte] at h
    cases h1 : beU 1 i with
    | none => simp [h1] at h
    | some x =>
      obtain ⟨l, r1⟩ := x
      simp only [h1] at h
      have := beU_len h1
      by_cases hl : l = 255
      · simp only [hl, ↓reduceIte] at h
        have := beU_len h
        exact ⟨by omega, fun _ => by omega, fun h => absurd hv h⟩
      · simp only [hl, ↓reduceIte, Option.some.injEq, Prod.mk.injEq] at h
        obtain ⟨_, e⟩ := h
        subst e
        exact ⟨by omega, fun _ => by omega, fun h => absurd hv h⟩
  · simp only [hv, ↓reduceIte, Option.some.injEq, Prod.mk.injEq] at h
    obtain ⟨e1, e2⟩ := h
    subst e1 e2
    exact ⟨Nat.le_refl _, fun h => absurd h hv, fun _ => rfl⟩

/-- an IPFIX field value: `n` = bytes consumed (length prefix included) -/
theorem ipParseValue_cost {c : Config} {f : IpTField} {i r : Bytes} {v : FieldValue}
    (h : ipParseValue c f i = some (v, r)) :
    ∃ n, r.length + n = i.length ∧ valueSize v ≤ 32 + 3 * n ∧ (1 ≤ f.len → 1 ≤ n) := by
  unfold ipParseValue at h
  cases hl : ipFieldLength f i with
  | none => simp [hl] at h
  | some x =>
    obtain ⟨len, r1⟩ := x
    simp only [hl] at h
    obtain ⟨a1, a2, a3⟩ := ipFieldLength_len hl
    cases he : f.ent with
    | some e =>
      simp only [he] at h
      cases ht : takeN len r1 with
      | none => simp [ht] at h
      | some y =>
        obtain ⟨b, r2⟩ := y
        simp only [ht, Option.some.injEq, Prod.mk.injEq] at h
        obtain ⟨e1, e2⟩ := h
        subst e1 e2
        obtain ⟨t1, t2⟩ := takeN_len ht
        refine ⟨i.length - r2.length, by omega, by simp only [valueSize]; omega, ?_⟩
        intro h1
        by_cases hv : f.len = 65535
        · have := a2 hv; omega
        · have := a3 hv; omega
    | none =>
      simp only [he] at h
      obtain ⟨n, b1, b2, b3⟩ := parseValue_cost h
      refine ⟨i.length - r.length, by omega, by omega, ?_⟩
      intro h1
      by_cases hv : f.len = 65535
      · have := a2 hv; omega
      · have := a3 hv; have := b3 (by omega); omega

/-- THE structural fact for IPFIX: a record of a template with `k` fields yields `k` maps,
    whatever the number of bytes consumed. -/
theorem ipParseRec_length (c : Config) :
    ∀ (fs : List IpTField) (idx : Nat) (i : Bytes) (es : List Rec) (r : Bytes),
      ipParseRec c fs idx i = some (es, r) → es.length = fs.length ∧ r.length ≤ i.length := by
  intro fs
  induction fs with
  | nil => intro idx i es r h; simp [ipParseRec] at h; obtain ⟨e1, e2⟩ := h; subst e1 e2; simp
  | cons f fs ih =>
    intro idx i es r h
    simp only [ipParseRec] at h
    cases hv : ipParseValue c f i with
    | none => simp [hv] at h
    | some x =>
      obtain ⟨v, r1⟩ := x
      simp only [hv] at h
      cases hr : ipParseRec c fs (idx + 1) r1 with
      | none => simp [hr] at h
      | some y =>
        obtain ⟨es', r2⟩ := y
        simp only [hr, Option.some.injEq, Prod.mk.injEq] at h
        obtain ⟨e1, e2⟩ := h
        subst e1 e2
        obtain ⟨n, a1, _, _⟩ := ipParseValue_cost hv
        obtain ⟨b1, b2⟩ := ih _ _ _ _ hr
        exact ⟨by simp [b1], by omega⟩

/-- with honest fields every map consumed at least one byte: 64 + 16 + 32 + 3·consumed ≤ 115·consumed -/
theorem ipParseRec_cost (c : Config) :
    ∀ (fs : List IpTField) (idx : Nat) (i : Bytes) (es : List Rec) (r : Bytes), honestIpFs fs = true →
      ipParseRec c fs idx i = some (es, r) →
      (es.map recSize).sum + 115 * r.length ≤ 115 * i.length ∧ r.length + fs.length ≤ i.length := by
  intro fs
  induction fs with
  | nil => intro idx i es r _ h; simp [ipParseRec] at h; obtain ⟨e1, e2⟩ := h; subst e1 e2; simp
  | cons f fs ih =>
    intro idx i es r hf h
    simp only [honestIpFs, List.all_cons, Bool.and_eq_true, decide_eq_true_eq] at hf
    simp only [ipParseRec] at h
    cases hv : ipParseValue c f i with
    | none => simp [hv] at h
    | some x =>
      obtain ⟨v, r1⟩ := x
      simp only [hv] at h
      cases hr : ipParseRec c fs (idx + 1) r1 with
      | none => simp [hr] at h
      | some y =>
        obtain ⟨es', r2⟩ := y
        simp only [hr, Option.some.injEq, Prod.mk.injEq] at h
        obtain ⟨e1, e2⟩ := h
        subst e1 e2
        obtain ⟨n, a1, a2, a3⟩ := ipParseValue_cost hv
        have a4 := a3 hf.1
        obtain ⟨b1, b2⟩ := ih _ _ _ _ hf.2 hr
        simp only [List.map_cons, List.sum_cons, List.length_cons, recSize, List.map_nil, List.sum_nil] at b1 ⊢
        exact ⟨by omega, by omega⟩

/-- the record loop: 115 per byte, and at most one map per byte -/
theorem ipRecLoop_cost (c : Config) (fs : List IpTField) (hf : honestIpFs fs = true) :
    ∀ (fuel : Nat) (i : Bytes) (recs : List Rec) (pad : Bytes),
      ipRecLoop c fs fuel i = .ok (recs, pad) →
      (recs.map recSize).sum + 115 * pad.length ≤ 115 * i.length ∧ recs.length + pad.length ≤ i.length := by
  intro fuel
  induction fuel with
  | zero => intro i recs pad h; simp [ipRecLoop] at h
  | succ fuel ih =>
    intro i recs pad h
    simp only [ipRecLoop] at h
    cases hr : ipParseRec c fs 0 i with
    | none => simp [hr] at h
    | some x =>
      obtain ⟨es, r⟩ := x
      simp only [hr] at h
      obtain ⟨a1, a2⟩ := ipParseRec_cost c _ _ _ _ _ hf hr
      obtain ⟨a3, _⟩ := ipParseRec_length c _ _ _ _ _ hr
      by_cases h0 : i.length - r.length = 0
      · simp only [h0, ↓reduceIte, Res.ok.injEq, Prod.mk.injEq] at h
        obtain ⟨e1, e2⟩ := h
        subst e1 e2
        exact ⟨a1, by omega⟩
      · simp only [h0, ↓reduceIte] at h
        by_cases h1 : r.length ≥ i.length - r.length
        · simp only [h1, ↓reduceIte] at h
          cases hl : ipRecLoop c fs fuel r with
          | ok y =>
            obtain ⟨more, r'⟩ := y
            simp only [hl, Res.ok.injEq, Prod.mk.injEq] at h
            obtain ⟨e1, e2⟩ := h
            subst e1 e2
            obtain ⟨b1, b2⟩ := ih _ _ _ hl
            rw [sum_map_append, List.length_append]
            exact ⟨by omega, by omega⟩
          | err => simp [hl] at h
          | panic => simp [hl] at h
          | overflow => simp [hl] at h
        · simp only [h1, ↓reduceIte, Res.ok.injEq, Prod.mk.injEq] at h
          obtain ⟨e1, e2⟩ := h
          subst e1 e2
          exact ⟨a1, by omega⟩

/-! ### set bodies, sets, messages -/

def ipBodySize : IpBody → Nat
  | .template t => 32 + 16 * t.fields.length + t.pad.length
  | .optTemplate t => 32 + 16 * t.fields.length + t.pad.length
  | .data recs pad => (recs.map recSize).sum + pad.length
  | .optData recs pad => (recs.map recSize).sum + pad.length

theorem ipSetSize_eq (s : IpSet) : ipSetSize s = 48 + ipBodySize s.body := by
  obtain ⟨id, len, body⟩ := s
  cases body <;> rfl

/-- a set body that fails leaves the caches alone -/
theorem ipParseBody_err (c : Config) (st st' : PState) (id : Nat) (body : Bytes)
    (h : ipParseBody c st id body = (st', .err)) : st' = st := by
  unfold ipParseBody at h
  repeat' split at h
  all_goals first
    | (injection h with h1 h2; exact h1.symm)
    | (injection h with h1 h2; cases h2)

theorem ipParseSet_err (c : Config) (st st' : PState) (i : Bytes)
    (h : ipParseSet c st i = (st', .err)) : st' = st := by
  unfold ipParseSet at h
  cases hh : parseLayout c.t.protoFromU8 c.t.ipSetHdr i with
  | none => simp only [hh, Prod.mk.injEq] at h; exact h.1.symm
  | some hr =>
    obtain ⟨hd, r1⟩ := hr
    simp only [hh] at h
    cases ht : takeN (c.t.ipSetHdr.get "length" hd - 4) r1 with
    | none => simp only [ht, Prod.mk.injEq] at h; exact h.1.symm
    | some br =>
      obtain ⟨body, r2⟩ := br
      simp only [ht] at h
      cases hbd : ipParseBody c st (c.t.ipSetHdr.get "header_id" hd) body with
      | mk st2 res =>
        cases res with
        | ok b => simp [hbd] at h
        | err =>
          simp only [hbd, Prod.mk.injEq] at h
          rw [← h.1]
          exact ipParseBody_err c _ _ _ _ hbd
        | panic => simp [hbd] at h
        | overflow => simp [hbd] at h

theorem ipParseBody_cost (c : Config) (st st' : PState) (id : Nat) (body : Bytes) (b : IpBody)
    (hH : Honest st = true) (h : ipParseBody c st id body = (st', .ok b)) (hb : honestIpBody b = true) :
    Honest st' = true ∧ ipBodySize b ≤ 115 * body.length := by
  obtain ⟨hH1, hH2, hH3, hH4⟩ := (Honest_iff st).1 hH
  unfold ipParseBody at h
  by_cases h1 : id < c.t.ipSetMinRange ∧ id ≠ c.t.ipOptTemplateId
  · rw [if_pos h1] at h
    cases hp : parseIpTemplate body with
    | ok t =>
      simp only [hp] at h
      by_cases hv : ipValid t.fields = true
      · simp only [hv, ↓reduceIte, Prod.mk.injEq, Res.ok.injEq] at h
        obtain ⟨e1, e2⟩ := h
        subst e1 e2
        simp only [honestIpBody] at hb
        have := parseIpTemplate_cost _ _ hp
        refine ⟨?_, by simp only [ipBodySize]; omega⟩
        rw [Honest_iff]
        exact ⟨hH1, hH2, amInsert_all honestIpT _ _ hb _ hH3, amErase_all honestIpO _ _ hH4⟩
      · simp [hv] at h
    | err => simp [hp] at h
    | panic => simp [hp] at h
    | overflow => simp [hp] at h
  · rw [if_neg h1] at h
    by_cases h2 : id = c.t.ipOptTemplateId
    · rw [if_pos h2] at h
      cases hp : parseIpOptTemplate body with
      | ok t =>
        simp only [hp] at h
        by_cases hv : ipValid t.fields = true
        · simp only [hv, ↓reduceIte, Prod.mk.injEq, Res.ok.injEq] at h
          obtain ⟨e1, e2⟩ := h
          subst e1 e2
          simp only [honestIpBody] at hb
          have := parseIpOptTemplate_cost _ _ hp
          refine ⟨?_, by simp only [ipBodySize]; omega⟩
          rw [Honest_iff]
          exact ⟨hH1, hH2, amErase_all honestIpT _ _ hH3, amInsert_all honestIpO _ _ hb _ hH4⟩
        · simp [hv] at h
      | err => simp [hp] at h
      | panic => simp [hp] at h
      | overflow => simp [hp] at h
    · rw [if_neg h2] at h
      cases ht : amLookup id st.ipT with
      | some t =>
        simp only [ht] at h
        by_cases he : t.fields.isEmpty = true
        · simp [he] at h
        · simp only [he, Bool.false_eq_true, ↓reduceIte] at h
          cases hl : ipRecLoop c t.fields (body.length + 1) body with
          | ok x =>
            obtain ⟨recs, pad⟩ := x
            simp only [hl, Prod.mk.injEq, Res.ok.injEq] at h
            obtain ⟨e1, e2⟩ := h
            subst e1 e2
            have hft : honestIpFs t.fields = true := amLookup_all honestIpT _ _ _ hH3 ht
            obtain ⟨a1, _⟩ := ipRecLoop_cost c _ hft _ _ _ _ hl
            exact ⟨hH, by simp only [ipBodySize]; omega⟩
          | err => simp [hl] at h
          | panic => simp [hl] at h
          | overflow => simp [hl] at h
      | none =>
        simp only [ht] at h
        cases ho : amLookup id st.ipO with
        | none => simp [ho] at h
        | some t =>
          simp only [ho] at h
          by_cases he : t.fields.isEmpty = true
          · simp [he] at h
          · simp only [he, Bool.false_eq_true, ↓reduceIte] at h
            cases hl : ipRecLoop c t.fields (body.length + 1) body with
            | ok x =>
              obtain ⟨recs, pad⟩ := x
              simp only [hl, Prod.mk.injEq, Res.ok.injEq] at h
              obtain ⟨e1, e2⟩ := h
              subst e1 e2
              have hft : honestIpFs t.fields = true := amLookup_all honestIpO _ _ _ hH4 ho
              obtain ⟨a1, _⟩ := ipRecLoop_cost c _ hft _ _ _ _ hl
              exact ⟨hH, by simp only [ipBodySize]; omega⟩
            | err => simp [hl] at h
            | panic => simp [hl] at h
            | overflow => simp [hl] at h

theorem ipParseSet_cost (c : Config) (hw : 1 ≤ c.t.ipSetHdr.wireLen) (st st' : PState) (i : Bytes) (s : IpSet) (r : Bytes)
    (hH : Honest st = true) (h : ipParseSet c st i = (st', .ok (s, r))) (hb : honestIpBody s.body = true) :
    Honest st' = true ∧ ipSetSize s + 115 * r.length ≤ 115 * i.length := by
  unfold ipParseSet at h
  cases hh : parseLayout c.t.protoFromU8 c.t.ipSetHdr i with
  | none => simp [hh] at h
  | some hr =>
    obtain ⟨hd, r1⟩ := hr
    simp only [hh] at h
    cases ht : takeN (c.t.ipSetHdr.get "length" hd - 4) r1 with
    | none => simp [ht] at h
    | some br =>
      obtain ⟨body, r2⟩ := br
      simp only [ht] at h
      have a := parseLayout_len hh
      obtain ⟨b1, b2⟩ := takeN_len ht
      cases hbd : ipParseBody c st (c.t.ipSetHdr.get "header_id" hd) body with
      | mk st2 res =>
        cases res with
        | ok b =>
          simp only [hbd, Prod.mk.injEq, Res.ok.injEq] at h
          obtain ⟨e1, e2, e3⟩ := h
          subst e1 e2 e3
          obtain ⟨c1, c2⟩ := ipParseBody_cost c _ _ _ _ _ hH hbd hb
          rw [ipSetSize_eq]
          simp only at c2 ⊢
          exact ⟨c1, by omega⟩
        | err => simp [hbd] at h
        | panic => simp [hbd] at h
        | overflow => simp [hbd] at h

theorem ipParseSets_cost (c : Config) (hw : 1 ≤ c.t.ipSetHdr.wireLen) :
    ∀ (fuel : Nat) (st st' : PState) (i : Bytes) (ss : List IpSet), Honest st = true →
      ipParseSets c fuel st i = (st', .ok ss) → (ss.all fun s => honestIpBody s.body) = true →
      Honest st' = true ∧ (ss.map ipSetSize).sum ≤ 115 * i.length := by
  intro fuel
  induction fuel with
  | zero => intro st st' i ss _ h _; simp [ipParseSets] at h
  | succ fuel ih =>
    intro st st' i ss hH h hb
    simp only [ipParseSets] at h
    cases hs : ipParseSet c st i with
    | mk st1 res =>
      cases res with
      | ok sr =>
        obtain ⟨s, r1⟩ := sr
        simp only [hs] at h
        by_cases he : r1.length = i.length
        · simp [he] at h
        · simp only [he, ↓reduceIte] at h
          cases hrest : ipParseSets c fuel st1 r1 with
          | mk st2 res2 =>
            cases res2 with
            | ok ss' =>
              simp only [hrest, Prod.mk.injEq, Res.ok.injEq] at h
              obtain ⟨e0, e1⟩ := h
              subst e0 e1
              simp only [List.all_cons, Bool.and_eq_true] at hb
              obtain ⟨a1, a2⟩ := ipParseSet_cost c hw _ _ _ _ _ hH hs hb.1
              obtain ⟨b1, b2⟩ := ih _ _ _ _ a1 hrest hb.2
              simp only [List.map_cons, List.sum_cons]
              exact ⟨b1, by omega⟩
            | err => simp [hrest] at h
            | panic => simp [hrest] at h
            | overflow => simp [hrest] at h
      | err =>
        simp only [hs, Prod.mk.injEq, Res.ok.injEq] at h
        obtain ⟨e0, e1⟩ := h
        subst e0 e1
        have := ipParseSet_err c _ _ _ hs
        subst this
        exact ⟨hH, by simp⟩
      | panic => simp [hs] at h
      | overflow => simp [hs] at h

theorem parseIpfix_cost (c : Config) (hw : 1 ≤ c.t.ipSetHdr.wireLen) (st st' : PState) (i : Bytes) (p : Packet) (r : Bytes)
    (hH : Honest st = true) (h : parseIpfix c st i = (st', .ok (p, r))) (hb : honestPkt p = true) :
    Honest st' = true ∧ packetSize p + 115 * r.length ≤ 64 + 115 * i.length := by
  unfold parseIpfix at h
  cases hh : parseLayout c.t.protoFromU8 c.t.ipHdr i with
  | none => simp [hh] at h
  | some hr =>
    obtain ⟨hd, r1⟩ := hr
    simp only [hh] at h
    cases ht : takeN (c.t.ipHdr.get "length" hd - 16) r1 with
    | none => simp [ht] at h
    | some br =>
      obtain ⟨body, r2⟩ := br
      simp only [ht] at h
      have a := parseLayout_len hh
      obtain ⟨t1, t2⟩ := takeN_len ht
      cases hs : ipParseSets c (body.length + 1) st body with
      | mk st1 res =>
        cases res with
        | ok ss =>
          simp only [hs, Prod.mk.injEq, Res.ok.injEq] at h
          obtain ⟨e0, e1, e2⟩ := h
          subst e0 e1 e2
          simp only [honestPkt] at hb
          obtain ⟨b1, b2⟩ := ipParseSets_cost c hw _ _ _ _ _ hH hs hb
          simp only [packetSize]
          exact ⟨b1, by omega⟩
        | err => simp [hs] at h
        | panic => simp [hs] at h
        | overflow => simp [hs] at h

end Netflow.B3
