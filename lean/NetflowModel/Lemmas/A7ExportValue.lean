/-
  Lemmas/A7ExportValue.lean — which decoded field values re-export to the bytes they were decoded
  from: the static class `LosslessField` of (library type, declared length) pairs, the dynamic
  class `ValueOk` of decoded values, and the value-level coherence theorem `parseValue_coh`.
-/
import NetflowModel.Lemmas.A7ExportBytes
namespace Netflow.A7

/-! ### two's complement helpers -/

theorem wrapUnsigned32_of (z : Int) (n : Nat) (h : n < 4294967296) (hz : z = n ∨ z = (n : Int) - 4294967296) :
    wrapUnsigned 32 z = n := by
  unfold wrapUnsigned
  have e : ((2 ^ 32 : Nat) : Int) = 4294967296 := by decide
  rw [e]; omega

theorem wrapSigned32_of (n : Nat) (h : n < 4294967296) :
    wrapSigned 32 n = n ∨ wrapSigned 32 n = (n : Int) - 4294967296 := by
  unfold wrapSigned
  have e1 : (2 ^ 32 : Nat) = 4294967296 := by decide
  have e2 : n % 2 ^ 32 = n := by rw [e1]; omega
  simp only [e2]
  split
  · left; rfl
  · right; rw [e1]; rfl

theorem i32_roundtrip (z : Int) (n : Nat) (h : n < 4294967296) (hz : z = n ∨ z = (n : Int) - 4294967296) :
    wrapUnsigned 32 (wrapSigned 32 (wrapUnsigned 32 z)) = n := by
  rw [wrapUnsigned32_of z n h hz]
  exact wrapUnsigned32_of _ n h (wrapSigned32_of n h)

theorem beInt_cases (bs : Bytes) :
    beInt bs = beNat bs ∨ beInt bs = (beNat bs : Int) - (256 ^ bs.length : Nat) := by
  unfold beInt
  simp only
  split
  · left; rfl
  · right; rfl

/-! ### `DataNumber` -/

/-- number of bytes an unsigned arm writes back -/
def armUWidth : DnArm → Option Nat
  | .u8 => some 1 | .u16 => some 2 | .u24 => some 3 | .u32 => some 4 | .u64 => some 8 | .u128 => some 16
  | .i24 => none | .i32 => none

/-- the arm chosen for a `(len, signed)` request re-exports exactly `len` bytes with the same
    content: an unsigned arm of that width, `I32` for 4 bytes, `I24` for 3 signed bytes. -/
def armLossless (arm : DnArm) (signed : Bool) (len : Nat) : Bool :=
  armUWidth arm == some len || (arm == .i32 && len == 4) || (arm == .i24 && len == 3 && signed)

theorem DataNumber.parse_inv {arms : DnArms} {len : Nat} {signed : Bool} {i r : Bytes} {d : DataNumber}
    (h : DataNumber.parse arms len signed i = some (d, r)) :
    ∃ arm bs, arms.lookup (len, signed) = some arm ∧ takeN len i = some (bs, r) ∧
      d = DataNumber.make arm signed bs := by
  unfold DataNumber.parse at h
  cases hl : arms.lookup (len, signed) with
  | none => simp [hl] at h
  | some arm =>
    simp only [hl] at h
    cases ht : takeN len i with
    | none => simp [ht] at h
    | some br =>
      obtain ⟨bs, r1⟩ := br
      simp only [ht, Option.some.injEq, Prod.mk.injEq] at h
      obtain ⟨e1, e2⟩ := h
      subst e1 e2
      exact ⟨arm, bs, rfl, rfl, rfl⟩

theorem DataNumber.make_toBE (arm : DnArm) (signed : Bool) (bs : Bytes)
    (h : armLossless arm signed bs.length = true) :
    (DataNumber.make arm signed bs).toBE = .ok bs := by
  have hlt := beNat_lt' bs
  cases arm with
  | u8 =>
    have hl : bs.length = 1 := by simp [armLossless, armUWidth] at h; omega
    simp only [DataNumber.make, DataNumber.toBE]
    rw [toBE_beNat_of_length hl]
  | u16 =>
    have hl : bs.length = 2 := by simp [armLossless, armUWidth] at h; omega
    simp only [DataNumber.make, DataNumber.toBE]
    rw [toBE_beNat_of_length hl]
  | u24 =>
    have hl : bs.length = 3 := by simp [armLossless, armUWidth] at h; omega
    simp only [DataNumber.make, DataNumber.toBE]
    rw [hl] at hlt
    have : beNat bs < 2 ^ 24 := by
      have e : (256 : Nat) ^ 3 = 2 ^ 24 := by decide
      omega
    simp only [this, ↓reduceIte]
    rw [toBE_beNat_of_length hl]
  | u32 =>
    have hl : bs.length = 4 := by simp [armLossless, armUWidth] at h; omega
    simp only [DataNumber.make, DataNumber.toBE]
    rw [toBE_beNat_of_length hl]
  | u64 =>
    have hl : bs.length = 8 := by simp [armLossless, armUWidth] at h; omega
    simp only [DataNumber.make, DataNumber.toBE]
    rw [toBE_beNat_of_length hl]
  | u128 =>
    have hl : bs.length = 16 := by simp [armLossless, armUWidth] at h; omega
    simp only [DataNumber.make, DataNumber.toBE]
    rw [toBE_beNat_of_length hl]
  | i32 =>
    have hl : bs.length = 4 := by simp [armLossless, armUWidth] at h; omega
    rw [hl] at hlt
    have e : (256 : Nat) ^ 4 = 4294967296 := by decide
    have hz : (if signed then beInt bs else (beNat bs : Int)) = beNat bs ∨
        (if signed then beInt bs else (beNat bs : Int)) = (beNat bs : Int) - 4294967296 := by
      cases signed with
      | false => left; rfl
      | true =>
        simp only [↓reduceIte]
        have := beInt_cases bs
        rw [hl, e] at this
        exact this
    simp only [DataNumber.make, DataNumber.toBE]
    rw [i32_roundtrip _ (beNat bs) (by omega) hz, toBE_beNat_of_length hl]
  | i24 =>
    have hl : bs.length = 3 ∧ signed = true := by simpa [armLossless, armUWidth] using h
    obtain ⟨hl, hs⟩ := hl
    subst hs
    rw [hl] at hlt
    have e : (256 : Nat) ^ 3 = 16777216 := by decide
    rw [e] at hlt
    simp only [DataNumber.make, DataNumber.toBE, ↓reduceIte]
    have hb : beInt bs = (if 2 * beNat bs < 16777216 then (beNat bs : Int) else (beNat bs : Int) - 16777216) := by
      unfold beInt
      simp only [hl, e]
      rfl
    have e23 : (2 : Int) ^ 23 = 8388608 := by decide
    have hr : -(2 ^ 23 : Int) ≤ beInt bs ∧ beInt bs < 2 ^ 23 := by
      rw [hb, e23]; split <;> omega
    have hw : wrapUnsigned 24 (beInt bs) = beNat bs := by
      unfold wrapUnsigned
      have e24 : ((2 ^ 24 : Nat) : Int) = 16777216 := by decide
      rw [e24, hb]; split <;> omega
    simp only [hr, and_self, ↓reduceIte, hw]
    rw [toBE_beNat_of_length hl]

/-! ### strings: `utf8Lossy` leaves a string alone iff it inserts no U+FFFD -/

/-- the byte string contains the UTF-8 encoding `EF BF BD` of U+FFFD -/
def hasRepl : Bytes → Bool
  | [] => false
  | b :: rest => (b == 0xEF && rest.take 2 == [0xBF, 0xBD]) || hasRepl rest

theorem hasRepl_cons_false {b : UInt8} {rest : Bytes} (h : hasRepl (b :: rest) = false) : hasRepl rest = false := by
  simp only [hasRepl, Bool.or_eq_false_iff] at h
  exact h.2

theorem hasRepl_replChar (rest : Bytes) : hasRepl (replChar ++ rest) = true := by
  simp [hasRepl, replChar]

theorem hasRepl_replChar' : hasRepl replChar = true := by
  simp [hasRepl, replChar]

/-- if the lossy decoder's output contains no replacement character, it is the input -/
theorem utf8LossyF_id : ∀ (f : Nat) (bs : Bytes), bs.length < f →
    hasRepl (utf8LossyF f bs) = false → utf8LossyF f bs = bs := by
  intro f
  induction f with
  | zero => intro bs h; omega
  | succ f ih =>
    intro bs hl h
    cases bs with
    | nil => simp [utf8LossyF]
    | cons b rest =>
      simp only [List.length_cons] at hl
      have ih1 : ∀ r : Bytes, r.length ≤ rest.length → hasRepl (utf8LossyF f r) = false → utf8LossyF f r = r :=
        fun r hr hh => ih r (by omega) hh
      unfold utf8LossyF at h ⊢
      simp only at h ⊢
      split
      · rename_i h1
        simp only [h1] at h
        rw [ih1 rest (Nat.le_refl _) (hasRepl_cons_false h)]
      · rename_i h1
        simp only [h1] at h
        split
        · rename_i h2
          simp only [h2] at h
          cases rest with
          | nil => cases h
          | cons c r1 =>
            simp only at h ⊢
            split
            · rename_i h3
              simp only [h3] at h
              rw [ih1 r1 (by simp) (hasRepl_cons_false (hasRepl_cons_false h))]
            · rename_i h3
              simp only [h3] at h
              cases h
        · rename_i h2
          simp only [h2] at h
          split
          · rename_i h3
            simp only [h3] at h
            cases rest with
            | nil => cases h
            | cons c r1 =>
              simp only at h ⊢
              split
              · rename_i h4
                simp only [h4] at h
                cases r1 with
                | nil => cases h
                | cons d r2 =>
                  simp only at h ⊢
                  split
                  · rename_i h5
                    simp only [h5] at h
                    rw [ih1 r2 (by simp; omega)
                      (hasRepl_cons_false (hasRepl_cons_false (hasRepl_cons_false h)))]
                  · rename_i h5
                    simp only [h5] at h
                    cases h
              · rename_i h4
                simp only [h4] at h
                cases h
          · rename_i h3
            simp only [h3] at h
            split
            · rename_i h4
              simp only [h4] at h
              cases rest with
              | nil => cases h
              | cons c r1 =>
                simp only at h ⊢
                split
                · rename_i h5
                  simp only [h5] at h
                  cases r1 with
                  | nil => cases h
                  | cons d r2 =>
                    simp only at h ⊢
                    split
                    · rename_i h6
                      simp only [h6] at h
                      cases r2 with
                      | nil => cases h
                      | cons e r3 =>
                        simp only at h ⊢
                        split
                        · rename_i h7
                          simp only [h7] at h
                          rw [ih1 r3 (by simp; omega)
                            (hasRepl_cons_false (hasRepl_cons_false (hasRepl_cons_false (hasRepl_cons_false h))))]
                        · rename_i h7
                          simp only [h7] at h
                          cases h
                    · rename_i h6
                      simp only [h6] at h
                      cases h
                · rename_i h5
                  simp only [h5] at h
                  cases h
            · rename_i h4
              simp only [h4] at h
              cases h

theorem utf8Lossy_id (bs : Bytes) (h : hasRepl (utf8Lossy bs) = false) : utf8Lossy bs = bs :=
  utf8LossyF_id _ bs (Nat.lt_succ_self _) h

/-! ### static and dynamic lossless classes -/

/-- STATIC class: a field of library type `ty` declared with `len` bytes is always re-exported
    to the bytes it was decoded from (for `str` and `proto` provided the decoded value is `ValueOk`).
    * numbers: the `DataNumber::parse` arm for `(len, signed)` writes `len` bytes back
      (`armLossless`; a failing lookup makes the parse fail, so it is vacuously fine);
    * `durS` only as a 4-byte `U32` (a Duration is re-exported as 4-byte seconds);
    * `ip4`/`ip6`/`f64`: ANY declared length (they consume and re-emit 4/16/8 bytes);
    * `vec`/`unknown`: any length;  `mac`, `durMs`, `durUs`, `durNs`: never. -/
def LosslessField (vc : ValueCfg) (ty : FType) (len : Nat) : Bool :=
  match ty with
  | .unsigned =>
    match vc.dnArms.lookup (len, false) with
    | some arm => armLossless arm false len
    | none => true
  | .signed =>
    match vc.dnArms.lookup (len, true) with
    | some arm => armLossless arm true len
    | none => true
  | .durS => len == 4 && (vc.dnArms.lookup (len, false) == some .u32 || vc.dnArms.lookup (len, false) == none)
  | .str | .proto | .ip4 | .ip6 | .f64 | .vec | .unknown => true
  | .mac | .durMs | .durUs | .durNs => false

/-- if every unsigned arm of the `DataNumber::parse` table writes back the width it was selected
    for, unsigned fields are lossless at EVERY declared length (unsupported lengths fail to parse) -/
theorem unsigned_lossless_of_arms (vc : ValueCfg)
    (h : vc.dnArms.all (fun e => e.1.2 || armLossless e.2 false e.1.1) = true) (len : Nat) :
    LosslessField vc .unsigned len = true := by
  simp only [LosslessField]
  cases hl : vc.dnArms.lookup (len, false) with
  | none => rfl
  | some arm =>
    simp only [List.all_eq_true] at h
    have := h _ (lookup_mem hl)
    simpa using this

/-- DYNAMIC class of decoded values: a string without U+FFFD (so the lossy UTF-8 decoding changed
    nothing), a protocol whose `u8` image is the only byte that decodes to it. -/
def ValueOk (vc : ValueCfg) : FieldValue → Bool
  | .str s => !hasRepl s
  | .proto p => (List.range 256).all fun n => decide (vc.protoParse n = some p → vc.protoToU8 p = n)
  | _ => true

theorem uint8_ofNat_beNat_singleton (bs : Bytes) (h : bs.length = 1) : [UInt8.ofNat (beNat bs)] = bs := by
  have := toBE_beNat_of_length h
  simp only [toBE, List.nil_append] at this
  have hlt := beNat_lt 1 bs h
  have e : beNat bs % 256 = beNat bs := by omega
  rw [e] at this
  exact this

/-- value-level parse-then-print: a decoded lossless value re-exports to exactly the bytes the
    decoder consumed -/
theorem parseValue_coh (vc : ValueCfg) (ty : FType) (len : Nat) (i : Bytes) (v : FieldValue) (r : Bytes)
    (h : parseValue vc ty len i = some (v, r)) (hs : LosslessField vc ty len = true) (hv : ValueOk vc v = true) :
    ∃ bs, v.toBE vc = .ok bs ∧ bs ++ r = i := by
  unfold parseValue at h
  cases ty with
  | unsigned =>
    simp only at h
    cases hp : DataNumber.parse vc.dnArms len false i with
    | none => simp [hp] at h
    | some dr =>
      obtain ⟨d, r1⟩ := dr
      simp only [hp, Option.some.injEq, Prod.mk.injEq] at h
      obtain ⟨e1, e2⟩ := h
      subst e1 e2
      obtain ⟨arm, bs, hl, ht, hd⟩ := DataNumber.parse_inv hp
      simp only [LosslessField, hl] at hs
      rw [← takeN_length ht] at hs
      exact ⟨bs, by simp only [FieldValue.toBE, hd]; exact DataNumber.make_toBE arm false bs hs, takeN_coh ht⟩
  | signed =>
    simp only at h
    cases hp : DataNumber.parse vc.dnArms len true i with
    | none => simp [hp] at h
    | some dr =>
      obtain ⟨d, r1⟩ := dr
      simp only [hp, Option.some.injEq, Prod.mk.injEq] at h
      obtain ⟨e1, e2⟩ := h
      subst e1 e2
      obtain ⟨arm, bs, hl, ht, hd⟩ := DataNumber.parse_inv hp
      simp only [LosslessField, hl] at hs
      rw [← takeN_length ht] at hs
      exact ⟨bs, by simp only [FieldValue.toBE, hd]; exact DataNumber.make_toBE arm true bs hs, takeN_coh ht⟩
  | str =>
    simp only at h
    cases ht : takeN len i with
    | none => simp [ht] at h
    | some br =>
      obtain ⟨b, r1⟩ := br
      simp only [ht, Option.some.injEq, Prod.mk.injEq] at h
      obtain ⟨e1, e2⟩ := h
      subst e1 e2
      simp only [ValueOk, Bool.not_eq_true'] at hv
      refine ⟨utf8Lossy b, rfl, ?_⟩
      rw [utf8Lossy_id b hv]
      exact takeN_coh ht
  | ip4 =>
    simp only at h
    cases hb : beU 4 i with
    | none => simp [hb] at h
    | some nr =>
      obtain ⟨n, r1⟩ := nr
      simp only [hb, Option.some.injEq, Prod.mk.injEq] at h
      obtain ⟨e1, e2⟩ := h
      subst e1 e2
      exact ⟨toBE 4 n, rfl, beU_coh hb⟩
  | ip6 =>
    simp only at h
    cases hb : beU 16 i with
    | none => simp [hb] at h
    | some nr =>
      obtain ⟨n, r1⟩ := nr
      simp only [hb, Option.some.injEq, Prod.mk.injEq] at h
      obtain ⟨e1, e2⟩ := h
      subst e1 e2
      exact ⟨toBE 16 n, rfl, beU_coh hb⟩
  | f64 =>
    simp only at h
    cases hb : beU 8 i with
    | none => simp [hb] at h
    | some nr =>
      obtain ⟨n, r1⟩ := nr
      simp only [hb, Option.some.injEq, Prod.mk.injEq] at h
      obtain ⟨e1, e2⟩ := h
      subst e1 e2
      exact ⟨toBE 8 n, rfl, beU_coh hb⟩
  | mac => simp [LosslessField] at hs
  | durMs => simp [LosslessField] at hs
  | durUs => simp [LosslessField] at hs
  | durNs => simp [LosslessField] at hs
  | durS =>
    simp only at h
    cases hp : DataNumber.parse vc.dnArms len false i with
    | none => simp [hp] at h
    | some dr =>
      obtain ⟨d, r1⟩ := dr
      simp only [hp, Option.some.injEq, Prod.mk.injEq] at h
      obtain ⟨e1, e2⟩ := h
      subst e1 e2
      obtain ⟨arm, bs, hl, ht, hd⟩ := DataNumber.parse_inv hp
      simp only [LosslessField, hl, Bool.and_eq_true, beq_iff_eq, Bool.or_eq_true, Option.some.injEq,
        reduceCtorEq, or_false] at hs
      obtain ⟨h4, harm⟩ := hs
      subst harm h4
      have hlen := takeN_length ht
      have hlt := beNat_lt 4 bs hlen
      have e : (256 : Nat) ^ 4 = 2 ^ 32 := by decide
      rw [e] at hlt
      refine ⟨bs, ?_, takeN_coh ht⟩
      simp only [hd, DataNumber.make, durOf, DataNumber.toUsize, Nat.div_one, FieldValue.toBE, hlt, ↓reduceIte]
      rw [toBE_beNat_of_length hlen]
  | proto =>
    simp only at h
    cases hb : beU 1 i with
    | none => simp [hb] at h
    | some nr =>
      obtain ⟨n, r1⟩ := nr
      simp only [hb] at h
      cases hpp : vc.protoParse n with
      | none => simp [hpp] at h
      | some p =>
        simp only [hpp, Option.some.injEq, Prod.mk.injEq] at h
        obtain ⟨e1, e2⟩ := h
        subst e1 e2
        obtain ⟨h1, h2, h3⟩ := beU_some hb
        have hlen : (i.take 1).length = 1 := by simp; omega
        have hlt := beNat_lt 1 _ hlen
        rw [← h2] at hlt
        simp only [ValueOk, List.all_eq_true, List.mem_range, decide_eq_true_eq] at hv
        have hn := hv n (by omega) hpp
        refine ⟨[UInt8.ofNat (vc.protoToU8 p)], rfl, ?_⟩
        rw [hn, h2, uint8_ofNat_beNat_singleton _ hlen, h3]
        exact List.take_append_drop 1 i
  | vec =>
    simp only at h
    cases ht : takeN len i with
    | none => simp [ht] at h
    | some br =>
      obtain ⟨b, r1⟩ := br
      simp only [ht, Option.some.injEq, Prod.mk.injEq] at h
      obtain ⟨e1, e2⟩ := h
      subst e1 e2
      exact ⟨b, rfl, takeN_coh ht⟩
  | unknown =>
    simp only at h
    by_cases hu : vc.unknownFields = true
    · simp only [hu, ↓reduceIte] at h
      cases ht : takeN len i with
      | none => simp [ht] at h
      | some br =>
        obtain ⟨b, r1⟩ := br
        simp only [ht, Option.some.injEq, Prod.mk.injEq] at h
        obtain ⟨e1, e2⟩ := h
        subst e1 e2
        exact ⟨b, rfl, takeN_coh ht⟩
    · simp [hu] at h

/-- the input-side form for strings: valid UTF-8 in, same bytes out -/
theorem parseValue_str_coh (vc : ValueCfg) (len : Nat) (i : Bytes) (v : FieldValue) (r : Bytes)
    (h : parseValue vc .str len i = some (v, r)) (hu : utf8Lossy (i.take len) = i.take len) :
    v.toBE vc = .ok (i.take len) ∧ i.take len ++ r = i := by
  simp only [parseValue] at h
  cases ht : takeN len i with
  | none => simp [ht] at h
  | some br =>
    obtain ⟨b, r1⟩ := br
    simp only [ht, Option.some.injEq, Prod.mk.injEq] at h
    obtain ⟨e1, e2⟩ := h
    subst e1 e2
    obtain ⟨_, h2, h3⟩ := takeN_some ht
    subst h2 h3
    exact ⟨by simp only [FieldValue.toBE, hu], List.take_append_drop len i⟩

end Netflow.A7
