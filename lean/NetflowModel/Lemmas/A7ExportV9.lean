/-
  Lemmas/A7ExportV9.lean — parse-then-print for NetFlow V9, bottom-up: template fields, templates,
  options templates, options data, data records, the record loop, flowset bodies, flowsets, the
  flowset sequence and the packet.
-/
import NetflowModel.Lemmas.A7ExportValue
namespace Netflow.A7

/-! ### templates -/

theorem parseTField_coh : CohOn parseTField exportTField (fun _ => True) := by
  intro i a r h _
  unfold parseTField at h
  cases h1 : beU 2 i with
  | none => simp [h1] at h
  | some x =>
    obtain ⟨t, r1⟩ := x
    simp only [h1] at h
    cases h2 : beU 2 r1 with
    | none => simp [h2] at h
    | some y =>
      obtain ⟨l, r2⟩ := y
      simp only [h2, Option.some.injEq, Prod.mk.injEq] at h
      obtain ⟨e1, e2⟩ := h
      subst e1 e2
      simp only [exportTField]
      rw [List.append_assoc, beU_coh h2, beU_coh h1]

theorem parseV9Template_coh : CohOn parseV9Template exportV9Template (fun _ => True) := by
  intro i a r h _
  unfold parseV9Template at h
  cases h1 : beU 2 i with
  | none => simp [h1] at h
  | some x =>
    obtain ⟨id, r1⟩ := x
    simp only [h1] at h
    cases h2 : beU 2 r1 with
    | none => simp [h2] at h
    | some y =>
      obtain ⟨fc, r2⟩ := y
      simp only [h2] at h
      cases h3 : countP parseTField fc r2 with
      | none => simp [h3] at h
      | some z =>
        obtain ⟨fs, r3⟩ := z
        simp only [h3, Option.some.injEq, Prod.mk.injEq] at h
        obtain ⟨e1, e2⟩ := h
        subst e1 e2
        simp only [exportV9Template]
        rw [List.append_assoc, List.append_assoc, countP_coh parseTField_coh _ _ _ _ h3 (fun _ _ => trivial),
          beU_coh h2, beU_coh h1]

/-- options templates are byte-exact whatever `scopeLen`/`optLen` are: the two lengths are
    re-exported as stored and `count(.., len / 4)` consumed exactly the fields that are re-emitted -/
theorem parseV9OptTemplate_coh : CohOn parseV9OptTemplate exportV9OptTemplate (fun _ => True) := by
  intro i a r h _
  unfold parseV9OptTemplate at h
  cases h1 : beU 2 i with
  | none => simp [h1] at h
  | some x =>
    obtain ⟨id, r1⟩ := x
    simp only [h1] at h
    cases h2 : beU 2 r1 with
    | none => simp [h2] at h
    | some y =>
      obtain ⟨sl, r2⟩ := y
      simp only [h2] at h
      cases h2' : beU 2 r2 with
      | none => simp [h2'] at h
      | some y' =>
        obtain ⟨ol, r2'⟩ := y'
        simp only [h2'] at h
        cases h3 : countP parseTField (sl / 4) r2' with
        | none => simp [h3] at h
        | some z =>
          obtain ⟨ss, r3⟩ := z
          simp only [h3] at h
          cases h4 : countP parseTField (ol / 4) r3 with
          | none => simp [h4] at h
          | some z' =>
            obtain ⟨os, r4⟩ := z'
            simp only [h4, Option.some.injEq, Prod.mk.injEq] at h
            obtain ⟨e1, e2⟩ := h
            subst e1 e2
            simp only [exportV9OptTemplate]
            simp only [List.append_assoc]
            rw [countP_coh parseTField_coh _ _ _ _ h4 (fun _ _ => trivial),
              countP_coh parseTField_coh _ _ _ _ h3 (fun _ _ => trivial),
              beU_coh h2', beU_coh h2, beU_coh h1]

/-! ### options data (no conditions: the raw bytes are kept) -/

theorem v9ScopeLoop_coh (c : Config) :
    ∀ (fs : List TField) (i : Bytes) (vs : List (Nat × Bytes)) (r : Bytes),
      v9ScopeLoop c fs i = some (vs, r) → vs.flatMap (·.2) ++ r = i := by
  intro fs
  induction fs with
  | nil =>
    intro i vs r h
    simp only [v9ScopeLoop, Option.some.injEq, Prod.mk.injEq] at h
    obtain ⟨e1, e2⟩ := h
    subst e1 e2
    simp
  | cons f fs ih =>
    intro i vs r h
    unfold v9ScopeLoop at h
    cases ht : takeN f.len i with
    | none =>
      simp only [ht, Option.some.injEq, Prod.mk.injEq] at h
      obtain ⟨e1, e2⟩ := h
      subst e1 e2
      simp
    | some x =>
      obtain ⟨v, r1⟩ := x
      simp only [ht] at h
      by_cases hk : c.t.scopeKnown f.typ = true
      · simp only [hk, ↓reduceIte] at h
        by_cases hl : r1.length = i.length
        · simp [hl] at h
        · simp only [hl, ↓reduceIte] at h
          cases hr : v9ScopeLoop c fs r1 with
          | none => simp [hr] at h
          | some y =>
            obtain ⟨vs', r2⟩ := y
            simp only [hr, Option.some.injEq, Prod.mk.injEq] at h
            obtain ⟨e1, e2⟩ := h
            subst e1 e2
            simp only [List.flatMap_cons, List.append_assoc]
            rw [ih r1 vs' r2 hr, takeN_coh ht]
      · simp only [hk, Bool.false_eq_true, ↓reduceIte, Option.some.injEq, Prod.mk.injEq] at h
        obtain ⟨e1, e2⟩ := h
        subst e1 e2
        simp

theorem v9OptLoop_coh (c : Config) :
    ∀ (fs : List TField) (i : Bytes) (vs : List (Nat × Bytes)) (r : Bytes),
      v9OptLoop c fs i = some (vs, r) → vs.flatMap (·.2) ++ r = i := by
  intro fs
  induction fs with
  | nil =>
    intro i vs r h
    simp only [v9OptLoop, Option.some.injEq, Prod.mk.injEq] at h
    obtain ⟨e1, e2⟩ := h
    subst e1 e2
    simp
  | cons f fs ih =>
    intro i vs r h
    unfold v9OptLoop at h
    cases ht : takeN f.len i with
    | none =>
      simp only [ht, Option.some.injEq, Prod.mk.injEq] at h
      obtain ⟨e1, e2⟩ := h
      subst e1 e2
      simp
    | some x =>
      obtain ⟨v, r1⟩ := x
      simp only [ht] at h
      by_cases hl : r1.length = i.length
      · simp [hl] at h
      · simp only [hl, ↓reduceIte] at h
        cases hr : v9OptLoop c fs r1 with
        | none => simp [hr] at h
        | some y =>
          obtain ⟨vs', r2⟩ := y
          simp only [hr, Option.some.injEq, Prod.mk.injEq] at h
          obtain ⟨e1, e2⟩ := h
          subst e1 e2
          simp only [List.flatMap_cons, List.append_assoc]
          rw [ih r1 vs' r2 hr, takeN_coh ht]

/-! ### data records -/

/-- library type of a V9 template field -/
def v9FieldTy (c : Config) (f : TField) : FType := c.t.v9Ty (c.t.v9Field f.typ)

/-- every field of the template is in the static lossless class -/
def LosslessTemplate (c : Config) (fs : List TField) : Bool :=
  fs.all fun f => LosslessField c.vc (v9FieldTy c f) f.len

/-- every decoded value of the record is in the dynamic lossless class -/
def RecOk (vc : ValueCfg) (r : Rec) : Bool := r.all fun e => ValueOk vc e.2.2

def RecsOk (vc : ValueCfg) (rs : List Rec) : Bool := rs.all (RecOk vc)

theorem exportRec_cons (vc : ValueCfg) (e : Entry) (es : Rec) :
    exportRec vc (e :: es) = (e.2.2.toBE vc).append (exportRec vc es) := rfl

theorem exportRecs_cons (vc : ValueCfg) (r : Rec) (rs : List Rec) :
    exportRecs vc (r :: rs) = (exportRec vc r).append (exportRecs vc rs) := rfl

theorem v9ParseRec_coh (c : Config) :
    ∀ (fs : List TField) (idx : Nat) (i : Bytes) (es : Rec) (r : Bytes),
      v9ParseRec c fs idx i = some (es, r) → LosslessTemplate c fs = true → RecOk c.vc es = true →
      ∃ bs, exportRec c.vc es = .ok bs ∧ bs ++ r = i := by
  intro fs
  induction fs with
  | nil =>
    intro idx i es r h _ _
    simp only [v9ParseRec, Option.some.injEq, Prod.mk.injEq] at h
    obtain ⟨e1, e2⟩ := h
    subst e1 e2
    exact ⟨[], rfl, rfl⟩
  | cons f fs ih =>
    intro idx i es r h hl hv
    simp only [LosslessTemplate, List.all_cons, Bool.and_eq_true] at hl
    obtain ⟨hf, hfs⟩ := hl
    unfold v9ParseRec at h
    cases hp : parseValue c.vc (c.t.v9Ty (c.t.v9Field f.typ)) f.len i with
    | none => simp [hp] at h
    | some x =>
      obtain ⟨v, r1⟩ := x
      simp only [hp] at h
      cases hr : v9ParseRec c fs (idx + 1) r1 with
      | none => simp [hr] at h
      | some y =>
        obtain ⟨es', r2⟩ := y
        simp only [hr, Option.some.injEq, Prod.mk.injEq] at h
        obtain ⟨e1, e2⟩ := h
        subst e1 e2
        simp only [RecOk, List.all_cons, Bool.and_eq_true] at hv
        obtain ⟨hv1, hv2⟩ := hv
        obtain ⟨b1, hb1, hc1⟩ := parseValue_coh c.vc _ _ _ _ _ hp hf hv1
        obtain ⟨b2, hb2, hc2⟩ := ih (idx + 1) r1 es' r2 hr hfs hv2
        refine ⟨b1 ++ b2, ?_, ?_⟩
        · rw [exportRec_cons]; exact Out.append_eq_ok hb1 hb2
        · rw [List.append_assoc, hc2, hc1]

/-- the record loop: whatever the record count computed from the declared lengths, the flowset
    body is the exported records followed by the returned padding -/
theorem v9RecLoop_coh (c : Config) (fs : List TField) (hl : LosslessTemplate c fs = true) :
    ∀ (n : Nat) (i : Bytes) (acc recs : List Rec) (pad : Bytes),
      v9RecLoop c fs n i acc = (recs, pad) →
      ∃ new, recs = acc ++ new ∧
        (RecsOk c.vc new = true → ∃ bs, exportRecs c.vc new = .ok bs ∧ bs ++ pad = i) := by
  intro n
  induction n with
  | zero =>
    intro i acc recs pad h
    simp only [v9RecLoop, Prod.mk.injEq] at h
    obtain ⟨e1, e2⟩ := h
    subst e1 e2
    exact ⟨[], by simp, fun _ => ⟨[], rfl, rfl⟩⟩
  | succ n ih =>
    intro i acc recs pad h
    unfold v9RecLoop at h
    cases hp : v9ParseRec c fs 0 i with
    | none =>
      simp only [hp] at h
      exact ih i acc recs pad h
    | some x =>
      obtain ⟨r, i'⟩ := x
      simp only [hp] at h
      obtain ⟨new, hnew, hc⟩ := ih i' (acc ++ [r]) recs pad h
      refine ⟨r :: new, by rw [hnew]; simp, ?_⟩
      intro hok
      simp only [RecsOk, List.all_cons, Bool.and_eq_true] at hok
      obtain ⟨hok1, hok2⟩ := hok
      obtain ⟨b1, hb1, hc1⟩ := v9ParseRec_coh c fs 0 i r i' hp hl hok1
      obtain ⟨b2, hb2, hc2⟩ := hc hok2
      refine ⟨b1 ++ b2, ?_, ?_⟩
      · rw [exportRecs_cons]; exact Out.append_eq_ok hb1 hb2
      · rw [List.append_assoc, hc2, hc1]

/-! ### association maps -/

theorem amLookup_mem {β : Type} {k : Nat} {v : β} : ∀ {l : List (Nat × β)}, amLookup k l = some v → (k, v) ∈ l := by
  intro l
  induction l with
  | nil => intro h; simp [amLookup] at h
  | cons x xs ih =>
    intro h
    obtain ⟨k', v'⟩ := x
    simp only [amLookup] at h
    by_cases hk : k = k'
    · simp only [hk, ↓reduceIte, Option.some.injEq] at h
      subst hk h
      exact List.mem_cons_self
    · simp only [hk, ↓reduceIte] at h
      exact List.mem_cons_of_mem _ (ih h)

theorem mem_amInsert {β : Type} {k : Nat} {v : β} {x : Nat × β} :
    ∀ {l : List (Nat × β)}, x ∈ amInsert k v l → x = (k, v) ∨ x ∈ l := by
  intro l
  induction l with
  | nil => intro h; simp [amInsert] at h; exact Or.inl h
  | cons y ys ih =>
    intro h
    obtain ⟨k', v'⟩ := y
    simp only [amInsert] at h
    split at h
    · simp only [List.mem_cons] at h ⊢
      exact h
    · split at h
      · simp only [List.mem_cons] at h ⊢
        rcases h with h | h
        · exact Or.inl h
        · exact Or.inr (Or.inr h)
      · simp only [List.mem_cons] at h ⊢
        rcases h with h | h
        · exact Or.inr (Or.inl h)
        · rcases ih h with h | h
          · exact Or.inl h
          · exact Or.inr (Or.inr h)

theorem mem_amErase {β : Type} {k : Nat} {x : Nat × β} :
    ∀ {l : List (Nat × β)}, x ∈ amErase k l → x ∈ l := by
  intro l
  induction l with
  | nil => intro h; simp [amErase] at h
  | cons y ys ih =>
    intro h
    obtain ⟨k', v'⟩ := y
    simp only [amErase] at h
    split at h
    · exact List.mem_cons_of_mem _ h
    · simp only [List.mem_cons] at h ⊢
      rcases h with h | h
      · exact Or.inl h
      · exact Or.inr (ih h)

/-! ### flowset bodies -/

/-- a template matters (for the ids in `ids`) only if its id is in `ids`; then it must be lossless -/
def v9TmplOk (c : Config) (ids : List Nat) (t : V9Template) : Bool :=
  !ids.contains t.id || LosslessTemplate c t.fields

/-- the cached V9 templates with an id in `ids` are lossless -/
def v9StOk (c : Config) (ids : List Nat) (st : PState) : Bool :=
  st.v9T.all fun kt => !ids.contains kt.1 || LosslessTemplate c kt.2.fields

/-- condition on a decoded flowset body with flowset id `id` -/
def v9BodyOk (c : Config) (ids : List Nat) (id : Nat) : V9Body → Bool
  | .templates ts _ => ts.all (v9TmplOk c ids)
  | .data recs _ => ids.contains id && RecsOk c.vc recs
  | .optTemplates _ _ => true
  | .optData _ _ _ => true

theorem v9StOk_insertTemplates (c : Config) (ids : List Nat) :
    ∀ (ts : List V9Template) (st : PState), v9StOk c ids st = true → ts.all (v9TmplOk c ids) = true →
      v9StOk c ids (insertV9Templates st ts) = true := by
  intro ts
  induction ts with
  | nil => intro st h _; exact h
  | cons t ts ih =>
    intro st h ht
    simp only [List.all_cons, Bool.and_eq_true] at ht
    obtain ⟨ht1, ht2⟩ := ht
    simp only [insertV9Templates]
    apply ih _ _ ht2
    simp only [v9StOk, List.all_eq_true] at h ⊢
    intro x hx
    rcases mem_amInsert hx with hx | hx
    · subst hx; exact ht1
    · exact h x hx

theorem v9StOk_insertOptTemplates (c : Config) (ids : List Nat) :
    ∀ (ts : List V9OptTemplate) (st : PState), v9StOk c ids st = true →
      v9StOk c ids (insertV9OptTemplates st ts) = true := by
  intro ts
  induction ts with
  | nil => intro st h; exact h
  | cons t ts ih =>
    intro st h
    simp only [insertV9OptTemplates]
    apply ih
    simp only [v9StOk, List.all_eq_true] at h ⊢
    intro x hx
    exact h x (mem_amErase hx)

/-- flowset-body parse-then-print, together with preservation of the cache invariant -/
theorem v9ParseBody_coh (c : Config) (ids : List Nat) (st st' : PState) (id : Nat) (body : Bytes) (b : V9Body)
    (h : v9ParseBody c st id body = (st', .ok b)) (hst : v9StOk c ids st = true)
    (hb : v9BodyOk c ids id b = true) :
    exportV9Body c.vc b = .ok body ∧ v9StOk c ids st' = true := by
  unfold v9ParseBody at h
  split at h
  · cases hm : many0 parseV9Template body with
    | ok x =>
      obtain ⟨ts, pad⟩ := x
      simp only [hm, Prod.mk.injEq, Res.ok.injEq] at h
      obtain ⟨e1, e2⟩ := h
      subst e1 e2
      simp only [v9BodyOk] at hb
      refine ⟨?_, v9StOk_insertTemplates c ids ts st hst hb⟩
      simp only [exportV9Body]
      rw [many0_coh parseV9Template_coh body ts pad hm (fun _ _ => trivial)]
    | err => simp [hm] at h
    | outOfFuel => simp [hm] at h
  · split at h
    · cases hm : many0 parseV9OptTemplate body with
      | ok x =>
        obtain ⟨ts, pad⟩ := x
        simp only [hm, Prod.mk.injEq, Res.ok.injEq] at h
        obtain ⟨e1, e2⟩ := h
        subst e1 e2
        refine ⟨?_, v9StOk_insertOptTemplates c ids ts st hst⟩
        simp only [exportV9Body]
        rw [many0_coh parseV9OptTemplate_coh body ts pad hm (fun _ _ => trivial)]
      | err => simp [hm] at h
      | outOfFuel => simp [hm] at h
    · cases ho : amLookup id st.v9O with
      | some ot =>
        simp only [ho] at h
        cases hs : v9ScopeLoop c ot.scope body with
        | none => simp [hs] at h
        | some x =>
          obtain ⟨ss, r⟩ := x
          simp only [hs] at h
          cases hop : v9OptLoop c ot.opts r with
          | none => simp [hop] at h
          | some y =>
            obtain ⟨os, pad⟩ := y
            simp only [hop, Prod.mk.injEq, Res.ok.injEq] at h
            obtain ⟨e1, e2⟩ := h
            subst e1 e2
            refine ⟨?_, hst⟩
            simp only [exportV9Body]
            rw [List.append_assoc, v9OptLoop_coh c _ _ _ _ hop, v9ScopeLoop_coh c _ _ _ _ hs]
      | none =>
        simp only [ho] at h
        cases ht : amLookup id st.v9T with
        | none => simp [ht] at h
        | some t =>
          simp only [ht] at h
          by_cases hz : v9TotalSize t.fields = 0
          · simp [hz] at h
          · simp only [hz, ↓reduceIte] at h
            cases hl : v9RecLoop c t.fields (body.length / v9TotalSize t.fields) body [] with
            | mk recs pad =>
              simp only [hl, Prod.mk.injEq, Res.ok.injEq] at h
              obtain ⟨e1, e2⟩ := h
              subst e1 e2
              simp only [v9BodyOk, Bool.and_eq_true] at hb
              obtain ⟨hid, hrecs⟩ := hb
              have hmem := amLookup_mem ht
              have hlt : LosslessTemplate c t.fields = true := by
                simp only [v9StOk, List.all_eq_true] at hst
                have := hst _ hmem
                simp only [hid, Bool.not_true, Bool.false_or] at this
                exact this
              obtain ⟨new, hnew, hc⟩ := v9RecLoop_coh c t.fields hlt _ _ _ _ _ hl
              simp only [List.nil_append] at hnew
              subst hnew
              obtain ⟨bs, hbs, hcb⟩ := hc hrecs
              refine ⟨?_, hst⟩
              simp only [exportV9Body]
              rw [Out.append_eq_ok hbs rfl, hcb]

/-! ### flowsets -/

/-- the facts about the generated flowset-header layout that the framing needs -/
def v9SetHdrOk (t : Tables) : Bool :=
  allWire t.v9SetHdr &&
  wirePairs t.v9SetHdr 0 == [(t.v9SetHdr.indexOf "flowset_id", 2), (t.v9SetHdr.indexOf "length", 2)]

theorem v9ParseSet_coh (c : Config) (hh : v9SetHdrOk c.t = true) (ids : List Nat) (st st' : PState)
    (i : Bytes) (s : V9Set) (r : Bytes)
    (h : v9ParseSet c st i = (st', .ok (s, r))) (hst : v9StOk c ids st = true)
    (hb : v9BodyOk c ids s.id s.body = true) :
    (∃ bs, exportV9Set c.vc s = .ok bs ∧ bs ++ r = i) ∧ v9StOk c ids st' = true := by
  simp only [v9SetHdrOk, Bool.and_eq_true, beq_iff_eq] at hh
  obtain ⟨hw, hp⟩ := hh
  unfold v9ParseSet at h
  cases hl : parseLayout c.t.protoFromU8 c.t.v9SetHdr i with
  | none => simp [hl] at h
  | some x =>
    obtain ⟨hd, r1⟩ := x
    simp only [hl] at h
    cases ht : takeN (c.t.v9SetHdr.get "length" hd - 4) r1 with
    | none => simp [ht] at h
    | some y =>
      obtain ⟨body, r2⟩ := y
      simp only [ht] at h
      cases hbd : v9ParseBody c st (c.t.v9SetHdr.get "flowset_id" hd) body with
      | mk st2 res =>
        cases res with
        | ok b =>
          simp only [hbd, Prod.mk.injEq, Res.ok.injEq] at h
          obtain ⟨e0, e1, e2⟩ := h
          subst e0 e1 e2
          simp only at hb
          obtain ⟨hx, hst'⟩ := v9ParseBody_coh c ids _ _ _ _ _ hbd hst hb
          refine ⟨⟨(toBE 2 (c.t.v9SetHdr.get "flowset_id" hd) ++ toBE 2 (c.t.v9SetHdr.get "length" hd)) ++ body,
            ?_, ?_⟩, hst'⟩
          · simp only [exportV9Set]
            exact Out.append_eq_ok rfl hx
          · have hc := parseLayout_coh _ _ hw _ _ _ hl
            rw [hp] at hc
            simp only [emitPairs_cons, emitPairs_nil, List.append_nil] at hc
            simp only [Layout.get]
            rw [List.append_assoc, takeN_coh ht]
            exact hc
        | err => simp [hbd] at h
        | panic => simp [hbd] at h
        | overflow => simp [hbd] at h

def v9SetsOk (c : Config) (ids : List Nat) (ss : List V9Set) : Bool :=
  ss.all fun s => v9BodyOk c ids s.id s.body

theorem v9ParseSets_coh (c : Config) (hh : v9SetHdrOk c.t = true) (ids : List Nat) :
    ∀ (n : Nat) (st st' : PState) (i : Bytes) (ss : List V9Set) (r : Bytes),
      v9ParseSets c n st i = (st', .ok (ss, r)) → v9StOk c ids st = true → v9SetsOk c ids ss = true →
      ∃ bs, Out.concat (ss.map (exportV9Set c.vc)) = .ok bs ∧ bs ++ r = i := by
  intro n
  induction n with
  | zero =>
    intro st st' i ss r h _ _
    simp only [v9ParseSets, Prod.mk.injEq, Res.ok.injEq] at h
    obtain ⟨_, e1, e2⟩ := h
    subst e1 e2
    exact ⟨[], rfl, rfl⟩
  | succ n ih =>
    intro st st' i ss r h hst hss
    unfold v9ParseSets at h
    by_cases he : i.isEmpty = true
    · simp only [he, if_true] at h
      exact ih _ _ _ _ _ h hst hss
    · simp only [he, Bool.false_eq_true, ↓reduceIte] at h
      cases hs : v9ParseSet c st i with
      | mk st1 res =>
        cases res with
        | ok sr =>
          obtain ⟨s, r1⟩ := sr
          simp only [hs] at h
          cases hrest : v9ParseSets c n st1 r1 with
          | mk st2 res2 =>
            cases res2 with
            | ok ssr =>
              obtain ⟨ss', r2⟩ := ssr
              simp only [hrest, Prod.mk.injEq, Res.ok.injEq] at h
              obtain ⟨_, e1, e2⟩ := h
              subst e1 e2
              simp only [v9SetsOk, List.all_cons, Bool.and_eq_true] at hss
              obtain ⟨hs1, hs2⟩ := hss
              obtain ⟨⟨b1, hb1, hc1⟩, hst1⟩ := v9ParseSet_coh c hh ids _ _ _ _ _ hs hst hs1
              obtain ⟨b2, hb2, hc2⟩ := ih _ _ _ _ _ hrest hst1 hs2
              refine ⟨b1 ++ b2, ?_, ?_⟩
              · simp only [List.map_cons, Out.concat_cons]
                exact Out.append_eq_ok hb1 hb2
              · rw [List.append_assoc, hc2, hc1]
            | err => simp [hrest] at h
            | panic => simp [hrest] at h
            | overflow => simp [hrest] at h
        | err => simp [hs] at h
        | panic => simp [hs] at h
        | overflow => simp [hs] at h

/-! ### the packet -/

/-- facts about the generated V9 header layout and the emission order of `V9::to_be_bytes`:
    a constant 2-byte `version = 9` field, then wire fields, emitted in layout order at their
    wire widths -/
def v9HdrOk (t : Tables) : Bool :=
  match t.v9Hdr with
  | [] => false
  | f :: fs =>
    f.kind == .const 9 && allWire fs &&
    t.v9HdrOrder.map (fun n => (t.v9Hdr.indexOf n, t.v9Hdr.widthOf n)) == (0, 2) :: wirePairs fs 1

/-- ids of the data flowsets of a decoded packet -/
def v9DataIds : List V9Set → List Nat
  | [] => []
  | s :: ss =>
    match s.body with
    | .data _ _ => s.id :: v9DataIds ss
    | _ => v9DataIds ss

theorem parseV9_coh_ex (c : Config) (hh : v9SetHdrOk c.t = true) (hk : v9HdrOk c.t = true) (ids : List Nat)
    (st st' : PState) (i : Bytes) (h : List Nat) (ss : List V9Set) (rest : Bytes)
    (hp : parseV9 c st i = (st', .ok (.v9 h ss, rest)))
    (hst : v9StOk c ids st = true) (hss : v9SetsOk c ids ss = true) :
    ∃ x, exportV9 c h ss = .ok (toBE 2 9 ++ x) ∧ x ++ rest = i := by
  unfold v9HdrOk at hk
  unfold parseV9 at hp
  cases hlay : c.t.v9Hdr with
  | nil => simp [hlay] at hk
  | cons f fs =>
    simp only [hlay, Bool.and_eq_true, beq_iff_eq] at hk
    obtain ⟨⟨hk1, hk2⟩, hk3⟩ := hk
    cases hl : parseLayout c.t.protoFromU8 c.t.v9Hdr i with
    | none => simp [hl] at hp
    | some x =>
      obtain ⟨hd, r1⟩ := x
      simp only [hl] at hp
      cases hs : v9ParseSets c (c.t.v9Hdr.get "count" hd) st r1 with
      | mk st1 res =>
        cases res with
        | ok ssr =>
          obtain ⟨ss', r2⟩ := ssr
          simp only [hs, Prod.mk.injEq, Res.ok.injEq, Packet.v9.injEq] at hp
          obtain ⟨_, ⟨e1, e2⟩, e3⟩ := hp
          subst e1 e2 e3
          obtain ⟨b2, hb2, hc2⟩ := v9ParseSets_coh c hh ids _ _ _ _ _ _ hs hst hss
          have hl' := hl
          rw [hlay] at hl'
          obtain ⟨hg, hc1⟩ := parseLayout_const_coh _ f fs 9 hk1 hk2 _ _ _ hl'
          have hexp : exportByOrder c.t.v9Hdr c.t.v9HdrOrder hd =
              toBE 2 9 ++ emitPairs hd (wirePairs fs 1) := by
            rw [exportByOrder_eq_emitPairs, hlay, hk3, emitPairs_cons]
            simp only [hg]
          refine ⟨emitPairs hd (wirePairs fs 1) ++ b2, ?_, ?_⟩
          · simp only [exportV9]
            rw [Out.append_eq_ok rfl hb2, hexp, List.append_assoc]
          · rw [List.append_assoc, hc2, hc1]
        | err => simp [hs] at hp
        | panic => simp [hs] at hp
        | overflow => simp [hs] at hp

theorem parseV9_coh (c : Config) (hh : v9SetHdrOk c.t = true) (hk : v9HdrOk c.t = true) (ids : List Nat)
    (st st' : PState) (i : Bytes) (h : List Nat) (ss : List V9Set) (rest : Bytes)
    (hp : parseV9 c st i = (st', .ok (.v9 h ss, rest)))
    (hst : v9StOk c ids st = true) (hss : v9SetsOk c ids ss = true) :
    exportV9 c h ss = .ok (toBE 2 9 ++ i.take (i.length - rest.length)) := by
  obtain ⟨x, hx, hc⟩ := parseV9_coh_ex c hh hk ids st st' i h ss rest hp hst hss
  rw [hx, prefix_eq_take hc]

/-! ### the packet-level class -/

/-- per-flowset condition of the packet-level class (ids = ids of the packet's data flowsets) -/
def v9SetOk (c : Config) (ids : List Nat) (s : V9Set) : Bool :=
  match s.body with
  | .templates ts _ => ts.all (v9TmplOk c ids)
  | .data recs _ => RecsOk c.vc recs
  | .optTemplates _ _ => true
  | .optData _ _ _ => true

/-- THE CLASS on which V9 re-export is byte-exact: every template that can govern one of the
    packet's data flowsets — cached before the packet (`st`) or announced inside it — has only
    statically lossless fields (`LosslessField`), and every decoded data value is `ValueOk`
    (strings free of U+FFFD, protocol numbers that map back).  Template, options-template and
    options-data flowsets are unconstrained. -/
def V9Lossless (c : Config) (st : PState) (ss : List V9Set) : Bool :=
  v9StOk c (v9DataIds ss) st && ss.all (v9SetOk c (v9DataIds ss))

theorem mem_v9DataIds : ∀ (ss : List V9Set) (s : V9Set) (recs : List Rec) (pad : Bytes),
    s ∈ ss → s.body = .data recs pad → s.id ∈ v9DataIds ss := by
  intro ss
  induction ss with
  | nil => intro s _ _ h; cases h
  | cons x xs ih =>
    intro s recs pad hm hb
    simp only [List.mem_cons] at hm
    rcases hm with hm | hm
    · subst hm
      simp only [v9DataIds, hb]
      exact List.mem_cons_self
    · have := ih s recs pad hm hb
      simp only [v9DataIds]
      split
      · exact List.mem_cons_of_mem _ this
      · exact this

theorem v9SetsOk_of_lossless (c : Config) (ss : List V9Set)
    (h : ss.all (v9SetOk c (v9DataIds ss)) = true) : v9SetsOk c (v9DataIds ss) ss = true := by
  simp only [v9SetsOk, List.all_eq_true] at h ⊢
  intro s hs
  have h1 := h s hs
  unfold v9SetOk at h1
  cases hb : s.body with
  | templates ts pad => simp only [hb] at h1; simp only [v9BodyOk]; exact h1
  | optTemplates ts pad => rfl
  | optData a b p => rfl
  | data recs pad =>
    simp only [hb] at h1
    simp only [v9BodyOk, Bool.and_eq_true]
    refine ⟨?_, h1⟩
    simpa using mem_v9DataIds ss s recs pad hs hb

/-- observable of one `parseV9` call: (what `to_be_bytes` returns, the bytes the packet occupied) -/
def v9Reexport (c : Config) (st : PState) (i : Bytes) : Option (Out Bytes × Bytes) :=
  match parseV9 c st i with
  | (_, .ok (.v9 h ss, rest)) => some (exportV9 c h ss, toBE 2 9 ++ i.take (i.length - rest.length))
  | _ => none

end Netflow.A7
