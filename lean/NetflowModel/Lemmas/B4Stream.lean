/-
  Lemmas/B4Stream.lean — helpers for the UNIFIED refinement theorem (Props/C06Refine.lean):
  the parser state represents the exporter-side template memory of BOTH protocols (`Repr`), one
  conformant message of ANY version is decoded as `Spec.expMsg` says (`step`), a call is a chain of
  such messages (`call_chain`), a history is a sequence of calls (`Refines`).

  Glue only: the per-protocol print-then-parse theorems are `C04_partial` (V9), `C05_partial`
  (IPFIX), `B4.parsePacket_enc_v5/_v7` (V5/V7, Lemmas/B4Fixed.lean); the other protocol's
  representation is carried across a message by the frame theorems of C06; the `parse_bytes`
  recursion is handled by the chain lemmas of C11.
-/
import NetflowModel.Lemmas.B4Fixed
import NetflowModel.Props.C04
import NetflowModel.Props.C05
import NetflowModel.Props.C06
import NetflowModel.Props.C11
namespace Netflow.B4
open Netflow Netflow.Spec Netflow.Props

/-! ### the representation relation for both protocols -/

/-- the parser state `st` represents the exporter memory `D`: the V9 caches represent `D.v9`
    (`Repr9`, Lemmas/A5V9Templates.lean), the IPFIX caches represent `D.ip` (`ReprIp`,
    Lemmas/A6IpfixSets.lean).  The two components talk about disjoint parts of `D` and of `st`. -/
structure Repr (D : Defs) (st : PState) : Prop where
  v9 : Repr9 D.v9 st
  ip : ReprIp D.ip st

theorem Repr.empty : Repr {} {} := ⟨Repr9.empty, ReprIp.empty⟩

/-- `Repr9` reads only the two V9 caches -/
theorem Repr9.congr {d : List (Nat × V9Def)} {st st' : PState} (h : Repr9 d st)
    (hT : st'.v9T = st.v9T) (hO : st'.v9O = st.v9O) : Repr9 d st' := by
  obtain ⟨a, b, t, o⟩ := h
  refine ⟨?_, ?_, ?_, ?_⟩
  · rw [hT]; exact a
  · rw [hO]; exact b
  · rw [hT]; exact t
  · rw [hO]; exact o

/-- `ReprIp` reads only the two IPFIX caches -/
theorem ReprIp.congr {d : List (Nat × IpDef)} {st st' : PState} (h : ReprIp d st)
    (hT : st'.ipT = st.ipT) (hO : st'.ipO = st.ipO) : ReprIp d st' := by
  obtain ⟨a, b, l⟩ := h
  refine ⟨?_, ?_, ?_⟩
  · rw [hT]; exact a
  · rw [hO]; exact b
  · intro id
    rw [l id]
    simp only [absIp, hT, hO]

/-! ### frame: the packet kind returned tells which caches may have changed -/

/-- a call of `parse_packet_by_version` that returns a V9 packet leaves the IPFIX caches alone -/
theorem parsePacket_v9_frame {c : Config} {st st' : PState} {buf : Bytes} {h : List Nat} {ss : List V9Set} {rest : Bytes}
    (hp : parsePacket c st buf = (st', .ok (.v9 h ss) rest)) : st'.ipT = st.ipT ∧ st'.ipO = st.ipO := by
  rcases parsePacket_inv c st st' buf _ hp with ⟨_, _, hs⟩ | ⟨v, _, _, _, hs⟩ | ⟨v, _, _, _, _, hs⟩ | ⟨v, kind, hv, ha, hd, hpv⟩
  · simp at hs
  · simp at hs
  · simp at hs
  · rcases parseVersioned_ok_inv hpv with ⟨_, _, _, _, _, e⟩ | ⟨_, _, _, _, _, e⟩ | ⟨_, hp9⟩ | ⟨_, hp10⟩
    · simp at e
    · simp at e
    · have := C06_v9_touches_only_v9 c st (buf.drop 2)
      rw [hp9] at this
      exact this
    · obtain ⟨_, _, _, _, _, _, _, e⟩ := parseIpfix_ok_inv hp10
      simp at e

/-- a call that returns an IPFIX packet leaves the V9 caches alone -/
theorem parsePacket_ipfix_frame {c : Config} {st st' : PState} {buf : Bytes} {h : List Nat} {ss : List IpSet} {rest : Bytes}
    (hp : parsePacket c st buf = (st', .ok (.ipfix h ss) rest)) : st'.v9T = st.v9T ∧ st'.v9O = st.v9O := by
  rcases parsePacket_inv c st st' buf _ hp with ⟨_, _, hs⟩ | ⟨v, _, _, _, hs⟩ | ⟨v, _, _, _, _, hs⟩ | ⟨v, kind, hv, ha, hd, hpv⟩
  · simp at hs
  · simp at hs
  · simp at hs
  · rcases parseVersioned_ok_inv hpv with ⟨_, _, _, _, _, e⟩ | ⟨_, _, _, _, _, e⟩ | ⟨_, hp9⟩ | ⟨_, hp10⟩
    · simp at e
    · simp at e
    · obtain ⟨_, _, _, _, _, e⟩ := parseV9_ok_inv hp9
      simp at e
    · have := C06_ipfix_touches_only_ipfix c st (buf.drop 2)
      rw [hp10] at this
      exact this

/-! ### the specification side: inversion of `expMsg` / `expMsgs` -/

theorem expV9Sets_length (c : Config) (names : List (Nat × String)) :
    ∀ (ss : List V9FS) (d d2 : List (Nat × V9Def)) (outs : List V9Set),
      expV9Sets c names d ss = some (d2, some outs) → outs.length = ss.length := by
  intro ss
  induction ss with
  | nil =>
    intro d d2 outs h
    simp only [expV9Sets, Option.some.injEq, Prod.mk.injEq] at h
    obtain ⟨_, e⟩ := h
    subst e
    rfl
  | cons s ss ih =>
    intro d d2 outs h
    simp only [expV9Sets] at h
    cases h1 : expV9Set c names d s with
    | none => simp [h1] at h
    | some x =>
      obtain ⟨d1, s1⟩ := x
      simp only [h1] at h
      cases h2 : expV9Sets c names d1 ss with
      | none => simp [h2] at h
      | some y =>
        obtain ⟨d3, ss1⟩ := y
        simp only [h2] at h
        cases s1 with
        | none => simp at h
        | some a =>
          cases ss1 with
          | none => simp at h
          | some b =>
            simp only [Option.some.injEq, Prod.mk.injEq] at h
            rw [← h.2, List.length_cons, List.length_cons, ih d1 d3 b h2]

/-- a V9 message changes only the V9 half of the exporter memory, and the expected packet's
    flowset list is as long as the header count says -/
theorem expMsg_v9_inv (c : Config) (names : List (Nat × String)) (D D1 : Defs) (m : V9Msg) (p : Packet)
    (h : expMsg c names D (.v9 m) = some (D1, .pkt p)) :
    ∃ ss, p = .v9 [9, m.count, m.sysUpTime, m.unixSecs, m.seq, m.sourceId] ss ∧ ss.length = m.count ∧ D1.ip = D.ip := by
  simp only [expMsg] at h
  by_cases hc : m.count = m.sets.length
  · simp only [hc, ne_eq, not_true_eq_false, ↓reduceIte] at h
    cases he : expV9Sets c names D.v9 m.sets with
    | none => simp [he] at h
    | some r =>
      obtain ⟨d2, o⟩ := r
      cases o with
      | none => simp [he] at h
      | some outs =>
        simp only [he, Option.some.injEq, Prod.mk.injEq, Exp.pkt.injEq] at h
        obtain ⟨e1, e2⟩ := h
        refine ⟨outs, ?_, ?_, ?_⟩
        · rw [← e2, hc]
        · rw [hc]; exact expV9Sets_length c names _ _ _ _ he
        · rw [← e1]
  · simp only [ne_eq, hc, not_false_eq_true, ↓reduceIte] at h
    simp at h

theorem expMsgs_cons_inv {c : Config} {names : List (Nat × String)} {D D' : Defs} {m : Msg} {ms : List Msg}
    {pkts : List Packet} (h : expMsgs c names D (m :: ms) = some (D', pkts.map .pkt)) :
    ∃ D1 p pkts', pkts = p :: pkts' ∧ expMsg c names D m = some (D1, .pkt p) ∧
      expMsgs c names D1 ms = some (D', pkts'.map .pkt) := by
  simp only [expMsgs] at h
  cases h1 : expMsg c names D m with
  | none => simp [h1] at h
  | some x =>
    obtain ⟨D1, e1⟩ := x
    simp only [h1] at h
    cases h2 : expMsgs c names D1 ms with
    | none => simp [h2] at h
    | some y =>
      obtain ⟨D2, es⟩ := y
      simp only [h2, Option.some.injEq, Prod.mk.injEq] at h
      obtain ⟨e2, e3⟩ := h
      subst e2
      cases pkts with
      | nil => simp at e3
      | cons p pkts' =>
        simp only [List.map_cons, List.cons.injEq] at e3
        obtain ⟨e4, e5⟩ := e3
        subst e4 e5
        exact ⟨D1, p, pkts', rfl, rfl, h2⟩

theorem expMsgs_cons_intro {c : Config} {names : List (Nat × String)} {D D1 D' : Defs} {m : Msg} {ms : List Msg}
    {p : Packet} {pkts : List Packet} (h1 : expMsg c names D m = some (D1, .pkt p))
    (h2 : expMsgs c names D1 ms = some (D', pkts.map .pkt)) :
    expMsgs c names D (m :: ms) = some (D', (p :: pkts).map .pkt) := by
  simp only [expMsgs, h1, h2, List.map_cons]

/-- the specification's fold over a concatenation is the fold over the parts -/
theorem expMsgs_append_inv {c : Config} {names : List (Nat × String)} :
    ∀ (a b : List Msg) (D D' : Defs) (pkts : List Packet),
      expMsgs c names D (a ++ b) = some (D', pkts.map .pkt) →
      ∃ D1 p1 p2, pkts = p1 ++ p2 ∧ expMsgs c names D a = some (D1, p1.map .pkt) ∧
        expMsgs c names D1 b = some (D', p2.map .pkt) := by
  intro a
  induction a with
  | nil =>
    intro b D D' pkts h
    exact ⟨D, [], pkts, rfl, rfl, h⟩
  | cons m a ih =>
    intro b D D' pkts h
    rw [List.cons_append] at h
    obtain ⟨D1, p, pkts', e, h1, h2⟩ := expMsgs_cons_inv h
    obtain ⟨D2, p1, p2, e', h3, h4⟩ := ih b D1 D' pkts' h2
    subst e e'
    exact ⟨D2, p :: p1, p2, rfl, expMsgs_cons_intro h1 h3, h4⟩

theorem expMsgs_append_intro {c : Config} {names : List (Nat × String)} :
    ∀ (a b : List Msg) (D D1 D' : Defs) (p1 p2 : List Packet),
      expMsgs c names D a = some (D1, p1.map .pkt) → expMsgs c names D1 b = some (D', p2.map .pkt) →
      expMsgs c names D (a ++ b) = some (D', (p1 ++ p2).map .pkt) := by
  intro a
  induction a with
  | nil =>
    intro b D D1 D' p1 p2 h1 h2
    simp only [expMsgs, Option.some.injEq, Prod.mk.injEq] at h1
    obtain ⟨e1, e2⟩ := h1
    subst e1
    cases p1 with
    | nil => simpa using h2
    | cons _ _ => simp at e2
  | cons m a ih =>
    intro b D D1 D' p1 p2 h1 h2
    obtain ⟨D2, p, p1', e, h3, h4⟩ := expMsgs_cons_inv h1
    subst e
    rw [List.cons_append, List.cons_append]
    exact expMsgs_cons_intro h3 (ih b D2 D1 D' p1' p2 h4 h2)

/-! ### conformance of messages of all four versions -/

/-- conformance of ONE message relative to the exporter memory before it: the conditions the
    specification's notion of "expected packet" does not impose but the print-then-parse theorems
    need.  V5/V7: `fixedConf` (Lemmas/B4Fixed.lean); V9: `C04Conformant`; IPFIX: `C05Conformant`. -/
def MsgConformant (c : Config) (names : List (Nat × String)) (D : Defs) : Msg → Bool
  | .v5 h rs => fixedConf c names ciscoV5Hdr ciscoV5Rec h rs
  | .v7 h rs => fixedConf c names ciscoV7Hdr ciscoV7Rec h rs
  | .v9 m => C04Conformant c names D.v9 m
  | .ipfix m => C05Conformant c D.ip m
  | .raw _ => false

/-- conformance threaded through a message list: each message is judged against the memory as
    updated by everything before it -/
def MsgsConformant (c : Config) (names : List (Nat × String)) : Defs → List Msg → Bool
  | _, [] => true
  | D, m :: ms =>
    MsgConformant c names D m &&
    (match expMsg c names D m with
     | some (D1, _) => MsgsConformant c names D1 ms
     | none => false)

theorem MsgsConformant_cons_inv {c : Config} {names : List (Nat × String)} {D D1 : Defs} {m : Msg} {ms : List Msg} {e : Exp}
    (h : MsgsConformant c names D (m :: ms) = true) (h1 : expMsg c names D m = some (D1, e)) :
    MsgConformant c names D m = true ∧ MsgsConformant c names D1 ms = true := by
  simpa only [MsgsConformant, h1, Bool.and_eq_true] using h

theorem MsgsConformant_append_inv {c : Config} {names : List (Nat × String)} :
    ∀ (a b : List Msg) (D D1 : Defs) (p1 : List Packet),
      MsgsConformant c names D (a ++ b) = true → expMsgs c names D a = some (D1, p1.map .pkt) →
      MsgsConformant c names D a = true ∧ MsgsConformant c names D1 b = true := by
  intro a
  induction a with
  | nil =>
    intro b D D1 p1 h h1
    simp only [expMsgs, Option.some.injEq, Prod.mk.injEq] at h1
    rw [← h1.1]
    exact ⟨rfl, h⟩
  | cons m a ih =>
    intro b D D1 p1 h h1
    obtain ⟨D2, p, p1', e, h3, h4⟩ := expMsgs_cons_inv h1
    rw [List.cons_append] at h
    obtain ⟨c1, c2⟩ := MsgsConformant_cons_inv h h3
    obtain ⟨c3, c4⟩ := ih b D2 D1 p1' c2 h4
    refine ⟨?_, c4⟩
    simp only [MsgsConformant, h3, c1, c3, Bool.and_self]

/-! ### the side conditions on the tables -/

/-- every (decidable) fact about the configuration that the four print-then-parse theorems and the
    `parse_bytes` chain lemmas use; all hold for the generated tables with the default allowed list
    (`SideConds.generated`) -/
structure SideConds (c : Config) : Prop where
  arms : DnArmsOk c.t.dnArms
  v9Layout : V9LayoutOk c.t
  ipfix : c.t.ipfixOk = true
  noProto : NoProto c
  fixed : fixedTablesOk c.t = true
  framing : c.t.framingOk = true
  a5 : c.allowed.contains 5 = true
  a7 : c.allowed.contains 7 = true
  a9 : c.allowed.contains 9 = true
  a10 : c.allowed.contains 10 = true

theorem SideConds.generated (c : Config) (hc : c.t = Generated.tables) (h5 : c.allowed.contains 5 = true)
    (h7 : c.allowed.contains 7 = true) (h9 : c.allowed.contains 9 = true) (h10 : c.allowed.contains 10 = true) :
    SideConds c :=
  { arms := by rw [hc]; exact dnArmsOk_generated
    v9Layout := by rw [hc]; exact v9LayoutOk_generated
    ipfix := by rw [hc]; exact C05_generated_tables
    noProto := C05_generated_noProto c hc
    fixed := by rw [hc]; exact fixedTablesOk_generated
    framing := by rw [hc]; exact C02_generated_framing
    a5 := h5, a7 := h7, a9 := h9, a10 := h10 }

/-! ### one message -/

/-- what a message of each version may change, on both sides of the refinement -/
def Untouched (m : Msg) (D D' : Defs) (st st' : PState) : Prop :=
  match m with
  | .v9 _ => D'.ip = D.ip ∧ st'.ipT = st.ipT ∧ st'.ipO = st.ipO
  | .ipfix _ => D'.v9 = D.v9 ∧ st'.v9T = st.v9T ∧ st'.v9O = st.v9O
  | _ => D' = D ∧ st' = st

/-- one conformant message of any version, followed by nothing: decoded as expected, both
    representations re-established, the other protocol's half untouched, and the packet satisfies
    C11's count condition -/
theorem step_nil (c : Config) (names : List (Nat × String)) (H : SideConds c)
    (D D' : Defs) (st : PState) (m : Msg) (p : Packet)
    (hR : Repr D st) (hconf : MsgConformant c names D m = true) (hexp : expMsg c names D m = some (D', .pkt p)) :
    ∃ st', parsePacket c st (enc m) = (st', .ok p []) ∧ pktCountOk c p = true ∧ Repr D' st' ∧ Untouched m D D' st st' := by
  cases m with
  | v5 h rs =>
    simp only [expMsg, Option.some.injEq, Prod.mk.injEq, Exp.pkt.injEq] at hexp
    obtain ⟨e1, e2⟩ := hexp
    subst e1 e2
    have := parsePacket_enc_v5 c names H.fixed H.a5 st h rs [] hconf
    rw [List.append_nil] at this
    exact ⟨st, this, rfl, hR, rfl, rfl⟩
  | v7 h rs =>
    simp only [expMsg, Option.some.injEq, Prod.mk.injEq, Exp.pkt.injEq] at hexp
    obtain ⟨e1, e2⟩ := hexp
    subst e1 e2
    have := parsePacket_enc_v7 c names H.fixed H.a7 st h rs [] hconf
    rw [List.append_nil] at this
    exact ⟨st, this, rfl, hR, rfl, rfl⟩
  | v9 m =>
    obtain ⟨st', hp, hR'⟩ := C04_partial c names H.arms H.v9Layout H.a9 D D' st m p [] hR.v9 hexp hconf
    rw [List.append_nil] at hp
    obtain ⟨ss, ep, hlen, hip⟩ := expMsg_v9_inv c names D D' m p hexp
    subst ep
    obtain ⟨f1, f2⟩ := parsePacket_v9_frame hp
    refine ⟨st', hp, ?_, ⟨hR', ?_⟩, hip, f1, f2⟩
    · have hi := H.v9Layout.2.1
      simp [pktCountOk, Layout.get, hi, hlen]
    · rw [hip]; exact ReprIp.congr hR.ip f1 f2
  | ipfix m =>
    have hexp' : expMsg c names ⟨D.v9, D.ip⟩ (.ipfix m) = some (⟨D'.v9, D'.ip⟩, .pkt p) := hexp
    obtain ⟨st', hp, hR'⟩ := C05_partial c H.ipfix H.noProto H.a10 names D.v9 D'.v9 D.ip D'.ip st m p [] hR.ip hconf hexp'
    rw [List.append_nil] at hp
    obtain ⟨ss, _, hv9, ep, _⟩ := expMsg_ipfix_inv c names D D' m p hexp
    subst ep
    obtain ⟨f1, f2⟩ := parsePacket_ipfix_frame hp
    refine ⟨st', hp, rfl, ⟨?_, hR'⟩, hv9, f1, f2⟩
    rw [hv9]; exact Repr9.congr hR.v9 f1 f2
  | raw b => simp [MsgConformant] at hconf

/-- …and followed by ANY bytes (`C11_step`): same packet, same state change, the trailing bytes returned -/
theorem step (c : Config) (names : List (Nat × String)) (H : SideConds c)
    (D D' : Defs) (st : PState) (m : Msg) (p : Packet)
    (hR : Repr D st) (hconf : MsgConformant c names D m = true) (hexp : expMsg c names D m = some (D', .pkt p)) :
    ∃ st', (∀ rest, parsePacket c st (enc m ++ rest) = (st', .ok p rest)) ∧ selfDelimiting c st (enc m) = true ∧
      Repr D' st' ∧ Untouched m D D' st st' := by
  obtain ⟨st', hp, hc, hR', hU⟩ := step_nil c names H D D' st m p hR hconf hexp
  refine ⟨st', fun rest => C11_step c st st' (enc m) p hp hc rest, ?_, hR', hU⟩
  simp [selfDelimiting, hp, hc]

/-! ### one call: a chain of messages -/

/-- a conformant message list, written by `Spec.enc`, is a chain of self-delimiting packets in the
    sense of C11; delivered one message per call it yields exactly the expected packets, and the
    final state represents the final exporter memory -/
theorem call_chain (c : Config) (names : List (Nat × String)) (H : SideConds c) :
    ∀ (ms : List Msg) (D D' : Defs) (st : PState) (pkts : List Packet),
      Repr D st → MsgsConformant c names D ms = true → expMsgs c names D ms = some (D', pkts.map .pkt) →
      ∃ st', chainOk c st (ms.map enc) = true ∧ foldCalls c st (ms.map enc) = (st', pkts) ∧ Repr D' st' := by
  intro ms
  induction ms with
  | nil =>
    intro D D' st pkts hR _ hexp
    simp only [expMsgs, Option.some.injEq, Prod.mk.injEq] at hexp
    obtain ⟨e1, e2⟩ := hexp
    subst e1
    cases pkts with
    | cons _ _ => simp at e2
    | nil => exact ⟨st, rfl, rfl, hR⟩
  | cons m ms ih =>
    intro D D' st pkts hR hconf hexp
    obtain ⟨D1, p, pkts', e, h1, h2⟩ := expMsgs_cons_inv hexp
    subst e
    obtain ⟨c1, c2⟩ := MsgsConformant_cons_inv hconf h1
    obtain ⟨st1, hp, hsd, hR1, _⟩ := step c names H D D1 st m p hR c1 h1
    have hp0 := hp []
    rw [List.append_nil] at hp0
    obtain ⟨st2, hc, hf, hR2⟩ := ih D1 D' st1 pkts' hR1 c2 h2
    refine ⟨st2, ?_, ?_, hR2⟩
    · simp only [List.map_cons, chainOk, hsd, hp0, hc, Bool.and_self]
    · rw [List.map_cons, foldCalls_cons_selfDelimiting c H.framing hp0, hf]

theorem flatten_map_enc (ms : List Msg) : (ms.map enc).flatten = ms.flatMap enc := by
  induction ms with
  | nil => rfl
  | cons m ms ih => simp [ih]

/-- one `parse_bytes` call on the bytes of a conformant message list -/
theorem call_refines (c : Config) (names : List (Nat × String)) (H : SideConds c)
    (ms : List Msg) (D D' : Defs) (st : PState) (pkts : List Packet)
    (hR : Repr D st) (hconf : MsgsConformant c names D ms = true)
    (hexp : expMsgs c names D ms = some (D', pkts.map .pkt)) :
    ∃ st', parseBytes c st (ms.flatMap enc) = (st', .done pkts) ∧ Repr D' st' ∧
      foldCalls c st (ms.map enc) = (st', pkts) := by
  obtain ⟨st', hc, hf, hR'⟩ := call_chain c names H ms D D' st pkts hR hconf hexp
  refine ⟨st', ?_, hR', hf⟩
  have := C11_chain c H.framing st (ms.map enc) hc
  rw [flatten_map_enc, hf] at this
  exact this

/-! ### a history: a sequence of calls -/

/-- the refinement, call by call: call `k` returns exactly the packets the specification expects
    for its messages from the memory `D_{k-1}`, and afterwards the parser state represents `D_k` -/
def Refines (c : Config) (names : List (Nat × String)) : Defs → PState → List (List Msg) → Prop
  | _, _, [] => True
  | D, st, ms :: rest =>
    ∃ D1 pkts st1, expMsgs c names D ms = some (D1, pkts.map .pkt) ∧
      parseBytes c st (ms.flatMap enc) = (st1, .done pkts) ∧ Repr D1 st1 ∧ Refines c names D1 st1 rest

theorem history_refines (c : Config) (names : List (Nat × String)) (H : SideConds c) :
    ∀ (hist : List (List Msg)) (D D' : Defs) (st : PState) (pkts : List Packet),
      Repr D st → MsgsConformant c names D hist.flatten = true →
      expMsgs c names D hist.flatten = some (D', pkts.map .pkt) →
      Refines c names D st hist ∧
      ∃ st', foldCalls c st (hist.map (·.flatMap enc)) = (st', pkts) ∧ Repr D' st' := by
  intro hist
  induction hist with
  | nil =>
    intro D D' st pkts hR _ hexp
    simp only [List.flatten_nil, expMsgs, Option.some.injEq, Prod.mk.injEq] at hexp
    obtain ⟨e1, e2⟩ := hexp
    subst e1
    cases pkts with
    | cons _ _ => simp at e2
    | nil => exact ⟨trivial, st, rfl, hR⟩
  | cons ms hist ih =>
    intro D D' st pkts hR hconf hexp
    rw [List.flatten_cons] at hconf hexp
    obtain ⟨D1, p1, p2, e, h1, h2⟩ := expMsgs_append_inv ms hist.flatten D D' pkts hexp
    subst e
    obtain ⟨c1, c2⟩ := MsgsConformant_append_inv ms hist.flatten D D1 p1 hconf h1
    obtain ⟨st1, hp, hR1, _⟩ := call_refines c names H ms D D1 st p1 hR c1 h1
    obtain ⟨hr, st2, hf, hR2⟩ := ih D1 D' st1 p2 hR1 c2 h2
    refine ⟨⟨D1, p1, st1, h1, hp, hR1, hr⟩, st2, ?_, hR2⟩
    simp only [List.map_cons, foldCalls, hp, Outcome.pkts, hf]

/-! ### decidable packaging of the hypotheses -/

def Exp.pkt? : Exp → Option Packet
  | .pkt p => some p
  | .inexpressible _ => none

def Exp.isPkt : Exp → Bool
  | .pkt _ => true
  | .inexpressible _ => false

theorem filterMap_pkt (pkts : List Packet) : (pkts.map Exp.pkt).filterMap Exp.pkt? = pkts := by
  induction pkts with
  | nil => rfl
  | cons p ps ih => simp [Exp.pkt?, ih]

theorem all_isPkt_elim : ∀ (es : List Exp), es.all Exp.isPkt = true → es = (es.filterMap Exp.pkt?).map .pkt := by
  intro es
  induction es with
  | nil => intro _; rfl
  | cons e es ih =>
    intro h
    simp only [List.all_cons, Bool.and_eq_true] at h
    cases e with
    | pkt p =>
      have : (Exp.pkt p :: es).filterMap Exp.pkt? = p :: es.filterMap Exp.pkt? := by simp [Exp.pkt?]
      rw [this, List.map_cons, ← ih h.2]
    | inexpressible v => simp [Exp.isPkt] at h

/-- the specification expects a packet for every message of the list (none is rejected, none is
    inexpressible in the crate's result types) -/
def expAllPkt (c : Config) (names : List (Nat × String)) (D : Defs) (ms : List Msg) : Bool :=
  match expMsgs c names D ms with
  | some (_, es) => es.all Exp.isPkt
  | none => false

theorem expAllPkt_elim {c : Config} {names : List (Nat × String)} {D : Defs} {ms : List Msg}
    (h : expAllPkt c names D ms = true) :
    ∃ (D' : Defs) (pkts : List Packet), expMsgs c names D ms = some (D', pkts.map .pkt) := by
  unfold expAllPkt at h
  cases he : expMsgs c names D ms with
  | none => simp [he] at h
  | some x =>
    obtain ⟨D', es⟩ := x
    simp only [he] at h
    exact ⟨D', es.filterMap Exp.pkt?, by rw [← all_isPkt_elim es h]⟩

/-- decidable check of the CONCLUSION for one call (used for the `_fails` witnesses): the call
    returns exactly the expected packets -/
def callOk (c : Config) (names : List (Nat × String)) (D : Defs) (st : PState) (ms : List Msg) : Bool :=
  match expMsgs c names D ms with
  | some (_, es) => decide ((parseBytes c st (ms.flatMap enc)).2 = .done (es.filterMap Exp.pkt?))
  | none => true

theorem Refines.callOk {c : Config} {names : List (Nat × String)} {D : Defs} {st : PState} {ms : List Msg}
    {rest : List (List Msg)} (h : Refines c names D st (ms :: rest)) : callOk c names D st ms = true := by
  obtain ⟨D1, pkts, st1, he, hp, _, _⟩ := h
  simp only [B4.callOk, he, hp, filterMap_pkt, decide_true]

/-! ### list bookkeeping for the corollaries -/

theorem expMsgs_length {c : Config} {names : List (Nat × String)} :
    ∀ (ms : List Msg) (D D' : Defs) (es : List Exp), expMsgs c names D ms = some (D', es) → es.length = ms.length := by
  intro ms
  induction ms with
  | nil =>
    intro D D' es h
    simp only [expMsgs, Option.some.injEq, Prod.mk.injEq] at h
    obtain ⟨_, e⟩ := h
    subst e
    rfl
  | cons m ms ih =>
    intro D D' es h
    simp only [expMsgs] at h
    cases h1 : expMsg c names D m with
    | none => simp [h1] at h
    | some x =>
      obtain ⟨D1, e1⟩ := x
      simp only [h1] at h
      cases h2 : expMsgs c names D1 ms with
      | none => simp [h2] at h
      | some y =>
        obtain ⟨D2, es'⟩ := y
        simp only [h2, Option.some.injEq, Prod.mk.injEq] at h
        rw [← h.2, List.length_cons, List.length_cons, ih D1 D2 es' h2]

theorem map_map_enc_flatten (hist : List (List Msg)) :
    (hist.map (fun ms => ms.map enc)).map List.flatten = hist.map (fun ms => ms.flatMap enc) := by
  induction hist with
  | nil => rfl
  | cons ms hist ih => simp only [List.map_cons, ih, flatten_map_enc]

theorem flatten_map_map_enc (hist : List (List Msg)) :
    (hist.map (fun ms => ms.map enc)).flatten = hist.flatten.map enc := by
  induction hist with
  | nil => rfl
  | cons ms hist ih => simp only [List.map_cons, List.flatten_cons, List.map_append, ih]

/-! ### the specification is blind across protocols (for corollary (c) at stream level) -/

def isIpfixMsg : Msg → Bool
  | .ipfix _ => true
  | _ => false

def isIpfixPkt : Packet → Bool
  | .ipfix _ _ => true
  | _ => false

def isV9Msg : Msg → Bool
  | .v9 _ => true
  | _ => false

def isV9Pkt : Packet → Bool
  | .v9 _ _ => true
  | _ => false

/-- the expected view of a V9 message reads and writes only the V9 half of the memory -/
theorem expMsg_v9_ip_irrel (c : Config) (names : List (Nat × String)) (D D1 : Defs) (m : V9Msg) (e : Exp)
    (ip0 : List (Nat × IpDef)) (h : expMsg c names D (.v9 m) = some (D1, e)) :
    expMsg c names ⟨D.v9, ip0⟩ (.v9 m) = some (⟨D1.v9, ip0⟩, e) ∧ D1.ip = D.ip := by
  simp only [expMsg] at h ⊢
  by_cases hc : m.count = m.sets.length
  · simp only [hc, ne_eq, not_true_eq_false, ↓reduceIte] at h ⊢
    cases he : expV9Sets c names D.v9 m.sets with
    | none => simp [he] at h
    | some r =>
      obtain ⟨d2, o⟩ := r
      cases o with
      | none =>
        simp only [he, Option.some.injEq, Prod.mk.injEq] at h ⊢
        obtain ⟨e1, e2⟩ := h
        subst e1 e2
        exact ⟨⟨rfl, rfl⟩, rfl⟩
      | some outs =>
        simp only [he, Option.some.injEq, Prod.mk.injEq] at h ⊢
        obtain ⟨e1, e2⟩ := h
        subst e1 e2
        exact ⟨⟨rfl, rfl⟩, rfl⟩
  · simp only [ne_eq, hc, not_false_eq_true, ↓reduceIte] at h
    simp at h

/-- the expected view of an IPFIX message reads and writes only the IPFIX half of the memory -/
theorem expMsg_ipfix_v9_irrel (c : Config) (names : List (Nat × String)) (D D1 : Defs) (m : IpMsg) (e : Exp)
    (v0 : List (Nat × V9Def)) (h : expMsg c names D (.ipfix m) = some (D1, e)) :
    expMsg c names ⟨v0, D.ip⟩ (.ipfix m) = some (⟨v0, D1.ip⟩, e) ∧ D1.v9 = D.v9 := by
  simp only [expMsg] at h ⊢
  cases he : expIpSets c names D.ip m.sets with
  | none => simp [he] at h
  | some r =>
    obtain ⟨d2, o⟩ := r
    cases o with
    | none =>
      simp only [he, Option.some.injEq, Prod.mk.injEq] at h ⊢
      obtain ⟨e1, e2⟩ := h
      subst e1 e2
      exact ⟨⟨rfl, rfl⟩, rfl⟩
    | some outs =>
      simp only [he, Option.some.injEq, Prod.mk.injEq] at h ⊢
      obtain ⟨e1, e2⟩ := h
      subst e1 e2
      exact ⟨⟨rfl, rfl⟩, rfl⟩

/-- deleting the IPFIX messages from a conformant stream (and replacing the IPFIX memory by anything):
    the specification expects exactly the non-IPFIX packets, and ends in the same V9 memory -/
theorem expMsgs_drop_ipfix (c : Config) (names : List (Nat × String)) (ip0 : List (Nat × IpDef)) :
    ∀ (ms : List Msg) (D D' : Defs) (pkts : List Packet),
      expMsgs c names D ms = some (D', pkts.map .pkt) → MsgsConformant c names D ms = true →
      expMsgs c names ⟨D.v9, ip0⟩ (ms.filter (fun m => !isIpfixMsg m)) =
        some (⟨D'.v9, ip0⟩, (pkts.filter (fun p => !isIpfixPkt p)).map .pkt) ∧
      MsgsConformant c names ⟨D.v9, ip0⟩ (ms.filter (fun m => !isIpfixMsg m)) = true := by
  intro ms
  induction ms with
  | nil =>
    intro D D' pkts h _
    simp only [expMsgs, Option.some.injEq, Prod.mk.injEq] at h
    obtain ⟨e1, e2⟩ := h
    subst e1
    cases pkts with
    | cons _ _ => simp at e2
    | nil => exact ⟨rfl, rfl⟩
  | cons m ms ih =>
    intro D D' pkts h hc
    obtain ⟨D1, p, pkts', e, h1, h2⟩ := expMsgs_cons_inv h
    subst e
    obtain ⟨c1, c2⟩ := MsgsConformant_cons_inv hc h1
    obtain ⟨i1, i2⟩ := ih D1 D' pkts' h2 c2
    cases m with
    | ipfix im =>
      obtain ⟨ss, _, hv9, ep, _⟩ := expMsg_ipfix_inv c names D D1 im p h1
      subst ep
      rw [hv9] at i1 i2
      simpa [isIpfixMsg, isIpfixPkt] using And.intro i1 i2
    | v9 vm =>
      obtain ⟨ss, ep, _, _⟩ := expMsg_v9_inv c names D D1 vm p h1
      obtain ⟨g1, _⟩ := expMsg_v9_ip_irrel c names D D1 vm _ ip0 h1
      subst ep
      have hf : (Msg.v9 vm :: ms).filter (fun m => !isIpfixMsg m) = Msg.v9 vm :: ms.filter (fun m => !isIpfixMsg m) := by
        simp [isIpfixMsg]
      have hg : (Packet.v9 [9, vm.count, vm.sysUpTime, vm.unixSecs, vm.seq, vm.sourceId] ss :: pkts').filter (fun p => !isIpfixPkt p) =
          Packet.v9 [9, vm.count, vm.sysUpTime, vm.unixSecs, vm.seq, vm.sourceId] ss :: pkts'.filter (fun p => !isIpfixPkt p) := by
        simp [isIpfixPkt]
      rw [hf, hg]
      refine ⟨expMsgs_cons_intro g1 i1, ?_⟩
      have c1' : MsgConformant c names ⟨D.v9, ip0⟩ (.v9 vm) = true := c1
      simp only [MsgsConformant, g1, c1', i2, Bool.and_self]
    | v5 hd rs =>
      simp only [expMsg, Option.some.injEq, Prod.mk.injEq, Exp.pkt.injEq] at h1
      obtain ⟨e1, e2⟩ := h1
      subst e1 e2
      have g1 : expMsg c names ⟨D.v9, ip0⟩ (.v5 hd rs) = some (⟨D.v9, ip0⟩, .pkt (.v5 (expFixedVals names c.t.v5Hdr (ciscoV5Hdr.drop 2) 5 rs.length hd)
                 (rs.map (expFixedVals names c.t.v5Rec ciscoV5Rec 5 0)))) := rfl
      have c1' : MsgConformant c names ⟨D.v9, ip0⟩ (.v5 hd rs) = true := c1
      have hf : (Msg.v5 hd rs :: ms).filter (fun m => !isIpfixMsg m) = Msg.v5 hd rs :: ms.filter (fun m => !isIpfixMsg m) := by
        simp [isIpfixMsg]
      rw [hf]
      simp only [isIpfixPkt, Bool.not_false, List.filter_cons_of_pos]
      refine ⟨expMsgs_cons_intro g1 i1, ?_⟩
      simp only [MsgsConformant, g1, c1', i2, Bool.and_self]
    | v7 hd rs =>
      simp only [expMsg, Option.some.injEq, Prod.mk.injEq, Exp.pkt.injEq] at h1
      obtain ⟨e1, e2⟩ := h1
      subst e1 e2
      have g1 : expMsg c names ⟨D.v9, ip0⟩ (.v7 hd rs) = some (⟨D.v9, ip0⟩, .pkt (.v7 (expFixedVals names c.t.v7Hdr (ciscoV7Hdr.drop 2) 7 rs.length hd)
                 (rs.map (expFixedVals names c.t.v7Rec ciscoV7Rec 7 0)))) := rfl
      have c1' : MsgConformant c names ⟨D.v9, ip0⟩ (.v7 hd rs) = true := c1
      have hf : (Msg.v7 hd rs :: ms).filter (fun m => !isIpfixMsg m) = Msg.v7 hd rs :: ms.filter (fun m => !isIpfixMsg m) := by
        simp [isIpfixMsg]
      rw [hf]
      simp only [isIpfixPkt, Bool.not_false, List.filter_cons_of_pos]
      refine ⟨expMsgs_cons_intro g1 i1, ?_⟩
      simp only [MsgsConformant, g1, c1', i2, Bool.and_self]
    | raw b => simp [MsgConformant] at c1

/-- symmetric: deleting the V9 messages (and replacing the V9 memory by anything) -/
theorem expMsgs_drop_v9 (c : Config) (names : List (Nat × String)) (v0 : List (Nat × V9Def)) :
    ∀ (ms : List Msg) (D D' : Defs) (pkts : List Packet),
      expMsgs c names D ms = some (D', pkts.map .pkt) → MsgsConformant c names D ms = true →
      expMsgs c names ⟨v0, D.ip⟩ (ms.filter (fun m => !isV9Msg m)) =
        some (⟨v0, D'.ip⟩, (pkts.filter (fun p => !isV9Pkt p)).map .pkt) ∧
      MsgsConformant c names ⟨v0, D.ip⟩ (ms.filter (fun m => !isV9Msg m)) = true := by
  intro ms
  induction ms with
  | nil =>
    intro D D' pkts h _
    simp only [expMsgs, Option.some.injEq, Prod.mk.injEq] at h
    obtain ⟨e1, e2⟩ := h
    subst e1
    cases pkts with
    | cons _ _ => simp at e2
    | nil => exact ⟨rfl, rfl⟩
  | cons m ms ih =>
    intro D D' pkts h hc
    obtain ⟨D1, p, pkts', e, h1, h2⟩ := expMsgs_cons_inv h
    subst e
    obtain ⟨c1, c2⟩ := MsgsConformant_cons_inv hc h1
    obtain ⟨i1, i2⟩ := ih D1 D' pkts' h2 c2
    cases m with
    | v9 vm =>
      obtain ⟨ss, ep, _, hip⟩ := expMsg_v9_inv c names D D1 vm p h1
      subst ep
      rw [hip] at i1 i2
      simpa [isV9Msg, isV9Pkt] using And.intro i1 i2
    | ipfix im =>
      obtain ⟨ss, _, _, ep, _⟩ := expMsg_ipfix_inv c names D D1 im p h1
      obtain ⟨g1, _⟩ := expMsg_ipfix_v9_irrel c names D D1 im _ v0 h1
      subst ep
      have hf : (Msg.ipfix im :: ms).filter (fun m => !isV9Msg m) = Msg.ipfix im :: ms.filter (fun m => !isV9Msg m) := by
        simp [isV9Msg]
      have hg : (Packet.ipfix [10, (encIpfix im).length, im.exportTime, im.seq, im.odid] ss :: pkts').filter (fun p => !isV9Pkt p) =
          Packet.ipfix [10, (encIpfix im).length, im.exportTime, im.seq, im.odid] ss :: pkts'.filter (fun p => !isV9Pkt p) := by
        simp [isV9Pkt]
      rw [hf, hg]
      refine ⟨expMsgs_cons_intro g1 i1, ?_⟩
      have c1' : MsgConformant c names ⟨v0, D.ip⟩ (.ipfix im) = true := c1
      simp only [MsgsConformant, g1, c1', i2, Bool.and_self]
    | v5 hd rs =>
      simp only [expMsg, Option.some.injEq, Prod.mk.injEq, Exp.pkt.injEq] at h1
      obtain ⟨e1, e2⟩ := h1
      subst e1 e2
      have g1 : expMsg c names ⟨v0, D.ip⟩ (.v5 hd rs) = some (⟨v0, D.ip⟩, .pkt (.v5 (expFixedVals names c.t.v5Hdr (ciscoV5Hdr.drop 2) 5 rs.length hd)
                 (rs.map (expFixedVals names c.t.v5Rec ciscoV5Rec 5 0)))) := rfl
      have c1' : MsgConformant c names ⟨v0, D.ip⟩ (.v5 hd rs) = true := c1
      have hf : (Msg.v5 hd rs :: ms).filter (fun m => !isV9Msg m) = Msg.v5 hd rs :: ms.filter (fun m => !isV9Msg m) := by
        simp [isV9Msg]
      rw [hf]
      simp only [isV9Pkt, Bool.not_false, List.filter_cons_of_pos]
      refine ⟨expMsgs_cons_intro g1 i1, ?_⟩
      simp only [MsgsConformant, g1, c1', i2, Bool.and_self]
    | v7 hd rs =>
      simp only [expMsg, Option.some.injEq, Prod.mk.injEq, Exp.pkt.injEq] at h1
      obtain ⟨e1, e2⟩ := h1
      subst e1 e2
      have g1 : expMsg c names ⟨v0, D.ip⟩ (.v7 hd rs) = some (⟨v0, D.ip⟩, .pkt (.v7 (expFixedVals names c.t.v7Hdr (ciscoV7Hdr.drop 2) 7 rs.length hd)
                 (rs.map (expFixedVals names c.t.v7Rec ciscoV7Rec 7 0)))) := rfl
      have c1' : MsgConformant c names ⟨v0, D.ip⟩ (.v7 hd rs) = true := c1
      have hf : (Msg.v7 hd rs :: ms).filter (fun m => !isV9Msg m) = Msg.v7 hd rs :: ms.filter (fun m => !isV9Msg m) := by
        simp [isV9Msg]
      rw [hf]
      simp only [isV9Pkt, Bool.not_false, List.filter_cons_of_pos]
      refine ⟨expMsgs_cons_intro g1 i1, ?_⟩
      simp only [MsgsConformant, g1, c1', i2, Bool.and_self]
    | raw b => simp [MsgConformant] at c1

end Netflow.B4
