/-
  Lemmas/P4Short.lean — helpers for Props/C14b.lean: a packet that is SHORTER THAN ITS OWN HEADER
  ANNOUNCES is rejected by `parse_packet_by_version`, without assuming that some longer buffer is
  accepted (Props/C14.lean cuts an accepted packet; here only the packet's header is looked at).

  * `Layout.wireAt` / `wireAt_get`: "field `name` is the `w`-byte big-endian number at byte offset
    `off`" as a decidable fact about a generated layout;
  * `Tables.announceOk`: the V9 / IPFIX header facts used (discharged for `Generated.tables` by `decide`);
  * `parseIpfix_short_raw`, `v9ParseSet_short_raw`: raw-byte closed forms of the two `take`s;
  * `v9ParseSets_after`: the flowset loop after `k` complete flowsets;
  * `parseV9_short_after`, `parsePacket_*_short`: packet level;
  * `parseBytes_short_after_chain`: a rejected packet after a chain of accepted ones.
-/
import NetflowModel.Lemmas.A3Local
import NetflowModel.Lemmas.A1Layout
namespace Netflow
open Preds

/-! ### a named field sits at a byte offset -/

/-- field `name` of `lay` is a `.wire w` field, the wire widths in front of it add up to `off`, and
    names are distinct (decidable) -/
def Layout.wireAt (lay : Layout) (name : String) (off w : Nat) : Bool :=
  lay.namesNodup &&
  match lay[lay.indexOf name]? with
  | some f => f.name == name && f.kind == .wire w && Layout.wireLen (lay.take (lay.indexOf name)) == off
  | none => false

/-- the decoded value of such a field is the big-endian number at that offset of the input -/
theorem wireAt_get (proto : Nat → Nat) {lay : Layout} {name : String} {off w : Nat}
    (hw : lay.wireAt name off w = true) {i : Bytes} {vals : List Nat} {r : Bytes}
    (h : parseLayout proto lay i = some (vals, r)) :
    lay.get name vals = beNat ((i.drop off).take w) := by
  unfold Layout.wireAt at hw
  simp only [Bool.and_eq_true] at hw
  obtain ⟨hnd, hm⟩ := hw
  cases hf : lay[lay.indexOf name]? with
  | none => simp [hf] at hm
  | some f =>
    simp only [hf, Bool.and_eq_true, beq_iff_eq] at hm
    obtain ⟨⟨hn, hk⟩, ho⟩ := hm
    obtain ⟨hj, hfe⟩ := List.getElem?_eq_some_iff.mp hf
    have := parseLayout_get_wire proto lay hnd i vals r h (lay.indexOf name) w hj (by rw [hfe]; exact hk)
    rw [hfe, hn, ho] at this
    exact this

/-- the header facts used by the announced-length theorems: the V9 header is 18 bytes after the
    version word and `count` is its first word; the flowset header is 4 bytes and `length` its
    second word; the IPFIX header is 14 bytes after the version word and `length` is its first word -/
def Tables.announceOk (t : Tables) : Bool :=
  t.v9Hdr.wireLen == 18 && t.v9Hdr.wireAt "count" 0 2 &&
  t.v9SetHdr.wireLen == 4 && t.v9SetHdr.wireAt "length" 2 2 &&
  t.ipHdr.wireLen == 14 && t.ipHdr.wireAt "length" 0 2

theorem Tables.announceOk_inv {t : Tables} (h : t.announceOk = true) :
    t.v9Hdr.wireLen = 18 ∧ t.v9Hdr.wireAt "count" 0 2 = true ∧
    t.v9SetHdr.wireLen = 4 ∧ t.v9SetHdr.wireAt "length" 2 2 = true ∧
    t.ipHdr.wireLen = 14 ∧ t.ipHdr.wireAt "length" 0 2 = true := by
  simp only [Tables.announceOk, Bool.and_eq_true, beq_iff_eq] at h
  obtain ⟨⟨⟨⟨⟨a, b⟩, c⟩, d⟩, e⟩, f⟩ := h
  exact ⟨a, b, c, d, e, f⟩

/-! ### IPFIX: the message length -/

/-- **raw-byte closed form**: `i` = the bytes after the version word.  Fewer than 14 of them, or
    fewer than `length - 16` after the 14 (`length` = the first word of `i`) ⇒ error, caches untouched -/
theorem parseIpfix_short_raw (c : Config) (ha : c.t.announceOk = true) (st : PState) (i : Bytes)
    (hs : i.length < 14 ∨ i.length - 14 < beNat (i.take 2) - 16) :
    parseIpfix c st i = (st, .err) := by
  obtain ⟨_, _, _, _, hw, hl⟩ := Tables.announceOk_inv ha
  unfold parseIpfix
  by_cases h14 : i.length < 14
  · have := (parseLayout_none_iff c.t.protoFromU8 c.t.ipHdr i).2 (by omega)
    simp [this]
  · have hs' : i.length - 14 < beNat (i.take 2) - 16 := by omega
    obtain ⟨hd, hp⟩ := parseLayout_isSome c.t.protoFromU8 c.t.ipHdr i (by omega)
    have hg := wireAt_get c.t.protoFromU8 hl hp
    simp only [List.drop_zero] at hg
    simp only [hp]
    have : takeN (c.t.ipHdr.get "length" hd - 16) (i.drop c.t.ipHdr.wireLen) = none := by
      apply takeN_short
      rw [List.length_drop, hg, hw]
      exact hs'
    simp [this]

/-! ### V9: one flowset -/

/-- **raw-byte closed form**: fewer than 4 bytes, or fewer than `length - 4` bytes after the 4-byte
    flowset header (`length` = the second word) ⇒ error, caches untouched -/
theorem v9ParseSet_short_raw (c : Config) (ha : c.t.announceOk = true) (st : PState) (i : Bytes)
    (hs : i.length < 4 ∨ i.length - 4 < beNat ((i.drop 2).take 2) - 4) :
    v9ParseSet c st i = (st, .err) := by
  obtain ⟨_, _, hw, hl, _, _⟩ := Tables.announceOk_inv ha
  unfold v9ParseSet
  by_cases h4 : i.length < 4
  · have := (parseLayout_none_iff c.t.protoFromU8 c.t.v9SetHdr i).2 (by omega)
    simp [this]
  · have hs' : i.length - 4 < beNat ((i.drop 2).take 2) - 4 := by omega
    obtain ⟨hd, hp⟩ := parseLayout_isSome c.t.protoFromU8 c.t.v9SetHdr i (by omega)
    have hg := wireAt_get c.t.protoFromU8 hl hp
    simp only [hp]
    have : takeN (c.t.v9SetHdr.get "length" hd - 4) (i.drop c.t.v9SetHdr.wireLen) = none := by
      apply takeN_short
      rw [List.length_drop, hg, hw]
      exact hs'
    simp [this]

/-! ### V9: the flowset loop after `k` complete flowsets -/

/-- if the first `k` iterations decode the `k` flowsets of `i1` (every iteration got one) and leave
    `r`, then a loop of `k + n` iterations on `i1 ++ b` behaves, from iteration `k` on, like a loop
    of `n` iterations on `r ++ b` in the state reached — here for the case where that loop fails -/
theorem v9ParseSets_after (c : Config) :
    ∀ (k : Nat) (st st1 : PState) (i1 : Bytes) (ss : List V9Set) (r : Bytes),
      v9ParseSets c k st i1 = (st1, .ok (ss, r)) → ss.length = k →
      ∀ (n : Nat) (b : Bytes) (st2 : PState), v9ParseSets c n st1 (r ++ b) = (st2, .err) →
        v9ParseSets c (k + n) st (i1 ++ b) = (st2, .err) := by
  intro k
  induction k with
  | zero =>
    intro st st1 i1 ss r h _ n b st2 hn
    simp only [v9ParseSets, Prod.mk.injEq, Res.ok.injEq] at h
    obtain ⟨e1, _, e3⟩ := h
    subst e1 e3
    rw [Nat.zero_add]
    exact hn
  | succ k ih =>
    intro st st1 i1 ss r h hl n b st2 hn
    by_cases hne : i1 = []
    · subst hne
      rw [v9ParseSets_nil] at h
      simp only [Prod.mk.injEq, Res.ok.injEq] at h
      rw [← h.2.1] at hl
      simp at hl
    · obtain ⟨sa, s, r1, ss', h1, h2, e⟩ := v9ParseSets_succ_ok_inv hne h
      subst e
      have hne' : i1 ++ b ≠ [] := by simp [hne]
      have h3 := ih _ _ _ _ _ h2 (by simpa using hl) n b st2 hn
      rw [show k + 1 + n = (k + n) + 1 by omega]
      exact v9ParseSets_succ_err_intro hne' (v9ParseSet_ext c _ _ _ _ _ h1 b) h3

/-- the loop fails at a non-empty input whose first flowset is short, whatever the count `≥ 1` -/
theorem v9ParseSets_short_here (c : Config) (ha : c.t.announceOk = true) (n : Nat) (st : PState) (i : Bytes)
    (hne : i ≠ []) (hs : i.length < 4 ∨ i.length - 4 < beNat ((i.drop 2).take 2) - 4) :
    v9ParseSets c (n + 1) st i = (st, .err) :=
  v9ParseSets_succ_err_here hne (v9ParseSet_short_raw c ha st i hs)

/-- **the flowset loop, general form**: `k` complete flowsets `i1` (decoded by `k` iterations with
    nothing left over), then a non-empty `i2` whose flowset header is incomplete or announces more
    than `i2` holds, and a header count above `k`: the loop fails; the state is the one reached
    after the `k` flowsets -/
theorem v9ParseSets_short_after (c : Config) (ha : c.t.announceOk = true) (k cnt : Nat) (st st1 : PState)
    (i1 i2 : Bytes) (ss : List V9Set)
    (h1 : v9ParseSets c k st i1 = (st1, .ok (ss, []))) (hl : ss.length = k) (hk : k < cnt)
    (hne : i2 ≠ []) (hs : i2.length < 4 ∨ i2.length - 4 < beNat ((i2.drop 2).take 2) - 4) :
    v9ParseSets c cnt st (i1 ++ i2) = (st1, .err) := by
  obtain ⟨n, rfl⟩ : ∃ n, cnt = k + (n + 1) := ⟨cnt - k - 1, by omega⟩
  exact v9ParseSets_after c k st st1 i1 ss [] h1 hl (n + 1) i2 st1
    (by rw [List.nil_append]; exact v9ParseSets_short_here c ha n st1 i2 hne hs)

/-! ### V9 packet (input after the version word) -/

theorem parseV9_hdr_short (c : Config) (st : PState) (i : Bytes) (hs : i.length < c.t.v9Hdr.wireLen) :
    parseV9 c st i = (st, .err) := by
  have := (parseLayout_none_iff c.t.protoFromU8 c.t.v9Hdr i).2 hs
  unfold parseV9
  simp [this]

/-- header complete (18 bytes `hb`, count = its first word), `k < count` complete flowsets `i1`,
    then the short flowset `i2` -/
theorem parseV9_short_after (c : Config) (ha : c.t.announceOk = true) (k : Nat) (st st1 : PState)
    (hb i1 i2 : Bytes) (ss : List V9Set) (hhb : hb.length = 18)
    (h1 : v9ParseSets c k st i1 = (st1, .ok (ss, []))) (hl : ss.length = k) (hk : k < beNat (hb.take 2))
    (hne : i2 ≠ []) (hs : i2.length < 4 ∨ i2.length - 4 < beNat ((i2.drop 2).take 2) - 4) :
    parseV9 c st (hb ++ (i1 ++ i2)) = (st1, .err) := by
  obtain ⟨hw, hc, _, _, _, _⟩ := Tables.announceOk_inv ha
  obtain ⟨hd, hp⟩ := parseLayout_isSome c.t.protoFromU8 c.t.v9Hdr (hb ++ (i1 ++ i2))
    (by rw [List.length_append]; omega)
  have hg := wireAt_get c.t.protoFromU8 hc hp
  have ht : (hb ++ (i1 ++ i2)).take 2 = hb.take 2 := by
    rw [List.take_append_of_le_length (by omega)]
  have hdrop : (hb ++ (i1 ++ i2)).drop c.t.v9Hdr.wireLen = i1 ++ i2 := by
    rw [hw, ← hhb, List.drop_left]
  simp only [List.drop_zero, ht] at hg
  rw [hdrop] at hp
  have h2 := v9ParseSets_short_after c ha k (c.t.v9Hdr.get "count" hd) st st1 i1 i2 ss h1 hl (by rw [hg]; exact hk) hne hs
  unfold parseV9
  simp only [hp, h2]

/-! ### packet level: `parse_packet_by_version` -/

theorem parsePacket_dispatch (c : Config) (st : PState) {buf body : Bytes} {v kind : Nat}
    (hv : beU 2 buf = some (v, body)) (ha : c.allowed.contains v = true) (hd : c.t.dispatch.lookup v = some kind) :
    parsePacket c st buf = parseVersioned c st kind body := by
  unfold parsePacket
  simp only [hv, ha, ↓reduceIte, hd]

theorem parsePacket_ipfix_short (c : Config) (hao : c.t.announceOk = true) (st : PState) (buf body : Bytes)
    (hv : beU 2 buf = some (10, body)) (ha : c.allowed.contains 10 = true) (hd : c.t.dispatch.lookup 10 = some 10)
    (hs : body.length < 14 ∨ body.length - 14 < beNat (body.take 2) - 16) :
    parsePacket c st buf = (st, .fail (.partialParse 10 body)) := by
  rw [parsePacket_dispatch c st hv ha hd, parseVersioned_10, parseIpfix_short_raw c hao st body hs]
  rfl

theorem parsePacket_v9_hdr_short (c : Config) (hao : c.t.announceOk = true) (st : PState) (buf body : Bytes)
    (hv : beU 2 buf = some (9, body)) (ha : c.allowed.contains 9 = true) (hd : c.t.dispatch.lookup 9 = some 9)
    (hs : body.length < 18) :
    parsePacket c st buf = (st, .fail (.partialParse 9 body)) := by
  obtain ⟨hw, _⟩ := Tables.announceOk_inv hao
  rw [parsePacket_dispatch c st hv ha hd, parseVersioned_9, parseV9_hdr_short c st body (by omega)]
  rfl

theorem parsePacket_v9_short_after (c : Config) (hao : c.t.announceOk = true) (k : Nat) (st st1 : PState)
    (buf hb i1 i2 : Bytes) (ss : List V9Set)
    (hv : beU 2 buf = some (9, hb ++ (i1 ++ i2))) (ha : c.allowed.contains 9 = true)
    (hd : c.t.dispatch.lookup 9 = some 9) (hhb : hb.length = 18)
    (h1 : v9ParseSets c k st i1 = (st1, .ok (ss, []))) (hl : ss.length = k) (hk : k < beNat (hb.take 2))
    (hne : i2 ≠ []) (hs : i2.length < 4 ∨ i2.length - 4 < beNat ((i2.drop 2).take 2) - 4) :
    parsePacket c st buf = (st1, .fail (.partialParse 9 (hb ++ (i1 ++ i2)))) := by
  rw [parsePacket_dispatch c st hv ha hd, parseVersioned_9,
    parseV9_short_after c hao k st st1 hb i1 i2 ss hhb h1 hl hk hne hs]
  rfl

/-! ### `parse_bytes`: a rejected packet alone and after a chain of accepted ones -/

theorem ne_nil_of_beU {w v : Nat} {buf body : Bytes} (hw : 0 < w) (hv : beU w buf = some (v, body)) : buf ≠ [] := by
  have := (beU_some hv).1
  intro e
  subst e
  simp at this
  omega

/-- a chain of self-delimiting packets followed by a buffer that `parse_packet_by_version` rejects:
    the chain's packets, then one error whose `remaining` is exactly the rejected buffer -/
theorem parseBytes_short_after_chain (c : Config) (hf : c.t.framingOk = true) (st : PState) (qs : List Bytes)
    (hq : chainOk c st qs = true) {p : Bytes} {st2 : PState} {e : ErrKind} (hne : p ≠ [])
    (hp : parsePacket c (foldCalls c st qs).1 p = (st2, .fail e)) :
    parseBytes c st (qs.flatten ++ p) = (st2, .done ((foldCalls c st qs).2 ++ [.error e p])) := by
  rw [parseBytes_chain_append c hf qs st hq p, parseBytes_fail c hne hp]
  rfl

/-! ### the antecedent of C14, as a decidable predicate on the bytes after the version word -/

/-- **"the buffer ends before the end announced by the packet's own header"**, for a packet of
    version `v` whose bytes after the version word are `body`:
    * V5 / V7: the 22 header bytes are incomplete, or fewer than `22 + 48 * count` (V7: `52`) bytes,
      `count` = the first word of `body`;
    * IPFIX: the 14 header bytes are incomplete, or the whole buffer (`|body| + 2`) is shorter than
      the message length = the first word of `body`;
    * V9: the 18 header bytes are incomplete, or `count ≥ 1`, something follows the header, and the
      first flowset's 4-byte header is incomplete or its `length - 4` (the word at offset 20 of
      `body`) exceeds the bytes that follow it.
    (A V9 buffer that ends exactly after the header or between flowsets is NOT covered: the crate
    accepts it as a shorter packet, see `C14_anyCut_fails`, `C11_noCountHyp_fails`.) -/
def announcedShort (v : Nat) (body : Bytes) : Bool :=
  (v == 5 && (decide (body.length < 22) || decide (body.length < 22 + 48 * beNat (body.take 2)))) ||
  (v == 7 && (decide (body.length < 22) || decide (body.length < 22 + 52 * beNat (body.take 2)))) ||
  (v == 10 && (decide (body.length < 14) || decide (body.length + 2 < beNat (body.take 2)))) ||
  (v == 9 && (decide (body.length < 18) ||
    (decide (1 ≤ beNat (body.take 2)) && decide (18 < body.length) &&
      (decide (body.length < 22) || decide (body.length - 22 < beNat ((body.drop 20).take 2) - 4)))))

theorem announcedShort_cases {v : Nat} {body : Bytes} (h : announcedShort v body = true) :
    (v = 5 ∧ (body.length < 22 ∨ body.length < 22 + 48 * beNat (body.take 2))) ∨
    (v = 7 ∧ (body.length < 22 ∨ body.length < 22 + 52 * beNat (body.take 2))) ∨
    (v = 10 ∧ (body.length < 14 ∨ body.length + 2 < beNat (body.take 2))) ∨
    (v = 9 ∧ (body.length < 18 ∨ (1 ≤ beNat (body.take 2) ∧ 18 < body.length ∧
      (body.length < 22 ∨ body.length - 22 < beNat ((body.drop 20).take 2) - 4)))) := by
  simpa only [announcedShort, Bool.or_eq_true, Bool.and_eq_true, beq_iff_eq, decide_eq_true_eq, or_assoc, and_assoc] using h

end Netflow
