/-
  Lemmas/B3CostTop.lean — V5/V7, the version dispatch and the packet loop of `parse_bytes`:
  summation of the per-stage bounds.
-/
import NetflowModel.Lemmas.B3CostIp
import NetflowModel.Lemmas.Consume
namespace Netflow.B3
open Netflow Cost

/-- what the linear bound needs from the generated tables: every V5/V7 record and every
    V9/IPFIX set header occupies at least one byte (48, 52, 4, 4 in `Generated.tables`). -/
def costOk (t : Tables) : Bool :=
  decide (1 ≤ t.v5Rec.wireLen) && decide (1 ≤ t.v7Rec.wireLen) &&
  decide (1 ≤ t.v9SetHdr.wireLen) && decide (1 ≤ t.ipSetHdr.wireLen)

theorem costOk_iff (t : Tables) : costOk t = true ↔
    1 ≤ t.v5Rec.wireLen ∧ 1 ≤ t.v7Rec.wireLen ∧ 1 ≤ t.v9SetHdr.wireLen ∧ 1 ≤ t.ipSetHdr.wireLen := by
  simp only [costOk, Bool.and_eq_true, decide_eq_true_eq, and_assoc]

/-! ### V5 / V7 -/

/-- `count(FlowSet::parse, header.count)` : every record that is returned was present -/
theorem parseFixed_len (c : Config) (hdr rec : Layout) (i : Bytes) (h : List Nat) (rs : List (List Nat)) (r : Bytes)
    (hp : parseFixed c hdr rec i = some ((h, rs), r)) :
    r.length + hdr.wireLen + rec.wireLen * rs.length = i.length ∧ rs.length = hdr.get "count" h := by
  obtain ⟨a1, a2, a3⟩ := parseFixed_consumes c hdr rec i h rs r hp
  subst a2
  refine ⟨?_, a3⟩
  rw [a3, List.length_drop]
  omega

theorem parseFixed_count_le (c : Config) (hdr rec : Layout) (hw : 1 ≤ rec.wireLen) (i : Bytes) (h : List Nat)
    (rs : List (List Nat)) (r : Bytes) (hp : parseFixed c hdr rec i = some ((h, rs), r)) :
    r.length + rs.length ≤ i.length := by
  obtain ⟨a1, _⟩ := parseFixed_len c hdr rec i h rs r hp
  have : rs.length ≤ rec.wireLen * rs.length := Nat.le_mul_of_pos_left _ hw
  omega

/-! ### version dispatch -/

theorem liftRes_ok {v : Nat} {body : Bytes} {res : Res (Packet × Bytes)} {p : Packet} {r : Bytes}
    (h : liftRes v body res = .ok p r) : res = .ok (p, r) := by
  cases res with
  | ok x => obtain ⟨p', r'⟩ := x; simp only [liftRes, Step.ok.injEq] at h; rw [h.1, h.2]
  | err => simp [liftRes] at h
  | panic => simp [liftRes] at h
  | overflow => simp [liftRes] at h

theorem liftRes_fail {v : Nat} {body : Bytes} {res : Res (Packet × Bytes)} {e : ErrKind}
    (h : liftRes v body res = .fail e) : e = .partialParse v body := by
  cases res with
  | ok x => obtain ⟨p', r'⟩ := x; simp [liftRes] at h
  | err => simp only [liftRes, Step.fail.injEq] at h; exact h.symm
  | panic => simp [liftRes] at h
  | overflow => simp [liftRes] at h

theorem parseVersioned_cost (c : Config) (hc : costOk c.t = true) (st st' : PState) (kind : Nat) (body : Bytes)
    (p : Packet) (r : Bytes) (hH : Honest st = true)
    (h : parseVersioned c st kind body = (st', .ok p r)) (hb : honestPkt p = true) :
    Honest st' = true ∧ packetSize p + 115 * r.length ≤ 64 + 115 * body.length := by
  obtain ⟨c5, c7, c9, c10⟩ := (costOk_iff c.t).1 hc
  unfold parseVersioned at h
  by_cases h5 : kind = 5
  · rw [if_pos h5] at h
    cases hp : parseFixed c c.t.v5Hdr c.t.v5Rec body with
    | none => simp [hp] at h
    | some x =>
      obtain ⟨⟨hd, rs⟩, r1⟩ := x
      simp only [hp, Prod.mk.injEq, Step.ok.injEq] at h
      obtain ⟨e0, e1, e2⟩ := h
      subst e0 e1 e2
      have := parseFixed_count_le c _ _ c5 _ _ _ _ hp
      simp only [packetSize]
      exact ⟨hH, by omega⟩
  · rw [if_neg h5] at h
    by_cases h7 : kind = 7
    · rw [if_pos h7] at h
      cases hp : parseFixed c c.t.v7Hdr c.t.v7Rec body with
      | none => simp [hp] at h
      | some x =>
        obtain ⟨⟨hd, rs⟩, r1⟩ := x
        simp only [hp, Prod.mk.injEq, Step.ok.injEq] at h
        obtain ⟨e0, e1, e2⟩ := h
        subst e0 e1 e2
        have := parseFixed_count_le c _ _ c7 _ _ _ _ hp
        simp only [packetSize]
        exact ⟨hH, by omega⟩
    · rw [if_neg h7] at h
      by_cases h9 : kind = 9
      · rw [if_pos h9] at h
        simp only [Prod.mk.injEq] at h
        obtain ⟨e0, e1⟩ := h
        have e2 := liftRes_ok e1
        have : parseV9 c st body = (st', .ok (p, r)) := by rw [← e0, ← e2]
        exact parseV9_cost c c9 _ _ _ _ _ hH this hb
      · rw [if_neg h9] at h
        by_cases h10 : kind = 10
        · rw [if_pos h10] at h
          simp only [Prod.mk.injEq] at h
          obtain ⟨e0, e1⟩ := h
          have e2 := liftRes_ok e1
          have : parseIpfix c st body = (st', .ok (p, r)) := by rw [← e0, ← e2]
          exact parseIpfix_cost c c10 _ _ _ _ _ hH this hb
        · rw [if_neg h10] at h
          simp at h

/-- a failing dispatch reports the bytes after the version field (once) -/
theorem parseVersioned_fail (c : Config) (st st' : PState) (kind : Nat) (body : Bytes) (e : ErrKind)
    (h : parseVersioned c st kind body = (st', .fail e)) : errSize e ≤ 96 + body.length := by
  unfold parseVersioned at h
  by_cases h5 : kind = 5
  · rw [if_pos h5] at h
    cases hp : parseFixed c c.t.v5Hdr c.t.v5Rec body with
    | none =>
      simp only [hp, Prod.mk.injEq, Step.fail.injEq] at h
      rw [← h.2]; simp [errSize]
    | some x => obtain ⟨⟨hd, rs⟩, r1⟩ := x; simp [hp] at h
  · rw [if_neg h5] at h
    by_cases h7 : kind = 7
    · rw [if_pos h7] at h
      cases hp : parseFixed c c.t.v7Hdr c.t.v7Rec body with
      | none =>
        simp only [hp, Prod.mk.injEq, Step.fail.injEq] at h
        rw [← h.2]; simp [errSize]
      | some x => obtain ⟨⟨hd, rs⟩, r1⟩ := x; simp [hp] at h
    · rw [if_neg h7] at h
      by_cases h9 : kind = 9
      · rw [if_pos h9] at h
        simp only [Prod.mk.injEq] at h
        rw [liftRes_fail h.2]; simp [errSize]
      · rw [if_neg h9] at h
        by_cases h10 : kind = 10
        · rw [if_pos h10] at h
          simp only [Prod.mk.injEq] at h
          rw [liftRes_fail h.2]; simp [errSize]
        · rw [if_neg h10] at h
          simp only [Prod.mk.injEq, Step.fail.injEq] at h
          rw [← h.2]; simp only [errSize]; omega

theorem drop2_len {buf : Bytes} {v : Nat} (h : beU 2 buf = some (v, buf.drop 2)) :
    (buf.drop 2).length + 2 = buf.length := beU_len h

/-- one packet that parses: 115 per byte consumed (the 64 bytes of the enum are paid for by the
    two version bytes) -/
theorem parsePacket_ok_cost (c : Config) (hc : costOk c.t = true) (st st' : PState) (buf : Bytes)
    (p : Packet) (rest : Bytes) (hH : Honest st = true)
    (h : parsePacket c st buf = (st', .ok p rest)) (hb : honestPkt p = true) :
    Honest st' = true ∧ packetSize p + 115 * rest.length ≤ 115 * buf.length := by
  rcases parsePacket_inv c st st' buf _ h with ⟨_, _, e⟩ | ⟨_, _, _, _, e⟩ | ⟨_, _, _, _, _, e⟩ | ⟨v, kind, hv, _, _, hp⟩
  · cases e
  · cases e
  · cases e
  · obtain ⟨a1, a2⟩ := parseVersioned_cost c hc _ _ _ _ _ _ hH hp hb
    have := drop2_len hv
    exact ⟨a1, by omega⟩

/-- the error element copies the remaining bytes twice -/
theorem parsePacket_fail_cost (c : Config) (st st' : PState) (buf : Bytes) (e : ErrKind)
    (h : parsePacket c st buf = (st', .fail e)) :
    packetSize (.error e buf) ≤ 160 + 2 * buf.length := by
  simp only [packetSize]
  rcases parsePacket_inv c st st' buf _ h with ⟨_, _, e1⟩ | ⟨_, _, _, _, e1⟩ | ⟨v, hv, _, _, _, e1⟩ | ⟨v, kind, hv, _, _, hp⟩
  · simp only [Step.fail.injEq] at e1; subst e1; simp only [errSize]; omega
  · cases e1
  · simp only [Step.fail.injEq] at e1; subst e1
    have := drop2_len hv
    simp only [errSize]; omega
  · have := parseVersioned_fail c _ _ _ _ _ hp
    have := drop2_len hv
    omega

/-! ### the packet loop -/

theorem Outcome_cons_done {p : Packet} {out : Outcome} {pkts : List Packet} (h : out.cons p = .done pkts) :
    ∃ ps, out = .done ps ∧ pkts = p :: ps := by
  cases out with
  | done ps => simp only [Outcome.cons, Outcome.done.injEq] at h; exact ⟨ps, rfl, h.symm⟩
  | panic ps => simp [Outcome.cons] at h
  | overflow ps => simp [Outcome.cons] at h

/-- summation over the packets of one buffer -/
theorem parseBytesF_cost (c : Config) (hc : costOk c.t = true) :
    ∀ (fuel : Nat) (st st' : PState) (buf : Bytes) (pkts : List Packet), Honest st = true →
      parseBytesF c fuel st buf = (st', .done pkts) → HonestPkts pkts = true →
      (pkts.map packetSize).sum ≤ 115 * buf.length + 160 := by
  intro fuel
  induction fuel with
  | zero => intro st st' buf pkts _ h _; simp [parseBytesF] at h
  | succ fuel ih =>
    intro st st' buf pkts hH h hb
    simp only [parseBytesF] at h
    by_cases he : buf.isEmpty = true
    · simp only [he, ↓reduceIte, Prod.mk.injEq, Outcome.done.injEq] at h
      rw [← h.2]; simp
    · simp only [he, Bool.false_eq_true, ↓reduceIte] at h
      cases hp : parsePacket c st buf with
      | mk st1 step =>
        cases step with
        | ok pkt rest =>
          simp only [hp] at h
          by_cases hr : rest.isEmpty = true
          · simp only [hr, ↓reduceIte, Prod.mk.injEq, Outcome.done.injEq] at h
            obtain ⟨_, e⟩ := h
            subst e
            simp only [HonestPkts, List.all_cons, List.all_nil, Bool.and_true] at hb
            obtain ⟨_, a2⟩ := parsePacket_ok_cost c hc _ _ _ _ _ hH hp hb
            simp only [List.map_cons, List.map_nil, List.sum_cons, List.sum_nil]
            omega
          · simp only [hr, Bool.false_eq_true, ↓reduceIte] at h
            cases hrec : parseBytesF c fuel st1 rest with
            | mk st2 out =>
              simp only [hrec, Prod.mk.injEq] at h
              obtain ⟨_, e⟩ := h
              obtain ⟨ps, e1, e2⟩ := Outcome_cons_done e
              subst e1 e2
              simp only [HonestPkts, List.all_cons, Bool.and_eq_true] at hb
              obtain ⟨a1, a2⟩ := parsePacket_ok_cost c hc _ _ _ _ _ hH hp hb.1
              have := ih _ _ _ _ a1 hrec hb.2
              simp only [List.map_cons, List.sum_cons]
              omega
        | fail e =>
          simp only [hp, Prod.mk.injEq, Outcome.done.injEq] at h
          obtain ⟨_, e1⟩ := h
          subst e1
          have := parsePacket_fail_cost c _ _ _ _ hp
          simp only [List.map_cons, List.map_nil, List.sum_cons, List.sum_nil]
          omega
        | unallowed =>
          simp only [hp, Prod.mk.injEq, Outcome.done.injEq] at h
          rw [← h.2]; simp
        | panic => simp [hp] at h
        | overflow => simp [hp] at h

end Netflow.B3
