/-
  Lemmas/J1Utf8.lean — every string in the JSON value of a parse result is valid UTF-8 (C16, text level).

  1. `ValidUtf8` (core's `ByteArray.IsValidUTF8`) of one-, two-, three- and four-byte sequences under exactly the
     admissibility conditions the model of `String::from_utf8_lossy` checks (`ok3`, `ok4`, `isCont`), of U+FFFD, hence
     of every output of `utf8Lossy` (`validUtf8_lossy`); of ASCII byte strings, hence of `macText`;
  2. parser invariant: every `FieldValue.str` in a packet returned by `parseBytes` is valid UTF-8
     (`parseBytes_strs`, through `A2State.parseBytesF_all`);
  3. `toJ` traversal: every string leaf of `toJ c nm p` is valid UTF-8 (`leaves_toJ`).
-/
import NetflowModel.Lemmas.J1Text
import NetflowModel.Lemmas.B1Json
open Netflow Netflow.JText
namespace Netflow.J1

/-! ### valid UTF-8 sequences -/

theorem ofNat_val (v : Nat) (h : v < 0xD800 ∨ (0xDFFF < v ∧ v < 0x110000)) : (Char.ofNat v).val.toNat = v := by
  have hv : v.isValidChar := h
  simp only [Char.ofNat, hv, ↓reduceDIte, Char.ofNatAux]
  simp [UInt32.toNat_ofNatLT]

theorem validUtf8_append {a b : Bytes} (ha : ValidUtf8 a) (hb : ValidUtf8 b) : ValidUtf8 (a ++ b) := by
  obtain ⟨s, hs⟩ := (validUtf8_iff a).1 ha
  obtain ⟨t, ht⟩ := (validUtf8_iff b).1 hb
  exact (validUtf8_iff _).2 ⟨s ++ t, by simp [utf8Of, ← hs, ← ht]⟩

theorem validUtf8_nil : ValidUtf8 [] := (validUtf8_iff _).2 ⟨[], rfl⟩

theorem validUtf8_char (c : Char) : ValidUtf8 (String.utf8EncodeChar c) :=
  (validUtf8_iff _).2 ⟨[c], by simp [utf8Of]⟩

theorem valid1 (b : UInt8) (h : b.toNat < 128) : ValidUtf8 [b] := by
  have := validUtf8_char (Char.ofNat b.toNat)
  have hv := ofNat_val b.toNat (by omega)
  simp only [String.utf8EncodeChar, hv] at this
  rw [if_pos (by omega)] at this
  simpa using this

theorem valid2 (b c : UInt8) (hb : 0xC2 ≤ b.toNat ∧ b.toNat ≤ 0xDF) (hc : 0x80 ≤ c.toNat ∧ c.toNat ≤ 0xBF) :
    ValidUtf8 [b, c] := by
  have := validUtf8_char (Char.ofNat ((b.toNat - 0xC0) * 64 + (c.toNat - 0x80)))
  have hv := ofNat_val ((b.toNat - 0xC0) * 64 + (c.toNat - 0x80)) (by omega)
  simp only [String.utf8EncodeChar, hv] at this
  rw [if_neg (by omega), if_pos (by omega)] at this
  have e1 : ((b.toNat - 0xC0) * 64 + (c.toNat - 0x80)) / 64 % 0x20 + 0xc0 = b.toNat := by omega
  have e2 : ((b.toNat - 0xC0) * 64 + (c.toNat - 0x80)) % 0x40 + 0x80 = c.toNat := by omega
  rw [e1, e2] at this
  simpa using this


theorem valid3 (b c d : UInt8) (h : ok3 b c = true) (hd : isCont d = true) : ValidUtf8 [b, c, d] := by
  simp only [ok3, Bool.or_eq_true, Bool.and_eq_true, decide_eq_true_eq] at h
  simp only [isCont, decide_eq_true_eq] at hd
  have hb := b.toNat_lt
  have hc := c.toNat_lt
  have hdl := d.toNat_lt
  have := validUtf8_char (Char.ofNat ((b.toNat - 0xE0) * 4096 + (c.toNat - 0x80) * 64 + (d.toNat - 0x80)))
  have hv := ofNat_val ((b.toNat - 0xE0) * 4096 + (c.toNat - 0x80) * 64 + (d.toNat - 0x80)) (by omega)
  simp only [String.utf8EncodeChar, hv] at this
  rw [if_neg (by omega), if_neg (by omega), if_pos (by omega)] at this
  have e1 : ((b.toNat - 0xE0) * 4096 + (c.toNat - 0x80) * 64 + (d.toNat - 0x80)) / 4096 % 0x10 + 0xe0 = b.toNat := by omega
  have e2 : ((b.toNat - 0xE0) * 4096 + (c.toNat - 0x80) * 64 + (d.toNat - 0x80)) / 64 % 0x40 + 0x80 = c.toNat := by omega
  have e3 : ((b.toNat - 0xE0) * 4096 + (c.toNat - 0x80) * 64 + (d.toNat - 0x80)) % 0x40 + 0x80 = d.toNat := by omega
  rw [e1, e2, e3] at this
  simpa using this

theorem valid4 (b c d e : UInt8) (h : ok4 b c = true) (hd : isCont d = true) (he : isCont e = true) :
    ValidUtf8 [b, c, d, e] := by
  simp only [ok4, Bool.or_eq_true, Bool.and_eq_true, decide_eq_true_eq] at h
  simp only [isCont, decide_eq_true_eq] at hd he
  have hb := b.toNat_lt
  have hc := c.toNat_lt
  have hdl := d.toNat_lt
  have hel := e.toNat_lt
  have := validUtf8_char (Char.ofNat ((b.toNat - 0xF0) * 262144 + (c.toNat - 0x80) * 4096 + (d.toNat - 0x80) * 64 + (e.toNat - 0x80)))
  have hv := ofNat_val ((b.toNat - 0xF0) * 262144 + (c.toNat - 0x80) * 4096 + (d.toNat - 0x80) * 64 + (e.toNat - 0x80)) (by omega)
  simp only [String.utf8EncodeChar, hv] at this
  rw [if_neg (by omega), if_neg (by omega), if_neg (by omega)] at this
  have e1 : ((b.toNat - 0xF0) * 262144 + (c.toNat - 0x80) * 4096 + (d.toNat - 0x80) * 64 + (e.toNat - 0x80)) / 262144 % 0x08 + 0xf0 = b.toNat := by omega
  have e2 : ((b.toNat - 0xF0) * 262144 + (c.toNat - 0x80) * 4096 + (d.toNat - 0x80) * 64 + (e.toNat - 0x80)) / 4096 % 0x40 + 0x80 = c.toNat := by omega
  have e3 : ((b.toNat - 0xF0) * 262144 + (c.toNat - 0x80) * 4096 + (d.toNat - 0x80) * 64 + (e.toNat - 0x80)) / 64 % 0x40 + 0x80 = d.toNat := by omega
  have e4 : ((b.toNat - 0xF0) * 262144 + (c.toNat - 0x80) * 4096 + (d.toNat - 0x80) * 64 + (e.toNat - 0x80)) % 0x40 + 0x80 = e.toNat := by omega
  rw [e1, e2, e3, e4] at this
  simpa using this

theorem valid_repl : ValidUtf8 replChar := by
  have := valid3 0xEF 0xBF 0xBD (by decide) (by decide)
  exact this


theorem validUtf8_cons1 {b : UInt8} {r : Bytes} (h : b.toNat < 128) (hr : ValidUtf8 r) : ValidUtf8 (b :: r) :=
  validUtf8_append (valid1 b h) hr
theorem validUtf8_cons2 {b c : UInt8} {r : Bytes} (h : ValidUtf8 [b, c]) (hr : ValidUtf8 r) : ValidUtf8 (b :: c :: r) :=
  validUtf8_append h hr
theorem validUtf8_cons3 {b c d : UInt8} {r : Bytes} (h : ValidUtf8 [b, c, d]) (hr : ValidUtf8 r) :
    ValidUtf8 (b :: c :: d :: r) := validUtf8_append h hr
theorem validUtf8_cons4 {b c d e : UInt8} {r : Bytes} (h : ValidUtf8 [b, c, d, e]) (hr : ValidUtf8 r) :
    ValidUtf8 (b :: c :: d :: e :: r) := validUtf8_append h hr

/-- the model of `String::from_utf8_lossy` only produces valid UTF-8 -/
theorem validUtf8_lossyF : ∀ (f : Nat) (bs : Bytes), ValidUtf8 (utf8LossyF f bs) := by
  intro f
  induction f with
  | zero => intro bs; rw [show utf8LossyF 0 bs = [] from rfl]; exact validUtf8_nil
  | succ f ih =>
    intro bs
    cases bs with
    | nil => rw [utf8LossyF]; exact validUtf8_nil
    | cons b rest =>
      unfold utf8LossyF
      simp only
      split
      · next h => exact validUtf8_cons1 h (ih _)
      split
      · next h2 =>
        simp only [Bool.and_eq_true, decide_eq_true_eq] at h2
        split
        · next c r1 =>
          split
          · next hc =>
            refine validUtf8_cons2 (valid2 b c h2 ?_) (ih _)
            simp only [isCont, decide_eq_true_eq] at hc
            have := c.toNat_lt
            omega
          · exact validUtf8_append valid_repl (ih _)
        · exact valid_repl
      split
      · split
        · next c r1 =>
          split
          · next h3 =>
            split
            · next d r2 =>
              split
              · next hd => exact validUtf8_cons3 (valid3 b c d h3 hd) (ih _)
              · exact validUtf8_append valid_repl (ih _)
            · exact valid_repl
          · exact validUtf8_append valid_repl (ih _)
        · exact valid_repl
      split
      · split
        · next c r1 =>
          split
          · next h4 =>
            split
            · next d r2 =>
              split
              · next hd =>
                split
                · next e r3 =>
                  split
                  · next he => exact validUtf8_cons4 (valid4 b c d e h4 hd he) (ih _)
                  · exact validUtf8_append valid_repl (ih _)
                · exact valid_repl
              · exact validUtf8_append valid_repl (ih _)
            · exact valid_repl
          · exact validUtf8_append valid_repl (ih _)
        · exact valid_repl
      · exact validUtf8_append valid_repl (ih _)

theorem validUtf8_lossy (bs : Bytes) : ValidUtf8 (utf8Lossy bs) := validUtf8_lossyF _ bs

theorem validUtf8_ascii : ∀ (b : Bytes), (∀ x ∈ b, x.toNat < 128) → ValidUtf8 b
  | [], _ => validUtf8_nil
  | x :: r, h => validUtf8_cons1 (h x (by simp)) (validUtf8_ascii r (fun y hy => h y (by simp [hy])))

theorem macText_ascii : ∀ (raw : Bytes), ∀ x ∈ macText raw, x.toNat < 128
  | [], x, hx => by rw [B1.macText_nil] at hx; cases hx
  | [a], x, hx => by
    have hd : ∀ n, n < 16 → ((hexDigitUpper n).toNat.toUInt8).toNat < 128 := by decide
    have := a.toNat_lt
    rw [B1.macText_one, B1.macPair] at hx
    simp only [List.mem_cons, List.not_mem_nil, or_false] at hx
    rcases hx with rfl | rfl
    · exact hd _ (by omega)
    · exact hd _ (by omega)
  | a :: b :: r, x, hx => by
    have hd : ∀ n, n < 16 → ((hexDigitUpper n).toNat.toUInt8).toNat < 128 := by decide
    have := a.toNat_lt
    rw [B1.macText_cons2, B1.macPair] at hx
    simp only [List.cons_append, List.nil_append, List.mem_cons] at hx
    rcases hx with rfl | rfl | rfl | hx
    · exact hd _ (by omega)
    · exact hd _ (by omega)
    · decide
    · exact macText_ascii (b :: r) x hx

theorem validUtf8_macText (raw : Bytes) : ValidUtf8 (macText raw) :=
  validUtf8_ascii _ (macText_ascii raw)

/-! ### parser invariant: decoded strings are valid UTF-8 -/

def FvValid : FieldValue → Prop
  | .str s => ValidUtf8 s
  | _ => True

def RecValid (r : Rec) : Prop := ∀ e ∈ r, FvValid e.2.2

def V9StrOk : V9Body → Prop
  | .data recs _ => ∀ r ∈ recs, RecValid r
  | _ => True

def IpStrOk : IpBody → Prop
  | .data recs _ => ∀ r ∈ recs, RecValid r
  | .optData recs _ => ∀ r ∈ recs, RecValid r
  | _ => True

theorem parseValue_valid {vc : ValueCfg} {ty : FType} {len : Nat} {i : Bytes} {v : FieldValue} {r : Bytes}
    (h : parseValue vc ty len i = some (v, r)) : FvValid v := by
  unfold parseValue at h
  cases ty <;> simp only at h
  case str =>
    cases ht : takeN len i with
    | none => simp [ht] at h
    | some x =>
      simp only [ht, Option.some.injEq, Prod.mk.injEq] at h
      rw [← h.1]; exact validUtf8_lossy _
  all_goals
    repeat' split at h
    all_goals first
      | (simp only [Option.some.injEq, Prod.mk.injEq, reduceCtorEq] at h; obtain ⟨rfl, _⟩ := h; exact True.intro)
      | simp at h

theorem v9ParseRec_valid (c : Config) : ∀ (fields : List TField) (idx : Nat) (i : Bytes) (rec : Rec) (r : Bytes),
    v9ParseRec c fields idx i = some (rec, r) → RecValid rec := by
  intro fields
  induction fields with
  | nil =>
    intro idx i rec r h
    simp only [v9ParseRec, Option.some.injEq, Prod.mk.injEq] at h
    rw [← h.1]; intro e he; cases he
  | cons f fs ih =>
    intro idx i rec r h
    unfold v9ParseRec at h
    cases hv : parseValue c.vc (c.t.v9Ty (c.t.v9Field f.typ)) f.len i with
    | none => simp [hv] at h
    | some vr =>
      obtain ⟨v, r1⟩ := vr
      simp only [hv] at h
      cases hr : v9ParseRec c fs (idx + 1) r1 with
      | none => simp [hr] at h
      | some er =>
        obtain ⟨es, r2⟩ := er
        simp only [hr, Option.some.injEq, Prod.mk.injEq] at h
        have h1 := ih _ _ _ _ hr
        rw [← h.1]
        intro e he
        simp only [List.mem_cons] at he
        rcases he with rfl | he
        · exact parseValue_valid hv
        · exact h1 e he

theorem ipParseValue_valid {c : Config} {f : IpTField} {i : Bytes} {v : FieldValue} {r : Bytes}
    (h : ipParseValue c f i = some (v, r)) : FvValid v := by
  unfold ipParseValue at h
  cases hl : ipFieldLength f i with
  | none => simp [hl] at h
  | some lr =>
    obtain ⟨len, r1⟩ := lr
    simp only [hl] at h
    cases he : f.ent with
    | some e =>
      simp only [he] at h
      cases ht : takeN len r1 with
      | none => simp [ht] at h
      | some br =>
        simp only [ht, Option.some.injEq, Prod.mk.injEq] at h
        rw [← h.1]; exact True.intro
    | none =>
      simp only [he] at h
      exact parseValue_valid h

theorem ipParseRec_valid (c : Config) : ∀ (fields : List IpTField) (idx : Nat) (i : Bytes) (recs : List Rec) (r : Bytes),
    ipParseRec c fields idx i = some (recs, r) → ∀ rec ∈ recs, RecValid rec := by
  intro fields
  induction fields with
  | nil =>
    intro idx i recs r h
    simp only [ipParseRec, Option.some.injEq, Prod.mk.injEq] at h
    rw [← h.1]; intro e he; cases he
  | cons f fs ih =>
    intro idx i recs r h
    unfold ipParseRec at h
    cases hv : ipParseValue c f i with
    | none => simp [hv] at h
    | some vr =>
      obtain ⟨v, r1⟩ := vr
      simp only [hv] at h
      cases hr : ipParseRec c fs (idx + 1) r1 with
      | none => simp [hr] at h
      | some er =>
        obtain ⟨es, r2⟩ := er
        simp only [hr, Option.some.injEq, Prod.mk.injEq] at h
        have h1 := ih _ _ _ _ hr
        rw [← h.1]
        intro rec hrec
        simp only [List.mem_cons] at hrec
        rcases hrec with rfl | hrec
        · intro e he
          simp only [List.mem_cons, List.not_mem_nil, or_false] at he
          subst he
          exact ipParseValue_valid hv
        · exact h1 rec hrec

theorem ipRecLoop_valid (c : Config) (fs : List IpTField) : ∀ (fuel : Nat) (i : Bytes) (recs : List Rec) (r : Bytes),
    ipRecLoop c fs fuel i = .ok (recs, r) → ∀ rec ∈ recs, RecValid rec := by
  intro fuel
  induction fuel with
  | zero => intro i recs r h; simp [ipRecLoop] at h
  | succ fuel ih =>
    intro i recs r h
    unfold ipRecLoop at h
    cases hp : ipParseRec c fs 0 i with
    | none => simp [hp] at h
    | some er =>
      obtain ⟨es, r1⟩ := er
      have hes := ipParseRec_valid c _ _ _ _ _ hp
      simp only [hp] at h
      split at h
      · simp only [Res.ok.injEq, Prod.mk.injEq] at h; rw [← h.1]; exact hes
      · split at h
        · cases hr : ipRecLoop c fs fuel r1 with
          | ok mr =>
            obtain ⟨more, r2⟩ := mr
            simp only [hr, Res.ok.injEq, Prod.mk.injEq] at h
            rw [← h.1]
            intro rec hrec
            rcases List.mem_append.mp hrec with h' | h'
            · exact hes rec h'
            · exact ih _ _ _ hr rec h'
          | err => simp [hr] at h
          | panic => simp [hr] at h
          | overflow => simp [hr] at h
        · simp only [Res.ok.injEq, Prod.mk.injEq] at h; rw [← h.1]; exact hes

theorem v9ParseBody_valid (c : Config) (st st' : PState) (id : Nat) (body : Bytes) (b : V9Body)
    (h : v9ParseBody c st id body = (st', .ok b)) : V9StrOk b := by
  unfold v9ParseBody at h
  repeat' split at h
  all_goals simp only [Prod.mk.injEq, Res.ok.injEq, reduceCtorEq, and_false] at h
  all_goals try (obtain ⟨_, rfl⟩ := h; exact True.intro)
  next t _ =>
    split at h
    · simp at h
    · simp only [Prod.mk.injEq, Res.ok.injEq] at h
      obtain ⟨_, rfl⟩ := h
      apply B1.v9RecLoop_all c t.fields RecValid
      · intro i rec r hr
        exact v9ParseRec_valid c _ _ _ _ _ hr
      · simp

theorem ipParseBody_valid (c : Config) (st st' : PState) (id : Nat) (body : Bytes) (b : IpBody)
    (h : ipParseBody c st id body = (st', .ok b)) : IpStrOk b := by
  unfold ipParseBody at h
  repeat' split at h
  all_goals simp only [Prod.mk.injEq, Res.ok.injEq, reduceCtorEq, and_false] at h
  all_goals try (obtain ⟨_, rfl⟩ := h; exact True.intro)
  · next t _ _ _ _ heq =>
      obtain ⟨_, rfl⟩ := h
      exact ipRecLoop_valid c _ _ _ _ _ heq
  · next t _ _ _ _ heq =>
      obtain ⟨_, rfl⟩ := h
      exact ipRecLoop_valid c _ _ _ _ _ heq

/-- every string field value in every packet `parseBytes` returns is valid UTF-8 -/
theorem parseBytes_strs (c : Config) (st st' : PState) (buf : Bytes) (ps : List Packet)
    (h : parseBytes c st buf = (st', .done ps)) : ∀ p ∈ ps, PktAll V9StrOk IpStrOk p :=
  parseBytesF_all (v9ParseBody_valid c) (ipParseBody_valid c) _ _ _ _ _ h

/-! ### `toJ` traversal -/

/-- all string leaves valid UTF-8 (no condition on floats) -/
abbrev LV (v : JVal) : Prop := Leaves (fun _ => True) ValidUtf8 v

theorem leavesL_map {α : Type} (P : Nat → Prop) (Q : Bytes → Prop) (f : α → JVal) :
    ∀ (xs : List α), (∀ x ∈ xs, Leaves P Q (f x)) → LeavesL P Q (xs.map f)
  | [], _ => by rw [List.map_nil, LeavesL]; trivial
  | x :: xs, h => by
    rw [List.map_cons, LeavesL]
    exact ⟨h x (by simp), leavesL_map P Q f xs (fun y hy => h y (by simp [hy]))⟩

theorem leavesM_map {α : Type} (P : Nat → Prop) (Q : Bytes → Prop) (f : α → String × JVal) :
    ∀ (xs : List α), (∀ x ∈ xs, Leaves P Q (f x).2) → LeavesM P Q (xs.map f)
  | [], _ => by rw [List.map_nil, LeavesM]; trivial
  | x :: xs, h => by
    rw [List.map_cons, LeavesM]
    exact ⟨h x (by simp), leavesM_map P Q f xs (fun y hy => h y (by simp [hy]))⟩

theorem leavesM_append (P : Nat → Prop) (Q : Bytes → Prop) : ∀ (xs ys : List (String × JVal)),
    LeavesM P Q xs → LeavesM P Q ys → LeavesM P Q (xs ++ ys)
  | [], ys, _, h => by simpa using h
  | x :: xs, ys, h1, h2 => by
    rw [LeavesM] at h1
    rw [List.cons_append, LeavesM]
    exact ⟨h1.1, leavesM_append P Q xs ys h1.2 h2⟩

theorem lv_num (z : Int) : LV (.num z) := by rw [LV, Leaves]; trivial
theorem lv_anyStr : LV .anyStr := by rw [LV, Leaves]; trivial
theorem lv_strJ (s : String) : LV (strJ s) := by rw [LV, strJ, Leaves]; exact validUtf8_string s
theorem lv_nameOf (tbl : List (Nat × String)) (d : Nat) : LV (nameOf tbl d) := lv_strJ _
theorem lv_arr_map {α : Type} (f : α → JVal) (xs : List α) (h : ∀ x ∈ xs, LV (f x)) : LV (.arr (xs.map f)) := by
  rw [LV, Leaves]; exact leavesL_map _ _ f xs h
theorem lv_obj_map {α : Type} (f : α → String × JVal) (xs : List α) (h : ∀ x ∈ xs, LV (f x).2) :
    LV (.obj (xs.map f)) := by
  rw [LV, Leaves]; exact leavesM_map _ _ f xs h
theorem lv_bytesJ (b : Bytes) : LV (bytesJ b) := lv_arr_map _ b (fun _ _ => lv_num _)

theorem lv_obj1 (k : String) (v : JVal) (h : LV v) : LV (.obj [(k, v)]) := by
  rw [LV, Leaves, LeavesM, LeavesM]; exact ⟨h, trivial⟩
theorem lv_obj2 (k1 k2 : String) (v1 v2 : JVal) (h1 : LV v1) (h2 : LV v2) : LV (.obj [(k1, v1), (k2, v2)]) := by
  rw [LV, Leaves, LeavesM, LeavesM, LeavesM]; exact ⟨h1, h2, trivial⟩
theorem lv_obj3 (k1 k2 k3 : String) (v1 v2 v3 : JVal) (h1 : LV v1) (h2 : LV v2) (h3 : LV v3) :
    LV (.obj [(k1, v1), (k2, v2), (k3, v3)]) := by
  rw [LV, Leaves, LeavesM, LeavesM, LeavesM, LeavesM]; exact ⟨h1, h2, h3, trivial⟩
theorem lv_arr2 (v1 v2 : JVal) (h1 : LV v1) (h2 : LV v2) : LV (.arr [v1, v2]) := by
  rw [LV, Leaves, LeavesL, LeavesL, LeavesL]; exact ⟨h1, h2, trivial⟩

theorem lv_dataNumberJ (d : DataNumber) : LV (dataNumberJ d) := by
  cases d <;> exact lv_num _

theorem lv_fieldValueJ (nm : JNames) (v : FieldValue) (h : FvValid v) : LV (fieldValueJ nm v) := by
  cases v with
  | str s => exact lv_obj1 _ _ (by rw [LV, Leaves]; exact h)
  | num d => exact lv_obj1 _ _ (lv_dataNumberJ d)
  | f64 b => exact lv_obj1 _ _ (by rw [LV, Leaves]; trivial)
  | dur s ns => exact lv_obj1 _ _ (lv_obj2 _ _ _ _ (lv_num _) (lv_num _))
  | ip4 n => exact lv_obj1 _ _ (lv_strJ _)
  | ip6 n => exact lv_obj1 _ _ (lv_strJ _)
  | mac raw => exact lv_obj1 _ _ (by rw [LV, Leaves]; exact validUtf8_macText raw)
  | vec b => exact lv_obj1 _ _ (lv_bytesJ b)
  | proto d => exact lv_obj1 _ _ (lv_nameOf _ _)
  | unknown b => exact lv_obj1 _ _ (lv_bytesJ b)

theorem lv_recJ (nm : JNames) (names : List (Nat × String)) (r : Rec) (h : RecValid r) : LV (recJ nm names r) :=
  lv_obj_map _ r (fun e he => lv_arr2 _ _ (lv_nameOf _ _) (lv_fieldValueJ nm _ (h e he)))

theorem lv_layoutJ (nm : JNames) (lay : Layout) (vals : List Nat) : LV (layoutJ nm lay vals) := by
  apply lv_obj_map
  intro p _
  simp only
  split
  · exact lv_nameOf _ _
  · split
    · exact lv_strJ _
    · exact lv_num _

theorem lv_tfieldJ (names : List (Nat × String)) (disc : Nat → Nat) (f : TField) : LV (tfieldJ names disc f) :=
  lv_obj3 _ _ _ _ _ _ (lv_num _) (lv_nameOf _ _) (lv_num _)

theorem lv_ipTFieldJ (c : Config) (nm : JNames) (f : IpTField) : LV (ipTFieldJ c nm f) := by
  rw [LV, ipTFieldJ, Leaves]
  apply leavesM_append
  · rw [LeavesM, LeavesM, LeavesM, LeavesM]; exact ⟨lv_num _, lv_nameOf _ _, lv_num _, trivial⟩
  · cases f.ent with
    | none => simp only; rw [LeavesM]; trivial
    | some e => simp only; rw [LeavesM, LeavesM]; exact ⟨lv_num _, trivial⟩

theorem lv_v9BodyJ (c : Config) (nm : JNames) (b : V9Body) (h : V9StrOk b) : LV (v9BodyJ c nm b) := by
  cases b with
  | templates ts pad =>
    exact lv_obj1 _ _ (lv_obj1 _ _ (lv_arr_map _ ts (fun t _ =>
      lv_obj3 _ _ _ _ _ _ (lv_num _) (lv_num _) (lv_arr_map _ _ (fun f _ => lv_tfieldJ _ _ f)))))
  | optTemplates ts pad =>
    refine lv_obj1 _ _ (lv_obj1 _ _ (lv_arr_map _ ts (fun t _ => ?_)))
    rw [LV, Leaves, LeavesM, LeavesM, LeavesM, LeavesM, LeavesM, LeavesM]
    exact ⟨lv_num _, lv_num _, lv_num _, lv_arr_map _ _ (fun f _ => lv_tfieldJ _ _ f),
      lv_arr_map _ _ (fun f _ => lv_tfieldJ _ _ f), trivial⟩
  | data recs pad =>
    exact lv_obj1 _ _ (lv_obj1 _ _ (lv_arr_map _ recs (fun r hr => lv_recJ nm _ r (h r hr))))
  | optData ss os pad =>
    exact lv_obj1 _ _ (lv_obj2 _ _ _ _ (lv_arr_map _ ss (fun s _ => lv_obj1 _ _ (lv_bytesJ _)))
      (lv_arr_map _ os (fun o _ => lv_obj2 _ _ _ _ (lv_nameOf _ _) (lv_bytesJ _))))

theorem lv_ipBodyJ (c : Config) (nm : JNames) (b : IpBody) (h : IpStrOk b) : LV (ipBodyJ c nm b) := by
  cases b with
  | template t =>
    exact lv_obj1 _ _ (lv_obj3 _ _ _ _ _ _ (lv_num _) (lv_num _) (lv_arr_map _ _ (fun f _ => lv_ipTFieldJ c nm f)))
  | optTemplate t =>
    refine lv_obj1 _ _ ?_
    rw [LV, Leaves, LeavesM, LeavesM, LeavesM, LeavesM, LeavesM]
    exact ⟨lv_num _, lv_num _, lv_num _, lv_arr_map _ _ (fun f _ => lv_ipTFieldJ c nm f), trivial⟩
  | data recs pad =>
    exact lv_obj1 _ _ (lv_obj1 _ _ (lv_arr_map _ recs (fun r hr => lv_recJ nm _ r (h r hr))))
  | optData recs pad =>
    exact lv_obj1 _ _ (lv_obj1 _ _ (lv_arr_map _ recs (fun r hr => lv_recJ nm _ r (h r hr))))

theorem lv_errKindJ (k : ErrKind) : LV (errKindJ k) := by
  cases k with
  | incomplete => exact lv_obj1 _ _ lv_anyStr
  | partialParse v rem => exact lv_obj1 _ _ (lv_obj3 _ _ _ _ _ _ (lv_num _) (lv_bytesJ _) lv_anyStr)
  | unknownVersion rem => exact lv_obj1 _ _ (lv_bytesJ _)

/-- every string leaf of the JSON value of a packet whose decoded string fields are valid UTF-8 is valid UTF-8 -/
theorem leaves_toJ (c : Config) (nm : JNames) (p : Packet) (h : PktAll V9StrOk IpStrOk p) : LV (toJ c nm p) := by
  cases p with
  | v5 hd rs =>
    exact lv_obj1 _ _ (lv_obj2 _ _ _ _ (lv_layoutJ _ _ _) (lv_arr_map _ rs (fun r _ => lv_layoutJ _ _ r)))
  | v7 hd rs =>
    exact lv_obj1 _ _ (lv_obj2 _ _ _ _ (lv_layoutJ _ _ _) (lv_arr_map _ rs (fun r _ => lv_layoutJ _ _ r)))
  | v9 hd ss =>
    exact lv_obj1 _ _ (lv_obj2 _ _ _ _ (lv_layoutJ _ _ _) (lv_arr_map _ ss (fun s hs =>
      lv_obj2 _ _ _ _ (lv_obj2 _ _ _ _ (lv_num _) (lv_num _)) (lv_v9BodyJ c nm _ (h s hs)))))
  | ipfix hd ss =>
    exact lv_obj1 _ _ (lv_obj2 _ _ _ _ (lv_layoutJ _ _ _) (lv_arr_map _ ss (fun s hs =>
      lv_obj2 _ _ _ _ (lv_obj2 _ _ _ _ (lv_num _) (lv_num _)) (lv_ipBodyJ c nm _ (h s hs)))))
  | error k rem => exact lv_obj1 _ _ (lv_obj2 _ _ _ _ (lv_errKindJ k) (lv_bytesJ _))

/-- every string in the JSON value of every parse result is valid UTF-8 -/
theorem parseBytes_leaves (c : Config) (nm : JNames) (st st' : PState) (buf : Bytes) (ps : List Packet)
    (h : parseBytes c st buf = (st', .done ps)) : ∀ p ∈ ps, LV (toJ c nm p) :=
  fun p hp => leaves_toJ c nm p (parseBytes_strs c st st' buf ps h p hp)

end Netflow.J1
