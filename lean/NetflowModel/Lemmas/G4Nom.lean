/-
  G4Nom.lean — the interpretation (`structP`) of the derive(Nom) field programs regenerated from v9.rs / ipfix.rs IS the hand-written
  template-record parser of V9.lean / Ipfix.lean, up to the tree view of ExportProg.lean.
-/
import NetflowModel.NomProg
import NetflowModel.GeneratedNom
namespace Netflow.G4
open Netflow

abbrev tbl := Generated.nomStructs

/-- a parser post-composed with a map on its value -/
def pmap {α β : Type} (f : α → β) (p : P α) : P β := fun i =>
  match p i with
  | none => none
  | some (a, r) => some (f a, r)

theorem pmap_none {α β : Type} (f : α → β) (p : P α) (i : Bytes) (h : p i = none) : pmap f p i = none := by
  simp [pmap, h]
theorem pmap_some {α β : Type} (f : α → β) (p : P α) (i : Bytes) (a : α) (r : Bytes) (h : p i = some (a, r)) :
    pmap f p i = some (f a, r) := by
  simp [pmap, h]

theorem countP_pmap {α β : Type} (f : α → β) (p : P α) (n : Nat) (i : Bytes) :
    countP (pmap f p) n i = (match countP p n i with | none => none | some (as, r) => some (as.map f, r)) := by
  induction n generalizing i with
  | zero => rfl
  | succ n ih =>
    cases h : p i with
    | none => simp only [countP, pmap_none f p i h, h]
    | some x =>
      obtain ⟨a, r⟩ := x
      simp only [countP, pmap_some f p i a r h, h, ih r]
      cases countP p n r with
      | none => rfl
      | some y => obtain ⟨as, r'⟩ := y; rfl

theorem many0F_pmap {α β : Type} (f : α → β) (p : P α) (fuel : Nat) (i : Bytes) :
    many0F (pmap f p) fuel i =
      (match many0F p fuel i with | .ok (as, r) => .ok (as.map f, r) | .err => .err | .outOfFuel => .outOfFuel) := by
  induction fuel generalizing i with
  | zero => rfl
  | succ fuel ih =>
    cases h : p i with
    | none => simp only [many0F, pmap_none f p i h, h, List.map_nil]
    | some x =>
      obtain ⟨a, r⟩ := x
      simp only [many0F, pmap_some f p i a r h, h]
      by_cases hl : r.length = i.length
      · simp only [hl, if_true]
      · simp only [hl, if_false, ih r]
        cases many0F p fuel r with
        | ok y => obtain ⟨as, r'⟩ := y; rfl
        | err => rfl
        | outOfFuel => rfl

theorem many0_pmap {α β : Type} (f : α → β) (p : P α) (i : Bytes) :
    many0 (pmap f p) i =
      (match many0 p i with | .ok (as, r) => .ok (as.map f, r) | .err => .err | .outOfFuel => .outOfFuel) := by
  unfold many0; exact many0F_pmap f p _ i

/-! ### V9 -/

theorem structP_succ (k : Nat) (s : String) (i : Bytes) :
    structP tbl (k + 1) s i =
      (match tbl.lookup s with
       | none => none
       | some fs => match runFields (structP tbl k) fs [] i with | none => none | some (env, r) => some (.struct env, r)) := rfl

theorem lk_tfield : tbl.lookup "v9::TemplateField" = some [.be "field_type_number" 2, .value "field_type", .be "field_length" 2] := by decide
theorem lk_scope : tbl.lookup "v9::OptionsTemplateScopeField" = some [.be "field_type_number" 2, .value "field_type", .be "field_length" 2] := by decide

theorem tfield_fields (sub : String → P ETree) (i : Bytes) :
    (match runFields sub [.be "field_type_number" 2, .value "field_type", .be "field_length" 2] [] i with
     | none => none | some (env, r) => some (ETree.struct env, r)) = pmap treeOfTField parseTField i := by
  simp only [runFields, pmap, parseTField]
  cases h1 : beU 2 i with
  | none => rfl
  | some x =>
    obtain ⟨t, r⟩ := x
    simp only []
    cases h2 : beU 2 r with
    | none => rfl
    | some y => obtain ⟨l, r'⟩ := y; rfl

/-- `v9::TemplateField` and `v9::OptionsTemplateScopeField` (same shape): number, derived enum (no bytes), length -/
theorem tfield_struct (k : Nat) :
    structP tbl (k + 1) "v9::TemplateField" = pmap treeOfTField parseTField ∧
    structP tbl (k + 1) "v9::OptionsTemplateScopeField" = pmap treeOfTField parseTField := by
  constructor <;> funext i
  · rw [structP_succ, lk_tfield]; exact tfield_fields _ i
  · rw [structP_succ, lk_scope]; exact tfield_fields _ i


theorem lk_template : tbl.lookup "v9::Template" =
    some [.be "template_id" 2, .be "field_count" 2, .count "fields" "v9::TemplateField" (.field "field_count")] := by decide

theorem pmap_apply {α β : Type} (f : α → β) (p : P α) (i : Bytes) :
    pmap f p i = (match p i with | none => none | some (a, r) => some (f a, r)) := rfl

/-- `v9::Template`: id, field_count, `count(TemplateField::parse, field_count)` -/
theorem v9template_struct (k : Nat) : structP tbl (k + 2) "v9::Template" = pmap treeOfV9Template parseV9Template := by
  funext i
  rw [structP_succ, lk_template, pmap_apply]
  simp only [runFields, (tfield_struct k).1, parseV9Template, countP_pmap]
  cases h1 : beU 2 i with
  | none => rfl
  | some x =>
    obtain ⟨id, r⟩ := x
    simp only []
    cases h2 : beU 2 r with
    | none => rfl
    | some y =>
      obtain ⟨fc, r1⟩ := y
      simp only []
      have hn : CountExpr.eval ([] ++ [("template_id", ETree.num id)] ++ [("field_count", ETree.num fc)]) (.field "field_count") = fc := by
        simp [CountExpr.eval, envNum, List.lookup]
      rw [hn]
      cases countP parseTField fc r1 with
      | none => rfl
      | some z => obtain ⟨fs, r2⟩ := z; rfl


theorem lk_opttemplate : tbl.lookup "v9::OptionsTemplate" =
    some [.be "template_id" 2, .be "options_scope_length" 2, .be "options_length" 2,
          .count "scope_fields" "v9::OptionsTemplateScopeField" (.fieldDiv "options_scope_length" 4),
          .count "option_fields" "v9::TemplateField" (.fieldDiv "options_length" 4)] := by decide

/-- `v9::OptionsTemplate`: id, two byte lengths, `length / 4` scope field specifiers, `length / 4` option field specifiers -/
theorem v9opttemplate_struct (k : Nat) : structP tbl (k + 2) "v9::OptionsTemplate" = pmap treeOfV9OptTemplate parseV9OptTemplate := by
  funext i
  rw [structP_succ, lk_opttemplate, pmap_apply]
  simp only [runFields, (tfield_struct k).1, (tfield_struct k).2, parseV9OptTemplate, countP_pmap]
  cases h1 : beU 2 i with
  | none => rfl
  | some x =>
    obtain ⟨id, r⟩ := x
    simp only []
    cases h2 : beU 2 r with
    | none => rfl
    | some y =>
      obtain ⟨sl, r1⟩ := y
      simp only []
      cases h3 : beU 2 r1 with
      | none => rfl
      | some z =>
        obtain ⟨ol, r2⟩ := z
        simp only []
        have hn1 : CountExpr.eval ([] ++ [("template_id", ETree.num id)] ++ [("options_scope_length", ETree.num sl)] ++ [("options_length", ETree.num ol)])
            (.fieldDiv "options_scope_length" 4) = sl / 4 := by simp [CountExpr.eval, envNum, List.lookup]
        rw [hn1]
        cases countP parseTField (sl / 4) r2 with
        | none => rfl
        | some w =>
          obtain ⟨ss, r3⟩ := w
          simp only []
          have hn2 : CountExpr.eval ([] ++ [("template_id", ETree.num id)] ++ [("options_scope_length", ETree.num sl)] ++ [("options_length", ETree.num ol)] ++
              [("scope_fields", ETree.list (List.map treeOfTField ss))]) (.fieldDiv "options_length" 4) = ol / 4 := by
            simp [CountExpr.eval, envNum, List.lookup]
          rw [hn2]
          cases countP parseTField (ol / 4) r3 with
          | none => rfl
          | some v => obtain ⟨os, r4⟩ := v; rfl

theorem lk_templates : tbl.lookup "v9::Templates" = some [.many0 "templates" "v9::Template", .rest "padding"] := by decide
theorem lk_opttemplates : tbl.lookup "v9::OptionsTemplates" = some [.many0 "templates" "v9::OptionsTemplate", .rest "padding"] := by decide

/-- `v9::Templates` = `many0(Template::parse)` then the rest as padding: exactly what `v9ParseBody` does for flowset id 0 -/
theorem v9templates_struct (k : Nat) (i : Bytes) :
    structP tbl (k + 3) "v9::Templates" i =
      (match many0 parseV9Template i with
       | .ok (ts, pad) => some (.struct [("templates", .list (ts.map treeOfV9Template)), ("padding", .bytes pad)], [])
       | _ => none) := by
  rw [structP_succ, lk_templates]
  simp only [runFields, v9template_struct k, many0_pmap]
  cases many0 parseV9Template i with
  | ok x => obtain ⟨ts, pad⟩ := x; rfl
  | err => rfl
  | outOfFuel => rfl

theorem v9opttemplates_struct (k : Nat) (i : Bytes) :
    structP tbl (k + 3) "v9::OptionsTemplates" i =
      (match many0 parseV9OptTemplate i with
       | .ok (ts, pad) => some (.struct [("templates", .list (ts.map treeOfV9OptTemplate)), ("padding", .bytes pad)], [])
       | _ => none) := by
  rw [structP_succ, lk_opttemplates]
  simp only [runFields, v9opttemplate_struct k, many0_pmap]
  cases many0 parseV9OptTemplate i with
  | ok x => obtain ⟨ts, pad⟩ := x; rfl
  | err => rfl
  | outOfFuel => rfl

/-! ### IPFIX -/

theorem lk_iptfield : tbl.lookup "ipfix::TemplateField" =
    some [.be "field_type_number" 2, .value "field_type", .be "field_length" 2,
          .condBe "enterprise_number" 4 "field_type_number" .gt 32767 32768] := by decide

/-- `ipfix::TemplateField`: number, length, `Cond = number > 32767` enterprise number, PostExec clears the bit -/
theorem iptfield_struct (k : Nat) : structP tbl (k + 1) "ipfix::TemplateField" = pmap treeOfIpTField parseIpTField := by
  funext i
  rw [structP_succ, lk_iptfield, pmap_apply]
  simp only [runFields, parseIpTField]
  cases h1 : beU 2 i with
  | none => rfl
  | some x =>
    obtain ⟨t, r⟩ := x
    simp only []
    cases h2 : beU 2 r with
    | none => rfl
    | some y =>
      obtain ⟨l, r1⟩ := y
      simp only []
      have hn : envNum ([] ++ [("field_type_number", ETree.num t)] ++ [("field_length", ETree.num l)]) "field_type_number" = t := by
        simp [envNum, List.lookup]
      rw [hn]
      by_cases hc : t > 32767
      · have : Cmp.eval .gt t 32767 = true := by simp [Cmp.eval, hc]
        simp only [this, if_true, if_pos hc]
        cases h3 : beU 4 r1 with
        | none => rfl
        | some z =>
          obtain ⟨e, r2⟩ := z
          simp [envSetNum, treeOfIpTField]
      · have : Cmp.eval .gt t 32767 = false := by simp [Cmp.eval, hc]
        simp [this, if_neg hc, treeOfIpTField]


def treeOfIpTemplate (t : IpTemplate) : ETree :=
  .struct [("template_id", .num t.id), ("field_count", .num t.fieldCount), ("fields", .list (t.fields.map treeOfIpTField)), ("padding", .bytes t.pad)]

def treeOfIpOptTemplate (t : IpOptTemplate) : ETree :=
  .struct [("template_id", .num t.id), ("field_count", .num t.fieldCount), ("scope_field_count", .num t.scopeCount),
           ("fields", .list (t.fields.map treeOfIpTField)), ("padding", .bytes t.pad)]

/-- these are the payloads of the `Template` / `OptionsTemplate` variants in the exporter's tree view -/
theorem treeOfIpBody_template (t : IpTemplate) : treeOfIpBody (.template t) = .variant "Template" (treeOfIpTemplate t) := rfl
theorem treeOfIpBody_optTemplate (t : IpOptTemplate) : treeOfIpBody (.optTemplate t) = .variant "OptionsTemplate" (treeOfIpOptTemplate t) := rfl

theorem lk_iptemplate : tbl.lookup "ipfix::Template" =
    some [.be "template_id" 2, .be "field_count" 2, .many0 "fields" "ipfix::TemplateField", .rest "padding"] := by decide

/-- `ipfix::Template`: id, field_count (NOT used to delimit), greedy `many0(TemplateField::parse)`, rest = padding -/
theorem iptemplate_struct (k : Nat) (i : Bytes) :
    structP tbl (k + 2) "ipfix::Template" i =
      (match parseIpTemplate i with | .ok t => some (treeOfIpTemplate t, []) | _ => none) := by
  rw [structP_succ, lk_iptemplate]
  simp only [runFields, iptfield_struct k, many0_pmap, parseIpTemplate]
  cases h1 : beU 2 i with
  | none => rfl
  | some x =>
    obtain ⟨id, r⟩ := x
    simp only []
    cases h2 : beU 2 r with
    | none => rfl
    | some y =>
      obtain ⟨fc, r1⟩ := y
      simp only []
      cases many0 parseIpTField r1 with
      | ok z => obtain ⟨fs, pad⟩ := z; rfl
      | err => rfl
      | outOfFuel => rfl

theorem lk_ipopttemplate : tbl.lookup "ipfix::OptionsTemplate" =
    some [.be "template_id" 2, .be "field_count" 2, .be "scope_field_count" 2,
          .count "fields" "ipfix::TemplateField" (.ipOptCombined "scope_field_count" "field_count"), .rest "padding"] := by decide

/-- `ipfix::OptionsTemplate`: id, field_count, scope_field_count, `count(TemplateField::parse, combined)`, rest = padding -/
theorem ipopttemplate_struct (k : Nat) (i : Bytes) :
    structP tbl (k + 2) "ipfix::OptionsTemplate" i =
      (match parseIpOptTemplate i with | .ok t => some (treeOfIpOptTemplate t, []) | _ => none) := by
  rw [structP_succ, lk_ipopttemplate]
  simp only [runFields, iptfield_struct k, countP_pmap, parseIpOptTemplate]
  cases h1 : beU 2 i with
  | none => rfl
  | some x =>
    obtain ⟨id, r⟩ := x
    simp only []
    cases h2 : beU 2 r with
    | none => rfl
    | some y =>
      obtain ⟨fc, r1⟩ := y
      simp only []
      cases h3 : beU 2 r1 with
      | none => rfl
      | some z =>
        obtain ⟨sc, r2⟩ := z
        simp only []
        have hn : CountExpr.eval ([] ++ [("template_id", ETree.num id)] ++ [("field_count", ETree.num fc)] ++ [("scope_field_count", ETree.num sc)])
            (.ipOptCombined "scope_field_count" "field_count") = (if sc ≤ fc then fc else min (sc + fc) 65535) := by
          have e1 : envNum ([] ++ [("template_id", ETree.num id)] ++ [("field_count", ETree.num fc)] ++ [("scope_field_count", ETree.num sc)]) "scope_field_count" = sc := by
            simp [envNum, List.lookup]
          have e2 : envNum ([] ++ [("template_id", ETree.num id)] ++ [("field_count", ETree.num fc)] ++ [("scope_field_count", ETree.num sc)]) "field_count" = fc := by
            simp [envNum, List.lookup]
          simp only [CountExpr.eval, e1, e2]
        rw [hn]
        cases countP parseIpTField (if sc ≤ fc then fc else min (sc + fc) 65535) r2 with
        | none => rfl
        | some w => obtain ⟨fs, pad⟩ := w; rfl

end Netflow.G4
