/-
  Lemmas/A2Export.lean — every value the parser produces can be re-exported without tripping
  byteorder's 24-bit range assertion (the only panic site of the exporters).
-/
import NetflowModel.Lemmas.A2State
import NetflowModel.Export
namespace Netflow

theorem beNat_foldl_lt (bs : Bytes) : ∀ acc : Nat,
    bs.foldl (fun acc b => acc * 256 + b.toNat) acc < (acc + 1) * 256 ^ bs.length := by
  induction bs with
  | nil => intro acc; simp
  | cons b bs ih =>
    intro acc
    simp only [List.foldl_cons, List.length_cons]
    have h1 := ih (acc * 256 + b.toNat)
    have hb : b.toNat < 256 := UInt8.toNat_lt b
    have h2 : (acc * 256 + b.toNat + 1) * 256 ^ bs.length ≤ ((acc + 1) * 256) * 256 ^ bs.length :=
      Nat.mul_le_mul_right _ (by omega)
    rw [Nat.pow_succ, Nat.mul_comm (256 ^ bs.length) 256, ← Nat.mul_assoc]
    omega

/-- a `w`-byte big-endian number is below `256^w` -/
theorem beNat_lt (bs : Bytes) : beNat bs < 256 ^ bs.length := by
  have := beNat_foldl_lt bs 0
  simpa [beNat] using this

/-- values on which `DataNumber::to_be_bytes` does not hit `write_u24`/`write_i24`'s assertion -/
def DnOk : DataNumber → Prop
  | .u24 n => n < 2 ^ 24
  | .i24 z => -(2 ^ 23 : Int) ≤ z ∧ z < 2 ^ 23
  | _ => True

def ValueOk : FieldValue → Prop
  | .num d => DnOk d
  | _ => True

def RecOk (r : Rec) : Prop := ∀ e ∈ r, ValueOk e.2.2
def RecsOk (rs : List Rec) : Prop := ∀ r ∈ rs, RecOk r

/-- side condition on the GENERATED arm table of `DataNumber::parse`: the 24-bit variants are
    produced only from 3-byte fields, and `I24` only by the signed arm -/
def dnArmsOk (arms : DnArms) : Bool :=
  arms.all fun e =>
    match e.2 with
    | .u24 => e.1.1 == 3
    | .i24 => e.1.1 == 3 && e.1.2
    | _ => true

theorem DataNumber.make_ok (arm : DnArm) (signed : Bool) (bs : Bytes)
    (h : match arm with | .u24 => bs.length = 3 | .i24 => bs.length = 3 ∧ signed = true | _ => True) :
    DnOk (DataNumber.make arm signed bs) := by
  have hlt := beNat_lt bs
  cases arm with
  | u24 => simp only at h; rw [h] at hlt; simp only [DataNumber.make, DnOk]; omega
  | i24 =>
    simp only at h
    obtain ⟨hl, hs⟩ := h
    rw [hl] at hlt
    simp only [DataNumber.make, DnOk, hs, ↓reduceIte, beInt, hl]
    split <;> omega
  | _ => simp [DataNumber.make, DnOk]

theorem DataNumber.parse_ok {arms : DnArms} (ha : dnArmsOk arms = true) {len : Nat} {signed : Bool} {i r : Bytes}
    {d : DataNumber} (h : DataNumber.parse arms len signed i = some (d, r)) : DnOk d := by
  unfold DataNumber.parse at h
  cases hl : arms.lookup (len, signed) with
  | none => simp [hl] at h
  | some arm =>
    simp only [hl] at h
    cases ht : takeN len i with
    | none => simp [ht] at h
    | some br =>
      obtain ⟨bs, r'⟩ := br
      simp only [ht, Option.some.injEq, Prod.mk.injEq] at h
      obtain ⟨h1, h2, _⟩ := takeN_some ht
      have hlen : bs.length = len := by rw [h2, List.length_take]; omega
      have hm := lookup_mem hl
      simp only [dnArmsOk, List.all_eq_true] at ha
      have := ha _ hm
      rw [← h.1]
      apply DataNumber.make_ok
      cases arm <;> simp_all

theorem parseValue_ok {vc : ValueCfg} (ha : dnArmsOk vc.dnArms = true) {ty : FType} {len : Nat} {i r : Bytes}
    {v : FieldValue} (h : parseValue vc ty len i = some (v, r)) : ValueOk v := by
  have hp := fun sg i r d => @DataNumber.parse_ok _ ha len sg i r d
  unfold parseValue at h
  cases ty <;> simp only at h <;> (try split at h) <;> (try split at h) <;> (try split at h) <;>
    simp only [Option.some.injEq, Prod.mk.injEq, reduceCtorEq] at h <;>
    (try (rw [← h.1])) <;> (try simp only [ValueOk, durOf]) <;> (try exact hp _ _ _ _ (by assumption))

theorem v9ParseRec_ok (c : Config) (ha : dnArmsOk c.t.dnArms = true) : ∀ (fs : List TField) (idx : Nat) (i r : Bytes) (rec : Rec),
    v9ParseRec c fs idx i = some (rec, r) → RecOk rec := by
  intro fs
  induction fs with
  | nil => intro idx i r rec h; simp [v9ParseRec] at h; rw [h.1]; intro e he; simp at he
  | cons f fs ih =>
    intro idx i r rec h
    simp only [v9ParseRec] at h
    cases h1 : parseValue c.vc (c.t.v9Ty (c.t.v9Field f.typ)) f.len i with
    | none => simp [h1] at h
    | some vr =>
      obtain ⟨v, r1⟩ := vr
      simp only [h1] at h
      cases h2 : v9ParseRec c fs (idx + 1) r1 with
      | none => simp [h2] at h
      | some er =>
        obtain ⟨es, r2⟩ := er
        simp only [h2, Option.some.injEq, Prod.mk.injEq] at h
        rw [← h.1]
        intro e he
        simp only [List.mem_cons] at he
        rcases he with he | he
        · subst he; exact parseValue_ok (vc := c.vc) ha h1
        · exact ih _ _ _ _ h2 e he

theorem v9RecLoop_ok (c : Config) (ha : dnArmsOk c.t.dnArms = true) (fs : List TField) :
    ∀ (n : Nat) (i : Bytes) (acc : List Rec), RecsOk acc → RecsOk (v9RecLoop c fs n i acc).1 := by
  intro n
  induction n with
  | zero => intro i acc h; exact h
  | succ n ih =>
    intro i acc h
    simp only [v9RecLoop]
    cases h1 : v9ParseRec c fs 0 i with
    | none => exact ih _ _ h
    | some rr =>
      obtain ⟨rec, r⟩ := rr
      simp only
      apply ih
      intro x hx
      simp only [List.mem_append, List.mem_singleton] at hx
      rcases hx with hx | hx
      · exact h x hx
      · subst hx; exact v9ParseRec_ok c ha _ _ _ _ _ h1

theorem ipParseValue_ok (c : Config) (ha : dnArmsOk c.t.dnArms = true) {f : IpTField} {i r : Bytes} {v : FieldValue}
    (h : ipParseValue c f i = some (v, r)) : ValueOk v := by
  unfold ipParseValue at h
  cases h1 : ipFieldLength f i with
  | none => simp [h1] at h
  | some lr =>
    obtain ⟨len, r1⟩ := lr
    simp only [h1] at h
    cases he : f.ent with
    | some e =>
      simp only [he] at h
      cases h2 : takeN len r1 with
      | none => simp [h2] at h
      | some br => simp only [h2, Option.some.injEq, Prod.mk.injEq] at h; rw [← h.1]; simp [ValueOk]
    | none =>
      simp only [he] at h
      exact parseValue_ok (vc := c.vc) ha h

theorem ipParseRec_ok (c : Config) (ha : dnArmsOk c.t.dnArms = true) : ∀ (fs : List IpTField) (idx : Nat) (i r : Bytes) (recs : List Rec),
    ipParseRec c fs idx i = some (recs, r) → RecsOk recs := by
  intro fs
  induction fs with
  | nil => intro idx i r recs h; simp [ipParseRec] at h; rw [h.1]; intro e he; simp at he
  | cons f fs ih =>
    intro idx i r recs h
    simp only [ipParseRec] at h
    cases h1 : ipParseValue c f i with
    | none => simp [h1] at h
    | some vr =>
      obtain ⟨v, r1⟩ := vr
      simp only [h1] at h
      cases h2 : ipParseRec c fs (idx + 1) r1 with
      | none => simp [h2] at h
      | some er =>
        obtain ⟨es, r2⟩ := er
        simp only [h2, Option.some.injEq, Prod.mk.injEq] at h
        rw [← h.1]
        intro x hx
        simp only [List.mem_cons] at hx
        rcases hx with hx | hx
        · subst hx
          intro e he
          simp only [List.mem_singleton] at he
          subst he
          exact ipParseValue_ok c ha h1
        · exact ih _ _ _ _ h2 x hx

theorem ipRecLoop_ok (c : Config) (ha : dnArmsOk c.t.dnArms = true) (fs : List IpTField) :
    ∀ (f : Nat) (i r : Bytes) (recs : List Rec), ipRecLoop c fs f i = .ok (recs, r) → RecsOk recs := by
  intro f
  induction f with
  | zero => intro i r recs h; simp [ipRecLoop] at h
  | succ f ih =>
    intro i r recs h
    unfold ipRecLoop at h
    cases h1 : ipParseRec c fs 0 i with
    | none => simp [h1] at h
    | some er =>
      obtain ⟨es, r1⟩ := er
      have hes := ipParseRec_ok c ha _ _ _ _ _ h1
      simp only [h1] at h
      split at h
      · simp only [Res.ok.injEq, Prod.mk.injEq] at h; rw [← h.1]; exact hes
      · split at h
        · cases h2 : ipRecLoop c fs f r1 with
          | ok mr =>
            obtain ⟨more, r2⟩ := mr
            simp only [h2, Res.ok.injEq, Prod.mk.injEq] at h
            rw [← h.1]
            intro x hx
            simp only [List.mem_append] at hx
            rcases hx with hx | hx
            · exact hes x hx
            · exact ih _ _ _ h2 x hx
          | err => simp [h2] at h
          | panic => simp [h2] at h
          | overflow => simp [h2] at h
        · simp only [Res.ok.injEq, Prod.mk.injEq] at h; rw [← h.1]; exact hes

def V9BodyOk : V9Body → Prop
  | .data recs _ => RecsOk recs
  | _ => True

def IpBodyOk : IpBody → Prop
  | .data recs _ => RecsOk recs
  | .optData recs _ => RecsOk recs
  | _ => True

/-- every decoded data value of the packet is exportable -/
abbrev PacketOk : Packet → Prop := PktAll V9BodyOk IpBodyOk

theorem v9ParseBody_ok (c : Config) (ha : dnArmsOk c.t.dnArms = true) (st st' : PState) (id : Nat) (body : Bytes) (b : V9Body)
    (h : v9ParseBody c st id body = (st', .ok b)) : V9BodyOk b := by
  unfold v9ParseBody at h
  have := fun fs n => v9RecLoop_ok c ha fs n body [] (by intro r hr; simp at hr)
  grind [V9BodyOk]

theorem ipParseBody_ok (c : Config) (ha : dnArmsOk c.t.dnArms = true) (st st' : PState) (id : Nat) (body : Bytes) (b : IpBody)
    (h : ipParseBody c st id body = (st', .ok b)) : IpBodyOk b := by
  unfold ipParseBody at h
  have := ipRecLoop_ok c ha
  grind [IpBodyOk]

theorem Out.append_ne_panic {a b : Out Bytes} (ha : a ≠ .panic) (hb : b ≠ .panic) : a.append b ≠ .panic := by
  cases a <;> cases b <;> simp_all [Out.append]

theorem Out.concat_ne_panic : ∀ {l : List (Out Bytes)}, (∀ x ∈ l, x ≠ .panic) → Out.concat l ≠ .panic := by
  intro l
  induction l with
  | nil => intro _; simp [Out.concat]
  | cons x xs ih =>
    intro h
    simp only [Out.concat]
    exact Out.append_ne_panic (h x List.mem_cons_self) (ih fun y hy => h y (List.mem_cons_of_mem _ hy))

theorem DataNumber.toBE_ne_panic {d : DataNumber} (h : DnOk d) : d.toBE ≠ .panic := by
  cases d <;> simp_all [DataNumber.toBE, DnOk]

theorem FieldValue.toBE_ne_panic (vc : ValueCfg) {v : FieldValue} (h : ValueOk v) : v.toBE vc ≠ .panic := by
  cases v with
  | num d => exact DataNumber.toBE_ne_panic h
  | dur s n => simp only [FieldValue.toBE]; split <;> simp
  | _ => simp [FieldValue.toBE]

theorem exportRecs_ne_panic (vc : ValueCfg) {rs : List Rec} (h : RecsOk rs) : exportRecs vc rs ≠ .panic := by
  unfold exportRecs
  apply Out.concat_ne_panic
  intro x hx
  obtain ⟨r, hr, rfl⟩ := List.mem_map.mp hx
  unfold exportRec
  apply Out.concat_ne_panic
  intro y hy
  obtain ⟨e, he, rfl⟩ := List.mem_map.mp hy
  exact FieldValue.toBE_ne_panic vc (h r hr e he)

theorem exportV9Body_ne_panic (vc : ValueCfg) {b : V9Body} (h : V9BodyOk b) : exportV9Body vc b ≠ .panic := by
  cases b with
  | data recs pad => exact Out.append_ne_panic (exportRecs_ne_panic vc h) (by simp)
  | _ => simp [exportV9Body]

theorem exportIpBody_ne_panic (vc : ValueCfg) {b : IpBody} (h : IpBodyOk b) : exportIpBody vc b ≠ .panic := by
  cases b with
  | data recs pad => exact Out.append_ne_panic (exportRecs_ne_panic vc h) (by simp)
  | optData recs pad => exact Out.append_ne_panic (exportRecs_ne_panic vc h) (by simp)
  | _ => simp [exportIpBody]

theorem exportPacket_ne_panic (c : Config) {p : Packet} (h : PktAll V9BodyOk IpBodyOk p) :
    exportPacket c p ≠ some .panic := by
  cases p with
  | v9 hd ss =>
    simp only [exportPacket, ne_eq, Option.some.injEq]
    apply Out.append_ne_panic (by simp)
    apply Out.concat_ne_panic
    intro x hx
    obtain ⟨s, hs, rfl⟩ := List.mem_map.mp hx
    exact Out.append_ne_panic (by simp) (exportV9Body_ne_panic _ (h s hs))
  | ipfix hd ss =>
    simp only [exportPacket, ne_eq, Option.some.injEq]
    apply Out.append_ne_panic (by simp)
    apply Out.concat_ne_panic
    intro x hx
    obtain ⟨s, hs, rfl⟩ := List.mem_map.mp hx
    exact Out.append_ne_panic (by simp) (exportIpBody_ne_panic _ (h s hs))
  | _ => simp [exportPacket]

end Netflow
