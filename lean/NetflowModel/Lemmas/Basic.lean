/-
  Lemmas/Basic.lean — take/drop algebra of the primitive parsers and closed forms of the
  generic layout parser.
-/
import NetflowModel.Parser
namespace Netflow

theorem takeN_some {n : Nat} {i b r : Bytes} (h : takeN n i = some (b, r)) :
    n ≤ i.length ∧ b = i.take n ∧ r = i.drop n := by
  unfold takeN at h
  split at h
  · simp at h; exact ⟨by assumption, h.1.symm, h.2.symm⟩
  · simp at h

theorem takeN_of_le {n : Nat} {i : Bytes} (h : n ≤ i.length) : takeN n i = some (i.take n, i.drop n) := by
  simp [takeN, h]

theorem takeN_none {n : Nat} {i : Bytes} (h : takeN n i = none) : i.length < n := by
  unfold takeN at h
  split at h
  · simp at h
  · omega

theorem beU_some {w : Nat} {i r : Bytes} {v : Nat} (h : beU w i = some (v, r)) :
    w ≤ i.length ∧ v = beNat (i.take w) ∧ r = i.drop w := by
  unfold beU at h
  split at h
  · simp at h; exact ⟨by assumption, h.1.symm, h.2.symm⟩
  · simp at h

theorem beU_of_le {w : Nat} {i : Bytes} (h : w ≤ i.length) : beU w i = some (beNat (i.take w), i.drop w) := by
  simp [beU, h]

theorem beU_none {w : Nat} {i : Bytes} (h : beU w i = none) : i.length < w := by
  unfold beU at h
  split at h
  · simp at h
  · omega

/-- a parser that, whenever it succeeds, returns the input with exactly `n` bytes dropped -/
def Consumes {α : Type} (p : P α) (n : Nat) : Prop :=
  ∀ i a r, p i = some (a, r) → n ≤ i.length ∧ r = i.drop n

theorem countP_consumes {α : Type} {p : P α} {n : Nat} (hp : Consumes p n) :
    ∀ (k : Nat) (i : Bytes) (as : List α) (r : Bytes), countP p k i = some (as, r) →
      n * k ≤ i.length ∧ r = i.drop (n * k) ∧ as.length = k := by
  intro k
  induction k with
  | zero => intro i as r h; simp [countP] at h; simp [h.1.symm, h.2.symm]
  | succ k ih =>
    intro i as r h
    simp only [countP] at h
    cases hpi : p i with
    | none => simp [hpi] at h
    | some ar =>
      obtain ⟨a, r1⟩ := ar
      simp only [hpi] at h
      cases hc : countP p k r1 with
      | none => simp [hc] at h
      | some asr =>
        obtain ⟨as', r2⟩ := asr
        simp only [hc, Option.some.injEq, Prod.mk.injEq] at h
        obtain ⟨h1, h2⟩ := hp i a r1 hpi
        obtain ⟨h3, h4, h5⟩ := ih r1 as' r2 hc
        subst h2
        rw [List.length_drop] at h3
        refine ⟨?_, ?_, ?_⟩
        · rw [Nat.mul_succ]; omega
        · rw [← h.2, h4, List.drop_drop, Nat.mul_succ]; congr 1; omega
        · rw [← h.1]; simp [h5]

/-! ### closed form of the generic layout parser -/

theorem parseFields_consumes (proto : Nat → Nat) :
    ∀ (lay : Layout) (acc : List Nat) (i : Bytes) (vals : List Nat) (r : Bytes),
      parseFields proto lay acc i = some (vals, r) →
      lay.wireLen ≤ i.length ∧ r = i.drop lay.wireLen ∧ vals.length = acc.length + lay.length := by
  intro lay
  induction lay with
  | nil =>
    intro acc i vals r h
    simp [parseFields] at h
    simp [Layout.wireLen, h.1.symm, h.2.symm]
  | cons f fs ih =>
    intro acc i vals r h
    have hw : Layout.wireLen (f :: fs) = f.kind.width + Layout.wireLen fs := by
      simp [Layout.wireLen]
    rw [hw]
    unfold parseFields at h
    cases hk : f.kind with
    | wire w =>
      simp only [hk] at h
      cases hb : beU w i with
      | none => simp [hb] at h
      | some vr =>
        obtain ⟨v, r1⟩ := vr
        simp only [hb] at h
        obtain ⟨h1, _, h3⟩ := beU_some hb
        obtain ⟨h4, h5, h6⟩ := ih _ _ _ _ h
        subst h3
        rw [List.length_drop] at h4
        simp only [FKind.width]
        refine ⟨by omega, ?_, ?_⟩
        · rw [h5, List.drop_drop]
        · rw [h6]; simp; omega
    | const v =>
      simp only [hk] at h
      obtain ⟨h4, h5, h6⟩ := ih _ _ _ _ h
      simp only [FKind.width]
      refine ⟨by omega, by simpa using h5, ?_⟩
      rw [h6]; simp; omega
    | protoOf s =>
      simp only [hk] at h
      obtain ⟨h4, h5, h6⟩ := ih _ _ _ _ h
      simp only [FKind.width]
      refine ⟨by omega, by simpa using h5, ?_⟩
      rw [h6]; simp; omega

theorem parseLayout_consumes (proto : Nat → Nat) (lay : Layout) : Consumes (parseLayout proto lay) lay.wireLen := by
  intro i a r h
  obtain ⟨h1, h2, _⟩ := parseFields_consumes proto lay [] i a r h
  exact ⟨h1, h2⟩

/-- the layout parser succeeds exactly when enough bytes are present -/
theorem parseFields_isSome (proto : Nat → Nat) :
    ∀ (lay : Layout) (acc : List Nat) (i : Bytes), lay.wireLen ≤ i.length →
      ∃ vals, parseFields proto lay acc i = some (vals, i.drop lay.wireLen) := by
  intro lay
  induction lay with
  | nil => intro acc i _; exact ⟨acc, by simp [parseFields, Layout.wireLen]⟩
  | cons f fs ih =>
    intro acc i h
    have hw : Layout.wireLen (f :: fs) = f.kind.width + Layout.wireLen fs := by
      simp [Layout.wireLen]
    rw [hw] at h ⊢
    unfold parseFields
    cases hk : f.kind with
    | wire w =>
      simp only [FKind.width, hk] at h ⊢
      rw [beU_of_le (by omega)]
      simp only
      obtain ⟨vals, hv⟩ := ih (acc ++ [beNat (i.take w)]) (i.drop w) (by rw [List.length_drop]; omega)
      exact ⟨vals, by rw [hv, List.drop_drop]⟩
    | const v =>
      simp only [FKind.width, hk] at h ⊢
      obtain ⟨vals, hv⟩ := ih (acc ++ [v]) i (by omega)
      exact ⟨vals, by rw [hv]; simp⟩
    | protoOf s =>
      simp only [FKind.width, hk] at h ⊢
      obtain ⟨vals, hv⟩ := ih (acc ++ [proto (acc.getD s 0)]) i (by omega)
      exact ⟨vals, by rw [hv]; simp⟩

theorem parseLayout_none_iff (proto : Nat → Nat) (lay : Layout) (i : Bytes) :
    parseLayout proto lay i = none ↔ i.length < lay.wireLen := by
  constructor
  · intro h
    by_cases hl : lay.wireLen ≤ i.length
    · obtain ⟨v, hv⟩ := parseFields_isSome proto lay [] i hl
      simp [parseLayout, hv] at h
    · omega
  · intro h
    cases hp : parseLayout proto lay i with
    | none => rfl
    | some ar =>
      obtain ⟨a, r⟩ := ar
      have := (parseLayout_consumes proto lay i a r hp).1
      omega

end Netflow

namespace Netflow

theorem lookup_mem {α β : Type} [BEq α] [LawfulBEq α] {a : α} {b : β} :
    ∀ {l : List (α × β)}, l.lookup a = some b → (a, b) ∈ l := by
  intro l
  induction l with
  | nil => intro h; simp [List.lookup] at h
  | cons x xs ih =>
    intro h
    obtain ⟨k, v⟩ := x
    simp only [List.lookup] at h
    by_cases hk : a == k
    · simp only [hk] at h
      have : a = k := by simpa using hk
      simp at h
      subst this h
      exact List.mem_cons_self
    · simp only [hk] at h
      exact List.mem_cons_of_mem _ (ih h)

/-- inversion of `parsePacket`: the four ways a call can go -/
theorem parsePacket_inv (c : Config) (st st' : PState) (buf : Bytes) (s : Step)
    (h : parsePacket c st buf = (st', s)) :
    (buf.length < 2 ∧ st' = st ∧ s = .fail .incomplete) ∨
    (∃ v, beU 2 buf = some (v, buf.drop 2) ∧ c.allowed.contains v = false ∧ st' = st ∧ s = .unallowed) ∨
    (∃ v, beU 2 buf = some (v, buf.drop 2) ∧ c.allowed.contains v = true ∧ c.t.dispatch.lookup v = none ∧
        st' = st ∧ s = .fail (.unknownVersion (buf.drop 2))) ∨
    (∃ v kind, beU 2 buf = some (v, buf.drop 2) ∧ c.allowed.contains v = true ∧ c.t.dispatch.lookup v = some kind ∧
        parseVersioned c st kind (buf.drop 2) = (st', s)) := by
  unfold parsePacket at h
  cases hv : beU 2 buf with
  | none =>
    simp only [hv, Prod.mk.injEq] at h
    exact Or.inl ⟨beU_none hv, h.1.symm, h.2.symm⟩
  | some vb =>
    obtain ⟨v, body⟩ := vb
    obtain ⟨_, _, hb⟩ := beU_some hv
    subst hb
    simp only [hv] at h
    cases ha : c.allowed.contains v with
    | false =>
      simp only [ha, Bool.false_eq_true, ↓reduceIte, Prod.mk.injEq] at h
      exact Or.inr (Or.inl ⟨v, rfl, ha, h.1.symm, h.2.symm⟩)
    | true =>
      simp only [ha, ↓reduceIte] at h
      cases hd : c.t.dispatch.lookup v with
      | none =>
        simp only [hd, Prod.mk.injEq] at h
        exact Or.inr (Or.inr (Or.inl ⟨v, rfl, ha, hd, h.1.symm, h.2.symm⟩))
      | some kind =>
        simp only [hd] at h
        exact Or.inr (Or.inr (Or.inr ⟨v, kind, rfl, ha, hd, h⟩))

end Netflow
