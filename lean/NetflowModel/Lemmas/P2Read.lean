/-
  Lemmas/P2Read.lean — helper lemmas for the C16 read-back theorem (`Props/C16c.lean`):
  the name-keyed reader `readJ` (JsonRead.lean) inverts `toJ` up to the normal form `normPkt`.
-/
import NetflowModel.JsonRead
import NetflowModel.Lemmas.B1Json
namespace Netflow.P2
open Netflow Netflow.JRead Netflow.B1

/-! ### generic -/

theorem optAll_map {α β γ : Type} {f : β → Option γ} {g : α → β} {h : α → γ} :
    ∀ {l : List α}, (∀ a ∈ l, f (g a) = some (h a)) → optAll f (l.map g) = some (l.map h)
  | [], _ => rfl
  | a :: l, H => by
    have h1 := H a (List.mem_cons_self ..)
    have h2 := optAll_map (l := l) (fun x hx => H x (List.mem_cons_of_mem _ hx))
    simp only [List.map_cons, optAll, h1, h2]

theorem optAll_map' {α β γ : Type} {f : β → Option γ} {g : α → β} {h : α → γ} (l : List α)
    (H : ∀ a, f (g a) = some (h a)) : optAll f (l.map g) = some (l.map h) :=
  optAll_map (fun a _ => H a)

@[simp] theorem getNat_num (n : Nat) : getNat (.num (n : Int)) = some n := by
  simp [getNat]

@[simp] theorem getInt_num (z : Int) : getInt (.num z) = some z := rfl
@[simp] theorem getStr_str (b : Bytes) : getStr (.str b) = some b := rfl
@[simp] theorem getStr_strJ (s : String) : getStr (strJ s) = some (textOf s) := rfl
@[simp] theorem getStr_nameOf (tbl : List (Nat × String)) (d : Nat) : getStr (nameOf tbl d) = some (nameBytes tbl d) := rfl
@[simp] theorem getArr_arr (xs : List JVal) : getArr (.arr xs) = some xs := rfl

theorem getByte_num (x : UInt8) : getByte (.num (x.toNat : Int)) = some x := by
  have h : (x.toNat : Int) < 256 := by have := x.toNat_lt; omega
  simp [getByte, h]

@[simp] theorem getBytes_bytesJ (b : Bytes) : getBytes (bytesJ b) = some b := by
  simp only [getBytes, bytesJ, getArr_arr]
  rw [optAll_map' (h := id) b getByte_num, List.map_id]

@[simp] theorem getTagged_one (t : String) (v : JVal) : getTagged (.obj [(t, v)]) = some (t, v) := rfl

@[simp] theorem readScalar_num (n : Nat) : readScalar (.num (n : Int)) = some (.nat n) := by
  simp [readScalar]

@[simp] theorem readScalar_strJ (s : String) : readScalar (strJ s) = some (.text (textOf s)) := rfl
@[simp] theorem readScalar_nameOf (tbl : List (Nat × String)) (d : Nat) :
    readScalar (nameOf tbl d) = some (.text (nameBytes tbl d)) := rfl

/-! ### field values -/

theorem dataNumberJ_dnInt (d : DataNumber) : dataNumberJ d = .num (dnInt d) := by cases d <;> rfl

theorem readFieldValue_J (nm : JNames) (v : FieldValue) :
    readFieldValue (fieldValueJ nm v) = some (normFieldValue nm v) := by
  cases v <;>
    simp [readFieldValue, fieldValueJ, normFieldValue, dataNumberJ_dnInt, fieldWith, field, List.lookup]

/-! ### records: decimal member names, index-sorted result -/

theorem keyNat_toString (n : Nat) : keyNat (toString n) = some n := by
  have h1 : (toString n).toList = Nat.toDigits 10 n := by
    rw [Nat.toString_eq_ofList_toDigits, String.toList_ofList]
  have h2 : (Nat.toDigits 10 n).all Char.isDigit = true := by
    rw [List.all_eq_true]
    intro c hc
    exact Nat.isDigit_of_mem_toDigits (by decide) (by decide) hc
  simp only [keyNat, h1, h2, ne_eq, Nat.toDigits_ne_nil, not_false_eq_true, and_self, ↓reduceIte,
    Nat.ofDigitChars_ten_toDigits]

theorem readEntry_J (nm : JNames) (names : List (Nat × String)) (d : Nat) (v : FieldValue) :
    readEntry (.arr [nameOf names d, fieldValueJ nm v]) = some (nameBytes names d, normFieldValue nm v) := by
  simp only [readEntry, getStr_nameOf, readFieldValue_J]

/-- strictly ascending indices (what a `BTreeMap<usize, _>` iterates) -/
def KeysAsc (r : Rec) : Prop := (r.map (·.1)).Pairwise (· < ·)

theorem readRec_J (nm : JNames) (names : List (Nat × String)) :
    ∀ (r : Rec), KeysAsc r → readRec (recJ nm names r) = some (normRecN nm names r) := by
  intro r
  simp only [readRec, recJ, normRecN]
  induction r with
  | nil => intro _; rfl
  | cons e r ih =>
    intro h
    simp only [KeysAsc, List.map_cons, List.pairwise_cons] at h
    have ih' := ih h.2
    simp only [List.map_cons, readMembers, keyNat_toString, readEntry_J, ih']
    cases r with
    | nil => rfl
    | cons e' r' =>
      have : e.1 < e'.1 := h.1 _ (by simp)
      simp [amInsert, this]

/-! ### fixed-layout structs: lookup by name -/

theorem lookup_of_mem {β : Type} : ∀ {l : List (String × β)} {a : String} {b : β},
    (l.map (·.1)).Nodup → (a, b) ∈ l → l.lookup a = some b
  | [], _, _, _, h => by cases h
  | (k, v) :: l, a, b, hn, h => by
    simp only [List.map_cons, List.nodup_cons] at hn
    rcases List.mem_cons.mp h with h1 | h2
    · simp only [Prod.mk.injEq] at h1
      obtain ⟨rfl, rfl⟩ := h1
      simp [List.lookup]
    · have hne : a ≠ k := by
        intro e
        subst e
        exact hn.1 (List.mem_map.mpr ⟨(a, b), h2, rfl⟩)
      have : (a == k) = false := by simpa using hne
      simp only [List.lookup, this]
      exact lookup_of_mem hn.2 h2

theorem readScalar_lfieldJ (nm : JNames) (f : LField) (v : Nat) :
    readScalar (lfieldJ nm f v) = some (normLField nm f v) := by
  unfold lfieldJ normLField
  cases f.kind <;> simp only [readScalar_nameOf]
  all_goals (split <;> simp)

/-- a struct object is read back member by member, each found by its name, whenever the layout's field names are
    pairwise distinct and there is one value per field -/
theorem readStruct_J (nm : JNames) (lay : Layout) (vals : List Nat) (hn : (lay.map (·.name)).Nodup)
    (hl : vals.length = lay.length) :
    readStruct (lay.map (·.name)) (layoutJ nm lay vals) = some (normStruct nm lay vals) := by
  have hz : lay.map (·.name) = (lay.zip vals).map (fun p => p.1.name) := by
    have : (lay.zip vals).map (fun p => p.1.name) = ((lay.zip vals).map Prod.fst).map (·.name) := by
      simp [List.map_map]
    rw [this, List.map_fst_zip (by omega)]
  rw [layoutJ_eq, readStruct, normStruct, hz]
  apply optAll_map
  intro p hp
  have hk : (((lay.zip vals).map fun p => (p.1.name, lfieldJ nm p.1 p.2)).map (·.1)).Nodup := by
    rw [List.map_map]
    have : ((fun x : String × JVal => x.1) ∘ fun p : LField × Nat => (p.1.name, lfieldJ nm p.1 p.2)) =
        fun p => p.1.name := rfl
    rw [this, ← hz]; exact hn
  have hm : (p.1.name, lfieldJ nm p.1 p.2) ∈ (lay.zip vals).map fun p => (p.1.name, lfieldJ nm p.1 p.2) :=
    List.mem_map.mpr ⟨p, hp, rfl⟩
  simp only [fieldWith, field, lookup_of_mem hk hm, readScalar_lfieldJ, Option.map_some]

/-! ### template definitions -/

theorem readTField_J (names : List (Nat × String)) (disc : Nat → Nat) (f : TField) :
    readTField (tfieldJ names disc f) = some (normTField names disc f) := by
  simp [readTField, tfieldJ, normTField, fieldWith, fieldOpt, field, List.lookup]

theorem readTField_ipJ (c : Config) (nm : JNames) (f : IpTField) :
    readTField (ipTFieldJ c nm f) = some (normIpTField c nm f) := by
  obtain ⟨t, l, e⟩ := f
  cases e <;> simp [readTField, ipTFieldJ, normIpTField, fieldWith, fieldOpt, field, List.lookup]

/-! ### V9 set bodies -/

/-- every record of every data body has strictly ascending indices -/
def V9Asc : V9Body → Prop
  | .data recs _ => ∀ r ∈ recs, KeysAsc r
  | _ => True

def IpAsc : IpBody → Prop
  | .data recs _ => ∀ r ∈ recs, KeysAsc r
  | .optData recs _ => ∀ r ∈ recs, KeysAsc r
  | _ => True

theorem readV9Body_J (c : Config) (nm : JNames) (b : V9Body) (h : V9Asc b) :
    readV9Body (v9BodyJ c nm b) = some (normV9Body c nm b) := by
  cases b with
  | templates ts pad =>
    have e := optAll_map' (f := readV9Template) (h := fun t : V9Template =>
      ({ id := t.id, fieldCount := t.fieldCount, fields := t.fields.map (normTField nm.v9Field c.t.v9Field) } : NV9Template))
      (g := fun t : V9Template => JVal.obj [("template_id", .num t.id), ("field_count", .num t.fieldCount),
            ("fields", .arr (t.fields.map (tfieldJ nm.v9Field c.t.v9Field)))]) ts (by
        intro t
        simp [readV9Template, fieldWith, fieldArr, field, List.lookup, optAll_map' _ (readTField_J _ _)])
    simp [readV9Body, v9BodyJ, normV9Body, fieldArr, fieldWith, field, List.lookup, e]
  | optTemplates ts pad =>
    have e := optAll_map' (f := readV9OptTemplate) (h := fun t : V9OptTemplate =>
      ({ id := t.id, scopeLen := t.scopeLen, optLen := t.optLen,
         scope := t.scope.map (normTField nm.scope c.t.scopeField),
         opts := t.opts.map (normTField nm.v9Field c.t.v9Field) } : NV9OptTemplate))
      (g := fun t : V9OptTemplate => JVal.obj [("template_id", .num t.id), ("options_scope_length", .num t.scopeLen),
            ("options_length", .num t.optLen),
            ("scope_fields", .arr (t.scope.map (tfieldJ nm.scope c.t.scopeField))),
            ("option_fields", .arr (t.opts.map (tfieldJ nm.v9Field c.t.v9Field)))]) ts (by
        intro t
        simp [readV9OptTemplate, fieldWith, fieldArr, field, List.lookup, optAll_map' _ (readTField_J _ _)])
    simp [readV9Body, v9BodyJ, normV9Body, fieldArr, fieldWith, field, List.lookup, e]
  | data recs pad =>
    have e := optAll_map (f := readRec) (g := recJ nm nm.v9Field) (h := normRecN nm nm.v9Field)
      (fun r hr => readRec_J nm nm.v9Field r (h r hr))
    simp [readV9Body, v9BodyJ, normV9Body, fieldArr, fieldWith, field, List.lookup, e]
  | optData ss os pad =>
    have e1 := optAll_map' (f := readScopeData) (g := fun s : Nat × Bytes => JVal.obj [(scopeDataName s.1, bytesJ s.2)])
      (h := fun s : Nat × Bytes => (scopeDataName s.1, s.2)) ss (by intro s; simp [readScopeData])
    have e2 := optAll_map' (f := readOptionData)
      (g := fun o : Nat × Bytes => JVal.obj [("field_type", nameOf nm.v9Field o.1), ("field_value", bytesJ o.2)])
      (h := fun o : Nat × Bytes => (nameBytes nm.v9Field o.1, o.2)) os (by
        intro o; simp [readOptionData, fieldWith, field, List.lookup])
    simp [readV9Body, v9BodyJ, normV9Body, fieldArr, fieldWith, field, List.lookup, e1, e2]

theorem readV9Set_J (c : Config) (nm : JNames) (s : V9Set) (h : V9Asc s.body) :
    readV9Set (.obj [("header", .obj [("flowset_id", .num s.id), ("length", .num s.len)]), ("body", v9BodyJ c nm s.body)]) =
      some { id := s.id, len := s.len, body := normV9Body c nm s.body } := by
  simp [readV9Set, fieldWith, field, List.lookup, readV9Body_J c nm s.body h]

/-! ### IPFIX set bodies -/

theorem readIpBody_J (c : Config) (nm : JNames) (b : IpBody) (h : IpAsc b) :
    readIpBody (ipBodyJ c nm b) = some (normIpBody c nm b) := by
  cases b with
  | template t =>
    simp [readIpBody, ipBodyJ, normIpBody, fieldWith, fieldArr, field, List.lookup, optAll_map' _ (readTField_ipJ c nm)]
  | optTemplate t =>
    simp [readIpBody, ipBodyJ, normIpBody, fieldWith, fieldArr, field, List.lookup, optAll_map' _ (readTField_ipJ c nm)]
  | data recs pad =>
    have e := optAll_map (f := readRec) (g := recJ nm nm.ipField) (h := normRecN nm nm.ipField)
      (fun r hr => readRec_J nm nm.ipField r (h r hr))
    simp [readIpBody, ipBodyJ, normIpBody, fieldArr, fieldWith, field, List.lookup, e]
  | optData recs pad =>
    have e := optAll_map (f := readRec) (g := recJ nm nm.ipField) (h := normRecN nm nm.ipField)
      (fun r hr => readRec_J nm nm.ipField r (h r hr))
    simp [readIpBody, ipBodyJ, normIpBody, fieldArr, fieldWith, field, List.lookup, e]

theorem readIpSet_J (c : Config) (nm : JNames) (s : IpSet) (h : IpAsc s.body) :
    readIpSet (.obj [("header", .obj [("header_id", .num s.id), ("length", .num s.len)]), ("body", ipBodyJ c nm s.body)]) =
      some { id := s.id, len := s.len, body := normIpBody c nm s.body } := by
  simp [readIpSet, fieldWith, field, List.lookup, readIpBody_J c nm s.body h]

/-! ### error elements -/

theorem readErrKind_J (k : ErrKind) : readErrKind (errKindJ k) = some (normErr k) := by
  cases k <;> simp [readErrKind, errKindJ, normErr, fieldWith, field, List.lookup]

/-! ### whole packets -/

/-- the Rust field names of each of the six derive(Nom) structs are pairwise distinct -/
structure SchemaOk (c : Config) : Prop where
  v5Hdr : (c.t.v5Hdr.map (·.name)).Nodup
  v5Rec : (c.t.v5Rec.map (·.name)).Nodup
  v7Hdr : (c.t.v7Hdr.map (·.name)).Nodup
  v7Rec : (c.t.v7Rec.map (·.name)).Nodup
  v9Hdr : (c.t.v9Hdr.map (·.name)).Nodup
  ipHdr : (c.t.ipHdr.map (·.name)).Nodup

theorem layoutWf_length {nm : JNames} {lay : Layout} {vals : List Nat} (h : layoutWf nm lay vals = true) :
    vals.length = lay.length := by
  simp only [layoutWf, Bool.and_eq_true, beq_iff_eq] at h
  exact h.1

theorem readHdrSets_J {α β γ : Type} {rh : JVal → Option α} {rs : JVal → Option β} {hj : JVal} {ha : α}
    {l : List γ} {g : γ → JVal} {f : γ → β} (h1 : rh hj = some ha) (h2 : ∀ x ∈ l, rs (g x) = some (f x)) :
    readHdrSets rh rs (.obj [("header", hj), ("flowsets", .arr (l.map g))]) = some (ha, l.map f) := by
  simp [readHdrSets, fieldWith, fieldArr, field, List.lookup, h1, optAll_map h2]

/-- READ-BACK, parametric form: for any tables whose struct field names are pairwise distinct, any packet with one
    value per struct field (`pktWf`) and index-sorted records, the name-keyed reader applied to the JSON tree of the
    packet returns the packet's normal form. -/
theorem readJ_toJ (c : Config) (nm : JNames) (hs : SchemaOk c) (p : Packet) (hw : pktWf c nm p = true)
    (hk : PktAll V9Asc IpAsc p) : readJ (schemaOf c) (toJ c nm p) = some (normPkt c nm p) := by
  cases p with
  | v5 h rs =>
    simp only [pktWf, Bool.and_eq_true, List.all_eq_true] at hw
    have e := readHdrSets_J (rh := readStruct (schemaOf c).v5Hdr) (rs := readStruct (schemaOf c).v5Rec)
      (g := layoutJ nm c.t.v5Rec) (f := normStruct nm c.t.v5Rec)
      (readStruct_J nm c.t.v5Hdr h hs.v5Hdr (layoutWf_length hw.1))
      (fun r hr => readStruct_J nm c.t.v5Rec r hs.v5Rec (layoutWf_length (hw.2 r hr)))
    simp [readJ, toJ, normPkt, e]
  | v7 h rs =>
    simp only [pktWf, Bool.and_eq_true, List.all_eq_true] at hw
    have e := readHdrSets_J (rh := readStruct (schemaOf c).v7Hdr) (rs := readStruct (schemaOf c).v7Rec)
      (g := layoutJ nm c.t.v7Rec) (f := normStruct nm c.t.v7Rec)
      (readStruct_J nm c.t.v7Hdr h hs.v7Hdr (layoutWf_length hw.1))
      (fun r hr => readStruct_J nm c.t.v7Rec r hs.v7Rec (layoutWf_length (hw.2 r hr)))
    simp [readJ, toJ, normPkt, e]
  | v9 h ss =>
    simp only [pktWf, Bool.and_eq_true, List.all_eq_true] at hw
    have e := readHdrSets_J (rh := readStruct (schemaOf c).v9Hdr) (rs := readV9Set)
      (g := fun s : V9Set => JVal.obj [("header", .obj [("flowset_id", .num s.id), ("length", .num s.len)]),
        ("body", v9BodyJ c nm s.body)])
      (f := fun s : V9Set => ({ id := s.id, len := s.len, body := normV9Body c nm s.body } : NV9Set))
      (readStruct_J nm c.t.v9Hdr h hs.v9Hdr (layoutWf_length hw.1))
      (fun s hs' => readV9Set_J c nm s (hk s hs'))
    simp [readJ, toJ, normPkt, e]
  | ipfix h ss =>
    simp only [pktWf, Bool.and_eq_true, List.all_eq_true] at hw
    have e := readHdrSets_J (rh := readStruct (schemaOf c).ipHdr) (rs := readIpSet)
      (g := fun s : IpSet => JVal.obj [("header", .obj [("header_id", .num s.id), ("length", .num s.len)]),
        ("body", ipBodyJ c nm s.body)])
      (f := fun s : IpSet => ({ id := s.id, len := s.len, body := normIpBody c nm s.body } : NIpSet))
      (readStruct_J nm c.t.ipHdr h hs.ipHdr (layoutWf_length hw.1))
      (fun s hs' => readIpSet_J c nm s (hk s hs'))
    simp [readJ, toJ, normPkt, e]
  | error k rem =>
    simp [readJ, toJ, normPkt, fieldWith, field, List.lookup, readErrKind_J]

/-! ### parse results have index-sorted records -/

theorem keysAsc_of_range {r : Rec} {n : Nat} (h : r.map (·.1) = List.range n) : KeysAsc r := by
  unfold KeysAsc
  rw [h]
  exact List.pairwise_lt_range

theorem v9Asc_of_keysOk {b : V9Body} (h : V9KeysOk b) : V9Asc b := by
  cases b with
  | data recs pad =>
    obtain ⟨n, hn⟩ := h
    intro r hr
    exact keysAsc_of_range (hn r hr)
  | _ => trivial

theorem singleton_of_mem_ipBlocks {n k : Nat} {l : List Nat} (h : l ∈ ipBlocks n k) : ∃ j, l = [j] := by
  simp only [ipBlocks, List.mem_flatten, List.mem_replicate] at h
  obtain ⟨bl, ⟨_, rfl⟩, hl⟩ := h
  obtain ⟨j, _, rfl⟩ := List.mem_map.mp hl
  exact ⟨j, rfl⟩

theorem keysAsc_of_blocks {recs : List Rec} {n k : Nat} (h : recs.map (fun m => m.map (·.1)) = ipBlocks n k) :
    ∀ r ∈ recs, KeysAsc r := by
  intro r hr
  have : r.map (·.1) ∈ ipBlocks n k := by
    rw [← h]; exact List.mem_map.mpr ⟨r, hr, rfl⟩
  obtain ⟨j, hj⟩ := singleton_of_mem_ipBlocks this
  unfold KeysAsc
  rw [hj]
  simp

theorem ipAsc_of_keysOk {b : IpBody} (h : IpKeysOk b) : IpAsc b := by
  cases b with
  | data recs pad => obtain ⟨n, k, hk⟩ := h; exact keysAsc_of_blocks hk
  | optData recs pad => obtain ⟨n, k, hk⟩ := h; exact keysAsc_of_blocks hk
  | _ => trivial

theorem pktAll_asc {p : Packet} (h : PktAll V9KeysOk IpKeysOk p) : PktAll V9Asc IpAsc p := by
  cases p with
  | v9 hd ss => exact fun s hs => v9Asc_of_keysOk (h s hs)
  | ipfix hd ss => exact fun s hs => ipAsc_of_keysOk (h s hs)
  | _ => trivial

/-! ### the normal form forgets nothing but paddings and width tags

  `writeN` writes a normal form as a JSON tree; `writeN (normPkt p) = toJ p`, so `toJ` factors through the normal
  form and (with `B1.toJ_inj`) two well-formed packets with the same normal form agree up to `B1.jnorm`. -/

def ofNVal : NVal → JVal
  | .nat n => .num n
  | .text b => .str b

def ofStruct (s : NStruct) : JVal := .obj (s.map fun p => (p.1, ofNVal p.2))

def ofFieldValue : NFieldValue → JVal
  | .str s => .obj [("String", .str s)]
  | .num z => .obj [("DataNumber", .num z)]
  | .f64 b => .obj [("Float64", .f64 b)]
  | .dur s ns => .obj [("Duration", .obj [("secs", .num s), ("nanos", .num ns)])]
  | .ip4 t => .obj [("Ip4Addr", .str t)]
  | .ip6 t => .obj [("Ip6Addr", .str t)]
  | .mac t => .obj [("MacAddr", .str t)]
  | .vec b => .obj [("Vec", bytesJ b)]
  | .proto n => .obj [("ProtocolType", .str n)]
  | .unknown b => .obj [("Unknown", bytesJ b)]

def ofRec (r : NRec) : JVal := .obj (r.map fun e => (toString e.1, .arr [.str e.2.1, ofFieldValue e.2.2]))

def ofTField (f : NTField) : JVal :=
  .obj ([("field_type_number", .num f.typ), ("field_type", .str f.name), ("field_length", .num f.len)] ++
        (match f.ent with | some e => [("enterprise_number", JVal.num e)] | none => []))

def ofV9Body : NV9Body → JVal
  | .templates ts =>
    .obj [("Template", .obj [("templates", .arr (ts.map fun t =>
      .obj [("template_id", .num t.id), ("field_count", .num t.fieldCount), ("fields", .arr (t.fields.map ofTField))]))])]
  | .optTemplates ts =>
    .obj [("OptionsTemplate", .obj [("templates", .arr (ts.map fun t =>
      .obj [("template_id", .num t.id), ("options_scope_length", .num t.scopeLen), ("options_length", .num t.optLen),
            ("scope_fields", .arr (t.scope.map ofTField)), ("option_fields", .arr (t.opts.map ofTField))]))])]
  | .data recs => .obj [("Data", .obj [("fields", .arr (recs.map ofRec))])]
  | .optData ss os =>
    .obj [("OptionsData", .obj [
      ("scope_fields", .arr (ss.map fun s => .obj [(s.1, bytesJ s.2)])),
      ("options_fields", .arr (os.map fun o => .obj [("field_type", .str o.1), ("field_value", bytesJ o.2)]))])]

def ofIpBody : NIpBody → JVal
  | .template i n fs =>
    .obj [("Template", .obj [("template_id", .num i), ("field_count", .num n), ("fields", .arr (fs.map ofTField))])]
  | .optTemplate i n sc fs =>
    .obj [("OptionsTemplate", .obj [("template_id", .num i), ("field_count", .num n), ("scope_field_count", .num sc),
                                    ("fields", .arr (fs.map ofTField))])]
  | .data recs => .obj [("Data", .obj [("fields", .arr (recs.map ofRec))])]
  | .optData recs => .obj [("OptionsData", .obj [("fields", .arr (recs.map ofRec))])]

def ofErr : NErr → JVal
  | .incomplete => .obj [("Incomplete", .anyStr)]
  | .partialParse v rem => .obj [("Partial", .obj [("version", .num v), ("remaining", bytesJ rem), ("error", .anyStr)])]
  | .unknownVersion rem => .obj [("UnknownVersion", bytesJ rem)]

/-- a writer of normal forms (error messages, which the normal form does not keep, as the wildcard) -/
def writeN : NormPkt → JVal
  | .v5 h rs => .obj [("V5", .obj [("header", ofStruct h), ("flowsets", .arr (rs.map ofStruct))])]
  | .v7 h rs => .obj [("V7", .obj [("header", ofStruct h), ("flowsets", .arr (rs.map ofStruct))])]
  | .v9 h ss =>
    .obj [("V9", .obj [("header", ofStruct h),
      ("flowsets", .arr (ss.map fun s =>
        .obj [("header", .obj [("flowset_id", .num s.id), ("length", .num s.len)]), ("body", ofV9Body s.body)]))])]
  | .ipfix h ss =>
    .obj [("IPFix", .obj [("header", ofStruct h),
      ("flowsets", .arr (ss.map fun s =>
        .obj [("header", .obj [("header_id", .num s.id), ("length", .num s.len)]), ("body", ofIpBody s.body)]))])]
  | .error k rem => .obj [("Error", .obj [("error", ofErr k), ("remaining", bytesJ rem)])]

theorem str_nameBytes (tbl : List (Nat × String)) (d : Nat) : JVal.str (nameBytes tbl d) = nameOf tbl d := rfl
theorem str_textOf (s : String) : JVal.str (textOf s) = strJ s := rfl

theorem ofNVal_normLField (nm : JNames) (f : LField) (v : Nat) : ofNVal (normLField nm f v) = lfieldJ nm f v := by
  unfold normLField lfieldJ
  cases f.kind
  case protoOf => rfl
  all_goals
    by_cases hc : nm.ipv4Fields.contains f.name = true
    · simp only [hc, ↓reduceIte, ofNVal, str_textOf]
    · simp only [hc, Bool.false_eq_true, ↓reduceIte, ofNVal]

theorem ofStruct_normStruct (nm : JNames) (lay : Layout) (vals : List Nat) :
    ofStruct (normStruct nm lay vals) = layoutJ nm lay vals := by
  simp [ofStruct, normStruct, layoutJ_eq, List.map_map, Function.comp_def, ofNVal_normLField]

theorem ofFieldValue_norm (nm : JNames) (v : FieldValue) : ofFieldValue (normFieldValue nm v) = fieldValueJ nm v := by
  cases v <;> simp [ofFieldValue, normFieldValue, fieldValueJ, dataNumberJ_dnInt] <;> rfl

theorem ofRec_norm (nm : JNames) (names : List (Nat × String)) (r : Rec) :
    ofRec (normRecN nm names r) = recJ nm names r := by
  simp only [ofRec, normRecN, recJ, List.map_map, Function.comp_def, ofFieldValue_norm]
  rfl

theorem ofTField_norm (names : List (Nat × String)) (disc : Nat → Nat) (f : TField) :
    ofTField (normTField names disc f) = tfieldJ names disc f := rfl

theorem ofTField_normIp (c : Config) (nm : JNames) (f : IpTField) :
    ofTField (normIpTField c nm f) = ipTFieldJ c nm f := rfl

theorem ofV9Body_norm (c : Config) (nm : JNames) (b : V9Body) : ofV9Body (normV9Body c nm b) = v9BodyJ c nm b := by
  cases b <;>
    simp [ofV9Body, normV9Body, v9BodyJ, List.map_map, Function.comp_def, ofTField_norm, ofRec_norm, str_nameBytes]

theorem ofIpBody_norm (c : Config) (nm : JNames) (b : IpBody) : ofIpBody (normIpBody c nm b) = ipBodyJ c nm b := by
  cases b <;>
    simp [ofIpBody, normIpBody, ipBodyJ, List.map_map, Function.comp_def, ofTField_normIp, ofRec_norm]

theorem ofErr_norm (k : ErrKind) : ofErr (normErr k) = errKindJ k := by cases k <;> rfl

/-- `toJ` factors through the normal form -/
theorem writeN_normPkt (c : Config) (nm : JNames) (p : Packet) : writeN (normPkt c nm p) = toJ c nm p := by
  cases p <;>
    simp [writeN, normPkt, toJ, List.map_map, Function.comp_def, ofStruct_normStruct, ofV9Body_norm, ofIpBody_norm,
      ofErr_norm]

/-! the normal form does not see paddings and width tags -/

theorem dnInt_eq_dnVal (d : DataNumber) : dnInt d = dnVal d := by cases d <;> rfl

theorem normFieldValue_normFv (nm : JNames) (v : FieldValue) : normFieldValue nm (normFv v) = normFieldValue nm v := by
  cases v <;> simp [normFv, normFieldValue, dnInt_eq_dnVal, dnVal_normDn]

theorem normRecN_normRec (nm : JNames) (names : List (Nat × String)) (r : Rec) :
    normRecN nm names (normRec r) = normRecN nm names r := by
  simp [normRecN, normRec, List.map_map, Function.comp_def, normFieldValue_normFv]

theorem normV9Body_jnorm (c : Config) (nm : JNames) (b : V9Body) : normV9Body c nm (numV9 (padV9 b)) = normV9Body c nm b := by
  cases b <;> simp [padV9, numV9, normV9Body, List.map_map, Function.comp_def, normRecN_normRec]

theorem normIpBody_jnorm (c : Config) (nm : JNames) (b : IpBody) : normIpBody c nm (numIp (padIp b)) = normIpBody c nm b := by
  cases b <;> simp [padIp, numIp, normIpBody, List.map_map, Function.comp_def, normRecN_normRec]

theorem normPkt_jnorm (c : Config) (nm : JNames) (p : Packet) : normPkt c nm (jnorm p) = normPkt c nm p := by
  cases p <;>
    simp [jnorm, erasePads, forgetWidths, normPkt, List.map_map, Function.comp_def, normV9Body_jnorm, normIpBody_jnorm]

/-! ### the reader is name-keyed: the order of the members of an object is irrelevant -/

theorem mem_of_lookup {β : Type} : ∀ {l : List (String × β)} {a : String} {b : β}, l.lookup a = some b → (a, b) ∈ l
  | [], _, _, h => by simp [List.lookup] at h
  | (k, v) :: l, a, b, h => by
    by_cases hk : a = k
    · subst hk
      simp only [List.lookup, beq_self_eq_true, Option.some.injEq] at h
      subst h
      exact List.mem_cons_self ..
    · have : (a == k) = false := by simpa using hk
      simp only [List.lookup, this] at h
      exact List.mem_cons_of_mem _ (mem_of_lookup h)

theorem lookup_perm {β : Type} {l l' : List (String × β)} (hp : l.Perm l') (hn : (l.map (·.1)).Nodup) (a : String) :
    l.lookup a = l'.lookup a := by
  have hn' : (l'.map (·.1)).Nodup := (hp.map _).nodup_iff.mp hn
  cases h : l.lookup a with
  | some b => exact (lookup_of_mem hn' (hp.mem_iff.mp (mem_of_lookup h))).symm
  | none =>
    cases h' : l'.lookup a with
    | none => rfl
    | some b =>
      have := lookup_of_mem hn (hp.mem_iff.mpr (mem_of_lookup h'))
      rw [h] at this
      cases this

/-- a member is found wherever it stands -/
theorem field_perm {kvs kvs' : List (String × JVal)} (hp : kvs.Perm kvs') (hn : (kvs.map (·.1)).Nodup) (k : String) :
    field k (.obj kvs) = field k (.obj kvs') :=
  lookup_perm hp hn k

theorem readStruct_perm (names : List String) {kvs kvs' : List (String × JVal)} (hp : kvs.Perm kvs')
    (hn : (kvs.map (·.1)).Nodup) : readStruct names (.obj kvs) = readStruct names (.obj kvs') := by
  unfold readStruct
  congr 1
  funext n
  simp only [fieldWith, field_perm hp hn n]

theorem amInsert_comm {β : Type} {i j : Nat} (hij : i ≠ j) (e f : β) :
    ∀ r : List (Nat × β), amInsert i e (amInsert j f r) = amInsert j f (amInsert i e r) := by
  intro r
  induction r with
  | nil => grind [amInsert]
  | cons kv r ih => grind [amInsert]

/-- the entries of a record object, inserted one by one into the index-sorted map -/
def foldEntries (nm : JNames) (names : List (Nat × String)) (r : Rec) : NRec :=
  r.foldr (fun e acc => amInsert e.1 (nameBytes names e.2.1, normFieldValue nm e.2.2) acc) []

theorem readMembers_fold (nm : JNames) (names : List (Nat × String)) (r : Rec) :
    readRec (recJ nm names r) = some (foldEntries nm names r) := by
  simp only [readRec, recJ, foldEntries]
  induction r with
  | nil => rfl
  | cons e r ih => simp only [List.map_cons, readMembers, keyNat_toString, readEntry_J, ih, List.foldr_cons]

theorem eq_of_key_eq : ∀ {r : Rec}, (r.map (·.1)).Nodup → ∀ x ∈ r, ∀ y ∈ r, x.1 = y.1 → x = y
  | [], _, x, hx, _, _, _ => by cases hx
  | a :: r, hn, x, hx, y, hy, e => by
    simp only [List.map_cons, List.nodup_cons] at hn
    rcases List.mem_cons.mp hx with rfl | hx' <;> rcases List.mem_cons.mp hy with rfl | hy'
    · rfl
    · exact absurd (List.mem_map.mpr ⟨y, hy', e.symm⟩) hn.1
    · exact absurd (List.mem_map.mpr ⟨x, hx', e⟩) hn.1
    · exact eq_of_key_eq hn.2 x hx' y hy' e

/-- whatever order the members of a record object are written in, the reader returns the index-sorted record -/
theorem readRec_perm (nm : JNames) (names : List (Nat × String)) (r r' : Rec) (hp : r'.Perm r) (h : KeysAsc r) :
    readRec (recJ nm names r') = some (normRecN nm names r) := by
  have hn : (r.map (·.1)).Nodup := by
    unfold KeysAsc at h
    exact h.imp (fun hlt => Nat.ne_of_lt hlt)
  have hn' : (r'.map (·.1)).Nodup := (hp.map _).nodup_iff.mpr hn
  have e : foldEntries nm names r' = foldEntries nm names r := by
    unfold foldEntries
    apply hp.foldr_eq'
    intro x hx y hy z
    by_cases hk : x.1 = y.1
    · rw [eq_of_key_eq hn' x hx y hy hk]
    · exact (amInsert_comm hk _ _ z).symm
  rw [readMembers_fold, e, ← readMembers_fold, readRec_J nm names r h]

end Netflow.P2
