/-
  Lemmas/A2State.lean — helpers for C01 / C06 / C07: outcome shapes (no panic, no fuel
  exhaustion), suffix properties, association-map algebra, generic lifting of state relations
  from the set-body parsers up to `parseBytes`.
-/
import NetflowModel.Lemmas.Consume
namespace Netflow

/-! ### no panic site -/

theorem parseIpTemplate_no_panic (b : Bytes) : parseIpTemplate b ≠ .panic := by
  unfold parseIpTemplate
  repeat' split
  all_goals simp

theorem parseIpOptTemplate_no_panic (b : Bytes) : parseIpOptTemplate b ≠ .panic := by
  unfold parseIpOptTemplate
  repeat' split
  all_goals (try simp only)
  all_goals (repeat' split)
  all_goals simp

theorem ipRecLoop_no_panic (c : Config) (fs : List IpTField) :
    ∀ (f : Nat) (i : Bytes), ipRecLoop c fs f i ≠ .panic := by
  intro f
  induction f with
  | zero => intro i; simp [ipRecLoop]
  | succ f ih =>
    intro i
    unfold ipRecLoop
    cases hp : ipParseRec c fs 0 i with
    | none => simp
    | some er =>
      obtain ⟨es, r⟩ := er
      simp only
      have := ih r
      cases hr : ipRecLoop c fs f r with
      | panic => exact absurd hr this
      | _ => split <;> (try split) <;> simp

theorem v9ParseBody_no_panic (c : Config) (st : PState) (id : Nat) (b : Bytes) :
    (v9ParseBody c st id b).2 ≠ .panic := by
  unfold v9ParseBody
  grind

theorem v9ParseSet_no_panic (c : Config) (st : PState) (i : Bytes) :
    (v9ParseSet c st i).2 ≠ .panic := by
  unfold v9ParseSet
  grind [v9ParseBody_no_panic]

theorem v9ParseSets_no_panic (c : Config) : ∀ (n : Nat) (st : PState) (i : Bytes),
    (v9ParseSets c n st i).2 ≠ .panic := by
  intro n
  induction n with
  | zero => intro st i; simp [v9ParseSets]
  | succ n ih =>
    intro st i
    unfold v9ParseSets
    grind [v9ParseSet_no_panic]

theorem parseV9_no_panic (c : Config) (st : PState) (i : Bytes) :
    (parseV9 c st i).2 ≠ .panic := by
  unfold parseV9
  grind [v9ParseSets_no_panic]

theorem ipParseBody_no_panic (c : Config) (st : PState) (id : Nat) (b : Bytes) :
    (ipParseBody c st id b).2 ≠ .panic := by
  unfold ipParseBody
  grind [parseIpTemplate_no_panic, parseIpOptTemplate_no_panic, ipRecLoop_no_panic]

theorem ipParseSet_no_panic (c : Config) (st : PState) (i : Bytes) :
    (ipParseSet c st i).2 ≠ .panic := by
  unfold ipParseSet
  grind [ipParseBody_no_panic]

theorem ipParseSets_no_panic (c : Config) : ∀ (n : Nat) (st : PState) (i : Bytes),
    (ipParseSets c n st i).2 ≠ .panic := by
  intro n
  induction n with
  | zero => intro st i; simp [ipParseSets]
  | succ n ih =>
    intro st i
    unfold ipParseSets
    grind [ipParseSet_no_panic]

theorem parseIpfix_no_panic (c : Config) (st : PState) (i : Bytes) :
    (parseIpfix c st i).2 ≠ .panic := by
  unfold parseIpfix
  grind [ipParseSets_no_panic]

theorem liftRes_panic {v : Nat} {b : Bytes} {r : Res (Packet × Bytes)} : liftRes v b r = .panic ↔ r = .panic := by
  cases r <;> simp [liftRes]

theorem liftRes_overflow {v : Nat} {b : Bytes} {r : Res (Packet × Bytes)} : liftRes v b r = .overflow ↔ r = .overflow := by
  cases r <;> simp [liftRes]

theorem parseVersioned_no_panic (c : Config) (st : PState) (k : Nat) (i : Bytes) :
    (parseVersioned c st k i).2 ≠ .panic := by
  unfold parseVersioned
  grind [parseIpfix_no_panic, parseV9_no_panic, liftRes_panic]

theorem parsePacket_no_panic (c : Config) (st : PState) (i : Bytes) :
    (parsePacket c st i).2 ≠ .panic := by
  unfold parsePacket
  grind [parseVersioned_no_panic]

theorem Outcome.cons_panic {p : Packet} {o : Outcome} {ps : List Packet} :
    o.cons p = .panic ps → ∃ ps', o = .panic ps' := by
  cases o <;> simp [Outcome.cons]

theorem Outcome.cons_overflow {p : Packet} {o : Outcome} {ps : List Packet} :
    o.cons p = .overflow ps → ∃ ps', o = .overflow ps' := by
  cases o <;> simp [Outcome.cons]

theorem parseBytesF_no_panic (c : Config) : ∀ (n : Nat) (st : PState) (i : Bytes) (ps : List Packet),
    (parseBytesF c n st i).2 ≠ .panic ps := by
  intro n
  induction n with
  | zero => intro st i; simp [parseBytesF]
  | succ n ih =>
    intro st i
    unfold parseBytesF
    grind [parsePacket_no_panic, Outcome.cons_panic]

/-! ### suffix property and fuel sufficiency -/

/-- a parser that only ever returns a suffix-length remainder -/
def Suffix {α : Type} (p : P α) : Prop := ∀ i a r, p i = some (a, r) → r.length ≤ i.length

theorem Consumes.suffix {α : Type} {p : P α} {n : Nat} (h : Consumes p n) : Suffix p := by
  intro i a r hp
  obtain ⟨_, h2⟩ := h i a r hp
  rw [h2, List.length_drop]; omega

theorem beU_suffix (w : Nat) : Suffix (beU w) := by
  intro i a r h
  obtain ⟨_, _, h3⟩ := beU_some h
  rw [h3, List.length_drop]; omega

theorem takeN_suffix (w : Nat) : Suffix (takeN w) := by
  intro i a r h
  obtain ⟨_, _, h3⟩ := takeN_some h
  rw [h3, List.length_drop]; omega

theorem countP_suffix {α : Type} {p : P α} (hp : Suffix p) : ∀ n, Suffix (countP p n) := by
  intro n
  induction n with
  | zero => intro i a r h; simp [countP] at h; simp [h.2.symm]
  | succ n ih =>
    intro i a r h
    simp only [countP] at h
    cases h1 : p i with
    | none => simp [h1] at h
    | some ar =>
      obtain ⟨a1, r1⟩ := ar
      simp only [h1] at h
      cases h2 : countP p n r1 with
      | none => simp [h2] at h
      | some asr =>
        obtain ⟨as, r2⟩ := asr
        simp only [h2, Option.some.injEq, Prod.mk.injEq] at h
        have := hp _ _ _ h1
        have := ih _ _ _ h2
        rw [← h.2]; omega

theorem parseTField_suffix : Suffix parseTField := by
  intro i a r h
  unfold parseTField at h
  have := beU_suffix 2
  unfold Suffix at this
  grind

theorem parseV9Template_suffix : Suffix parseV9Template := by
  intro i a r h
  unfold parseV9Template at h
  have := beU_suffix 2
  have := countP_suffix parseTField_suffix
  unfold Suffix at *
  grind

theorem parseV9OptTemplate_suffix : Suffix parseV9OptTemplate := by
  intro i a r h
  unfold parseV9OptTemplate at h
  have hb := beU_suffix 2
  have hc := countP_suffix parseTField_suffix
  cases h1 : beU 2 i with
  | none => simp [h1] at h
  | some x1 =>
    obtain ⟨id, r1⟩ := x1
    simp only [h1] at h
    cases h2 : beU 2 r1 with
    | none => simp [h2] at h
    | some x2 =>
      obtain ⟨sl, r2⟩ := x2
      simp only [h2] at h
      cases h3 : beU 2 r2 with
      | none => simp [h3] at h
      | some x3 =>
        obtain ⟨ol, r3⟩ := x3
        simp only [h3] at h
        cases h4 : countP parseTField (sl / 4) r3 with
        | none => simp [h4] at h
        | some x4 =>
          obtain ⟨ss, r4⟩ := x4
          simp only [h4] at h
          cases h5 : countP parseTField (ol / 4) r4 with
          | none => simp [h5] at h
          | some x5 =>
            obtain ⟨os, r5⟩ := x5
            simp only [h5, Option.some.injEq, Prod.mk.injEq] at h
            have := hb _ _ _ h1
            have := hb _ _ _ h2
            have := hb _ _ _ h3
            have := hc _ _ _ _ h4
            have := hc _ _ _ _ h5
            rw [← h.2]; omega

theorem parseIpTField_suffix : Suffix parseIpTField := by
  intro i a r h
  unfold parseIpTField at h
  have := beU_suffix 2
  have := beU_suffix 4
  unfold Suffix at *
  grind

/-- `many0` never runs out of fuel with the fuel the model gives it -/
theorem many0F_fuel {α : Type} {p : P α} (hp : Suffix p) :
    ∀ (f : Nat) (i : Bytes), i.length < f → many0F p f i ≠ .outOfFuel := by
  intro f
  induction f with
  | zero => intro i h; omega
  | succ f ih =>
    intro i h
    unfold many0F
    cases h1 : p i with
    | none => simp
    | some ar =>
      obtain ⟨a, r⟩ := ar
      simp only
      have := hp _ _ _ h1
      by_cases he : r.length = i.length
      · simp [he]
      · simp only [he, ↓reduceIte]
        have := ih r (by omega)
        grind

theorem many0_fuel {α : Type} {p : P α} (hp : Suffix p) (i : Bytes) : many0 p i ≠ .outOfFuel :=
  many0F_fuel hp _ _ (Nat.lt_succ_self _)

/-! ### no fuel exhaustion -/

theorem parseIpTemplate_no_overflow (b : Bytes) : parseIpTemplate b ≠ .overflow := by
  unfold parseIpTemplate
  have := fun i => many0_fuel parseIpTField_suffix i
  grind

theorem parseIpOptTemplate_no_overflow (b : Bytes) : parseIpOptTemplate b ≠ .overflow := by
  unfold parseIpOptTemplate
  repeat' split
  all_goals (try simp only)
  all_goals (repeat' split)
  all_goals simp

/-- every iteration of the IPFIX record loop that goes on has consumed at least one byte -/
theorem ipRecLoop_fuel (c : Config) (fs : List IpTField) :
    ∀ (f : Nat) (i : Bytes), i.length < f → ipRecLoop c fs f i ≠ .overflow := by
  intro f
  induction f with
  | zero => intro i h; omega
  | succ f ih =>
    intro i h
    unfold ipRecLoop
    cases hp : ipParseRec c fs 0 i with
    | none => simp
    | some er =>
      obtain ⟨es, r⟩ := er
      simp only
      by_cases h0 : i.length - r.length = 0
      · simp [h0]
      · simp only [h0, ↓reduceIte]
        have := ih r (by omega)
        grind

theorem v9ParseBody_no_overflow (c : Config) (st : PState) (id : Nat) (b : Bytes) :
    (v9ParseBody c st id b).2 ≠ .overflow := by
  unfold v9ParseBody
  have := fun i => many0_fuel parseV9Template_suffix i
  have := fun i => many0_fuel parseV9OptTemplate_suffix i
  grind

theorem v9ParseSet_no_overflow (c : Config) (st : PState) (i : Bytes) :
    (v9ParseSet c st i).2 ≠ .overflow := by
  unfold v9ParseSet
  grind [v9ParseBody_no_overflow]

theorem v9ParseSets_no_overflow (c : Config) : ∀ (n : Nat) (st : PState) (i : Bytes),
    (v9ParseSets c n st i).2 ≠ .overflow := by
  intro n
  induction n with
  | zero => intro st i; simp [v9ParseSets]
  | succ n ih =>
    intro st i
    unfold v9ParseSets
    grind [v9ParseSet_no_overflow]

theorem parseV9_no_overflow (c : Config) (st : PState) (i : Bytes) :
    (parseV9 c st i).2 ≠ .overflow := by
  unfold parseV9
  grind [v9ParseSets_no_overflow]

theorem ipParseBody_no_overflow (c : Config) (st : PState) (id : Nat) (b : Bytes) :
    (ipParseBody c st id b).2 ≠ .overflow := by
  unfold ipParseBody
  have := fun fs => ipRecLoop_fuel c fs (b.length + 1) b (Nat.lt_succ_self _)
  grind [parseIpTemplate_no_overflow, parseIpOptTemplate_no_overflow]

theorem ipParseSet_no_overflow (c : Config) (st : PState) (i : Bytes) :
    (ipParseSet c st i).2 ≠ .overflow := by
  unfold ipParseSet
  grind [ipParseBody_no_overflow]

/-! ### every stage returns a suffix of its input (no hypothesis on the tables) -/

theorem parseLayout_suffix (proto : Nat → Nat) (lay : Layout) : Suffix (parseLayout proto lay) :=
  (parseLayout_consumes proto lay).suffix

theorem ipParseSet_suffix (c : Config) (st st' : PState) (i : Bytes) (s : IpSet) (r : Bytes)
    (h : ipParseSet c st i = (st', .ok (s, r))) : r.length ≤ i.length := by
  unfold ipParseSet at h
  have h1 := parseLayout_suffix c.t.protoFromU8 c.t.ipSetHdr
  have h2 := fun w => takeN_suffix w
  unfold Suffix at h1 h2
  grind

theorem v9ParseSet_suffix (c : Config) (st st' : PState) (i : Bytes) (s : V9Set) (r : Bytes)
    (h : v9ParseSet c st i = (st', .ok (s, r))) : r.length ≤ i.length := by
  unfold v9ParseSet at h
  have h1 := parseLayout_suffix c.t.protoFromU8 c.t.v9SetHdr
  have h2 := fun w => takeN_suffix w
  unfold Suffix at h1 h2
  grind

theorem v9ParseSets_suffix (c : Config) : ∀ (n : Nat) (st st' : PState) (i : Bytes) (ss : List V9Set) (r : Bytes),
    v9ParseSets c n st i = (st', .ok (ss, r)) → r.length ≤ i.length := by
  intro n
  induction n with
  | zero => intro st st' i ss r h; simp [v9ParseSets] at h; simp [h.2.2]
  | succ n ih =>
    intro st st' i ss r h
    unfold v9ParseSets at h
    have := v9ParseSet_suffix c
    grind

theorem parseV9_suffix (c : Config) (st st' : PState) (i : Bytes) (p : Packet) (r : Bytes)
    (h : parseV9 c st i = (st', .ok (p, r))) : r.length ≤ i.length := by
  unfold parseV9 at h
  have h1 := parseLayout_suffix c.t.protoFromU8 c.t.v9Hdr
  have h2 := v9ParseSets_suffix c
  unfold Suffix at h1
  grind

theorem parseIpfix_suffix (c : Config) (st st' : PState) (i : Bytes) (p : Packet) (r : Bytes)
    (h : parseIpfix c st i = (st', .ok (p, r))) : r.length ≤ i.length := by
  unfold parseIpfix at h
  have h1 := parseLayout_suffix c.t.protoFromU8 c.t.ipHdr
  have h2 := fun w => takeN_suffix w
  unfold Suffix at h1 h2
  grind

theorem parseFixed_suffix (c : Config) (hdr rec : Layout) : Suffix (parseFixed c hdr rec) := by
  intro i a r h
  obtain ⟨hd, rs⟩ := a
  obtain ⟨_, h2, _⟩ := parseFixed_consumes c hdr rec i hd rs r h
  rw [h2, List.length_drop]; omega

theorem liftRes_ok {v : Nat} {b : Bytes} {x : Res (Packet × Bytes)} {p : Packet} {r : Bytes} :
    liftRes v b x = .ok p r ↔ x = .ok (p, r) := by
  cases x with
  | ok a => obtain ⟨p', r'⟩ := a; simp [liftRes]
  | _ => simp [liftRes]

theorem parseVersioned_suffix (c : Config) (st st' : PState) (k : Nat) (i : Bytes) (p : Packet) (r : Bytes)
    (h : parseVersioned c st k i = (st', .ok p r)) : r.length ≤ i.length := by
  unfold parseVersioned at h
  have h1 := parseFixed_suffix c c.t.v5Hdr c.t.v5Rec
  have h2 := parseFixed_suffix c c.t.v7Hdr c.t.v7Rec
  have h3 := parseV9_suffix c st
  have h4 := parseIpfix_suffix c st
  unfold Suffix at h1 h2
  grind [liftRes_ok]

/-- a successfully parsed packet consumed at least its 2-byte version word -/
theorem parsePacket_progress (c : Config) (st st' : PState) (buf : Bytes) (p : Packet) (r : Bytes)
    (h : parsePacket c st buf = (st', .ok p r)) : r.length + 2 ≤ buf.length := by
  rcases parsePacket_inv c st st' buf _ h with ⟨_, _, hs⟩ | ⟨_, _, _, _, hs⟩ | ⟨_, _, _, _, _, hs⟩ | ⟨v, k, hv, _, _, hp⟩
  · simp at hs
  · simp at hs
  · simp at hs
  · have h1 := parseVersioned_suffix c _ _ _ _ _ _ hp
    have := (beU_some hv).1
    rw [List.length_drop] at h1
    omega

/-- the IPFIX set loop: a set that parsed either made progress or the loop stops -/
theorem ipParseSets_fuel (c : Config) : ∀ (f : Nat) (st : PState) (i : Bytes), i.length < f →
    (ipParseSets c f st i).2 ≠ .overflow := by
  intro f
  induction f with
  | zero => intro st i h; omega
  | succ f ih =>
    intro st i h
    unfold ipParseSets
    cases hs : ipParseSet c st i with
    | mk st1 res =>
      cases res with
      | ok sr =>
        obtain ⟨s, r⟩ := sr
        have := ipParseSet_suffix c _ _ _ _ _ hs
        simp only
        by_cases he : r.length = i.length
        · simp [he]
        · simp only [he, ↓reduceIte]
          have := ih st1 r (by omega)
          grind
      | err => simp
      | panic => simp
      | overflow =>
        have := ipParseSet_no_overflow c st i
        rw [hs] at this
        simp at this

theorem parseIpfix_no_overflow (c : Config) (st : PState) (i : Bytes) :
    (parseIpfix c st i).2 ≠ .overflow := by
  unfold parseIpfix
  have := fun st b => ipParseSets_fuel c (List.length b + 1) st b (Nat.lt_succ_self _)
  grind

theorem parseVersioned_no_overflow (c : Config) (st : PState) (k : Nat) (i : Bytes) :
    (parseVersioned c st k i).2 ≠ .overflow := by
  unfold parseVersioned
  grind [parseIpfix_no_overflow, parseV9_no_overflow, liftRes_overflow]

theorem parsePacket_no_overflow (c : Config) (st : PState) (i : Bytes) :
    (parsePacket c st i).2 ≠ .overflow := by
  unfold parsePacket
  grind [parseVersioned_no_overflow]

/-- the packet loop: every packet that is followed by another one consumed ≥ 2 bytes -/
theorem parseBytesF_fuel_a2 (c : Config) : ∀ (f : Nat) (st : PState) (buf : Bytes) (ps : List Packet),
    buf.length < f → (parseBytesF c f st buf).2 ≠ .overflow ps := by
  intro f
  induction f with
  | zero => intro st buf ps h; omega
  | succ f ih =>
    intro st buf ps h
    unfold parseBytesF
    by_cases he : buf.isEmpty = true
    · simp [he]
    · simp only [he, Bool.false_eq_true, ↓reduceIte]
      cases hp : parsePacket c st buf with
      | mk st1 step =>
        cases step with
        | ok pkt rest =>
          have := parsePacket_progress c _ _ _ _ _ hp
          have := fun ps => ih st1 rest ps (by omega)
          simp only
          grind [Outcome.cons_overflow]
        | fail e => simp
        | unallowed => simp
        | panic => simp
        | overflow =>
          have := parsePacket_no_overflow c st buf
          rw [hp] at this
          simp at this

/-- `parse_bytes` (model) always returns a list: no panic outcome, no fuel exhaustion -/
theorem parseBytes_done (c : Config) (st : PState) (buf : Bytes) :
    ∃ pkts, (parseBytes c st buf).2 = .done pkts := by
  cases h : (parseBytes c st buf).2 with
  | done ps => exact ⟨ps, rfl⟩
  | panic ps => exact absurd h (parseBytesF_no_panic c _ _ _ _)
  | overflow ps => exact absurd h (parseBytesF_fuel_a2 c _ _ _ _ (Nat.lt_succ_self _))

/-- packets returned: two bytes each except possibly the last element -/
theorem parseBytesF_count (c : Config) : ∀ (f : Nat) (st st' : PState) (buf : Bytes) (ps : List Packet),
    parseBytesF c f st buf = (st', .done ps) → 2 * ps.length ≤ buf.length + 1 := by
  intro f
  induction f with
  | zero => intro st st' buf ps h; simp [parseBytesF] at h
  | succ f ih =>
    intro st st' buf ps h
    unfold parseBytesF at h
    by_cases he : buf.isEmpty = true
    · simp only [he, ↓reduceIte, Prod.mk.injEq, Outcome.done.injEq] at h
      rw [← h.2]; simp
    · simp only [he, Bool.false_eq_true, ↓reduceIte] at h
      have hne : 1 ≤ buf.length := by
        cases buf with
        | nil => simp at he
        | cons => simp
      cases hp : parsePacket c st buf with
      | mk st1 step =>
        simp only [hp] at h
        cases step with
        | ok pkt rest =>
          have := parsePacket_progress c _ _ _ _ _ hp
          simp only at h
          by_cases hr : rest.isEmpty = true
          · simp only [hr, ↓reduceIte, Prod.mk.injEq, Outcome.done.injEq] at h
            rw [← h.2]; simp; omega
          · simp only [hr, Bool.false_eq_true, ↓reduceIte] at h
            cases hrec : parseBytesF c f st1 rest with
            | mk st2 out =>
              simp only [hrec, Prod.mk.injEq] at h
              cases out with
              | done ps' =>
                simp only [Outcome.cons, Outcome.done.injEq] at h
                have := ih _ _ _ _ hrec
                rw [← h.2]; simp; omega
              | panic _ => simp [Outcome.cons] at h
              | overflow _ => simp [Outcome.cons] at h
        | fail e =>
          simp only [Prod.mk.injEq, Outcome.done.injEq] at h
          rw [← h.2]; simp; omega
        | unallowed =>
          simp only [Prod.mk.injEq, Outcome.done.injEq] at h
          rw [← h.2]; simp
        | panic => simp at h
        | overflow => simp at h

/-! ### lifting a relation between parser states from the set-body parsers to `parseBytes`

  `Rel2 R x y` : the two runs return the same result and `R`-related states.  Invariants are
  the special case `R s1 s2 := s1 = s2 ∧ I s1`. -/

def Rel2 {α : Type} (R : PState → PState → Prop) (x y : PState × α) : Prop := x.2 = y.2 ∧ R x.1 y.1

/-- the V9 flowset-body parser respects `R` -/
def RespV9 (c : Config) (R : PState → PState → Prop) : Prop :=
  ∀ s1 s2 id b, R s1 s2 → Rel2 R (v9ParseBody c s1 id b) (v9ParseBody c s2 id b)

/-- the IPFIX set-body parser respects `R` -/
def RespIp (c : Config) (R : PState → PState → Prop) : Prop :=
  ∀ s1 s2 id b, R s1 s2 → Rel2 R (ipParseBody c s1 id b) (ipParseBody c s2 id b)

theorem v9ParseSet_rel {c : Config} {R : PState → PState → Prop} (hR : RespV9 c R) (s1 s2 : PState) (i : Bytes)
    (h : R s1 s2) : Rel2 R (v9ParseSet c s1 i) (v9ParseSet c s2 i) := by
  unfold v9ParseSet
  cases parseLayout c.t.protoFromU8 c.t.v9SetHdr i with
  | none => exact ⟨rfl, h⟩
  | some hr =>
    obtain ⟨hd, r⟩ := hr
    simp only
    cases takeN (c.t.v9SetHdr.get "length" hd - 4) r with
    | none => exact ⟨rfl, h⟩
    | some br =>
      obtain ⟨body, r'⟩ := br
      simp only
      obtain ⟨e, hr⟩ := hR s1 s2 (c.t.v9SetHdr.get "flowset_id" hd) body h
      revert e hr
      cases v9ParseBody c s1 (c.t.v9SetHdr.get "flowset_id" hd) body with
      | mk a1 b1 =>
        cases v9ParseBody c s2 (c.t.v9SetHdr.get "flowset_id" hd) body with
        | mk a2 b2 =>
          intro e hr
          simp only at e hr
          subst e
          cases b1 <;> exact ⟨rfl, hr⟩

theorem v9ParseSets_rel {c : Config} {R : PState → PState → Prop} (hR : RespV9 c R) :
    ∀ (n : Nat) (s1 s2 : PState) (i : Bytes), R s1 s2 → Rel2 R (v9ParseSets c n s1 i) (v9ParseSets c n s2 i) := by
  intro n
  induction n with
  | zero => intro s1 s2 i h; exact ⟨rfl, h⟩
  | succ n ih =>
    intro s1 s2 i h
    unfold v9ParseSets
    by_cases he : i.isEmpty = true
    · simp only [he, ↓reduceIte]; exact ih _ _ _ h
    · simp only [he, Bool.false_eq_true, ↓reduceIte]
      obtain ⟨e, hr⟩ := v9ParseSet_rel hR s1 s2 i h
      revert e hr
      cases v9ParseSet c s1 i with
      | mk a1 b1 =>
        cases v9ParseSet c s2 i with
        | mk a2 b2 =>
          intro e hr
          simp only at e hr
          subst e
          cases b1 with
          | ok sr =>
            obtain ⟨s, r⟩ := sr
            simp only
            obtain ⟨e', hr'⟩ := ih a1 a2 r hr
            revert e' hr'
            cases v9ParseSets c n a1 r with
            | mk a1' b1' =>
              cases v9ParseSets c n a2 r with
              | mk a2' b2' =>
                intro e' hr'
                simp only at e' hr'
                subst e'
                cases b1' <;> exact ⟨rfl, hr'⟩
          | _ => exact ⟨rfl, hr⟩

theorem parseV9_rel {c : Config} {R : PState → PState → Prop} (hR : RespV9 c R) (s1 s2 : PState) (i : Bytes)
    (h : R s1 s2) : Rel2 R (parseV9 c s1 i) (parseV9 c s2 i) := by
  unfold parseV9
  cases parseLayout c.t.protoFromU8 c.t.v9Hdr i with
  | none => exact ⟨rfl, h⟩
  | some hr =>
    obtain ⟨hd, r⟩ := hr
    simp only
    obtain ⟨e, hr⟩ := v9ParseSets_rel hR (c.t.v9Hdr.get "count" hd) s1 s2 r h
    revert e hr
    cases v9ParseSets c (c.t.v9Hdr.get "count" hd) s1 r with
    | mk a1 b1 =>
      cases v9ParseSets c (c.t.v9Hdr.get "count" hd) s2 r with
      | mk a2 b2 =>
        intro e hr
        simp only at e hr
        subst e
        cases b1 <;> exact ⟨rfl, hr⟩

theorem ipParseSet_rel {c : Config} {R : PState → PState → Prop} (hR : RespIp c R) (s1 s2 : PState) (i : Bytes)
    (h : R s1 s2) : Rel2 R (ipParseSet c s1 i) (ipParseSet c s2 i) := by
  unfold ipParseSet
  cases parseLayout c.t.protoFromU8 c.t.ipSetHdr i with
  | none => exact ⟨rfl, h⟩
  | some hr =>
    obtain ⟨hd, r⟩ := hr
    simp only
    cases takeN (c.t.ipSetHdr.get "length" hd - 4) r with
    | none => exact ⟨rfl, h⟩
    | some br =>
      obtain ⟨body, r'⟩ := br
      simp only
      obtain ⟨e, hr⟩ := hR s1 s2 (c.t.ipSetHdr.get "header_id" hd) body h
      revert e hr
      cases ipParseBody c s1 (c.t.ipSetHdr.get "header_id" hd) body with
      | mk a1 b1 =>
        cases ipParseBody c s2 (c.t.ipSetHdr.get "header_id" hd) body with
        | mk a2 b2 =>
          intro e hr
          simp only at e hr
          subst e
          cases b1 <;> exact ⟨rfl, hr⟩

theorem ipParseSets_rel {c : Config} {R : PState → PState → Prop} (hR : RespIp c R) :
    ∀ (n : Nat) (s1 s2 : PState) (i : Bytes), R s1 s2 → Rel2 R (ipParseSets c n s1 i) (ipParseSets c n s2 i) := by
  intro n
  induction n with
  | zero => intro s1 s2 i h; exact ⟨rfl, h⟩
  | succ n ih =>
    intro s1 s2 i h
    unfold ipParseSets
    obtain ⟨e, hr⟩ := ipParseSet_rel hR s1 s2 i h
    revert e hr
    cases ipParseSet c s1 i with
    | mk a1 b1 =>
      cases ipParseSet c s2 i with
      | mk a2 b2 =>
        intro e hr
        simp only at e hr
        subst e
        cases b1 with
        | ok sr =>
          obtain ⟨s, r⟩ := sr
          simp only
          by_cases hl : r.length = i.length
          · simp only [hl, ↓reduceIte]; exact ⟨rfl, hr⟩
          · simp only [hl, ↓reduceIte]
            obtain ⟨e', hr'⟩ := ih a1 a2 r hr
            revert e' hr'
            cases ipParseSets c n a1 r with
            | mk a1' b1' =>
              cases ipParseSets c n a2 r with
              | mk a2' b2' =>
                intro e' hr'
                simp only at e' hr'
                subst e'
                cases b1' <;> exact ⟨rfl, hr'⟩
        | _ => exact ⟨rfl, hr⟩

theorem parseIpfix_rel {c : Config} {R : PState → PState → Prop} (hR : RespIp c R) (s1 s2 : PState) (i : Bytes)
    (h : R s1 s2) : Rel2 R (parseIpfix c s1 i) (parseIpfix c s2 i) := by
  unfold parseIpfix
  cases parseLayout c.t.protoFromU8 c.t.ipHdr i with
  | none => exact ⟨rfl, h⟩
  | some hr =>
    obtain ⟨hd, r⟩ := hr
    simp only
    cases takeN (c.t.ipHdr.get "length" hd - 16) r with
    | none => exact ⟨rfl, h⟩
    | some br =>
      obtain ⟨body, r'⟩ := br
      simp only
      obtain ⟨e, hr⟩ := ipParseSets_rel hR (body.length + 1) s1 s2 body h
      revert e hr
      cases ipParseSets c (body.length + 1) s1 body with
      | mk a1 b1 =>
        cases ipParseSets c (body.length + 1) s2 body with
        | mk a2 b2 =>
          intro e hr
          simp only at e hr
          subst e
          cases b1 <;> exact ⟨rfl, hr⟩

theorem parseVersioned_rel {c : Config} {R : PState → PState → Prop} (h9 : RespV9 c R) (hi : RespIp c R)
    (s1 s2 : PState) (k : Nat) (i : Bytes) (h : R s1 s2) :
    Rel2 R (parseVersioned c s1 k i) (parseVersioned c s2 k i) := by
  obtain ⟨e9, r9⟩ := parseV9_rel h9 s1 s2 i h
  obtain ⟨ei, ri⟩ := parseIpfix_rel hi s1 s2 i h
  unfold parseVersioned
  split
  · cases parseFixed c c.t.v5Hdr c.t.v5Rec i with
    | none => exact ⟨rfl, h⟩
    | some x => exact ⟨rfl, h⟩
  · split
    · cases parseFixed c c.t.v7Hdr c.t.v7Rec i with
      | none => exact ⟨rfl, h⟩
      | some x => exact ⟨rfl, h⟩
    · split
      · exact ⟨by simp only [e9], r9⟩
      · split
        · exact ⟨by simp only [ei], ri⟩
        · exact ⟨rfl, h⟩

theorem parsePacket_rel {c : Config} {R : PState → PState → Prop} (h9 : RespV9 c R) (hi : RespIp c R)
    (s1 s2 : PState) (i : Bytes) (h : R s1 s2) :
    Rel2 R (parsePacket c s1 i) (parsePacket c s2 i) := by
  unfold parsePacket
  cases beU 2 i with
  | none => exact ⟨rfl, h⟩
  | some vb =>
    obtain ⟨v, body⟩ := vb
    simp only
    split
    · cases c.t.dispatch.lookup v with
      | none => exact ⟨rfl, h⟩
      | some k => exact parseVersioned_rel h9 hi s1 s2 k body h
    · exact ⟨rfl, h⟩

theorem parseBytesF_rel {c : Config} {R : PState → PState → Prop} (h9 : RespV9 c R) (hi : RespIp c R) :
    ∀ (f : Nat) (s1 s2 : PState) (i : Bytes), R s1 s2 → Rel2 R (parseBytesF c f s1 i) (parseBytesF c f s2 i) := by
  intro f
  induction f with
  | zero => intro s1 s2 i h; exact ⟨rfl, h⟩
  | succ f ih =>
    intro s1 s2 i h
    unfold parseBytesF
    by_cases he : i.isEmpty = true
    · simp only [he, ↓reduceIte]; exact ⟨rfl, h⟩
    · simp only [he, Bool.false_eq_true, ↓reduceIte]
      obtain ⟨e, hr⟩ := parsePacket_rel h9 hi s1 s2 i h
      revert e hr
      cases parsePacket c s1 i with
      | mk a1 b1 =>
        cases parsePacket c s2 i with
        | mk a2 b2 =>
          intro e hr
          simp only at e hr
          subst e
          cases b1 with
          | ok pkt rest =>
            simp only
            by_cases hl : rest.isEmpty = true
            · simp only [hl, ↓reduceIte]; exact ⟨rfl, hr⟩
            · simp only [hl, Bool.false_eq_true, ↓reduceIte]
              obtain ⟨e', hr'⟩ := ih a1 a2 rest hr
              exact ⟨by simp only [e'], hr'⟩
          | _ => exact ⟨rfl, hr⟩

theorem parseBytes_rel {c : Config} {R : PState → PState → Prop} (h9 : RespV9 c R) (hi : RespIp c R)
    (s1 s2 : PState) (i : Bytes) (h : R s1 s2) : Rel2 R (parseBytes c s1 i) (parseBytes c s2 i) :=
  parseBytesF_rel h9 hi _ _ _ _ h

/-- invariants are the diagonal case of `parseBytes_rel` -/
theorem parseBytes_inv {c : Config} {I : PState → Prop}
    (h9 : ∀ st id b, I st → I (v9ParseBody c st id b).1) (hi : ∀ st id b, I st → I (ipParseBody c st id b).1)
    (st : PState) (buf : Bytes) (h : I st) : I (parseBytes c st buf).1 := by
  have := parseBytes_rel (c := c) (R := fun s1 s2 => s1 = s2 ∧ I s1)
    (by intro s1 s2 id b ⟨e, hI⟩; subst e; exact ⟨rfl, rfl, h9 _ _ _ hI⟩)
    (by intro s1 s2 id b ⟨e, hI⟩; subst e; exact ⟨rfl, rfl, hi _ _ _ hI⟩) st st buf ⟨rfl, h⟩
  exact this.2.2

theorem parseV9_inv {c : Config} {I : PState → Prop}
    (h9 : ∀ st id b, I st → I (v9ParseBody c st id b).1)
    (st : PState) (i : Bytes) (h : I st) : I (parseV9 c st i).1 := by
  have := parseV9_rel (c := c) (R := fun s1 s2 => s1 = s2 ∧ I s1)
    (by intro s1 s2 id b ⟨e, hI⟩; subst e; exact ⟨rfl, rfl, h9 _ _ _ hI⟩) st st i ⟨rfl, h⟩
  exact this.2.2

theorem parseIpfix_inv {c : Config} {I : PState → Prop}
    (hi : ∀ st id b, I st → I (ipParseBody c st id b).1)
    (st : PState) (i : Bytes) (h : I st) : I (parseIpfix c st i).1 := by
  have := parseIpfix_rel (c := c) (R := fun s1 s2 => s1 = s2 ∧ I s1)
    (by intro s1 s2 id b ⟨e, hI⟩; subst e; exact ⟨rfl, rfl, hi _ _ _ hI⟩) st st i ⟨rfl, h⟩
  exact this.2.2

/-! ### association maps -/

theorem amLookup_amInsert_a2 {β : Type} (k k' : Nat) (v : β) (m : List (Nat × β)) :
    amLookup k (amInsert k' v m) = if k = k' then some v else amLookup k m := by
  induction m with
  | nil => simp [amInsert, amLookup]
  | cons x xs ih =>
    obtain ⟨k'', v''⟩ := x
    simp only [amInsert]
    split
    · simp [amLookup]
    · split
      · rename_i h1 h2; subst h2; simp only [amLookup]; split <;> simp_all
      · rename_i h1 h2
        simp only [amLookup, ih]
        by_cases h3 : k = k''
        · have : k ≠ k' := by omega
          simp [h3]; intro h4; omega
        · simp [h3]

theorem amLookup_amErase_ne_a2 {β : Type} {k k' : Nat} (h : k ≠ k') (m : List (Nat × β)) :
    amLookup k (amErase k' m) = amLookup k m := by
  induction m with
  | nil => simp [amErase]
  | cons x xs ih =>
    obtain ⟨k'', v''⟩ := x
    simp only [amErase]
    split
    · rename_i h2; subst h2; simp [amLookup, h]
    · simp [amLookup, ih]

/-- strictly ascending keys (what the model's maps always are) -/
def amSorted {β : Type} (m : List (Nat × β)) : Prop := (m.map Prod.fst).Pairwise (· < ·)

theorem amLookup_none_of_lt {β : Type} {k : Nat} : ∀ {m : List (Nat × β)}, (∀ x ∈ m, k < x.1) → amLookup k m = none := by
  intro m
  induction m with
  | nil => intro _; rfl
  | cons x xs ih =>
    intro h
    obtain ⟨k', v'⟩ := x
    have h1 := h (k', v') List.mem_cons_self
    simp only at h1
    have : k ≠ k' := by omega
    simp only [amLookup, this, ↓reduceIte]
    exact ih (fun y hy => h y (List.mem_cons_of_mem _ hy))

theorem amLookup_amErase_self_a2 {β : Type} (k : Nat) : ∀ (m : List (Nat × β)), amSorted m →
    amLookup k (amErase k m) = none := by
  intro m
  induction m with
  | nil => intro _; rfl
  | cons x xs ih =>
    intro hs
    obtain ⟨k', v'⟩ := x
    simp only [amSorted, List.map_cons, List.pairwise_cons] at hs
    simp only [amErase]
    split
    · rename_i h; subst h
      apply amLookup_none_of_lt
      intro y hy
      exact hs.1 y.1 (List.mem_map_of_mem hy)
    · rename_i h
      simp only [amLookup, h, ↓reduceIte]
      exact ih hs.2

theorem amLookup_amErase_a2 {β : Type} (k k' : Nat) (m : List (Nat × β)) (hs : amSorted m) :
    amLookup k (amErase k' m) = if k = k' then none else amLookup k m := by
  by_cases h : k = k'
  · subst h; simp [amLookup_amErase_self_a2 k m hs]
  · simp [h, amLookup_amErase_ne_a2 h]

theorem mem_amInsert_a2 {β : Type} {k : Nat} {v : β} {x : Nat × β} : ∀ {m : List (Nat × β)},
    x ∈ amInsert k v m → x = (k, v) ∨ x ∈ m := by
  intro m
  induction m with
  | nil => intro h; simp [amInsert] at h; exact Or.inl h
  | cons y ys ih =>
    obtain ⟨k', v'⟩ := y
    simp only [amInsert]
    split
    · intro h; simp only [List.mem_cons] at h ⊢; exact h
    · split
      · intro h; simp only [List.mem_cons] at h ⊢
        rcases h with h | h
        · exact Or.inl h
        · exact Or.inr (Or.inr h)
      · intro h; simp only [List.mem_cons] at h ⊢
        rcases h with h | h
        · exact Or.inr (Or.inl h)
        · rcases ih h with h | h
          · exact Or.inl h
          · exact Or.inr (Or.inr h)

theorem mem_amErase_a2 {β : Type} {k : Nat} {x : Nat × β} : ∀ {m : List (Nat × β)},
    x ∈ amErase k m → x ∈ m := by
  intro m
  induction m with
  | nil => intro h; simp [amErase] at h
  | cons y ys ih =>
    obtain ⟨k', v'⟩ := y
    simp only [amErase]
    split
    · intro h; exact List.mem_cons_of_mem _ h
    · intro h; simp only [List.mem_cons] at h ⊢
      rcases h with h | h
      · exact Or.inl h
      · exact Or.inr (ih h)

theorem amSorted_amInsert {β : Type} (k : Nat) (v : β) : ∀ (m : List (Nat × β)), amSorted m → amSorted (amInsert k v m) := by
  intro m
  induction m with
  | nil => intro _; simp [amSorted, amInsert]
  | cons y ys ih =>
    intro hs
    obtain ⟨k', v'⟩ := y
    have hs' := hs
    simp only [amSorted, List.map_cons, List.pairwise_cons] at hs
    simp only [amInsert]
    split
    · rename_i h
      simp only [amSorted, List.map_cons, List.pairwise_cons]
      refine ⟨?_, hs⟩
      intro a ha
      simp only [List.mem_cons] at ha
      rcases ha with ha | ha
      · omega
      · have := hs.1 a ha; omega
    · split
      · rename_i h1 h2; subst h2
        simp only [amSorted, List.map_cons, List.pairwise_cons]
        exact hs
      · rename_i h1 h2
        simp only [amSorted, List.map_cons, List.pairwise_cons]
        refine ⟨?_, ih hs.2⟩
        intro a ha
        obtain ⟨x, hx, rfl⟩ := List.mem_map.mp ha
        rcases mem_amInsert_a2 hx with hx | hx
        · subst hx; simp only; omega
        · exact hs.1 x.1 (List.mem_map_of_mem hx)

theorem amSorted_amErase {β : Type} (k : Nat) : ∀ (m : List (Nat × β)), amSorted m → amSorted (amErase k m) := by
  intro m
  induction m with
  | nil => intro _; simp [amSorted, amErase]
  | cons y ys ih =>
    intro hs
    obtain ⟨k', v'⟩ := y
    simp only [amSorted, List.map_cons, List.pairwise_cons] at hs
    simp only [amErase]
    split
    · exact hs.2
    · simp only [amSorted, List.map_cons, List.pairwise_cons]
      refine ⟨?_, ih hs.2⟩
      intro a ha
      obtain ⟨x, hx, rfl⟩ := List.mem_map.mp ha
      exact hs.1 x.1 (List.mem_map_of_mem (mem_amErase_a2 hx))

/-! ### lifting a property of decoded set bodies to every packet `parseBytes` returns -/

def PktAll (Q9 : V9Body → Prop) (Qi : IpBody → Prop) : Packet → Prop
  | .v9 _ ss => ∀ s ∈ ss, Q9 s.body
  | .ipfix _ ss => ∀ s ∈ ss, Qi s.body
  | _ => True

theorem v9ParseSet_all {c : Config} {Q9 : V9Body → Prop}
    (h9 : ∀ st st' id body b, v9ParseBody c st id body = (st', .ok b) → Q9 b)
    (st st' : PState) (i : Bytes) (s : V9Set) (r : Bytes) (h : v9ParseSet c st i = (st', .ok (s, r))) : Q9 s.body := by
  unfold v9ParseSet at h
  grind

theorem v9ParseSets_all {c : Config} {Q9 : V9Body → Prop}
    (h9 : ∀ st st' id body b, v9ParseBody c st id body = (st', .ok b) → Q9 b) :
    ∀ (n : Nat) (st st' : PState) (i : Bytes) (ss : List V9Set) (r : Bytes),
      v9ParseSets c n st i = (st', .ok (ss, r)) → ∀ s ∈ ss, Q9 s.body := by
  intro n
  induction n with
  | zero => intro st st' i ss r h; simp [v9ParseSets] at h; simp [h.2.1]
  | succ n ih =>
    intro st st' i ss r h
    unfold v9ParseSets at h
    have := v9ParseSet_all h9
    grind

theorem parseV9_all {c : Config} {Q9 : V9Body → Prop} (Qi : IpBody → Prop)
    (h9 : ∀ st st' id body b, v9ParseBody c st id body = (st', .ok b) → Q9 b)
    (st st' : PState) (i : Bytes) (p : Packet) (r : Bytes) (h : parseV9 c st i = (st', .ok (p, r))) : PktAll Q9 Qi p := by
  unfold parseV9 at h
  have := v9ParseSets_all h9
  grind [PktAll]

theorem ipParseSet_all {c : Config} {Qi : IpBody → Prop}
    (hi : ∀ st st' id body b, ipParseBody c st id body = (st', .ok b) → Qi b)
    (st st' : PState) (i : Bytes) (s : IpSet) (r : Bytes) (h : ipParseSet c st i = (st', .ok (s, r))) : Qi s.body := by
  unfold ipParseSet at h
  grind

theorem ipParseSets_all {c : Config} {Qi : IpBody → Prop}
    (hi : ∀ st st' id body b, ipParseBody c st id body = (st', .ok b) → Qi b) :
    ∀ (n : Nat) (st st' : PState) (i : Bytes) (ss : List IpSet),
      ipParseSets c n st i = (st', .ok ss) → ∀ s ∈ ss, Qi s.body := by
  intro n
  induction n with
  | zero => intro st st' i ss h; simp [ipParseSets] at h
  | succ n ih =>
    intro st st' i ss h
    unfold ipParseSets at h
    have := ipParseSet_all hi
    grind

theorem parseIpfix_all {c : Config} (Q9 : V9Body → Prop) {Qi : IpBody → Prop}
    (hi : ∀ st st' id body b, ipParseBody c st id body = (st', .ok b) → Qi b)
    (st st' : PState) (i : Bytes) (p : Packet) (r : Bytes) (h : parseIpfix c st i = (st', .ok (p, r))) : PktAll Q9 Qi p := by
  unfold parseIpfix at h
  have := ipParseSets_all hi
  grind [PktAll]

theorem parseVersioned_all {c : Config} {Q9 : V9Body → Prop} {Qi : IpBody → Prop}
    (h9 : ∀ st st' id body b, v9ParseBody c st id body = (st', .ok b) → Q9 b)
    (hi : ∀ st st' id body b, ipParseBody c st id body = (st', .ok b) → Qi b)
    (st st' : PState) (k : Nat) (i : Bytes) (p : Packet) (r : Bytes)
    (h : parseVersioned c st k i = (st', .ok p r)) : PktAll Q9 Qi p := by
  unfold parseVersioned at h
  have := parseV9_all Qi h9 st
  have := parseIpfix_all Q9 hi st
  grind [PktAll, liftRes_ok]

theorem parsePacket_all {c : Config} {Q9 : V9Body → Prop} {Qi : IpBody → Prop}
    (h9 : ∀ st st' id body b, v9ParseBody c st id body = (st', .ok b) → Q9 b)
    (hi : ∀ st st' id body b, ipParseBody c st id body = (st', .ok b) → Qi b)
    (st st' : PState) (i : Bytes) (p : Packet) (r : Bytes)
    (h : parsePacket c st i = (st', .ok p r)) : PktAll Q9 Qi p := by
  unfold parsePacket at h
  have := parseVersioned_all h9 hi st
  grind

theorem parseBytesF_all {c : Config} {Q9 : V9Body → Prop} {Qi : IpBody → Prop}
    (h9 : ∀ st st' id body b, v9ParseBody c st id body = (st', .ok b) → Q9 b)
    (hi : ∀ st st' id body b, ipParseBody c st id body = (st', .ok b) → Qi b) :
    ∀ (f : Nat) (st st' : PState) (buf : Bytes) (ps : List Packet),
      parseBytesF c f st buf = (st', .done ps) → ∀ p ∈ ps, PktAll Q9 Qi p := by
  intro f
  induction f with
  | zero => intro st st' buf ps h; simp [parseBytesF] at h
  | succ f ih =>
    intro st st' buf ps h
    unfold parseBytesF at h
    by_cases he : buf.isEmpty = true
    · simp only [he, ↓reduceIte, Prod.mk.injEq, Outcome.done.injEq] at h
      rw [← h.2]; simp
    · simp only [he, Bool.false_eq_true, ↓reduceIte] at h
      cases hp : parsePacket c st buf with
      | mk st1 step =>
        simp only [hp] at h
        cases step with
        | ok pkt rest =>
          have hpk := parsePacket_all h9 hi _ _ _ _ _ hp
          simp only at h
          by_cases hr : rest.isEmpty = true
          · simp only [hr, ↓reduceIte, Prod.mk.injEq, Outcome.done.injEq] at h
            rw [← h.2]; simpa using hpk
          · simp only [hr, Bool.false_eq_true, ↓reduceIte] at h
            cases hrec : parseBytesF c f st1 rest with
            | mk st2 out =>
              simp only [hrec, Prod.mk.injEq] at h
              cases out with
              | done ps' =>
                simp only [Outcome.cons, Outcome.done.injEq] at h
                have := ih _ _ _ _ hrec
                rw [← h.2]
                intro p hp'
                simp only [List.mem_cons] at hp'
                rcases hp' with hp' | hp'
                · subst hp'; exact hpk
                · exact this p hp'
              | panic _ => simp [Outcome.cons] at h
              | overflow _ => simp [Outcome.cons] at h
        | fail e =>
          simp only [Prod.mk.injEq, Outcome.done.injEq] at h
          rw [← h.2]; simp [PktAll]
        | unallowed =>
          simp only [Prod.mk.injEq, Outcome.done.injEq] at h
          rw [← h.2]; simp
        | panic => simp at h
        | overflow => simp at h

/-! ### frame lemmas: which maps a body parser can touch -/

theorem insertV9Templates_ip (ts : List V9Template) : ∀ st : PState,
    (insertV9Templates st ts).ipT = st.ipT ∧ (insertV9Templates st ts).ipO = st.ipO := by
  induction ts with
  | nil => intro st; exact ⟨rfl, rfl⟩
  | cons t ts ih => intro st; simp only [insertV9Templates]; exact ih _

theorem insertV9OptTemplates_ip (ts : List V9OptTemplate) : ∀ st : PState,
    (insertV9OptTemplates st ts).ipT = st.ipT ∧ (insertV9OptTemplates st ts).ipO = st.ipO := by
  induction ts with
  | nil => intro st; exact ⟨rfl, rfl⟩
  | cons t ts ih => intro st; simp only [insertV9OptTemplates]; exact ih _

/-- a V9 flowset body never touches the IPFIX maps -/
theorem v9ParseBody_ip_frame (c : Config) (st : PState) (id : Nat) (b : Bytes) :
    (v9ParseBody c st id b).1.ipT = st.ipT ∧ (v9ParseBody c st id b).1.ipO = st.ipO := by
  unfold v9ParseBody
  have := insertV9Templates_ip
  have := insertV9OptTemplates_ip
  grind

/-- an IPFIX set body never touches the V9 maps -/
theorem ipParseBody_v9_frame (c : Config) (st : PState) (id : Nat) (b : Bytes) :
    (ipParseBody c st id b).1.v9T = st.v9T ∧ (ipParseBody c st id b).1.v9O = st.v9O := by
  unfold ipParseBody
  grind

/-- every cached IPFIX template / options template has a field of non-zero declared length -/
def CacheValid (st : PState) : Prop :=
  (∀ e ∈ st.ipT, ipValid e.2.fields = true) ∧ (∀ e ∈ st.ipO, ipValid e.2.fields = true)

theorem ipParseBody_cache_valid (c : Config) (st : PState) (id : Nat) (b : Bytes) (h : CacheValid st) :
    CacheValid (ipParseBody c st id b).1 := by
  obtain ⟨hT, hO⟩ := h
  have key1 : ∀ t : IpTemplate, ipValid t.fields = true →
      CacheValid { st with ipT := amInsert t.id t st.ipT, ipO := amErase t.id st.ipO } := by
    intro t ht
    constructor
    · intro e he
      rcases mem_amInsert_a2 he with he | he
      · subst he; exact ht
      · exact hT e he
    · intro e he; exact hO e (mem_amErase_a2 he)
  have key2 : ∀ t : IpOptTemplate, ipValid t.fields = true →
      CacheValid { st with ipO := amInsert t.id t st.ipO, ipT := amErase t.id st.ipT } := by
    intro t ht
    constructor
    · intro e he; exact hT e (mem_amErase_a2 he)
    · intro e he
      rcases mem_amInsert_a2 he with he | he
      · subst he; exact ht
      · exact hO e he
  have key0 : CacheValid st := ⟨hT, hO⟩
  unfold ipParseBody
  grind

theorem insertV9Templates_v9_congr (ts : List V9Template) : ∀ s1 s2 : PState, s1.v9T = s2.v9T → s1.v9O = s2.v9O →
    (insertV9Templates s1 ts).v9T = (insertV9Templates s2 ts).v9T ∧
    (insertV9Templates s1 ts).v9O = (insertV9Templates s2 ts).v9O := by
  induction ts with
  | nil => intro s1 s2 h1 h2; exact ⟨h1, h2⟩
  | cons t ts ih =>
    intro s1 s2 h1 h2
    simp only [insertV9Templates]
    apply ih <;> simp only [h1, h2]

theorem insertV9OptTemplates_v9_congr (ts : List V9OptTemplate) : ∀ s1 s2 : PState, s1.v9T = s2.v9T → s1.v9O = s2.v9O →
    (insertV9OptTemplates s1 ts).v9T = (insertV9OptTemplates s2 ts).v9T ∧
    (insertV9OptTemplates s1 ts).v9O = (insertV9OptTemplates s2 ts).v9O := by
  induction ts with
  | nil => intro s1 s2 h1 h2; exact ⟨h1, h2⟩
  | cons t ts ih =>
    intro s1 s2 h1 h2
    simp only [insertV9OptTemplates]
    apply ih <;> simp only [h1, h2]

/-- agreement on the two V9 maps -/
def AgreeV9 (s1 s2 : PState) : Prop := s1.v9T = s2.v9T ∧ s1.v9O = s2.v9O
/-- agreement on the two IPFIX maps -/
def AgreeIp (s1 s2 : PState) : Prop := s1.ipT = s2.ipT ∧ s1.ipO = s2.ipO

theorem v9ParseBody_respects_agree (c : Config) : RespV9 c AgreeV9 := by
  intro s1 s2 id b ⟨h1, h2⟩
  have k1 := fun ts => insertV9Templates_v9_congr ts s1 s2 h1 h2
  have k2 := fun ts => insertV9OptTemplates_v9_congr ts s1 s2 h1 h2
  unfold Rel2 AgreeV9 v9ParseBody
  rw [h1, h2]
  split
  · cases many0 parseV9Template b with
    | ok x => exact ⟨rfl, k1 _⟩
    | err => exact ⟨rfl, h1, h2⟩
    | outOfFuel => exact ⟨rfl, h1, h2⟩
  · split
    · cases many0 parseV9OptTemplate b with
      | ok x => exact ⟨rfl, k2 _⟩
      | err => exact ⟨rfl, h1, h2⟩
      | outOfFuel => exact ⟨rfl, h1, h2⟩
    · cases amLookup id s2.v9O with
      | some ot =>
        simp only
        cases v9ScopeLoop c ot.scope b with
        | none => exact ⟨rfl, h1, h2⟩
        | some x =>
          simp only
          cases v9OptLoop c ot.opts x.2 with
          | none => exact ⟨rfl, h1, h2⟩
          | some y => exact ⟨rfl, h1, h2⟩
      | none =>
        simp only
        cases amLookup id s2.v9T with
        | some t =>
          simp only
          split
          · exact ⟨rfl, h1, h2⟩
          · exact ⟨rfl, h1, h2⟩
        | none => exact ⟨rfl, h1, h2⟩

theorem ipParseBody_respects_agree (c : Config) : RespIp c AgreeIp := by
  intro s1 s2 id b ⟨h1, h2⟩
  unfold Rel2 AgreeIp ipParseBody
  rw [h1, h2]
  split
  · cases parseIpTemplate b with
    | ok t => simp only; split <;> simp [h1, h2]
    | _ => exact ⟨rfl, h1, h2⟩
  · split
    · cases parseIpOptTemplate b with
      | ok t => simp only; split <;> simp [h1, h2]
      | _ => exact ⟨rfl, h1, h2⟩
    · cases amLookup id s2.ipT with
      | some t =>
        simp only
        split
        · exact ⟨rfl, h1, h2⟩
        · cases ipRecLoop c t.fields (b.length + 1) b <;> exact ⟨rfl, h1, h2⟩
      | none =>
        simp only
        cases amLookup id s2.ipO with
        | some t =>
          simp only
          split
          · exact ⟨rfl, h1, h2⟩
          · cases ipRecLoop c t.fields (b.length + 1) b <;> exact ⟨rfl, h1, h2⟩
        | none => exact ⟨rfl, h1, h2⟩

/-! ### persistence: an id once defined for a protocol stays defined -/

def KnownV9 (st : PState) (id : Nat) : Prop := (amLookup id st.v9T).isSome ∨ (amLookup id st.v9O).isSome
def KnownIp (st : PState) (id : Nat) : Prop := (amLookup id st.ipT).isSome ∨ (amLookup id st.ipO).isSome

theorem known_insert_erase {α β : Type} (id k : Nat) (v : α) (m : List (Nat × α)) (m' : List (Nat × β))
    (h : (amLookup id m).isSome ∨ (amLookup id m').isSome) :
    (amLookup id (amInsert k v m)).isSome ∨ (amLookup id (amErase k m')).isSome := by
  by_cases hk : id = k
  · left; rw [amLookup_amInsert_a2]; simp [hk]
  · rw [amLookup_amInsert_a2, amLookup_amErase_ne_a2 hk]; simpa [hk] using h

theorem insertV9Templates_known (id : Nat) (ts : List V9Template) : ∀ st : PState,
    KnownV9 st id → KnownV9 (insertV9Templates st ts) id := by
  induction ts with
  | nil => intro st h; exact h
  | cons t ts ih =>
    intro st h
    simp only [insertV9Templates]
    apply ih
    exact known_insert_erase id t.id t st.v9T st.v9O h

theorem insertV9OptTemplates_known (id : Nat) (ts : List V9OptTemplate) : ∀ st : PState,
    KnownV9 st id → KnownV9 (insertV9OptTemplates st ts) id := by
  induction ts with
  | nil => intro st h; exact h
  | cons t ts ih =>
    intro st h
    simp only [insertV9OptTemplates]
    apply ih
    exact (known_insert_erase id t.id t st.v9O st.v9T h.symm).symm

theorem v9ParseBody_known (c : Config) (id' : Nat) (st : PState) (id : Nat) (b : Bytes) (h : KnownV9 st id') :
    KnownV9 (v9ParseBody c st id b).1 id' := by
  have := insertV9Templates_known id'
  have := insertV9OptTemplates_known id'
  unfold v9ParseBody
  grind

theorem ipParseBody_known (c : Config) (id' : Nat) (st : PState) (id : Nat) (b : Bytes) (h : KnownIp st id') :
    KnownIp (ipParseBody c st id b).1 id' := by
  have k1 := fun (t : IpTemplate) => known_insert_erase id' t.id t st.ipT st.ipO h
  have k2 := fun (t : IpOptTemplate) => (known_insert_erase id' t.id t st.ipO st.ipT h.symm).symm
  unfold ipParseBody
  unfold KnownIp at *
  grind

theorem v9ParseBody_knownIp (c : Config) (id' : Nat) (st : PState) (id : Nat) (b : Bytes) (h : KnownIp st id') :
    KnownIp (v9ParseBody c st id b).1 id' := by
  obtain ⟨h1, h2⟩ := v9ParseBody_ip_frame c st id b
  unfold KnownIp; rw [h1, h2]; exact h

theorem ipParseBody_knownV9 (c : Config) (id' : Nat) (st : PState) (id : Nat) (b : Bytes) (h : KnownV9 st id') :
    KnownV9 (ipParseBody c st id b).1 id' := by
  obtain ⟨h1, h2⟩ := ipParseBody_v9_frame c st id b
  unfold KnownV9; rw [h1, h2]; exact h

/-! ### well-formed (sorted) maps -/

def StateWf (st : PState) : Prop := amSorted st.v9T ∧ amSorted st.v9O ∧ amSorted st.ipT ∧ amSorted st.ipO

theorem StateWf_empty : StateWf {} := by simp [StateWf, amSorted]

theorem insertV9Templates_sorted (ts : List V9Template) : ∀ st : PState, amSorted st.v9T → amSorted st.v9O →
    amSorted (insertV9Templates st ts).v9T ∧ amSorted (insertV9Templates st ts).v9O := by
  induction ts with
  | nil => intro st h1 h2; exact ⟨h1, h2⟩
  | cons t ts ih =>
    intro st h1 h2
    simp only [insertV9Templates]
    exact ih _ (amSorted_amInsert _ _ _ h1) (amSorted_amErase _ _ h2)

theorem insertV9OptTemplates_sorted (ts : List V9OptTemplate) : ∀ st : PState, amSorted st.v9T → amSorted st.v9O →
    amSorted (insertV9OptTemplates st ts).v9T ∧ amSorted (insertV9OptTemplates st ts).v9O := by
  induction ts with
  | nil => intro st h1 h2; exact ⟨h1, h2⟩
  | cons t ts ih =>
    intro st h1 h2
    simp only [insertV9OptTemplates]
    exact ih _ (amSorted_amErase _ _ h1) (amSorted_amInsert _ _ _ h2)

theorem v9ParseBody_wf (c : Config) (st : PState) (id : Nat) (b : Bytes) (h : StateWf st) :
    StateWf (v9ParseBody c st id b).1 := by
  obtain ⟨h1, h2, h3, h4⟩ := h
  obtain ⟨f1, f2⟩ := v9ParseBody_ip_frame c st id b
  refine ⟨?_, ?_, by rw [f1]; exact h3, by rw [f2]; exact h4⟩
  all_goals
    have := fun ts => insertV9Templates_sorted ts st h1 h2
    have := fun ts => insertV9OptTemplates_sorted ts st h1 h2
    unfold v9ParseBody
    grind

theorem ipParseBody_wf (c : Config) (st : PState) (id : Nat) (b : Bytes) (h : StateWf st) :
    StateWf (ipParseBody c st id b).1 := by
  obtain ⟨h1, h2, h3, h4⟩ := h
  obtain ⟨f1, f2⟩ := ipParseBody_v9_frame c st id b
  refine ⟨by rw [f1]; exact h1, by rw [f2]; exact h2, ?_, ?_⟩
  all_goals
    have := fun (t : IpTemplate) => amSorted_amInsert t.id t _ h3
    have := fun (t : IpOptTemplate) => amSorted_amInsert t.id t _ h4
    have := fun k => amSorted_amErase k _ h3
    have := fun k => amSorted_amErase k _ h4
    unfold ipParseBody
    grind

/-! ### latest definition wins -/

theorem insertV9Templates_append (a b : List V9Template) : ∀ st : PState,
    insertV9Templates st (a ++ b) = insertV9Templates (insertV9Templates st a) b := by
  induction a with
  | nil => intro st; rfl
  | cons t ts ih => intro st; simp only [List.cons_append, insertV9Templates]; exact ih _

theorem insertV9OptTemplates_append (a b : List V9OptTemplate) : ∀ st : PState,
    insertV9OptTemplates st (a ++ b) = insertV9OptTemplates (insertV9OptTemplates st a) b := by
  induction a with
  | nil => intro st; rfl
  | cons t ts ih => intro st; simp only [List.cons_append, insertV9OptTemplates]; exact ih _

/-- templates with other ids leave the entry of `id` alone, in both maps -/
theorem insertV9Templates_other (id : Nat) (ts : List V9Template) : ∀ st : PState, (∀ u ∈ ts, u.id ≠ id) →
    amLookup id (insertV9Templates st ts).v9T = amLookup id st.v9T ∧
    amLookup id (insertV9Templates st ts).v9O = amLookup id st.v9O := by
  induction ts with
  | nil => intro st _; exact ⟨rfl, rfl⟩
  | cons t ts ih =>
    intro st h
    simp only [insertV9Templates]
    have ht : id ≠ t.id := fun e => h t List.mem_cons_self e.symm
    obtain ⟨a1, a2⟩ := ih { st with v9T := amInsert t.id t st.v9T, v9O := amErase t.id st.v9O }
      (fun u hu => h u (List.mem_cons_of_mem _ hu))
    rw [a1, a2]
    simp only [amLookup_amInsert_a2, ht, ↓reduceIte, amLookup_amErase_ne_a2 ht]
    exact ⟨trivial, trivial⟩

theorem insertV9OptTemplates_other (id : Nat) (ts : List V9OptTemplate) : ∀ st : PState, (∀ u ∈ ts, u.id ≠ id) →
    amLookup id (insertV9OptTemplates st ts).v9T = amLookup id st.v9T ∧
    amLookup id (insertV9OptTemplates st ts).v9O = amLookup id st.v9O := by
  induction ts with
  | nil => intro st _; exact ⟨rfl, rfl⟩
  | cons t ts ih =>
    intro st h
    simp only [insertV9OptTemplates]
    have ht : id ≠ t.id := fun e => h t List.mem_cons_self e.symm
    obtain ⟨a1, a2⟩ := ih { st with v9O := amInsert t.id t st.v9O, v9T := amErase t.id st.v9T }
      (fun u hu => h u (List.mem_cons_of_mem _ hu))
    rw [a1, a2]
    simp only [amLookup_amInsert_a2, ht, ↓reduceIte, amLookup_amErase_ne_a2 ht]
    exact ⟨trivial, trivial⟩

/-! ### IPFIX: a set that parses consumed its header, so the set loop never reports `Many0` -/

theorem ipParseSet_progress (c : Config) (hw : 0 < c.t.ipSetHdr.wireLen) (st st' : PState) (i : Bytes) (s : IpSet) (r : Bytes)
    (h : ipParseSet c st i = (st', .ok (s, r))) : r.length < i.length := by
  unfold ipParseSet at h
  cases hh : parseLayout c.t.protoFromU8 c.t.ipSetHdr i with
  | none => simp [hh] at h
  | some hr =>
    obtain ⟨hd, r1⟩ := hr
    simp only [hh] at h
    cases ht : takeN (c.t.ipSetHdr.get "length" hd - 4) r1 with
    | none => simp [ht] at h
    | some br =>
      obtain ⟨body, r2⟩ := br
      simp only [ht] at h
      obtain ⟨a1, a2⟩ := parseLayout_consumes _ _ _ _ _ hh
      have a3 := takeN_suffix _ _ _ _ ht
      have : r = r2 := by grind
      subst this
      rw [a2, List.length_drop] at a3
      omega

theorem ipParseSets_no_err (c : Config) (hw : 0 < c.t.ipSetHdr.wireLen) : ∀ (f : Nat) (st : PState) (i : Bytes),
    (ipParseSets c f st i).2 ≠ .err := by
  intro f
  induction f with
  | zero => intro st i; simp [ipParseSets]
  | succ f ih =>
    intro st i
    unfold ipParseSets
    have := ipParseSet_progress c hw st
    grind

/-- the state is changed only by a body that parsed -/
theorem v9ParseBody_err_frame (c : Config) (st : PState) (id : Nat) (b : Bytes)
    (h : ∀ x, (v9ParseBody c st id b).2 ≠ .ok x) : (v9ParseBody c st id b).1 = st := by
  unfold v9ParseBody at h ⊢
  grind

theorem ipParseBody_err_frame (c : Config) (st : PState) (id : Nat) (b : Bytes)
    (h : ∀ x, (ipParseBody c st id b).2 ≠ .ok x) : (ipParseBody c st id b).1 = st := by
  unfold ipParseBody at h ⊢
  grind

/-- a data flowset (any id other than the two template-set ids) never changes the state -/
theorem v9ParseBody_data_frame (c : Config) (st : PState) (id : Nat) (b : Bytes)
    (h1 : id ≠ c.t.v9TemplateId) (h2 : id ≠ c.t.v9OptTemplateId) : (v9ParseBody c st id b).1 = st := by
  unfold v9ParseBody
  grind

theorem ipParseBody_data_frame (c : Config) (st : PState) (id : Nat) (b : Bytes)
    (h1 : c.t.ipSetMinRange ≤ id) (h2 : id ≠ c.t.ipOptTemplateId) : (ipParseBody c st id b).1 = st := by
  unfold ipParseBody
  grind

theorem parseVersioned_frame (c : Config) (st : PState) (k : Nat) (i : Bytes) (h9 : k ≠ 9) (h10 : k ≠ 10) :
    (parseVersioned c st k i).1 = st := by
  unfold parseVersioned
  grind

/-! ### whole-call form of C07: every data set returned carries an id known at the end of the call -/

theorem v9ParseSets_pres {c : Config} {I : PState → Prop}
    (h9 : ∀ st id b, I st → I (v9ParseBody c st id b).1) (n : Nat) (st : PState) (i : Bytes) (h : I st) :
    I (v9ParseSets c n st i).1 := by
  have := v9ParseSets_rel (c := c) (R := fun s1 s2 => s1 = s2 ∧ I s1)
    (by intro s1 s2 id b ⟨e, hI⟩; subst e; exact ⟨rfl, rfl, h9 _ _ _ hI⟩) n st st i ⟨rfl, h⟩
  exact this.2.2

theorem ipParseSets_pres {c : Config} {I : PState → Prop}
    (hi : ∀ st id b, I st → I (ipParseBody c st id b).1) (n : Nat) (st : PState) (i : Bytes) (h : I st) :
    I (ipParseSets c n st i).1 := by
  have := ipParseSets_rel (c := c) (R := fun s1 s2 => s1 = s2 ∧ I s1)
    (by intro s1 s2 id b ⟨e, hI⟩; subst e; exact ⟨rfl, rfl, hi _ _ _ hI⟩) n st st i ⟨rfl, h⟩
  exact this.2.2

theorem parseBytesF_pres {c : Config} {I : PState → Prop}
    (h9 : ∀ st id b, I st → I (v9ParseBody c st id b).1) (hi : ∀ st id b, I st → I (ipParseBody c st id b).1)
    (f : Nat) (st : PState) (buf : Bytes) (h : I st) : I (parseBytesF c f st buf).1 := by
  have := parseBytesF_rel (c := c) (R := fun s1 s2 => s1 = s2 ∧ I s1)
    (by intro s1 s2 id b ⟨e, hI⟩; subst e; exact ⟨rfl, rfl, h9 _ _ _ hI⟩)
    (by intro s1 s2 id b ⟨e, hI⟩; subst e; exact ⟨rfl, rfl, hi _ _ _ hI⟩) f st st buf ⟨rfl, h⟩
  exact this.2.2

/-- every data set of the packet carries an id that is known to its protocol in state `st` -/
def DataKnown (c : Config) (st : PState) : Packet → Prop
  | .v9 _ ss => ∀ s ∈ ss, s.id ≠ c.t.v9TemplateId → s.id ≠ c.t.v9OptTemplateId → KnownV9 st s.id
  | .ipfix _ ss => ∀ s ∈ ss, c.t.ipSetMinRange ≤ s.id → s.id ≠ c.t.ipOptTemplateId → KnownIp st s.id
  | _ => True

theorem v9ParseBody_ok_known (c : Config) (st st' : PState) (id : Nat) (body : Bytes) (b : V9Body)
    (h : v9ParseBody c st id body = (st', .ok b)) (h1 : id ≠ c.t.v9TemplateId) (h2 : id ≠ c.t.v9OptTemplateId) :
    KnownV9 st' id := by
  unfold v9ParseBody at h
  unfold KnownV9
  grind

theorem ipParseBody_ok_known (c : Config) (st st' : PState) (id : Nat) (body : Bytes) (b : IpBody)
    (h : ipParseBody c st id body = (st', .ok b)) (h1 : c.t.ipSetMinRange ≤ id) (h2 : id ≠ c.t.ipOptTemplateId) :
    KnownIp st' id := by
  unfold ipParseBody at h
  unfold KnownIp
  grind

theorem v9ParseSet_dk (c : Config) (st st' : PState) (i : Bytes) (s : V9Set) (r : Bytes)
    (h : v9ParseSet c st i = (st', .ok (s, r))) (h1 : s.id ≠ c.t.v9TemplateId) (h2 : s.id ≠ c.t.v9OptTemplateId) :
    KnownV9 st' s.id := by
  unfold v9ParseSet at h
  have := v9ParseBody_ok_known c st
  grind

theorem ipParseSet_dk (c : Config) (st st' : PState) (i : Bytes) (s : IpSet) (r : Bytes)
    (h : ipParseSet c st i = (st', .ok (s, r))) (h1 : c.t.ipSetMinRange ≤ s.id) (h2 : s.id ≠ c.t.ipOptTemplateId) :
    KnownIp st' s.id := by
  unfold ipParseSet at h
  have := ipParseBody_ok_known c st
  grind

theorem v9ParseSets_dk (c : Config) : ∀ (n : Nat) (st st' : PState) (i : Bytes) (ss : List V9Set) (r : Bytes),
    v9ParseSets c n st i = (st', .ok (ss, r)) →
    ∀ s ∈ ss, s.id ≠ c.t.v9TemplateId → s.id ≠ c.t.v9OptTemplateId → KnownV9 st' s.id := by
  intro n
  induction n with
  | zero => intro st st' i ss r h; simp [v9ParseSets] at h; simp [h.2.1]
  | succ n ih =>
    intro st st' i ss r h
    unfold v9ParseSets at h
    by_cases he : i.isEmpty = true
    · simp only [he, ↓reduceIte] at h; exact ih _ _ _ _ _ h
    · simp only [he, Bool.false_eq_true, ↓reduceIte] at h
      cases hs : v9ParseSet c st i with
      | mk st1 res =>
        cases res with
        | ok sr =>
          obtain ⟨s0, r1⟩ := sr
          simp only [hs] at h
          cases hrest : v9ParseSets c n st1 r1 with
          | mk st2 res2 =>
            cases res2 with
            | ok ssr =>
              obtain ⟨ss', r2⟩ := ssr
              simp only [hrest, Prod.mk.injEq, Res.ok.injEq] at h
              obtain ⟨e0, e1, e2⟩ := h
              subst e0 e1 e2
              intro s hs' h1 h2
              simp only [List.mem_cons] at hs'
              rcases hs' with hs' | hs'
              · subst hs'
                have hk := v9ParseSet_dk c _ _ _ _ _ hs h1 h2
                have := v9ParseSets_pres (c := c) (I := fun x => KnownV9 x s.id)
                  (fun x id b hI => v9ParseBody_known c s.id x id b hI) n st1 r1 hk
                rw [hrest] at this
                exact this
              · exact ih _ _ _ _ _ hrest s hs' h1 h2
            | err => simp [hrest] at h
            | panic => simp [hrest] at h
            | overflow => simp [hrest] at h
        | err => simp [hs] at h
        | panic => simp [hs] at h
        | overflow => simp [hs] at h

theorem ipParseSets_dk (c : Config) : ∀ (n : Nat) (st st' : PState) (i : Bytes) (ss : List IpSet),
    ipParseSets c n st i = (st', .ok ss) →
    ∀ s ∈ ss, c.t.ipSetMinRange ≤ s.id → s.id ≠ c.t.ipOptTemplateId → KnownIp st' s.id := by
  intro n
  induction n with
  | zero => intro st st' i ss h; simp [ipParseSets] at h
  | succ n ih =>
    intro st st' i ss h
    unfold ipParseSets at h
    cases hs : ipParseSet c st i with
    | mk st1 res =>
      cases res with
      | ok sr =>
        obtain ⟨s0, r1⟩ := sr
        simp only [hs] at h
        by_cases hl : r1.length = i.length
        · simp [hl] at h
        · simp only [hl, ↓reduceIte] at h
          cases hrest : ipParseSets c n st1 r1 with
          | mk st2 res2 =>
            cases res2 with
            | ok ss' =>
              simp only [hrest, Prod.mk.injEq, Res.ok.injEq] at h
              obtain ⟨e0, e1⟩ := h
              subst e0 e1
              intro s hs' h1 h2
              simp only [List.mem_cons] at hs'
              rcases hs' with hs' | hs'
              · subst hs'
                have hk := ipParseSet_dk c _ _ _ _ _ hs h1 h2
                have := ipParseSets_pres (c := c) (I := fun x => KnownIp x s.id)
                  (fun x id b hI => ipParseBody_known c s.id x id b hI) n st1 r1 hk
                rw [hrest] at this
                exact this
              · exact ih _ _ _ _ hrest s hs' h1 h2
            | err => simp [hrest] at h
            | panic => simp [hrest] at h
            | overflow => simp [hrest] at h
      | err => simp only [hs, Prod.mk.injEq, Res.ok.injEq] at h; rw [← h.2]; simp
      | panic => simp [hs] at h
      | overflow => simp [hs] at h

theorem parseV9_dk (c : Config) (st st' : PState) (i : Bytes) (p : Packet) (r : Bytes)
    (h : parseV9 c st i = (st', .ok (p, r))) : DataKnown c st' p := by
  unfold parseV9 at h
  have := v9ParseSets_dk c
  grind [DataKnown]

theorem parseIpfix_dk (c : Config) (st st' : PState) (i : Bytes) (p : Packet) (r : Bytes)
    (h : parseIpfix c st i = (st', .ok (p, r))) : DataKnown c st' p := by
  unfold parseIpfix at h
  have := ipParseSets_dk c
  grind [DataKnown]

theorem parseVersioned_dk (c : Config) (st st' : PState) (k : Nat) (i : Bytes) (p : Packet) (r : Bytes)
    (h : parseVersioned c st k i = (st', .ok p r)) : DataKnown c st' p := by
  unfold parseVersioned at h
  have := parseV9_dk c st
  have := parseIpfix_dk c st
  grind [DataKnown, liftRes_ok]

theorem parsePacket_dk (c : Config) (st st' : PState) (i : Bytes) (p : Packet) (r : Bytes)
    (h : parsePacket c st i = (st', .ok p r)) : DataKnown c st' p := by
  unfold parsePacket at h
  have := parseVersioned_dk c st
  grind

theorem DataKnown.mono {c : Config} {st st' : PState} {p : Packet} (h : DataKnown c st p)
    (hm : ∀ id, (KnownV9 st id → KnownV9 st' id) ∧ (KnownIp st id → KnownIp st' id)) : DataKnown c st' p := by
  cases p with
  | v9 hd ss => intro s hs h1 h2; exact (hm _).1 (h s hs h1 h2)
  | ipfix hd ss => intro s hs h1 h2; exact (hm _).2 (h s hs h1 h2)
  | _ => trivial

theorem parseBytesF_dk (c : Config) : ∀ (f : Nat) (st st' : PState) (buf : Bytes) (ps : List Packet),
    parseBytesF c f st buf = (st', .done ps) → ∀ p ∈ ps, DataKnown c st' p := by
  intro f
  induction f with
  | zero => intro st st' buf ps h; simp [parseBytesF] at h
  | succ f ih =>
    intro st st' buf ps h
    unfold parseBytesF at h
    by_cases he : buf.isEmpty = true
    · simp only [he, ↓reduceIte, Prod.mk.injEq, Outcome.done.injEq] at h
      rw [← h.2]; simp
    · simp only [he, Bool.false_eq_true, ↓reduceIte] at h
      cases hp : parsePacket c st buf with
      | mk st1 step =>
        simp only [hp] at h
        cases step with
        | ok pkt rest =>
          have hpk := parsePacket_dk c _ _ _ _ _ hp
          simp only at h
          by_cases hr : rest.isEmpty = true
          · simp only [hr, ↓reduceIte, Prod.mk.injEq, Outcome.done.injEq] at h
            rw [← h.2, ← h.1]; simpa using hpk
          · simp only [hr, Bool.false_eq_true, ↓reduceIte] at h
            cases hrec : parseBytesF c f st1 rest with
            | mk st2 out =>
              simp only [hrec, Prod.mk.injEq] at h
              cases out with
              | done ps' =>
                simp only [Outcome.cons, Outcome.done.injEq] at h
                have := ih _ _ _ _ hrec
                rw [← h.2, ← h.1]
                intro p hp'
                simp only [List.mem_cons] at hp'
                rcases hp' with hp' | hp'
                · subst hp'
                  apply hpk.mono
                  intro id
                  have a := parseBytesF_pres (c := c) (I := fun x => KnownV9 x id)
                    (fun s i b hI => v9ParseBody_known c id s i b hI) (fun s i b hI => ipParseBody_knownV9 c id s i b hI) f st1 rest
                  have b := parseBytesF_pres (c := c) (I := fun x => KnownIp x id)
                    (fun s i b hI => v9ParseBody_knownIp c id s i b hI) (fun s i b hI => ipParseBody_known c id s i b hI) f st1 rest
                  rw [hrec] at a b
                  exact ⟨a, b⟩
                · exact this p hp'
              | panic _ => simp [Outcome.cons] at h
              | overflow _ => simp [Outcome.cons] at h
        | fail e =>
          simp only [Prod.mk.injEq, Outcome.done.injEq] at h
          rw [← h.2]; simp [DataKnown]
        | unallowed =>
          simp only [Prod.mk.injEq, Outcome.done.injEq] at h
          rw [← h.2]; simp
        | panic => simp at h
        | overflow => simp at h

end Netflow

