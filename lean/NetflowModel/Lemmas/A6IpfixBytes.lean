/-
  Lemmas/A6IpfixBytes.lean — layer (a) of the C05 print-then-parse proof: big-endian round trips
  (`toBE` / `beNat`) and the primitive parsers `takeN` / `beU` on an input of the form `x ++ r`.
-/
import NetflowModel.Lemmas.Basic
namespace Netflow

theorem toBE_length (w n : Nat) : (toBE w n).length = w := by
  induction w generalizing n with
  | zero => simp [toBE]
  | succ w ih => simp [toBE, ih]

theorem beNat_append_singleton (bs : Bytes) (b : UInt8) : beNat (bs ++ [b]) = beNat bs * 256 + b.toNat := by
  simp [beNat, List.foldl_append]

theorem beNat_nil : beNat [] = 0 := rfl

theorem beNat_toBE_a6 (w n : Nat) : beNat (toBE w n) = n % 256 ^ w := by
  induction w generalizing n with
  | zero => simp [toBE, beNat, Nat.mod_one]
  | succ w ih =>
    rw [toBE, beNat_append_singleton, ih]
    have h1 : (UInt8.ofNat (n % 256)).toNat = n % 256 := by
      rw [UInt8.toNat_ofNat']
      omega
    rw [h1, Nat.pow_succ, Nat.mul_comm (256 ^ w) 256, Nat.mod_mul, Nat.mul_comm, Nat.add_comm]

theorem beNat_toBE_of_lt {w n : Nat} (h : n < 256 ^ w) : beNat (toBE w n) = n := by
  rw [beNat_toBE_a6, Nat.mod_eq_of_lt h]

theorem beNat_foldl_a6 (acc : Nat) (bs : Bytes) :
    bs.foldl (fun acc b => acc * 256 + b.toNat) acc = acc * 256 ^ bs.length + beNat bs := by
  induction bs generalizing acc with
  | nil => simp [beNat]
  | cons b bs ih =>
    simp only [List.foldl_cons, List.length_cons, beNat]
    rw [ih, ih (0 * 256 + b.toNat), Nat.pow_succ]
    simp only [Nat.zero_mul, Nat.zero_add, Nat.add_mul, Nat.mul_assoc, Nat.add_assoc, Nat.mul_comm 256]

theorem beNat_cons (b : UInt8) (bs : Bytes) : beNat (b :: bs) = b.toNat * 256 ^ bs.length + beNat bs := by
  have := beNat_foldl_a6 b.toNat bs
  simpa [beNat] using this

theorem beNat_lt_a6 (bs : Bytes) : beNat bs < 256 ^ bs.length := by
  induction bs with
  | nil => simp [beNat]
  | cons b bs ih =>
    rw [beNat_cons, List.length_cons, Nat.pow_succ]
    have := b.toNat_lt
    have h2 : b.toNat * 256 ^ bs.length ≤ 255 * 256 ^ bs.length := Nat.mul_le_mul_right _ (by omega)
    omega

theorem takeN_append_a6 (x r : Bytes) : takeN x.length (x ++ r) = some (x, r) := by
  simp [takeN]

theorem takeN_append' {n : Nat} (x r : Bytes) (h : x.length = n) : takeN n (x ++ r) = some (x, r) := by
  subst h; exact takeN_append_a6 x r

theorem beU_append_a6 (x r : Bytes) : beU x.length (x ++ r) = some (beNat x, r) := by
  simp [beU]

theorem beU_toBE (w n : Nat) (r : Bytes) : beU w (toBE w n ++ r) = some (n % 256 ^ w, r) := by
  have := beU_append_a6 (toBE w n) r
  rw [toBE_length, beNat_toBE_a6] at this
  exact this

theorem beU_toBE_of_lt {w n : Nat} (h : n < 256 ^ w) (r : Bytes) : beU w (toBE w n ++ r) = some (n, r) := by
  rw [beU_toBE, Nat.mod_eq_of_lt h]

theorem beU2_toBE {n : Nat} (h : n < 65536) (r : Bytes) : beU 2 (toBE 2 n ++ r) = some (n, r) :=
  beU_toBE_of_lt (by simpa using h) r

theorem beU4_toBE {n : Nat} (h : n < 4294967296) (r : Bytes) : beU 4 (toBE 4 n ++ r) = some (n, r) :=
  beU_toBE_of_lt (by simpa using h) r

theorem beU1_toBE {n : Nat} (h : n < 256) (r : Bytes) : beU 1 (toBE 1 n ++ r) = some (n, r) :=
  beU_toBE_of_lt (by simpa using h) r

end Netflow
