/-
  Lemmas/H1History.lean — HISTORIES of `parse_bytes` calls on one parser value in which the caller may
  change the public field `allowed_versions` between calls.

  A `Call` is the allowed set in force during the call plus the buffer handed over.  `runHistory` threads
  the template caches through the calls and collects each call's outcome; `stateBefore … k` is the cache
  state at the start of the k-th call (0-based).  The one workhorse is `call_eq`: the k-th call of a
  history IS the per-call function `parseBytes` applied at `stateBefore … k` under the k-th call's own
  configuration — so every per-call theorem that is quantified over the start state and the
  configuration lifts to every point of every history.  No parser function is unfolded here.
-/
import NetflowModel.Lemmas.B1Json
namespace Netflow.H1
open Netflow

/-- one `parse_bytes` call: the value of `allowed_versions` in force, and the buffer -/
structure Call where
  allowed : List Nat
  buf : Bytes
  deriving Repr, DecidableEq

/-- the configuration of one call: the tables and the compile-time feature are fixed for the whole history,
    the allowed set is the call's own -/
def cfgOf (t : Tables) (uf : Bool) (call : Call) : Config :=
  { t := t, allowed := call.allowed, unknownFields := uf }

@[simp] theorem cfgOf_t (t : Tables) (uf : Bool) (call : Call) : (cfgOf t uf call).t = t := rfl
@[simp] theorem cfgOf_allowed (t : Tables) (uf : Bool) (call : Call) : (cfgOf t uf call).allowed = call.allowed := rfl
@[simp] theorem cfgOf_uf (t : Tables) (uf : Bool) (call : Call) : (cfgOf t uf call).unknownFields = uf := rfl

/-- run a history from cache state `st`: final caches and the list of the calls' outcomes -/
def runHistory (t : Tables) (uf : Bool) : PState → List Call → PState × List Outcome
  | st, [] => (st, [])
  | st, call :: rest =>
    ((runHistory t uf (parseBytes (cfgOf t uf call) st call.buf).1 rest).1,
     (parseBytes (cfgOf t uf call) st call.buf).2 ::
       (runHistory t uf (parseBytes (cfgOf t uf call) st call.buf).1 rest).2)

/-- the caches at the start of the k-th call (k ≥ length: the final caches) -/
def stateBefore (t : Tables) (uf : Bool) : PState → List Call → Nat → PState
  | st, _, 0 => st
  | st, [], _ + 1 => st
  | st, call :: rest, k + 1 => stateBefore t uf (parseBytes (cfgOf t uf call) st call.buf).1 rest k

@[simp] theorem stateBefore_zero (t : Tables) (uf : Bool) (st : PState) (hist : List Call) :
    stateBefore t uf st hist 0 = st := by
  cases hist <;> rfl

@[simp] theorem stateBefore_nil (t : Tables) (uf : Bool) (st : PState) (k : Nat) :
    stateBefore t uf st [] k = st := by
  cases k <;> rfl

theorem runHistory_length (t : Tables) (uf : Bool) (st : PState) (hist : List Call) :
    (runHistory t uf st hist).2.length = hist.length := by
  induction hist generalizing st with
  | nil => rfl
  | cons call rest ih => simp only [runHistory, List.length_cons, ih]

/-- **the workhorse**: the k-th call of a history is `parseBytes` under the k-th call's configuration,
    started in `stateBefore … k`; it ends in `stateBefore … (k+1)` and its outcome is the k-th collected one -/
theorem call_eq (t : Tables) (uf : Bool) (st : PState) (hist : List Call) (k : Nat) (call : Call)
    (hk : hist[k]? = some call) :
    ∃ o, (runHistory t uf st hist).2[k]? = some o ∧
      parseBytes (cfgOf t uf call) (stateBefore t uf st hist k) call.buf = (stateBefore t uf st hist (k + 1), o) := by
  induction hist generalizing st k with
  | nil => simp at hk
  | cons c rest ih =>
    cases k with
    | zero =>
      simp only [List.getElem?_cons_zero, Option.some.injEq] at hk
      subst hk
      exact ⟨(parseBytes (cfgOf t uf c) st c.buf).2, by simp only [runHistory, List.getElem?_cons_zero],
        by simp only [stateBefore, stateBefore_zero]⟩
    | succ k =>
      simp only [List.getElem?_cons_succ] at hk
      obtain ⟨o, h1, h2⟩ := ih (parseBytes (cfgOf t uf c) st c.buf).1 k hk
      exact ⟨o, by simp only [runHistory, List.getElem?_cons_succ, h1], by simp only [stateBefore]; exact h2⟩

/-- the k-th collected outcome -/
theorem outcome_eq (t : Tables) (uf : Bool) (st : PState) (hist : List Call) (k : Nat) (call : Call)
    (hk : hist[k]? = some call) :
    (runHistory t uf st hist).2[k]? =
      some (parseBytes (cfgOf t uf call) (stateBefore t uf st hist k) call.buf).2 := by
  obtain ⟨o, h1, h2⟩ := call_eq t uf st hist k call hk
  rw [h1, h2]

/-- the caches after the k-th call -/
theorem stateBefore_succ (t : Tables) (uf : Bool) (st : PState) (hist : List Call) (k : Nat) (call : Call)
    (hk : hist[k]? = some call) :
    stateBefore t uf st hist (k + 1) =
      (parseBytes (cfgOf t uf call) (stateBefore t uf st hist k) call.buf).1 := by
  obtain ⟨o, _, h2⟩ := call_eq t uf st hist k call hk
  rw [h2]

/-- the final caches are the caches "before the call after the last one" -/
theorem runHistory_final (t : Tables) (uf : Bool) (st : PState) (hist : List Call) :
    (runHistory t uf st hist).1 = stateBefore t uf st hist hist.length := by
  induction hist generalizing st with
  | nil => rfl
  | cons call rest ih => simp only [runHistory, stateBefore, List.length_cons, ih]

/-- `stateBefore … k` is the final state of the history cut after `k` calls -/
theorem stateBefore_eq_take (t : Tables) (uf : Bool) (st : PState) (hist : List Call) (k : Nat) :
    stateBefore t uf st hist k = (runHistory t uf st (hist.take k)).1 := by
  induction hist generalizing st k with
  | nil => simp [runHistory]
  | cons call rest ih =>
    cases k with
    | zero => simp [runHistory]
    | succ k => simp only [stateBefore, List.take_succ_cons, runHistory, ih]

/-- beyond the end of the history nothing changes any more -/
theorem stateBefore_ge (t : Tables) (uf : Bool) (st : PState) (hist : List Call) (k : Nat) (h : hist.length ≤ k) :
    stateBefore t uf st hist k = (runHistory t uf st hist).1 := by
  rw [stateBefore_eq_take, List.take_of_length_le h]

/-- an invariant of single calls (under every allowed set) is an invariant of histories -/
theorem stateBefore_inv {I : PState → Prop} (t : Tables) (uf : Bool)
    (hstep : ∀ (call : Call) (st : PState), I st → I (parseBytes (cfgOf t uf call) st call.buf).1)
    (st : PState) (hist : List Call) (k : Nat) (h : I st) : I (stateBefore t uf st hist k) := by
  induction hist generalizing st k with
  | nil => simpa using h
  | cons call rest ih =>
    cases k with
    | zero => simpa using h
    | succ k => simp only [stateBefore]; exact ih _ k (hstep call st h)

/-- a property of single outcomes (under every allowed set, from every state) holds of every collected outcome -/
theorem outcomes_all {Q : Outcome → Prop} (t : Tables) (uf : Bool)
    (hall : ∀ (call : Call) (st : PState), Q (parseBytes (cfgOf t uf call) st call.buf).2)
    (st : PState) (hist : List Call) : ∀ o ∈ (runHistory t uf st hist).2, Q o := by
  induction hist generalizing st with
  | nil => intro o ho; simp [runHistory] at ho
  | cons call rest ih =>
    intro o ho
    simp only [runHistory, List.mem_cons] at ho
    rcases ho with rfl | ho
    · exact hall call st
    · exact ih _ o ho

/-- appending calls: the second part runs from the state the first part reached -/
theorem runHistory_append (t : Tables) (uf : Bool) (st : PState) (h1 h2 : List Call) :
    runHistory t uf st (h1 ++ h2) =
      ((runHistory t uf (runHistory t uf st h1).1 h2).1,
       (runHistory t uf st h1).2 ++ (runHistory t uf (runHistory t uf st h1).1 h2).2) := by
  induction h1 generalizing st with
  | nil => rfl
  | cons call rest ih => simp only [List.cons_append, runHistory, ih]

/-! ### the JSON of a decoded packet does not depend on the allowed set (only on the tables) -/

theorem v9BodyJ_tables (c1 c2 : Config) (h : c1.t = c2.t) (nm : JNames) (b : V9Body) :
    v9BodyJ c1 nm b = v9BodyJ c2 nm b := by
  cases b <;> simp only [v9BodyJ, h]

theorem ipTFieldJ_tables (c1 c2 : Config) (h : c1.t = c2.t) (nm : JNames) (f : IpTField) :
    ipTFieldJ c1 nm f = ipTFieldJ c2 nm f := by
  simp only [ipTFieldJ, ipFieldDisc, h]

theorem ipBodyJ_tables (c1 c2 : Config) (h : c1.t = c2.t) (nm : JNames) (b : IpBody) :
    ipBodyJ c1 nm b = ipBodyJ c2 nm b := by
  have : ipTFieldJ c1 nm = ipTFieldJ c2 nm := funext (ipTFieldJ_tables c1 c2 h nm)
  cases b <;> simp only [ipBodyJ, this]

/-- `toJ` reads the configuration only through its tables -/
theorem toJ_tables (c1 c2 : Config) (h : c1.t = c2.t) (nm : JNames) (p : Packet) : toJ c1 nm p = toJ c2 nm p := by
  have h9 : v9BodyJ c1 nm = v9BodyJ c2 nm := funext (v9BodyJ_tables c1 c2 h nm)
  have h10 : ipBodyJ c1 nm = ipBodyJ c2 nm := funext (ipBodyJ_tables c1 c2 h nm)
  cases p <;> simp only [toJ, h, h9, h10]

/-- … and so does the well-formedness predicate of C16 -/
theorem pktWf_tables (c1 c2 : Config) (h : c1.t = c2.t) (nm : JNames) (p : Packet) :
    B1.pktWf c1 nm p = B1.pktWf c2 nm p := by
  cases p <;> simp only [B1.pktWf, h]

end Netflow.H1
