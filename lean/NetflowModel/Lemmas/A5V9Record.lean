/-
  Lemmas/A5V9Record.lean — layers (c) and (d) of the C04 proof: one data record (induction over the
  template's field list), the record loop of a data flowset (induction over the records), the
  record-count division, and `v9ParseBody` on a data flowset.
-/
import NetflowModel.Lemmas.A5V9Field
namespace Netflow
open Spec

/-! ### `allSome` -/

theorem allSome_cons_some {α : Type} {x : Option α} {xs : List (Option α)} {out : List α}
    (h : allSome (x :: xs) = some out) : ∃ a as, x = some a ∧ allSome xs = some as ∧ out = a :: as := by
  cases x with
  | none => simp [allSome] at h
  | some a =>
    simp only [allSome, Option.map_eq_some_iff] at h
    obtain ⟨as, h1, h2⟩ := h
    exact ⟨a, as, rfl, h1, h2.symm⟩

/-! ### layer (c): one record -/

/-- every field of the record satisfies the field-level side condition of its governing template field -/
def recOk (c : Config) (names : List (Nat × String)) (fs : List TField) (r : List Bytes) : Bool :=
  (fs.zip r).all fun p => fieldOk c names (c.t.v9Ty (c.t.v9Field p.1.typ)) p.2

theorem v9ParseRec_enc_aux (c : Config) (names : List (Nat × String)) (harms : DnArmsOk c.t.dnArms) :
    ∀ (fs : List TField) (r : List Bytes) (k : Nat) (rec : Rec) (rest : Bytes),
      fs.length = r.length →
      allSome (((fs.zip r).zipIdx k).map fun p =>
        if p.1.2.length ≠ p.1.1.len then none else
        (interpSpec names (c.t.v9Ty (c.t.v9Field p.1.1.typ)) p.1.2).map fun v => (p.2, c.t.v9Field p.1.1.typ, v)) = some rec →
      recOk c names fs r = true →
      v9ParseRec c fs k (r.flatten ++ rest) = some (rec, rest) ∧ r.flatten.length = (fs.map (·.len)).sum := by
  intro fs
  induction fs with
  | nil =>
    intro r k rec rest hl h _
    have : r = [] := by cases r with | nil => rfl | cons _ _ => simp at hl
    subst this
    simp only [List.zip_nil_left, List.zipIdx_nil, List.map_nil, allSome, Option.some.injEq] at h
    subst h
    simp [v9ParseRec]
  | cons f fs ih =>
    intro r k rec rest hl h hok
    cases r with
    | nil => simp at hl
    | cons bs r' =>
      simp only [List.length_cons, Nat.add_right_cancel_iff] at hl
      simp only [List.zip_cons_cons, List.zipIdx_cons, List.map_cons] at h
      obtain ⟨e, es, h1, h2, rfl⟩ := allSome_cons_some h
      simp only [recOk, List.zip_cons_cons, List.all_cons, Bool.and_eq_true] at hok
      obtain ⟨hok1, hok2⟩ := hok
      by_cases hlen : bs.length = f.len
      · simp only [hlen, ne_eq, not_true_eq_false, ↓reduceIte, Option.map_eq_some_iff] at h1
        obtain ⟨v, hv, rfl⟩ := h1
        obtain ⟨ih1, ih2⟩ := ih r' (k + 1) es rest hl h2 hok2
        have hp := parseValue_interp c names harms _ bs (r'.flatten ++ rest) v hv hok1
        rw [hlen] at hp
        constructor
        · simp only [v9ParseRec, List.flatten_cons, List.append_assoc, hp, ih1]
        · simp only [List.flatten_cons, List.length_append, List.map_cons, List.sum_cons, ih2, hlen]
      · simp only [ne_eq, hlen, not_false_eq_true, ↓reduceIte] at h1
        simp at h1

/-- LAYER (c): a record written field by field is decoded to the expected entries, leaving `rest`;
    its byte length is the sum of the declared lengths. -/
theorem v9ParseRec_enc (c : Config) (names : List (Nat × String)) (harms : DnArmsOk c.t.dnArms)
    (fs : List TField) (r : List Bytes) (rec : Rec) (rest : Bytes)
    (h : expV9Rec c names fs r = some rec) (hok : recOk c names fs r = true) :
    v9ParseRec c fs 0 (r.flatten ++ rest) = some (rec, rest) ∧ r.flatten.length = (fs.map (·.len)).sum := by
  unfold expV9Rec at h
  by_cases hl : fs.length = r.length
  · simp only [hl, ne_eq, not_true_eq_false, ↓reduceIte] at h
    exact v9ParseRec_enc_aux c names harms fs r 0 rec rest hl h hok
  · simp only [ne_eq, hl, not_false_eq_true, ↓reduceIte] at h
    simp at h

/-- non-vacuity of `v9ParseRec_enc`: template (IPV4_SRC_ADDR/4, PROTOCOL/1, IN_BYTES/2), one record -/
example : (expV9Rec genConfig Generated.protoNames [⟨8, 4⟩, ⟨4, 1⟩, ⟨1, 2⟩] [[10, 0, 0, 1], [6], [1, 0]]).isSome = true ∧
    recOk genConfig Generated.protoNames [⟨8, 4⟩, ⟨4, 1⟩, ⟨1, 2⟩] [[10, 0, 0, 1], [6], [1, 0]] = true := by decide +kernel

/-! ### layer (d): the record loop of a data flowset -/

/-- LAYER (d), loop: with every record decodable the loop appends exactly the expected records
    (the "failed record keeps the accumulator" branch is never taken) -/
theorem v9RecLoop_enc (c : Config) (names : List (Nat × String)) (harms : DnArmsOk c.t.dnArms) (fs : List TField) :
    ∀ (recs : List (List Bytes)) (rs : List Rec) (acc : List Rec) (rest : Bytes),
      allSome (recs.map (expV9Rec c names fs)) = some rs →
      recs.all (recOk c names fs) = true →
      v9RecLoop c fs recs.length (recs.flatMap List.flatten ++ rest) acc = (acc ++ rs, rest) ∧
      (recs.flatMap List.flatten).length = recs.length * (fs.map (·.len)).sum := by
  intro recs
  induction recs with
  | nil =>
    intro rs acc rest h _
    simp only [List.map_nil, allSome, Option.some.injEq] at h
    subst h
    simp [v9RecLoop]
  | cons r recs ih =>
    intro rs acc rest h hok
    simp only [List.map_cons] at h
    obtain ⟨e, es, h1, h2, rfl⟩ := allSome_cons_some h
    simp only [List.all_cons, Bool.and_eq_true] at hok
    obtain ⟨hok1, hok2⟩ := hok
    obtain ⟨p1, p2⟩ := v9ParseRec_enc c names harms fs r e (recs.flatMap List.flatten ++ rest) h1 hok1
    obtain ⟨ih1, ih2⟩ := ih es (acc ++ [e]) rest h2 hok2
    constructor
    · simp only [List.length_cons, v9RecLoop, List.flatMap_cons, List.append_assoc, p1, ih1]
      simp
    · simp only [List.flatMap_cons, List.length_append, List.length_cons, p2, ih2, Nat.add_mul, Nat.one_mul]
      omega

/-- `Template::get_total_size` is the sum of the declared lengths saturated at 65535 -/
theorem v9TotalSize_eq (fs : List TField) : v9TotalSize fs = min (fs.map (·.len)).sum 65535 := by
  have aux : ∀ (fs : List TField) (a : Nat), a ≤ 65535 →
      fs.foldl (fun acc f => min (acc + f.len) 65535) a = min (a + (fs.map (·.len)).sum) 65535 := by
    intro fs
    induction fs with
    | nil => intro a ha; simp; omega
    | cons f fs ih =>
      intro a ha
      simp only [List.foldl_cons, List.map_cons, List.sum_cons]
      rw [ih _ (by omega)]
      omega
  simpa [v9TotalSize] using aux fs 0 (by omega)

/-- the record-count division: `floor((n * s + p) / s) = n` for `p < s` -/
theorem rec_count_div (n s p : Nat) (hp : p < s) : (n * s + p) / s = n := by
  have hs : 0 < s := by omega
  rw [Nat.mul_comm, Nat.mul_add_div hs, Nat.div_eq_of_lt hp]
  rfl

/-- LAYER (d): `FlowSetBody::parse` on the body of a data flowset whose id is cached as a data
    template (and not as an options template): floor(body / record size) records, then padding. -/
theorem v9ParseBody_data (c : Config) (names : List (Nat × String)) (harms : DnArmsOk c.t.dnArms)
    (st : PState) (id : Nat) (t : V9Template) (recs : List (List Bytes)) (pad : Bytes) (rs : List Rec)
    (hid0 : id ≠ c.t.v9TemplateId) (hid1 : id ≠ c.t.v9OptTemplateId)
    (hO : amLookup id st.v9O = none) (hT : amLookup id st.v9T = some t)
    (hpos : 0 < (t.fields.map (·.len)).sum) (hpad : pad.length < (t.fields.map (·.len)).sum)
    (hbody : (recs.flatMap List.flatten ++ pad).length < 65535)
    (hall : allSome (recs.map (expV9Rec c names t.fields)) = some rs)
    (hok : recs.all (recOk c names t.fields) = true) :
    v9ParseBody c st id (recs.flatMap List.flatten ++ pad) = (st, .ok (.data rs pad)) := by
  obtain ⟨l1, l2⟩ := v9RecLoop_enc c names harms t.fields recs rs [] pad hall hok
  have htot := v9TotalSize_eq t.fields
  have hlen : (recs.flatMap List.flatten ++ pad).length = recs.length * (t.fields.map (·.len)).sum + pad.length := by
    rw [List.length_append, l2]
  have hcount : (recs.flatMap List.flatten ++ pad).length / v9TotalSize t.fields = recs.length := by
    by_cases hs : (t.fields.map (·.len)).sum ≤ 65535
    · rw [htot, Nat.min_eq_left hs, hlen, rec_count_div _ _ _ hpad]
    · -- a record size above 65535 cannot fit a flowset: there is no record, and the body is all padding
      have hr : recs.length = 0 := by
        cases hrl : recs.length with
        | zero => rfl
        | succ k =>
          rw [hlen, hrl, Nat.add_mul] at hbody
          omega
      rw [htot, Nat.min_eq_right (by omega), hr]
      exact Nat.div_eq_of_lt (by omega)
  have hne : ¬ v9TotalSize t.fields = 0 := by rw [htot]; omega
  simp only [v9ParseBody, hid0, hid1, ↓reduceIte, hO, hT, hne, hcount, l1, List.nil_append]

end Netflow
