/-
  Lemmas/A6IpfixSets.lean — layer (g) of the C05 print-then-parse proof: template memory
  (`ReprIp`), set framing (`ipParseSet`), the set sequence (`ipParseSets`) and the message
  (`parseIpfix`), plus the conformance predicate that collects every extra hypothesis.
-/
import NetflowModel.Lemmas.A6IpfixRecord
namespace Netflow
open Spec

/-! ### sorted association maps -/

def AmSorted_a6 {β : Type} : List (Nat × β) → Prop
  | [] => True
  | p :: rest => (∀ q ∈ rest, p.1 < q.1) ∧ AmSorted_a6 rest

theorem amLookup_amInsert_a6 {β : Type} (k k' : Nat) (v : β) (l : List (Nat × β)) :
    amLookup k (amInsert k' v l) = if k = k' then some v else amLookup k l := by
  induction l with
  | nil => simp [amInsert, amLookup]
  | cons p rest ih =>
    obtain ⟨k2, v2⟩ := p
    simp only [amInsert]
    by_cases h1 : k' < k2
    · rw [if_pos h1]; simp only [amLookup]
    · rw [if_neg h1]
      by_cases h2 : k' = k2
      · rw [if_pos h2]; subst h2; simp only [amLookup]
        by_cases h3 : k = k'
        · simp [h3]
        · simp [h3]
      · rw [if_neg h2]; simp only [amLookup, ih]
        by_cases h3 : k = k2
        · have : k ≠ k' := by omega
          simp [h3]; intro h; omega
        · simp [h3]

theorem mem_amInsert_a6 {β : Type} {k : Nat} {v : β} {l : List (Nat × β)} {q : Nat × β}
    (h : q ∈ amInsert k v l) : q = (k, v) ∨ q ∈ l := by
  induction l with
  | nil => simp [amInsert] at h; exact Or.inl h
  | cons p rest ih =>
    obtain ⟨k2, v2⟩ := p
    simp only [amInsert] at h
    split at h
    · simp only [List.mem_cons] at h ⊢; exact h
    · split at h
      · simp only [List.mem_cons] at h ⊢
        rcases h with h | h
        · exact Or.inl h
        · exact Or.inr (Or.inr h)
      · simp only [List.mem_cons] at h ⊢
        rcases h with h | h
        · exact Or.inr (Or.inl h)
        · rcases ih h with h | h
          · exact Or.inl h
          · exact Or.inr (Or.inr h)

theorem amInsert_sorted {β : Type} (k : Nat) (v : β) (l : List (Nat × β)) (h : AmSorted_a6 l) :
    AmSorted_a6 (amInsert k v l) := by
  induction l with
  | nil => simp [amInsert, AmSorted_a6]
  | cons p rest ih =>
    obtain ⟨k2, v2⟩ := p
    obtain ⟨h1, h2⟩ := h
    simp only [amInsert]
    by_cases c1 : k < k2
    · rw [if_pos c1]
      refine ⟨?_, h1, h2⟩
      intro q hq
      simp only [List.mem_cons] at hq
      rcases hq with hq | hq
      · subst hq; exact c1
      · have := h1 q hq; simp only at this ⊢; omega
    · rw [if_neg c1]
      by_cases c2 : k = k2
      · rw [if_pos c2]; subst c2; exact ⟨h1, h2⟩
      · rw [if_neg c2]
        refine ⟨?_, ih h2⟩
        intro q hq
        rcases mem_amInsert_a6 hq with hq | hq
        · subst hq; simp only; omega
        · exact h1 q hq

theorem mem_amErase_a6 {β : Type} {k : Nat} {l : List (Nat × β)} {q : Nat × β} (h : q ∈ amErase k l) : q ∈ l := by
  induction l with
  | nil => simp [amErase] at h
  | cons p rest ih =>
    obtain ⟨k2, v2⟩ := p
    simp only [amErase] at h
    split at h
    · exact List.mem_cons_of_mem _ h
    · simp only [List.mem_cons] at h ⊢
      rcases h with h | h
      · exact Or.inl h
      · exact Or.inr (ih h)

theorem amErase_sorted {β : Type} (k : Nat) (l : List (Nat × β)) (h : AmSorted_a6 l) : AmSorted_a6 (amErase k l) := by
  induction l with
  | nil => simp [amErase, AmSorted_a6]
  | cons p rest ih =>
    obtain ⟨k2, v2⟩ := p
    obtain ⟨h1, h2⟩ := h
    simp only [amErase]
    split
    · exact h2
    · exact ⟨fun q hq => h1 q (mem_amErase_a6 hq), ih h2⟩

theorem amLookup_none_of_lt {β : Type} (k : Nat) (l : List (Nat × β)) (h : ∀ q ∈ l, k < q.1) : amLookup k l = none := by
  induction l with
  | nil => rfl
  | cons p rest ih =>
    obtain ⟨k2, v2⟩ := p
    have := h (k2, v2) List.mem_cons_self
    simp only at this
    simp only [amLookup]
    rw [if_neg (by omega)]
    exact ih (fun q hq => h q (List.mem_cons_of_mem _ hq))

theorem amLookup_amErase_ne {β : Type} (k k' : Nat) (l : List (Nat × β)) (hne : k ≠ k') :
    amLookup k (amErase k' l) = amLookup k l := by
  induction l with
  | nil => rfl
  | cons p rest ih =>
    obtain ⟨k2, v2⟩ := p
    simp only [amErase]
    split
    · rename_i h; subst h; simp only [amLookup]; rw [if_neg hne]
    · simp only [amLookup, ih]

theorem amLookup_amErase_self {β : Type} (k : Nat) (l : List (Nat × β)) (h : AmSorted_a6 l) :
    amLookup k (amErase k l) = none := by
  induction l with
  | nil => rfl
  | cons p rest ih =>
    obtain ⟨k2, v2⟩ := p
    obtain ⟨h1, h2⟩ := h
    simp only [amErase]
    split
    · rename_i e; subst e; exact amLookup_none_of_lt _ _ h1
    · rename_i e; simp only [amLookup]; rw [if_neg e]; exact ih h2

/-! ### template memory: the parser state represents the exporter-side definitions -/

/-- what the parser state knows about IPFIX template id `id`, as a specification-side definition:
    the data-set lookup order of `FlowSetBody::parse` (templates first, then options templates),
    forgetting the cached `field_count` and `padding` -/
def absIp (st : PState) (id : Nat) : Option IpDef :=
  match amLookup id st.ipT with
  | some t => some (.t { id := t.id, fields := t.fields })
  | none =>
    match amLookup id st.ipO with
    | some t => some (.o { id := t.id, scopeCount := t.scopeCount, fields := t.fields })
    | none => none

/-- parser state `st` represents template memory `d` (IPFIX part) -/
structure ReprIp (d : List (Nat × IpDef)) (st : PState) : Prop where
  sortedT : AmSorted_a6 st.ipT
  sortedO : AmSorted_a6 st.ipO
  look : ∀ id, amLookup id d = absIp st id

theorem absIp_t {st : PState} {id : Nat} {t : IpTemplateSpec} (h : absIp st id = some (.t t)) :
    ∃ T, amLookup id st.ipT = some T ∧ T.id = t.id ∧ T.fields = t.fields := by
  unfold absIp at h
  cases hT : amLookup id st.ipT with
  | some T =>
    simp only [hT, Option.some.injEq, IpDef.t.injEq] at h
    exact ⟨T, rfl, by rw [← h], by rw [← h]⟩
  | none =>
    simp only [hT] at h
    cases hO : amLookup id st.ipO with
    | some T => simp [hO] at h
    | none => simp [hO] at h

theorem absIp_o {st : PState} {id : Nat} {t : IpOptTemplateSpec} (h : absIp st id = some (.o t)) :
    amLookup id st.ipT = none ∧ ∃ T, amLookup id st.ipO = some T ∧ T.id = t.id ∧ T.fields = t.fields := by
  unfold absIp at h
  cases hT : amLookup id st.ipT with
  | some T => simp [hT] at h
  | none =>
    simp only [hT] at h
    cases hO : amLookup id st.ipO with
    | some T =>
      simp only [hO, Option.some.injEq, IpDef.o.injEq] at h
      exact ⟨rfl, T, rfl, by rw [← h], by rw [← h]⟩
    | none => simp [hO] at h

theorem ReprIp.insertT {d : List (Nat × IpDef)} {st : PState} (hr : ReprIp d st) (t : IpTemplateSpec) (T : IpTemplate)
    (hid : T.id = t.id) (hf : T.fields = t.fields) :
    ReprIp (ipInsert d t.id (.t t)) { st with ipT := amInsert T.id T st.ipT, ipO := amErase T.id st.ipO } := by
  refine ⟨amInsert_sorted _ _ _ hr.sortedT, amErase_sorted _ _ hr.sortedO, ?_⟩
  intro id
  simp only [ipInsert, amLookup_amInsert_a6, absIp, hid]
  by_cases h : id = t.id
  · simp only [h, ↓reduceIte]
    obtain ⟨tid, tfs⟩ := t
    simp only at hid hf
    simp [hid, hf]
  · simp only [h, ↓reduceIte, amLookup_amErase_ne _ _ _ h]
    exact hr.look id

theorem ReprIp.insertO {d : List (Nat × IpDef)} {st : PState} (hr : ReprIp d st) (t : IpOptTemplateSpec) (T : IpOptTemplate)
    (hid : T.id = t.id) (hs : T.scopeCount = t.scopeCount) (hf : T.fields = t.fields) :
    ReprIp (ipInsert d t.id (.o t)) { st with ipO := amInsert T.id T st.ipO, ipT := amErase T.id st.ipT } := by
  refine ⟨amErase_sorted _ _ hr.sortedT, amInsert_sorted _ _ _ hr.sortedO, ?_⟩
  intro id
  simp only [ipInsert, amLookup_amInsert_a6, absIp, hid]
  by_cases h : id = t.id
  · simp only [h, ↓reduceIte, amLookup_amErase_self _ _ hr.sortedT]
    obtain ⟨tid, tsc, tfs⟩ := t
    simp only at hid hf hs
    simp [hid, hf, hs]
  · simp only [h, ↓reduceIte, amLookup_amErase_ne _ _ _ h]
    exact hr.look id

theorem ReprIp.empty : ReprIp [] {} := ⟨trivial, trivial, fun _ => rfl⟩

/-- the relation in the "iff up to `field_count` / `padding`" form, templates: the memory holds
    template `t` at `id` exactly when the template cache holds a record with `t`'s id and fields -/
theorem ReprIp.t_iff {d : List (Nat × IpDef)} {st : PState} (hr : ReprIp d st) (id : Nat) (t : IpTemplateSpec) :
    amLookup id d = some (.t t) ↔
      ∃ fc pad, amLookup id st.ipT = some { id := t.id, fieldCount := fc, fields := t.fields, pad := pad } := by
  rw [hr.look id]
  constructor
  · intro h
    obtain ⟨T, hT, h1, h2⟩ := absIp_t h
    obtain ⟨Tid, Tfc, Tfs, Tpad⟩ := T
    simp only at h1 h2
    subst h1 h2
    exact ⟨Tfc, Tpad, hT⟩
  · intro ⟨fc, pad, h⟩
    simp only [absIp, h]

/-- options templates: the memory holds `t` at `id` exactly when the template cache has no entry
    for `id` (it would shadow) and the options-template cache holds a record with `t`'s data -/
theorem ReprIp.o_iff {d : List (Nat × IpDef)} {st : PState} (hr : ReprIp d st) (id : Nat) (t : IpOptTemplateSpec) :
    amLookup id d = some (.o t) ↔
      amLookup id st.ipT = none ∧
      ∃ fc pad, amLookup id st.ipO = some { id := t.id, fieldCount := fc, scopeCount := t.scopeCount, fields := t.fields, pad := pad } := by
  rw [hr.look id]
  constructor
  · intro h
    unfold absIp at h
    cases hT : amLookup id st.ipT with
    | some T => simp [hT] at h
    | none =>
      simp only [hT] at h
      cases hO : amLookup id st.ipO with
      | none => simp [hO] at h
      | some T =>
        simp only [hO, Option.some.injEq, IpDef.o.injEq] at h
        obtain ⟨Tid, Tfc, Tsc, Tfs, Tpad⟩ := T
        subst h
        exact ⟨rfl, Tfc, Tpad, rfl⟩
  · intro ⟨h0, fc, pad, h⟩
    simp only [absIp, h0, h]

/-! ### table facts and the conformance predicate -/

/-- facts about the generated tables used by the IPFIX round trip (decidable; discharged for
    `Generated.tables` by `decide`): header layouts, set-id dispatch constants, `DataNumber::parse`
    arms, version dispatch -/
def Tables.ipfixOk (t : Tables) : Bool :=
  decide (t.ipHdr = [
    { name := "version", kind := .const 10, tw := 2 },
    { name := "length", kind := .wire 2, tw := 2 },
    { name := "export_time", kind := .wire 4, tw := 4 },
    { name := "sequence_number", kind := .wire 4, tw := 4 },
    { name := "observation_domain_id", kind := .wire 4, tw := 4 } ]) &&
  decide (t.ipSetHdr = [
    { name := "header_id", kind := .wire 2, tw := 2 },
    { name := "length", kind := .wire 2, tw := 2 } ]) &&
  decide (2 < t.ipSetMinRange) && decide (t.ipSetMinRange ≤ 256) && decide (t.ipOptTemplateId = 3) &&
  DnArmsOk_a6 t.dnArms && decide (t.dispatch.lookup 10 = some 10)

/-- conditions on a data set governed by a template with field list `fs` -/
def ipDataConf (c : Config) (fs : List IpTField) (recs : List (List FieldBytes)) (pad : Bytes) : Bool :=
  !fs.isEmpty && recs.all (recValOk c fs) && recLoopOk (recs.map recSize) pad.length

/-- extra conformance conditions of one set, given the template memory `d` in force -/
def ipSetConf (c : Config) (d : List (Nat × IpDef)) : IpFS → Bool
  | .templates ts pad =>
    (match ts with
     | [t] => IpTemplateOk t && padStopsFields pad
     | _ => false) &&
    decide ((ts.flatMap encIpTemplate ++ pad).length + 4 < 65536)
  | .optTemplates ts pad =>
    (match ts with
     | [t] => IpOptTemplateOk t
     | _ => false) &&
    decide ((ts.flatMap encIpOptTemplate ++ pad).length + 4 < 65536)
  | .data id recs pad =>
    decide (256 ≤ id) && decide (id < 65536) &&
    decide (((recs.flatMap fun r => r.flatMap encFieldBytes) ++ pad).length + 4 < 65536) &&
    (match amLookup id d with
     | some (.t t) => ipDataConf c t.fields recs pad
     | some (.o t) => ipDataConf c t.fields recs pad
     | none => false)

/-- template memory after one set (what `Spec.expIpSet` computes, without the value checks) -/
def ipDefsStep (d : List (Nat × IpDef)) : IpFS → List (Nat × IpDef)
  | .templates ts _ => ts.foldl (fun d t => ipInsert d t.id (.t t)) d
  | .optTemplates ts _ => ts.foldl (fun d t => ipInsert d t.id (.o t)) d
  | .data _ _ _ => d

def ipSetsConf (c : Config) : List (Nat × IpDef) → List IpFS → Bool
  | _, [] => true
  | d, s :: ss => ipSetConf c d s && ipSetsConf c (ipDefsStep d s) ss

theorem expIpSet_defs (c : Config) (names : List (Nat × String)) (d d1 : List (Nat × IpDef)) (s : IpFS) (x : Option IpSet)
    (h : expIpSet c names d s = some (d1, x)) : d1 = ipDefsStep d s := by
  cases s with
  | templates ts pad =>
    simp only [expIpSet] at h
    split at h <;> simp only [Option.some.injEq, Prod.mk.injEq] at h <;> simp [ipDefsStep, ← h.1]
  | optTemplates ts pad =>
    simp only [expIpSet] at h
    split at h <;> simp only [Option.some.injEq, Prod.mk.injEq] at h <;> simp [ipDefsStep, ← h.1]
  | data id recs pad =>
    simp only [expIpSet] at h
    split at h
    · split at h
      · simp only [Option.some.injEq, Prod.mk.injEq] at h; simp [ipDefsStep, ← h.1]
      · simp at h
    · split at h
      · simp only [Option.some.injEq, Prod.mk.injEq] at h; simp [ipDefsStep, ← h.1]
      · simp at h
    · simp at h

/-! ### (g) set framing -/

theorem frame_length (id : Nat) (body : Bytes) : (frame id body).length = body.length + 4 := by
  simp only [frame, List.length_append, toBE_length]; omega

theorem parseSetHdr_frame (c : Config) (ht : c.t.ipfixOk = true) (id : Nat) (body rest : Bytes)
    (hid : id < 65536) (hlen : body.length + 4 < 65536) :
    parseLayout c.t.protoFromU8 c.t.ipSetHdr (frame id body ++ rest) = some ([id, body.length + 4], body ++ rest) := by
  simp only [Tables.ipfixOk, Bool.and_eq_true, decide_eq_true_eq] at ht
  obtain ⟨⟨⟨⟨⟨⟨_, h2⟩, _⟩, _⟩, _⟩, _⟩, _⟩ := ht
  rw [h2]
  simp only [frame, List.append_assoc, parseLayout, parseFields]
  rw [beU2_toBE hid]
  simp only
  rw [beU2_toBE hlen]
  simp

theorem setHdr_get (c : Config) (ht : c.t.ipfixOk = true) (a b : Nat) :
    c.t.ipSetHdr.get "header_id" [a, b] = a ∧ c.t.ipSetHdr.get "length" [a, b] = b := by
  simp only [Tables.ipfixOk, Bool.and_eq_true, decide_eq_true_eq] at ht
  obtain ⟨⟨⟨⟨⟨⟨_, h2⟩, _⟩, _⟩, _⟩, _⟩, _⟩ := ht
  rw [h2]
  exact ⟨rfl, rfl⟩

/-- `ipParseSet` on a framed body: header decoded, body cut out, body parser run -/
theorem ipParseSet_frame (c : Config) (ht : c.t.ipfixOk = true) (st : PState) (id : Nat) (body rest : Bytes)
    (hid : id < 65536) (hlen : body.length + 4 < 65536) :
    ipParseSet c st (frame id body ++ rest) =
      match ipParseBody c st id body with
      | (st', .ok b) => (st', .ok ({ id := id, len := body.length + 4, body := b }, rest))
      | (st', .err) => (st', .err)
      | (st', .panic) => (st', .panic)
      | (st', .overflow) => (st', .overflow) := by
  obtain ⟨g1, g2⟩ := setHdr_get c ht id (body.length + 4)
  simp only [ipParseSet, parseSetHdr_frame c ht id body rest hid hlen, g1, g2, Nat.add_sub_cancel, takeN_append_a6]
  cases ipParseBody c st id body with
  | mk s r => cases r <;> rfl

/-- the data-set branch of `ipParseBody` -/
theorem ipRecLoop_data (c : Config) (names : List (Nat × String)) (ht : c.t.ipfixOk = true) (hnp : NoProto c)
    (fs : List IpTField) (recs : List (List FieldBytes)) (pad : Bytes) (rs : List (List Rec))
    (hconf : ipDataConf c fs recs pad = true)
    (hexp : allSome (recs.map (expIpRec c names fs)) = some rs) :
    fs.isEmpty = false ∧
    ipRecLoop c fs (((recs.flatMap fun r => r.flatMap encFieldBytes) ++ pad).length + 1)
      ((recs.flatMap fun r => r.flatMap encFieldBytes) ++ pad) = .ok (rs.flatten, pad) := by
  have harms : DnArmsOk_a6 c.t.dnArms = true := by
    simp only [Tables.ipfixOk, Bool.and_eq_true] at ht
    exact ht.1.2
  simp only [ipDataConf, Bool.and_eq_true, Bool.not_eq_true', List.all_eq_true] at hconf
  obtain ⟨⟨h1, h2⟩, h3⟩ := hconf
  exact ⟨h1, ipRecLoop_enc c names harms hnp fs recs rs _ pad h2 hexp h3 (Nat.lt_succ_self _)⟩

theorem ipParseSet_enc (c : Config) (names : List (Nat × String)) (ht : c.t.ipfixOk = true) (hnp : NoProto c)
    (d : List (Nat × IpDef)) (st : PState) (s : IpFS) (d1 : List (Nat × IpDef)) (s1 : IpSet) (rest : Bytes)
    (hr : ReprIp d st) (hconf : ipSetConf c d s = true) (hexp : expIpSet c names d s = some (d1, some s1)) :
    ∃ st1, ipParseSet c st (encIpFS s ++ rest) = (st1, .ok (s1, rest)) ∧ ReprIp d1 st1 := by
  have ht' := ht
  simp only [Tables.ipfixOk, Bool.and_eq_true, decide_eq_true_eq] at ht'
  obtain ⟨⟨⟨⟨⟨⟨_, _⟩, hmin2⟩, hmin256⟩, hopt⟩, _⟩, _⟩ := ht'
  cases s with
  | templates ts pad =>
    simp only [ipSetConf, Bool.and_eq_true, decide_eq_true_eq] at hconf
    obtain ⟨hc1, hlen⟩ := hconf
    match ts, hc1, hlen, hexp with
    | [t], hc1, hlen, hexp =>
      simp only [Bool.and_eq_true] at hc1
      simp only [expIpSet, Option.some.injEq, Prod.mk.injEq] at hexp
      obtain ⟨e1, e2⟩ := hexp
      simp only [List.flatMap_cons, List.flatMap_nil, List.append_nil] at hlen
      simp only [encIpFS, List.flatMap_cons, List.flatMap_nil, List.append_nil]
      rw [ipParseSet_frame c ht st 2 _ rest (by omega) hlen]
      have hb : ∃ st1, ipParseBody c st 2 (encIpTemplate t ++ pad) =
          (st1, .ok (.template { id := t.id, fieldCount := t.fields.length, fields := t.fields, pad := pad })) ∧
          ReprIp (ipInsert d t.id (.t t)) st1 := by
        have hv : ipValid t.fields = true := by
          have := hc1.1; simp only [IpTemplateOk, Bool.and_eq_true] at this; exact this.2
        refine ⟨{ st with ipT := amInsert t.id { id := t.id, fieldCount := t.fields.length, fields := t.fields, pad := pad } st.ipT,
                          ipO := amErase t.id st.ipO }, ?_, ?_⟩
        · simp only [ipParseBody]
          rw [if_pos ⟨by omega, by omega⟩, parseIpTemplate_enc t pad hc1.1 hc1.2]
          simp only [hv, ↓reduceIte]
        · exact hr.insertT t { id := t.id, fieldCount := t.fields.length, fields := t.fields, pad := pad } rfl rfl
      obtain ⟨st1, hb, hr1⟩ := hb
      rw [hb]
      refine ⟨st1, ?_, by rw [← e1]; exact hr1⟩
      simp only [Prod.mk.injEq, Res.ok.injEq, true_and]
      rw [← e2]
      simp only [encIpFS, frame_length, List.flatMap_cons, List.flatMap_nil, List.append_nil, and_true]
  | optTemplates ts pad =>
    simp only [ipSetConf, Bool.and_eq_true, decide_eq_true_eq] at hconf
    obtain ⟨hc1, hlen⟩ := hconf
    match ts, hc1, hlen, hexp with
    | [t], hc1, hlen, hexp =>
      simp only [expIpSet, Option.some.injEq, Prod.mk.injEq] at hexp
      obtain ⟨e1, e2⟩ := hexp
      simp only [List.flatMap_cons, List.flatMap_nil, List.append_nil] at hlen
      simp only [encIpFS, List.flatMap_cons, List.flatMap_nil, List.append_nil]
      rw [ipParseSet_frame c ht st 3 _ rest (by omega) hlen]
      have hb : ∃ st1, ipParseBody c st 3 (encIpOptTemplate t ++ pad) =
          (st1, .ok (.optTemplate { id := t.id, fieldCount := t.fields.length, scopeCount := t.scopeCount, fields := t.fields, pad := pad })) ∧
          ReprIp (ipInsert d t.id (.o t)) st1 := by
        have hv : ipValid t.fields = true := by
          have := hc1; simp only [IpOptTemplateOk, Bool.and_eq_true] at this; exact this.2
        refine ⟨{ st with ipO := amInsert t.id { id := t.id, fieldCount := t.fields.length, scopeCount := t.scopeCount, fields := t.fields, pad := pad } st.ipO,
                          ipT := amErase t.id st.ipT }, ?_, ?_⟩
        · simp only [ipParseBody]
          rw [if_neg (by omega), if_pos (by omega), parseIpOptTemplate_enc t pad hc1]
          simp only [hv, ↓reduceIte]
        · exact hr.insertO t { id := t.id, fieldCount := t.fields.length, scopeCount := t.scopeCount, fields := t.fields, pad := pad } rfl rfl rfl
      obtain ⟨st1, hb, hr1⟩ := hb
      rw [hb]
      refine ⟨st1, ?_, by rw [← e1]; exact hr1⟩
      simp only [Prod.mk.injEq, Res.ok.injEq, true_and]
      rw [← e2]
      simp only [encIpFS, frame_length, List.flatMap_cons, List.flatMap_nil, List.append_nil, and_true]
  | data id recs pad =>
    simp only [ipSetConf, Bool.and_eq_true, decide_eq_true_eq] at hconf
    obtain ⟨⟨⟨hid1, hid2⟩, hlen⟩, hc⟩ := hconf
    simp only [encIpFS]
    rw [ipParseSet_frame c ht st id _ rest hid2 hlen]
    simp only [expIpSet] at hexp
    cases hd : amLookup id d with
    | none => simp [hd] at hexp
    | some df =>
      cases df with
      | t t =>
        simp only [hd] at hexp hc
        cases hall : allSome (recs.map (expIpRec c names t.fields)) with
        | none => simp [hall] at hexp
        | some rs =>
          simp only [hall, Option.some.injEq, Prod.mk.injEq] at hexp
          obtain ⟨e1, e2⟩ := hexp
          rw [hr.look id] at hd
          obtain ⟨T, hT, _, hTf⟩ := absIp_t hd
          obtain ⟨hne, hloop⟩ := ipRecLoop_data c names ht hnp t.fields recs pad rs hc hall
          have hb : ipParseBody c st id ((recs.flatMap fun r => r.flatMap encFieldBytes) ++ pad) =
              (st, .ok (.data rs.flatten pad)) := by
            simp only [ipParseBody]
            rw [if_neg (by omega), if_neg (by omega)]
            simp only [hT, hTf, hne, Bool.false_eq_true, ↓reduceIte, hloop]
          rw [hb]
          refine ⟨st, ?_, by rw [← e1]; exact hr⟩
          simp only [Prod.mk.injEq, Res.ok.injEq, true_and]
          rw [← e2]
          simp only [encIpFS, frame_length, and_true]
      | o t =>
        simp only [hd] at hexp hc
        cases hall : allSome (recs.map (expIpRec c names t.fields)) with
        | none => simp [hall] at hexp
        | some rs =>
          simp only [hall, Option.some.injEq, Prod.mk.injEq] at hexp
          obtain ⟨e1, e2⟩ := hexp
          rw [hr.look id] at hd
          obtain ⟨hTn, T, hT, _, hTf⟩ := absIp_o hd
          obtain ⟨hne, hloop⟩ := ipRecLoop_data c names ht hnp t.fields recs pad rs hc hall
          have hb : ipParseBody c st id ((recs.flatMap fun r => r.flatMap encFieldBytes) ++ pad) =
              (st, .ok (.optData rs.flatten pad)) := by
            simp only [ipParseBody]
            rw [if_neg (by omega), if_neg (by omega)]
            simp only [hTn, hT, hTf, hne, Bool.false_eq_true, ↓reduceIte, hloop]
          rw [hb]
          refine ⟨st, ?_, by rw [← e1]; exact hr⟩
          simp only [Prod.mk.injEq, Res.ok.injEq, true_and]
          rw [← e2]
          simp only [encIpFS, frame_length, and_true]

end Netflow
