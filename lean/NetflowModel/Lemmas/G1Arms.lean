/-
  Lemmas/G1Arms.lean — the hand-written value codec of the model IS the interpretation of the arm tables that
  `tools/translate.py` regenerates from data_number.rs on every run (see Arms.lean).
-/
import NetflowModel.Arms
import NetflowModel.Generated
import NetflowModel.Common
namespace Netflow.G1
open Netflow

/-- `parseValue` = interpretation of the regenerated arms of `FieldValue::from_field_type` -/
theorem parseValue_eq_generated (c : ValueCfg) (ty : FType) (len : Nat) (i : Bytes) :
    parseValue c ty len i = parseValueBy Generated.valueArms c ty len i := by
  cases ty <;> rfl

/-- every library type has an arm (the Rust `match` is exhaustive) -/
theorem valueArms_total (ty : FType) : (valueArmOf Generated.valueArms ty).isSome = true := by
  cases ty <;> rfl

/-- `FieldValue.toBE` = interpretation of the regenerated arms of `FieldValue::to_be_bytes` -/
theorem toBE_eq_generated (c : ValueCfg) (v : FieldValue) :
    v.toBE c = toBEBy Generated.exportArms c v := by
  cases v <;> rfl

/-- `DataNumber.toBE` = interpretation of the regenerated arms of `DataNumber::to_be_bytes` -/
theorem dnToBE_eq_generated (d : DataNumber) : d.toBE = dnToBEBy Generated.dnExportArms d := by
  cases d <;> rfl

/-- every `From<DataNumber> for usize` arm is the plain cast `i as usize`, which is what `DataNumber.toUsize` models
    (identity below 2^64, low 64 bits of a u128, two's complement image of a negative value) -/
theorem dnUsize_all_casts :
    ∀ a : DnArm, a ∈ Generated.dnUsizeCasts := by
  intro a; cases a <;> decide

/-! ### the conversions of the common view -/

theorem asU8_eq_generated (v : FieldValue) : (asU8 v).map Int.ofNat = convNumBy Generated.convNumArms "u8" v := by
  cases v with
  | num d => cases d <;> rfl
  | _ => rfl

theorem asU16_eq_generated (v : FieldValue) : (asU16 v).map Int.ofNat = convNumBy Generated.convNumArms "u16" v := by
  cases v with
  | num d => cases d <;> rfl
  | _ => rfl

theorem asU32_eq_generated (v : FieldValue) : (asU32 v).map Int.ofNat = convNumBy Generated.convNumArms "u32" v := by
  cases v with
  | num d => cases d <;> rfl
  | _ => rfl

theorem asString_eq_generated (v : FieldValue) : asString v = convStringBy Generated.convStringTags v := by
  cases v <;> rfl

theorem asIp_eq_generated (v : FieldValue) : asIp v = convIpBy Generated.convIpTags v := by
  cases v <;> rfl

/-- the target types of the projected fields (they select which conversion runs) are the ones `commonOfRec` uses -/
theorem commonFlowTypes_as_modelled :
    Generated.commonFlowTypes =
      [("src_addr", "IpAddr"), ("dst_addr", "IpAddr"), ("src_port", "u16"), ("dst_port", "u16"), ("protocol_number", "u8"),
       ("protocol_type", "ProtocolTypes"), ("first_seen", "u32"), ("last_seen", "u32"), ("src_mac", "String"), ("dst_mac", "String")] := by
  decide

end Netflow.G1
