/-
  Lemmas/G1Arms.lean — the hand-written value codec of the model IS the interpretation of the arm tables that
  `tools/translate.py` regenerates from data_number.rs on every run (see Arms.lean).
-/
import NetflowModel.Arms
import NetflowModel.Generated
namespace Netflow.G1
open Netflow

/-- `parseValue` = interpretation of the regenerated arms of `FieldValue::from_field_type` -/
theorem parseValue_eq_generated (c : ValueCfg) (ty : FType) (len : Nat) (i : Bytes) :
    parseValue c ty len i = parseValueBy Generated.valueArms c ty len i := by
  cases ty <;> rfl

/-- every library type has an arm (the Rust `match` is exhaustive) -/
theorem valueArms_total (ty : FType) : (valueArmOf Generated.valueArms ty).isSome = true := by
  cases ty <;> rfl

/-- `FieldValue.toBE` = interpretation of the regenerated arms of `FieldValue::to_be_bytes` -/
theorem toBE_eq_generated (c : ValueCfg) (v : FieldValue) :
    v.toBE c = toBEBy Generated.exportArms c v := by
  cases v <;> rfl

/-- `DataNumber.toBE` = interpretation of the regenerated arms of `DataNumber::to_be_bytes` -/
theorem dnToBE_eq_generated (d : DataNumber) : d.toBE = dnToBEBy Generated.dnExportArms d := by
  cases d <;> rfl

/-- every `From<DataNumber> for usize` arm is the plain cast `i as usize`, which is what `DataNumber.toUsize` models
    (identity below 2^64, low 64 bits of a u128, two's complement image of a negative value) -/
theorem dnUsize_all_casts :
    ∀ a : DnArm, a ∈ Generated.dnUsizeCasts := by
  intro a; cases a <;> decide

end Netflow.G1
