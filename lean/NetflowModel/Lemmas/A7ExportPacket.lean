/-
  Lemmas/A7ExportPacket.lean — lifting the V9 / IPFIX coherence theorems through
  `parse_packet_by_version` (`parsePacket`) and `exportPacket`: the version word is part of the
  re-exported bytes.
-/
import NetflowModel.Lemmas.A7ExportIpfix
namespace Netflow.A7

theorem parseV9_ok_is_v9 (c : Config) (st st' : PState) (i : Bytes) (p : Packet) (r : Bytes)
    (hp : parseV9 c st i = (st', .ok (p, r))) : ∃ h ss, p = .v9 h ss := by
  unfold parseV9 at hp
  cases hh : parseLayout c.t.protoFromU8 c.t.v9Hdr i with
  | none => simp [hh] at hp
  | some hr =>
    obtain ⟨h, r1⟩ := hr
    simp only [hh] at hp
    cases hs : v9ParseSets c (c.t.v9Hdr.get "count" h) st r1 with
    | mk st1 res =>
      cases res with
      | ok ssr =>
        obtain ⟨ss, r2⟩ := ssr
        simp only [hs, Prod.mk.injEq, Res.ok.injEq] at hp
        exact ⟨h, ss, hp.2.1.symm⟩
      | err => simp [hs] at hp
      | panic => simp [hs] at hp
      | overflow => simp [hs] at hp

theorem parseIpfix_ok_is_ipfix (c : Config) (st st' : PState) (i : Bytes) (p : Packet) (r : Bytes)
    (hp : parseIpfix c st i = (st', .ok (p, r))) : ∃ h ss, p = .ipfix h ss := by
  unfold parseIpfix at hp
  cases hh : parseLayout c.t.protoFromU8 c.t.ipHdr i with
  | none => simp [hh] at hp
  | some hr =>
    obtain ⟨h, r1⟩ := hr
    simp only [hh] at hp
    cases ht : takeN (c.t.ipHdr.get "length" h - 16) r1 with
    | none => simp [ht] at hp
    | some br =>
      obtain ⟨body, r2⟩ := br
      simp only [ht] at hp
      cases hs : ipParseSets c (body.length + 1) st body with
      | mk st1 res =>
        cases res with
        | ok ss =>
          simp only [hs, Prod.mk.injEq, Res.ok.injEq] at hp
          exact ⟨h, ss, hp.2.1.symm⟩
        | err => simp [hs] at hp
        | panic => simp [hs] at hp
        | overflow => simp [hs] at hp

theorem liftRes_ok {version : Nat} {body : Bytes} {res : Res (Packet × Bytes)} {p : Packet} {r : Bytes}
    (h : liftRes version body res = .ok p r) : res = .ok (p, r) := by
  cases res with
  | ok pr =>
    obtain ⟨p', r'⟩ := pr
    simp only [liftRes, Step.ok.injEq] at h
    rw [h.1, h.2]
  | err => simp [liftRes] at h
  | panic => simp [liftRes] at h
  | overflow => simp [liftRes] at h

/-- which arm of `parseVersioned` produced an `.ok` step, by the shape of the packet -/
theorem parseVersioned_ok_inv (c : Config) (st st' : PState) (kind : Nat) (body : Bytes) (p : Packet) (rest : Bytes)
    (hv : parseVersioned c st kind body = (st', .ok p rest)) :
    (kind = 5 ∧ ∃ h rs, p = .v5 h rs) ∨ (kind = 7 ∧ ∃ h rs, p = .v7 h rs) ∨
    (kind = 9 ∧ parseV9 c st body = (st', .ok (p, rest))) ∨
    (kind = 10 ∧ parseIpfix c st body = (st', .ok (p, rest))) := by
  unfold parseVersioned at hv
  split at hv
  · rename_i hk
    cases hp : parseFixed c c.t.v5Hdr c.t.v5Rec body with
    | none => simp [hp] at hv
    | some x =>
      obtain ⟨⟨hd, rs⟩, r⟩ := x
      simp only [hp, Prod.mk.injEq, Step.ok.injEq] at hv
      exact Or.inl ⟨hk, hd, rs, hv.2.1.symm⟩
  · split at hv
    · rename_i hk
      cases hp : parseFixed c c.t.v7Hdr c.t.v7Rec body with
      | none => simp [hp] at hv
      | some x =>
        obtain ⟨⟨hd, rs⟩, r⟩ := x
        simp only [hp, Prod.mk.injEq, Step.ok.injEq] at hv
        exact Or.inr (Or.inl ⟨hk, hd, rs, hv.2.1.symm⟩)
    · split at hv
      · rename_i hk
        simp only [Prod.mk.injEq] at hv
        obtain ⟨e1, e2⟩ := hv
        refine Or.inr (Or.inr (Or.inl ⟨hk, ?_⟩))
        have := liftRes_ok e2
        rw [← e1, ← this]
      · split at hv
        · rename_i hk
          simp only [Prod.mk.injEq] at hv
          obtain ⟨e1, e2⟩ := hv
          refine Or.inr (Or.inr (Or.inr ⟨hk, ?_⟩))
          have := liftRes_ok e2
          rw [← e1, ← this]
        · simp at hv

/-- every `match version` arm dispatches to the parser of that version -/
def dispatchOk (t : Tables) : Bool := t.dispatch.all fun p => p.1 == p.2

/-- inversion of a successful `parsePacket`: version word `kind`, then the versioned parser -/
theorem parsePacket_ok_inv (c : Config) (hd : dispatchOk c.t = true) (st st' : PState) (buf : Bytes)
    (p : Packet) (rest : Bytes) (h : parsePacket c st buf = (st', .ok p rest)) :
    ∃ kind, toBE 2 kind ++ buf.drop 2 = buf ∧ parseVersioned c st kind (buf.drop 2) = (st', .ok p rest) := by
  rcases parsePacket_inv c st st' buf _ h with h1 | h1 | h1 | h1
  · obtain ⟨_, _, h3⟩ := h1; cases h3
  · obtain ⟨v, _, _, _, h3⟩ := h1; cases h3
  · obtain ⟨v, _, _, _, _, h3⟩ := h1; cases h3
  · obtain ⟨v, kind, hb, _, hl, hv⟩ := h1
    have hm := lookup_mem hl
    simp only [dispatchOk, List.all_eq_true, beq_iff_eq] at hd
    have := hd _ hm
    simp only at this
    subst this
    exact ⟨v, beU_coh hb, hv⟩

theorem parsePacket_v9_coh (c : Config) (hd : dispatchOk c.t = true) (hs : v9SetHdrOk c.t = true)
    (hk : v9HdrOk c.t = true) (st st' : PState) (buf : Bytes) (h : List Nat) (ss : List V9Set) (rest : Bytes)
    (hp : parsePacket c st buf = (st', .ok (.v9 h ss) rest)) (hl : V9Lossless c st ss = true) :
    exportPacket c (.v9 h ss) = some (.ok (buf.take (buf.length - rest.length))) := by
  obtain ⟨kind, hbuf, hv⟩ := parsePacket_ok_inv c hd st st' buf _ rest hp
  simp only [V9Lossless, Bool.and_eq_true] at hl
  rcases parseVersioned_ok_inv c st st' kind _ _ rest hv with h1 | h1 | h1 | h1
  · obtain ⟨_, _, _, h3⟩ := h1; cases h3
  · obtain ⟨_, _, _, h3⟩ := h1; cases h3
  · obtain ⟨hk9, hp9⟩ := h1
    subst hk9
    obtain ⟨x, hx, hc⟩ := parseV9_coh_ex c hs hk (v9DataIds ss) st st' _ h ss rest hp9 hl.1
      (v9SetsOk_of_lossless c ss hl.2)
    simp only [exportPacket, hx]
    congr 2
    apply prefix_eq_take
    rw [List.append_assoc, hc, hbuf]
  · obtain ⟨_, hp10⟩ := h1
    obtain ⟨_, _, h3⟩ := parseIpfix_ok_is_ipfix c st st' _ _ rest hp10
    cases h3

theorem parsePacket_ipfix_coh (c : Config) (hd : dispatchOk c.t = true) (hs : ipSetHdrOk c.t = true)
    (hk : ipHdrOk c.t = true) (st st' : PState) (buf : Bytes) (h : List Nat) (ss : List IpSet) (rest : Bytes)
    (hp : parsePacket c st buf = (st', .ok (.ipfix h ss) rest)) (hl : IpLossless c st h ss = true) :
    exportPacket c (.ipfix h ss) = some (.ok (buf.take (buf.length - rest.length))) := by
  obtain ⟨kind, hbuf, hv⟩ := parsePacket_ok_inv c hd st st' buf _ rest hp
  simp only [IpLossless, Bool.and_eq_true, beq_iff_eq] at hl
  obtain ⟨⟨hl1, hl2⟩, hl3⟩ := hl
  rcases parseVersioned_ok_inv c st st' kind _ _ rest hv with h1 | h1 | h1 | h1
  · obtain ⟨_, _, _, h3⟩ := h1; cases h3
  · obtain ⟨_, _, _, h3⟩ := h1; cases h3
  · obtain ⟨_, hp9⟩ := h1
    obtain ⟨_, _, h3⟩ := parseV9_ok_is_v9 c st st' _ _ rest hp9
    cases h3
  · obtain ⟨hk10, hp10⟩ := h1
    subst hk10
    obtain ⟨x, hx, hc⟩ := parseIpfix_coh_ex c hs hk (ipDataIds ss) st st' _ h ss rest hp10 hl1
      (ipSetsOk_of_lossless c ss hl2) hl3
    simp only [exportPacket, hx]
    congr 2
    apply prefix_eq_take
    rw [List.append_assoc, hc, hbuf]

end Netflow.A7
