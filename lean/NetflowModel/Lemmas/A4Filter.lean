/-
  Lemmas/A4Filter.lean — helpers for C12 (allowed_versions is a pure prefix filter) and C13
  (common-flow view): everything downstream of the version gate is independent of `Config.allowed`;
  `stateAfter`; value-level facts about the generic layout parser (constants, derived protocol
  field, width bounds); `recGet` vs `firstField`.
-/
import NetflowModel.Lemmas.Consume
import NetflowModel.Common
namespace Netflow
open Preds

/-! ### nothing below the gate reads `Config.allowed` -/

/-- `c` with its allowed set replaced -/
abbrev Config.withAllowed (c : Config) (a : List Nat) : Config := { c with allowed := a }

theorem vc_allowed (c : Config) (a : List Nat) : (c.withAllowed a).vc = c.vc := rfl

theorem v9ParseRec_allowed (c : Config) (a : List Nat) :
    ∀ (fs : List TField) (idx : Nat) (i : Bytes), v9ParseRec (c.withAllowed a) fs idx i = v9ParseRec c fs idx i := by
  intro fs
  induction fs with
  | nil => intro idx i; rfl
  | cons f fs ih => intro idx i; simp only [v9ParseRec, vc_allowed, ih]

theorem v9RecLoop_allowed (c : Config) (a : List Nat) (fs : List TField) :
    ∀ (n : Nat) (i : Bytes) (acc : List Rec), v9RecLoop (c.withAllowed a) fs n i acc = v9RecLoop c fs n i acc := by
  intro n
  induction n with
  | zero => intro i acc; rfl
  | succ n ih => intro i acc; simp only [v9RecLoop, v9ParseRec_allowed, ih]

theorem v9ScopeLoop_allowed (c : Config) (a : List Nat) :
    ∀ (fs : List TField) (i : Bytes), v9ScopeLoop (c.withAllowed a) fs i = v9ScopeLoop c fs i := by
  intro fs
  induction fs with
  | nil => intro i; rfl
  | cons f fs ih => intro i; simp only [v9ScopeLoop, ih]

theorem v9OptLoop_allowed (c : Config) (a : List Nat) :
    ∀ (fs : List TField) (i : Bytes), v9OptLoop (c.withAllowed a) fs i = v9OptLoop c fs i := by
  intro fs
  induction fs with
  | nil => intro i; rfl
  | cons f fs ih => intro i; simp only [v9OptLoop, ih]

theorem v9ParseBody_allowed (c : Config) (a : List Nat) (st : PState) (id : Nat) (body : Bytes) :
    v9ParseBody (c.withAllowed a) st id body = v9ParseBody c st id body := by
  simp only [v9ParseBody, v9ScopeLoop_allowed, v9OptLoop_allowed, v9RecLoop_allowed]

theorem v9ParseSet_allowed (c : Config) (a : List Nat) (st : PState) (i : Bytes) :
    v9ParseSet (c.withAllowed a) st i = v9ParseSet c st i := by
  simp only [v9ParseSet, v9ParseBody_allowed]

theorem v9ParseSets_allowed (c : Config) (a : List Nat) :
    ∀ (n : Nat) (st : PState) (i : Bytes), v9ParseSets (c.withAllowed a) n st i = v9ParseSets c n st i := by
  intro n
  induction n with
  | zero => intro st i; rfl
  | succ n ih => intro st i; simp only [v9ParseSets, v9ParseSet_allowed, ih]

theorem parseV9_allowed (c : Config) (a : List Nat) (st : PState) (i : Bytes) :
    parseV9 (c.withAllowed a) st i = parseV9 c st i := by
  simp only [parseV9, v9ParseSets_allowed]

theorem ipParseValue_allowed (c : Config) (a : List Nat) (f : IpTField) (i : Bytes) :
    ipParseValue (c.withAllowed a) f i = ipParseValue c f i := by
  simp only [ipParseValue, vc_allowed]

theorem ipParseRec_allowed (c : Config) (a : List Nat) :
    ∀ (fs : List IpTField) (idx : Nat) (i : Bytes), ipParseRec (c.withAllowed a) fs idx i = ipParseRec c fs idx i := by
  intro fs
  induction fs with
  | nil => intro idx i; rfl
  | cons f fs ih => intro idx i; simp only [ipParseRec, ipParseValue_allowed, ih, ipFieldDisc]

theorem ipRecLoop_allowed (c : Config) (a : List Nat) (fs : List IpTField) :
    ∀ (n : Nat) (i : Bytes), ipRecLoop (c.withAllowed a) fs n i = ipRecLoop c fs n i := by
  intro n
  induction n with
  | zero => intro i; rfl
  | succ n ih => intro i; simp only [ipRecLoop, ipParseRec_allowed, ih]

theorem ipParseBody_allowed (c : Config) (a : List Nat) (st : PState) (id : Nat) (body : Bytes) :
    ipParseBody (c.withAllowed a) st id body = ipParseBody c st id body := by
  simp only [ipParseBody, ipRecLoop_allowed]

theorem ipParseSet_allowed (c : Config) (a : List Nat) (st : PState) (i : Bytes) :
    ipParseSet (c.withAllowed a) st i = ipParseSet c st i := by
  simp only [ipParseSet, ipParseBody_allowed]

theorem ipParseSets_allowed (c : Config) (a : List Nat) :
    ∀ (n : Nat) (st : PState) (i : Bytes), ipParseSets (c.withAllowed a) n st i = ipParseSets c n st i := by
  intro n
  induction n with
  | zero => intro st i; rfl
  | succ n ih => intro st i; simp only [ipParseSets, ipParseSet_allowed, ih]

theorem parseIpfix_allowed (c : Config) (a : List Nat) (st : PState) (i : Bytes) :
    parseIpfix (c.withAllowed a) st i = parseIpfix c st i := by
  simp only [parseIpfix, ipParseSets_allowed]

theorem parseFixed_allowed (c : Config) (a : List Nat) (hdr rec : Layout) (i : Bytes) :
    parseFixed (c.withAllowed a) hdr rec i = parseFixed c hdr rec i := rfl

/-- the version-specific parsers do not depend on the allowed set -/
theorem parseVersioned_allowed (c : Config) (a : List Nat) (st : PState) (kind : Nat) (body : Bytes) :
    parseVersioned (c.withAllowed a) st kind body = parseVersioned c st kind body := by
  simp only [parseVersioned, parseFixed_allowed, parseV9_allowed, parseIpfix_allowed]

/-! ### big-endian values are bounded by their width -/

theorem beNat_foldl_lt : ∀ (bs : Bytes) (acc : Nat),
    bs.foldl (fun acc b => acc * 256 + b.toNat) acc < (acc + 1) * 256 ^ bs.length := by
  intro bs
  induction bs with
  | nil => intro acc; simp
  | cons b bs ih =>
    intro acc
    simp only [List.foldl_cons, List.length_cons]
    have h1 := ih (acc * 256 + b.toNat)
    have hb : b.toNat < 256 := UInt8.toNat_lt b
    have h2 : (acc * 256 + b.toNat + 1) * 256 ^ bs.length ≤ ((acc + 1) * 256) * 256 ^ bs.length :=
      Nat.mul_le_mul_right _ (by omega)
    rw [Nat.pow_succ, Nat.mul_comm (256 ^ bs.length) 256, ← Nat.mul_assoc]
    omega

theorem beNat_lt (bs : Bytes) : beNat bs < 256 ^ bs.length := by
  have := beNat_foldl_lt bs 0
  simpa [beNat] using this

theorem beU_lt {w : Nat} {i r : Bytes} {v : Nat} (h : beU w i = some (v, r)) : v < 256 ^ w := by
  obtain ⟨h1, h2, _⟩ := beU_some h
  subst h2
  have := beNat_lt (i.take w)
  rw [List.length_take, Nat.min_eq_left h1] at this
  exact this

/-! ### the gate -/

/-- `A` allows every version word a buffer can carry (16 bits) -/
def AllowsAll (A : List Nat) : Prop := ∀ v, v < 65536 → A.contains v = true

theorem allowsAll_range : AllowsAll (List.range 65536) := by
  intro v hv; simp [hv]

theorem versionOf_lt {buf : Bytes} {v : Nat} (h : versionOf buf = some v) : v < 65536 := by
  unfold versionOf at h
  cases hb : beU 2 buf with
  | none => simp [hb] at h
  | some x =>
    obtain ⟨v', r⟩ := x
    simp only [hb, Option.some.injEq] at h
    subst h
    exact beU_lt hb

/-- the version word is allowed (or there is none): the gate is passed, the allowed set is irrelevant -/
theorem parsePacket_allowed_in (c : Config) (S A : List Nat) (hA : AllowsAll A) (st : PState) (buf : Bytes)
    (h : ∀ v, versionOf buf = some v → S.contains v = true) :
    parsePacket (c.withAllowed S) st buf = parsePacket (c.withAllowed A) st buf := by
  unfold parsePacket
  cases hv : beU 2 buf with
  | none => rfl
  | some vb =>
    obtain ⟨v, body⟩ := vb
    have hS : S.contains v = true := h v (by simp [versionOf, hv])
    simp only [hS, hA v (beU_lt hv), ↓reduceIte, parseVersioned_allowed]

/-- the version word is not allowed: `UnallowedVersion`, state untouched -/
theorem parsePacket_allowed_out (c : Config) (S : List Nat) (st : PState) (buf : Bytes) (v : Nat)
    (hv : versionOf buf = some v) (hS : S.contains v = false) :
    parsePacket (c.withAllowed S) st buf = (st, .unallowed) := by
  unfold parsePacket
  cases hb : beU 2 buf with
  | none => simp [versionOf, hb] at hv
  | some vb =>
    obtain ⟨v', body⟩ := vb
    simp only [versionOf, hb, Option.some.injEq] at hv
    subst hv
    simp only [hS, Bool.false_eq_true, ↓reduceIte]

/-- cache state of a `parse_bytes` run after its first `k` packet steps (a step that fails counts:
    it is the step that produced the final error element) -/
def stateAfter (c : Config) : Nat → Nat → PState → Bytes → PState
  | _, 0, st, _ => st
  | 0, _ + 1, st, _ => st
  | fuel + 1, k + 1, st, buf =>
    if buf.isEmpty then st
    else
      match parsePacket c st buf with
      | (st', .ok _ rest) => if rest.isEmpty then st' else stateAfter c fuel k st' rest
      | (st', _) => st'

theorem stateAfter_zero (c : Config) (fuel : Nat) (st : PState) (buf : Bytes) : stateAfter c fuel 0 st buf = st := by
  cases fuel <;> rfl

theorem takeAllowed_nil (cAll : Config) (S : List Nat) (fuel : Nat) (buf : Bytes) : takeAllowed cAll S fuel buf [] = [] := by
  cases fuel <;> rfl

/-- after as many steps as there are reported elements the run is in its final state -/
theorem stateAfter_all (c : Config) :
    ∀ (fuel : Nat) (st stA : PState) (buf : Bytes) (pkts : List Packet),
      parseBytesF c fuel st buf = (stA, .done pkts) → stateAfter c fuel pkts.length st buf = stA := by
  intro fuel
  induction fuel with
  | zero => intro st stA buf pkts h; simp [parseBytesF] at h
  | succ fuel ih =>
    intro st stA buf pkts h
    unfold parseBytesF at h
    by_cases he : buf.isEmpty = true
    · simp only [he, ↓reduceIte, Prod.mk.injEq, Outcome.done.injEq] at h
      rw [← h.2, ← h.1]; rfl
    · simp only [he, Bool.false_eq_true, ↓reduceIte] at h
      cases hp : parsePacket c st buf with
      | mk st1 step =>
        simp only [hp] at h
        cases step with
        | ok pkt rest =>
          simp only at h
          by_cases hre : rest.isEmpty = true
          · simp only [hre, ↓reduceIte, Prod.mk.injEq, Outcome.done.injEq] at h
            rw [← h.2, ← h.1]
            simp [stateAfter, he, hp, hre]
          · simp only [hre, Bool.false_eq_true, ↓reduceIte] at h
            cases hrec : parseBytesF c fuel st1 rest with
            | mk st2 out =>
              simp only [hrec, Prod.mk.injEq] at h
              cases out with
              | done ps =>
                simp only [Outcome.cons, Outcome.done.injEq] at h
                rw [← h.2, ← h.1]
                simp [stateAfter, he, hp, hre, ih _ _ _ _ hrec]
              | panic ps => simp [Outcome.cons] at h
              | overflow ps => simp [Outcome.cons] at h
        | fail e =>
          simp only [Prod.mk.injEq, Outcome.done.injEq] at h
          rw [← h.2, ← h.1]
          simp [stateAfter, he, hp]
        | unallowed =>
          simp only [Prod.mk.injEq, Outcome.done.injEq] at h
          rw [← h.2, ← h.1]
          rcases parsePacket_inv _ _ _ _ _ hp with ⟨_, _, hs⟩ | ⟨_, _, _, hst, _⟩ | ⟨_, _, _, _, _, hs⟩ | ⟨v', kind, _, _, _, hpv⟩
          · simp at hs
          · simp [stateAfter, hst]
          · simp at hs
          · exfalso
            unfold parseVersioned at hpv
            split at hpv
            · cases hq : parseFixed c c.t.v5Hdr c.t.v5Rec (buf.drop 2) <;> simp [hq] at hpv
            · split at hpv
              · cases hq : parseFixed c c.t.v7Hdr c.t.v7Rec (buf.drop 2) <;> simp [hq] at hpv
              · split at hpv
                · cases hq : (parseV9 c st (buf.drop 2)).2 <;> simp [hq, liftRes] at hpv
                · split at hpv
                  · cases hq : (parseIpfix c st (buf.drop 2)).2 <;> simp [hq, liftRes] at hpv
                  · simp at hpv
        | panic => simp at h
        | overflow => simp at h

/-- `takeAllowed` returns a prefix of the list it is given -/
theorem takeAllowed_prefix (cAll : Config) (S : List Nat) :
    ∀ (fuel : Nat) (buf : Bytes) (pkts : List Packet), takeAllowed cAll S fuel buf pkts <+: pkts := by
  intro fuel
  induction fuel with
  | zero => intro buf pkts; simp [takeAllowed]
  | succ fuel ih =>
    intro buf pkts
    cases pkts with
    | nil => simp [takeAllowed]
    | cons p ps =>
      unfold takeAllowed
      cases versionOf buf with
      | none => exact ⟨ps, rfl⟩
      | some v =>
        simp only
        split
        · exact List.nil_prefix
        · cases wireLen cAll p with
          | none => exact ⟨ps, rfl⟩
          | some n => exact (List.cons_prefix_cons).2 ⟨rfl, ih _ _⟩

end Netflow
