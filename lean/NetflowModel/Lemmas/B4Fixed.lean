/-
  Lemmas/B4Fixed.lean — PRINT-THEN-PARSE for the Cisco fixed formats (V5 / V7): the bytes the
  specification writer `Spec.encFixed` produces for an abstract V5/V7 message are decoded by the
  model's layout parser into the values `Spec.expFixedVals` predicts — except that the symbolic
  protocol is `ProtocolTypes::from(n)` (`protoFromU8`) where the specification says "the variant
  carrying the IANA name" (`protoSpecDisc`).  Self-contained (imports no other lemma family).
-/
import NetflowModel.Lemmas.Basic
import NetflowModel.Spec.Expected
import NetflowModel.Generated
namespace Netflow.B4
open Netflow Netflow.Spec

/-! ### bytes -/

theorem toBE_length (w n : Nat) : (toBE w n).length = w := by
  induction w generalizing n with
  | zero => simp [toBE]
  | succ w ih => simp [toBE, ih]

theorem foldl_be (bs : Bytes) (a : Nat) :
    bs.foldl (fun acc (b : UInt8) => acc * 256 + b.toNat) a = a * 256 ^ bs.length + beNat bs := by
  induction bs generalizing a with
  | nil => simp [beNat]
  | cons b bs ih =>
    simp only [List.foldl_cons, beNat, List.length_cons]
    rw [ih, ih (0 * 256 + b.toNat), Nat.pow_succ]
    simp only [Nat.zero_mul, Nat.zero_add, beNat]
    rw [Nat.add_mul, Nat.mul_assoc, Nat.mul_comm 256, Nat.add_assoc]

theorem beNat_append (a b : Bytes) : beNat (a ++ b) = beNat a * 256 ^ b.length + beNat b := by
  simp only [beNat, List.foldl_append]
  rw [foldl_be]
  rfl

theorem beNat_toBE (w n : Nat) : beNat (toBE w n) = n % 256 ^ w := by
  induction w generalizing n with
  | zero => simp [toBE, beNat, Nat.mod_one]
  | succ w ih =>
    simp only [toBE]
    have h1 : beNat [UInt8.ofNat (n % 256)] = n % 256 := by
      simp only [beNat, List.foldl_cons, List.foldl_nil, Nat.zero_mul, Nat.zero_add, UInt8.toNat_ofNat']
      omega
    rw [beNat_append, ih, h1]
    simp only [List.length_singleton, Nat.pow_one]
    have e : 256 ^ (w + 1) = 256 * 256 ^ w := by rw [Nat.pow_succ, Nat.mul_comm]
    rw [e, Nat.mod_mul]
    omega

theorem beU_toBE_append {w n : Nat} (r : Bytes) (h : n < 256 ^ w) : beU w (toBE w n ++ r) = some (n, r) := by
  have hl := toBE_length w n
  simp only [beU, List.length_append, hl, Nat.le_add_right, ↓reduceIte, List.take_left' hl, List.drop_left' hl,
    beNat_toBE, Nat.mod_eq_of_lt h]

/-! ### one layout field at a time -/

theorem parseFields_wire (proto : Nat → Nat) (n : String) (t : Nat) (fs : Layout) (acc : List Nat) (w v : Nat) (r : Bytes)
    (hv : v < 256 ^ w) :
    parseFields proto ({ name := n, kind := .wire w, tw := t } :: fs) acc (toBE w v ++ r) =
      parseFields proto fs (acc ++ [v]) r := by
  simp only [parseFields, beU_toBE_append r hv]

theorem parseFields_const (proto : Nat → Nat) (n : String) (t : Nat) (fs : Layout) (acc : List Nat) (v : Nat) (i : Bytes) :
    parseFields proto ({ name := n, kind := .const v, tw := t } :: fs) acc i = parseFields proto fs (acc ++ [v]) i := by
  simp only [parseFields]

theorem parseFields_proto (proto : Nat → Nat) (n : String) (t : Nat) (fs : Layout) (acc : List Nat) (s : Nat) (i : Bytes) :
    parseFields proto ({ name := n, kind := .protoOf s, tw := t } :: fs) acc i =
      parseFields proto fs (acc ++ [proto (acc.getD s 0)]) i := by
  simp only [parseFields]

theorem parseFields_nil (proto : Nat → Nat) (acc : List Nat) (i : Bytes) : parseFields proto [] acc i = some (acc, i) := by
  simp only [parseFields]

/-! ### the expected values, with the protocol-name function abstracted -/

/-- `Spec.expFixedVals` with "number ↦ discriminant of the protocol variant" as a parameter -/
def expFixedValsP (pf : Nat → Nat) (lay : Layout) (spec : List (String × Nat)) (version count : Nat) (vals : List Nat) : List Nat :=
  let named : List (String × Nat) := ("version", version) :: ("count", count) :: (spec.map (·.1)).zip vals
  lay.map fun f =>
    match f.kind with
    | .protoOf src => pf ((named.lookup ((lay.map (·.name)).getD src "")).getD 0)
    | _ => (named.lookup f.name).getD 0

theorem expFixedVals_eq (names : List (Nat × String)) (lay : Layout) (spec : List (String × Nat)) (version count : Nat)
    (vals : List Nat) :
    expFixedVals names lay spec version count vals = expFixedValsP (protoSpecDisc names) lay spec version count vals := rfl

/-- as many values as the Cisco table has fields, each within its field width -/
def fitsSpec (spec : List (String × Nat)) (vals : List Nat) : Bool :=
  vals.length == spec.length && (spec.zip vals).all (fun p => decide (p.2 < 256 ^ p.1.2))

theorem len_succ {α : Type} {l : List α} {n : Nat} (h : l.length = n + 1) : ∃ a t, l = a :: t ∧ t.length = n := by
  cases l with
  | nil => simp at h
  | cons a t => exact ⟨a, t, rfl, by simpa using h⟩

theorem fitsSpec_length {spec : List (String × Nat)} {vals : List Nat} (h : fitsSpec spec vals = true) :
    vals.length = spec.length := by
  simp only [fitsSpec, Bool.and_eq_true, beq_iff_eq] at h
  exact h.1

/-! ### V5: record layout `Generated.v5Rec` against `Spec.ciscoV5Rec` -/

set_option maxRecDepth 4000 in
theorem expP_v5Rec (pf : Nat → Nat) (a1 a2 a3 a4 a5 a6 a7 a8 a9 a10 a11 a12 a13 a14 a15 a16 a17 a18 a19 a20 : Nat) :
    expFixedValsP pf Generated.v5Rec ciscoV5Rec 5 0 [a1, a2, a3, a4, a5, a6, a7, a8, a9, a10, a11, a12, a13, a14, a15, a16, a17, a18, a19, a20] =
      [a1, a2, a3, a4, a5, a6, a7, a8, a9, a10, a11, a12, a13, a14, pf a14, a15, a16, a17, a18, a19, a20] := by
  rfl

set_option maxRecDepth 4000 in
theorem parse_v5Rec_explicit (proto : Nat → Nat) (tail : Bytes) (a1 a2 a3 a4 a5 a6 a7 a8 a9 a10 a11 a12 a13 a14 a15 a16 a17 a18 a19 a20 : Nat)
    (h : fitsSpec ciscoV5Rec [a1, a2, a3, a4, a5, a6, a7, a8, a9, a10, a11, a12, a13, a14, a15, a16, a17, a18, a19, a20] = true) :
    parseLayout proto Generated.v5Rec (encByLayout ciscoV5Rec [a1, a2, a3, a4, a5, a6, a7, a8, a9, a10, a11, a12, a13, a14, a15, a16, a17, a18, a19, a20] ++ tail) =
      some ([a1, a2, a3, a4, a5, a6, a7, a8, a9, a10, a11, a12, a13, a14, proto a14, a15, a16, a17, a18, a19, a20], tail) := by
  simp only [fitsSpec, ciscoV5Rec, List.zip_cons_cons, List.zip_nil_left, List.all_cons, List.all_nil, Bool.and_true,
    Bool.and_eq_true, decide_eq_true_eq, List.length_cons, List.length_nil, beq_self_eq_true, true_and] at h
  obtain ⟨h1, h2, h3, h4, h5, h6, h7, h8, h9, h10, h11, h12, h13, h14, h15, h16, h17, h18, h19, h20⟩ := h
  simp only [encByLayout, ciscoV5Rec, List.zip_cons_cons, List.zip_nil_left, List.flatMap_cons, List.flatMap_nil,
    List.append_nil, List.append_assoc, parseLayout, Generated.v5Rec]
  rw [parseFields_wire proto _ _ _ _ 4 a1 _ h1,
    parseFields_wire proto _ _ _ _ 4 a2 _ h2,
    parseFields_wire proto _ _ _ _ 4 a3 _ h3,
    parseFields_wire proto _ _ _ _ 2 a4 _ h4,
    parseFields_wire proto _ _ _ _ 2 a5 _ h5,
    parseFields_wire proto _ _ _ _ 4 a6 _ h6,
    parseFields_wire proto _ _ _ _ 4 a7 _ h7,
    parseFields_wire proto _ _ _ _ 4 a8 _ h8,
    parseFields_wire proto _ _ _ _ 4 a9 _ h9,
    parseFields_wire proto _ _ _ _ 2 a10 _ h10,
    parseFields_wire proto _ _ _ _ 2 a11 _ h11,
    parseFields_wire proto _ _ _ _ 1 a12 _ h12,
    parseFields_wire proto _ _ _ _ 1 a13 _ h13,
    parseFields_wire proto _ _ _ _ 1 a14 _ h14,
    parseFields_proto,
    parseFields_wire proto _ _ _ _ 1 a15 _ h15,
    parseFields_wire proto _ _ _ _ 2 a16 _ h16,
    parseFields_wire proto _ _ _ _ 2 a17 _ h17,
    parseFields_wire proto _ _ _ _ 1 a18 _ h18,
    parseFields_wire proto _ _ _ _ 1 a19 _ h19,
    parseFields_wire proto _ _ _ _ 2 a20 _ h20,
    parseFields_nil]
  simp

/-- a record of `ciscoV5Rec` values within their widths is decoded to the expected values (protocol name by `proto`) -/
theorem parse_v5Rec (proto : Nat → Nat) (r : List Nat) (tail : Bytes) (h : fitsSpec ciscoV5Rec r = true) :
    parseLayout proto Generated.v5Rec (encByLayout ciscoV5Rec r ++ tail) =
      some (expFixedValsP proto Generated.v5Rec ciscoV5Rec 5 0 r, tail) := by
  have hl : r.length = 20 := fitsSpec_length h
  obtain ⟨a1, r, rfl, hl1⟩ := len_succ hl
  obtain ⟨a2, r, rfl, hl2⟩ := len_succ hl1
  obtain ⟨a3, r, rfl, hl3⟩ := len_succ hl2
  obtain ⟨a4, r, rfl, hl4⟩ := len_succ hl3
  obtain ⟨a5, r, rfl, hl5⟩ := len_succ hl4
  obtain ⟨a6, r, rfl, hl6⟩ := len_succ hl5
  obtain ⟨a7, r, rfl, hl7⟩ := len_succ hl6
  obtain ⟨a8, r, rfl, hl8⟩ := len_succ hl7
  obtain ⟨a9, r, rfl, hl9⟩ := len_succ hl8
  obtain ⟨a10, r, rfl, hl10⟩ := len_succ hl9
  obtain ⟨a11, r, rfl, hl11⟩ := len_succ hl10
  obtain ⟨a12, r, rfl, hl12⟩ := len_succ hl11
  obtain ⟨a13, r, rfl, hl13⟩ := len_succ hl12
  obtain ⟨a14, r, rfl, hl14⟩ := len_succ hl13
  obtain ⟨a15, r, rfl, hl15⟩ := len_succ hl14
  obtain ⟨a16, r, rfl, hl16⟩ := len_succ hl15
  obtain ⟨a17, r, rfl, hl17⟩ := len_succ hl16
  obtain ⟨a18, r, rfl, hl18⟩ := len_succ hl17
  obtain ⟨a19, r, rfl, hl19⟩ := len_succ hl18
  obtain ⟨a20, r, rfl, hl20⟩ := len_succ hl19
  have : r = [] := List.length_eq_zero_iff.mp hl20
  subst this
  rw [expP_v5Rec]
  exact parse_v5Rec_explicit proto tail a1 a2 a3 a4 a5 a6 a7 a8 a9 a10 a11 a12 a13 a14 a15 a16 a17 a18 a19 a20 h

/-- the expected record depends on the protocol-name function only through the record's protocol number -/
theorem expP_v5Rec_congr (pf pg : Nat → Nat) (r : List Nat) (hl : r.length = 20) (hp : pf (r.getD 13 0) = pg (r.getD 13 0)) :
    expFixedValsP pf Generated.v5Rec ciscoV5Rec 5 0 r = expFixedValsP pg Generated.v5Rec ciscoV5Rec 5 0 r := by
  obtain ⟨a1, r, rfl, hl1⟩ := len_succ hl
  obtain ⟨a2, r, rfl, hl2⟩ := len_succ hl1
  obtain ⟨a3, r, rfl, hl3⟩ := len_succ hl2
  obtain ⟨a4, r, rfl, hl4⟩ := len_succ hl3
  obtain ⟨a5, r, rfl, hl5⟩ := len_succ hl4
  obtain ⟨a6, r, rfl, hl6⟩ := len_succ hl5
  obtain ⟨a7, r, rfl, hl7⟩ := len_succ hl6
  obtain ⟨a8, r, rfl, hl8⟩ := len_succ hl7
  obtain ⟨a9, r, rfl, hl9⟩ := len_succ hl8
  obtain ⟨a10, r, rfl, hl10⟩ := len_succ hl9
  obtain ⟨a11, r, rfl, hl11⟩ := len_succ hl10
  obtain ⟨a12, r, rfl, hl12⟩ := len_succ hl11
  obtain ⟨a13, r, rfl, hl13⟩ := len_succ hl12
  obtain ⟨a14, r, rfl, hl14⟩ := len_succ hl13
  obtain ⟨a15, r, rfl, hl15⟩ := len_succ hl14
  obtain ⟨a16, r, rfl, hl16⟩ := len_succ hl15
  obtain ⟨a17, r, rfl, hl17⟩ := len_succ hl16
  obtain ⟨a18, r, rfl, hl18⟩ := len_succ hl17
  obtain ⟨a19, r, rfl, hl19⟩ := len_succ hl18
  obtain ⟨a20, r, rfl, hl20⟩ := len_succ hl19
  have : r = [] := List.length_eq_zero_iff.mp hl20
  subst this
  rw [expP_v5Rec, expP_v5Rec]
  simp only [List.getD_cons_succ, List.getD_cons_zero] at hp
  rw [hp]

/-! ### V7: record layout `Generated.v7Rec` against `Spec.ciscoV7Rec` -/

set_option maxRecDepth 4000 in
theorem expP_v7Rec (pf : Nat → Nat) (a1 a2 a3 a4 a5 a6 a7 a8 a9 a10 a11 a12 a13 a14 a15 a16 a17 a18 a19 a20 a21 : Nat) :
    expFixedValsP pf Generated.v7Rec ciscoV7Rec 7 0 [a1, a2, a3, a4, a5, a6, a7, a8, a9, a10, a11, a12, a13, a14, a15, a16, a17, a18, a19, a20, a21] =
      [a1, a2, a3, a4, a5, a6, a7, a8, a9, a10, a11, a12, a13, a14, pf a14, a15, a16, a17, a18, a19, a20, a21] := by
  rfl

set_option maxRecDepth 4000 in
theorem parse_v7Rec_explicit (proto : Nat → Nat) (tail : Bytes) (a1 a2 a3 a4 a5 a6 a7 a8 a9 a10 a11 a12 a13 a14 a15 a16 a17 a18 a19 a20 a21 : Nat)
    (h : fitsSpec ciscoV7Rec [a1, a2, a3, a4, a5, a6, a7, a8, a9, a10, a11, a12, a13, a14, a15, a16, a17, a18, a19, a20, a21] = true) :
    parseLayout proto Generated.v7Rec (encByLayout ciscoV7Rec [a1, a2, a3, a4, a5, a6, a7, a8, a9, a10, a11, a12, a13, a14, a15, a16, a17, a18, a19, a20, a21] ++ tail) =
      some ([a1, a2, a3, a4, a5, a6, a7, a8, a9, a10, a11, a12, a13, a14, proto a14, a15, a16, a17, a18, a19, a20, a21], tail) := by
  simp only [fitsSpec, ciscoV7Rec, List.zip_cons_cons, List.zip_nil_left, List.all_cons, List.all_nil, Bool.and_true,
    Bool.and_eq_true, decide_eq_true_eq, List.length_cons, List.length_nil, beq_self_eq_true, true_and] at h
  obtain ⟨h1, h2, h3, h4, h5, h6, h7, h8, h9, h10, h11, h12, h13, h14, h15, h16, h17, h18, h19, h20, h21⟩ := h
  simp only [encByLayout, ciscoV7Rec, List.zip_cons_cons, List.zip_nil_left, List.flatMap_cons, List.flatMap_nil,
    List.append_nil, List.append_assoc, parseLayout, Generated.v7Rec]
  rw [parseFields_wire proto _ _ _ _ 4 a1 _ h1,
    parseFields_wire proto _ _ _ _ 4 a2 _ h2,
    parseFields_wire proto _ _ _ _ 4 a3 _ h3,
    parseFields_wire proto _ _ _ _ 2 a4 _ h4,
    parseFields_wire proto _ _ _ _ 2 a5 _ h5,
    parseFields_wire proto _ _ _ _ 4 a6 _ h6,
    parseFields_wire proto _ _ _ _ 4 a7 _ h7,
    parseFields_wire proto _ _ _ _ 4 a8 _ h8,
    parseFields_wire proto _ _ _ _ 4 a9 _ h9,
    parseFields_wire proto _ _ _ _ 2 a10 _ h10,
    parseFields_wire proto _ _ _ _ 2 a11 _ h11,
    parseFields_wire proto _ _ _ _ 1 a12 _ h12,
    parseFields_wire proto _ _ _ _ 1 a13 _ h13,
    parseFields_wire proto _ _ _ _ 1 a14 _ h14,
    parseFields_proto,
    parseFields_wire proto _ _ _ _ 1 a15 _ h15,
    parseFields_wire proto _ _ _ _ 2 a16 _ h16,
    parseFields_wire proto _ _ _ _ 2 a17 _ h17,
    parseFields_wire proto _ _ _ _ 1 a18 _ h18,
    parseFields_wire proto _ _ _ _ 1 a19 _ h19,
    parseFields_wire proto _ _ _ _ 2 a20 _ h20,
    parseFields_wire proto _ _ _ _ 4 a21 _ h21,
    parseFields_nil]
  simp

/-- a record of `ciscoV7Rec` values within their widths is decoded to the expected values (protocol name by `proto`) -/
theorem parse_v7Rec (proto : Nat → Nat) (r : List Nat) (tail : Bytes) (h : fitsSpec ciscoV7Rec r = true) :
    parseLayout proto Generated.v7Rec (encByLayout ciscoV7Rec r ++ tail) =
      some (expFixedValsP proto Generated.v7Rec ciscoV7Rec 7 0 r, tail) := by
  have hl : r.length = 21 := fitsSpec_length h
  obtain ⟨a1, r, rfl, hl1⟩ := len_succ hl
  obtain ⟨a2, r, rfl, hl2⟩ := len_succ hl1
  obtain ⟨a3, r, rfl, hl3⟩ := len_succ hl2
  obtain ⟨a4, r, rfl, hl4⟩ := len_succ hl3
  obtain ⟨a5, r, rfl, hl5⟩ := len_succ hl4
  obtain ⟨a6, r, rfl, hl6⟩ := len_succ hl5
  obtain ⟨a7, r, rfl, hl7⟩ := len_succ hl6
  obtain ⟨a8, r, rfl, hl8⟩ := len_succ hl7
  obtain ⟨a9, r, rfl, hl9⟩ := len_succ hl8
  obtain ⟨a10, r, rfl, hl10⟩ := len_succ hl9
  obtain ⟨a11, r, rfl, hl11⟩ := len_succ hl10
  obtain ⟨a12, r, rfl, hl12⟩ := len_succ hl11
  obtain ⟨a13, r, rfl, hl13⟩ := len_succ hl12
  obtain ⟨a14, r, rfl, hl14⟩ := len_succ hl13
  obtain ⟨a15, r, rfl, hl15⟩ := len_succ hl14
  obtain ⟨a16, r, rfl, hl16⟩ := len_succ hl15
  obtain ⟨a17, r, rfl, hl17⟩ := len_succ hl16
  obtain ⟨a18, r, rfl, hl18⟩ := len_succ hl17
  obtain ⟨a19, r, rfl, hl19⟩ := len_succ hl18
  obtain ⟨a20, r, rfl, hl20⟩ := len_succ hl19
  obtain ⟨a21, r, rfl, hl21⟩ := len_succ hl20
  have : r = [] := List.length_eq_zero_iff.mp hl21
  subst this
  rw [expP_v7Rec]
  exact parse_v7Rec_explicit proto tail a1 a2 a3 a4 a5 a6 a7 a8 a9 a10 a11 a12 a13 a14 a15 a16 a17 a18 a19 a20 a21 h

/-- the expected record depends on the protocol-name function only through the record's protocol number -/
theorem expP_v7Rec_congr (pf pg : Nat → Nat) (r : List Nat) (hl : r.length = 21) (hp : pf (r.getD 13 0) = pg (r.getD 13 0)) :
    expFixedValsP pf Generated.v7Rec ciscoV7Rec 7 0 r = expFixedValsP pg Generated.v7Rec ciscoV7Rec 7 0 r := by
  obtain ⟨a1, r, rfl, hl1⟩ := len_succ hl
  obtain ⟨a2, r, rfl, hl2⟩ := len_succ hl1
  obtain ⟨a3, r, rfl, hl3⟩ := len_succ hl2
  obtain ⟨a4, r, rfl, hl4⟩ := len_succ hl3
  obtain ⟨a5, r, rfl, hl5⟩ := len_succ hl4
  obtain ⟨a6, r, rfl, hl6⟩ := len_succ hl5
  obtain ⟨a7, r, rfl, hl7⟩ := len_succ hl6
  obtain ⟨a8, r, rfl, hl8⟩ := len_succ hl7
  obtain ⟨a9, r, rfl, hl9⟩ := len_succ hl8
  obtain ⟨a10, r, rfl, hl10⟩ := len_succ hl9
  obtain ⟨a11, r, rfl, hl11⟩ := len_succ hl10
  obtain ⟨a12, r, rfl, hl12⟩ := len_succ hl11
  obtain ⟨a13, r, rfl, hl13⟩ := len_succ hl12
  obtain ⟨a14, r, rfl, hl14⟩ := len_succ hl13
  obtain ⟨a15, r, rfl, hl15⟩ := len_succ hl14
  obtain ⟨a16, r, rfl, hl16⟩ := len_succ hl15
  obtain ⟨a17, r, rfl, hl17⟩ := len_succ hl16
  obtain ⟨a18, r, rfl, hl18⟩ := len_succ hl17
  obtain ⟨a19, r, rfl, hl19⟩ := len_succ hl18
  obtain ⟨a20, r, rfl, hl20⟩ := len_succ hl19
  obtain ⟨a21, r, rfl, hl21⟩ := len_succ hl20
  have : r = [] := List.length_eq_zero_iff.mp hl21
  subst this
  rw [expP_v7Rec, expP_v7Rec]
  simp only [List.getD_cons_succ, List.getD_cons_zero] at hp
  rw [hp]

/-! ### V5: header layout `Generated.v5Hdr` against `Spec.ciscoV5Hdr` -/

set_option maxRecDepth 4000 in
theorem expP_v5Hdr (pf : Nat → Nat) (n a1 a2 a3 a4 a5 a6 a7 : Nat) :
    expFixedValsP pf Generated.v5Hdr (ciscoV5Hdr.drop 2) 5 n [a1, a2, a3, a4, a5, a6, a7] = [5, n, a1, a2, a3, a4, a5, a6, a7] := by
  rfl

set_option maxRecDepth 4000 in
theorem parse_v5Hdr_explicit (proto : Nat → Nat) (tail : Bytes) (n a1 a2 a3 a4 a5 a6 a7 : Nat) (hn : n < 256 ^ 2)
    (h : fitsSpec (ciscoV5Hdr.drop 2) [a1, a2, a3, a4, a5, a6, a7] = true) :
    parseLayout proto Generated.v5Hdr (toBE 2 n ++ (encByLayout (ciscoV5Hdr.drop 2) [a1, a2, a3, a4, a5, a6, a7] ++ tail)) =
      some ([5, n, a1, a2, a3, a4, a5, a6, a7], tail) := by
  simp only [fitsSpec, ciscoV5Hdr, List.drop_succ_cons, List.drop_zero, List.zip_cons_cons, List.zip_nil_left, List.all_cons,
    List.all_nil, Bool.and_true, Bool.and_eq_true, decide_eq_true_eq, List.length_cons, List.length_nil,
    beq_self_eq_true, true_and] at h
  obtain ⟨h1, h2, h3, h4, h5, h6, h7⟩ := h
  simp only [encByLayout, ciscoV5Hdr, List.drop_succ_cons, List.drop_zero, List.zip_cons_cons, List.zip_nil_left,
    List.flatMap_cons, List.flatMap_nil, List.append_nil, List.append_assoc, parseLayout, Generated.v5Hdr]
  rw [parseFields_const,
    parseFields_wire proto _ _ _ _ 2 n _ hn,
    parseFields_wire proto _ _ _ _ 4 a1 _ h1,
    parseFields_wire proto _ _ _ _ 4 a2 _ h2,
    parseFields_wire proto _ _ _ _ 4 a3 _ h3,
    parseFields_wire proto _ _ _ _ 4 a4 _ h4,
    parseFields_wire proto _ _ _ _ 1 a5 _ h5,
    parseFields_wire proto _ _ _ _ 1 a6 _ h6,
    parseFields_wire proto _ _ _ _ 2 a7 _ h7,
    parseFields_nil]
  simp

/-- after the version word: `count`, then the `ciscoV5Hdr` values within their widths, decode to the expected header -/
theorem parse_v5Hdr (proto pf : Nat → Nat) (n : Nat) (hv : List Nat) (tail : Bytes) (hn : n < 65536)
    (h : fitsSpec (ciscoV5Hdr.drop 2) hv = true) :
    parseLayout proto Generated.v5Hdr (toBE 2 n ++ (encByLayout (ciscoV5Hdr.drop 2) hv ++ tail)) =
      some (expFixedValsP pf Generated.v5Hdr (ciscoV5Hdr.drop 2) 5 n hv, tail) ∧
    Generated.v5Hdr.get "count" (expFixedValsP pf Generated.v5Hdr (ciscoV5Hdr.drop 2) 5 n hv) = n := by
  have hl : hv.length = 7 := fitsSpec_length h
  revert h
  generalize hv = r at hl ⊢
  intro h
  obtain ⟨a1, r, rfl, hl1⟩ := len_succ hl
  obtain ⟨a2, r, rfl, hl2⟩ := len_succ hl1
  obtain ⟨a3, r, rfl, hl3⟩ := len_succ hl2
  obtain ⟨a4, r, rfl, hl4⟩ := len_succ hl3
  obtain ⟨a5, r, rfl, hl5⟩ := len_succ hl4
  obtain ⟨a6, r, rfl, hl6⟩ := len_succ hl5
  obtain ⟨a7, r, rfl, hl7⟩ := len_succ hl6
  have : r = [] := List.length_eq_zero_iff.mp hl7
  subst this
  rw [expP_v5Hdr]
  exact ⟨parse_v5Hdr_explicit proto tail n a1 a2 a3 a4 a5 a6 a7 (by simpa using hn) h, rfl⟩

/-! ### V7: header layout `Generated.v7Hdr` against `Spec.ciscoV7Hdr` -/

set_option maxRecDepth 4000 in
theorem expP_v7Hdr (pf : Nat → Nat) (n a1 a2 a3 a4 a5 : Nat) :
    expFixedValsP pf Generated.v7Hdr (ciscoV7Hdr.drop 2) 7 n [a1, a2, a3, a4, a5] = [7, n, a1, a2, a3, a4, a5] := by
  rfl

set_option maxRecDepth 4000 in
theorem parse_v7Hdr_explicit (proto : Nat → Nat) (tail : Bytes) (n a1 a2 a3 a4 a5 : Nat) (hn : n < 256 ^ 2)
    (h : fitsSpec (ciscoV7Hdr.drop 2) [a1, a2, a3, a4, a5] = true) :
    parseLayout proto Generated.v7Hdr (toBE 2 n ++ (encByLayout (ciscoV7Hdr.drop 2) [a1, a2, a3, a4, a5] ++ tail)) =
      some ([7, n, a1, a2, a3, a4, a5], tail) := by
  simp only [fitsSpec, ciscoV7Hdr, List.drop_succ_cons, List.drop_zero, List.zip_cons_cons, List.zip_nil_left, List.all_cons,
    List.all_nil, Bool.and_true, Bool.and_eq_true, decide_eq_true_eq, List.length_cons, List.length_nil,
    beq_self_eq_true, true_and] at h
  obtain ⟨h1, h2, h3, h4, h5⟩ := h
  simp only [encByLayout, ciscoV7Hdr, List.drop_succ_cons, List.drop_zero, List.zip_cons_cons, List.zip_nil_left,
    List.flatMap_cons, List.flatMap_nil, List.append_nil, List.append_assoc, parseLayout, Generated.v7Hdr]
  rw [parseFields_const,
    parseFields_wire proto _ _ _ _ 2 n _ hn,
    parseFields_wire proto _ _ _ _ 4 a1 _ h1,
    parseFields_wire proto _ _ _ _ 4 a2 _ h2,
    parseFields_wire proto _ _ _ _ 4 a3 _ h3,
    parseFields_wire proto _ _ _ _ 4 a4 _ h4,
    parseFields_wire proto _ _ _ _ 4 a5 _ h5,
    parseFields_nil]
  simp

/-- after the version word: `count`, then the `ciscoV7Hdr` values within their widths, decode to the expected header -/
theorem parse_v7Hdr (proto pf : Nat → Nat) (n : Nat) (hv : List Nat) (tail : Bytes) (hn : n < 65536)
    (h : fitsSpec (ciscoV7Hdr.drop 2) hv = true) :
    parseLayout proto Generated.v7Hdr (toBE 2 n ++ (encByLayout (ciscoV7Hdr.drop 2) hv ++ tail)) =
      some (expFixedValsP pf Generated.v7Hdr (ciscoV7Hdr.drop 2) 7 n hv, tail) ∧
    Generated.v7Hdr.get "count" (expFixedValsP pf Generated.v7Hdr (ciscoV7Hdr.drop 2) 7 n hv) = n := by
  have hl : hv.length = 5 := fitsSpec_length h
  revert h
  generalize hv = r at hl ⊢
  intro h
  obtain ⟨a1, r, rfl, hl1⟩ := len_succ hl
  obtain ⟨a2, r, rfl, hl2⟩ := len_succ hl1
  obtain ⟨a3, r, rfl, hl3⟩ := len_succ hl2
  obtain ⟨a4, r, rfl, hl4⟩ := len_succ hl3
  obtain ⟨a5, r, rfl, hl5⟩ := len_succ hl4
  have : r = [] := List.length_eq_zero_iff.mp hl5
  subst this
  rw [expP_v7Hdr]
  exact ⟨parse_v7Hdr_explicit proto tail n a1 a2 a3 a4 a5 (by simpa using hn) h, rfl⟩

/-! ### whole V5 / V7 packets -/

/-- the decidable facts about the tables that the V5/V7 print-then-parse lemmas use: the four
    `derive(Nom)` layouts are the generated ones and version words 5 / 7 dispatch to their parsers
    (`protoFromU8` and everything else is arbitrary) -/
def fixedTablesOk (t : Tables) : Bool :=
  decide (t.v5Hdr = Generated.v5Hdr) && decide (t.v5Rec = Generated.v5Rec) &&
  decide (t.v7Hdr = Generated.v7Hdr) && decide (t.v7Rec = Generated.v7Rec) &&
  (t.dispatch.lookup 5 == some 5) && (t.dispatch.lookup 7 == some 7)

theorem fixedTablesOk_generated : fixedTablesOk Generated.tables = true := by decide

/-- `ProtocolTypes::from(n)` is the variant carrying the IANA name of protocol number `n` -/
def protoAgree (c : Config) (names : List (Nat × String)) (n : Nat) : Bool :=
  c.t.protoFromU8 n == protoSpecDisc names n

/-- one V5/V7 record: values within their widths, and a protocol number (field 13) whose
    `From<u8>` variant is the IANA one -/
def recConf (c : Config) (names : List (Nat × String)) (spec : List (String × Nat)) (r : List Nat) : Bool :=
  fitsSpec spec r && protoAgree c names (r.getD 13 0)

/-- conformance of an abstract V5/V7 message: header values (after `count`) and record values
    within their Cisco field widths, fewer than 65536 records, no record with a protocol number
    that `From<u8> for ProtocolTypes` names wrongly -/
def fixedConf (c : Config) (names : List (Nat × String)) (hdrSpec recSpec : List (String × Nat))
    (h : List Nat) (rs : List (List Nat)) : Bool :=
  fitsSpec (hdrSpec.drop 2) h && decide (rs.length < 65536) && rs.all (recConf c names recSpec)

theorem countP_enc {α β : Type} (p : P α) (encR : β → Bytes) (out : β → α) (tail : Bytes) :
    ∀ (rs : List β), (∀ r ∈ rs, ∀ t, p (encR r ++ t) = some (out r, t)) →
      countP p rs.length (rs.flatMap encR ++ tail) = some (rs.map out, tail) := by
  intro rs
  induction rs with
  | nil => intro _; simp [countP]
  | cons r rs ih =>
    intro h
    have h1 := h r List.mem_cons_self (rs.flatMap encR ++ tail)
    have h2 := ih (fun r' hr' => h r' (List.mem_cons_of_mem _ hr'))
    simp only [List.length_cons, countP, List.flatMap_cons, List.append_assoc, h1, h2, List.map_cons]

theorem parseFixed_enc_v5 (c : Config) (names : List (Nat × String)) (hH : c.t.v5Hdr = Generated.v5Hdr)
    (hR : c.t.v5Rec = Generated.v5Rec) (h : List Nat) (rs : List (List Nat)) (rest : Bytes)
    (hconf : fixedConf c names ciscoV5Hdr ciscoV5Rec h rs = true) :
    parseFixed c c.t.v5Hdr c.t.v5Rec
        (toBE 2 rs.length ++ (encByLayout (ciscoV5Hdr.drop 2) h ++ (rs.flatMap (encByLayout ciscoV5Rec) ++ rest))) =
      some ((expFixedVals names c.t.v5Hdr (ciscoV5Hdr.drop 2) 5 rs.length h,
             rs.map (expFixedVals names c.t.v5Rec ciscoV5Rec 5 0)), rest) := by
  simp only [fixedConf, Bool.and_eq_true, decide_eq_true_eq] at hconf
  obtain ⟨⟨hh, hn⟩, hr⟩ := hconf
  rw [hH, hR]
  obtain ⟨e1, e2⟩ := parse_v5Hdr c.t.protoFromU8 (protoSpecDisc names) rs.length h
    (rs.flatMap (encByLayout ciscoV5Rec) ++ rest) hn hh
  have e3 : countP (parseLayout c.t.protoFromU8 Generated.v5Rec) rs.length (rs.flatMap (encByLayout ciscoV5Rec) ++ rest) =
      some (rs.map (expFixedVals names Generated.v5Rec ciscoV5Rec 5 0), rest) := by
    apply countP_enc
    intro r hr' tail
    have hc := List.all_eq_true.mp hr r hr'
    simp only [recConf, Bool.and_eq_true, protoAgree, beq_iff_eq] at hc
    rw [parse_v5Rec c.t.protoFromU8 r tail hc.1, expFixedVals_eq,
      expP_v5Rec_congr c.t.protoFromU8 (protoSpecDisc names) r (fitsSpec_length hc.1) hc.2]
  simp only [parseFixed, e1, expFixedVals_eq, e2, e3]

/-- **print-then-parse, V5**: the bytes `Spec.enc` writes for a conformant V5 message, followed by
    anything, are decoded to exactly the packet `Spec.expMsg` expects; the caches are untouched and
    the trailing bytes are returned -/
theorem parsePacket_enc_v5 (c : Config) (names : List (Nat × String)) (hok : fixedTablesOk c.t = true)
    (ha : c.allowed.contains 5 = true) (st : PState) (h : List Nat) (rs : List (List Nat)) (rest : Bytes)
    (hconf : fixedConf c names ciscoV5Hdr ciscoV5Rec h rs = true) :
    parsePacket c st (enc (.v5 h rs) ++ rest) =
      (st, .ok (.v5 (expFixedVals names c.t.v5Hdr (ciscoV5Hdr.drop 2) 5 rs.length h)
                    (rs.map (expFixedVals names c.t.v5Rec ciscoV5Rec 5 0))) rest) := by
  simp only [fixedTablesOk, Bool.and_eq_true, decide_eq_true_eq, beq_iff_eq] at hok
  obtain ⟨⟨⟨⟨⟨h5H, h5R⟩, h7H⟩, h7R⟩, d5⟩, d7⟩ := hok
  have hv : beU 2 (toBE 2 5 ++ (toBE 2 rs.length ++ (encByLayout (ciscoV5Hdr.drop 2) h ++
      (rs.flatMap (encByLayout ciscoV5Rec) ++ rest)))) = some (5, _) := beU_toBE_append _ (by decide)
  have hp := parseFixed_enc_v5 c names h5H h5R h rs rest hconf
  simp only [enc, encFixed, List.append_assoc, parsePacket, hv, ha, ↓reduceIte, d5, parseVersioned, hp]

theorem parseFixed_enc_v7 (c : Config) (names : List (Nat × String)) (hH : c.t.v7Hdr = Generated.v7Hdr)
    (hR : c.t.v7Rec = Generated.v7Rec) (h : List Nat) (rs : List (List Nat)) (rest : Bytes)
    (hconf : fixedConf c names ciscoV7Hdr ciscoV7Rec h rs = true) :
    parseFixed c c.t.v7Hdr c.t.v7Rec
        (toBE 2 rs.length ++ (encByLayout (ciscoV7Hdr.drop 2) h ++ (rs.flatMap (encByLayout ciscoV7Rec) ++ rest))) =
      some ((expFixedVals names c.t.v7Hdr (ciscoV7Hdr.drop 2) 7 rs.length h,
             rs.map (expFixedVals names c.t.v7Rec ciscoV7Rec 7 0)), rest) := by
  simp only [fixedConf, Bool.and_eq_true, decide_eq_true_eq] at hconf
  obtain ⟨⟨hh, hn⟩, hr⟩ := hconf
  rw [hH, hR]
  obtain ⟨e1, e2⟩ := parse_v7Hdr c.t.protoFromU8 (protoSpecDisc names) rs.length h
    (rs.flatMap (encByLayout ciscoV7Rec) ++ rest) hn hh
  have e3 : countP (parseLayout c.t.protoFromU8 Generated.v7Rec) rs.length (rs.flatMap (encByLayout ciscoV7Rec) ++ rest) =
      some (rs.map (expFixedVals names Generated.v7Rec ciscoV7Rec 7 0), rest) := by
    apply countP_enc
    intro r hr' tail
    have hc := List.all_eq_true.mp hr r hr'
    simp only [recConf, Bool.and_eq_true, protoAgree, beq_iff_eq] at hc
    rw [parse_v7Rec c.t.protoFromU8 r tail hc.1, expFixedVals_eq,
      expP_v7Rec_congr c.t.protoFromU8 (protoSpecDisc names) r (fitsSpec_length hc.1) hc.2]
  simp only [parseFixed, e1, expFixedVals_eq, e2, e3]

/-- **print-then-parse, V7**: the bytes `Spec.enc` writes for a conformant V7 message, followed by
    anything, are decoded to exactly the packet `Spec.expMsg` expects; the caches are untouched and
    the trailing bytes are returned -/
theorem parsePacket_enc_v7 (c : Config) (names : List (Nat × String)) (hok : fixedTablesOk c.t = true)
    (ha : c.allowed.contains 7 = true) (st : PState) (h : List Nat) (rs : List (List Nat)) (rest : Bytes)
    (hconf : fixedConf c names ciscoV7Hdr ciscoV7Rec h rs = true) :
    parsePacket c st (enc (.v7 h rs) ++ rest) =
      (st, .ok (.v7 (expFixedVals names c.t.v7Hdr (ciscoV7Hdr.drop 2) 7 rs.length h)
                    (rs.map (expFixedVals names c.t.v7Rec ciscoV7Rec 7 0))) rest) := by
  simp only [fixedTablesOk, Bool.and_eq_true, decide_eq_true_eq, beq_iff_eq] at hok
  obtain ⟨⟨⟨⟨⟨h5H, h5R⟩, h7H⟩, h7R⟩, d5⟩, d7⟩ := hok
  have hv : beU 2 (toBE 2 7 ++ (toBE 2 rs.length ++ (encByLayout (ciscoV7Hdr.drop 2) h ++
      (rs.flatMap (encByLayout ciscoV7Rec) ++ rest)))) = some (7, _) := beU_toBE_append _ (by decide)
  have hp := parseFixed_enc_v7 c names h7H h7R h rs rest hconf
  simp only [enc, encFixed, List.append_assoc, parsePacket, hv, ha, ↓reduceIte, d7, parseVersioned, hp,
    Nat.reduceEqDiff]

/-! ### for the generated tables: which protocol numbers are named correctly -/

theorem protoAgree_generated_block0 : (List.range 64).all (fun n => [0, 1, 144, 255].contains n ||
    (Generated.tables.protoFromU8 n == protoSpecDisc Generated.protoNames n)) = true := by decide +kernel
theorem protoAgree_generated_block1 : (List.range 64).all (fun n => [0, 1, 144, 255].contains (64 + n) ||
    (Generated.tables.protoFromU8 (64 + n) == protoSpecDisc Generated.protoNames (64 + n))) = true := by decide +kernel
theorem protoAgree_generated_block2 : (List.range 64).all (fun n => [0, 1, 144, 255].contains (128 + n) ||
    (Generated.tables.protoFromU8 (128 + n) == protoSpecDisc Generated.protoNames (128 + n))) = true := by decide +kernel
theorem protoAgree_generated_block3 : (List.range 64).all (fun n => [0, 1, 144, 255].contains (192 + n) ||
    (Generated.tables.protoFromU8 (192 + n) == protoSpecDisc Generated.protoNames (192 + n))) = true := by decide +kernel

/-- with the generated tables every protocol number below 256 other than 0, 1, 144, 255 is named as IANA says -/
theorem protoAgree_generated (c : Config) (hc : c.t = Generated.tables) (n : Nat) (hn : n < 256)
    (hb : n ∉ [0, 1, 144, 255]) : protoAgree c Generated.protoNames n = true := by
  have pick : ∀ lo, (List.range 64).all (fun k => [0, 1, 144, 255].contains (lo + k) ||
      (Generated.tables.protoFromU8 (lo + k) == protoSpecDisc Generated.protoNames (lo + k))) = true →
      lo ≤ n → n < lo + 64 → protoAgree c Generated.protoNames n = true := by
    intro lo h h1 h2
    have := List.all_eq_true.mp h (n - lo) (List.mem_range.mpr (by omega))
    rw [show lo + (n - lo) = n by omega] at this
    simp only [Bool.or_eq_true, List.contains_eq_mem, decide_eq_true_eq] at this
    rcases this with h | h
    · exact absurd h hb
    · simpa [protoAgree, hc] using h
  by_cases h1 : n < 64
  · exact pick 0 (by simpa using protoAgree_generated_block0) (by omega) (by omega)
  · by_cases h2 : n < 128
    · exact pick 64 protoAgree_generated_block1 (by omega) (by omega)
    · by_cases h3 : n < 192
      · exact pick 128 protoAgree_generated_block2 (by omega) (by omega)
      · exact pick 192 protoAgree_generated_block3 (by omega) (by omega)

/-- KNOWN CRATE DEFECT: for 0, 1, 144, 255 `From<u8> for ProtocolTypes` is not the IANA variant -/
theorem protoAgree_generated_fails :
    ([0, 1, 144, 255].map fun n =>
      protoAgree { t := Generated.tables, allowed := [5] } Generated.protoNames n) = [false, false, false, false] := by
  decide +kernel

end Netflow.B4
