/-
  Lemmas/A6IpfixMsg.lean — top of layer (g): the set sequence (`ipParseSets`), the message
  (`parseIpfix`) and the version dispatch (`parsePacket`) on a printed IPFIX message.
-/
import NetflowModel.Lemmas.A6IpfixSets
namespace Netflow
open Spec

theorem expIpSets_cons_inv (c : Config) (names : List (Nat × String)) (d d2 : List (Nat × IpDef)) (s : IpFS)
    (ss : List IpFS) (ss1 : List IpSet) (h : expIpSets c names d (s :: ss) = some (d2, some ss1)) :
    ∃ d1 a b, expIpSet c names d s = some (d1, some a) ∧ expIpSets c names d1 ss = some (d2, some b) ∧ ss1 = a :: b := by
  simp only [expIpSets] at h
  cases h1 : expIpSet c names d s with
  | none => simp [h1] at h
  | some x =>
    obtain ⟨d1, s1⟩ := x
    simp only [h1] at h
    cases h2 : expIpSets c names d1 ss with
    | none => simp [h2] at h
    | some y =>
      obtain ⟨d2', ss1'⟩ := y
      simp only [h2] at h
      cases s1 with
      | none => simp at h
      | some a =>
        cases ss1' with
        | none => simp at h
        | some b =>
          simp only [Option.some.injEq, Prod.mk.injEq] at h
          exact ⟨d1, a, b, rfl, by rw [h2, h.1], h.2.symm⟩

theorem encIpFS_length_ge (s : IpFS) : 4 ≤ (encIpFS s).length := by
  cases s <;> simp only [encIpFS, frame_length] <;> omega

theorem ipParseSet_nil (c : Config) (ht : c.t.ipfixOk = true) (st : PState) : ipParseSet c st [] = (st, .err) := by
  have hw : c.t.ipSetHdr.wireLen = 4 := by
    simp only [Tables.ipfixOk, Bool.and_eq_true, decide_eq_true_eq] at ht
    obtain ⟨⟨⟨⟨⟨⟨_, h2⟩, _⟩, _⟩, _⟩, _⟩, _⟩ := ht
    rw [h2]; rfl
  have : parseLayout c.t.protoFromU8 c.t.ipSetHdr [] = none := by
    rw [parseLayout_none_iff, hw]; simp
  simp only [ipParseSet, this]

/-- all sets of a conformant sequence are processed, in order, and the loop stops at the end of input -/
theorem ipParseSets_enc (c : Config) (names : List (Nat × String)) (ht : c.t.ipfixOk = true) (hnp : NoProto c) :
    ∀ (ss : List IpFS) (d : List (Nat × IpDef)) (st : PState) (d2 : List (Nat × IpDef)) (ss1 : List IpSet) (fuel : Nat),
      ReprIp d st → ipSetsConf c d ss = true → expIpSets c names d ss = some (d2, some ss1) →
      (ss.flatMap encIpFS).length < fuel →
      ∃ st2, ipParseSets c fuel st (ss.flatMap encIpFS) = (st2, .ok ss1) ∧ ReprIp d2 st2 := by
  intro ss
  induction ss with
  | nil =>
    intro d st d2 ss1 fuel hr _ hexp hf
    cases fuel with
    | zero => omega
    | succ fuel =>
      simp only [expIpSets, Option.some.injEq, Prod.mk.injEq] at hexp
      obtain ⟨e1, e2⟩ := hexp
      subst e1 e2
      exact ⟨st, by simp only [List.flatMap_nil, ipParseSets, ipParseSet_nil c ht], hr⟩
  | cons s ss ih =>
    intro d st d2 ss1 fuel hr hconf hexp hf
    cases fuel with
    | zero => omega
    | succ fuel =>
      obtain ⟨d1, a, b, h1, h2, h3⟩ := expIpSets_cons_inv c names d d2 s ss ss1 hexp
      simp only [ipSetsConf, Bool.and_eq_true] at hconf
      obtain ⟨hc1, hc2⟩ := hconf
      rw [← expIpSet_defs c names d d1 s _ h1] at hc2
      obtain ⟨st1, hp, hr1⟩ := ipParseSet_enc c names ht hnp d st s d1 a (ss.flatMap encIpFS) hr hc1 h1
      have hge := encIpFS_length_ge s
      simp only [List.flatMap_cons, List.length_append] at hf
      obtain ⟨st2, hp2, hr2⟩ := ih d1 st1 d2 b fuel hr1 hc2 h2 (by omega)
      refine ⟨st2, ?_, hr2⟩
      simp only [List.flatMap_cons, ipParseSets, hp]
      rw [if_neg (by rw [List.length_append]; omega)]
      simp only [hp2, h3]

/-! ### the message -/

/-- The extra conformance conditions of C05, collected: header fields fit their wire widths, the
    message fits a 16-bit length, and every set satisfies `ipSetConf` under the template memory
    in force when it arrives. -/
def C05Conformant (c : Config) (d : List (Nat × IpDef)) (m : IpMsg) : Bool :=
  decide (m.exportTime < 4294967296) && decide (m.seq < 4294967296) && decide (m.odid < 4294967296) &&
  decide ((m.sets.flatMap encIpFS).length + 16 < 65536) && ipSetsConf c d m.sets

theorem encIpfix_length (m : IpMsg) : (encIpfix m).length = (m.sets.flatMap encIpFS).length + 16 := by
  simp only [encIpfix, List.length_append, toBE_length]; omega

theorem parseIpHdr_enc (c : Config) (ht : c.t.ipfixOk = true) (L et sq od : Nat) (tail : Bytes)
    (hL : L < 65536) (h1 : et < 4294967296) (h2 : sq < 4294967296) (h3 : od < 4294967296) :
    parseLayout c.t.protoFromU8 c.t.ipHdr (toBE 2 L ++ (toBE 4 et ++ (toBE 4 sq ++ (toBE 4 od ++ tail)))) =
      some ([10, L, et, sq, od], tail) ∧ c.t.ipHdr.get "length" [10, L, et, sq, od] = L := by
  simp only [Tables.ipfixOk, Bool.and_eq_true, decide_eq_true_eq] at ht
  obtain ⟨⟨⟨⟨⟨⟨h, _⟩, _⟩, _⟩, _⟩, _⟩, _⟩ := ht
  rw [h]
  refine ⟨?_, rfl⟩
  simp only [parseLayout, parseFields]
  rw [beU2_toBE hL]
  simp only
  rw [beU4_toBE h1]
  simp only
  rw [beU4_toBE h2]
  simp only
  rw [beU4_toBE h3]
  simp

theorem parsePacket_encIpfix (c : Config) (names : List (Nat × String)) (ht : c.t.ipfixOk = true) (hnp : NoProto c)
    (h10 : c.allowed.contains 10 = true)
    (d : List (Nat × IpDef)) (st : PState) (m : IpMsg) (d' : List (Nat × IpDef)) (ss : List IpSet) (rest : Bytes)
    (hr : ReprIp d st) (hconf : C05Conformant c d m = true)
    (hexp : expIpSets c names d m.sets = some (d', some ss)) :
    ∃ st', parsePacket c st (encIpfix m ++ rest) =
        (st', .ok (.ipfix [10, (encIpfix m).length, m.exportTime, m.seq, m.odid] ss) rest) ∧ ReprIp d' st' := by
  simp only [C05Conformant, Bool.and_eq_true, decide_eq_true_eq] at hconf
  obtain ⟨⟨⟨⟨c1, c2⟩, c3⟩, c4⟩, c5⟩ := hconf
  have hd : c.t.dispatch.lookup 10 = some 10 := by
    simp only [Tables.ipfixOk, Bool.and_eq_true, decide_eq_true_eq] at ht
    exact ht.2
  obtain ⟨st', hp, hr'⟩ := ipParseSets_enc c names ht hnp m.sets d st d' ss ((m.sets.flatMap encIpFS).length + 1)
    hr c5 hexp (Nat.lt_succ_self _)
  refine ⟨st', ?_, hr'⟩
  obtain ⟨g1, g2⟩ := parseIpHdr_enc c ht ((m.sets.flatMap encIpFS).length + 16) m.exportTime m.seq m.odid
    (m.sets.flatMap encIpFS ++ rest) c4 c1 c2 c3
  rw [encIpfix_length]
  simp only [encIpfix, List.append_assoc, parsePacket]
  rw [beU2_toBE (by omega)]
  simp only [h10, ↓reduceIte, hd, parseVersioned, Nat.reduceEqDiff, parseIpfix, g1, g2, Nat.add_sub_cancel,
    takeN_append_a6, hp, liftRes]

/-! ### streams of messages -/

/-- template memory after a whole message -/
def ipDefsAfter (d : List (Nat × IpDef)) (m : IpMsg) : List (Nat × IpDef) := m.sets.foldl ipDefsStep d

/-- `C05Conformant` threaded through a stream of IPFIX messages -/
def C05ConformantStream (c : Config) : List (Nat × IpDef) → List IpMsg → Bool
  | _, [] => true
  | d, m :: ms => C05Conformant c d m && C05ConformantStream c (ipDefsAfter d m) ms

theorem expIpSets_defs (c : Config) (names : List (Nat × String)) :
    ∀ (ss : List IpFS) (d d2 : List (Nat × IpDef)) (x : Option (List IpSet)),
      expIpSets c names d ss = some (d2, x) → d2 = ss.foldl ipDefsStep d := by
  intro ss
  induction ss with
  | nil => intro d d2 x h; simp only [expIpSets, Option.some.injEq, Prod.mk.injEq] at h; simp [← h.1]
  | cons s ss ih =>
    intro d d2 x h
    simp only [expIpSets] at h
    cases h1 : expIpSet c names d s with
    | none => simp [h1] at h
    | some y =>
      obtain ⟨d1, s1⟩ := y
      simp only [h1] at h
      cases h2 : expIpSets c names d1 ss with
      | none => simp [h2] at h
      | some z =>
        obtain ⟨d2', ss1⟩ := z
        simp only [h2] at h
        have e1 := expIpSet_defs c names d d1 s s1 h1
        have e2 := ih d1 d2' ss1 h2
        have e3 : d2' = d2 := by
          cases s1 <;> cases ss1 <;> simp only [Option.some.injEq, Prod.mk.injEq] at h <;> exact h.1
        rw [List.foldl_cons, ← e1, ← e2, e3]

/-- inversion of `expMsg` on an IPFIX message that yields a packet -/
theorem expMsg_ipfix_inv (c : Config) (names : List (Nat × String)) (D D1 : Defs) (m : IpMsg) (p : Packet)
    (h : expMsg c names D (.ipfix m) = some (D1, .pkt p)) :
    ∃ ss, expIpSets c names D.ip m.sets = some (D1.ip, some ss) ∧ D1.v9 = D.v9 ∧
      p = .ipfix [10, (encIpfix m).length, m.exportTime, m.seq, m.odid] ss ∧ D1.ip = ipDefsAfter D.ip m := by
  simp only [expMsg] at h
  cases hs : expIpSets c names D.ip m.sets with
  | none => simp [hs] at h
  | some x =>
    obtain ⟨d1, ss1⟩ := x
    cases ss1 with
    | none => simp [hs] at h
    | some ss =>
      simp only [hs, Option.some.injEq, Prod.mk.injEq, Exp.pkt.injEq] at h
      obtain ⟨e1, e2⟩ := h
      subst e1 e2
      exact ⟨ss, rfl, rfl, rfl, expIpSets_defs c names m.sets D.ip d1 _ hs⟩

end Netflow
