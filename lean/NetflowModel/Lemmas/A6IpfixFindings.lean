/-
  Lemmas/A6IpfixFindings.lean — the record-loop condition `recLoopOk` of the C05 proof excludes the
  known-finding class `Findings.varlenTail` ("ipfix-varlen-tail").
-/
import NetflowModel.Lemmas.A6IpfixMsg
namespace Netflow
open Spec

theorem recSize_eq_sum (r : List FieldBytes) : recSize r = (r.map Findings.fieldBytesSize).sum := by
  induction r with
  | nil => rfl
  | cons f fs ih =>
    simp only [recSize, List.flatMap_cons, List.length_append, List.map_cons, List.sum_cons,
      Findings.fieldBytesSize] at ih ⊢
    rw [ih]

theorem recLoopOk_go (pad : Bytes) : ∀ (sizes : List Nat), recLoopOk sizes pad.length = true →
    Findings.varlenTail.go pad sizes = false := by
  intro sizes
  induction sizes with
  | nil => intro h; simp [recLoopOk] at h
  | cons s rest ih =>
    intro h
    cases rest with
    | nil => simp [Findings.varlenTail.go]
    | cons s2 rest' =>
      simp only [recLoopOk, Bool.and_eq_true, decide_eq_true_eq] at h
      obtain ⟨⟨_, h2⟩, h3⟩ := h
      simp only [Findings.varlenTail.go, Bool.or_eq_false_iff, decide_eq_false_iff_not]
      exact ⟨by omega, ih h3⟩

/-- a data set that satisfies the record-loop hypothesis of `C05_partial` is outside the
    known-finding class "ipfix-varlen-tail" -/
theorem recLoopOk_not_varlenTail (recs : List (List FieldBytes)) (pad : Bytes)
    (h : recLoopOk (recs.map recSize) pad.length = true) : Findings.varlenTail recs pad = false := by
  have e : recs.map (fun r => (r.map Findings.fieldBytesSize).sum) = recs.map recSize :=
    List.map_congr_left (fun r _ => (recSize_eq_sum r).symm)
  simp only [Findings.varlenTail, e]
  exact recLoopOk_go pad _ h

end Netflow
