/-
  Lemmas/P6Work.lean — helper lemmas for `Props/C15c.lean`: the work model of the V9 record loop (`CostWork.lean`).
-/
import NetflowModel.CostWork
import NetflowModel.Lemmas.G2Ctl
import NetflowModel.Props.C15
namespace Netflow.P6
open Netflow Cost

/-- at most one attempt per field of the template -/
theorem v9RecAttempts_le (c : Config) (fs : List TField) (i : Bytes) : v9RecAttempts c fs i ≤ fs.length := by
  induction fs generalizing i with
  | nil => simp [v9RecAttempts]
  | cons f fs ih =>
    simp only [v9RecAttempts, List.length_cons]
    cases h : parseValue c.vc (c.t.v9Ty (c.t.v9Field f.typ)) f.len i with
    | none => simp
    | some p => obtain ⟨v, r⟩ := p; simp only []; have := ih r; omega

/-- the loop of the code as it is now (stop) returns what the `fold` of the model (go on) returns -/
theorem v9RecLoopStop_eq (c : Config) (fs : List TField) (n : Nat) (i : Bytes) (acc : List Rec) :
    v9RecLoopStop c fs n i acc = v9RecLoop c fs n i acc := by
  rw [← G2.v9RecLoopK_eq true]
  induction n generalizing i acc with
  | zero => rfl
  | succ n ih =>
    cases h : v9ParseRec c fs 0 i with
    | none => simp [v9RecLoopStop, v9RecLoopK, h]
    | some p => obtain ⟨r, i'⟩ := p; simp only [v9RecLoopStop, v9RecLoopK, h]; exact ih i' (acc ++ [r])

/-- the work of the stopping loop is paid by the records it returns, one template's worth left over (the attempt that failed) -/
theorem v9_work_stop_le (c : Config) (fs : List TField) (n : Nat) (i : Bytes) (acc : List Rec) :
    v9RecWorkStop c fs n i + fs.length * acc.length ≤ fs.length * ((v9RecLoop c fs n i acc).1.length + 1) := by
  induction n generalizing i acc with
  | zero => simp only [v9RecWorkStop, v9RecLoop, Nat.zero_add, Nat.mul_add, Nat.mul_one]; omega
  | succ n ih =>
    have ha := v9RecAttempts_le c fs i
    cases h : v9ParseRec c fs 0 i with
    | none =>
      rw [G2.v9RecLoop_fail c fs (n + 1) i acc h]
      simp only [v9RecWorkStop, h, Nat.add_zero, Nat.mul_add, Nat.mul_one]; omega
    | some p =>
      obtain ⟨r, i'⟩ := p
      have := ih i' (acc ++ [r])
      simp only [v9RecWorkStop, v9RecLoop, h]
      simp only [List.length_append, List.length_cons, List.length_nil, Nat.zero_add, Nat.mul_add, Nat.mul_one] at this ⊢
      omega

/-- every decoded value occupies at least its enum payload -/
theorem valueSize_ge (v : FieldValue) : 32 ≤ valueSize v := by
  unfold valueSize; split <;> omega

theorem entries_sum_ge (es : Rec) : 48 * es.length ≤ (es.map fun e => 16 + valueSize e.2.2).sum := by
  induction es with
  | nil => simp
  | cons e es ih =>
    have := valueSize_ge e.2.2
    simp only [List.length_cons, List.map_cons, List.sum_cons, Nat.mul_succ]; omega

/-- a record of `k` entries costs at least `64 + 48·k` -/
theorem recSize_ge (es : Rec) : 64 + 48 * es.length ≤ recSize es := by
  have := entries_sum_ge es
  unfold recSize; omega

/-- every record the loop appends has one entry per field of the template -/
theorem v9RecLoop_lengths (c : Config) (fs : List TField) (n : Nat) (i : Bytes) (acc : List Rec)
    (hacc : ∀ r ∈ acc, r.length = fs.length) : ∀ r ∈ (v9RecLoop c fs n i acc).1, r.length = fs.length := by
  induction n generalizing i acc with
  | zero => simpa [v9RecLoop] using hacc
  | succ n ih =>
    cases h : v9ParseRec c fs 0 i with
    | none => simp only [v9RecLoop, h]; exact ih i acc hacc
    | some p =>
      obtain ⟨r, i'⟩ := p
      simp only [v9RecLoop, h]
      apply ih
      intro x hx
      rcases List.mem_append.mp hx with hx | hx
      · exact hacc x hx
      · have : x = r := by simpa using hx
        subst this
        exact Props.C15_record_entries_v9 c fs 0 i x i' h

theorem sum_ge_of_all (k : Nat) (l : List Rec) (h : ∀ r ∈ l, k ≤ recSize r) : k * l.length ≤ (l.map recSize).sum := by
  induction l with
  | nil => simp
  | cons r l ih =>
    have h1 := h r (by simp)
    have h2 := ih (fun x hx => h x (by simp [hx]))
    simp only [List.length_cons, List.map_cons, List.sum_cons, Nat.mul_succ]; omega

/-- the old `fold`: once a record fails, every remaining iteration clones the template and fails again -/
theorem v9RecWorkRetry_fail (c : Config) (fs : List TField) (n : Nat) (i : Bytes)
    (h : v9ParseRec c fs 0 i = none) : v9RecWorkRetry c fs n i = n * (fs.length + v9RecAttempts c fs i) := by
  induction n with
  | zero => simp [v9RecWorkRetry]
  | succ n ih =>
    simp only [v9RecWorkRetry, h]
    rw [ih, Nat.succ_mul]
    omega

/-- `k` fields that decode without consuming anything in front of `fs`: `k` more attempts -/
theorem attempts_replicate (c : Config) (z : TField) (v0 : FieldValue)
    (hz : ∀ j, parseValue c.vc (c.t.v9Ty (c.t.v9Field z.typ)) z.len j = some (v0, j))
    (k : Nat) (fs : List TField) (i : Bytes) :
    v9RecAttempts c (List.replicate k z ++ fs) i = k + v9RecAttempts c fs i := by
  induction k with
  | zero => simp
  | succ k ih => simp only [List.replicate_succ, List.cons_append, v9RecAttempts, hz, ih]; omega

theorem parseRec_replicate_fail (c : Config) (z f : TField) (v0 : FieldValue)
    (hz : ∀ j, parseValue c.vc (c.t.v9Ty (c.t.v9Field z.typ)) z.len j = some (v0, j))
    (i : Bytes) (hf : parseValue c.vc (c.t.v9Ty (c.t.v9Field f.typ)) f.len i = none)
    (k idx : Nat) : v9ParseRec c (List.replicate k z ++ [f]) idx i = none := by
  induction k generalizing idx with
  | zero => simp [v9ParseRec, hf]
  | succ k ih => simp only [List.replicate_succ, List.cons_append, v9ParseRec, hz, ih]

/-- with every declared length ≥ 1 the (saturating) record size is at least the number of fields, up to the saturation bound -/
theorem v9TotalSize_ge_aux (fs : List TField) (hpos : ∀ f ∈ fs, 1 ≤ f.len) :
    ∀ acc, min (acc + fs.length) 65535 ≤ fs.foldl (fun acc f => min (acc + f.len) 65535) acc := by
  induction fs with
  | nil => intro acc; simp only [List.length_nil, Nat.add_zero, List.foldl_nil]; omega
  | cons f fs ih =>
    intro acc
    have h1 := hpos f (by simp)
    have h2 := ih (fun g hg => hpos g (by simp [hg])) (min (acc + f.len) 65535)
    simp only [List.foldl_cons, List.length_cons]
    omega

theorem v9TotalSize_ge (fs : List TField) (hpos : ∀ f ∈ fs, 1 ≤ f.len) (hk : fs.length ≤ 65535) :
    fs.length ≤ v9TotalSize fs := by
  have := v9TotalSize_ge_aux fs hpos 0
  unfold v9TotalSize
  omega

theorem v9RecWorkStop_le_iters (c : Config) (fs : List TField) (n : Nat) (i : Bytes) :
    v9RecWorkStop c fs n i ≤ fs.length * n := by
  induction n generalizing i with
  | zero => simp [v9RecWorkStop]
  | succ n ih =>
    have ha := v9RecAttempts_le c fs i
    simp only [v9RecWorkStop, Nat.mul_add, Nat.mul_one]
    cases h : v9ParseRec c fs 0 i with
    | none => simp only []; omega
    | some p => obtain ⟨r, i'⟩ := p; simp only []; have := ih i'; omega

theorem v9RecWorkRetry_le_iters (c : Config) (fs : List TField) (n : Nat) (i : Bytes) :
    v9RecWorkRetry c fs n i ≤ 2 * (fs.length * n) := by
  induction n generalizing i with
  | zero => simp [v9RecWorkRetry]
  | succ n ih =>
    have ha := v9RecAttempts_le c fs i
    simp only [v9RecWorkRetry, Nat.mul_add, Nat.mul_one]
    cases h : v9ParseRec c fs 0 i with
    | none => simp only []; have := ih i; omega
    | some p => obtain ⟨r, i'⟩ := p; simp only []; have := ih i'; omega

theorem fields_times_iters_le (k total b : Nat) (hk : k ≤ total) : k * (b / total) ≤ b :=
  Nat.le_trans (Nat.mul_le_mul_right _ hk) (Nat.mul_div_le b total)

end Netflow.P6
