/-
  Lemmas/A1Layout.lean — generic lemmas about `Bytes` (`toBE`/`beNat` are mutually inverse),
  the layout parser (`parseFields`: which bytes every field is decoded from), `countP`, and the
  layout exporter (`exportByOrder` is the inverse of `parseFields` for well-formed layouts).
-/
import NetflowModel.Lemmas.Consume
import NetflowModel.Preds
namespace Netflow

/-! ### big-endian codecs -/

theorem toBE_length : ∀ (w n : Nat), (toBE w n).length = w
  | 0, _ => rfl
  | w + 1, n => by simp [toBE, toBE_length w]

theorem beNat_foldl_a1 (bs : Bytes) (acc : Nat) :
    bs.foldl (fun acc b => acc * 256 + b.toNat) acc = acc * 256 ^ bs.length + beNat bs := by
  induction bs generalizing acc with
  | nil => simp [beNat]
  | cons b bs ih =>
    simp only [List.foldl_cons, List.length_cons, beNat]
    rw [ih, ih (0 * 256 + b.toNat), Nat.pow_succ]
    generalize 256 ^ bs.length = P
    generalize beNat bs = x
    grind

theorem beNat_nil : beNat [] = 0 := rfl

theorem beNat_append (a b : Bytes) : beNat (a ++ b) = beNat a * 256 ^ b.length + beNat b := by
  unfold beNat
  rw [List.foldl_append, beNat_foldl_a1]
  rfl

theorem beNat_singleton (b : UInt8) : beNat [b] = b.toNat := by simp [beNat]

theorem beNat_concat (a : Bytes) (b : UInt8) : beNat (a ++ [b]) = beNat a * 256 + b.toNat := by
  rw [beNat_append, beNat_singleton]; simp

theorem beNat_lt_a1 (bs : Bytes) : beNat bs < 256 ^ bs.length := by
  induction bs with
  | nil => simp [beNat]
  | cons b bs ih =>
    have h := beNat_append [b] bs
    simp only [List.singleton_append] at h
    rw [h, beNat_singleton, List.length_cons, Nat.pow_succ]
    have hb : b.toNat < 256 := UInt8.toNat_lt b
    generalize 256 ^ bs.length = P at *
    have : b.toNat * P + P ≤ 256 * P := by
      have : (b.toNat + 1) * P ≤ 256 * P := Nat.mul_le_mul_right P (by omega)
      rw [Nat.add_mul] at this; omega
    omega

theorem beNat_toBE : ∀ (w n : Nat), beNat (toBE w n) = n % 256 ^ w
  | 0, n => by simp [toBE, beNat, Nat.mod_one]
  | w + 1, n => by
    rw [toBE, beNat_concat, beNat_toBE w]
    have h1 : (UInt8.ofNat (n % 256)).toNat = n % 256 := by
      rw [UInt8.toNat_ofNat']; omega
    rw [h1, Nat.pow_succ, Nat.mul_comm (256 ^ w) 256, Nat.mod_mul]
    omega

private theorem toBE_beNat_rev (l : Bytes) : toBE l.length (beNat l.reverse) = l.reverse := by
  induction l with
  | nil => rfl
  | cons a t ih =>
    rw [List.reverse_cons, beNat_concat, List.length_cons, toBE]
    have ha : a.toNat < 256 := UInt8.toNat_lt a
    have h1 : (beNat t.reverse * 256 + a.toNat) / 256 = beNat t.reverse := by omega
    have h2 : (beNat t.reverse * 256 + a.toNat) % 256 = a.toNat := by omega
    rw [h1, h2, ih, UInt8.ofNat_toNat]

theorem toBE_beNat (bs : Bytes) : toBE bs.length (beNat bs) = bs := by
  have := toBE_beNat_rev bs.reverse
  simpa using this

theorem beNat_toBE_of_lt {w n : Nat} (h : n < 256 ^ w) : beNat (toBE w n) = n := by
  rw [beNat_toBE, Nat.mod_eq_of_lt h]


/-! ### name resolution in a layout with distinct field names -/

/-- decidable: the field names of a layout are pairwise distinct -/
def Layout.namesNodup (lay : Layout) : Bool := decide (lay.map (·.name)).Nodup

theorem Layout.indexOf_mid (pre : Layout) (f : LField) (fs : Layout) (h : f.name ∉ pre.map (·.name)) :
    Layout.indexOf (pre ++ f :: fs) f.name = pre.length := by
  simp [Layout.indexOf, List.idxOf_append, h]

theorem Layout.widthOf_mid (pre : Layout) (f : LField) (fs : Layout) (h : f.name ∉ pre.map (·.name)) :
    Layout.widthOf (pre ++ f :: fs) f.name = f.tw := by
  have hp : pre.find? (fun g => g.name == f.name) = none := by
    rw [List.find?_eq_none]
    intro g hg hgn
    exact h (List.mem_map.mpr ⟨g, hg, by simpa using hgn⟩)
  simp [Layout.widthOf, List.find?_append, hp]

theorem nodup_mid {pre : Layout} {f : LField} {fs : Layout}
    (h : ((pre ++ f :: fs).map (·.name)).Nodup) :
    f.name ∉ pre.map (·.name) ∧ f.name ∉ fs.map (·.name) ∧ (((pre ++ [f]) ++ fs).map (·.name)).Nodup := by
  refine ⟨?_, ?_, by simpa using h⟩
  · simp only [List.map_append, List.map_cons, List.nodup_append, List.nodup_cons] at h
    intro hm
    exact h.2.2 _ hm _ List.mem_cons_self rfl
  · simp only [List.map_append, List.map_cons, List.nodup_append, List.nodup_cons] at h
    exact h.2.1.1

theorem getD_append_length {α : Type} (a : List α) (x : α) (d : List α) (z : α) :
    (a ++ x :: d).getD a.length z = x := by
  simp [List.getD_eq_getElem?_getD]

/-! ### the layout parser: accumulator prefix, field values -/

theorem parseFields_prefix (proto : Nat → Nat) :
    ∀ (lay : Layout) (acc : List Nat) (i : Bytes) (vals : List Nat) (r : Bytes),
      parseFields proto lay acc i = some (vals, r) → ∃ d, vals = acc ++ d ∧ d.length = lay.length := by
  intro lay
  induction lay with
  | nil => intro acc i vals r h; simp [parseFields] at h; exact ⟨[], by simp [h.1]⟩
  | cons f fs ih =>
    intro acc i vals r h
    unfold parseFields at h
    cases hk : f.kind with
    | wire w =>
      simp only [hk] at h
      cases hb : beU w i with
      | none => simp [hb] at h
      | some vr =>
        obtain ⟨v, r1⟩ := vr
        simp only [hb] at h
        obtain ⟨d, hd, hl⟩ := ih _ _ _ _ h
        exact ⟨v :: d, by simp [hd], by simp [hl]⟩
    | const v =>
      simp only [hk] at h
      obtain ⟨d, hd, hl⟩ := ih _ _ _ _ h
      exact ⟨v :: d, by simp [hd], by simp [hl]⟩
    | protoOf s =>
      simp only [hk] at h
      obtain ⟨d, hd, hl⟩ := ih _ _ _ _ h
      exact ⟨proto (acc.getD s 0) :: d, by simp [hd], by simp [hl]⟩

/-- what field number `j` of a layout decodes to -/
def fieldValue (proto : Nat → Nat) (lay : Layout) (i : Bytes) (vals : List Nat) (base j : Nat) (k : FKind) : Nat :=
  match k with
  | .wire w => beNat ((i.drop (Layout.wireLen (lay.take j))).take w)
  | .const v => v
  | .protoOf src => proto ((vals.take (base + j)).getD src 0)

theorem Layout.wireLen_cons (f : LField) (fs : Layout) :
    Layout.wireLen (f :: fs) = f.kind.width + Layout.wireLen fs := by
  simp [Layout.wireLen]

theorem Layout.wireLen_nil : Layout.wireLen [] = 0 := rfl

theorem fieldValue_cons (proto : Nat → Nat) (f : LField) (fs : Layout) (i : Bytes) (vals : List Nat)
    (base j : Nat) (k : FKind) :
    fieldValue proto (f :: fs) i vals base (j + 1) k = fieldValue proto fs (i.drop f.kind.width) vals (base + 1) j k := by
  cases k with
  | wire w => simp only [fieldValue, List.take_succ_cons, Layout.wireLen_cons, List.drop_drop]
  | const v => rfl
  | protoOf s => simp only [fieldValue]; rw [show base + 1 + j = base + (j + 1) by omega]

/-- **field-value lemma** (by position): field `j` of kind `.wire w` is the big-endian value of the
    `w` bytes at the offset that is the sum of the wire widths of the preceding fields; a `.const v`
    field is `v`; a `.protoOf src` field is `proto` of the value decoded so far at position `src`. -/
theorem parseFields_field_value (proto : Nat → Nat) :
    ∀ (lay : Layout) (acc : List Nat) (i : Bytes) (vals : List Nat) (r : Bytes),
      parseFields proto lay acc i = some (vals, r) →
      ∀ (j : Nat) (hj : j < lay.length),
        vals.getD (acc.length + j) 0 = fieldValue proto lay i vals acc.length j lay[j].kind := by
  intro lay
  induction lay with
  | nil => intro acc i vals r _ j hj; simp at hj
  | cons f fs ih =>
    intro acc i vals r h j hj
    -- the tail call, uniformly
    have htail : ∃ x, parseFields proto fs (acc ++ [x]) (i.drop f.kind.width) = some (vals, r) ∧
        x = fieldValue proto (f :: fs) i vals acc.length 0 f.kind := by
      unfold parseFields at h
      cases hk : f.kind with
      | wire w =>
        simp only [hk] at h
        cases hb : beU w i with
        | none => simp [hb] at h
        | some vr =>
          obtain ⟨v, r1⟩ := vr
          simp only [hb] at h
          obtain ⟨_, hv, hr1⟩ := beU_some hb
          subst hr1
          exact ⟨v, h, by simp [fieldValue, Layout.wireLen_nil, hv]⟩
      | const v =>
        simp only [hk] at h
        exact ⟨v, by simpa [FKind.width] using h, rfl⟩
      | protoOf s =>
        simp only [hk] at h
        refine ⟨_, by simpa [FKind.width] using h, ?_⟩
        obtain ⟨d, hd, _⟩ := parseFields_prefix proto _ _ _ _ _ h
        simp only [fieldValue, Nat.add_zero]
        rw [hd, List.append_assoc, List.take_left' rfl]
        simp
    obtain ⟨x, ht, hx⟩ := htail
    obtain ⟨d, hd, _⟩ := parseFields_prefix proto _ _ _ _ _ ht
    cases j with
    | zero =>
      simp only [List.getElem_cons_zero, Nat.add_zero, ← hx]
      rw [hd, List.append_assoc, List.singleton_append, getD_append_length]
    | succ j =>
      have := ih _ _ _ _ ht j (by simpa using hj)
      simp only [List.length_append, List.length_singleton] at this
      rw [show acc.length + (j + 1) = acc.length + 1 + j by omega, this]
      simp only [List.getElem_cons_succ, fieldValue_cons]

/-- **field-value lemma** (by name), for a layout with distinct field names -/
theorem parseLayout_get (proto : Nat → Nat) (lay : Layout) (hnd : lay.namesNodup = true)
    (i : Bytes) (vals : List Nat) (r : Bytes) (h : parseLayout proto lay i = some (vals, r))
    (j : Nat) (hj : j < lay.length) :
    lay.get lay[j].name vals = fieldValue proto lay i vals 0 j lay[j].kind := by
  have hnd' : (lay.map (·.name)).Nodup := by simpa [Layout.namesNodup] using hnd
  have hidx : lay.indexOf lay[j].name = j := by
    have := List.Nodup.idxOf_getElem hnd' j (by simpa using hj)
    simpa [Layout.indexOf] using this
  have := parseFields_field_value proto lay [] i vals r h j hj
  simp only [List.length_nil, Nat.zero_add] at this
  rw [Layout.get, hidx, this]


/-- a `.protoOf src` field whose source precedes it is `proto` of the decoded source field -/
theorem parseLayout_get_protoOf (proto : Nat → Nat) (lay : Layout) (hnd : lay.namesNodup = true)
    (i : Bytes) (vals : List Nat) (r : Bytes) (h : parseLayout proto lay i = some (vals, r))
    (j src : Nat) (hj : j < lay.length) (hk : lay[j].kind = .protoOf src) (hs : src < j) :
    lay.get lay[j].name vals = proto (lay.get (lay[src]'(by omega)).name vals) := by
  have hnd' : (lay.map (·.name)).Nodup := by simpa [Layout.namesNodup] using hnd
  have hidx : lay.indexOf (lay[src]'(by omega)).name = src := by
    have := List.Nodup.idxOf_getElem hnd' src (by simp; omega)
    simpa [Layout.indexOf] using this
  rw [parseLayout_get proto lay hnd i vals r h j hj, hk]
  simp only [fieldValue, Nat.zero_add, Layout.get, hidx]
  congr 1
  simp [List.getD_eq_getElem?_getD, hs]

/-- a `.wire w` field is the big-endian value of the `w` bytes at the sum of the preceding wire widths -/
theorem parseLayout_get_wire (proto : Nat → Nat) (lay : Layout) (hnd : lay.namesNodup = true)
    (i : Bytes) (vals : List Nat) (r : Bytes) (h : parseLayout proto lay i = some (vals, r))
    (j w : Nat) (hj : j < lay.length) (hk : lay[j].kind = .wire w) :
    lay.get lay[j].name vals = beNat ((i.drop (Layout.wireLen (lay.take j))).take w) := by
  rw [parseLayout_get proto lay hnd i vals r h j hj, hk]; rfl

/-- a `.const v` field is `v` -/
theorem parseLayout_get_const (proto : Nat → Nat) (lay : Layout) (hnd : lay.namesNodup = true)
    (i : Bytes) (vals : List Nat) (r : Bytes) (h : parseLayout proto lay i = some (vals, r))
    (j v : Nat) (hj : j < lay.length) (hk : lay[j].kind = .const v) :
    lay.get lay[j].name vals = v := by
  rw [parseLayout_get proto lay hnd i vals r h j hj, hk]; rfl

/-! ### `countP` of a parser that consumes exactly `n` bytes -/

/-- induction principle: a relation between the input and the decoded list that holds for `[]` and
    is preserved by one more record in front holds for every result of `countP` -/
theorem countP_rec {α : Type} {p : P α} {n : Nat} (hc : Consumes p n) (R : Bytes → List α → Prop)
    (h0 : ∀ b, R b []) (hstep : ∀ b a r as, p b = some (a, r) → R (b.drop n) as → R b (a :: as)) :
    ∀ (k : Nat) (i : Bytes) (as : List α) (r : Bytes), countP p k i = some (as, r) → R i as := by
  intro k
  induction k with
  | zero => intro i as r h; simp [countP] at h; rw [h.1]; exact h0 i
  | succ k ih =>
    intro i as r h
    simp only [countP] at h
    cases hpi : p i with
    | none => simp [hpi] at h
    | some ar =>
      obtain ⟨a, r1⟩ := ar
      simp only [hpi] at h
      cases hck : countP p k r1 with
      | none => simp [hck] at h
      | some asr =>
        obtain ⟨as', r2⟩ := asr
        simp only [hck, Option.some.injEq, Prod.mk.injEq] at h
        obtain ⟨_, h2⟩ := hc i a r1 hpi
        rw [← h.1]
        exact hstep i a r1 as' hpi (h2 ▸ ih r1 as' r2 hck)

/-- record number `j` is what `p` decodes from the bytes at offset `n * j` -/
theorem countP_getElem {α : Type} {p : P α} {n : Nat} (hc : Consumes p n) :
    ∀ (k : Nat) (i : Bytes) (as : List α) (r : Bytes), countP p k i = some (as, r) →
      ∀ (j : Nat) (hj : j < as.length), ∃ r', p (i.drop (n * j)) = some (as[j], r') := by
  intro k i as r h
  refine countP_rec hc (fun b as => ∀ (j : Nat) (hj : j < as.length), ∃ r', p (b.drop (n * j)) = some (as[j], r'))
    ?_ ?_ k i as r h
  · intro b j hj; simp at hj
  · intro b a r1 as' hp ih j hj
    cases j with
    | zero => exact ⟨r1, by simpa using hp⟩
    | succ j =>
      obtain ⟨r', hr'⟩ := ih j (by simpa using hj)
      refine ⟨r', ?_⟩
      rw [List.drop_drop] at hr'
      simpa [Nat.mul_succ, Nat.add_comm] using hr'

/-- `countP` succeeds when `n * k` bytes are present and `p` succeeds on `n` bytes -/
theorem countP_isSome {α : Type} {p : P α} {n : Nat}
    (hp : ∀ i : Bytes, n ≤ i.length → ∃ a, p i = some (a, i.drop n)) :
    ∀ (k : Nat) (i : Bytes), n * k ≤ i.length → ∃ as, countP p k i = some (as, i.drop (n * k)) := by
  intro k
  induction k with
  | zero => intro i _; exact ⟨[], by simp [countP]⟩
  | succ k ih =>
    intro i h
    rw [Nat.mul_succ] at h
    obtain ⟨a, ha⟩ := hp i (by omega)
    obtain ⟨as, has⟩ := ih (i.drop n) (by rw [List.length_drop]; omega)
    refine ⟨a :: as, ?_⟩
    simp only [countP, ha, has, List.drop_drop, Nat.mul_succ]
    rw [Nat.add_comm]

/-- `countP` fails when fewer than `n * k` bytes are present: no partial list -/
theorem countP_none_of_short {α : Type} {p : P α} {n : Nat} (hc : Consumes p n) (k : Nat) (i : Bytes)
    (h : i.length < n * k) : countP p k i = none := by
  cases hk : countP p k i with
  | none => rfl
  | some asr =>
    obtain ⟨as, r⟩ := asr
    have := (countP_consumes hc k i as r hk).1
    omega

theorem parseLayout_isSome (proto : Nat → Nat) (lay : Layout) (i : Bytes) (h : lay.wireLen ≤ i.length) :
    ∃ vals, parseLayout proto lay i = some (vals, i.drop lay.wireLen) :=
  parseFields_isSome proto lay [] i h

/-! ### well-formed layouts; the Cisco view of a layout -/

/-- a field of a record-style layout: no injected constant, wire fields emitted at their wire width -/
def LField.plain (f : LField) : Bool :=
  match f.kind with
  | .wire w => f.tw == w
  | .const _ => false
  | .protoOf _ => true

/-- record layout: plain fields with distinct names -/
def Layout.recWf (lay : Layout) : Bool := lay.all LField.plain && lay.namesNodup

/-- header layout: the injected 2-byte version constant `ver` first, then plain fields, distinct names -/
def Layout.hdrWf (ver : Nat) : Layout → Bool
  | f0 :: rest => f0.kind == .const ver && f0.tw == 2 && rest.all LField.plain && Layout.namesNodup (f0 :: rest)
  | [] => false

theorem offsetOf_cons_self (n : String) (w : Nat) (S : List (String × Nat)) :
    Spec.offsetOf ((n, w) :: S) n = 0 := by
  simp [Spec.offsetOf, List.takeWhile]

theorem offsetOf_cons_ne (n : String) (w : Nat) (S : List (String × Nat)) (m : String) (h : m ≠ n) :
    Spec.offsetOf ((n, w) :: S) m = w + Spec.offsetOf S m := by
  have : ((n, w).1 != m) = true := by simpa using fun e => h e.symm
  simp [Spec.offsetOf, List.takeWhile, this]

theorem mem_layoutWire_name {lay : Layout} {p : String × Nat} (h : p ∈ Spec.layoutWire lay) :
    p.1 ∈ lay.map (·.name) := by
  simp only [Spec.layoutWire, List.mem_filterMap] at h
  obtain ⟨f, hf, hp⟩ := h
  refine List.mem_map.mpr ⟨f, hf, ?_⟩
  cases hk : f.kind with
  | wire w => simp only [hk, Option.some.injEq] at hp; rw [← hp]
  | const v => simp only [hk, Option.some.injEq] at hp; rw [← hp]
  | protoOf s => simp [hk] at hp

theorem layoutWire_cons_wire {f : LField} {w : Nat} (fs : Layout) (hk : f.kind = .wire w) :
    Spec.layoutWire (f :: fs) = (f.name, w) :: Spec.layoutWire fs := by
  simp [Spec.layoutWire, hk]

theorem layoutWire_cons_const {f : LField} {v : Nat} (fs : Layout) (hk : f.kind = .const v) :
    Spec.layoutWire (f :: fs) = (f.name, f.tw) :: Spec.layoutWire fs := by
  simp [Spec.layoutWire, hk]

theorem layoutWire_cons_proto {f : LField} {s : Nat} (fs : Layout) (hk : f.kind = .protoOf s) :
    Spec.layoutWire (f :: fs) = Spec.layoutWire fs := by
  simp [Spec.layoutWire, hk]

/-- for plain fields the Cisco view has the same total length as the wire -/
theorem totalLen_layoutWire (lay : Layout) (hpl : lay.all LField.plain = true) :
    Spec.totalLen (Spec.layoutWire lay) = lay.wireLen := by
  induction lay with
  | nil => rfl
  | cons f fs ih =>
    simp only [List.all_cons, Bool.and_eq_true] at hpl
    have := ih hpl.2
    rw [Layout.wireLen_cons]
    cases hk : f.kind with
    | wire w => rw [layoutWire_cons_wire fs hk]; simp only [Spec.totalLen, List.map_cons, List.sum_cons, FKind.width] at *; omega
    | const v => simp [LField.plain, hk] at hpl
    | protoOf s => rw [layoutWire_cons_proto fs hk]; simp only [FKind.width]; omega

/-- every plain field of `lay` (sitting after `pre` in the struct `pre ++ lay`) carries the
    big-endian value found at its offset in the Cisco view of `lay` -/
theorem parseFields_fieldsAt (proto : Nat → Nat) :
    ∀ (lay pre : Layout) (acc : List Nat) (i : Bytes) (vals : List Nat) (r : Bytes),
      ((pre ++ lay).map (·.name)).Nodup → acc.length = pre.length → lay.all LField.plain = true →
      parseFields proto lay acc i = some (vals, r) →
      ∀ p ∈ Spec.layoutWire lay,
        (pre ++ lay).get p.1 vals = beNat ((i.drop (Spec.offsetOf (Spec.layoutWire lay) p.1)).take p.2) := by
  intro lay
  induction lay with
  | nil => intro pre acc i vals r _ _ _ _ p hp; simp [Spec.layoutWire] at hp
  | cons f fs ih =>
    intro pre acc i vals r hnd hlen hpl h p hp
    obtain ⟨hn1, hn2, hnd'⟩ := nodup_mid hnd
    simp only [List.all_cons, Bool.and_eq_true] at hpl
    have hcat : pre ++ [f] ++ fs = pre ++ f :: fs := by simp
    unfold parseFields at h
    cases hk : f.kind with
    | wire w =>
      simp only [hk] at h
      cases hb : beU w i with
      | none => simp [hb] at h
      | some vr =>
        obtain ⟨v, r1⟩ := vr
        simp only [hb] at h
        obtain ⟨_, hv, hr1⟩ := beU_some hb
        subst hr1
        obtain ⟨d, hd, _⟩ := parseFields_prefix proto _ _ _ _ _ h
        rw [layoutWire_cons_wire fs hk] at hp ⊢
        rcases List.mem_cons.mp hp with hp | hp
        · subst hp
          simp only [offsetOf_cons_self, List.drop_zero, Layout.get, Layout.indexOf_mid pre f fs hn1]
          rw [hd, List.append_assoc, List.singleton_append, ← hlen, getD_append_length, hv]
        · have hne : p.1 ≠ f.name := fun e => hn2 (e ▸ mem_layoutWire_name hp)
          have := ih (pre ++ [f]) (acc ++ [v]) (i.drop w) vals r hnd' (by simp [hlen]) hpl.2 h p hp
          rw [hcat, List.drop_drop] at this
          rw [this, offsetOf_cons_ne _ _ _ _ hne]
    | const v => simp [LField.plain, hk] at hpl
    | protoOf s =>
      simp only [hk] at h
      rw [layoutWire_cons_proto fs hk] at hp ⊢
      have := ih (pre ++ [f]) _ i vals r hnd' (by simp [hlen]) hpl.2 h p hp
      rw [hcat] at this
      exact this

/-- a record layout decodes every Cisco field from its Cisco offset -/
theorem parseLayout_rec_fieldsAt (proto : Nat → Nat) (lay : Layout) (hwf : lay.recWf = true)
    (i : Bytes) (vals : List Nat) (r : Bytes) (hp : parseLayout proto lay i = some (vals, r)) :
    Preds.fieldsAtOffsets lay (Spec.layoutWire lay) i vals = true := by
  simp only [Layout.recWf, Layout.namesNodup, Bool.and_eq_true, decide_eq_true_eq] at hwf
  simp only [Preds.fieldsAtOffsets, List.all_eq_true, beq_iff_eq]
  intro p hpm
  exact parseFields_fieldsAt proto lay [] [] i vals r (by simpa using hwf.2) rfl hwf.1 hp p hpm

/-- a header layout decodes every Cisco field from its Cisco offset in the buffer that still
    contains the 2-byte version word (which the dispatcher consumed and the parser re-injects) -/
theorem parseLayout_hdr_fieldsAt (proto : Nat → Nat) (ver : Nat) (lay : Layout) (hwf : lay.hdrWf ver = true)
    (buf : Bytes) (h : List Nat) (r : Bytes) (hv : beNat (buf.take 2) = ver)
    (hp : parseLayout proto lay (buf.drop 2) = some (h, r)) :
    Preds.fieldsAtOffsets lay (Spec.layoutWire lay) buf h = true := by
  cases lay with
  | nil => simp [Layout.hdrWf] at hwf
  | cons f0 rest =>
    simp only [Layout.hdrWf, Layout.namesNodup, Bool.and_eq_true, decide_eq_true_eq, beq_iff_eq] at hwf
    obtain ⟨⟨⟨hk, htw⟩, hpl⟩, hnd⟩ := hwf
    have hn0 : f0.name ∉ rest.map (·.name) := by
      simp only [List.map_cons, List.nodup_cons] at hnd; exact hnd.1
    have hp' : parseFields proto rest [ver] (buf.drop 2) = some (h, r) := by
      simpa [parseLayout, parseFields, hk] using hp
    obtain ⟨d, hd, _⟩ := parseFields_prefix proto _ _ _ _ _ hp'
    simp only [Preds.fieldsAtOffsets, List.all_eq_true, beq_iff_eq]
    rw [layoutWire_cons_const rest hk, htw]
    intro p hpm
    rcases List.mem_cons.mp hpm with hpm | hpm
    · subst hpm
      have := Layout.indexOf_mid [] f0 rest (by simp)
      simp only [List.nil_append, List.length_nil] at this
      simp only [offsetOf_cons_self, List.drop_zero, Layout.get, this, hv, hd]
      rfl
    · have hne : p.1 ≠ f0.name := fun e => hn0 (e ▸ mem_layoutWire_name hpm)
      have := parseFields_fieldsAt proto rest [f0] [ver] (buf.drop 2) h r (by simpa using hnd) rfl hpl hp' p hpm
      rw [List.drop_drop] at this
      rw [offsetOf_cons_ne _ _ _ _ hne]
      simpa using this

/-- the header has as many values as fields -/
theorem parseLayout_length (proto : Nat → Nat) (lay : Layout) (i : Bytes) (vals : List Nat) (r : Bytes)
    (hp : parseLayout proto lay i = some (vals, r)) : vals.length = lay.length := by
  have := (parseFields_consumes proto lay [] i vals r hp).2.2
  simpa using this

/-- the `protocol_type` field is computed from the `protocol_number` field, a 1-byte wire field in front of it -/
def Layout.protoLinked (lay : Layout) : Bool :=
  decide (lay.indexOf "protocol_number" < lay.indexOf "protocol_type") &&
  ((lay[lay.indexOf "protocol_type"]?).map (·.kind) == some (.protoOf (lay.indexOf "protocol_number"))) &&
  ((lay[lay.indexOf "protocol_number"]?).map (·.kind) == some (.wire 1))

theorem parseLayout_protoLinked (proto : Nat → Nat) (lay : Layout) (hl : lay.protoLinked = true)
    (i : Bytes) (vals : List Nat) (r : Bytes) (hp : parseLayout proto lay i = some (vals, r)) :
    lay.get "protocol_type" vals = proto (lay.get "protocol_number" vals) ∧ lay.get "protocol_number" vals < 256 := by
  simp only [Layout.protoLinked, Bool.and_eq_true, decide_eq_true_eq, beq_iff_eq] at hl
  obtain ⟨⟨hlt, ht⟩, hn⟩ := hl
  generalize hjt : lay.indexOf "protocol_type" = jt at *
  generalize hjn : lay.indexOf "protocol_number" = jn at *
  have hjtl : jt < lay.length := by
    cases hx : lay[jt]? with
    | none => simp [hx] at ht
    | some x => exact (List.getElem?_eq_some_iff.mp hx).1
  have hjnl : jn < lay.length := by omega
  have htk : lay[jt].kind = .protoOf jn := by
    rw [List.getElem?_eq_getElem hjtl] at ht; simpa using ht
  have hnk : lay[jn].kind = .wire 1 := by
    rw [List.getElem?_eq_getElem hjnl] at hn; simpa using hn
  have h1 := parseFields_field_value proto lay [] i vals r hp jt hjtl
  have h2 := parseFields_field_value proto lay [] i vals r hp jn hjnl
  simp only [List.length_nil, Nat.zero_add, htk, hnk, fieldValue] at h1 h2
  have hlen := parseLayout_length proto lay i vals r hp
  have h3 : (vals.take jt).getD jn 0 = vals.getD jn 0 := by
    simp [List.getD_eq_getElem?_getD, hlt]
  simp only [Layout.get, hjt, hjn]
  refine ⟨by rw [h1, h3], ?_⟩
  rw [h2]
  have := beNat_lt_a1 ((i.drop (Layout.wireLen (lay.take jn))).take 1)
  have hle : ((i.drop (Layout.wireLen (lay.take jn))).take 1).length ≤ 1 := by
    rw [List.length_take]; omega
  have : (256 : Nat) ^ ((i.drop (Layout.wireLen (lay.take jn))).take 1).length ≤ 256 ^ 1 :=
    Nat.pow_le_pow_right (by omega) hle
  omega


/-! ### the exporter is the inverse of the layout parser -/

/-- a field that `to_be_bytes` emits: it has a size and is not a value computed from another field -/
def LField.exportable (f : LField) : Bool :=
  f.tw != 0 && (match f.kind with | .protoOf _ => false | _ => true)

/-- the emission order a faithful exporter must use: the byte-carrying fields in wire order -/
def Layout.exportNames (lay : Layout) : List String := (lay.filter LField.exportable).map (·.name)

/-- bytes emitted for the fields of `lay`, looked up by name in the whole struct layout `L` -/
def exportPart (L lay : Layout) (vals : List Nat) : Bytes :=
  lay.exportNames.flatMap fun n => toBE (L.widthOf n) (L.get n vals)

theorem exportByOrder_exportNames (L : Layout) (vals : List Nat) :
    exportByOrder L L.exportNames vals = exportPart L L vals := rfl

theorem exportPart_nil (L : Layout) (vals : List Nat) : exportPart L [] vals = [] := rfl

theorem exportPart_cons_exportable (L : Layout) (f : LField) (fs : Layout) (vals : List Nat)
    (h : f.exportable = true) :
    exportPart L (f :: fs) vals = toBE (L.widthOf f.name) (L.get f.name vals) ++ exportPart L fs vals := by
  simp [exportPart, Layout.exportNames, h]

theorem exportPart_cons_not (L : Layout) (f : LField) (fs : Layout) (vals : List Nat)
    (h : f.exportable = false) : exportPart L (f :: fs) vals = exportPart L fs vals := by
  simp [exportPart, Layout.exportNames, h]

/-- export ∘ parse: the plain fields of `lay` re-export exactly the bytes they were decoded from -/
theorem exportPart_parseFields (proto : Nat → Nat) :
    ∀ (lay pre : Layout) (acc : List Nat) (i : Bytes) (vals : List Nat) (r : Bytes),
      ((pre ++ lay).map (·.name)).Nodup → acc.length = pre.length → lay.all LField.plain = true →
      parseFields proto lay acc i = some (vals, r) →
      exportPart (pre ++ lay) lay vals = i.take lay.wireLen := by
  intro lay
  induction lay with
  | nil => intro pre acc i vals r _ _ _ _; simp [exportPart_nil, Layout.wireLen_nil]
  | cons f fs ih =>
    intro pre acc i vals r hnd hlen hpl h
    obtain ⟨hn1, hn2, hnd'⟩ := nodup_mid hnd
    simp only [List.all_cons, Bool.and_eq_true] at hpl
    have hcat : pre ++ [f] ++ fs = pre ++ f :: fs := by simp
    rw [Layout.wireLen_cons]
    unfold parseFields at h
    cases hk : f.kind with
    | wire w =>
      have htw : f.tw = w := by simpa [LField.plain, hk] using hpl.1
      simp only [hk] at h
      cases hb : beU w i with
      | none => simp [hb] at h
      | some vr =>
        obtain ⟨v, r1⟩ := vr
        simp only [hb] at h
        obtain ⟨hwl, hv, hr1⟩ := beU_some hb
        subst hr1
        obtain ⟨d, hd, _⟩ := parseFields_prefix proto _ _ _ _ _ h
        have hrest := ih (pre ++ [f]) (acc ++ [v]) (i.drop w) vals r hnd' (by simp [hlen]) hpl.2 h
        rw [hcat] at hrest
        simp only [FKind.width]
        by_cases hw0 : w = 0
        · have hne : f.exportable = false := by simp [LField.exportable, htw, hw0]
          rw [exportPart_cons_not _ _ _ _ hne, hrest]
          subst hw0; simp
        · have hex : f.exportable = true := by simp [LField.exportable, htw, hw0, hk]
          rw [exportPart_cons_exportable _ _ _ _ hex, hrest, Layout.widthOf_mid pre f fs hn1, htw,
            List.take_add]
          congr 1
          simp only [Layout.get, Layout.indexOf_mid pre f fs hn1]
          rw [hd, List.append_assoc, List.singleton_append, ← hlen, getD_append_length, hv]
          have hl : (i.take w).length = w := by rw [List.length_take]; omega
          have := toBE_beNat (i.take w)
          rw [hl] at this
          exact this
    | const v => simp [LField.plain, hk] at hpl
    | protoOf s =>
      simp only [hk] at h
      have hne : f.exportable = false := by simp [LField.exportable, hk]
      have hrest := ih (pre ++ [f]) _ i vals r hnd' (by simp [hlen]) hpl.2 h
      rw [hcat] at hrest
      rw [exportPart_cons_not _ _ _ _ hne, hrest]
      simp [FKind.width]

/-- values that a layout can decode to: as many as fields, every wire value fits its width, constants
    carry the constant, computed fields carry `proto` of their source (checked left to right with
    the values accepted so far in `acc`) -/
def wfFields (proto : Nat → Nat) : Layout → List Nat → List Nat → Bool
  | [], _, [] => true
  | f :: fs, acc, v :: vs =>
    (match f.kind with
     | .wire w => decide (v < 256 ^ w)
     | .const c => v == c
     | .protoOf s => v == proto (acc.getD s 0)) && wfFields proto fs (acc ++ [v]) vs
  | _, _, _ => false

/-- parse ∘ export: the bytes emitted for well-formed values decode to exactly those values,
    leaving whatever follows untouched -/
theorem parseFields_exportPart (proto : Nat → Nat) :
    ∀ (lay pre : Layout) (acc vs : List Nat) (tail : Bytes),
      ((pre ++ lay).map (·.name)).Nodup → acc.length = pre.length → lay.all LField.plain = true →
      wfFields proto lay acc vs = true →
      parseFields proto lay acc (exportPart (pre ++ lay) lay (acc ++ vs) ++ tail) = some (acc ++ vs, tail) := by
  intro lay
  induction lay with
  | nil =>
    intro pre acc vs tail _ _ _ hwf
    cases vs with
    | nil => simp [parseFields, exportPart_nil]
    | cons v vs => simp [wfFields] at hwf
  | cons f fs ih =>
    intro pre acc vs tail hnd hlen hpl hwf
    obtain ⟨hn1, hn2, hnd'⟩ := nodup_mid hnd
    simp only [List.all_cons, Bool.and_eq_true] at hpl
    have hcat : pre ++ [f] ++ fs = pre ++ f :: fs := by simp
    cases vs with
    | nil => simp [wfFields] at hwf
    | cons v vs =>
      simp only [wfFields, Bool.and_eq_true] at hwf
      obtain ⟨hv, hwf'⟩ := hwf
      have hrest := ih (pre ++ [f]) (acc ++ [v]) vs tail hnd' (by simp [hlen]) hpl.2 hwf'
      rw [hcat, List.append_assoc, List.singleton_append] at hrest
      unfold parseFields
      cases hk : f.kind with
      | wire w =>
        have htw : f.tw = w := by simpa [LField.plain, hk] using hpl.1
        simp only [hk, decide_eq_true_eq] at hv ⊢
        by_cases hw0 : w = 0
        · have hne : f.exportable = false := by simp [LField.exportable, htw, hw0]
          have hv0 : v = 0 := by subst hw0; simpa using hv
          rw [exportPart_cons_not _ _ _ _ hne]
          subst hw0
          have : beU 0 (exportPart (pre ++ f :: fs) fs (acc ++ v :: vs) ++ tail) =
              some (v, exportPart (pre ++ f :: fs) fs (acc ++ v :: vs) ++ tail) := by
            simp [beU, hv0, beNat]
          rw [this]
          exact hrest
        · have hex : f.exportable = true := by simp [LField.exportable, htw, hw0, hk]
          rw [exportPart_cons_exportable _ _ _ _ hex, Layout.widthOf_mid pre f fs hn1, htw]
          have hget : (pre ++ f :: fs).get f.name (acc ++ v :: vs) = v := by
            simp only [Layout.get, Layout.indexOf_mid pre f fs hn1]
            rw [← hlen, getD_append_length]
          rw [hget, List.append_assoc]
          have hbe : beU w (toBE w v ++ (exportPart (pre ++ f :: fs) fs (acc ++ v :: vs) ++ tail)) =
              some (v, exportPart (pre ++ f :: fs) fs (acc ++ v :: vs) ++ tail) := by
            rw [beU_of_le (by rw [List.length_append, toBE_length]; omega),
              List.take_left' (toBE_length w v), List.drop_left' (toBE_length w v), beNat_toBE_of_lt hv]
          rw [hbe]
          exact hrest
      | const c => simp [LField.plain, hk] at hpl
      | protoOf s =>
        have hne : f.exportable = false := by simp [LField.exportable, hk]
        simp only [hk, beq_iff_eq] at hv ⊢
        rw [exportPart_cons_not _ _ _ _ hne, ← hv]
        exact hrest

/-- parse ∘ export for a record layout -/
theorem parseLayout_export_rec (proto : Nat → Nat) (lay : Layout) (hwf : lay.recWf = true)
    (vs : List Nat) (hv : wfFields proto lay [] vs = true) (tail : Bytes) :
    parseLayout proto lay (exportByOrder lay lay.exportNames vs ++ tail) = some (vs, tail) := by
  simp only [Layout.recWf, Layout.namesNodup, Bool.and_eq_true, decide_eq_true_eq] at hwf
  have := parseFields_exportPart proto lay [] [] vs tail (by simpa using hwf.2) rfl hwf.1 hv
  simpa [parseLayout, exportByOrder_exportNames] using this

/-- export ∘ parse for a record layout -/
theorem export_parseLayout_rec (proto : Nat → Nat) (lay : Layout) (hwf : lay.recWf = true)
    (i : Bytes) (vals : List Nat) (r : Bytes) (hp : parseLayout proto lay i = some (vals, r)) :
    exportByOrder lay lay.exportNames vals = i.take lay.wireLen := by
  simp only [Layout.recWf, Layout.namesNodup, Bool.and_eq_true, decide_eq_true_eq] at hwf
  have := exportPart_parseFields proto lay [] [] i vals r (by simpa using hwf.2) rfl hwf.1 hp
  simpa [exportByOrder_exportNames] using this

/-- export ∘ parse for a header layout: the injected version constant re-exports the two version
    bytes the dispatcher consumed, because `toBE 2 (beNat x) = x` -/
theorem export_parseLayout_hdr (proto : Nat → Nat) (ver : Nat) (lay : Layout) (hwf : lay.hdrWf ver = true)
    (buf : Bytes) (h : List Nat) (r : Bytes) (hl : 2 ≤ buf.length) (hv : beNat (buf.take 2) = ver)
    (hp : parseLayout proto lay (buf.drop 2) = some (h, r)) :
    exportByOrder lay lay.exportNames h = buf.take (2 + lay.wireLen) := by
  cases lay with
  | nil => simp [Layout.hdrWf] at hwf
  | cons f0 rest =>
    simp only [Layout.hdrWf, Layout.namesNodup, Bool.and_eq_true, decide_eq_true_eq, beq_iff_eq] at hwf
    obtain ⟨⟨⟨hk, htw⟩, hpl⟩, hnd⟩ := hwf
    have hp' : parseFields proto rest [ver] (buf.drop 2) = some (h, r) := by
      simpa [parseLayout, parseFields, hk] using hp
    obtain ⟨d, hd, _⟩ := parseFields_prefix proto _ _ _ _ _ hp'
    have hex : f0.exportable = true := by simp [LField.exportable, htw, hk]
    have hrest := exportPart_parseFields proto rest [f0] [ver] (buf.drop 2) h r (by simpa using hnd) rfl hpl hp'
    have hw := Layout.widthOf_mid [] f0 rest (by simp)
    have hi := Layout.indexOf_mid [] f0 rest (by simp)
    simp only [List.nil_append, List.length_nil, List.singleton_append] at hw hi hrest
    rw [exportByOrder_exportNames, exportPart_cons_exportable _ _ _ _ hex, hrest, hw, htw, Layout.wireLen_cons,
      hk, List.take_add]
    simp only [FKind.width, Nat.zero_add]
    congr 1
    simp only [Layout.get, hi, hd]
    have hl2 : (buf.take 2).length = 2 := by rw [List.length_take]; omega
    have := toBE_beNat (buf.take 2)
    rw [hl2, hv] at this
    simpa using this

/-- parse ∘ export for a header layout (after the dispatcher consumed the two version bytes) -/
theorem parseLayout_export_hdr (proto : Nat → Nat) (ver : Nat) (lay : Layout) (hwf : lay.hdrWf ver = true)
    (h : List Nat) (hv : wfFields proto lay [] h = true) (tail : Bytes) :
    parseLayout proto lay ((exportByOrder lay lay.exportNames h ++ tail).drop 2) = some (h, tail) := by
  cases lay with
  | nil => simp [Layout.hdrWf] at hwf
  | cons f0 rest =>
    simp only [Layout.hdrWf, Layout.namesNodup, Bool.and_eq_true, decide_eq_true_eq, beq_iff_eq] at hwf
    obtain ⟨⟨⟨hk, htw⟩, hpl⟩, hnd⟩ := hwf
    cases h with
    | nil => simp [wfFields] at hv
    | cons v0 hs =>
      simp only [wfFields, hk, Bool.and_eq_true, beq_iff_eq, List.nil_append] at hv
      obtain ⟨hv0, hwf'⟩ := hv
      subst hv0
      have hex : f0.exportable = true := by simp [LField.exportable, htw, hk]
      have hrest := parseFields_exportPart proto rest [f0] [v0] hs tail (by simpa using hnd) rfl hpl hwf'
      simp only [List.singleton_append] at hrest
      have hw := Layout.widthOf_mid [] f0 rest (by simp)
      simp only [List.nil_append] at hw
      rw [exportByOrder_exportNames, exportPart_cons_exportable _ _ _ _ hex, List.append_assoc,
        List.drop_left' (by rw [toBE_length, hw, htw])]
      simpa [parseLayout, parseFields, hk] using hrest

/-- the first two exported bytes of a header are the version constant -/
theorem exportByOrder_hdr_take2 (ver : Nat) (lay : Layout) (hwf : lay.hdrWf ver = true) (h : List Nat)
    (hh : h.getD 0 0 = ver) :
    (exportByOrder lay lay.exportNames h).take 2 = toBE 2 ver := by
  cases lay with
  | nil => simp [Layout.hdrWf] at hwf
  | cons f0 rest =>
    simp only [Layout.hdrWf, Layout.namesNodup, Bool.and_eq_true, decide_eq_true_eq, beq_iff_eq] at hwf
    obtain ⟨⟨⟨hk, htw⟩, hpl⟩, hnd⟩ := hwf
    have hex : f0.exportable = true := by simp [LField.exportable, htw, hk]
    have hw := Layout.widthOf_mid [] f0 rest (by simp)
    have hi := Layout.indexOf_mid [] f0 rest (by simp)
    simp only [List.nil_append, List.length_nil] at hw hi
    rw [exportByOrder_exportNames, exportPart_cons_exportable _ _ _ _ hex, hw, htw, Layout.get, hi, hh,
      List.take_left' (toBE_length 2 ver)]


/-! ### `parseFixed` (V5/V7 after the version word): closed form -/

theorem parseFixed_inv (c : Config) (hdr rec : Layout) (i : Bytes) (h : List Nat) (rs : List (List Nat)) (r : Bytes)
    (hp : parseFixed c hdr rec i = some ((h, rs), r)) :
    parseLayout c.t.protoFromU8 hdr i = some (h, i.drop hdr.wireLen) ∧
    countP (parseLayout c.t.protoFromU8 rec) (hdr.get "count" h) (i.drop hdr.wireLen) = some (rs, r) := by
  unfold parseFixed at hp
  cases hh : parseLayout c.t.protoFromU8 hdr i with
  | none => simp [hh] at hp
  | some hr =>
    obtain ⟨h', r1⟩ := hr
    simp only [hh] at hp
    cases hc : countP (parseLayout c.t.protoFromU8 rec) (hdr.get "count" h') r1 with
    | none => simp [hc] at hp
    | some cr =>
      obtain ⟨rs', r2⟩ := cr
      simp only [hc, Option.some.injEq, Prod.mk.injEq] at hp
      obtain ⟨⟨e1, e2⟩, e3⟩ := hp
      subst e1 e2 e3
      obtain ⟨_, a2⟩ := parseLayout_consumes _ _ _ _ _ hh
      subst a2
      exact ⟨rfl, hc⟩

theorem parseFixed_of_parts (c : Config) (hdr rec : Layout) (i : Bytes) (h : List Nat) (r1 : Bytes)
    (rs : List (List Nat)) (r : Bytes)
    (hh : parseLayout c.t.protoFromU8 hdr i = some (h, r1))
    (hc : countP (parseLayout c.t.protoFromU8 rec) (hdr.get "count" h) r1 = some (rs, r)) :
    parseFixed c hdr rec i = some ((h, rs), r) := by
  simp [parseFixed, hh, hc]

theorem parseFixed_none_of_hdr_short (c : Config) (hdr rec : Layout) (i : Bytes) (hs : i.length < hdr.wireLen) :
    parseFixed c hdr rec i = none := by
  have := (parseLayout_none_iff c.t.protoFromU8 hdr i).mpr hs
  simp [parseFixed, this]

theorem parseFixed_none_of_recs_short (c : Config) (hdr rec : Layout) (i : Bytes) (h : List Nat) (r1 : Bytes)
    (hh : parseLayout c.t.protoFromU8 hdr i = some (h, r1))
    (hs : r1.length < rec.wireLen * hdr.get "count" h) :
    parseFixed c hdr rec i = none := by
  have := countP_none_of_short (parseLayout_consumes c.t.protoFromU8 rec) (hdr.get "count" h) r1 hs
  simp [parseFixed, hh, this]

/-! ### the Cisco view of a decoded V5/V7 packet (C03) -/

/-- `Preds.recsAtOffsets` with the protocol-NAME conjunct replaced by the model-level link
    `protocol_type = proto protocol_number` (what the crate's `ProtocolTypes::from(u8)` returns;
    whether that is the IANA name is a separate, finite question about the table) -/
def recsAtOffsetsNP (proto : Nat → Nat) (lay : Layout) (spec : List (String × Nat)) : Bytes → List (List Nat) → Bool
  | _, [] => true
  | bytes, r :: rs =>
    Preds.fieldsAtOffsets lay spec bytes r &&
    (lay.get "protocol_type" r == proto (lay.get "protocol_number" r) && decide (lay.get "protocol_number" r < 256)) &&
    r.length == lay.length &&
    recsAtOffsetsNP proto lay spec (bytes.drop (Spec.totalLen spec)) rs

/-- `Preds.fixedDecodes` with `recsAtOffsetsNP` for the records -/
def fixedDecodesNP (proto : Nat → Nat) (hdrLay recLay : Layout) (hdrSpec recSpec : List (String × Nat))
    (buf : Bytes) (h : List Nat) (rs : List (List Nat)) : Bool :=
  Preds.fieldsAtOffsets hdrLay hdrSpec buf h && h.length == hdrLay.length &&
  rs.length == hdrLay.get "count" h &&
  recsAtOffsetsNP proto recLay recSpec (buf.drop (Spec.totalLen hdrSpec)) rs

theorem recsAtOffsets_of_NP (names : List (Nat × String)) (proto : Nat → Nat) (lay : Layout) (spec : List (String × Nat)) :
    ∀ (rs : List (List Nat)) (bytes : Bytes), recsAtOffsetsNP proto lay spec bytes rs = true →
      (∀ r ∈ rs, Preds.protoIsIana names lay r = true) → Preds.recsAtOffsets names lay spec bytes rs = true := by
  intro rs
  induction rs with
  | nil => intro _ _ _; rfl
  | cons r rs ih =>
    intro bytes h hn
    simp only [recsAtOffsetsNP, Bool.and_eq_true] at h
    simp only [Preds.recsAtOffsets, Bool.and_eq_true]
    exact ⟨⟨⟨h.1.1.1, hn r List.mem_cons_self⟩, h.1.2⟩, ih _ h.2 (fun r' hr' => hn r' (List.mem_cons_of_mem _ hr'))⟩

theorem fixedDecodes_of_NP (names : List (Nat × String)) (proto : Nat → Nat) (hdrLay recLay : Layout)
    (hdrSpec recSpec : List (String × Nat)) (buf : Bytes) (h : List Nat) (rs : List (List Nat))
    (hd : fixedDecodesNP proto hdrLay recLay hdrSpec recSpec buf h rs = true)
    (hn : ∀ r ∈ rs, Preds.protoIsIana names recLay r = true) :
    Preds.fixedDecodes names hdrLay recLay hdrSpec recSpec buf h rs = true := by
  simp only [fixedDecodesNP, Bool.and_eq_true] at hd
  simp only [Preds.fixedDecodes, Bool.and_eq_true]
  exact ⟨hd.1, recsAtOffsets_of_NP names proto recLay recSpec rs _ hd.2 hn⟩

/-- record `k` of a list satisfying `recsAtOffsetsNP` sits at offset `totalLen spec * k` -/
theorem recsAtOffsetsNP_getElem (proto : Nat → Nat) (lay : Layout) (spec : List (String × Nat)) :
    ∀ (rs : List (List Nat)) (bytes : Bytes), recsAtOffsetsNP proto lay spec bytes rs = true →
      ∀ (k : Nat) (hk : k < rs.length),
        Preds.fieldsAtOffsets lay spec (bytes.drop (Spec.totalLen spec * k)) rs[k] = true ∧
        lay.get "protocol_type" rs[k] = proto (lay.get "protocol_number" rs[k]) ∧
        lay.get "protocol_number" rs[k] < 256 ∧ rs[k].length = lay.length := by
  intro rs
  induction rs with
  | nil => intro _ _ k hk; simp at hk
  | cons r rs ih =>
    intro bytes h k hk
    simp only [recsAtOffsetsNP, Bool.and_eq_true, beq_iff_eq, decide_eq_true_eq] at h
    cases k with
    | zero => simpa using ⟨h.1.1.1, h.1.1.2.1, h.1.1.2.2, h.1.2⟩
    | succ k =>
      have := ih _ h.2 k (by simpa using hk)
      rw [List.drop_drop] at this
      simpa [Nat.mul_succ, Nat.add_comm] using this

/-- decidable facts about one fixed-layout version that make the decoder Cisco-faithful -/
def fixedLayoutOk (ver : Nat) (hdr rec : Layout) (hdrSpec recSpec : List (String × Nat)) : Bool :=
  hdr.hdrWf ver && rec.recWf && (Spec.layoutWire hdr == hdrSpec) && (Spec.layoutWire rec == recSpec) &&
  rec.protoLinked && hdrSpec.contains ("count", 2) && (Spec.offsetOf hdrSpec "count" == 2)

theorem totalLen_layoutWire_hdr (ver : Nat) (lay : Layout) (hwf : lay.hdrWf ver = true) :
    Spec.totalLen (Spec.layoutWire lay) = 2 + lay.wireLen := by
  cases lay with
  | nil => simp [Layout.hdrWf] at hwf
  | cons f0 rest =>
    simp only [Layout.hdrWf, Bool.and_eq_true, beq_iff_eq] at hwf
    obtain ⟨⟨⟨hk, htw⟩, hpl⟩, _⟩ := hwf
    have := totalLen_layoutWire rest hpl
    rw [layoutWire_cons_const rest hk, Layout.wireLen_cons, hk, htw]
    simp only [Spec.totalLen, List.map_cons, List.sum_cons, FKind.width] at *
    omega

theorem countP_recsAtOffsetsNP (proto : Nat → Nat) (rec : Layout) (hwf : rec.recWf = true)
    (hl : rec.protoLinked = true) (k : Nat) (i : Bytes) (rs : List (List Nat)) (r : Bytes)
    (hc : countP (parseLayout proto rec) k i = some (rs, r)) :
    recsAtOffsetsNP proto rec (Spec.layoutWire rec) i rs = true := by
  have hpl : rec.all LField.plain = true := by
    simp only [Layout.recWf, Bool.and_eq_true] at hwf; exact hwf.1
  refine countP_rec (parseLayout_consumes proto rec)
    (fun b as => recsAtOffsetsNP proto rec (Spec.layoutWire rec) b as = true) (fun _ => rfl) ?_ k i rs r hc
  intro b a r1 as hp ih
  obtain ⟨l1, l2⟩ := parseLayout_protoLinked proto rec hl b a r1 hp
  simp only [recsAtOffsetsNP, Bool.and_eq_true, beq_iff_eq, decide_eq_true_eq]
  rw [totalLen_layoutWire rec hpl]
  exact ⟨⟨⟨parseLayout_rec_fieldsAt proto rec hwf b a r1 hp, l1, l2⟩, parseLayout_length proto rec b a r1 hp⟩, ih⟩

/-- the decoded `count` is the 16-bit word after the version -/
theorem fieldsAt_count (hdr : Layout) (hdrSpec : List (String × Nat)) (buf : Bytes) (h : List Nat)
    (hf : Preds.fieldsAtOffsets hdr hdrSpec buf h = true) (hm : hdrSpec.contains ("count", 2) = true)
    (ho : Spec.offsetOf hdrSpec "count" = 2) :
    hdr.get "count" h = beNat ((buf.drop 2).take 2) := by
  simp only [Preds.fieldsAtOffsets, List.all_eq_true, beq_iff_eq] at hf
  have := hf ("count", 2) (by simpa using hm)
  simpa [ho] using this

/-- **closed form of `parseFixed`, complete packet**: with `need = |hdrSpec| + |recSpec| * count`
    bytes present, the parse succeeds, consumes exactly `need` bytes (2 of them by the dispatcher)
    and the result is the Cisco decoding -/
theorem fixed_decode (c : Config) (ver : Nat) (hdr rec : Layout) (hdrSpec recSpec : List (String × Nat))
    (hok : fixedLayoutOk ver hdr rec hdrSpec recSpec = true) (buf : Bytes)
    (hv : beNat (buf.take 2) = ver)
    (hlen : Spec.totalLen hdrSpec + Spec.totalLen recSpec * beNat ((buf.drop 2).take 2) ≤ buf.length) :
    ∃ h rs, parseFixed c hdr rec (buf.drop 2) =
        some ((h, rs), buf.drop (Spec.totalLen hdrSpec + Spec.totalLen recSpec * beNat ((buf.drop 2).take 2))) ∧
      rs.length = beNat ((buf.drop 2).take 2) ∧
      fixedDecodesNP c.t.protoFromU8 hdr rec hdrSpec recSpec buf h rs = true := by
  simp only [fixedLayoutOk, Bool.and_eq_true, beq_iff_eq] at hok
  obtain ⟨⟨⟨⟨⟨⟨hhw, hrw⟩, hhs⟩, hrs⟩, hlk⟩, hcm⟩, hco⟩ := hok
  have hpl : rec.all LField.plain = true := by
    simp only [Layout.recWf, Bool.and_eq_true] at hrw; exact hrw.1
  have hth := totalLen_layoutWire_hdr ver hdr hhw
  have htr := totalLen_layoutWire rec hpl
  rw [hhs] at hth
  rw [hrs] at htr
  rw [hth, htr] at hlen ⊢
  obtain ⟨h, hh⟩ := parseLayout_isSome c.t.protoFromU8 hdr (buf.drop 2) (by rw [List.length_drop]; omega)
  have hfa := parseLayout_hdr_fieldsAt c.t.protoFromU8 ver hdr hhw buf h _ hv hh
  rw [hhs] at hfa
  have hcount := fieldsAt_count hdr hdrSpec buf h hfa hcm hco
  obtain ⟨rs, hc⟩ := countP_isSome (parseLayout_isSome c.t.protoFromU8 rec) (hdr.get "count" h)
    ((buf.drop 2).drop hdr.wireLen) (by rw [hcount, List.length_drop, List.length_drop]; omega)
  have hlenrs := (countP_consumes (parseLayout_consumes c.t.protoFromU8 rec) _ _ _ _ hc).2.2
  have hnp := countP_recsAtOffsetsNP c.t.protoFromU8 rec hrw hlk _ _ _ _ hc
  rw [hrs, List.drop_drop] at hnp
  refine ⟨h, rs, ?_, by rw [hlenrs, hcount], ?_⟩
  · rw [parseFixed_of_parts c hdr rec _ h _ rs _ hh hc, hcount, List.drop_drop, List.drop_drop, Nat.add_assoc]
  · simp only [fixedDecodesNP, Bool.and_eq_true, beq_iff_eq]
    exact ⟨⟨⟨hfa, parseLayout_length _ _ _ _ _ hh⟩, hlenrs⟩, by rw [hth]; exact hnp⟩

/-- **closed form of `parseFixed`, truncated packet**: fewer bytes than the header, or than the
    header announces, is a failure — never a packet with fewer records -/
theorem fixed_short (c : Config) (ver : Nat) (hdr rec : Layout) (hdrSpec recSpec : List (String × Nat))
    (hok : fixedLayoutOk ver hdr rec hdrSpec recSpec = true) (buf : Bytes)
    (h2 : 2 ≤ buf.length) (hv : beNat (buf.take 2) = ver)
    (hshort : buf.length < Spec.totalLen hdrSpec ∨
      buf.length < Spec.totalLen hdrSpec + Spec.totalLen recSpec * beNat ((buf.drop 2).take 2)) :
    parseFixed c hdr rec (buf.drop 2) = none := by
  simp only [fixedLayoutOk, Bool.and_eq_true, beq_iff_eq] at hok
  obtain ⟨⟨⟨⟨⟨⟨hhw, hrw⟩, hhs⟩, hrs⟩, hlk⟩, hcm⟩, hco⟩ := hok
  have hpl : rec.all LField.plain = true := by
    simp only [Layout.recWf, Bool.and_eq_true] at hrw; exact hrw.1
  have hth := totalLen_layoutWire_hdr ver hdr hhw
  have htr := totalLen_layoutWire rec hpl
  rw [hhs] at hth
  rw [hrs] at htr
  rw [hth, htr] at hshort
  by_cases hl : hdr.wireLen ≤ (buf.drop 2).length
  · obtain ⟨h, hh⟩ := parseLayout_isSome c.t.protoFromU8 hdr (buf.drop 2) hl
    have hfa := parseLayout_hdr_fieldsAt c.t.protoFromU8 ver hdr hhw buf h _ hv hh
    rw [hhs] at hfa
    have hcount := fieldsAt_count hdr hdrSpec buf h hfa hcm hco
    rw [List.length_drop] at hl
    refine parseFixed_none_of_recs_short c hdr rec _ h _ hh ?_
    rw [hcount, List.length_drop, List.length_drop]
    omega
  · exact parseFixed_none_of_hdr_short c hdr rec _ (by omega)


/-! ### `exportFixed` and `parseFixed` are mutually inverse (C08) -/

/-- export ∘ parse for the record list -/
theorem export_countP (proto : Nat → Nat) (rec : Layout) (hwf : rec.recWf = true) (k : Nat) (i : Bytes)
    (rs : List (List Nat)) (r : Bytes) (hc : countP (parseLayout proto rec) k i = some (rs, r)) :
    rs.flatMap (exportByOrder rec rec.exportNames) = i.take (rec.wireLen * rs.length) := by
  refine countP_rec (parseLayout_consumes proto rec)
    (fun b as => as.flatMap (exportByOrder rec rec.exportNames) = b.take (rec.wireLen * as.length))
    (fun _ => by simp) ?_ k i rs r hc
  intro b a r1 as hp ih
  rw [List.flatMap_cons, ih, export_parseLayout_rec proto rec hwf b a r1 hp, List.length_cons, Nat.mul_succ,
    Nat.add_comm (rec.wireLen * as.length), List.take_add]

/-- **export ∘ parse**: a decoded V5/V7 packet re-exports exactly the bytes it occupied
    (the two version bytes included) -/
theorem fixed_reexport (c : Config) (ver : Nat) (hdr rec : Layout) (hhw : hdr.hdrWf ver = true)
    (hrw : rec.recWf = true) (buf : Bytes) (hl2 : 2 ≤ buf.length) (hv : beNat (buf.take 2) = ver)
    (h : List Nat) (rs : List (List Nat)) (rest : Bytes)
    (hp : parseFixed c hdr rec (buf.drop 2) = some ((h, rs), rest)) :
    exportFixed hdr rec hdr.exportNames rec.exportNames h rs = buf.take (buf.length - rest.length) := by
  obtain ⟨hh, hc⟩ := parseFixed_inv c hdr rec _ h rs rest hp
  obtain ⟨a1, a2, a3⟩ := parseFixed_consumes c hdr rec _ h rs rest hp
  rw [List.length_drop] at a1
  have e1 := export_parseLayout_hdr c.t.protoFromU8 ver hdr hhw buf h _ hl2 hv hh
  have e2 := export_countP c.t.protoFromU8 rec hrw _ _ rs rest hc
  rw [List.drop_drop] at e2
  have hlen : buf.length - rest.length = 2 + hdr.wireLen + rec.wireLen * rs.length := by
    rw [a2, a3, List.length_drop, List.length_drop]; omega
  rw [exportFixed, e1, e2, hlen, ← List.take_add]

/-- decidable well-formedness of a V5/V7 structure w.r.t. its layouts: every header and record
    value list fits the layout (`wfFields`) and the header's `count` is the number of records -/
def fixedValsWf (proto : Nat → Nat) (hdr rec : Layout) (h : List Nat) (rs : List (List Nat)) : Bool :=
  wfFields proto hdr [] h && rs.all (wfFields proto rec []) && (hdr.get "count" h == rs.length)

/-- parse ∘ export for the record list -/
theorem countP_export (proto : Nat → Nat) (rec : Layout) (hwf : rec.recWf = true) (tail : Bytes) :
    ∀ (rs : List (List Nat)), rs.all (wfFields proto rec []) = true →
      countP (parseLayout proto rec) rs.length (rs.flatMap (exportByOrder rec rec.exportNames) ++ tail) = some (rs, tail) := by
  intro rs
  induction rs with
  | nil => intro _; simp [countP]
  | cons r rs ih =>
    intro h
    simp only [List.all_cons, Bool.and_eq_true] at h
    simp only [List.length_cons, countP, List.flatMap_cons, List.append_assoc]
    rw [parseLayout_export_rec proto rec hwf r h.1]
    simp only [ih h.2]

/-- **parse ∘ export**: the exported bytes of a well-formed structure, after the dispatcher took the
    two version bytes, decode to exactly that structure with nothing left over -/
theorem fixed_parse_export (c : Config) (ver : Nat) (hdr rec : Layout) (hhw : hdr.hdrWf ver = true)
    (hrw : rec.recWf = true) (h : List Nat) (rs : List (List Nat))
    (hwf : fixedValsWf c.t.protoFromU8 hdr rec h rs = true) :
    parseFixed c hdr rec ((exportFixed hdr rec hdr.exportNames rec.exportNames h rs).drop 2) = some ((h, rs), []) := by
  simp only [fixedValsWf, Bool.and_eq_true, beq_iff_eq] at hwf
  obtain ⟨⟨hh, hr⟩, hc⟩ := hwf
  have e1 := parseLayout_export_hdr c.t.protoFromU8 ver hdr hhw h hh
    (rs.flatMap (exportByOrder rec rec.exportNames))
  have e2 := countP_export c.t.protoFromU8 rec hrw [] rs hr
  rw [List.append_nil, ← hc] at e2
  exact parseFixed_of_parts c hdr rec _ h _ rs [] e1 e2

/-- the exported bytes start with the version word -/
theorem exportFixed_take2 (ver : Nat) (hdr rec : Layout) (hhw : hdr.hdrWf ver = true)
    (h : List Nat) (rs : List (List Nat)) (hh : h.getD 0 0 = ver) :
    (exportFixed hdr rec hdr.exportNames rec.exportNames h rs).take 2 = toBE 2 ver := by
  have := exportByOrder_hdr_take2 ver hdr hhw h hh
  have hl : 2 ≤ (exportByOrder hdr hdr.exportNames h).length := by
    have := congrArg List.length this
    rw [List.length_take, toBE_length] at this
    omega
  rw [exportFixed, List.take_append_of_le_length hl, this]

theorem wfFields_hdr_head (proto : Nat → Nat) (ver : Nat) (hdr : Layout) (hhw : hdr.hdrWf ver = true)
    (h : List Nat) (hh : wfFields proto hdr [] h = true) : h.getD 0 0 = ver := by
  cases hdr with
  | nil => simp [Layout.hdrWf] at hhw
  | cons f0 rest =>
    simp only [Layout.hdrWf, Bool.and_eq_true, beq_iff_eq] at hhw
    cases h with
    | nil => simp [wfFields] at hh
    | cons v hs =>
      simp only [wfFields, hhw.1.1.1, Bool.and_eq_true, beq_iff_eq] at hh
      simpa using hh.1

/-! ### the bundle of decidable facts about generated tables used by C03 / C08 -/

/-- V5 and V7 layouts are Cisco's, well formed, and the protocol name is computed from the number -/
def Tables.ciscoOk (t : Tables) : Bool :=
  fixedLayoutOk 5 t.v5Hdr t.v5Rec Spec.ciscoV5Hdr Spec.ciscoV5Rec &&
  fixedLayoutOk 7 t.v7Hdr t.v7Rec Spec.ciscoV7Hdr Spec.ciscoV7Rec

/-- the hand-written exporters emit exactly the byte-carrying fields in wire order, and every
    `match version` arm dispatches to the parser of that version -/
def Tables.exportOk (t : Tables) : Bool :=
  t.v5Hdr.hdrWf 5 && t.v5Rec.recWf && t.v7Hdr.hdrWf 7 && t.v7Rec.recWf &&
  (t.v5HdrOrder == t.v5Hdr.exportNames) && (t.v5RecOrder == t.v5Rec.exportNames) &&
  (t.v7HdrOrder == t.v7Hdr.exportNames) && (t.v7RecOrder == t.v7Rec.exportNames) &&
  t.dispatch.all (fun p => p.1 == p.2)


/-! ### which dispatcher arm can return a V5 / V7 packet -/

theorem parseV9_ok_is_v9 (c : Config) (st st' : PState) (i : Bytes) (p : Packet) (r : Bytes)
    (h : parseV9 c st i = (st', .ok (p, r))) : ∃ hd ss, p = .v9 hd ss := by
  unfold parseV9 at h
  cases hh : parseLayout c.t.protoFromU8 c.t.v9Hdr i with
  | none => simp [hh] at h
  | some hr =>
    obtain ⟨hd, r1⟩ := hr
    simp only [hh] at h
    cases hs : v9ParseSets c (c.t.v9Hdr.get "count" hd) st r1 with
    | mk st1 res =>
      cases res with
      | ok ssr =>
        simp only [hs, Prod.mk.injEq, Res.ok.injEq] at h
        exact ⟨hd, ssr.1, h.2.1.symm⟩
      | err => simp [hs] at h
      | panic => simp [hs] at h
      | overflow => simp [hs] at h

theorem parseIpfix_ok_is_ipfix (c : Config) (st st' : PState) (i : Bytes) (p : Packet) (r : Bytes)
    (h : parseIpfix c st i = (st', .ok (p, r))) : ∃ hd ss, p = .ipfix hd ss := by
  unfold parseIpfix at h
  cases hh : parseLayout c.t.protoFromU8 c.t.ipHdr i with
  | none => simp [hh] at h
  | some hr =>
    obtain ⟨hd, r1⟩ := hr
    simp only [hh] at h
    cases ht : takeN (c.t.ipHdr.get "length" hd - 16) r1 with
    | none => simp [ht] at h
    | some br =>
      obtain ⟨body, r2⟩ := br
      simp only [ht] at h
      cases hs : ipParseSets c (body.length + 1) st body with
      | mk st1 res =>
        cases res with
        | ok ss =>
          simp only [hs, Prod.mk.injEq, Res.ok.injEq] at h
          exact ⟨hd, ss, h.2.1.symm⟩
        | err => simp [hs] at h
        | panic => simp [hs] at h
        | overflow => simp [hs] at h

/-- the version-specific step returned `pkt`: which arm ran -/
theorem parseVersioned_ok_inv_a1 (c : Config) (st st' : PState) (kind : Nat) (body : Bytes) (pkt : Packet) (rest : Bytes)
    (hp : parseVersioned c st kind body = (st', .ok pkt rest)) :
    (kind = 5 ∧ st' = st ∧ ∃ h rs, pkt = .v5 h rs ∧ parseFixed c c.t.v5Hdr c.t.v5Rec body = some ((h, rs), rest)) ∨
    (kind = 7 ∧ st' = st ∧ ∃ h rs, pkt = .v7 h rs ∧ parseFixed c c.t.v7Hdr c.t.v7Rec body = some ((h, rs), rest)) ∨
    (∃ h ss, pkt = .v9 h ss) ∨ (∃ h ss, pkt = .ipfix h ss) := by
  unfold parseVersioned at hp
  split at hp
  · rename_i hk
    cases hpf : parseFixed c c.t.v5Hdr c.t.v5Rec body with
    | none => simp [hpf] at hp
    | some x =>
      obtain ⟨⟨h', rs'⟩, r'⟩ := x
      simp only [hpf, Prod.mk.injEq, Step.ok.injEq] at hp
      obtain ⟨e0, e1, e2⟩ := hp
      subst e2
      exact Or.inl ⟨hk, e0.symm, h', rs', e1.symm, rfl⟩
  · split at hp
    · rename_i hk
      cases hpf : parseFixed c c.t.v7Hdr c.t.v7Rec body with
      | none => simp [hpf] at hp
      | some x =>
        obtain ⟨⟨h', rs'⟩, r'⟩ := x
        simp only [hpf, Prod.mk.injEq, Step.ok.injEq] at hp
        obtain ⟨e0, e1, e2⟩ := hp
        subst e2
        exact Or.inr (Or.inl ⟨hk, e0.symm, h', rs', e1.symm, rfl⟩)
    · split at hp
      · cases hp9 : parseV9 c st body with
        | mk st1 res =>
          cases res with
          | ok pr =>
            obtain ⟨p, r⟩ := pr
            simp only [hp9, liftRes, Prod.mk.injEq, Step.ok.injEq] at hp
            obtain ⟨hd, ss, e⟩ := parseV9_ok_is_v9 c _ _ _ _ _ hp9
            exact Or.inr (Or.inr (Or.inl ⟨hd, ss, by rw [← hp.2.1, e]⟩))
          | err => simp [hp9, liftRes] at hp
          | panic => simp [hp9, liftRes] at hp
          | overflow => simp [hp9, liftRes] at hp
      · split at hp
        · cases hpi : parseIpfix c st body with
          | mk st1 res =>
            cases res with
            | ok pr =>
              obtain ⟨p, r⟩ := pr
              simp only [hpi, liftRes, Prod.mk.injEq, Step.ok.injEq] at hp
              obtain ⟨hd, ss, e⟩ := parseIpfix_ok_is_ipfix c _ _ _ _ _ hpi
              exact Or.inr (Or.inr (Or.inr ⟨hd, ss, by rw [← hp.2.1, e]⟩))
            | err => simp [hpi, liftRes] at hp
            | panic => simp [hpi, liftRes] at hp
            | overflow => simp [hpi, liftRes] at hp
        · simp at hp

/-- `parse_packet_by_version` returned a packet: the version word, the arm, the body -/
theorem parsePacket_ok_inv (c : Config) (st st' : PState) (buf : Bytes) (pkt : Packet) (rest : Bytes)
    (hp : parsePacket c st buf = (st', .ok pkt rest)) :
    ∃ v kind, beU 2 buf = some (v, buf.drop 2) ∧ c.allowed.contains v = true ∧ c.t.dispatch.lookup v = some kind ∧
      parseVersioned c st kind (buf.drop 2) = (st', .ok pkt rest) := by
  rcases parsePacket_inv c st st' buf _ hp with ⟨_, _, hs⟩ | ⟨_, _, _, _, hs⟩ | ⟨_, _, _, _, _, hs⟩ | h
  · simp at hs
  · simp at hs
  · simp at hs
  · exact h


/-! ### everything the parser returns is well-formed (`wfFields`, `fixedValsWf`) -/

theorem wfFields_of_parseFields (proto : Nat → Nat) :
    ∀ (lay : Layout) (acc : List Nat) (i : Bytes) (vals : List Nat) (r : Bytes),
      parseFields proto lay acc i = some (vals, r) → wfFields proto lay acc (vals.drop acc.length) = true := by
  intro lay
  induction lay with
  | nil =>
    intro acc i vals r h
    simp [parseFields] at h
    simp [← h.1, wfFields]
  | cons f fs ih =>
    intro acc i vals r h
    have key : ∀ (x : Nat) (i' : Bytes), parseFields proto fs (acc ++ [x]) i' = some (vals, r) →
        (match f.kind with
         | .wire w => decide (x < 256 ^ w)
         | .const c => x == c
         | .protoOf s => x == proto (acc.getD s 0)) = true →
        wfFields proto (f :: fs) acc (vals.drop acc.length) = true := by
      intro x i' ht hx
      obtain ⟨d, hd, _⟩ := parseFields_prefix proto _ _ _ _ _ ht
      have h1 := ih _ _ _ _ ht
      have e1 : vals.drop acc.length = x :: d := by
        rw [hd, List.append_assoc, List.drop_left' rfl]; rfl
      have e2 : vals.drop (acc ++ [x]).length = d := by
        rw [hd, List.drop_left' rfl]
      rw [e2] at h1
      rw [e1]
      simp only [wfFields, Bool.and_eq_true]
      exact ⟨hx, h1⟩
    unfold parseFields at h
    cases hk : f.kind with
    | wire w =>
      simp only [hk] at h
      cases hb : beU w i with
      | none => simp [hb] at h
      | some vr =>
        obtain ⟨v, r1⟩ := vr
        simp only [hb] at h
        obtain ⟨hwl, hv, _⟩ := beU_some hb
        refine key v r1 h ?_
        simp only [hk, decide_eq_true_eq]
        have := beNat_lt_a1 (i.take w)
        rw [List.length_take, Nat.min_eq_left hwl] at this
        rw [hv]; exact this
    | const v =>
      simp only [hk] at h
      exact key v i h (by simp [hk])
    | protoOf s =>
      simp only [hk] at h
      exact key _ i h (by simp [hk])

theorem wfFields_of_parseLayout (proto : Nat → Nat) (lay : Layout) (i : Bytes) (vals : List Nat) (r : Bytes)
    (h : parseLayout proto lay i = some (vals, r)) : wfFields proto lay [] vals = true := by
  simpa using wfFields_of_parseFields proto lay [] i vals r h

/-- every structure `parseFixed` returns satisfies `fixedValsWf` -/
theorem fixedValsWf_of_parseFixed (c : Config) (hdr rec : Layout) (i : Bytes) (h : List Nat) (rs : List (List Nat))
    (r : Bytes) (hp : parseFixed c hdr rec i = some ((h, rs), r)) :
    fixedValsWf c.t.protoFromU8 hdr rec h rs = true := by
  obtain ⟨hh, hc⟩ := parseFixed_inv c hdr rec i h rs r hp
  obtain ⟨_, _, a3⟩ := parseFixed_consumes c hdr rec i h rs r hp
  simp only [fixedValsWf, Bool.and_eq_true, beq_iff_eq]
  refine ⟨⟨wfFields_of_parseLayout _ _ _ _ _ hh, ?_⟩, a3.symm⟩
  refine countP_rec (parseLayout_consumes c.t.protoFromU8 rec)
    (fun _ as => as.all (wfFields c.t.protoFromU8 rec []) = true) (fun _ => rfl) ?_ _ _ rs r hc
  intro b a r1 as hpa ih
  simp only [List.all_cons, Bool.and_eq_true]
  exact ⟨wfFields_of_parseLayout _ _ _ _ _ hpa, ih⟩

end Netflow

namespace Netflow
open Preds

/-! ### unfolding the oracle predicate `c03ok` (used by Props/C03 for the whole-run theorem) -/

/-- every V5/V7 record of the result carries the IANA name of its protocol number (decidable on
    the output; by `C03_protoName_iana_partial` it can only fail for numbers 0, 1, 144, 255) -/
def protoNamesOkPkts (c : Config) (names : List (Nat × String)) (pkts : List Packet) : Bool :=
  pkts.all fun p =>
    match p with
    | .v5 _ rs => rs.all (protoIsIana names c.t.v5Rec)
    | .v7 _ rs => rs.all (protoIsIana names c.t.v7Rec)
    | _ => true

theorem c03ok_of_no_version (c : Config) (names : List (Nat × String)) (n : Nat) (buf : Bytes) (pkts : List Packet)
    (hv : versionOf buf = none) : c03ok c names n buf pkts = true := by
  cases n with
  | zero => rfl
  | succ n => simp only [c03ok, hv]

theorem c03ok_v5_complete (c : Config) (names : List (Nat × String)) (n : Nat) (buf : Bytes) (h : List Nat)
    (rs : List (List Nat)) (ps : List Packet) (hv : versionOf buf = some 5) (ha : c.allowed.contains 5 = true)
    (hlen : 24 + 48 * beNat ((buf.drop 2).take 2) ≤ buf.length) :
    c03ok c names (n + 1) buf (.v5 h rs :: ps) =
      (fixedDecodes names c.t.v5Hdr c.t.v5Rec Spec.ciscoV5Hdr Spec.ciscoV5Rec buf h rs &&
        c03ok c names n (buf.drop (24 + 48 * beNat ((buf.drop 2).take 2))) ps) := by
  have h24 : Spec.totalLen Spec.ciscoV5Hdr = 24 := by decide
  have h48 : Spec.totalLen Spec.ciscoV5Rec = 48 := by decide
  have hn : ¬ (buf.length < 24 ∨ buf.length < 24 + 48 * beNat ((buf.drop 2).take 2)) := by omega
  simp only [c03ok, hv, ha, h24, h48, hn]
  simp

theorem c03ok_v5_short (c : Config) (names : List (Nat × String)) (n : Nat) (buf : Bytes) (e : ErrKind) (r : Bytes)
    (hv : versionOf buf = some 5) (ha : c.allowed.contains 5 = true)
    (hs : buf.length < 24 ∨ buf.length < 24 + 48 * beNat ((buf.drop 2).take 2)) :
    c03ok c names (n + 1) buf [.error e r] = true := by
  have h24 : Spec.totalLen Spec.ciscoV5Hdr = 24 := by decide
  have h48 : Spec.totalLen Spec.ciscoV5Rec = 48 := by decide
  simp only [c03ok, hv, ha, h24, h48, hs]
  simp

theorem c03ok_v7_complete (c : Config) (names : List (Nat × String)) (n : Nat) (buf : Bytes) (h : List Nat)
    (rs : List (List Nat)) (ps : List Packet) (hv : versionOf buf = some 7) (ha : c.allowed.contains 7 = true)
    (hlen : 24 + 52 * beNat ((buf.drop 2).take 2) ≤ buf.length) :
    c03ok c names (n + 1) buf (.v7 h rs :: ps) =
      (fixedDecodes names c.t.v7Hdr c.t.v7Rec Spec.ciscoV7Hdr Spec.ciscoV7Rec buf h rs &&
        c03ok c names n (buf.drop (24 + 52 * beNat ((buf.drop 2).take 2))) ps) := by
  have h24 : Spec.totalLen Spec.ciscoV7Hdr = 24 := by decide
  have h52 : Spec.totalLen Spec.ciscoV7Rec = 52 := by decide
  have hn : ¬ (buf.length < 24 ∨ buf.length < 24 + 52 * beNat ((buf.drop 2).take 2)) := by omega
  simp only [c03ok, hv, ha, h24, h52, hn]
  simp

theorem c03ok_v7_short (c : Config) (names : List (Nat × String)) (n : Nat) (buf : Bytes) (e : ErrKind) (r : Bytes)
    (hv : versionOf buf = some 7) (ha : c.allowed.contains 7 = true)
    (hs : buf.length < 24 ∨ buf.length < 24 + 52 * beNat ((buf.drop 2).take 2)) :
    c03ok c names (n + 1) buf [.error e r] = true := by
  have h24 : Spec.totalLen Spec.ciscoV7Hdr = 24 := by decide
  have h52 : Spec.totalLen Spec.ciscoV7Rec = 52 := by decide
  simp only [c03ok, hv, ha, h24, h52, hs]
  simp

theorem c03ok_other (c : Config) (names : List (Nat × String)) (n : Nat) (buf : Bytes) (v : Nat) (pkts : List Packet)
    (hv : versionOf buf = some v) (ha : c.allowed.contains v = true) (h5 : v ≠ 5) (h7 : v ≠ 7) :
    c03ok c names (n + 1) buf pkts =
      (match pkts with
       | p :: ps =>
         (match wireLen c p with
          | some m => if m = 0 then true else c03ok c names n (buf.drop m) ps
          | none => true)
       | [] => true) := by
  cases pkts with
  | nil => simp [c03ok, hv, h5, h7]
  | cons p ps =>
    simp only [c03ok, hv, ha, h5, h7]
    cases wireLen c p <;> simp


theorem protoNamesOkPkts_cons (c : Config) (names : List (Nat × String)) (p : Packet) (ps : List Packet)
    (h : protoNamesOkPkts c names (p :: ps) = true) :
    protoNamesOkPkts c names [p] = true ∧ protoNamesOkPkts c names ps = true := by
  simp only [protoNamesOkPkts, List.all_cons, Bool.and_eq_true, List.all_nil] at h ⊢
  exact ⟨⟨h.1, trivial⟩, h.2⟩

end Netflow
