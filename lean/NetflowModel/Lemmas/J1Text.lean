/-
  Lemmas/J1Text.lean — helper lemmas for C16 at the TEXT level (JsonText.lean): the compact writer `printTree`
  followed by the RFC 8259 reader `parseJ` is the identity on well-formed trees.

  1. strings: `parseStrBody (s.flatMap escChar ++ '"' :: rest) acc = some (acc.reverse ++ s, rest)`;
  2. numbers: `parseNum` restated through its stages (`parseNum_eq`, by `rfl`), `parseNum_append` (a parsed literal
     is parsed the same in front of any continuation that cannot extend it: `noExt`), integer literals are valid;
  3. `parseVal` dispatch lemmas, one per first character;
  4. well-formed trees `WfTree`, fuel need `need`, the mutual round-trip theorem `parseVal_print`/`parseElems_print`/
     `parseMembers_print`, fuel bound `need_le`, and `parseJ_print`;
  5. integer literals `intLit z` are valid number literals (`numOk_intLit`), `intLit` is injective;
  6. `treeOf` (the tree a `JVal` denotes), `Leaves` (a predicate on the float and string leaves of a value),
     `jmatchT_treeOf` (the matcher accepts the tree of a value), `WfTree_treeOf`;
  7. the matcher is ordered (`goObj_keys`, `goArr_length`, `goObj_get`, `goArr_get`) and injective on values without
     floats and wildcards (`jmatchT_inj`);
  8. `ValidUtf8` (core's `ByteArray.IsValidUTF8`), the decoder `decUtf8` (core's `utf8Decode?`), `utf8Of_decUtf8`.
-/
import NetflowModel.JsonText
open Netflow Netflow.JText
namespace Netflow.J1

/-! ### strings -/

theorem parseStrBody_plain (c : Char) (r acc : List Char) (h1 : c ≠ '"') (h2 : c ≠ '\\') (h3 : ¬ c.toNat < 0x20) :
    parseStrBody (c :: r) acc = parseStrBody r (c :: acc) := by
  rw [parseStrBody]
  · simp only [h3, ↓reduceIte]
  all_goals (intros; first | exact h1 ‹_› | exact h2 ‹_›)

theorem hex4_low : ∀ n, n < 32 → hex4 '0' '0' (hexDigitLower (n / 16)) (hexDigitLower (n % 16)) = some n := by
  decide

theorem parseStrBody_u00 (n : Nat) (hn : n < 32) (r acc : List Char) :
    parseStrBody ('\\' :: 'u' :: '0' :: '0' :: hexDigitLower (n / 16) :: hexDigitLower (n % 16) :: r) acc =
      parseStrBody r (Char.ofNat n :: acc) := by
  rw [parseStrBody, hex4_low n hn]
  have h1 : ¬ (0xD800 ≤ n ∧ n ≤ 0xDBFF) := by omega
  have h2 : ¬ (0xDC00 ≤ n ∧ n ≤ 0xDFFF) := by omega
  simp only [h1, h2, ↓reduceIte]

theorem parseStrBody_esc (c : Char) (r acc : List Char) :
    parseStrBody (escChar c ++ r) acc = parseStrBody r (c :: acc) := by
  unfold escChar
  split
  · next h => subst h; rfl
  split
  · next h => subst h; rfl
  split
  · next h => subst h; rfl
  split
  · next h => subst h; rfl
  split
  · next h => subst h; rfl
  split
  · next h =>
    have : c = Char.ofNat 8 := by rw [← h, Char.ofNat_toNat]
    rw [this]; rfl
  split
  · next h =>
    have : c = Char.ofNat 12 := by rw [← h, Char.ofNat_toNat]
    rw [this]; rfl
  split
  · next h =>
    have := parseStrBody_u00 c.toNat h r acc
    rw [Char.ofNat_toNat] at this
    exact this
  · next h1 h2 _ _ _ _ _ h3 => exact parseStrBody_plain c r acc h1 h2 h3

theorem parseStrBody_print (s : List Char) : ∀ (rest acc : List Char),
    parseStrBody (s.flatMap escChar ++ '"' :: rest) acc = some (acc.reverse ++ s, rest) := by
  induction s with
  | nil => intro rest acc; simp [parseStrBody]
  | cons c s ih =>
    intro rest acc
    rw [List.flatMap_cons, List.append_assoc, parseStrBody_esc, ih]
    simp

/-! ### numbers -/

/-- the continuation cannot extend a number literal -/
def noExt : List Char → Bool
  | [] => true
  | c :: _ => !(isDigit c || c == '.' || c == 'e' || c == 'E')

def stripSign : List Char → List Char × List Char
  | '-' :: r => (['-'], r)
  | r => ([], r)

def fracOf : List Char → Option (List Char × List Char)
  | '.' :: r =>
    let (fs, r') := spanDigits r
    if fs.isEmpty then none else some ('.' :: fs, r')
  | r => some ([], r)

def expSign : List Char → List Char × List Char
  | '+' :: r' => (['+'], r')
  | '-' :: r' => (['-'], r')
  | r' => ([], r')

def expOf : List Char → Option (List Char × List Char)
  | e :: r =>
    if e == 'e' || e == 'E' then
      let (sg, r') := expSign r
      let (es, r'') := spanDigits r'
      if es.isEmpty then none else some (e :: sg ++ es, r'')
    else some ([], e :: r)
  | [] => some ([], [])

theorem parseNum_eq (cs : List Char) : parseNum cs =
    match stripSign cs with
    | (sign, r0) =>
      match spanDigits r0 with
      | (ds, r1) =>
        if ds.isEmpty then none
        else if ds.length > 1 ∧ ds.head? = some '0' then none
        else
          match fracOf r1 with
          | none => none
          | some (fr, r2) =>
            match expOf r2 with
            | none => none
            | some (ex, r3) => some (sign ++ ds ++ fr ++ ex, r3) := by
  rfl

theorem noExt_cons {c : Char} {r : List Char} (h : noExt (c :: r) = true) :
    isDigit c = false ∧ c ≠ '.' ∧ c ≠ 'e' ∧ c ≠ 'E' := by
  simp only [noExt, Bool.not_eq_true', Bool.or_eq_false_iff, beq_eq_false_iff_ne] at h
  exact ⟨h.1.1.1, h.1.1.2, h.1.2, h.2⟩

theorem spanDigits_nodigit (rest : List Char) (h : noExt rest = true) : spanDigits rest = ([], rest) := by
  cases rest with
  | nil => rfl
  | cons c r =>
    have := (noExt_cons h).1
    simp only [spanDigits, this, Bool.false_eq_true, ↓reduceIte]

theorem spanDigits_append (rest : List Char) (h : noExt rest = true) : ∀ cs : List Char,
    spanDigits (cs ++ rest) = ((spanDigits cs).1, (spanDigits cs).2 ++ rest) := by
  intro cs
  induction cs with
  | nil => simp only [List.nil_append, spanDigits]; exact spanDigits_nodigit rest h
  | cons c cs ih =>
    simp only [List.cons_append, spanDigits]
    by_cases hd : isDigit c = true
    · simp only [hd, ↓reduceIte, ih]
    · simp only [hd, Bool.false_eq_true, ↓reduceIte, List.cons_append]

theorem stripSign_of_ne {c : Char} (r : List Char) (h : c ≠ '-') : stripSign (c :: r) = ([], c :: r) := by
  rw [stripSign]
  intro r' h'
  simp_all

theorem stripSign_append (c : Char) (cs rest : List Char) :
    stripSign (c :: cs ++ rest) = ((stripSign (c :: cs)).1, (stripSign (c :: cs)).2 ++ rest) := by
  by_cases h : c = '-'
  · subst h; rfl
  · rw [List.cons_append, stripSign_of_ne _ h, stripSign_of_ne _ h]; rfl

theorem fracOf_dot (r : List Char) : fracOf ('.' :: r) =
    if (spanDigits r).1.isEmpty then none else some ('.' :: (spanDigits r).1, (spanDigits r).2) := by
  rfl

theorem fracOf_of_ne {c : Char} (r : List Char) (h : c ≠ '.') : fracOf (c :: r) = some ([], c :: r) := by
  rw [fracOf]
  intro r' h'
  simp_all

theorem fracOf_append (rest : List Char) (h : noExt rest = true) (x fr x' : List Char)
    (hx : fracOf x = some (fr, x')) : fracOf (x ++ rest) = some (fr, x' ++ rest) := by
  cases x with
  | nil =>
    simp only [fracOf, Option.some.injEq, Prod.mk.injEq] at hx
    obtain ⟨rfl, rfl⟩ := hx
    cases rest with
    | nil => rfl
    | cons c r => exact fracOf_of_ne r (noExt_cons h).2.1
  | cons c r =>
    by_cases hc : c = '.'
    · subst hc
      rw [List.cons_append, fracOf_dot, spanDigits_append rest h]
      rw [fracOf_dot] at hx
      by_cases he : (spanDigits r).1.isEmpty = true
      · simp only [he, ↓reduceIte] at hx; cases hx
      · simp only [he, Bool.false_eq_true, ↓reduceIte, Option.some.injEq, Prod.mk.injEq] at hx ⊢
        obtain ⟨rfl, rfl⟩ := hx
        exact ⟨rfl, rfl⟩
    · rw [fracOf_of_ne _ hc] at hx
      simp only [Option.some.injEq, Prod.mk.injEq] at hx
      obtain ⟨rfl, rfl⟩ := hx
      exact fracOf_of_ne _ hc

theorem expSign_append (c : Char) (cs rest : List Char) :
    expSign (c :: cs ++ rest) = ((expSign (c :: cs)).1, (expSign (c :: cs)).2 ++ rest) := by
  by_cases h1 : c = '+'
  · subst h1; rfl
  by_cases h2 : c = '-'
  · subst h2; rfl
  have : ∀ r, expSign (c :: r) = ([], c :: r) := by
    intro r
    rw [expSign]
    · intro r' h'; simp_all
    · intro r' h'; simp_all
  rw [List.cons_append, this, this]; rfl

theorem expOf_cons (e : Char) (r : List Char) : expOf (e :: r) =
    if e == 'e' || e == 'E' then
      (if (spanDigits (expSign r).2).1.isEmpty then none
       else some (e :: (expSign r).1 ++ (spanDigits (expSign r).2).1, (spanDigits (expSign r).2).2))
    else some ([], e :: r) := by
  rfl

theorem expOf_append (rest : List Char) (h : noExt rest = true) (x ex x' : List Char)
    (hx : expOf x = some (ex, x')) : expOf (x ++ rest) = some (ex, x' ++ rest) := by
  cases x with
  | nil =>
    simp only [expOf, Option.some.injEq, Prod.mk.injEq] at hx
    obtain ⟨rfl, rfl⟩ := hx
    cases rest with
    | nil => rfl
    | cons c r =>
      obtain ⟨_, _, h3, h4⟩ := noExt_cons h
      rw [List.nil_append, expOf_cons]
      simp [h3, h4]
  | cons e r =>
    rw [List.cons_append, expOf_cons]
    rw [expOf_cons] at hx
    by_cases he : (e == 'e' || e == 'E') = true
    · simp only [he, ↓reduceIte] at hx ⊢
      cases r with
      | nil =>
        simp [expSign, spanDigits] at hx
      | cons c r =>
        rw [expSign_append, spanDigits_append rest h]
        by_cases hz : (spanDigits (expSign (c :: r)).2).1.isEmpty = true
        · simp only [hz, ↓reduceIte] at hx; cases hx
        · simp only [hz, Bool.false_eq_true, ↓reduceIte, Option.some.injEq, Prod.mk.injEq] at hx ⊢
          obtain ⟨rfl, rfl⟩ := hx
          exact ⟨rfl, rfl⟩
    · simp only [he, Bool.false_eq_true, ↓reduceIte, Option.some.injEq, Prod.mk.injEq] at hx ⊢
      obtain ⟨rfl, rfl⟩ := hx
      exact ⟨rfl, rfl⟩

theorem parseNum_append (rest : List Char) (h : noExt rest = true) (cs lit r : List Char)
    (hp : parseNum cs = some (lit, r)) : parseNum (cs ++ rest) = some (lit, r ++ rest) := by
  cases cs with
  | nil => simp [parseNum_eq, stripSign, spanDigits] at hp
  | cons c cs =>
    rw [parseNum_eq] at hp ⊢
    rw [stripSign_append]
    simp only [spanDigits_append rest h] at hp ⊢
    generalize (stripSign (c :: cs)).1 = sign at hp ⊢
    generalize (stripSign (c :: cs)).2 = r0 at hp ⊢
    generalize hsd : spanDigits r0 = sd at hp ⊢
    obtain ⟨ds, r1⟩ := sd
    simp only at hp ⊢
    split at hp
    · cases hp
    split at hp
    · cases hp
    rename_i h1 h2
    simp only [h1, h2, ↓reduceIte]
    cases hf : fracOf r1 with
    | none => simp [hf] at hp
    | some p =>
      obtain ⟨fr, r2⟩ := p
      rw [fracOf_append rest h _ _ _ hf]
      simp only [hf] at hp ⊢
      cases he : expOf r2 with
      | none => simp [he] at hp
      | some q =>
        obtain ⟨ex, r3⟩ := q
        rw [expOf_append rest h _ _ _ he]
        simp only [he] at hp ⊢
        simp only [Option.some.injEq, Prod.mk.injEq] at hp ⊢
        obtain ⟨rfl, rfl⟩ := hp
        simp

/-! ### dispatch of `parseVal` -/

def startOk (c : Char) : Bool :=
  c == 'n' || c == 't' || c == 'f' || c == '"' || c == '[' || c == '{' || c == '-' || isDigit c

theorem isDigit_props {c : Char} (h : isDigit c = true) :
    isWs c = false ∧ c ≠ ']' ∧ c ≠ '}' ∧ c ≠ ',' ∧ c ≠ 'n' ∧ c ≠ 't' ∧ c ≠ 'f' ∧ c ≠ '"' ∧ c ≠ '[' ∧ c ≠ '{' ∧ c ≠ '-' := by
  simp only [isDigit, Bool.and_eq_true, decide_eq_true_eq] at h
  have hne : ∀ d : Char, (d.toNat < 48 ∨ 57 < d.toNat) → c ≠ d := by
    intro d hd hcd; subst hcd; omega
  refine ⟨?_, hne _ (by decide), hne _ (by decide), hne _ (by decide), hne _ (by decide), hne _ (by decide),
    hne _ (by decide), hne _ (by decide), hne _ (by decide), hne _ (by decide), hne _ (by decide)⟩
  simp only [isWs, Bool.or_eq_false_iff, beq_eq_false_iff_ne]
  exact ⟨⟨⟨hne _ (by decide), hne _ (by decide)⟩, hne _ (by decide)⟩, hne _ (by decide)⟩

theorem startOk_props {c : Char} (h : startOk c = true) :
    isWs c = false ∧ c ≠ ']' ∧ c ≠ '}' ∧ c ≠ ',' := by
  simp only [startOk, Bool.or_eq_true, beq_iff_eq] at h
  rcases h with ((((((h | h) | h) | h) | h) | h) | h) | h
  any_goals (subst h; decide)
  have := isDigit_props h
  exact ⟨this.1, this.2.1, this.2.2.1, this.2.2.2.1⟩

theorem skipWs_of {c : Char} (r : List Char) (h : isWs c = false) : skipWs (c :: r) = c :: r := by
  simp only [skipWs, h, Bool.false_eq_true, ↓reduceIte]

theorem parseVal_null (f : Nat) (r : List Char) : parseVal (f + 1) ('n' :: 'u' :: 'l' :: 'l' :: r) = some (.null, r) := rfl
theorem parseVal_true (f : Nat) (r : List Char) : parseVal (f + 1) ('t' :: 'r' :: 'u' :: 'e' :: r) = some (.bool true, r) := rfl
theorem parseVal_false (f : Nat) (r : List Char) :
    parseVal (f + 1) ('f' :: 'a' :: 'l' :: 's' :: 'e' :: r) = some (.bool false, r) := rfl
theorem parseVal_str (f : Nat) (r : List Char) : parseVal (f + 1) ('"' :: r) =
    match parseStrBody r [] with
    | some (s, r') => some (.str s, r')
    | none => none := rfl
theorem parseVal_arr (f : Nat) (r : List Char) : parseVal (f + 1) ('[' :: r) =
    match skipWs r with
    | ']' :: r' => some (.arr [], r')
    | r' => parseElems f r' [] := rfl
theorem parseVal_obj (f : Nat) (r : List Char) : parseVal (f + 1) ('{' :: r) =
    match skipWs r with
    | '}' :: r' => some (.obj [], r')
    | r' => parseMembers f r' [] := rfl

theorem parseVal_arr_nil (f : Nat) (r : List Char) : parseVal (f + 1) ('[' :: ']' :: r) = some (.arr [], r) := rfl
theorem parseVal_obj_nil (f : Nat) (r : List Char) : parseVal (f + 1) ('{' :: '}' :: r) = some (.obj [], r) := rfl

theorem parseVal_arr_cons (f : Nat) (c : Char) (r : List Char) (h : startOk c = true) :
    parseVal (f + 1) ('[' :: c :: r) = parseElems f (c :: r) [] := by
  obtain ⟨h1, h2, _, _⟩ := startOk_props h
  rw [parseVal_arr, skipWs_of r h1]
  split
  · next heq => simp only [List.cons.injEq] at heq; exact absurd heq.1 h2
  · rfl

theorem parseVal_obj_cons (f : Nat) (r : List Char) :
    parseVal (f + 1) ('{' :: '"' :: r) = parseMembers f ('"' :: r) [] := rfl

theorem parseVal_num (f : Nat) (c : Char) (r : List Char) (h : (c == '-' || isDigit c) = true) :
    parseVal (f + 1) (c :: r) =
      match parseNum (c :: r) with
      | some (lit, r') => some (.num lit, r')
      | none => none := by
  have hp : isWs c = false ∧ c ≠ 'n' ∧ c ≠ 't' ∧ c ≠ 'f' ∧ c ≠ '"' ∧ c ≠ '[' ∧ c ≠ '{' := by
    simp only [Bool.or_eq_true, beq_iff_eq] at h
    rcases h with h | h
    · subst h; decide
    · have := isDigit_props h
      exact ⟨this.1, this.2.2.2.2.1, this.2.2.2.2.2.1, this.2.2.2.2.2.2.1, this.2.2.2.2.2.2.2.1,
        this.2.2.2.2.2.2.2.2.1, this.2.2.2.2.2.2.2.2.2.1⟩
  obtain ⟨h0, h1, h2, h3, h4, h5, h6⟩ := hp
  rw [parseVal, skipWs_of r h0]
  split
  all_goals (try (rename_i heq; simp only [List.cons.injEq] at heq; first | exact absurd heq.1 h1 | exact absurd heq.1 h2 | exact absurd heq.1 h3 | exact absurd heq.1 h4 | exact absurd heq.1 h5 | exact absurd heq.1 h6))
  · next heq => simp only [List.cons.injEq] at heq; obtain ⟨rfl, rfl⟩ := heq; simp only [h, ↓reduceIte]; rfl
  · next heq => cases heq


theorem parseElems_comma (f : Nat) (cs : List Char) (acc : List JTree) (v : JTree) (r : List Char)
    (h : parseVal f cs = some (v, ',' :: r)) : parseElems (f + 1) cs acc = parseElems f r (v :: acc) := by
  rw [parseElems, h]; rfl

theorem parseElems_close (f : Nat) (cs : List Char) (acc : List JTree) (v : JTree) (r : List Char)
    (h : parseVal f cs = some (v, ']' :: r)) : parseElems (f + 1) cs acc = some (.arr (v :: acc).reverse, r) := by
  rw [parseElems, h]; rfl

theorem parseMembers_comma (f : Nat) (cs : List Char) (acc : List (List Char × JTree)) (k : List Char) (v : JTree)
    (r2 r4 : List Char) (hk : parseStrBody cs [] = some (k, ':' :: r2)) (hv : parseVal f r2 = some (v, ',' :: r4)) :
    parseMembers (f + 1) ('"' :: cs) acc = parseMembers f r4 ((k, v) :: acc) := by
  rw [parseMembers]
  simp only [skipWs_of cs (show isWs '"' = false by decide), hk]
  simp only [skipWs_of r2 (show isWs ':' = false by decide), hv]
  rfl

theorem parseMembers_close (f : Nat) (cs : List Char) (acc : List (List Char × JTree)) (k : List Char) (v : JTree)
    (r2 r4 : List Char) (hk : parseStrBody cs [] = some (k, ':' :: r2)) (hv : parseVal f r2 = some (v, '}' :: r4)) :
    parseMembers (f + 1) ('"' :: cs) acc = some (.obj ((k, v) :: acc).reverse, r4) := by
  rw [parseMembers]
  simp only [skipWs_of cs (show isWs '"' = false by decide), hk]
  simp only [skipWs_of r2 (show isWs ':' = false by decide), hv]
  rfl

/-! ### well-formed trees and the round trip -/

/-- a valid JSON number literal: the reader's number scanner accepts exactly the whole literal -/
def numOk (lit : List Char) : Bool := decide (parseNum lit = some (lit, []))

mutual
/-- well-formed syntax tree: every number literal is a valid JSON number -/
def WfTree : JTree → Bool
  | .null => true
  | .bool _ => true
  | .num lit => numOk lit
  | .str _ => true
  | .arr xs => WfElems xs
  | .obj kvs => WfMembers kvs
def WfElems : List JTree → Bool
  | [] => true
  | x :: xs => WfTree x && WfElems xs
def WfMembers : List (List Char × JTree) → Bool
  | [] => true
  | kv :: r => WfTree kv.2 && WfMembers r
end

mutual
/-- fuel that `parseVal` needs for the printed tree -/
def need : JTree → Nat
  | .null => 1
  | .bool _ => 1
  | .num _ => 1
  | .str _ => 1
  | .arr xs => 1 + needL xs
  | .obj kvs => 1 + needM kvs
def needL : List JTree → Nat
  | [] => 0
  | x :: xs => 1 + need x + needL xs
def needM : List (List Char × JTree) → Nat
  | [] => 0
  | kv :: r => 1 + need kv.2 + needM r
end

theorem parseNum_head {c : Char} {cs lit r : List Char} (h : parseNum (c :: cs) = some (lit, r)) :
    (c == '-' || isDigit c) = true := by
  by_cases hc : c = '-'
  · subst hc; rfl
  · by_cases hd : isDigit c = true
    · simp [hd]
    · rw [parseNum_eq, stripSign_of_ne _ hc] at h
      simp [spanDigits, hd] at h

theorem numOk_head {lit : List Char} (h : numOk lit = true) :
    ∃ c r, lit = c :: r ∧ (c == '-' || isDigit c) = true := by
  simp only [numOk, decide_eq_true_eq] at h
  cases lit with
  | nil => simp [parseNum_eq, stripSign, spanDigits] at h
  | cons c r => exact ⟨c, r, rfl, parseNum_head h⟩

theorem numOk_parse {lit : List Char} (h : numOk lit = true) (rest : List Char) (hr : noExt rest = true) :
    parseNum (lit ++ rest) = some (lit, rest) := by
  simp only [numOk, decide_eq_true_eq] at h
  have := parseNum_append rest hr lit lit [] h
  simpa using this

theorem printStr_eq (s : List Char) (rest : List Char) :
    printStr s ++ rest = '"' :: (s.flatMap escChar ++ '"' :: rest) := by
  simp [printStr]

/-- a printed well-formed value starts with a character that is neither white space nor a delimiter -/
theorem printTree_head (t : JTree) (h : WfTree t = true) : ∃ c r, printTree t = c :: r ∧ startOk c = true := by
  cases t with
  | null => exact ⟨_, _, by rw [printTree], by decide⟩
  | bool b => cases b <;> exact ⟨_, _, by rw [printTree], by decide⟩
  | num lit =>
    rw [WfTree] at h
    obtain ⟨c, r, rfl, hc⟩ := numOk_head h
    refine ⟨c, r, by rw [printTree], ?_⟩
    simp only [Bool.or_eq_true, beq_iff_eq] at hc
    simp only [startOk, Bool.or_eq_true, beq_iff_eq]
    rcases hc with hc | hc
    · exact Or.inl (Or.inr hc)
    · exact Or.inr hc
  | str s => exact ⟨_, _, by rw [printTree, printStr], by decide⟩
  | arr xs => exact ⟨_, _, by rw [printTree], by decide⟩
  | obj kvs => exact ⟨_, _, by rw [printTree], by decide⟩

theorem noExt_comma (r : List Char) : noExt (',' :: r) = true := rfl
theorem noExt_rbrack (r : List Char) : noExt (']' :: r) = true := rfl
theorem noExt_rbrace (r : List Char) : noExt ('}' :: r) = true := rfl


theorem printElems_head (x : JTree) (xs : List JTree) (h : WfTree x = true) :
    ∃ c r, printElems (x :: xs) = c :: r ∧ startOk c = true := by
  obtain ⟨c, r, hp, hc⟩ := printTree_head x h
  cases xs with
  | nil => exact ⟨c, r, by rw [printElems, hp], hc⟩
  | cons y ys => exact ⟨c, r ++ ',' :: printElems (y :: ys), by rw [printElems, hp]; rfl, hc⟩

theorem fuel_succ {n fuel : Nat} (h : 1 + n ≤ fuel) : ∃ f, fuel = f + 1 ∧ n ≤ f := ⟨fuel - 1, by omega, by omega⟩

mutual
theorem parseVal_print : ∀ (t : JTree), WfTree t = true → ∀ (fuel : Nat) (rest : List Char), need t ≤ fuel →
    noExt rest = true → parseVal fuel (printTree t ++ rest) = some (t, rest)
  | .null, _, fuel, rest, hf, _ => by
    rw [need] at hf
    obtain ⟨f, rfl, _⟩ := fuel_succ (n := 0) hf
    rw [printTree]; exact parseVal_null f rest
  | .bool true, _, fuel, rest, hf, _ => by
    rw [need] at hf
    obtain ⟨f, rfl, _⟩ := fuel_succ (n := 0) hf
    rw [printTree]; exact parseVal_true f rest
  | .bool false, _, fuel, rest, hf, _ => by
    rw [need] at hf
    obtain ⟨f, rfl, _⟩ := fuel_succ (n := 0) hf
    rw [printTree]; exact parseVal_false f rest
  | .num lit, h, fuel, rest, hf, hr => by
    rw [need] at hf
    obtain ⟨f, rfl, _⟩ := fuel_succ (n := 0) hf
    rw [WfTree] at h
    obtain ⟨c, r, rfl, hc⟩ := numOk_head h
    rw [printTree, List.cons_append, parseVal_num f c _ hc, ← List.cons_append, numOk_parse h rest hr]
  | .str s, _, fuel, rest, hf, _ => by
    rw [need] at hf
    obtain ⟨f, rfl, _⟩ := fuel_succ (n := 0) hf
    rw [printTree, printStr_eq, parseVal_str, parseStrBody_print]
    rfl
  | .arr xs, h, fuel, rest, hf, _ => by
    rw [need] at hf
    obtain ⟨f, rfl, hf'⟩ := fuel_succ hf
    rw [WfTree] at h
    by_cases hx : xs = []
    · subst hx
      rw [printTree, printElems]; exact parseVal_arr_nil f rest
    · have hrec := parseElems_print xs h hx f rest [] hf'
      obtain ⟨x, xs', rfl⟩ := List.exists_cons_of_ne_nil hx
      rw [WfElems, Bool.and_eq_true] at h
      obtain ⟨c, r, hp, hc⟩ := printElems_head x xs' h.1
      rw [printTree, List.cons_append, List.append_assoc, List.singleton_append]
      rw [hp, List.cons_append] at hrec ⊢
      rw [parseVal_arr_cons f c _ hc, hrec]; rfl
  | .obj kvs, h, fuel, rest, hf, _ => by
    rw [need] at hf
    obtain ⟨f, rfl, hf'⟩ := fuel_succ hf
    rw [WfTree] at h
    by_cases hx : kvs = []
    · subst hx
      rw [printTree, printMembers]; exact parseVal_obj_nil f rest
    · have hrec := parseMembers_print kvs h hx f rest [] hf'
      obtain ⟨kv, kvs', rfl⟩ := List.exists_cons_of_ne_nil hx
      obtain ⟨r, hp⟩ : ∃ r, printMembers (kv :: kvs') = '"' :: r := by
        cases kvs' with
        | nil => exact ⟨_, by rw [printMembers, printStr]; rfl⟩
        | cons kv' r' => exact ⟨_, by rw [printMembers, printStr]; rfl⟩
      rw [printTree, List.cons_append, List.append_assoc, List.singleton_append]
      rw [hp, List.cons_append] at hrec ⊢
      rw [parseVal_obj_cons f, hrec]; rfl
theorem parseElems_print : ∀ (xs : List JTree), WfElems xs = true → xs ≠ [] → ∀ (fuel : Nat) (rest : List Char)
    (acc : List JTree), needL xs ≤ fuel →
    parseElems fuel (printElems xs ++ ']' :: rest) acc = some (.arr (acc.reverse ++ xs), rest)
  | [], _, hne, _, _, _, _ => absurd rfl hne
  | [x], h, _, fuel, rest, acc, hf => by
    rw [WfElems, WfElems, Bool.and_true] at h
    rw [needL, needL] at hf
    obtain ⟨f, rfl, hf'⟩ := fuel_succ (n := need x) (fuel := fuel) (by omega)
    rw [printElems]
    have hv := parseVal_print x h f (']' :: rest) hf' (noExt_rbrack _)
    rw [parseElems_close f _ acc x rest hv]; simp
  | x :: y :: r, h, _, fuel, rest, acc, hf => by
    rw [WfElems, Bool.and_eq_true] at h
    rw [needL] at hf
    obtain ⟨f, rfl, hf'⟩ := fuel_succ (n := need x + needL (y :: r)) (fuel := fuel) (by omega)
    rw [printElems, List.append_assoc, List.cons_append]
    have hv := parseVal_print x h.1 f (',' :: (printElems (y :: r) ++ ']' :: rest)) (by omega) (noExt_comma _)
    rw [parseElems_comma f _ acc x _ hv, parseElems_print (y :: r) h.2 (by simp) f rest (x :: acc) (by omega)]
    simp
theorem parseMembers_print : ∀ (kvs : List (List Char × JTree)), WfMembers kvs = true → kvs ≠ [] →
    ∀ (fuel : Nat) (rest : List Char) (acc : List (List Char × JTree)), needM kvs ≤ fuel →
    parseMembers fuel (printMembers kvs ++ '}' :: rest) acc = some (.obj (acc.reverse ++ kvs), rest)
  | [], _, hne, _, _, _, _ => absurd rfl hne
  | [kv], h, _, fuel, rest, acc, hf => by
    rw [WfMembers, WfMembers, Bool.and_true] at h
    rw [needM, needM] at hf
    obtain ⟨f, rfl, hf'⟩ := fuel_succ (n := need kv.2) (fuel := fuel) (by omega)
    rw [printMembers, List.append_assoc, List.cons_append, printStr_eq]
    have hk := parseStrBody_print kv.1 (':' :: (printTree kv.2 ++ '}' :: rest)) []
    have hv := parseVal_print kv.2 h f ('}' :: rest) hf' (noExt_rbrace _)
    rw [parseMembers_close f _ acc _ kv.2 _ rest hk hv]; simp
  | kv :: kv' :: r, h, _, fuel, rest, acc, hf => by
    rw [WfMembers, Bool.and_eq_true] at h
    rw [needM] at hf
    obtain ⟨f, rfl, hf'⟩ := fuel_succ (n := need kv.2 + needM (kv' :: r)) (fuel := fuel) (by omega)
    rw [printMembers, List.append_assoc, List.cons_append, List.append_assoc, List.cons_append, printStr_eq]
    have hk := parseStrBody_print kv.1 (':' :: (printTree kv.2 ++ ',' :: (printMembers (kv' :: r) ++ '}' :: rest))) []
    have hv := parseVal_print kv.2 h.1 f (',' :: (printMembers (kv' :: r) ++ '}' :: rest)) (by omega) (noExt_comma _)
    rw [parseMembers_comma f _ acc _ kv.2 _ _ hk hv,
      parseMembers_print (kv' :: r) h.2 (by simp) f rest (_ :: acc) (by omega)]
    simp
end

mutual
theorem need_le : ∀ (t : JTree), need t ≤ 2 * (printTree t).length + 1
  | .null => by rw [need]; omega
  | .bool _ => by rw [need]; omega
  | .num _ => by rw [need]; omega
  | .str _ => by rw [need]; omega
  | .arr xs => by
    have := needL_le xs
    rw [need, printTree]
    simp only [List.length_cons, List.length_append, List.length_nil]
    omega
  | .obj kvs => by
    have := needM_le kvs
    rw [need, printTree]
    simp only [List.length_cons, List.length_append, List.length_nil]
    omega
theorem needL_le : ∀ (xs : List JTree), needL xs ≤ 2 * (printElems xs).length + 2
  | [] => by rw [needL]; omega
  | [x] => by
    have := need_le x
    rw [needL, needL, printElems]; omega
  | x :: y :: r => by
    have := need_le x
    have := needL_le (y :: r)
    rw [needL, printElems]
    simp only [List.length_cons, List.length_append]
    omega
theorem needM_le : ∀ (kvs : List (List Char × JTree)), needM kvs ≤ 2 * (printMembers kvs).length + 2
  | [] => by rw [needM]; omega
  | [kv] => by
    have := need_le kv.2
    rw [needM, needM, printMembers]
    simp only [List.length_cons, List.length_append]
    omega
  | kv :: kv' :: r => by
    have := need_le kv.2
    have := needM_le (kv' :: r)
    rw [needM, printMembers]
    simp only [List.length_cons, List.length_append]
    omega
end

theorem parseJ_print (t : JTree) (h : WfTree t = true) : parseJ (printTree t) = some t := by
  have := parseVal_print t h (2 * (printTree t).length + 2) [] (by have := need_le t; omega) rfl
  rw [List.append_nil] at this
  rw [parseJ, this]
  rfl

/-! ### integer literals are valid number literals -/

theorem isDigit_of_core {c : Char} (h : c.isDigit = true) : isDigit c = true := by
  simp only [Char.isDigit, Bool.and_eq_true, decide_eq_true_eq] at h
  simp only [isDigit, Bool.and_eq_true, decide_eq_true_eq, Char.toNat]
  have h1 := UInt32.le_iff_toNat_le.mp h.1
  have h2 := UInt32.le_iff_toNat_le.mp h.2
  exact ⟨h1, h2⟩

theorem spanDigits_all : ∀ (ds : List Char), (∀ c ∈ ds, isDigit c = true) → spanDigits ds = (ds, [])
  | [], _ => rfl
  | c :: r, h => by
    have hc := h c (by simp)
    have := spanDigits_all r (fun d hd => h d (by simp [hd]))
    simp only [spanDigits, hc, ↓reduceIte, this]

theorem parseNum_digits (ds : List Char) (hne : ds ≠ []) (hall : ∀ c ∈ ds, isDigit c = true)
    (hlead : ¬ (ds.length > 1 ∧ ds.head? = some '0')) : parseNum ds = some (ds, []) := by
  obtain ⟨c, r, rfl⟩ := List.exists_cons_of_ne_nil hne
  have hc := hall c (by simp)
  have hm : c ≠ '-' := (isDigit_props hc).2.2.2.2.2.2.2.2.2.2
  rw [parseNum_eq, stripSign_of_ne _ hm]
  simp only [spanDigits_all _ hall, List.isEmpty_cons, Bool.false_eq_true, ↓reduceIte, hlead, fracOf, expOf]
  simp

theorem parseNum_neg_digits (ds : List Char) (hne : ds ≠ []) (hall : ∀ c ∈ ds, isDigit c = true)
    (hlead : ¬ (ds.length > 1 ∧ ds.head? = some '0')) : parseNum ('-' :: ds) = some ('-' :: ds, []) := by
  obtain ⟨c, r, rfl⟩ := List.exists_cons_of_ne_nil hne
  rw [parseNum_eq]
  simp only [stripSign, spanDigits_all _ hall, List.isEmpty_cons, Bool.false_eq_true, ↓reduceIte, hlead, fracOf, expOf]
  simp

theorem toDigits_head : ∀ (n : Nat), 0 < n → (Nat.toDigits 10 n).head? ≠ some '0' := by
  intro n
  induction n using Nat.strongRecOn with
  | _ n ih =>
    intro hn
    rw [Nat.toDigits_eq_if (by decide)]
    split
    · next hlt =>
      have : ∀ m, m < 10 → 0 < m → Nat.digitChar m ≠ '0' := by decide
      simpa using this n hlt hn
    · next hge =>
      have h1 : 0 < n / 10 := by omega
      have := ih (n / 10) (by omega) h1
      have hne : Nat.toDigits 10 (n / 10) ≠ [] := Nat.toDigits_ne_nil
      obtain ⟨c, r, hcr⟩ := List.exists_cons_of_ne_nil hne
      rw [hcr] at this ⊢
      simpa using this

theorem natLit_ok (n : Nat) : let ds := (toString n).toList
    ds ≠ [] ∧ (∀ c ∈ ds, isDigit c = true) ∧ ¬ (ds.length > 1 ∧ ds.head? = some '0') := by
  have he : (toString n).toList = Nat.toDigits 10 n := by simp
  simp only [he]
  refine ⟨Nat.toDigits_ne_nil, fun c hc => isDigit_of_core (Nat.isDigit_of_mem_toDigits (by decide) (by decide) hc), ?_⟩
  intro ⟨h1, h2⟩
  by_cases hn : 0 < n
  · exact toDigits_head n hn h2
  · have : n = 0 := by omega
    subst this
    simp at h1

/-- every integer literal that `itoa` writes is a valid JSON number -/
theorem numOk_intLit (z : Int) : numOk (intLit z) = true := by
  simp only [numOk, decide_eq_true_eq]
  cases z with
  | ofNat n =>
    obtain ⟨h1, h2, h3⟩ := natLit_ok n
    exact parseNum_digits _ h1 h2 h3
  | negSucc n =>
    obtain ⟨h1, h2, h3⟩ := natLit_ok (n + 1)
    exact parseNum_neg_digits _ h1 h2 h3

/-! ### the tree a value denotes; the matcher accepts it -/

mutual
/-- the tree that the modelled writer produces for a `JVal`: integers as `itoa` literals, finite floats through the
    (unmodelled, parameter) float printer `fp`, non-finite floats as `null`, strings through a decoder `dec` of their
    UTF-8 bytes (parameter), the wildcard string as the empty string, arrays and objects member for member in order. -/
def treeOf (isFinite : Nat → Bool) (fp : Nat → List Char) (dec : Bytes → List Char) : JVal → JTree
  | .null => .null
  | .num z => .num (intLit z)
  | .f64 bits => if isFinite bits then .num (fp bits) else .null
  | .str b => .str (dec b)
  | .anyStr => .str []
  | .arr xs => .arr (treeOfL isFinite fp dec xs)
  | .obj kvs => .obj (treeOfM isFinite fp dec kvs)
def treeOfL (isFinite : Nat → Bool) (fp : Nat → List Char) (dec : Bytes → List Char) : List JVal → List JTree
  | [] => []
  | x :: xs => treeOf isFinite fp dec x :: treeOfL isFinite fp dec xs
def treeOfM (isFinite : Nat → Bool) (fp : Nat → List Char) (dec : Bytes → List Char) :
    List (String × JVal) → List (List Char × JTree)
  | [] => []
  | kv :: r => (kv.1.toList, treeOf isFinite fp dec kv.2) :: treeOfM isFinite fp dec r
end

mutual
/-- every float leaf satisfies `P`, every string leaf satisfies `Q` -/
def Leaves (P : Nat → Prop) (Q : Bytes → Prop) : JVal → Prop
  | .null => True
  | .num _ => True
  | .f64 bits => P bits
  | .str b => Q b
  | .anyStr => True
  | .arr xs => LeavesL P Q xs
  | .obj kvs => LeavesM P Q kvs
def LeavesL (P : Nat → Prop) (Q : Bytes → Prop) : List JVal → Prop
  | [] => True
  | x :: xs => Leaves P Q x ∧ LeavesL P Q xs
def LeavesM (P : Nat → Prop) (Q : Bytes → Prop) : List (String × JVal) → Prop
  | [] => True
  | kv :: r => Leaves P Q kv.2 ∧ LeavesM P Q r
end

theorem treeOfL_eq_map (isFinite : Nat → Bool) (fp : Nat → List Char) (dec : Bytes → List Char) (xs : List JVal) :
    treeOfL isFinite fp dec xs = xs.map (treeOf isFinite fp dec) := by
  induction xs with
  | nil => rw [treeOfL]; rfl
  | cons x xs ih => rw [treeOfL, ih]; rfl

theorem treeOfM_eq_map (isFinite : Nat → Bool) (fp : Nat → List Char) (dec : Bytes → List Char)
    (kvs : List (String × JVal)) :
    treeOfM isFinite fp dec kvs = kvs.map (fun kv => (kv.1.toList, treeOf isFinite fp dec kv.2)) := by
  induction kvs with
  | nil => rw [treeOfM]; rfl
  | cons x xs ih => rw [treeOfM, ih]; rfl

mutual
theorem Leaves.mono {P P' : Nat → Prop} {Q Q' : Bytes → Prop} (hP : ∀ b, P b → P' b) (hQ : ∀ b, Q b → Q' b) :
    ∀ (v : JVal), Leaves P Q v → Leaves P' Q' v
  | .null, _ => by rw [Leaves]; trivial
  | .num _, _ => by rw [Leaves]; trivial
  | .f64 bits, h => by rw [Leaves] at h ⊢; exact hP _ h
  | .str b, h => by rw [Leaves] at h ⊢; exact hQ _ h
  | .anyStr, _ => by rw [Leaves]; trivial
  | .arr xs, h => by rw [Leaves] at h ⊢; exact LeavesL.mono hP hQ xs h
  | .obj kvs, h => by rw [Leaves] at h ⊢; exact LeavesM.mono hP hQ kvs h
theorem LeavesL.mono {P P' : Nat → Prop} {Q Q' : Bytes → Prop} (hP : ∀ b, P b → P' b) (hQ : ∀ b, Q b → Q' b) :
    ∀ (xs : List JVal), LeavesL P Q xs → LeavesL P' Q' xs
  | [], _ => by rw [LeavesL]; trivial
  | x :: xs, h => by rw [LeavesL] at h ⊢; exact ⟨Leaves.mono hP hQ x h.1, LeavesL.mono hP hQ xs h.2⟩
theorem LeavesM.mono {P P' : Nat → Prop} {Q Q' : Bytes → Prop} (hP : ∀ b, P b → P' b) (hQ : ∀ b, Q b → Q' b) :
    ∀ (kvs : List (String × JVal)), LeavesM P Q kvs → LeavesM P' Q' kvs
  | [], _ => by rw [LeavesM]; trivial
  | kv :: r, h => by rw [LeavesM] at h ⊢; exact ⟨Leaves.mono hP hQ kv.2 h.1, LeavesM.mono hP hQ r h.2⟩
end

mutual
/-- the matcher accepts the tree a value denotes; hypotheses: `fmatch` accepts what `fp` prints for the finite floats
    of `v`, `dec` inverts `utf8Of` on the strings of `v` -/
theorem jmatchT_treeOf (isFinite : Nat → Bool) (fmatch : Nat → List Char → Bool) (fp : Nat → List Char)
    (dec : Bytes → List Char) : ∀ (v : JVal),
    Leaves (fun bits => isFinite bits = true → fmatch bits (fp bits) = true) (fun b => utf8Of (dec b) = b) v →
    jmatchT isFinite fmatch v (treeOf isFinite fp dec v) = true
  | .null, _ => by rw [treeOf, jmatchT]
  | .num z, _ => by rw [treeOf, jmatchT]; simp
  | .f64 bits, h => by
    rw [Leaves] at h
    rw [treeOf]
    by_cases hb : isFinite bits = true
    · simp only [hb, ↓reduceIte]; rw [jmatchT, hb, h hb]; rfl
    · simp only [hb, Bool.false_eq_true, ↓reduceIte]; rw [jmatchT]; simp [hb]
  | .str b, h => by rw [Leaves] at h; rw [treeOf, jmatchT, h]; simp
  | .anyStr, _ => by rw [treeOf, jmatchT]
  | .arr xs, h => by rw [Leaves] at h; rw [treeOf, jmatchT]; exact goArr_treeOf isFinite fmatch fp dec xs h
  | .obj kvs, h => by rw [Leaves] at h; rw [treeOf, jmatchT]; exact goObj_treeOf isFinite fmatch fp dec kvs h
theorem goArr_treeOf (isFinite : Nat → Bool) (fmatch : Nat → List Char → Bool) (fp : Nat → List Char)
    (dec : Bytes → List Char) : ∀ (xs : List JVal),
    LeavesL (fun bits => isFinite bits = true → fmatch bits (fp bits) = true) (fun b => utf8Of (dec b) = b) xs →
    jmatchT.goArr isFinite fmatch xs (treeOfL isFinite fp dec xs) = true
  | [], _ => by rw [treeOfL, jmatchT.goArr]
  | x :: xs, h => by
    rw [LeavesL] at h
    rw [treeOfL, jmatchT.goArr, jmatchT_treeOf isFinite fmatch fp dec x h.1, goArr_treeOf isFinite fmatch fp dec xs h.2]
    rfl
theorem goObj_treeOf (isFinite : Nat → Bool) (fmatch : Nat → List Char → Bool) (fp : Nat → List Char)
    (dec : Bytes → List Char) : ∀ (kvs : List (String × JVal)),
    LeavesM (fun bits => isFinite bits = true → fmatch bits (fp bits) = true) (fun b => utf8Of (dec b) = b) kvs →
    jmatchT.goObj isFinite fmatch kvs (treeOfM isFinite fp dec kvs) = true
  | [], _ => by rw [treeOfM, jmatchT.goObj]
  | kv :: r, h => by
    rw [LeavesM] at h
    rw [treeOfM, jmatchT.goObj, jmatchT_treeOf isFinite fmatch fp dec kv.2 h.1, goObj_treeOf isFinite fmatch fp dec r h.2]
    simp
end

mutual
/-- the tree of a value is well formed when the float printer writes valid number literals -/
theorem WfTree_treeOf (isFinite : Nat → Bool) (fp : Nat → List Char) (dec : Bytes → List Char) : ∀ (v : JVal),
    Leaves (fun bits => isFinite bits = true → numOk (fp bits) = true) (fun _ => True) v →
    WfTree (treeOf isFinite fp dec v) = true
  | .null, _ => by rw [treeOf, WfTree]
  | .num z, _ => by rw [treeOf, WfTree]; exact numOk_intLit z
  | .f64 bits, h => by
    rw [Leaves] at h
    rw [treeOf]
    by_cases hb : isFinite bits = true
    · simp only [hb, ↓reduceIte]; rw [WfTree]; exact h hb
    · simp only [hb, Bool.false_eq_true, ↓reduceIte]; rw [WfTree]
  | .str b, _ => by rw [treeOf, WfTree]
  | .anyStr, _ => by rw [treeOf, WfTree]
  | .arr xs, h => by rw [Leaves] at h; rw [treeOf, WfTree]; exact WfElems_treeOfL isFinite fp dec xs h
  | .obj kvs, h => by rw [Leaves] at h; rw [treeOf, WfTree]; exact WfMembers_treeOfM isFinite fp dec kvs h
theorem WfElems_treeOfL (isFinite : Nat → Bool) (fp : Nat → List Char) (dec : Bytes → List Char) : ∀ (xs : List JVal),
    LeavesL (fun bits => isFinite bits = true → numOk (fp bits) = true) (fun _ => True) xs →
    WfElems (treeOfL isFinite fp dec xs) = true
  | [], _ => by rw [treeOfL, WfElems]
  | x :: xs, h => by
    rw [LeavesL] at h
    rw [treeOfL, WfElems, WfTree_treeOf isFinite fp dec x h.1, WfElems_treeOfL isFinite fp dec xs h.2]; rfl
theorem WfMembers_treeOfM (isFinite : Nat → Bool) (fp : Nat → List Char) (dec : Bytes → List Char) :
    ∀ (kvs : List (String × JVal)),
    LeavesM (fun bits => isFinite bits = true → numOk (fp bits) = true) (fun _ => True) kvs →
    WfMembers (treeOfM isFinite fp dec kvs) = true
  | [], _ => by rw [treeOfM, WfMembers]
  | kv :: r, h => by
    rw [LeavesM] at h
    rw [treeOfM, WfMembers, WfTree_treeOf isFinite fp dec kv.2 h.1, WfMembers_treeOfM isFinite fp dec r h.2]; rfl
end

/-! ### the matcher is ordered and (on plain values) injective -/

section Matcher
variable (isFinite : Nat → Bool) (fmatch : Nat → List Char → Bool)

theorem jmatchT_obj_inv {kvs : List (String × JVal)} {t : JTree}
    (h : jmatchT isFinite fmatch (.obj kvs) t = true) : ∃ ms, t = .obj ms ∧ jmatchT.goObj isFinite fmatch kvs ms = true := by
  cases t with
  | obj ms => rw [jmatchT] at h; exact ⟨ms, rfl, h⟩
  | _ => simp [jmatchT] at h

theorem jmatchT_arr_inv {xs : List JVal} {t : JTree}
    (h : jmatchT isFinite fmatch (.arr xs) t = true) : ∃ ys, t = .arr ys ∧ jmatchT.goArr isFinite fmatch xs ys = true := by
  cases t with
  | arr ys => rw [jmatchT] at h; exact ⟨ys, rfl, h⟩
  | _ => simp [jmatchT] at h

theorem goObj_keys : ∀ (kvs : List (String × JVal)) (ms : List (List Char × JTree)),
    jmatchT.goObj isFinite fmatch kvs ms = true → ms.map (·.1) = kvs.map (·.1.toList)
  | [], [], _ => rfl
  | [], _ :: _, h => by simp [jmatchT.goObj] at h
  | _ :: _, [], h => by simp [jmatchT.goObj] at h
  | kv :: kvs, m :: ms, h => by
    rw [jmatchT.goObj] at h
    simp only [Bool.and_eq_true, beq_iff_eq] at h
    rw [List.map_cons, List.map_cons, goObj_keys kvs ms h.2, h.1.1]

theorem goArr_length : ∀ (xs : List JVal) (ys : List JTree),
    jmatchT.goArr isFinite fmatch xs ys = true → ys.length = xs.length
  | [], [], _ => rfl
  | [], _ :: _, h => by simp [jmatchT.goArr] at h
  | _ :: _, [], h => by simp [jmatchT.goArr] at h
  | x :: xs, y :: ys, h => by
    rw [jmatchT.goArr] at h
    simp only [Bool.and_eq_true] at h
    rw [List.length_cons, List.length_cons, goArr_length xs ys h.2]

/-- element-wise: the k-th element of the tree matches the k-th element of the value -/
theorem goArr_get : ∀ (xs : List JVal) (ys : List JTree), jmatchT.goArr isFinite fmatch xs ys = true →
    ∀ (k : Nat) (x : JVal) (y : JTree), xs[k]? = some x → ys[k]? = some y → jmatchT isFinite fmatch x y = true
  | [], [], _, k, x, y, hx, _ => by simp at hx
  | [], _ :: _, h, _, _, _, _, _ => by simp [jmatchT.goArr] at h
  | _ :: _, [], h, _, _, _, _, _ => by simp [jmatchT.goArr] at h
  | a :: xs, b :: ys, h, k, x, y, hx, hy => by
    rw [jmatchT.goArr] at h
    simp only [Bool.and_eq_true] at h
    cases k with
    | zero =>
      simp only [List.getElem?_cons_zero, Option.some.injEq] at hx hy
      subst hx; subst hy; exact h.1
    | succ k =>
      simp only [List.getElem?_cons_succ] at hx hy
      exact goArr_get xs ys h.2 k x y hx hy

theorem goObj_get : ∀ (kvs : List (String × JVal)) (ms : List (List Char × JTree)),
    jmatchT.goObj isFinite fmatch kvs ms = true →
    ∀ (k : Nat) (kv : String × JVal) (m : List Char × JTree), kvs[k]? = some kv → ms[k]? = some m →
      m.1 = kv.1.toList ∧ jmatchT isFinite fmatch kv.2 m.2 = true
  | [], [], _, k, x, y, hx, _ => by simp at hx
  | [], _ :: _, h, _, _, _, _, _ => by simp [jmatchT.goObj] at h
  | _ :: _, [], h, _, _, _, _, _ => by simp [jmatchT.goObj] at h
  | a :: xs, b :: ys, h, k, x, y, hx, hy => by
    rw [jmatchT.goObj] at h
    simp only [Bool.and_eq_true, beq_iff_eq] at h
    cases k with
    | zero =>
      simp only [List.getElem?_cons_zero, Option.some.injEq] at hx hy
      subst hx; subst hy; exact ⟨h.1.1.symm, h.1.2⟩
    | succ k =>
      simp only [List.getElem?_cons_succ] at hx hy
      exact goObj_get xs ys h.2 k x y hx hy

/-! injectivity of the denotation on values without floats and wildcards -/

mutual
def plain : JVal → Bool
  | .null => true
  | .num _ => true
  | .f64 _ => false
  | .str _ => true
  | .anyStr => false
  | .arr xs => plainL xs
  | .obj kvs => plainM kvs
def plainL : List JVal → Bool
  | [] => true
  | x :: xs => plain x && plainL xs
def plainM : List (String × JVal) → Bool
  | [] => true
  | kv :: r => plain kv.2 && plainM r
end

theorem natLit_inj {m n : Nat} (h : (toString m).toList = (toString n).toList) : m = n := by
  have hm : (toString m).toList = Nat.toDigits 10 m := by simp
  have hn : (toString n).toList = Nat.toDigits 10 n := by simp
  rw [hm, hn] at h
  have := congrArg (fun l => Nat.ofDigitChars 10 l 0) h
  simpa [Nat.ofDigitChars_ten_toDigits] using this

theorem intLit_inj {a b : Int} (h : intLit a = intLit b) : a = b := by
  have hd : ∀ n : Nat, ∀ r, (toString n).toList ≠ '-' :: r := by
    intro n r hc
    have := (natLit_ok n).2.1 '-' (by rw [hc]; simp)
    revert this; decide
  cases a with
  | ofNat m =>
    cases b with
    | ofNat n => simp only [intLit] at h; rw [natLit_inj h]
    | negSucc n => simp only [intLit] at h; exact absurd h (hd _ _)
  | negSucc m =>
    cases b with
    | ofNat n => simp only [intLit] at h; exact absurd h.symm (hd _ _)
    | negSucc n =>
      simp only [intLit, List.cons.injEq, true_and] at h
      have := natLit_inj h
      have : m = n := by omega
      rw [this]

mutual
theorem jmatchT_inj : ∀ (v w : JVal) (t : JTree), plain v = true → plain w = true →
    jmatchT isFinite fmatch v t = true → jmatchT isFinite fmatch w t = true → v = w
  | .null, w, t, _, hw, h1, h2 => by
    cases t <;> simp [jmatchT] at h1
    cases w <;> simp [jmatchT, plain] at h2 hw ⊢
  | .num n, w, t, _, hw, h1, h2 => by
    cases t <;> simp [jmatchT] at h1
    cases w <;> simp [jmatchT, plain] at h2 hw ⊢
    subst h1
    exact intLit_inj h2
  | .f64 _, _, _, hv, _, _, _ => by simp [plain] at hv
  | .str b, w, t, _, hw, h1, h2 => by
    cases t <;> simp [jmatchT] at h1
    cases w <;> simp [jmatchT, plain] at h2 hw ⊢
    rw [← h1, ← h2]
  | .anyStr, _, _, hv, _, _, _ => by simp [plain] at hv
  | .arr xs, w, t, hv, hw, h1, h2 => by
    obtain ⟨ys, rfl, h1'⟩ := jmatchT_arr_inv isFinite fmatch h1
    cases w <;> simp [jmatchT, plain] at h2 hw ⊢
    rw [plain] at hv
    exact goArr_inj xs _ ys hv hw h1' h2
  | .obj kvs, w, t, hv, hw, h1, h2 => by
    obtain ⟨ms, rfl, h1'⟩ := jmatchT_obj_inv isFinite fmatch h1
    cases w <;> simp [jmatchT, plain] at h2 hw ⊢
    rw [plain] at hv
    exact goObj_inj kvs _ ms hv hw h1' h2
theorem goArr_inj : ∀ (xs ws : List JVal) (ys : List JTree), plainL xs = true → plainL ws = true →
    jmatchT.goArr isFinite fmatch xs ys = true → jmatchT.goArr isFinite fmatch ws ys = true → xs = ws
  | [], ws, ys, _, _, h1, h2 => by
    cases ys <;> simp [jmatchT.goArr] at h1
    cases ws <;> simp [jmatchT.goArr] at h2 ⊢
  | x :: xs, ws, ys, hv, hw, h1, h2 => by
    cases ys with
    | nil => simp [jmatchT.goArr] at h1
    | cons y ys =>
      cases ws with
      | nil => simp [jmatchT.goArr] at h2
      | cons w ws =>
        rw [jmatchT.goArr, Bool.and_eq_true] at h1 h2
        rw [plainL, Bool.and_eq_true] at hv hw
        rw [jmatchT_inj x w y hv.1 hw.1 h1.1 h2.1, goArr_inj xs ws ys hv.2 hw.2 h1.2 h2.2]
theorem goObj_inj : ∀ (kvs ws : List (String × JVal)) (ms : List (List Char × JTree)), plainM kvs = true →
    plainM ws = true → jmatchT.goObj isFinite fmatch kvs ms = true → jmatchT.goObj isFinite fmatch ws ms = true →
    kvs = ws
  | [], ws, ms, _, _, h1, h2 => by
    cases ms <;> simp [jmatchT.goObj] at h1
    cases ws <;> simp [jmatchT.goObj] at h2 ⊢
  | kv :: kvs, ws, ms, hv, hw, h1, h2 => by
    cases ms with
    | nil => simp [jmatchT.goObj] at h1
    | cons m ms =>
      cases ws with
      | nil => simp [jmatchT.goObj] at h2
      | cons w ws =>
        rw [jmatchT.goObj] at h1 h2
        simp only [Bool.and_eq_true, beq_iff_eq] at h1 h2
        rw [plainM, Bool.and_eq_true] at hv hw
        have hk : kv.1 = w.1 := String.toList_inj.mp (h1.1.1.trans h2.1.1.symm)
        have hvv := jmatchT_inj kv.2 w.2 m.2 hv.1 hw.1 h1.1.2 h2.1.2
        rw [goObj_inj kvs ws ms hv.2 hw.2 h1.2 h2.2]
        congr 1
        exact Prod.ext hk hvv
end

end Matcher

/-! ### a concrete UTF-8 decoder (core's) inverts `utf8Of` on valid UTF-8 -/

/-- valid UTF-8 (core's predicate: the bytes are the encoding of some list of characters) -/
def ValidUtf8 (b : Bytes) : Prop := b.toByteArray.IsValidUTF8

/-- a concrete UTF-8 decoder: core's `ByteArray.utf8Decode?` (empty on ill-formed input) -/
def decUtf8 (b : Bytes) : List Char :=
  match b.toByteArray.utf8Decode? with
  | some a => a.toList
  | none => []

theorem utf8Of_eq (s : List Char) : utf8Of s = s.utf8Encode.data.toList := by
  simp [utf8Of, List.utf8Encode]

theorem validUtf8_iff (b : Bytes) : ValidUtf8 b ↔ ∃ s, utf8Of s = b := by
  constructor
  · rintro ⟨m, hm⟩
    refine ⟨m, ?_⟩
    rw [utf8Of_eq, ← hm]; simp
  · rintro ⟨s, rfl⟩
    refine ⟨s, ?_⟩
    simp [utf8Of, List.utf8Encode]

/-- the decoder inverts the encoder on valid UTF-8 -/
theorem utf8Of_decUtf8 (b : Bytes) (h : ValidUtf8 b) : utf8Of (decUtf8 b) = b := by
  have hs : b.toByteArray.utf8Decode?.isSome := ByteArray.isSome_utf8Decode?_iff.2 h
  have := ByteArray.utf8Encode_get_utf8Decode? (b := b.toByteArray) (h := hs)
  rw [decUtf8]
  cases hd : b.toByteArray.utf8Decode? with
  | none => rw [hd] at hs; cases hs
  | some a =>
    simp only [hd, Option.get_some] at this ⊢
    rw [utf8Of_eq, this]; simp

theorem byteArray_toList_loop' (bs : ByteArray) : ∀ (k i : Nat) (r : List UInt8), bs.size - i = k → i ≤ bs.size →
    ByteArray.toList.loop bs i r = r.reverse ++ bs.data.toList.drop i := by
  have hsz : bs.data.toList.length = bs.size := by simp
  intro k
  induction k with
  | zero =>
    intro i r hk hi
    rw [ByteArray.toList.loop]
    have : ¬ i < bs.size := by omega
    simp only [this, ↓reduceIte]
    rw [List.drop_eq_nil_of_le (by omega)]; simp
  | succ k ih =>
    intro i r hk hi
    rw [ByteArray.toList.loop]
    have hlt : i < bs.size := by omega
    simp only [hlt, ↓reduceIte]
    rw [ih (i+1) _ (by omega) (by omega)]
    have h2 : i < bs.data.toList.length := by omega
    rw [List.drop_eq_getElem_cons h2]
    simp [ByteArray.get!]
    exact getElem!_pos bs.data i (by simpa using hlt)

theorem byteArray_toList' (bs : ByteArray) : bs.toList = bs.data.toList := by
  unfold ByteArray.toList
  rw [byteArray_toList_loop' bs _ 0 [] rfl (Nat.zero_le _)]; simp

/-- the bytes of a Lean `String` are valid UTF-8 and decode to its characters -/
theorem utf8Of_toList (s : String) : utf8Of s.toList = s.toUTF8.toList := by
  rw [utf8Of_eq, String.utf8Encode_toList, byteArray_toList']
  rfl

theorem validUtf8_string (s : String) : ValidUtf8 s.toUTF8.toList :=
  (validUtf8_iff _).2 ⟨s.toList, utf8Of_toList s⟩

/-! ### `Leaves`: Boolean version (for evaluation) and trivial cases -/

mutual
def leavesB (p : Nat → Bool) (q : Bytes → Bool) : JVal → Bool
  | .null => true
  | .num _ => true
  | .f64 bits => p bits
  | .str b => q b
  | .anyStr => true
  | .arr xs => leavesBL p q xs
  | .obj kvs => leavesBM p q kvs
def leavesBL (p : Nat → Bool) (q : Bytes → Bool) : List JVal → Bool
  | [] => true
  | x :: xs => leavesB p q x && leavesBL p q xs
def leavesBM (p : Nat → Bool) (q : Bytes → Bool) : List (String × JVal) → Bool
  | [] => true
  | kv :: r => leavesB p q kv.2 && leavesBM p q r
end

mutual
theorem leavesB_sound (p : Nat → Bool) (q : Bytes → Bool) : ∀ (v : JVal), leavesB p q v = true →
    Leaves (fun b => p b = true) (fun b => q b = true) v
  | .null, _ => by rw [Leaves]; trivial
  | .num _, _ => by rw [Leaves]; trivial
  | .f64 bits, h => by rw [leavesB] at h; rw [Leaves]; exact h
  | .str b, h => by rw [leavesB] at h; rw [Leaves]; exact h
  | .anyStr, _ => by rw [Leaves]; trivial
  | .arr xs, h => by rw [leavesB] at h; rw [Leaves]; exact leavesBL_sound p q xs h
  | .obj kvs, h => by rw [leavesB] at h; rw [Leaves]; exact leavesBM_sound p q kvs h
theorem leavesBL_sound (p : Nat → Bool) (q : Bytes → Bool) : ∀ (xs : List JVal), leavesBL p q xs = true →
    LeavesL (fun b => p b = true) (fun b => q b = true) xs
  | [], _ => by rw [LeavesL]; trivial
  | x :: xs, h => by
    rw [leavesBL, Bool.and_eq_true] at h
    rw [LeavesL]; exact ⟨leavesB_sound p q x h.1, leavesBL_sound p q xs h.2⟩
theorem leavesBM_sound (p : Nat → Bool) (q : Bytes → Bool) : ∀ (kvs : List (String × JVal)), leavesBM p q kvs = true →
    LeavesM (fun b => p b = true) (fun b => q b = true) kvs
  | [], _ => by rw [LeavesM]; trivial
  | kv :: r, h => by
    rw [leavesBM, Bool.and_eq_true] at h
    rw [LeavesM]; exact ⟨leavesB_sound p q kv.2 h.1, leavesBM_sound p q r h.2⟩
end

mutual
theorem Leaves.of_forall {P : Nat → Prop} {Q : Bytes → Prop} (hP : ∀ b, P b) (hQ : ∀ b, Q b) : ∀ (v : JVal), Leaves P Q v
  | .null => by rw [Leaves]; trivial
  | .num _ => by rw [Leaves]; trivial
  | .f64 bits => by rw [Leaves]; exact hP _
  | .str b => by rw [Leaves]; exact hQ _
  | .anyStr => by rw [Leaves]; trivial
  | .arr xs => by rw [Leaves]; exact LeavesL.of_forall hP hQ xs
  | .obj kvs => by rw [Leaves]; exact LeavesM.of_forall hP hQ kvs
theorem LeavesL.of_forall {P : Nat → Prop} {Q : Bytes → Prop} (hP : ∀ b, P b) (hQ : ∀ b, Q b) :
    ∀ (xs : List JVal), LeavesL P Q xs
  | [] => by rw [LeavesL]; trivial
  | x :: xs => by rw [LeavesL]; exact ⟨Leaves.of_forall hP hQ x, LeavesL.of_forall hP hQ xs⟩
theorem LeavesM.of_forall {P : Nat → Prop} {Q : Bytes → Prop} (hP : ∀ b, P b) (hQ : ∀ b, Q b) :
    ∀ (kvs : List (String × JVal)), LeavesM P Q kvs
  | [] => by rw [LeavesM]; trivial
  | kv :: r => by rw [LeavesM]; exact ⟨Leaves.of_forall hP hQ kv.2, LeavesM.of_forall hP hQ r⟩
end

/-- an ASCII-only decoder that evaluates in the kernel (for the examples) -/
def decAscii (b : Bytes) : List Char := b.map fun x => Char.ofNat x.toNat

end Netflow.J1
