/-
  Lemmas/A5V9Field.lean — layer (b) of the C04 proof: one field.  For every library type `ty` and
  content `bs` with `Spec.interpSpec names ty bs = some v`, the model's `parseValue` returns `v`
  and exactly the bytes after `bs` — under the side condition `fieldOk`, which carves out the
  classes where the crate deviates (each with a `…_fails` witness below).
-/
import NetflowModel.Lemmas.A5V9Bytes
import NetflowModel.Generated
import NetflowModel.Spec.Expected
namespace Netflow
open Spec

/-- facts about the arm table of `DataNumber::parse` that the round trip needs: which variant each
    supported `(length, signed)` pair produces (decidable; `Generated.dnArms` by `decide`) -/
def DnArmsOk (arms : DnArms) : Prop :=
  arms.lookup (1, false) = some .u8 ∧ arms.lookup (2, false) = some .u16 ∧ arms.lookup (3, false) = some .u24 ∧
  arms.lookup (4, false) = some .u32 ∧ arms.lookup (8, false) = some .u64 ∧ arms.lookup (16, false) = some .u128 ∧
  arms.lookup (1, true) = some .i32 ∧ arms.lookup (2, true) = some .i32 ∧ arms.lookup (3, true) = some .i24 ∧
  arms.lookup (4, true) = some .i32 ∧ arms.lookup (8, true) = some .i32 ∧ arms.lookup (16, true) = some .i32

instance (arms : DnArms) : Decidable (DnArmsOk arms) := by unfold DnArmsOk; infer_instance

theorem dnArmsOk_generated : DnArmsOk Generated.dnArms := by decide

/-- the per-field side condition of the round trip: the classes in which the crate is KNOWN to
    deviate from the per-type big-endian interpretation are excluded.
    * `.proto`: the crate parses the protocol byte *by enum discriminant*; the condition asks that
      this gives the variant carrying the IANA name (false for 146..254 with the generated table);
    * `.signed` of width 8 / 16: the crate stores `j as i32`; the value must fit 32 bits;
    * `.unknown`: decoded (as raw bytes) only with the cargo feature `parse_unknown_fields`. -/
def fieldOk (c : Config) (names : List (Nat × String)) (ty : FType) (bs : Bytes) : Bool :=
  match ty with
  | .proto => c.t.protoParse (beNat bs) == protoDiscOf names (beNat bs)
  | .signed => !(bs.length == 8 || bs.length == 16) || (decide (-(2 ^ 31 : Int) ≤ beInt bs) && decide (beInt bs < (2 ^ 31 : Int)))
  | .unknown => c.unknownFields
  | _ => true

theorem dnParse_append (arms : DnArms) (len : Nat) (signed : Bool) (arm : DnArm) (bs r : Bytes)
    (hl : bs.length = len) (ha : arms.lookup (len, signed) = some arm) :
    DataNumber.parse arms len signed (bs ++ r) = some (DataNumber.make arm signed bs, r) := by
  simp only [DataNumber.parse, ha, takeN_append bs r hl]

theorem unsignedOf_parse {arms : DnArms} (harms : DnArmsOk arms) (bs r : Bytes) (d : DataNumber)
    (h : unsignedOf bs = some d) : DataNumber.parse arms bs.length false (bs ++ r) = some (d, r) := by
  obtain ⟨a1, a2, a3, a4, a8, a16, -⟩ := harms
  unfold unsignedOf at h
  split at h
  · next hl => rw [hl, dnParse_append arms 1 false _ bs r hl a1]; simp only [Option.some.injEq] at h; simp [DataNumber.make, h]
  · next hl => rw [hl, dnParse_append arms 2 false _ bs r hl a2]; simp only [Option.some.injEq] at h; simp [DataNumber.make, h]
  · next hl => rw [hl, dnParse_append arms 3 false _ bs r hl a3]; simp only [Option.some.injEq] at h; simp [DataNumber.make, h]
  · next hl => rw [hl, dnParse_append arms 4 false _ bs r hl a4]; simp only [Option.some.injEq] at h; simp [DataNumber.make, h]
  · next hl => rw [hl, dnParse_append arms 8 false _ bs r hl a8]; simp only [Option.some.injEq] at h; simp [DataNumber.make, h]
  · next hl => rw [hl, dnParse_append arms 16 false _ bs r hl a16]; simp only [Option.some.injEq] at h; simp [DataNumber.make, h]
  · simp at h

/-- for the duration widths the unsigned variant exists and its `usize` image is the value -/
theorem unsignedOf_dur (bs : Bytes) (h : bs.length ∈ [1, 2, 3, 4, 8]) :
    ∃ d, unsignedOf bs = some d ∧ d.toUsize = beNat bs := by
  simp only [List.mem_cons, List.not_mem_nil, or_false] at h
  rcases h with h | h | h | h | h <;> simp [unsignedOf, h, DataNumber.toUsize]

/-- `j as i32` of a value that fits 32 bits is the value (sign extension) -/
theorem wrap32_roundtrip (z : Int) (h1 : -(2 ^ 31 : Int) ≤ z) (h2 : z < (2 ^ 31 : Int)) :
    wrapSigned 32 (wrapUnsigned 32 z) = z := by
  have e : ((2 ^ 32 : Nat) : Int) = 4294967296 := by decide
  have e2 : (2 : Nat) ^ 32 = 4294967296 := by decide
  simp only [wrapSigned, wrapUnsigned, e, e2]
  have h1' : -2147483648 ≤ z := by simpa using h1
  have h2' : z < 2147483648 := by simpa using h2
  split <;> omega

theorem beInt_bounds (bs : Bytes) : -(256 ^ bs.length : Int) ≤ 2 * beInt bs ∧ 2 * beInt bs < (256 ^ bs.length : Int) := by
  have hlt := beNat_lt bs
  simp only [beInt]
  have hc : ((256 ^ bs.length : Nat) : Int) = (256 : Int) ^ bs.length := by simp
  split
  · next h =>
    constructor
    · have : (0 : Int) ≤ (256 : Int) ^ bs.length := Int.pow_nonneg (by decide)
      omega
    · rw [← hc]; omega
  · next h =>
    rw [← hc]
    constructor <;> omega

theorem signedOf_parse {arms : DnArms} (harms : DnArmsOk arms) (bs r : Bytes) (d : DataNumber)
    (h : signedOf bs = some d)
    (hfit : (bs.length = 8 ∨ bs.length = 16) → -(2 ^ 31 : Int) ≤ beInt bs ∧ beInt bs < (2 ^ 31 : Int)) :
    DataNumber.parse arms bs.length true (bs ++ r) = some (d, r) := by
  obtain ⟨-, -, -, -, -, -, a1, a2, a3, a4, a8, a16⟩ := harms
  have hb := beInt_bounds bs
  unfold signedOf at h
  split at h
  · next hl =>
    rw [hl, dnParse_append arms 1 true _ bs r hl a1]; simp only [Option.some.injEq] at h
    rw [hl] at hb
    simp only [DataNumber.make, ↓reduceIte, ← h]
    rw [wrap32_roundtrip _ (by omega) (by omega)]
  · next hl =>
    rw [hl, dnParse_append arms 2 true _ bs r hl a2]; simp only [Option.some.injEq] at h
    rw [hl] at hb
    simp only [DataNumber.make, ↓reduceIte, ← h]
    rw [wrap32_roundtrip _ (by omega) (by omega)]
  · next hl =>
    rw [hl, dnParse_append arms 4 true _ bs r hl a4]; simp only [Option.some.injEq] at h
    rw [hl] at hb
    simp only [DataNumber.make, ↓reduceIte, ← h]
    rw [wrap32_roundtrip _ (by omega) (by omega)]
  · next hl =>
    rw [hl, dnParse_append arms 8 true _ bs r hl a8]; simp only [Option.some.injEq] at h
    obtain ⟨f1, f2⟩ := hfit (Or.inl hl)
    simp only [DataNumber.make, ↓reduceIte, ← h]
    rw [wrap32_roundtrip _ f1 f2]
  · next hl =>
    rw [hl, dnParse_append arms 16 true _ bs r hl a16]; simp only [Option.some.injEq] at h
    obtain ⟨f1, f2⟩ := hfit (Or.inr hl)
    simp only [DataNumber.make, ↓reduceIte, ← h]
    rw [wrap32_roundtrip _ f1 f2]
  · next hl =>
    rw [hl, dnParse_append arms 3 true _ bs r hl a3]; simp only [Option.some.injEq] at h
    simp only [DataNumber.make, ↓reduceIte, ← h]
  · simp at h

/-- LAYER (b): one field round-trips. -/
theorem parseValue_interp (c : Config) (names : List (Nat × String)) (harms : DnArmsOk c.t.dnArms)
    (ty : FType) (bs r : Bytes) (v : FieldValue)
    (hi : interpSpec names ty bs = some v) (hok : fieldOk c names ty bs = true) :
    parseValue c.vc ty bs.length (bs ++ r) = some (v, r) := by
  have hdur : bs.length ∈ [1, 2, 3, 4, 8] →
      ∃ d, DataNumber.parse c.vc.dnArms bs.length false (bs ++ r) = some (d, r) ∧ d.toUsize = beNat bs := by
    intro hm
    obtain ⟨d, hd, hu⟩ := unsignedOf_dur bs hm
    have : c.vc.dnArms = c.t.dnArms := rfl
    exact ⟨d, by rw [this, unsignedOf_parse harms bs r d hd], hu⟩
  cases ty with
  | unsigned =>
    simp only [interpSpec, Option.map_eq_some_iff] at hi
    obtain ⟨d, hd, rfl⟩ := hi
    have : c.vc.dnArms = c.t.dnArms := rfl
    simp only [parseValue, this, unsignedOf_parse harms bs r d hd]
  | signed =>
    simp only [interpSpec, Option.map_eq_some_iff] at hi
    obtain ⟨d, hd, rfl⟩ := hi
    have : c.vc.dnArms = c.t.dnArms := rfl
    have hfit : (bs.length = 8 ∨ bs.length = 16) → -(2 ^ 31 : Int) ≤ beInt bs ∧ beInt bs < (2 ^ 31 : Int) := by
      intro hw
      simp only [fieldOk, Bool.or_eq_true, Bool.not_eq_true', Bool.and_eq_true, decide_eq_true_eq,
        Bool.or_eq_false_iff, beq_eq_false_iff_ne] at hok
      rcases hok with hok | hok
      · omega
      · exact hok
    simp only [parseValue, this, signedOf_parse harms bs r d hd hfit]
  | str =>
    simp only [interpSpec, Option.some.injEq] at hi
    simp only [parseValue, takeN_append bs r rfl, hi]
  | ip4 =>
    simp only [interpSpec] at hi
    split at hi
    · next hl => simp only [Option.some.injEq] at hi; simp only [parseValue, beU_append bs r hl, hi]
    · simp at hi
  | ip6 =>
    simp only [interpSpec] at hi
    split at hi
    · next hl => simp only [Option.some.injEq] at hi; simp only [parseValue, beU_append bs r hl, hi]
    · simp at hi
  | mac =>
    simp only [interpSpec] at hi
    split at hi
    · next hl => simp only [Option.some.injEq] at hi; simp only [parseValue, takeN_append bs r hl, hi]
    · simp at hi
  | f64 =>
    simp only [interpSpec] at hi
    split at hi
    · next hl => simp only [Option.some.injEq] at hi; simp only [parseValue, beU_append bs r hl, hi]
    · simp at hi
  | vec =>
    simp only [interpSpec, Option.some.injEq] at hi
    simp only [parseValue, takeN_append bs r rfl, hi]
  | unknown =>
    simp only [interpSpec, Option.some.injEq] at hi
    simp only [fieldOk] at hok
    have : c.vc.unknownFields = true := hok
    simp only [parseValue, this, ↓reduceIte, takeN_append bs r rfl, hi]
  | proto =>
    simp only [interpSpec] at hi
    split at hi
    · next hl =>
      simp only [Option.map_eq_some_iff] at hi
      obtain ⟨p, hp, rfl⟩ := hi
      simp only [fieldOk, beq_iff_eq] at hok
      have : c.vc.protoParse = c.t.protoParse := rfl
      simp only [parseValue, beU_append bs r hl, this, hok, hp]
    · simp at hi
  | durS =>
    simp only [interpSpec] at hi
    split at hi
    · next hm =>
      simp only [Option.some.injEq] at hi
      obtain ⟨d, hd, hu⟩ := hdur hm
      simp only [parseValue, hd, durOf, hu, ← hi, Nat.div_one, Nat.mod_one, Nat.zero_mul]
    · simp at hi
  | durMs =>
    simp only [interpSpec] at hi
    split at hi
    · next hm =>
      simp only [Option.some.injEq] at hi
      obtain ⟨d, hd, hu⟩ := hdur hm
      simp only [parseValue, hd, durOf, hu, ← hi]
    · simp at hi
  | durUs =>
    simp only [interpSpec] at hi
    split at hi
    · next hm =>
      simp only [Option.some.injEq] at hi
      obtain ⟨d, hd, hu⟩ := hdur hm
      simp only [parseValue, hd, durOf, hu, ← hi]
    · simp at hi
  | durNs =>
    simp only [interpSpec] at hi
    split at hi
    · next hm =>
      simp only [Option.some.injEq] at hi
      obtain ⟨d, hd, hu⟩ := hdur hm
      simp only [parseValue, hd, durOf, hu, ← hi, Nat.div_self (by decide : 0 < 1000000000), Nat.mul_one]
    · simp at hi

/-- for the generated tables the discriminant parse gives the IANA variant exactly off 146..254 -/
def protoAgreeB (n : Nat) : Bool :=
  (Generated.tables.protoParse n == protoDiscOf Generated.protoNames n) == !(decide (146 ≤ n) && decide (n ≤ 254))

theorem protoAgree_0 : ∀ n, n < 64 → protoAgreeB n = true := by decide +kernel
theorem protoAgree_1 : ∀ n, n < 64 → protoAgreeB (64 + n) = true := by decide +kernel
theorem protoAgree_2 : ∀ n, n < 64 → protoAgreeB (128 + n) = true := by decide +kernel
theorem protoAgree_3 : ∀ n, n < 64 → protoAgreeB (192 + n) = true := by decide +kernel

theorem fieldOk_proto_generated :
    ∀ n, n < 256 → (Generated.tables.protoParse n == protoDiscOf Generated.protoNames n) = !(decide (146 ≤ n) && decide (n ≤ 254)) := by
  intro n hn
  have key : protoAgreeB n = true := by
    by_cases h0 : n < 64
    · exact protoAgree_0 n h0
    · by_cases h1 : n < 128
      · have := protoAgree_1 (n - 64) (by omega)
        rwa [show 64 + (n - 64) = n by omega] at this
      · by_cases h2 : n < 192
        · have := protoAgree_2 (n - 128) (by omega)
          rwa [show 128 + (n - 128) = n by omega] at this
        · have := protoAgree_3 (n - 192) (by omega)
          rwa [show 192 + (n - 192) = n by omega] at this
  simpa [protoAgreeB] using key

/-- non-vacuity of `parseValue_interp`: a 2-byte unsigned field, a millisecond duration, protocol 17 -/
example : DnArmsOk Generated.dnArms ∧
    interpSpec Generated.protoNames .unsigned [1, 2] = some (.num (.u16 258)) ∧
    interpSpec Generated.protoNames .durMs [0, 0, 4, 210] = some (.dur 1 234000000) ∧
    interpSpec Generated.protoNames .proto [17] = some (.proto 17) ∧
    fieldOk { t := Generated.tables, allowed := [9] } Generated.protoNames .proto [17] = true := by decide +kernel

/-- `x as i32` always lands in the 32-bit signed range -/
theorem wrapSigned32_range (n : Nat) : -(2 ^ 31 : Int) ≤ wrapSigned 32 n ∧ wrapSigned 32 n < (2 ^ 31 : Int) := by
  have e : ((2 ^ 32 : Nat) : Int) = 4294967296 := by decide
  have e2 : (2 : Nat) ^ 32 = 4294967296 := by decide
  have e3 : (2 : Int) ^ 31 = 2147483648 := by decide
  simp only [wrapSigned, e, e2, e3]
  split <;> omega

/-- the side condition is EXACT: whenever the spec assigns a value to the field, the parser returns
    that value (and the right remaining input) if and only if `fieldOk` holds. -/
theorem parseValue_interp_iff (c : Config) (names : List (Nat × String)) (harms : DnArmsOk c.t.dnArms)
    (ty : FType) (bs r : Bytes) (v : FieldValue) (hi : interpSpec names ty bs = some v) :
    parseValue c.vc ty bs.length (bs ++ r) = some (v, r) ↔ fieldOk c names ty bs = true := by
  refine ⟨fun hp => ?_, parseValue_interp c names harms ty bs r v hi⟩
  cases ty with
  | proto =>
    simp only [interpSpec] at hi
    split at hi
    · next hl =>
      simp only [Option.map_eq_some_iff] at hi
      obtain ⟨p0, hp0, rfl⟩ := hi
      have : c.vc.protoParse = c.t.protoParse := rfl
      simp only [parseValue, beU_append bs r hl, this] at hp
      simp only [fieldOk, beq_iff_eq, hp0]
      cases hq : c.t.protoParse (beNat bs) with
      | none => simp [hq] at hp
      | some q => simp only [hq, Option.some.injEq, Prod.mk.injEq, FieldValue.proto.injEq, and_true] at hp; rw [hp]
    · simp at hi
  | unknown =>
    simp only [fieldOk]
    cases hu : c.unknownFields with
    | true => rfl
    | false =>
      have : c.vc.unknownFields = false := hu
      simp [parseValue, this] at hp
  | signed =>
    simp only [fieldOk, Bool.or_eq_true, Bool.not_eq_true', Bool.and_eq_true, decide_eq_true_eq,
      Bool.or_eq_false_iff, beq_eq_false_iff_ne]
    by_cases hw : bs.length = 8 ∨ bs.length = 16
    · right
      obtain ⟨-, -, -, -, -, -, -, -, -, -, a8, a16⟩ := harms
      have harm : c.t.dnArms.lookup (bs.length, true) = some .i32 := by
        rcases hw with hw | hw <;> rw [hw] <;> assumption
      have hd : signedOf bs = some (.i32 (beInt bs)) := by
        rcases hw with hw | hw <;> simp [signedOf, hw]
      simp only [interpSpec, hd, Option.map_some, Option.some.injEq] at hi
      have : c.vc.dnArms = c.t.dnArms := rfl
      simp only [parseValue, this, dnParse_append c.t.dnArms bs.length true _ bs r rfl harm, DataNumber.make,
        ↓reduceIte, ← hi, Option.some.injEq, Prod.mk.injEq, FieldValue.num.injEq, DataNumber.i32.injEq, and_true] at hp
      rw [← hp]
      exact wrapSigned32_range _
    · left; omega
  | unsigned => rfl
  | str => rfl
  | ip4 => rfl
  | ip6 => rfl
  | mac => rfl
  | f64 => rfl
  | vec => rfl
  | durS => rfl
  | durMs => rfl
  | durUs => rfl
  | durNs => rfl

/-! ### the side condition for the generated V9 tables -/

theorem lookupD_of_all {β : Type} (tbl : List (Nat × β)) (dflt : β) (q : β → Bool)
    (hall : tbl.all (fun p => q p.2) = true) (hd : q dflt = true) (n : Nat) : q (Generated.lookupD tbl dflt n) = true := by
  unfold Generated.lookupD
  cases hl : tbl.lookup n with
  | none => simpa using hd
  | some b =>
    have := List.all_eq_true.mp hall (n, b) (lookup_mem hl)
    simpa using this

/-- no V9 field type of the generated table is `.signed`: for V9 the wide-signed carve-out is vacuous
    (it matters for IPFIX only) -/
theorem v9Ty_generated_not_signed (d : Nat) : Generated.tables.v9Ty d ≠ .signed := by
  have := lookupD_of_all Generated.v9TyTbl Generated.v9TyDefault (fun t => t != .signed) (by decide +kernel) (by decide) d
  have h2 : Generated.lookupD Generated.v9TyTbl Generated.v9TyDefault d ≠ .signed := by simpa using this
  exact h2

/-- for the generated tables the protocol condition is exactly "not 146..254" -/
theorem fieldOk_proto_generated_iff (allowed : List Nat) (uf : Bool) (bs : Bytes) (hl : bs.length = 1) :
    fieldOk { t := Generated.tables, allowed := allowed, unknownFields := uf } Generated.protoNames .proto bs =
      !(decide (146 ≤ beNat bs) && decide (beNat bs ≤ 254)) := by
  have hlt := beNat_lt bs
  rw [hl] at hlt
  simp only [fieldOk]
  exact fieldOk_proto_generated (beNat bs) (by omega)

/-! ### witnesses: each carved-out class really deviates (generated tables) -/

/-- the configuration of the shipped crate: generated tables, all four versions allowed -/
def genConfig : Config := { t := Generated.tables, allowed := [5, 7, 9, 10] }

/-- (i) protocol numbers 146..254: the spec says `Unknown` (discriminant 145), the crate's
    discriminant-based `ProtocolTypes::parse` fails, so the whole record is lost -/
theorem parseValue_proto_fails :
    interpSpec Generated.protoNames .proto [200] = some (.proto 145) ∧
    parseValue genConfig.vc .proto 1 [200] = none := by decide +kernel

/-- (ii) an 8-byte signed field holding 2^32: the spec value is 4294967296, the crate reports 0 -/
theorem parseValue_signed_wide_fails :
    interpSpec Generated.protoNames .signed [0, 0, 0, 1, 0, 0, 0, 0] = some (.num (.i32 4294967296)) ∧
    parseValue genConfig.vc .signed 8 [0, 0, 0, 1, 0, 0, 0, 0] = some (.num (.i32 0), []) := by decide +kernel

/-- (iv) without `parse_unknown_fields` a field of unknown type makes the record undecodable -/
theorem parseValue_unknown_fails :
    interpSpec Generated.protoNames .unknown [1, 2] = some (.vec [1, 2]) ∧
    parseValue { genConfig with unknownFields := false }.vc .unknown 2 [1, 2] = none := by decide +kernel

end Netflow
