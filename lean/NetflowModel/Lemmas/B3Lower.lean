/-
  Lemmas/B3Lower.lean — the zero-length-field defect, parametrically: an IPFIX template with `k`
  zero-length fields and one 1-byte field turns EVERY body byte into `k + 1` maps.  Enterprise
  fields are used so that the statement does not depend on the generated tables.
-/
import NetflowModel.Lemmas.B3CostIp
namespace Netflow.B3
open Netflow Cost

/-- `k` enterprise fields of declared length 0, then one of length 1 -/
def zeroFs (k : Nat) : List IpTField := List.replicate k ⟨1, 0, some 0⟩ ++ [⟨1, 1, some 0⟩]

theorem zeroFs_zero : zeroFs 0 = [⟨1, 1, some 0⟩] := rfl

theorem zeroFs_succ (k : Nat) : zeroFs (k + 1) = ⟨1, 0, some 0⟩ :: zeroFs k := by
  simp [zeroFs, List.replicate_succ]

theorem zeroFs_length (k : Nat) : (zeroFs k).length = k + 1 := by simp [zeroFs]

theorem ipParseValue_zero (c : Config) (i : Bytes) :
    ipParseValue c ⟨1, 0, some 0⟩ i = some (.vec [], i) := by
  simp [ipParseValue, ipFieldLength, takeN]

theorem ipParseValue_one (c : Config) (b : UInt8) (rest : Bytes) :
    ipParseValue c ⟨1, 1, some 0⟩ (b :: rest) = some (.vec [b], rest) := by
  simp [ipParseValue, ipFieldLength, takeN]

/-- one record: `k + 1` maps for one byte -/
theorem ipParseRec_zeroFs (c : Config) :
    ∀ (k idx : Nat) (b : UInt8) (rest : Bytes),
      ∃ es, ipParseRec c (zeroFs k) idx (b :: rest) = some (es, rest) ∧ es.length = k + 1 ∧
        (es.map recSize).sum = 112 * (k + 1) + 1 := by
  intro k
  induction k with
  | zero =>
    intro idx b rest
    refine ⟨[[(idx, ipFieldDisc c ⟨1, 1, some 0⟩, .vec [b])]], ?_, rfl, ?_⟩
    · simp only [zeroFs_zero, ipParseRec, ipParseValue_one]
    · simp [recSize, valueSize]
  | succ k ih =>
    intro idx b rest
    obtain ⟨es, h1, h2, h3⟩ := ih (idx + 1) b rest
    refine ⟨[(idx, ipFieldDisc c ⟨1, 0, some 0⟩, .vec [])] :: es, ?_, by simp [h2], ?_⟩
    · simp only [zeroFs_succ, ipParseRec, ipParseValue_zero, h1]
    · simp only [List.map_cons, List.sum_cons, h3]
      simp only [recSize, valueSize, List.map_cons, List.map_nil, List.sum_cons, List.sum_nil, List.length_nil]
      omega

/-- the record loop: `(k + 1)·|body|` maps of total size `(112·(k + 1) + 1)·|body|`, no padding -/
theorem ipRecLoop_zeroFs (c : Config) (k : Nat) :
    ∀ (body : Bytes) (fuel : Nat), body ≠ [] → body.length ≤ fuel →
      ∃ recs, ipRecLoop c (zeroFs k) fuel body = .ok (recs, []) ∧ recs.length = (k + 1) * body.length ∧
        (recs.map recSize).sum = (112 * (k + 1) + 1) * body.length := by
  intro body
  induction body with
  | nil => intro _ h; exact absurd rfl h
  | cons b rest ih =>
    intro fuel _ hf
    cases fuel with
    | zero => simp at hf
    | succ f =>
      obtain ⟨es, h1, h2, h3⟩ := ipParseRec_zeroFs c k 0 b rest
      have ht : (b :: rest).length - rest.length = 1 := by simp only [List.length_cons]; omega
      simp only [ipRecLoop, h1, ht]
      by_cases hr : rest = []
      · subst hr
        refine ⟨es, by simp, by simp [h2], by simp [h3]⟩
      · have hl : 1 ≤ rest.length := by
          cases rest with
          | nil => exact absurd rfl hr
          | cons _ _ => simp
        simp only [List.length_cons] at hf
        obtain ⟨recs, a1, a2, a3⟩ := ih f hr (by omega)
        refine ⟨es ++ recs, ?_, ?_, ?_⟩
        · simp [hl, a1]
        · rw [List.length_append, h2, a2, List.length_cons, Nat.mul_succ (k + 1)]; omega
        · rw [sum_map_append, h3, a3, List.length_cons, Nat.mul_succ (112 * (k + 1) + 1)]; omega

/-- the same at the level of `FlowSetBody::parse`: a data set decoded with a cached template whose
    fields are `zeroFs k` -/
theorem ipParseBody_zeroFs (c : Config) (st : PState) (id k : Nat) (t : IpTemplate) (body : Bytes)
    (h1 : ¬ (id < c.t.ipSetMinRange ∧ id ≠ c.t.ipOptTemplateId)) (h2 : id ≠ c.t.ipOptTemplateId)
    (hl : amLookup id st.ipT = some t) (ht : t.fields = zeroFs k) (hb : body ≠ []) :
    ∃ recs, ipParseBody c st id body = (st, .ok (.data recs [])) ∧ recs.length = (k + 1) * body.length ∧
      (recs.map recSize).sum = (112 * (k + 1) + 1) * body.length := by
  obtain ⟨recs, a1, a2, a3⟩ := ipRecLoop_zeroFs c k body (body.length + 1) hb (by omega)
  refine ⟨recs, ?_, a2, a3⟩
  unfold ipParseBody
  rw [if_neg h1, if_neg h2]
  simp only [hl, ht, a1]
  simp [zeroFs]

theorem arith1 (D n : Nat) : D * (n + (4 + 4 * n)) = D * n + (D * 4 + 4 * (D * n)) := by
  rw [Nat.mul_add, Nat.mul_add, Nat.mul_left_comm]

theorem arith2 (n : Nat) : (112 * n + 1) * n = 112 * (n * n) + n := by
  rw [Nat.add_mul, Nat.mul_assoc, Nat.one_mul]

/-- no constants `D`, `E` bound the size of the records by the body bytes plus the wire size
    (`4 + 4·fields`) of the template they are decoded with -/
theorem zeroFs_unbounded (c : Config) (D E : Nat) :
    ∃ (k : Nat) (body : Bytes) (recs : List Rec),
      ipRecLoop c (zeroFs k) (body.length + 1) body = .ok (recs, []) ∧
      D * (body.length + (4 + 4 * (zeroFs k).length)) + E < (recs.map recSize).sum := by
  let k := D + E
  have hne : List.replicate (k + 1) (0 : UInt8) ≠ [] := by simp [List.replicate_succ]
  obtain ⟨recs, h1, _, h3⟩ := ipRecLoop_zeroFs c k (List.replicate (k + 1) 0) ((List.replicate (k + 1) (0 : UInt8)).length + 1)
    hne (by omega)
  refine ⟨k, List.replicate (k + 1) 0, recs, h1, ?_⟩
  rw [h3, zeroFs_length, List.length_replicate]
  have e1 : D * (k + 1 + (4 + 4 * (k + 1))) = D * (k + 1) + (D * 4 + 4 * (D * (k + 1))) := arith1 D (k + 1)
  have e2 : (112 * (k + 1) + 1) * (k + 1) = 112 * ((k + 1) * (k + 1)) + (k + 1) := arith2 (k + 1)
  have hD : D * (k + 1) ≤ (k + 1) * (k + 1) := Nat.mul_le_mul_right _ (by omega)
  have hD4 : D ≤ D * (k + 1) := Nat.le_mul_of_pos_right _ (by omega)
  have hk : k + 1 ≤ (k + 1) * (k + 1) := Nat.le_mul_of_pos_right _ (by omega)
  have hE : E ≤ k := by omega
  rw [e1, e2]
  omega

end Netflow.B3
