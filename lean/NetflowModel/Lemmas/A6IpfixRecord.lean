/-
  Lemmas/A6IpfixRecord.lean — layers (e) and (f) of the C05 print-then-parse proof: one data
  record (`ipParseRec`) and the record loop of a data set (`ipRecLoop`).
-/
import NetflowModel.Lemmas.A6IpfixValue
namespace Netflow
open Spec

theorem allSome_cons_inv {α : Type} {x : Option α} {xs : List (Option α)} {es : List α}
    (h : allSome (x :: xs) = some es) : ∃ a as, x = some a ∧ allSome xs = some as ∧ es = a :: as := by
  cases x with
  | none => simp [allSome] at h
  | some a =>
    simp only [allSome] at h
    cases hx : allSome xs with
    | none => simp [hx] at h
    | some as =>
      simp only [hx, Option.map_some, Option.some.injEq] at h
      exact ⟨a, as, rfl, rfl, h.symm⟩

/-! ### (e) one record -/

/-- value-level side conditions of one record -/
def recValOk (c : Config) (fs : List IpTField) (r : List FieldBytes) : Bool :=
  (fs.zip r).all fun p => ipFieldValOk c p.1 p.2

/-- `Spec.expIpRec` with the index of the first field generalised -/
def expIpRecFrom (c : Config) (names : List (Nat × String)) (idx : Nat) (fs : List IpTField) (r : List FieldBytes) :
    Option (List Rec) :=
  allSome (((fs.zip r).zipIdx idx).map fun p =>
    (expIpField c names p.1.1 p.1.2).map fun v =>
      [(p.2, (match p.1.1.ent with | some _ => c.t.ipEnterprise | none => c.t.ipField p.1.1.typ), v)])

theorem ipParseRec_enc_from (c : Config) (names : List (Nat × String))
    (harms : DnArmsOk_a6 c.t.dnArms = true) (hnp : NoProto c) :
    ∀ (fs : List IpTField) (r : List FieldBytes) (idx : Nat) (es : List Rec) (rest : Bytes),
      fs.length = r.length → recValOk c fs r = true → expIpRecFrom c names idx fs r = some es →
      ipParseRec c fs idx (r.flatMap encFieldBytes ++ rest) = some (es, rest) := by
  intro fs
  induction fs with
  | nil =>
    intro r idx es rest hl _ h
    cases r with
    | nil =>
      simp only [expIpRecFrom, List.zip_nil_left, List.zipIdx_nil, List.map_nil, allSome, Option.some.injEq] at h
      simp [ipParseRec, h]
    | cons _ _ => simp at hl
  | cons f fs ih =>
    intro r idx es rest hl hok h
    cases r with
    | nil => simp at hl
    | cons v vs =>
      simp only [expIpRecFrom, List.zip_cons_cons, List.zipIdx_cons, List.map_cons] at h
      obtain ⟨a, as, h1, h2, h3⟩ := allSome_cons_inv h
      cases hv : expIpField c names f v with
      | none => simp [hv] at h1
      | some val =>
        simp only [hv, Option.map_some, Option.some.injEq] at h1
        simp only [recValOk, List.zip_cons_cons, List.all_cons, Bool.and_eq_true] at hok
        simp only [List.flatMap_cons, List.append_assoc, ipParseRec]
        rw [ipParseValue_enc c names f v val _ harms hnp hok.1 hv]
        simp only
        rw [ih vs (idx + 1) as rest (by simpa using hl) hok.2 h2]
        subst h3 h1
        simp only [ipFieldDisc]
        cases f.ent <;> rfl

/-- (e) `ipParseRec` on a printed record returns the expected entries -/
theorem ipParseRec_enc (c : Config) (names : List (Nat × String))
    (harms : DnArmsOk_a6 c.t.dnArms = true) (hnp : NoProto c)
    (fs : List IpTField) (r : List FieldBytes) (es : List Rec) (rest : Bytes)
    (hok : recValOk c fs r = true) (h : expIpRec c names fs r = some es) :
    ipParseRec c fs 0 (r.flatMap encFieldBytes ++ rest) = some (es, rest) := by
  unfold expIpRec at h
  split at h
  · simp at h
  · rename_i hl
    exact ipParseRec_enc_from c names harms hnp fs r 0 es rest (Decidable.not_not.mp hl) hok h

/-! ### (f) the record loop -/

/-- wire size of one record -/
def recSize (r : List FieldBytes) : Nat := (r.flatMap encFieldBytes).length

/-- The exact condition on the record sizes `s₁ … sₙ` and the padding length `p` under which the
    crate's loop (`continue while remaining ≥ size of the record just read`, `break` when a record
    took no bytes) returns all `n` records and the padding:
    there is at least one record; every record but the last is non-empty and no longer than the
    bytes that follow it; the last record is empty or longer than the padding. -/
def recLoopOk : List Nat → Nat → Bool
  | [], _ => false
  | [s], p => decide (s = 0) || decide (p < s)
  | s :: s2 :: rest, p => decide (0 < s) && decide (s ≤ (s2 :: rest).sum + p) && recLoopOk (s2 :: rest) p

theorem flatMap_recs_length (recs : List (List FieldBytes)) :
    (recs.flatMap fun r => r.flatMap encFieldBytes).length = (recs.map recSize).sum := by
  induction recs with
  | nil => simp
  | cons r rs ih => simp only [List.flatMap_cons, List.length_append, List.map_cons, List.sum_cons, ih, recSize]

theorem ipRecLoop_enc (c : Config) (names : List (Nat × String))
    (harms : DnArmsOk_a6 c.t.dnArms = true) (hnp : NoProto c) (fs : List IpTField) :
    ∀ (recs : List (List FieldBytes)) (ents : List (List Rec)) (fuel : Nat) (pad : Bytes),
      (∀ r ∈ recs, recValOk c fs r = true) →
      allSome (recs.map (expIpRec c names fs)) = some ents →
      recLoopOk (recs.map recSize) pad.length = true →
      ((recs.flatMap fun r => r.flatMap encFieldBytes) ++ pad).length < fuel →
      ipRecLoop c fs fuel ((recs.flatMap fun r => r.flatMap encFieldBytes) ++ pad) = .ok (ents.flatten, pad) := by
  intro recs
  induction recs with
  | nil => intro ents fuel pad _ _ hl _; simp [recLoopOk] at hl
  | cons r rs ih =>
    intro ents fuel pad hok hexp hl hfuel
    cases fuel with
    | zero => omega
    | succ fuel =>
      simp only [List.map_cons] at hexp
      obtain ⟨e, es, h1, h2, h3⟩ := allSome_cons_inv hexp
      have hp := ipParseRec_enc c names harms hnp fs r e ((rs.flatMap fun r => r.flatMap encFieldBytes) ++ pad)
        (hok r List.mem_cons_self) h1
      have htaken : (r.flatMap encFieldBytes ++ ((rs.flatMap fun r => r.flatMap encFieldBytes) ++ pad)).length -
          ((rs.flatMap fun r => r.flatMap encFieldBytes) ++ pad).length = recSize r := by
        simp only [List.length_append, recSize]; omega
      simp only [List.flatMap_cons, List.append_assoc, ipRecLoop]
      rw [hp]
      simp only [htaken]
      cases rs with
      | nil =>
        simp only [List.map_cons, List.map_nil, recLoopOk, Bool.or_eq_true, decide_eq_true_eq] at hl
        simp only [List.map_nil, allSome, Option.some.injEq] at h2
        subst h2 h3
        simp only [List.flatMap_nil, List.nil_append, List.flatten_cons, List.flatten_nil, List.append_nil]
        by_cases h0 : recSize r = 0
        · rw [if_pos h0]
        · rw [if_neg h0, if_neg (by omega)]
      | cons r2 rs' =>
        simp only [List.map_cons, recLoopOk, Bool.and_eq_true, decide_eq_true_eq] at hl
        obtain ⟨⟨hl1, hl2⟩, hl3⟩ := hl
        have hlen := flatMap_recs_length (r2 :: rs')
        simp only [List.map_cons] at hlen
        rw [if_neg (by omega), if_pos (by rw [List.length_append, hlen]; omega)]
        have hfuel' : (((r2 :: rs').flatMap fun r => r.flatMap encFieldBytes) ++ pad).length < fuel := by
          simp only [List.flatMap_cons, List.append_assoc, List.length_append] at hfuel ⊢
          simp only [recSize] at hl1
          omega
        rw [ih es fuel pad (fun x hx => hok x (List.mem_cons_of_mem _ hx)) h2
          (by simpa only [List.map_cons] using hl3) hfuel']
        simp only [h3, List.flatten_cons]

end Netflow
