/-
  Lemmas/B2Feature.lean — helpers for C17 (cargo feature `parse_unknown_fields`, in the model
  `Config.unknownFields`).  The flag is read in exactly one place, the `.unknown` arm of
  `parseValue`; everything here is a consequence of that:

  * value / record level: with a known type the flag is irrelevant, with an unknown type and the flag
    off the value (hence the record) does not parse;
  * set level: a single set parses identically with the flag on/off as long as the template caches
    hold no unknown-typed field (`KnownOnlyP`), and `KnownOnlyP` is preserved by every set whose
    reported template (if any) is known-only;
  * V9 framing (states, success/failure, rest) never depends on the flag (`v9ParseSets_sim`);
    IPFIX `ipParseSets` never yields a nom error when the set header occupies bytes;
  * with the flag off every decoded entry has a type the library knows.

  All names live in `Netflow.B2`.
-/
import NetflowModel.Lemmas.Basic
import NetflowModel.Findings
namespace Netflow.B2
open Netflow

/-! ### the two builds -/

/-- `c` with the feature switched to `b` -/
abbrev flag (c : Config) (b : Bool) : Config := { c with unknownFields := b }

@[simp] theorem flag_t (c : Config) (b : Bool) : (flag c b).t = c.t := rfl
@[simp] theorem flag_allowed (c : Config) (b : Bool) : (flag c b).allowed = c.allowed := rfl
theorem flag_vc (c : Config) (b : Bool) : (flag c b).vc = { c.vc with unknownFields := b } := rfl

/-! ### value level -/

theorem parseValue_known (vc : ValueCfg) (b1 b2 : Bool) (ty : FType) (h : ty ≠ .unknown) (len : Nat) (i : Bytes) :
    parseValue { vc with unknownFields := b1 } ty len i = parseValue { vc with unknownFields := b2 } ty len i := by
  cases ty <;> first | rfl | exact absurd rfl h

theorem parseValue_unknown_off (vc : ValueCfg) (len : Nat) (i : Bytes) :
    parseValue { vc with unknownFields := false } .unknown len i = none := rfl

theorem parseValue_unknown_on (vc : ValueCfg) (len : Nat) (i : Bytes) :
    parseValue { vc with unknownFields := true } .unknown len i = parseValue vc .vec len i := rfl

/-- with the flag off, a value that parses has a type known to the library -/
theorem parseValue_off_some {vc : ValueCfg} {ty : FType} {len : Nat} {i : Bytes} {x : FieldValue × Bytes}
    (h : parseValue { vc with unknownFields := false } ty len i = some x) : ty ≠ .unknown := by
  intro ht
  subst ht
  rw [parseValue_unknown_off] at h
  cases h

/-! ### "known to the library" -/

def V9Known (c : Config) (fs : List TField) : Prop :=
  ∀ f ∈ fs, c.t.v9Ty (c.t.v9Field f.typ) ≠ .unknown

def IpKnown (c : Config) (fs : List IpTField) : Prop :=
  ∀ f ∈ fs, f.ent = none → c.t.ipTy (c.t.ipField f.typ) ≠ .unknown

/-- Boolean forms, exactly the inner tests of `Findings.usesUnknown` / `reportsUnknownTemplate` -/
def v9HasUnknown (c : Config) (fs : List TField) : Bool :=
  fs.any fun f => c.t.v9Ty (c.t.v9Field f.typ) == .unknown

def ipHasUnknown (c : Config) (fs : List IpTField) : Bool :=
  fs.any fun f => f.ent.isNone && c.t.ipTy (c.t.ipField f.typ) == .unknown

theorem v9Known_iff (c : Config) (fs : List TField) : v9HasUnknown c fs = false ↔ V9Known c fs := by
  unfold v9HasUnknown V9Known
  rw [List.any_eq_false]
  constructor
  · intro h f hf he
    exact h f hf (by simp [he])
  · intro h f hf
    have := h f hf
    simpa using this

theorem ipKnown_iff (c : Config) (fs : List IpTField) : ipHasUnknown c fs = false ↔ IpKnown c fs := by
  unfold ipHasUnknown IpKnown
  rw [List.any_eq_false]
  constructor
  · intro h f hf hn he
    exact h f hf (by simp [hn, he])
  · intro h f hf
    cases hn : f.ent with
    | some e => simp
    | none =>
      have := h f hf hn
      simpa using this

/-! ### record level -/

theorem v9ParseRec_known (c : Config) (b1 b2 : Bool) :
    ∀ (fs : List TField), V9Known c fs → ∀ (idx : Nat) (i : Bytes),
      v9ParseRec (flag c b1) fs idx i = v9ParseRec (flag c b2) fs idx i := by
  intro fs
  induction fs with
  | nil => intro _ idx i; rfl
  | cons f fs ih =>
    intro hk idx i
    have hv := parseValue_known c.vc b1 b2 _ (hk f List.mem_cons_self) f.len i
    have ih' := ih (fun g hg => hk g (List.mem_cons_of_mem _ hg))
    simp only [v9ParseRec, flag_vc, hv, ih']

/-- with the flag off a record of a template that has an unknown-typed field never parses -/
theorem v9ParseRec_unknown_off (c : Config) :
    ∀ (fs : List TField), (∃ f ∈ fs, c.t.v9Ty (c.t.v9Field f.typ) = .unknown) → ∀ (idx : Nat) (i : Bytes),
      v9ParseRec (flag c false) fs idx i = none := by
  intro fs
  induction fs with
  | nil => intro ⟨f, hf, _⟩; cases hf
  | cons g fs ih =>
    intro ⟨f, hf, hu⟩ idx i
    simp only [v9ParseRec, flag_vc]
    by_cases hg : c.t.v9Ty (c.t.v9Field g.typ) = .unknown
    · rw [hg, parseValue_unknown_off]
    · have hf' : f ∈ fs := by
        rcases List.mem_cons.1 hf with h | h
        · subst h; exact absurd hu hg
        · exact h
      cases hp : parseValue { c.vc with unknownFields := false } (c.t.v9Ty (c.t.v9Field g.typ)) g.len i with
      | none => rfl
      | some x =>
        obtain ⟨v, r⟩ := x
        simp only [ih ⟨f, hf', hu⟩]

/-- with the flag off every entry of a decoded V9 record has a known type -/
theorem v9ParseRec_off_entries (c : Config) :
    ∀ (fs : List TField) (idx : Nat) (i : Bytes) (es : Rec) (r : Bytes),
      v9ParseRec (flag c false) fs idx i = some (es, r) → ∀ e ∈ es, c.t.v9Ty e.2.1 ≠ .unknown := by
  intro fs
  induction fs with
  | nil =>
    intro idx i es r h e he
    simp only [v9ParseRec, Option.some.injEq, Prod.mk.injEq] at h
    rw [← h.1] at he; cases he
  | cons f fs ih =>
    intro idx i es r h e he
    simp only [v9ParseRec, flag_vc] at h
    cases hp : parseValue { c.vc with unknownFields := false } (c.t.v9Ty (c.t.v9Field f.typ)) f.len i with
    | none => simp [hp] at h
    | some x =>
      obtain ⟨v, r1⟩ := x
      simp only [hp] at h
      cases hr : v9ParseRec (flag c false) fs (idx + 1) r1 with
      | none => simp [hr] at h
      | some y =>
        obtain ⟨es', r2⟩ := y
        simp only [hr, Option.some.injEq, Prod.mk.injEq] at h
        rw [← h.1] at he
        rcases List.mem_cons.1 he with h1 | h1
        · subst h1; exact parseValue_off_some hp
        · exact ih _ _ _ _ hr e h1

theorem v9RecLoop_known (c : Config) (b1 b2 : Bool) (fs : List TField) (hk : V9Known c fs) :
    ∀ (n : Nat) (i : Bytes) (acc : List Rec), v9RecLoop (flag c b1) fs n i acc = v9RecLoop (flag c b2) fs n i acc := by
  intro n
  induction n with
  | zero => intro i acc; rfl
  | succ n ih => intro i acc; simp only [v9RecLoop, v9ParseRec_known c b1 b2 fs hk, ih]

theorem v9RecLoop_off_entries (c : Config) (fs : List TField) :
    ∀ (n : Nat) (i : Bytes) (acc recs : List Rec) (pad : Bytes),
      (∀ r ∈ acc, ∀ e ∈ r, c.t.v9Ty e.2.1 ≠ .unknown) →
      v9RecLoop (flag c false) fs n i acc = (recs, pad) → ∀ r ∈ recs, ∀ e ∈ r, c.t.v9Ty e.2.1 ≠ .unknown := by
  intro n
  induction n with
  | zero =>
    intro i acc recs pad hacc h
    simp only [v9RecLoop, Prod.mk.injEq] at h
    rw [← h.1]; exact hacc
  | succ n ih =>
    intro i acc recs pad hacc h
    simp only [v9RecLoop] at h
    cases hp : v9ParseRec (flag c false) fs 0 i with
    | none => simp only [hp] at h; exact ih _ _ _ _ hacc h
    | some x =>
      obtain ⟨r1, i'⟩ := x
      simp only [hp] at h
      refine ih _ _ _ _ ?_ h
      intro r hr
      rcases List.mem_append.1 hr with h1 | h1
      · exact hacc r h1
      · have : r = r1 := by simpa using h1
        subst this
        exact v9ParseRec_off_entries c fs 0 i r i' hp

/-! IPFIX -/

theorem ipParseValue_known (c : Config) (b1 b2 : Bool) (f : IpTField)
    (hk : f.ent = none → c.t.ipTy (c.t.ipField f.typ) ≠ .unknown) (i : Bytes) :
    ipParseValue (flag c b1) f i = ipParseValue (flag c b2) f i := by
  simp only [ipParseValue, flag_vc]
  cases hl : ipFieldLength f i with
  | none => rfl
  | some x =>
    obtain ⟨len, r⟩ := x
    cases he : f.ent with
    | some e => rfl
    | none => exact parseValue_known c.vc b1 b2 _ (hk he) len r

theorem ipParseValue_unknown_off (c : Config) (f : IpTField) (he : f.ent = none)
    (hu : c.t.ipTy (c.t.ipField f.typ) = .unknown) (i : Bytes) : ipParseValue (flag c false) f i = none := by
  simp only [ipParseValue, flag_vc]
  cases hl : ipFieldLength f i with
  | none => rfl
  | some x =>
    obtain ⟨len, r⟩ := x
    simp only [he, hu, parseValue_unknown_off]

theorem ipParseValue_off_some (c : Config) (f : IpTField) (i : Bytes) (x : FieldValue × Bytes)
    (h : ipParseValue (flag c false) f i = some x) (he : f.ent = none) : c.t.ipTy (c.t.ipField f.typ) ≠ .unknown := by
  intro hu
  rw [ipParseValue_unknown_off c f he hu] at h
  cases h

theorem ipParseRec_known (c : Config) (b1 b2 : Bool) :
    ∀ (fs : List IpTField), IpKnown c fs → ∀ (idx : Nat) (i : Bytes),
      ipParseRec (flag c b1) fs idx i = ipParseRec (flag c b2) fs idx i := by
  intro fs
  induction fs with
  | nil => intro _ idx i; rfl
  | cons f fs ih =>
    intro hk idx i
    have hv := ipParseValue_known c b1 b2 f (hk f List.mem_cons_self) i
    have ih' := ih (fun g hg => hk g (List.mem_cons_of_mem _ hg))
    simp only [ipParseRec, ipFieldDisc, hv, ih']

theorem ipParseRec_unknown_off (c : Config) :
    ∀ (fs : List IpTField), (∃ f ∈ fs, f.ent = none ∧ c.t.ipTy (c.t.ipField f.typ) = .unknown) →
      ∀ (idx : Nat) (i : Bytes), ipParseRec (flag c false) fs idx i = none := by
  intro fs
  induction fs with
  | nil => intro ⟨f, hf, _⟩; cases hf
  | cons g fs ih =>
    intro ⟨f, hf, he, hu⟩ idx i
    simp only [ipParseRec]
    cases hp : ipParseValue (flag c false) g i with
    | none => rfl
    | some x =>
      obtain ⟨v, r⟩ := x
      have hf' : f ∈ fs := by
        rcases List.mem_cons.1 hf with h | h
        · subst h; rw [ipParseValue_unknown_off c f he hu] at hp; cases hp
        · exact h
      simp only [ih ⟨f, hf', he, hu⟩]

/-- what `Findings.noUnknownEntries` asks of one IPFIX entry -/
def IpEntryOk (c : Config) (e : Entry) : Prop := e.2.1 = c.t.ipEnterprise ∨ c.t.ipTy e.2.1 ≠ .unknown

theorem ipParseRec_off_entries (c : Config) :
    ∀ (fs : List IpTField) (idx : Nat) (i : Bytes) (recs : List Rec) (r : Bytes),
      ipParseRec (flag c false) fs idx i = some (recs, r) → ∀ rc ∈ recs, ∀ e ∈ rc, IpEntryOk c e := by
  intro fs
  induction fs with
  | nil =>
    intro idx i recs r h rc hrc
    simp only [ipParseRec, Option.some.injEq, Prod.mk.injEq] at h
    rw [← h.1] at hrc; cases hrc
  | cons f fs ih =>
    intro idx i recs r h rc hrc e he
    simp only [ipParseRec] at h
    cases hp : ipParseValue (flag c false) f i with
    | none => simp [hp] at h
    | some x =>
      obtain ⟨v, r1⟩ := x
      simp only [hp] at h
      cases hr : ipParseRec (flag c false) fs (idx + 1) r1 with
      | none => simp [hr] at h
      | some y =>
        obtain ⟨es', r2⟩ := y
        simp only [hr, Option.some.injEq, Prod.mk.injEq] at h
        rw [← h.1] at hrc
        rcases List.mem_cons.1 hrc with h1 | h1
        · subst h1
          have : e = (idx, ipFieldDisc (flag c false) f, v) := by simpa using he
          subst this
          unfold IpEntryOk ipFieldDisc
          cases hent : f.ent with
          | some n => left; rfl
          | none => right; exact ipParseValue_off_some c f i _ hp hent
        · exact ih _ _ _ _ hr rc h1 e he

theorem ipRecLoop_known (c : Config) (b1 b2 : Bool) (fs : List IpTField) (hk : IpKnown c fs) :
    ∀ (n : Nat) (i : Bytes), ipRecLoop (flag c b1) fs n i = ipRecLoop (flag c b2) fs n i := by
  intro n
  induction n with
  | zero => intro i; rfl
  | succ n ih => intro i; simp only [ipRecLoop, ipParseRec_known c b1 b2 fs hk, ih]

theorem ipRecLoop_off_entries (c : Config) (fs : List IpTField) :
    ∀ (n : Nat) (i : Bytes) (recs : List Rec) (pad : Bytes),
      ipRecLoop (flag c false) fs n i = .ok (recs, pad) → ∀ rc ∈ recs, ∀ e ∈ rc, IpEntryOk c e := by
  intro n
  induction n with
  | zero => intro i recs pad h; simp [ipRecLoop] at h
  | succ n ih =>
    intro i recs pad h
    simp only [ipRecLoop] at h
    cases hp : ipParseRec (flag c false) fs 0 i with
    | none => simp [hp] at h
    | some x =>
      obtain ⟨es, r⟩ := x
      simp only [hp] at h
      have hes := ipParseRec_off_entries c fs 0 i es r hp
      by_cases h0 : i.length - r.length = 0
      · simp only [h0, ↓reduceIte, Res.ok.injEq, Prod.mk.injEq] at h
        rw [← h.1]; exact hes
      · simp only [h0, ↓reduceIte] at h
        by_cases h1 : r.length ≥ i.length - r.length
        · simp only [h1, ↓reduceIte] at h
          cases hr : ipRecLoop (flag c false) fs n r with
          | ok y =>
            obtain ⟨more, r'⟩ := y
            simp only [hr, Res.ok.injEq, Prod.mk.injEq] at h
            rw [← h.1]
            intro rc hrc
            rcases List.mem_append.1 hrc with h2 | h2
            · exact hes rc h2
            · exact ih _ _ _ hr rc h2
          | err => simp [hr] at h
          | panic => simp [hr] at h
          | overflow => simp [hr] at h
        · simp only [h1, ↓reduceIte, Res.ok.injEq, Prod.mk.injEq] at h
          rw [← h.1]; exact hes

/-! ### template caches -/

theorem amLookup_mem {β : Type} {k : Nat} {v : β} : ∀ {l : List (Nat × β)}, amLookup k l = some v → (k, v) ∈ l := by
  intro l
  induction l with
  | nil => intro h; simp [amLookup] at h
  | cons x xs ih =>
    intro h
    obtain ⟨k', v'⟩ := x
    simp only [amLookup] at h
    by_cases hk : k = k'
    · simp only [hk, ↓reduceIte, Option.some.injEq] at h
      subst hk h
      exact List.mem_cons_self
    · simp only [hk, ↓reduceIte] at h
      exact List.mem_cons_of_mem _ (ih h)

theorem mem_amInsert {β : Type} {k : Nat} {v : β} {q : Nat × β} :
    ∀ {l : List (Nat × β)}, q ∈ amInsert k v l → q = (k, v) ∨ q ∈ l := by
  intro l
  induction l with
  | nil => intro h; simp [amInsert] at h; exact Or.inl h
  | cons x xs ih =>
    intro h
    obtain ⟨k', v'⟩ := x
    simp only [amInsert] at h
    by_cases h1 : k < k'
    · simp only [h1, ↓reduceIte] at h
      rcases List.mem_cons.1 h with h | h
      · exact Or.inl h
      · exact Or.inr h
    · simp only [h1, ↓reduceIte] at h
      by_cases h2 : k = k'
      · simp only [h2, ↓reduceIte] at h
        rcases List.mem_cons.1 h with h | h
        · exact Or.inl (by rw [h, h2])
        · exact Or.inr (List.mem_cons_of_mem _ h)
      · simp only [h2, ↓reduceIte] at h
        rcases List.mem_cons.1 h with h | h
        · exact Or.inr (by rw [h]; exact List.mem_cons_self)
        · rcases ih h with h | h
          · exact Or.inl h
          · exact Or.inr (List.mem_cons_of_mem _ h)

theorem mem_amErase {β : Type} {k : Nat} {q : Nat × β} : ∀ {l : List (Nat × β)}, q ∈ amErase k l → q ∈ l := by
  intro l
  induction l with
  | nil => intro h; exact h
  | cons x xs ih =>
    intro h
    obtain ⟨k', v'⟩ := x
    simp only [amErase] at h
    by_cases h1 : k = k'
    · simp only [h1, ↓reduceIte] at h
      exact List.mem_cons_of_mem _ h
    · simp only [h1, ↓reduceIte] at h
      rcases List.mem_cons.1 h with h | h
      · rw [h]; exact List.mem_cons_self
      · exact List.mem_cons_of_mem _ (ih h)

/-- no cached template that `parseValue` is ever applied for has an unknown-typed field
    (V9 options templates are decoded without `parseValue`, so they do not count) -/
def KnownOnlyP (c : Config) (st : PState) : Prop :=
  (∀ e ∈ st.v9T, V9Known c e.2.fields) ∧ (∀ e ∈ st.ipT, IpKnown c e.2.fields) ∧ (∀ e ∈ st.ipO, IpKnown c e.2.fields)

theorem knownOnly_iff (c : Config) (st : PState) : Findings.usesUnknown c st = false ↔ KnownOnlyP c st := by
  have h1 : ∀ (l : List (Nat × V9Template)),
      (l.any fun e => v9HasUnknown c e.2.fields) = false ↔ ∀ e ∈ l, V9Known c e.2.fields := by
    intro l; rw [List.any_eq_false]; constructor
    · intro h e he; exact (v9Known_iff c _).1 (by simpa using h e he)
    · intro h e he; simpa using (v9Known_iff c _).2 (h e he)
  have h2 : ∀ (l : List (Nat × IpTemplate)),
      (l.any fun e => ipHasUnknown c e.2.fields) = false ↔ ∀ e ∈ l, IpKnown c e.2.fields := by
    intro l; rw [List.any_eq_false]; constructor
    · intro h e he; exact (ipKnown_iff c _).1 (by simpa using h e he)
    · intro h e he; simpa using (ipKnown_iff c _).2 (h e he)
  have h3 : ∀ (l : List (Nat × IpOptTemplate)),
      (l.any fun e => ipHasUnknown c e.2.fields) = false ↔ ∀ e ∈ l, IpKnown c e.2.fields := by
    intro l; rw [List.any_eq_false]; constructor
    · intro h e he; exact (ipKnown_iff c _).1 (by simpa using h e he)
    · intro h e he; simpa using (ipKnown_iff c _).2 (h e he)
  show ((st.v9T.any fun e => v9HasUnknown c e.2.fields) || (st.ipT.any fun e => ipHasUnknown c e.2.fields) ||
      (st.ipO.any fun e => ipHasUnknown c e.2.fields)) = false ↔ _
  rw [Bool.or_eq_false_iff, Bool.or_eq_false_iff, h1, h2, h3]
  exact and_assoc

theorem knownOnly_insertV9Templates (c : Config) :
    ∀ (ts : List V9Template) (st : PState), KnownOnlyP c st → (∀ t ∈ ts, V9Known c t.fields) →
      KnownOnlyP c (insertV9Templates st ts) := by
  intro ts
  induction ts with
  | nil => intro st hk _; exact hk
  | cons t ts ih =>
    intro st hk hts
    simp only [insertV9Templates]
    refine ih _ ⟨?_, hk.2.1, hk.2.2⟩ (fun t' ht' => hts t' (List.mem_cons_of_mem _ ht'))
    intro e he
    rcases mem_amInsert he with h | h
    · rw [h]; exact hts t List.mem_cons_self
    · exact hk.1 e h

theorem knownOnly_insertV9OptTemplates (c : Config) :
    ∀ (ts : List V9OptTemplate) (st : PState), KnownOnlyP c st → KnownOnlyP c (insertV9OptTemplates st ts) := by
  intro ts
  induction ts with
  | nil => intro st hk; exact hk
  | cons t ts ih =>
    intro st hk
    simp only [insertV9OptTemplates]
    exact ih _ ⟨fun e he => hk.1 e (mem_amErase he), hk.2.1, hk.2.2⟩

/-! ### what a decoded set / packet reports about templates -/

/-- every template announced by this V9 set is known-only -/
def V9SetKnown (c : Config) (s : V9Set) : Prop :=
  ∀ ts pad, s.body = .templates ts pad → ∀ t ∈ ts, V9Known c t.fields

def IpSetKnown (c : Config) (s : IpSet) : Prop :=
  (∀ t, s.body = .template t → IpKnown c t.fields) ∧ (∀ t, s.body = .optTemplate t → IpKnown c t.fields)

def PktKnown (c : Config) : Packet → Prop
  | .v9 _ ss => ∀ s ∈ ss, V9SetKnown c s
  | .ipfix _ ss => ∀ s ∈ ss, IpSetKnown c s
  | _ => True

/-! ### V9 sets -/

theorem v9ScopeLoop_flag (c : Config) (b : Bool) :
    ∀ (fs : List TField) (i : Bytes), v9ScopeLoop (flag c b) fs i = v9ScopeLoop c fs i := by
  intro fs
  induction fs with
  | nil => intro i; rfl
  | cons f fs ih => intro i; simp only [v9ScopeLoop, ih]

theorem v9OptLoop_flag (c : Config) (b : Bool) :
    ∀ (fs : List TField) (i : Bytes), v9OptLoop (flag c b) fs i = v9OptLoop c fs i := by
  intro fs
  induction fs with
  | nil => intro i; rfl
  | cons f fs ih => intro i; simp only [v9OptLoop, ih]

/-- with known-only caches one set body decodes identically whatever the flag -/
theorem v9ParseBody_same (c : Config) (b1 b2 : Bool) (st : PState) (hk : KnownOnlyP c st) (id : Nat) (body : Bytes) :
    v9ParseBody (flag c b1) st id body = v9ParseBody (flag c b2) st id body := by
  simp only [v9ParseBody, v9ScopeLoop_flag, v9OptLoop_flag]
  cases hT : amLookup id st.v9T with
  | none => rfl
  | some t =>
    have hkt : V9Known c t.fields := hk.1 _ (amLookup_mem hT)
    simp only [v9RecLoop_known c b1 b2 t.fields hkt]

theorem v9ParseSet_same (c : Config) (b1 b2 : Bool) (st : PState) (hk : KnownOnlyP c st) (i : Bytes) :
    v9ParseSet (flag c b1) st i = v9ParseSet (flag c b2) st i := by
  simp only [v9ParseSet, v9ParseBody_same c b1 b2 st hk]

/-- how a set body changes the caches -/
theorem v9ParseBody_state (c : Config) (st : PState) (id : Nat) (body : Bytes) (st1 : PState) (res : Res V9Body)
    (h : v9ParseBody c st id body = (st1, res)) :
    st1 = st ∨ (∃ ts pad, res = .ok (.templates ts pad) ∧ st1 = insertV9Templates st ts) ∨
      (∃ ts pad, res = .ok (.optTemplates ts pad) ∧ st1 = insertV9OptTemplates st ts) := by
  unfold v9ParseBody at h
  by_cases h1 : id = c.t.v9TemplateId
  · rw [if_pos h1] at h
    cases hm : many0 parseV9Template body with
    | ok x =>
      obtain ⟨ts, pad⟩ := x
      simp only [hm, Prod.mk.injEq] at h
      exact Or.inr (Or.inl ⟨ts, pad, h.2.symm, h.1.symm⟩)
    | err => simp only [hm, Prod.mk.injEq] at h; exact Or.inl h.1.symm
    | outOfFuel => simp only [hm, Prod.mk.injEq] at h; exact Or.inl h.1.symm
  · rw [if_neg h1] at h
    by_cases h2 : id = c.t.v9OptTemplateId
    · rw [if_pos h2] at h
      cases hm : many0 parseV9OptTemplate body with
      | ok x =>
        obtain ⟨ts, pad⟩ := x
        simp only [hm, Prod.mk.injEq] at h
        exact Or.inr (Or.inr ⟨ts, pad, h.2.symm, h.1.symm⟩)
      | err => simp only [hm, Prod.mk.injEq] at h; exact Or.inl h.1.symm
      | outOfFuel => simp only [hm, Prod.mk.injEq] at h; exact Or.inl h.1.symm
    · rw [if_neg h2] at h
      left
      have : (st1, res).1 = st := by
        rw [← h]
        repeat' split
        all_goals first | rfl | (dsimp only; (repeat' split) <;> rfl)
      exact this

theorem v9ParseSet_knownOnly (c : Config) (st : PState) (i : Bytes) (st1 : PState) (q : Res (V9Set × Bytes))
    (h : v9ParseSet c st i = (st1, q)) (hk : KnownOnlyP c st)
    (hrep : ∀ s r, q = .ok (s, r) → V9SetKnown c s) : KnownOnlyP c st1 := by
  unfold v9ParseSet at h
  cases hl : parseLayout c.t.protoFromU8 c.t.v9SetHdr i with
  | none => simp only [hl, Prod.mk.injEq] at h; rw [← h.1]; exact hk
  | some x =>
    obtain ⟨hd, r⟩ := x
    simp only [hl] at h
    cases ht : takeN (c.t.v9SetHdr.get "length" hd - 4) r with
    | none => simp only [ht, Prod.mk.injEq] at h; rw [← h.1]; exact hk
    | some y =>
      obtain ⟨body, r'⟩ := y
      simp only [ht] at h
      cases hb : v9ParseBody c st (c.t.v9SetHdr.get "flowset_id" hd) body with
      | mk st2 res =>
        rw [hb] at h
        rcases v9ParseBody_state c st _ body st2 res hb with h0 | ⟨ts, pad, hres, hst⟩ | ⟨ts, pad, hres, hst⟩
        · subst h0
          cases res <;> simp only [Prod.mk.injEq] at h <;> (rw [← h.1]; exact hk)
        · subst hres
          simp only [Prod.mk.injEq] at h
          rw [← h.1, hst]
          refine knownOnly_insertV9Templates c ts st hk ?_
          exact hrep _ _ h.2.symm ts pad rfl
        · subst hres
          simp only [Prod.mk.injEq] at h
          rw [← h.1, hst]
          exact knownOnly_insertV9OptTemplates c ts st hk

/-! ### V9: caches, success/failure and rest never depend on the flag -/

def rmap {α β : Type} (f : α → β) : Res α → Res β
  | .ok a => .ok (f a)
  | .err => .err
  | .panic => .panic
  | .overflow => .overflow

theorem rmap_err {α β : Type} {f : α → β} {q : Res α} (h : rmap f q = .err) : q = .err := by
  cases q <;> simp [rmap] at h ⊢

theorem v9ParseBody_sim (c : Config) (b1 b2 : Bool) (st : PState) (id : Nat) (body : Bytes) :
    (v9ParseBody (flag c b1) st id body).1 = (v9ParseBody (flag c b2) st id body).1 ∧
    rmap (fun _ => ()) (v9ParseBody (flag c b1) st id body).2 = rmap (fun _ => ()) (v9ParseBody (flag c b2) st id body).2 := by
  simp only [v9ParseBody, v9ScopeLoop_flag, v9OptLoop_flag]
  by_cases h1 : id = c.t.v9TemplateId
  · simp only [if_pos h1, and_self]
  · simp only [if_neg h1]
    by_cases h2 : id = c.t.v9OptTemplateId
    · simp only [if_pos h2, and_self]
    · simp only [if_neg h2]
      cases hO : amLookup id st.v9O with
      | some ot => first | exact ⟨rfl, rfl⟩ | rfl | simp [rmap]
      | none =>
        cases hT : amLookup id st.v9T with
        | none => first | exact ⟨rfl, rfl⟩ | rfl | simp [rmap]
        | some t =>
          dsimp only
          by_cases h0 : v9TotalSize t.fields = 0
          · simp only [if_pos h0, and_self]
          · simp only [if_neg h0]
            generalize v9RecLoop (flag c b1) t.fields _ body [] = x
            generalize v9RecLoop (flag c b2) t.fields _ body [] = y
            obtain ⟨x1, x2⟩ := x
            obtain ⟨y1, y2⟩ := y
            first | exact ⟨rfl, rfl⟩ | rfl | simp [rmap]

theorem v9ParseSet_sim (c : Config) (b1 b2 : Bool) (st : PState) (i : Bytes) :
    (v9ParseSet (flag c b1) st i).1 = (v9ParseSet (flag c b2) st i).1 ∧
    rmap Prod.snd (v9ParseSet (flag c b1) st i).2 = rmap Prod.snd (v9ParseSet (flag c b2) st i).2 := by
  simp only [v9ParseSet]
  cases hl : parseLayout c.t.protoFromU8 c.t.v9SetHdr i with
  | none => exact ⟨rfl, rfl⟩
  | some x =>
    obtain ⟨hd, r⟩ := x
    dsimp only
    cases ht : takeN (c.t.v9SetHdr.get "length" hd - 4) r with
    | none => exact ⟨rfl, rfl⟩
    | some y =>
      obtain ⟨body, r'⟩ := y
      dsimp only
      have hs := v9ParseBody_sim c b1 b2 st (c.t.v9SetHdr.get "flowset_id" hd) body
      revert hs
      generalize v9ParseBody (flag c b1) st _ body = x
      generalize v9ParseBody (flag c b2) st _ body = y
      obtain ⟨s1, q1⟩ := x
      obtain ⟨s2, q2⟩ := y
      cases q1 <;> cases q2 <;> simp [rmap]

theorem v9ParseSets_sim (c : Config) (b1 b2 : Bool) :
    ∀ (n : Nat) (st : PState) (i : Bytes),
      (v9ParseSets (flag c b1) n st i).1 = (v9ParseSets (flag c b2) n st i).1 ∧
      rmap Prod.snd (v9ParseSets (flag c b1) n st i).2 = rmap Prod.snd (v9ParseSets (flag c b2) n st i).2 := by
  intro n
  induction n with
  | zero => intro st i; exact ⟨rfl, rfl⟩
  | succ n ih =>
    intro st i
    simp only [v9ParseSets]
    by_cases he : i.isEmpty = true
    · simp only [he, ↓reduceIte]; exact ih st i
    · simp only [he, Bool.false_eq_true, ↓reduceIte]
      have hs := v9ParseSet_sim c b1 b2 st i
      revert hs
      generalize v9ParseSet (flag c b1) st i = x
      generalize v9ParseSet (flag c b2) st i = y
      obtain ⟨s1, q1⟩ := x
      obtain ⟨s2, q2⟩ := y
      cases q1 with
      | ok a1 =>
        cases q2 with
        | ok a2 =>
          obtain ⟨a1, r1⟩ := a1
          obtain ⟨a2, r2⟩ := a2
          intro hs
          simp only [rmap, Res.ok.injEq] at hs
          obtain ⟨hs1, hs2⟩ := hs
          subst hs1 hs2
          dsimp only
          have hr := ih s1 r1
          revert hr
          generalize v9ParseSets (flag c b1) n s1 r1 = x
          generalize v9ParseSets (flag c b2) n s1 r1 = y
          obtain ⟨t1, p1⟩ := x
          obtain ⟨t2, p2⟩ := y
          cases p1 <;> cases p2 <;> simp [rmap]
        | err => simp [rmap]
        | panic => simp [rmap]
        | overflow => simp [rmap]
      | err => cases q2 <;> simp [rmap]
      | panic => cases q2 <;> simp [rmap]
      | overflow => cases q2 <;> simp [rmap]

theorem parseV9_sim (c : Config) (b1 b2 : Bool) (st : PState) (i : Bytes) :
    (parseV9 (flag c b1) st i).1 = (parseV9 (flag c b2) st i).1 ∧
    rmap Prod.snd (parseV9 (flag c b1) st i).2 = rmap Prod.snd (parseV9 (flag c b2) st i).2 := by
  simp only [parseV9]
  cases hl : parseLayout c.t.protoFromU8 c.t.v9Hdr i with
  | none => exact ⟨rfl, rfl⟩
  | some x =>
    obtain ⟨hd, r⟩ := x
    dsimp only
    have hs := v9ParseSets_sim c b1 b2 (c.t.v9Hdr.get "count" hd) st r
    revert hs
    generalize v9ParseSets (flag c b1) _ st r = x
    generalize v9ParseSets (flag c b2) _ st r = y
    obtain ⟨s1, q1⟩ := x
    obtain ⟨s2, q2⟩ := y
    cases q1 <;> cases q2 <;> simp [rmap]

/-- a V9 packet that fails to parse fails identically (same caches) whatever the flag -/
theorem parseV9_err (c : Config) (b1 b2 : Bool) (st st' : PState) (i : Bytes)
    (h : parseV9 (flag c b2) st i = (st', .err)) : parseV9 (flag c b1) st i = (st', .err) := by
  obtain ⟨h1, h2⟩ := parseV9_sim c b1 b2 st i
  rw [h] at h1 h2
  have h3 := rmap_err h2
  cases hx : parseV9 (flag c b1) st i with
  | mk s q =>
    rw [hx] at h1 h3
    simp only at h1 h3
    rw [h1, h3]

/-! ### V9: the success case under known-only caches -/

theorem v9ParseSets_ok (c : Config) (b1 b2 : Bool) :
    ∀ (n : Nat) (st : PState) (i : Bytes) (st' : PState) (ss : List V9Set) (r : Bytes),
      KnownOnlyP c st → v9ParseSets (flag c b2) n st i = (st', .ok (ss, r)) → (∀ s ∈ ss, V9SetKnown c s) →
      v9ParseSets (flag c b1) n st i = (st', .ok (ss, r)) ∧ KnownOnlyP c st' := by
  intro n
  induction n with
  | zero =>
    intro st i st' ss r hk h _
    simp only [v9ParseSets, Prod.mk.injEq] at h ⊢
    exact ⟨h, h.1 ▸ hk⟩
  | succ n ih =>
    intro st i st' ss r hk h hrep
    simp only [v9ParseSets] at h ⊢
    by_cases he : i.isEmpty = true
    · simp only [he, ↓reduceIte] at h ⊢
      exact ih st i st' ss r hk h hrep
    · simp only [he, Bool.false_eq_true, ↓reduceIte] at h ⊢
      rw [v9ParseSet_same c b1 b2 st hk i]
      cases hs : v9ParseSet (flag c b2) st i with
      | mk st1 q =>
        rw [hs] at h
        cases q with
        | ok a =>
          obtain ⟨s, r1⟩ := a
          dsimp only at h ⊢
          cases hr : v9ParseSets (flag c b2) n st1 r1 with
          | mk st2 q2 =>
            rw [hr] at h
            cases q2 with
            | ok a2 =>
              obtain ⟨ss', r'⟩ := a2
              simp only [Prod.mk.injEq, Res.ok.injEq] at h
              obtain ⟨h1, h2, h3⟩ := h
              subst h1 h2 h3
              have hk1 : KnownOnlyP c st1 :=
                v9ParseSet_knownOnly (flag c b2) st i st1 _ hs hk
                  (fun s' r'' hq => by
                    simp only [Res.ok.injEq, Prod.mk.injEq] at hq
                    rw [← hq.1]; exact hrep s List.mem_cons_self)
              obtain ⟨e, k⟩ := ih st1 r1 st2 ss' r' hk1 hr (fun s' hs' => hrep s' (List.mem_cons_of_mem _ hs'))
              rw [e]
              exact ⟨rfl, k⟩
            | err => simp at h
            | panic => simp at h
            | overflow => simp at h
        | err => simp at h
        | panic => simp at h
        | overflow => simp at h

theorem parseV9_ok (c : Config) (b1 b2 : Bool) (st st' : PState) (i : Bytes) (p : Packet) (r : Bytes)
    (hk : KnownOnlyP c st) (h : parseV9 (flag c b2) st i = (st', .ok (p, r))) (hrep : PktKnown c p) :
    parseV9 (flag c b1) st i = (st', .ok (p, r)) ∧ KnownOnlyP c st' := by
  simp only [parseV9] at h ⊢
  cases hl : parseLayout c.t.protoFromU8 c.t.v9Hdr i with
  | none => simp [hl] at h
  | some x =>
    obtain ⟨hd, r0⟩ := x
    simp only [hl] at h ⊢
    cases hs : v9ParseSets (flag c b2) (c.t.v9Hdr.get "count" hd) st r0 with
    | mk st1 q =>
      rw [hs] at h
      cases q with
      | ok a =>
        obtain ⟨ss, r'⟩ := a
        simp only [Prod.mk.injEq, Res.ok.injEq] at h
        obtain ⟨h1, h2, h3⟩ := h
        subst h1 h2 h3
        obtain ⟨e, k⟩ := v9ParseSets_ok c b1 b2 _ st r0 st1 ss r' hk hs hrep
        rw [e]
        exact ⟨rfl, k⟩
      | err => simp at h
      | panic => simp at h
      | overflow => simp at h

/-! ### IPFIX sets -/

theorem ipParseBody_same (c : Config) (b1 b2 : Bool) (st : PState) (hk : KnownOnlyP c st) (id : Nat) (body : Bytes) :
    ipParseBody (flag c b1) st id body = ipParseBody (flag c b2) st id body := by
  simp only [ipParseBody]
  cases hT : amLookup id st.ipT with
  | some t => simp only [ipRecLoop_known c b1 b2 t.fields (hk.2.1 _ (amLookup_mem hT))]; try rfl
  | none =>
    cases hO : amLookup id st.ipO with
    | none => rfl
    | some t => simp only [ipRecLoop_known c b1 b2 t.fields (hk.2.2 _ (amLookup_mem hO))]; try rfl

theorem ipParseSet_same (c : Config) (b1 b2 : Bool) (st : PState) (hk : KnownOnlyP c st) (i : Bytes) :
    ipParseSet (flag c b1) st i = ipParseSet (flag c b2) st i := by
  simp only [ipParseSet, ipParseBody_same c b1 b2 st hk]

theorem ipParseBody_state (c : Config) (st : PState) (id : Nat) (body : Bytes) (st1 : PState) (res : Res IpBody)
    (h : ipParseBody c st id body = (st1, res)) :
    st1 = st ∨
    (∃ t, res = .ok (.template t) ∧ st1 = { st with ipT := amInsert t.id t st.ipT, ipO := amErase t.id st.ipO }) ∨
    (∃ t, res = .ok (.optTemplate t) ∧ st1 = { st with ipO := amInsert t.id t st.ipO, ipT := amErase t.id st.ipT }) := by
  unfold ipParseBody at h
  by_cases h1 : id < c.t.ipSetMinRange ∧ id ≠ c.t.ipOptTemplateId
  · rw [if_pos h1] at h
    cases hm : parseIpTemplate body with
    | ok t =>
      simp only [hm] at h
      by_cases hv : ipValid t.fields = true
      · simp only [hv, ↓reduceIte, Prod.mk.injEq] at h
        exact Or.inr (Or.inl ⟨t, h.2.symm, h.1.symm⟩)
      · simp only [hv, Bool.false_eq_true, ↓reduceIte, Prod.mk.injEq] at h
        exact Or.inl h.1.symm
    | err => simp only [hm, Prod.mk.injEq] at h; exact Or.inl h.1.symm
    | panic => simp only [hm, Prod.mk.injEq] at h; exact Or.inl h.1.symm
    | overflow => simp only [hm, Prod.mk.injEq] at h; exact Or.inl h.1.symm
  · rw [if_neg h1] at h
    by_cases h2 : id = c.t.ipOptTemplateId
    · rw [if_pos h2] at h
      cases hm : parseIpOptTemplate body with
      | ok t =>
        simp only [hm] at h
        by_cases hv : ipValid t.fields = true
        · simp only [hv, ↓reduceIte, Prod.mk.injEq] at h
          exact Or.inr (Or.inr ⟨t, h.2.symm, h.1.symm⟩)
        · simp only [hv, Bool.false_eq_true, ↓reduceIte, Prod.mk.injEq] at h
          exact Or.inl h.1.symm
      | err => simp only [hm, Prod.mk.injEq] at h; exact Or.inl h.1.symm
      | panic => simp only [hm, Prod.mk.injEq] at h; exact Or.inl h.1.symm
      | overflow => simp only [hm, Prod.mk.injEq] at h; exact Or.inl h.1.symm
    · rw [if_neg h2] at h
      left
      have : (st1, res).1 = st := by
        rw [← h]
        repeat' split
        all_goals first | rfl | (dsimp only; (repeat' split) <;> rfl)
      exact this

theorem ipParseSet_knownOnly (c : Config) (st : PState) (i : Bytes) (st1 : PState) (q : Res (IpSet × Bytes))
    (h : ipParseSet c st i = (st1, q)) (hk : KnownOnlyP c st)
    (hrep : ∀ s r, q = .ok (s, r) → IpSetKnown c s) : KnownOnlyP c st1 := by
  unfold ipParseSet at h
  cases hl : parseLayout c.t.protoFromU8 c.t.ipSetHdr i with
  | none => simp only [hl, Prod.mk.injEq] at h; rw [← h.1]; exact hk
  | some x =>
    obtain ⟨hd, r⟩ := x
    simp only [hl] at h
    cases ht : takeN (c.t.ipSetHdr.get "length" hd - 4) r with
    | none => simp only [ht, Prod.mk.injEq] at h; rw [← h.1]; exact hk
    | some y =>
      obtain ⟨body, r'⟩ := y
      simp only [ht] at h
      cases hb : ipParseBody c st (c.t.ipSetHdr.get "header_id" hd) body with
      | mk st2 res =>
        rw [hb] at h
        rcases ipParseBody_state c st _ body st2 res hb with h0 | ⟨t, hres, hst⟩ | ⟨t, hres, hst⟩
        · subst h0
          cases res <;> simp only [Prod.mk.injEq] at h <;> (rw [← h.1]; exact hk)
        · subst hres
          simp only [Prod.mk.injEq] at h
          have hkt : IpKnown c t.fields := (hrep _ _ h.2.symm).1 t rfl
          rw [← h.1, hst]
          refine ⟨hk.1, ?_, ?_⟩
          · intro e he
            rcases mem_amInsert he with h' | h'
            · rw [h']; exact hkt
            · exact hk.2.1 e h'
          · intro e he
            exact hk.2.2 e (mem_amErase he)
        · subst hres
          simp only [Prod.mk.injEq] at h
          have hkt : IpKnown c t.fields := (hrep _ _ h.2.symm).2 t rfl
          rw [← h.1, hst]
          refine ⟨hk.1, ?_, ?_⟩
          · intro e he
            exact hk.2.1 e (mem_amErase he)
          · intro e he
            rcases mem_amInsert he with h' | h'
            · rw [h']; exact hkt
            · exact hk.2.2 e h'

/-- a successfully parsed set consumes at least its header -/
theorem ipParseSet_consumes (c : Config) (st : PState) (i : Bytes) (st1 : PState) (s : IpSet) (r : Bytes)
    (h : ipParseSet c st i = (st1, .ok (s, r))) : r.length + c.t.ipSetHdr.wireLen ≤ i.length := by
  unfold ipParseSet at h
  cases hl : parseLayout c.t.protoFromU8 c.t.ipSetHdr i with
  | none => simp [hl] at h
  | some x =>
    obtain ⟨hd, r0⟩ := x
    simp only [hl] at h
    obtain ⟨h1, h2⟩ := parseLayout_consumes _ _ i hd r0 hl
    cases ht : takeN (c.t.ipSetHdr.get "length" hd - 4) r0 with
    | none => simp [ht] at h
    | some y =>
      obtain ⟨body, r'⟩ := y
      simp only [ht] at h
      obtain ⟨h3, _, h5⟩ := takeN_some ht
      cases hb : ipParseBody c st (c.t.ipSetHdr.get "header_id" hd) body with
      | mk st2 res =>
        rw [hb] at h
        cases res with
        | ok b =>
          simp only [Prod.mk.injEq, Res.ok.injEq] at h
          rw [← h.2.2, h5, h2]
          simp only [List.length_drop]
          omega
        | err => simp at h
        | panic => simp at h
        | overflow => simp at h

/-- `ipParseSets` never reports a nom error when the set header occupies bytes (the `many0`
    no-progress check cannot fire) -/
theorem ipParseSets_ne_err (c : Config) (hw : 0 < c.t.ipSetHdr.wireLen) :
    ∀ (fuel : Nat) (st : PState) (i : Bytes) (st' : PState), ipParseSets c fuel st i ≠ (st', .err) := by
  intro fuel
  induction fuel with
  | zero => intro st i st' h; simp [ipParseSets] at h
  | succ fuel ih =>
    intro st i st' h
    simp only [ipParseSets] at h
    cases hs : ipParseSet c st i with
    | mk st1 q =>
      rw [hs] at h
      cases q with
      | ok a =>
        obtain ⟨s, r⟩ := a
        have hc := ipParseSet_consumes c st i st1 s r hs
        have hne : ¬ r.length = i.length := by omega
        simp only [hne, ↓reduceIte] at h
        cases hr : ipParseSets c fuel st1 r with
        | mk st2 q2 =>
          rw [hr] at h
          cases q2 with
          | ok ss => simp at h
          | err => exact ih st1 r st2 hr
          | panic => simp at h
          | overflow => simp at h
      | err => simp at h
      | panic => simp at h
      | overflow => simp at h

theorem ipParseSets_ok (c : Config) (b1 b2 : Bool) :
    ∀ (fuel : Nat) (st : PState) (i : Bytes) (st' : PState) (ss : List IpSet),
      KnownOnlyP c st → ipParseSets (flag c b2) fuel st i = (st', .ok ss) → (∀ s ∈ ss, IpSetKnown c s) →
      ipParseSets (flag c b1) fuel st i = (st', .ok ss) ∧ KnownOnlyP c st' := by
  intro fuel
  induction fuel with
  | zero => intro st i st' ss _ h; simp [ipParseSets] at h
  | succ fuel ih =>
    intro st i st' ss hk h hrep
    simp only [ipParseSets] at h ⊢
    rw [ipParseSet_same c b1 b2 st hk i]
    cases hs : ipParseSet (flag c b2) st i with
    | mk st1 q =>
      rw [hs] at h
      cases q with
      | ok a =>
        obtain ⟨s, r⟩ := a
        dsimp only at h ⊢
        by_cases hlen : r.length = i.length
        · simp [hlen] at h
        · simp only [hlen, ↓reduceIte] at h ⊢
          cases hr : ipParseSets (flag c b2) fuel st1 r with
          | mk st2 q2 =>
            rw [hr] at h
            cases q2 with
            | ok ss' =>
              simp only [Prod.mk.injEq, Res.ok.injEq] at h
              obtain ⟨h1, h2⟩ := h
              subst h1 h2
              have hk1 : KnownOnlyP c st1 :=
                ipParseSet_knownOnly (flag c b2) st i st1 _ hs hk
                  (fun s' r'' hq => by
                    simp only [Res.ok.injEq, Prod.mk.injEq] at hq
                    rw [← hq.1]; exact hrep s List.mem_cons_self)
              obtain ⟨e, k⟩ := ih st1 r st2 ss' hk1 hr (fun s' hs' => hrep s' (List.mem_cons_of_mem _ hs'))
              rw [e]
              exact ⟨rfl, k⟩
            | err => simp at h
            | panic => simp at h
            | overflow => simp at h
      | err =>
        simp only [Prod.mk.injEq, Res.ok.injEq] at h ⊢
        refine ⟨h, ?_⟩
        rw [← h.1]
        exact ipParseSet_knownOnly (flag c b2) st i st1 _ hs hk (fun s' r'' hq => by cases hq)
      | panic => simp at h
      | overflow => simp at h

theorem parseIpfix_ok (c : Config) (b1 b2 : Bool) (st st' : PState) (i : Bytes) (p : Packet) (r : Bytes)
    (hk : KnownOnlyP c st) (h : parseIpfix (flag c b2) st i = (st', .ok (p, r))) (hrep : PktKnown c p) :
    parseIpfix (flag c b1) st i = (st', .ok (p, r)) ∧ KnownOnlyP c st' := by
  simp only [parseIpfix] at h ⊢
  cases hl : parseLayout c.t.protoFromU8 c.t.ipHdr i with
  | none => simp [hl] at h
  | some x =>
    obtain ⟨hd, r0⟩ := x
    simp only [hl] at h ⊢
    cases ht : takeN (c.t.ipHdr.get "length" hd - 16) r0 with
    | none => simp [ht] at h
    | some y =>
      obtain ⟨body, r'⟩ := y
      simp only [ht] at h ⊢
      cases hs : ipParseSets (flag c b2) (body.length + 1) st body with
      | mk st1 q =>
        rw [hs] at h
        cases q with
        | ok ss =>
          simp only [Prod.mk.injEq, Res.ok.injEq] at h
          obtain ⟨h1, h2, h3⟩ := h
          subst h1 h2 h3
          obtain ⟨e, k⟩ := ipParseSets_ok c b1 b2 _ st body st1 ss hk hs hrep
          rw [e]
          exact ⟨rfl, k⟩
        | err => simp at h
        | panic => simp at h
        | overflow => simp at h

/-- an IPFIX message that fails to parse fails on its header, before any set is looked at -/
theorem parseIpfix_err (c : Config) (hw : 0 < c.t.ipSetHdr.wireLen) (b1 b2 : Bool) (st st' : PState) (i : Bytes)
    (h : parseIpfix (flag c b2) st i = (st', .err)) : parseIpfix (flag c b1) st i = (st', .err) := by
  simp only [parseIpfix] at h ⊢
  cases hl : parseLayout c.t.protoFromU8 c.t.ipHdr i with
  | none => simp only [hl] at h ⊢; exact h
  | some x =>
    obtain ⟨hd, r0⟩ := x
    simp only [hl] at h ⊢
    cases ht : takeN (c.t.ipHdr.get "length" hd - 16) r0 with
    | none => simp only [ht] at h ⊢; exact h
    | some y =>
      obtain ⟨body, r'⟩ := y
      simp only [ht] at h ⊢
      exfalso
      cases hs : ipParseSets (flag c b2) (body.length + 1) st body with
      | mk st1 q =>
        rw [hs] at h
        cases q with
        | ok ss => simp at h
        | err => exact ipParseSets_ne_err (flag c b2) hw _ _ _ _ hs
        | panic => simp at h
        | overflow => simp at h

/-! ### one packet -/

theorem parseFixed_flag (c : Config) (b : Bool) (hdr rec : Layout) (i : Bytes) :
    parseFixed (flag c b) hdr rec i = parseFixed c hdr rec i := rfl

theorem liftRes_ok {v : Nat} {body : Bytes} {q : Res (Packet × Bytes)} {p : Packet} {r : Bytes}
    (h : liftRes v body q = .ok p r) : q = .ok (p, r) := by
  cases q with
  | ok a => obtain ⟨p', r'⟩ := a; simp only [liftRes, Step.ok.injEq] at h; rw [h.1, h.2]
  | err => simp [liftRes] at h
  | panic => simp [liftRes] at h
  | overflow => simp [liftRes] at h

theorem liftRes_fail {v : Nat} {body : Bytes} {q : Res (Packet × Bytes)} {e : ErrKind}
    (h : liftRes v body q = .fail e) : q = .err := by
  cases q with
  | ok a => obtain ⟨p', r'⟩ := a; simp [liftRes] at h
  | err => rfl
  | panic => simp [liftRes] at h
  | overflow => simp [liftRes] at h

theorem liftRes_ne_unallowed {v : Nat} {body : Bytes} {q : Res (Packet × Bytes)} : liftRes v body q ≠ .unallowed := by
  cases q with
  | ok a => obtain ⟨p', r'⟩ := a; simp [liftRes]
  | err => simp [liftRes]
  | panic => simp [liftRes]
  | overflow => simp [liftRes]

/-- the three ways a `parse_packet_by_version` step can contribute to a `.done` outcome, compared
    between the two builds -/
def StepSame (c : Config) (b1 : Bool) (run : Config → PState × Step) (st1 : PState) (step : Step) : Prop :=
  (∀ pkt rest, step = .ok pkt rest → PktKnown c pkt → run (flag c b1) = (st1, step) ∧ KnownOnlyP c st1) ∧
  (∀ e, step = .fail e → run (flag c b1) = (st1, step)) ∧
  (step = .unallowed → run (flag c b1) = (st1, step))

theorem parseVersioned_flag (c : Config) (hw : 0 < c.t.ipSetHdr.wireLen) (b1 b2 : Bool) (st : PState) (kind : Nat)
    (body : Bytes) (st1 : PState) (step : Step) (hk : KnownOnlyP c st)
    (h : parseVersioned (flag c b2) st kind body = (st1, step)) :
    StepSame c b1 (fun c' => parseVersioned c' st kind body) st1 step := by
  have hsame : parseVersioned (flag c b1) st kind body = parseVersioned (flag c b2) st kind body →
      st1 = st → StepSame c b1 (fun c' => parseVersioned c' st kind body) st1 step := by
    intro he hst
    refine ⟨fun pkt rest _ _ => ⟨?_, hst ▸ hk⟩, fun e _ => ?_, fun _ => ?_⟩ <;> (dsimp only; rw [he, h])
  unfold parseVersioned at h
  by_cases k5 : kind = 5
  · rw [if_pos k5] at h
    refine hsame (by simp only [parseVersioned, if_pos k5, parseFixed_flag]) ?_
    simp only [parseFixed_flag] at h
    cases hp : parseFixed c c.t.v5Hdr c.t.v5Rec body with
    | none => simp only [hp, Prod.mk.injEq] at h; exact h.1.symm
    | some x => obtain ⟨⟨hd, rs⟩, r⟩ := x; simp only [hp, Prod.mk.injEq] at h; exact h.1.symm
  · rw [if_neg k5] at h
    by_cases k7 : kind = 7
    · rw [if_pos k7] at h
      refine hsame (by simp only [parseVersioned, if_neg k5, if_pos k7, parseFixed_flag]) ?_
      simp only [parseFixed_flag] at h
      cases hp : parseFixed c c.t.v7Hdr c.t.v7Rec body with
      | none => simp only [hp, Prod.mk.injEq] at h; exact h.1.symm
      | some x => obtain ⟨⟨hd, rs⟩, r⟩ := x; simp only [hp, Prod.mk.injEq] at h; exact h.1.symm
    · rw [if_neg k7] at h
      by_cases k9 : kind = 9
      · rw [if_pos k9] at h
        have hu : ∀ c', parseVersioned c' st kind body = ((parseV9 c' st body).1, liftRes 9 body (parseV9 c' st body).2) := by
          intro c'; simp only [parseVersioned, if_neg k5, if_neg k7, if_pos k9]
        cases hx : parseV9 (flag c b2) st body with
        | mk s q =>
          rw [hx] at h
          simp only [Prod.mk.injEq] at h
          obtain ⟨h1, h2⟩ := h
          subst h1
          refine ⟨fun pkt rest hs hrep => ?_, fun e hs => ?_, fun hs => ?_⟩
          · rw [hs] at h2
            rw [liftRes_ok h2] at hx
            obtain ⟨e, k⟩ := parseV9_ok c b1 b2 st s body pkt rest hk hx hrep
            refine ⟨?_, k⟩
            dsimp only
            rw [hu, e, hs]; rfl
          · rw [hs] at h2
            have hq := liftRes_fail h2
            subst hq
            have e' := parseV9_err c b1 b2 st s body hx
            dsimp only
            rw [hu, e', hs, ← h2]
          · rw [hs] at h2
            exact absurd h2 liftRes_ne_unallowed
      · rw [if_neg k9] at h
        by_cases k10 : kind = 10
        · rw [if_pos k10] at h
          have hu : ∀ c', parseVersioned c' st kind body =
              ((parseIpfix c' st body).1, liftRes 10 body (parseIpfix c' st body).2) := by
            intro c'; simp only [parseVersioned, if_neg k5, if_neg k7, if_neg k9, if_pos k10]
          cases hx : parseIpfix (flag c b2) st body with
          | mk s q =>
            rw [hx] at h
            simp only [Prod.mk.injEq] at h
            obtain ⟨h1, h2⟩ := h
            subst h1
            refine ⟨fun pkt rest hs hrep => ?_, fun e hs => ?_, fun hs => ?_⟩
            · rw [hs] at h2
              rw [liftRes_ok h2] at hx
              obtain ⟨e, k⟩ := parseIpfix_ok c b1 b2 st s body pkt rest hk hx hrep
              refine ⟨?_, k⟩
              dsimp only
              rw [hu, e, hs]; rfl
            · rw [hs] at h2
              have hq := liftRes_fail h2
              subst hq
              have e' := parseIpfix_err c hw b1 b2 st s body hx
              dsimp only
              rw [hu, e', hs, ← h2]
            · rw [hs] at h2
              exact absurd h2 liftRes_ne_unallowed
        · rw [if_neg k10] at h
          refine hsame (by simp only [parseVersioned, if_neg k5, if_neg k7, if_neg k9, if_neg k10]) ?_
          simp only [Prod.mk.injEq] at h
          exact h.1.symm

theorem parsePacket_flag (c : Config) (hw : 0 < c.t.ipSetHdr.wireLen) (b1 b2 : Bool) (st : PState) (buf : Bytes)
    (st1 : PState) (step : Step) (hk : KnownOnlyP c st)
    (h : parsePacket (flag c b2) st buf = (st1, step)) :
    StepSame c b1 (fun c' => parsePacket c' st buf) st1 step := by
  have hsame : parsePacket (flag c b1) st buf = parsePacket (flag c b2) st buf →
      st1 = st → StepSame c b1 (fun c' => parsePacket c' st buf) st1 step := by
    intro he hst
    refine ⟨fun pkt rest _ _ => ⟨?_, hst ▸ hk⟩, fun e _ => ?_, fun _ => ?_⟩ <;> (dsimp only; rw [he, h])
  rcases parsePacket_inv _ _ _ _ _ h with ⟨hl, hst, hs⟩ | ⟨v, hv, ha, hst, hs⟩ | ⟨v, hv, ha, hd, hst, hs⟩ | ⟨v, kind, hv, ha, hd, hpv⟩
  · refine hsame ?_ hst
    have : beU 2 buf = none := by simp [beU]; omega
    simp only [parsePacket, this]
  · refine hsame ?_ hst
    simp only [] at ha
    simp only [parsePacket, hv, ha, Bool.false_eq_true, ↓reduceIte]
  · refine hsame ?_ hst
    simp only [] at ha hd
    simp only [parsePacket, hv, ha, hd, ↓reduceIte]
  · simp only [] at ha hd
    have hu : ∀ b, parsePacket (flag c b) st buf = parseVersioned (flag c b) st kind (buf.drop 2) := by
      intro b; simp only [parsePacket, hv, ha, hd, ↓reduceIte]
    obtain ⟨g1, g2, g3⟩ := parseVersioned_flag c hw b1 b2 st kind (buf.drop 2) st1 step hk hpv
    refine ⟨fun pkt rest hs hrep => ?_, fun e hs => ?_, fun hs => ?_⟩
    · obtain ⟨e, k⟩ := g1 pkt rest hs hrep
      exact ⟨by dsimp only at e ⊢; rw [hu, e], k⟩
    · have e' := g2 e hs
      dsimp only at e' ⊢; rw [hu, e']
    · have e' := g3 hs
      dsimp only at e' ⊢; rw [hu, e']

/-! ### the whole `parse_bytes` call -/

theorem parseBytesF_same (c : Config) (hw : 0 < c.t.ipSetHdr.wireLen) (b1 b2 : Bool) :
    ∀ (fuel : Nat) (st : PState) (buf : Bytes) (st' : PState) (pkts : List Packet),
      KnownOnlyP c st → parseBytesF (flag c b2) fuel st buf = (st', .done pkts) → (∀ p ∈ pkts, PktKnown c p) →
      parseBytesF (flag c b1) fuel st buf = (st', .done pkts) := by
  intro fuel
  induction fuel with
  | zero => intro st buf st' pkts _ h; simp [parseBytesF] at h
  | succ fuel ih =>
    intro st buf st' pkts hk h hrep
    unfold parseBytesF at h ⊢
    by_cases he : buf.isEmpty = true
    · simp only [he, ↓reduceIte] at h ⊢; exact h
    · simp only [he, Bool.false_eq_true, ↓reduceIte] at h ⊢
      cases hp : parsePacket (flag c b2) st buf with
      | mk st1 step =>
        obtain ⟨g1, g2, g3⟩ := parsePacket_flag c hw b1 b2 st buf st1 step hk hp
        dsimp only at g1 g2 g3
        rw [hp] at h
        cases step with
        | ok pkt rest =>
          dsimp only at h
          by_cases hre : rest.isEmpty = true
          · simp only [hre, ↓reduceIte, Prod.mk.injEq, Outcome.done.injEq] at h
            obtain ⟨e, _⟩ := g1 pkt rest rfl (hrep pkt (by rw [← h.2]; exact List.mem_cons_self))
            rw [e]
            simp only [hre, ↓reduceIte, Prod.mk.injEq, Outcome.done.injEq]
            exact h
          · simp only [hre, Bool.false_eq_true, ↓reduceIte] at h
            cases hrec : parseBytesF (flag c b2) fuel st1 rest with
            | mk st2 out =>
              rw [hrec] at h
              simp only [Prod.mk.injEq] at h
              cases out with
              | done ps =>
                simp only [Outcome.cons, Outcome.done.injEq] at h
                obtain ⟨h1, h2⟩ := h
                subst h1 h2
                obtain ⟨e, k⟩ := g1 pkt rest rfl (hrep pkt List.mem_cons_self)
                rw [e]
                simp only [hre, Bool.false_eq_true, ↓reduceIte]
                rw [ih st1 rest st2 ps k hrec (fun p hp' => hrep p (List.mem_cons_of_mem _ hp'))]
                rfl
              | panic ps => simp [Outcome.cons] at h
              | overflow ps => simp [Outcome.cons] at h
        | fail e => rw [g2 e rfl]; exact h
        | unallowed => rw [g3 rfl]; exact h
        | panic => simp at h
        | overflow => simp at h

/-! ### flag off: nothing of unknown type is ever decoded -/

def V9SetClean (c : Config) (s : V9Set) : Prop :=
  ∀ recs pad, s.body = .data recs pad → ∀ r ∈ recs, ∀ e ∈ r, c.t.v9Ty e.2.1 ≠ .unknown

def IpSetClean (c : Config) (s : IpSet) : Prop :=
  ∀ recs pad, (s.body = .data recs pad ∨ s.body = .optData recs pad) → ∀ r ∈ recs, ∀ e ∈ r, IpEntryOk c e

def PktClean (c : Config) : Packet → Prop
  | .v9 _ ss => ∀ s ∈ ss, V9SetClean c s
  | .ipfix _ ss => ∀ s ∈ ss, IpSetClean c s
  | _ => True

theorem v9ParseBody_off_clean (c : Config) (st : PState) (id : Nat) (body : Bytes) (st1 : PState) (b : V9Body)
    (h : v9ParseBody (flag c false) st id body = (st1, .ok b)) :
    ∀ recs pad, b = .data recs pad → ∀ r ∈ recs, ∀ e ∈ r, c.t.v9Ty e.2.1 ≠ .unknown := by
  simp only [v9ParseBody, v9ScopeLoop_flag, v9OptLoop_flag] at h
  intro recs pad hb
  subst hb
  by_cases h1 : id = c.t.v9TemplateId
  · rw [if_pos h1] at h
    cases hm : many0 parseV9Template body with
    | ok x => obtain ⟨ts, pad'⟩ := x; simp [hm] at h
    | err => simp [hm] at h
    | outOfFuel => simp [hm] at h
  · rw [if_neg h1] at h
    by_cases h2 : id = c.t.v9OptTemplateId
    · rw [if_pos h2] at h
      cases hm : many0 parseV9OptTemplate body with
      | ok x => obtain ⟨ts, pad'⟩ := x; simp [hm] at h
      | err => simp [hm] at h
      | outOfFuel => simp [hm] at h
    · rw [if_neg h2] at h
      cases hO : amLookup id st.v9O with
      | some ot =>
        simp only [hO] at h
        cases hs : v9ScopeLoop c ot.scope body with
        | none => simp [hs] at h
        | some x =>
          obtain ⟨ss, r⟩ := x
          simp only [hs] at h
          cases ho : v9OptLoop c ot.opts r with
          | none => simp [ho] at h
          | some y => obtain ⟨os, pad'⟩ := y; simp [ho] at h
      | none =>
        simp only [hO] at h
        cases hT : amLookup id st.v9T with
        | none => simp [hT] at h
        | some t =>
          simp only [hT] at h
          by_cases h0 : v9TotalSize t.fields = 0
          · simp [h0] at h
          · simp only [h0, ↓reduceIte] at h
            cases hx : v9RecLoop (flag c false) t.fields (body.length / v9TotalSize t.fields) body [] with
            | mk recs' pad' =>
              rw [hx] at h
              simp only [Prod.mk.injEq, Res.ok.injEq, V9Body.data.injEq] at h
              rw [← h.2.1]
              exact v9RecLoop_off_entries c t.fields _ body [] recs' pad' (fun r hr => by cases hr) hx

theorem v9ParseSet_off_clean (c : Config) (st : PState) (i : Bytes) (st1 : PState) (s : V9Set) (r : Bytes)
    (h : v9ParseSet (flag c false) st i = (st1, .ok (s, r))) : V9SetClean c s := by
  simp only [v9ParseSet] at h
  cases hl : parseLayout c.t.protoFromU8 c.t.v9SetHdr i with
  | none => simp [hl] at h
  | some x =>
    obtain ⟨hd, r0⟩ := x
    simp only [hl] at h
    cases ht : takeN (c.t.v9SetHdr.get "length" hd - 4) r0 with
    | none => simp [ht] at h
    | some y =>
      obtain ⟨body, r'⟩ := y
      simp only [ht] at h
      cases hb : v9ParseBody (flag c false) st (c.t.v9SetHdr.get "flowset_id" hd) body with
      | mk st2 res =>
        rw [hb] at h
        cases res with
        | ok b =>
          simp only [Prod.mk.injEq, Res.ok.injEq] at h
          rw [← h.2.1]
          intro recs pad hbody
          exact v9ParseBody_off_clean c st _ body st2 b hb recs pad hbody
        | err => simp at h
        | panic => simp at h
        | overflow => simp at h

theorem v9ParseSets_off_clean (c : Config) :
    ∀ (n : Nat) (st : PState) (i : Bytes) (st' : PState) (ss : List V9Set) (r : Bytes),
      v9ParseSets (flag c false) n st i = (st', .ok (ss, r)) → ∀ s ∈ ss, V9SetClean c s := by
  intro n
  induction n with
  | zero =>
    intro st i st' ss r h s hs
    simp only [v9ParseSets, Prod.mk.injEq, Res.ok.injEq] at h
    rw [← h.2.1] at hs; cases hs
  | succ n ih =>
    intro st i st' ss r h
    simp only [v9ParseSets] at h
    by_cases he : i.isEmpty = true
    · simp only [he, ↓reduceIte] at h; exact ih st i st' ss r h
    · simp only [he, Bool.false_eq_true, ↓reduceIte] at h
      cases hs : v9ParseSet (flag c false) st i with
      | mk st1 q =>
        rw [hs] at h
        cases q with
        | ok a =>
          obtain ⟨s, r1⟩ := a
          dsimp only at h
          cases hr : v9ParseSets (flag c false) n st1 r1 with
          | mk st2 q2 =>
            rw [hr] at h
            cases q2 with
            | ok a2 =>
              obtain ⟨ss', r'⟩ := a2
              simp only [Prod.mk.injEq, Res.ok.injEq] at h
              rw [← h.2.1]
              intro s' hs'
              rcases List.mem_cons.1 hs' with h1 | h1
              · rw [h1]; exact v9ParseSet_off_clean c st i st1 s r1 hs
              · exact ih st1 r1 st2 ss' r' hr s' h1
            | err => simp at h
            | panic => simp at h
            | overflow => simp at h
        | err => simp at h
        | panic => simp at h
        | overflow => simp at h

theorem parseV9_off_clean (c : Config) (st st' : PState) (i : Bytes) (p : Packet) (r : Bytes)
    (h : parseV9 (flag c false) st i = (st', .ok (p, r))) : PktClean c p := by
  simp only [parseV9] at h
  cases hl : parseLayout c.t.protoFromU8 c.t.v9Hdr i with
  | none => simp [hl] at h
  | some x =>
    obtain ⟨hd, r0⟩ := x
    simp only [hl] at h
    cases hs : v9ParseSets (flag c false) (c.t.v9Hdr.get "count" hd) st r0 with
    | mk st1 q =>
      rw [hs] at h
      cases q with
      | ok a =>
        obtain ⟨ss, r'⟩ := a
        simp only [Prod.mk.injEq, Res.ok.injEq] at h
        rw [← h.2.1]
        exact v9ParseSets_off_clean c _ st r0 st1 ss r' hs
      | err => simp at h
      | panic => simp at h
      | overflow => simp at h

theorem ipRecLoop_res_off_clean (c : Config) (fs : List IpTField) (body : Bytes) (recs : List Rec) (pad : Bytes)
    (mk : List Rec → Bytes → IpBody) (st st1 : PState) (b : IpBody)
    (h : (match ipRecLoop (flag c false) fs (body.length + 1) body with
          | .ok (recs, pad) => (st, Res.ok (mk recs pad))
          | .err => (st, .err)
          | .panic => (st, .panic)
          | .overflow => (st, .overflow)) = (st1, Res.ok b))
    (hb : b = mk recs pad) (hinj : ∀ a b a' b', mk a b = mk a' b' → a = a') :
    ∀ r ∈ recs, ∀ e ∈ r, IpEntryOk c e := by
  cases hx : ipRecLoop (flag c false) fs (body.length + 1) body with
  | ok x =>
    obtain ⟨recs', pad'⟩ := x
    rw [hx] at h
    simp only [Prod.mk.injEq, Res.ok.injEq] at h
    have : recs' = recs := hinj _ _ _ _ (h.2.trans hb)
    rw [← this]
    exact ipRecLoop_off_entries c fs _ body recs' pad' hx
  | err => rw [hx] at h; simp at h
  | panic => rw [hx] at h; simp at h
  | overflow => rw [hx] at h; simp at h

theorem ipParseBody_off_clean (c : Config) (st : PState) (id : Nat) (body : Bytes) (st1 : PState) (b : IpBody)
    (h : ipParseBody (flag c false) st id body = (st1, .ok b)) :
    ∀ recs pad, (b = .data recs pad ∨ b = .optData recs pad) → ∀ r ∈ recs, ∀ e ∈ r, IpEntryOk c e := by
  simp only [ipParseBody] at h
  intro recs pad hb
  by_cases h1 : id < c.t.ipSetMinRange ∧ id ≠ c.t.ipOptTemplateId
  · rw [if_pos h1] at h
    exfalso
    cases hm : parseIpTemplate body with
    | ok t =>
      simp only [hm] at h
      by_cases hv : ipValid t.fields = true
      · simp only [hv, ↓reduceIte, Prod.mk.injEq, Res.ok.injEq] at h
        rcases hb with hb | hb <;> (rw [hb] at h; simp at h)
      · simp [hv] at h
    | err => simp [hm] at h
    | panic => simp [hm] at h
    | overflow => simp [hm] at h
  · rw [if_neg h1] at h
    by_cases h2 : id = c.t.ipOptTemplateId
    · rw [if_pos h2] at h
      exfalso
      cases hm : parseIpOptTemplate body with
      | ok t =>
        simp only [hm] at h
        by_cases hv : ipValid t.fields = true
        · simp only [hv, ↓reduceIte, Prod.mk.injEq, Res.ok.injEq] at h
          rcases hb with hb | hb <;> (rw [hb] at h; simp at h)
        · simp [hv] at h
      | err => simp [hm] at h
      | panic => simp [hm] at h
      | overflow => simp [hm] at h
    · rw [if_neg h2] at h
      cases hT : amLookup id st.ipT with
      | some t =>
        simp only [hT] at h
        by_cases hemp : t.fields.isEmpty = true
        · simp [hemp] at h
        · simp only [hemp, Bool.false_eq_true, ↓reduceIte] at h
          rcases hb with hb | hb
          · exact ipRecLoop_res_off_clean c t.fields body recs pad IpBody.data st st1 b h hb
              (fun a b a' b' hh => by injection hh)
          · exfalso
            cases hx : ipRecLoop (flag c false) t.fields (body.length + 1) body with
            | ok x => obtain ⟨r1, p1⟩ := x; rw [hx, hb] at h; simp at h
            | err => rw [hx] at h; simp at h
            | panic => rw [hx] at h; simp at h
            | overflow => rw [hx] at h; simp at h
      | none =>
        simp only [hT] at h
        cases hO : amLookup id st.ipO with
        | none => simp [hO] at h
        | some t =>
          simp only [hO] at h
          by_cases hemp : t.fields.isEmpty = true
          · simp [hemp] at h
          · simp only [hemp, Bool.false_eq_true, ↓reduceIte] at h
            rcases hb with hb | hb
            · exfalso
              cases hx : ipRecLoop (flag c false) t.fields (body.length + 1) body with
              | ok x => obtain ⟨r1, p1⟩ := x; rw [hx, hb] at h; simp at h
              | err => rw [hx] at h; simp at h
              | panic => rw [hx] at h; simp at h
              | overflow => rw [hx] at h; simp at h
            · exact ipRecLoop_res_off_clean c t.fields body recs pad IpBody.optData st st1 b h hb
                (fun a b a' b' hh => by injection hh)

theorem ipParseSet_off_clean (c : Config) (st : PState) (i : Bytes) (st1 : PState) (s : IpSet) (r : Bytes)
    (h : ipParseSet (flag c false) st i = (st1, .ok (s, r))) : IpSetClean c s := by
  simp only [ipParseSet] at h
  cases hl : parseLayout c.t.protoFromU8 c.t.ipSetHdr i with
  | none => simp [hl] at h
  | some x =>
    obtain ⟨hd, r0⟩ := x
    simp only [hl] at h
    cases ht : takeN (c.t.ipSetHdr.get "length" hd - 4) r0 with
    | none => simp [ht] at h
    | some y =>
      obtain ⟨body, r'⟩ := y
      simp only [ht] at h
      cases hb : ipParseBody (flag c false) st (c.t.ipSetHdr.get "header_id" hd) body with
      | mk st2 res =>
        rw [hb] at h
        cases res with
        | ok b =>
          simp only [Prod.mk.injEq, Res.ok.injEq] at h
          rw [← h.2.1]
          intro recs pad hbody
          exact ipParseBody_off_clean c st _ body st2 b hb recs pad hbody
        | err => simp at h
        | panic => simp at h
        | overflow => simp at h

theorem ipParseSets_off_clean (c : Config) :
    ∀ (fuel : Nat) (st : PState) (i : Bytes) (st' : PState) (ss : List IpSet),
      ipParseSets (flag c false) fuel st i = (st', .ok ss) → ∀ s ∈ ss, IpSetClean c s := by
  intro fuel
  induction fuel with
  | zero => intro st i st' ss h; simp [ipParseSets] at h
  | succ fuel ih =>
    intro st i st' ss h
    simp only [ipParseSets] at h
    cases hs : ipParseSet (flag c false) st i with
    | mk st1 q =>
      rw [hs] at h
      cases q with
      | ok a =>
        obtain ⟨s, r⟩ := a
        dsimp only at h
        by_cases hlen : r.length = i.length
        · simp [hlen] at h
        · simp only [hlen, ↓reduceIte] at h
          cases hr : ipParseSets (flag c false) fuel st1 r with
          | mk st2 q2 =>
            rw [hr] at h
            cases q2 with
            | ok ss' =>
              simp only [Prod.mk.injEq, Res.ok.injEq] at h
              rw [← h.2]
              intro s' hs'
              rcases List.mem_cons.1 hs' with h1 | h1
              · rw [h1]; exact ipParseSet_off_clean c st i st1 s r hs
              · exact ih st1 r st2 ss' hr s' h1
            | err => simp at h
            | panic => simp at h
            | overflow => simp at h
      | err =>
        simp only [Prod.mk.injEq, Res.ok.injEq] at h
        rw [← h.2]
        intro s hs'; cases hs'
      | panic => simp at h
      | overflow => simp at h

theorem parseIpfix_off_clean (c : Config) (st st' : PState) (i : Bytes) (p : Packet) (r : Bytes)
    (h : parseIpfix (flag c false) st i = (st', .ok (p, r))) : PktClean c p := by
  simp only [parseIpfix] at h
  cases hl : parseLayout c.t.protoFromU8 c.t.ipHdr i with
  | none => simp [hl] at h
  | some x =>
    obtain ⟨hd, r0⟩ := x
    simp only [hl] at h
    cases ht : takeN (c.t.ipHdr.get "length" hd - 16) r0 with
    | none => simp [ht] at h
    | some y =>
      obtain ⟨body, r'⟩ := y
      simp only [ht] at h
      cases hs : ipParseSets (flag c false) (body.length + 1) st body with
      | mk st1 q =>
        rw [hs] at h
        cases q with
        | ok ss =>
          simp only [Prod.mk.injEq, Res.ok.injEq] at h
          rw [← h.2.1]
          exact ipParseSets_off_clean c _ st body st1 ss hs
        | err => simp at h
        | panic => simp at h
        | overflow => simp at h

theorem parsePacket_off_clean (c : Config) (st : PState) (buf : Bytes) (st1 : PState) (pkt : Packet) (rest : Bytes)
    (h : parsePacket (flag c false) st buf = (st1, .ok pkt rest)) : PktClean c pkt := by
  rcases parsePacket_inv _ _ _ _ _ h with ⟨_, _, hs⟩ | ⟨_, _, _, _, hs⟩ | ⟨_, _, _, _, _, hs⟩ | ⟨v, kind, _, _, _, hpv⟩
  · cases hs
  · cases hs
  · cases hs
  · unfold parseVersioned at hpv
    by_cases k5 : kind = 5
    · rw [if_pos k5] at hpv
      cases hp : parseFixed (flag c false) (flag c false).t.v5Hdr (flag c false).t.v5Rec (buf.drop 2) with
      | none => simp [hp] at hpv
      | some x =>
        obtain ⟨⟨hd, rs⟩, r⟩ := x
        simp only [hp, Prod.mk.injEq, Step.ok.injEq] at hpv
        rw [← hpv.2.1]; trivial
    · rw [if_neg k5] at hpv
      by_cases k7 : kind = 7
      · rw [if_pos k7] at hpv
        cases hp : parseFixed (flag c false) (flag c false).t.v7Hdr (flag c false).t.v7Rec (buf.drop 2) with
        | none => simp [hp] at hpv
        | some x =>
          obtain ⟨⟨hd, rs⟩, r⟩ := x
          simp only [hp, Prod.mk.injEq, Step.ok.injEq] at hpv
          rw [← hpv.2.1]; trivial
      · rw [if_neg k7] at hpv
        by_cases k9 : kind = 9
        · rw [if_pos k9] at hpv
          cases hx : parseV9 (flag c false) st (buf.drop 2) with
          | mk s q =>
            rw [hx] at hpv
            simp only [Prod.mk.injEq] at hpv
            rw [liftRes_ok hpv.2] at hx
            exact parseV9_off_clean c st s _ pkt rest hx
        · rw [if_neg k9] at hpv
          by_cases k10 : kind = 10
          · rw [if_pos k10] at hpv
            cases hx : parseIpfix (flag c false) st (buf.drop 2) with
            | mk s q =>
              rw [hx] at hpv
              simp only [Prod.mk.injEq] at hpv
              rw [liftRes_ok hpv.2] at hx
              exact parseIpfix_off_clean c st s _ pkt rest hx
          · rw [if_neg k10] at hpv
            simp at hpv

theorem parseBytesF_off_clean (c : Config) :
    ∀ (fuel : Nat) (st : PState) (buf : Bytes) (st' : PState) (pkts : List Packet),
      parseBytesF (flag c false) fuel st buf = (st', .done pkts) → ∀ p ∈ pkts, PktClean c p := by
  intro fuel
  induction fuel with
  | zero => intro st buf st' pkts h; simp [parseBytesF] at h
  | succ fuel ih =>
    intro st buf st' pkts h
    unfold parseBytesF at h
    by_cases he : buf.isEmpty = true
    · simp only [he, ↓reduceIte, Prod.mk.injEq, Outcome.done.injEq] at h
      rw [← h.2]; intro p hp; cases hp
    · simp only [he, Bool.false_eq_true, ↓reduceIte] at h
      cases hp : parsePacket (flag c false) st buf with
      | mk st1 step =>
        rw [hp] at h
        cases step with
        | ok pkt rest =>
          have hc := parsePacket_off_clean c st buf st1 pkt rest hp
          dsimp only at h
          by_cases hre : rest.isEmpty = true
          · simp only [hre, ↓reduceIte, Prod.mk.injEq, Outcome.done.injEq] at h
            rw [← h.2]
            intro p hp'
            have : p = pkt := by simpa using hp'
            rw [this]; exact hc
          · simp only [hre, Bool.false_eq_true, ↓reduceIte] at h
            cases hrec : parseBytesF (flag c false) fuel st1 rest with
            | mk st2 out =>
              rw [hrec] at h
              simp only [Prod.mk.injEq] at h
              cases out with
              | done ps =>
                simp only [Outcome.cons, Outcome.done.injEq] at h
                rw [← h.2]
                intro p hp'
                rcases List.mem_cons.1 hp' with h1 | h1
                · rw [h1]; exact hc
                · exact ih st1 rest st2 ps hrec p h1
              | panic ps => simp [Outcome.cons] at h
              | overflow ps => simp [Outcome.cons] at h
        | fail e =>
          simp only [Prod.mk.injEq, Outcome.done.injEq] at h
          rw [← h.2]
          intro p hp'
          have : p = .error e buf := by simpa using hp'
          rw [this]; trivial
        | unallowed =>
          simp only [Prod.mk.injEq, Outcome.done.injEq] at h
          rw [← h.2]; intro p hp'; cases hp'
        | panic => simp at h
        | overflow => simp at h

/-! ### the decidable oracle predicates of Findings.lean -/

theorem reports_false_pktKnown (c : Config) (pkts : List Packet)
    (h : Findings.reportsUnknownTemplate c pkts = false) : ∀ p ∈ pkts, PktKnown c p := by
  unfold Findings.reportsUnknownTemplate at h
  rw [List.any_eq_false] at h
  intro p hp
  have hp' := h p hp
  cases p with
  | v9 hd ss =>
    intro s hs ts pad hb t ht
    refine (v9Known_iff c _).1 ?_
    cases hu : v9HasUnknown c t.fields with
    | false => rfl
    | true =>
      exfalso
      apply hp'
      dsimp only
      rw [List.any_eq_true]
      refine ⟨s, hs, ?_⟩
      rw [hb]
      dsimp only
      rw [List.any_eq_true]
      exact ⟨t, ht, hu⟩
  | ipfix hd ss =>
    intro s hs
    refine ⟨fun t hb => ?_, fun t hb => ?_⟩
    · refine (ipKnown_iff c _).1 ?_
      cases hu : ipHasUnknown c t.fields with
      | false => rfl
      | true =>
        exfalso
        apply hp'
        dsimp only
        rw [List.any_eq_true]
        refine ⟨s, hs, ?_⟩
        rw [hb]
        exact hu
    · refine (ipKnown_iff c _).1 ?_
      cases hu : ipHasUnknown c t.fields with
      | false => rfl
      | true =>
        exfalso
        apply hp'
        dsimp only
        rw [List.any_eq_true]
        refine ⟨s, hs, ?_⟩
        rw [hb]
        exact hu
  | v5 _ _ => trivial
  | v7 _ _ => trivial
  | error _ _ => trivial

theorem pktClean_noUnknownEntries (c : Config) (pkts : List Packet) (h : ∀ p ∈ pkts, PktClean c p) :
    Findings.noUnknownEntries c pkts = true := by
  unfold Findings.noUnknownEntries
  rw [List.all_eq_true]
  intro p hp
  have hc := h p hp
  cases p with
  | v9 hd ss =>
    dsimp only
    rw [List.all_eq_true]
    intro s hs
    cases hb : s.body with
    | data recs pad =>
      dsimp only
      rw [List.all_eq_true]
      intro r hr
      rw [List.all_eq_true]
      intro e he
      have := hc s hs recs pad hb r hr e he
      simpa using this
    | templates _ _ => rfl
    | optTemplates _ _ => rfl
    | optData _ _ _ => rfl
  | ipfix hd ss =>
    dsimp only
    rw [List.all_eq_true]
    intro s hs
    cases hb : s.body with
    | data recs pad =>
      dsimp only
      rw [List.all_eq_true]
      intro r hr
      rw [List.all_eq_true]
      intro e he
      have := hc s hs recs pad (Or.inl hb) r hr e he
      unfold IpEntryOk at this
      simpa using this
    | optData recs pad =>
      dsimp only
      rw [List.all_eq_true]
      intro r hr
      rw [List.all_eq_true]
      intro e he
      have := hc s hs recs pad (Or.inr hb) r hr e he
      unfold IpEntryOk at this
      simpa using this
    | template _ => rfl
    | optTemplate _ => rfl
  | v5 _ _ => rfl
  | v7 _ _ => rfl
  | error _ _ => rfl

/-! ### exporters and the common view never read the flag -/

theorem toBE_flag (vc : ValueCfg) (b : Bool) (v : FieldValue) :
    FieldValue.toBE { vc with unknownFields := b } v = FieldValue.toBE vc v := by
  cases v <;> rfl

theorem exportRec_flag (vc : ValueCfg) (b : Bool) : exportRec { vc with unknownFields := b } = exportRec vc := by
  funext r; simp only [exportRec, toBE_flag]

theorem exportRecs_flag (vc : ValueCfg) (b : Bool) : exportRecs { vc with unknownFields := b } = exportRecs vc := by
  funext rs; simp only [exportRecs, exportRec_flag]

theorem exportV9Set_flag (vc : ValueCfg) (b : Bool) : exportV9Set { vc with unknownFields := b } = exportV9Set vc := by
  funext s
  unfold exportV9Set
  cases s.body <;> simp only [exportV9Body, exportRecs_flag]

theorem exportIpSet_flag (vc : ValueCfg) (b : Bool) : exportIpSet { vc with unknownFields := b } = exportIpSet vc := by
  funext s
  unfold exportIpSet
  cases s.body <;> simp only [exportIpBody, exportRecs_flag]

theorem exportPacket_flag (c : Config) (b : Bool) (p : Packet) : exportPacket (flag c b) p = exportPacket c p := by
  cases p with
  | v9 h ss =>
    simp only [exportPacket, exportV9]
    rw [show (flag c b).vc = { c.vc with unknownFields := b } from rfl, exportV9Set_flag]
  | ipfix h ss =>
    simp only [exportPacket, exportIpfix]
    rw [show (flag c b).vc = { c.vc with unknownFields := b } from rfl, exportIpSet_flag]
  | v5 _ _ => rfl
  | v7 _ _ => rfl
  | error _ _ => rfl

theorem toCommon_flag (c : Config) (b : Bool) (p : Packet) : toCommon (flag c b) p = toCommon c p := by
  cases p <;> rfl

/-! ### flag off: what a data set of an unknown-typed template turns into -/

theorem v9RecLoop_none (c : Config) (fs : List TField) (h : ∀ i, v9ParseRec c fs 0 i = none) :
    ∀ (n : Nat) (i : Bytes) (acc : List Rec), v9RecLoop c fs n i acc = (acc, i) := by
  intro n
  induction n with
  | zero => intro i acc; rfl
  | succ n ih => intro i acc; simp only [v9RecLoop, h i, ih]

/-- V9, flag off: the data flowset of a template with an unknown-typed field is reported with NO
    record, its whole body as padding -/
theorem v9ParseBody_unknown_off (c : Config) (st : PState) (id : Nat) (body : Bytes) (t : V9Template)
    (h1 : id ≠ c.t.v9TemplateId) (h2 : id ≠ c.t.v9OptTemplateId) (hO : amLookup id st.v9O = none)
    (hT : amLookup id st.v9T = some t) (hu : ∃ f ∈ t.fields, c.t.v9Ty (c.t.v9Field f.typ) = .unknown) :
    v9ParseBody (flag c false) st id body =
      if v9TotalSize t.fields = 0 then (st, .err) else (st, .ok (.data [] body)) := by
  simp only [v9ParseBody, if_neg h1, if_neg h2, hO, hT]
  rw [v9RecLoop_none (flag c false) t.fields (fun i => v9ParseRec_unknown_off c t.fields hu 0 i)]

theorem ipRecLoop_none (c : Config) (fs : List IpTField) (h : ∀ i, ipParseRec c fs 0 i = none) (n : Nat) (i : Bytes) :
    ipRecLoop c fs (n + 1) i = .err := by
  simp only [ipRecLoop, h i]

/-- IPFIX, flag off: the data set of a template with an unknown-typed (non-enterprise) field is a nom
    error (so `ipParseSets` stops there and the set is not reported at all) -/
theorem ipParseBody_unknown_off_t (c : Config) (st : PState) (id : Nat) (body : Bytes) (t : IpTemplate)
    (h1 : ¬ (id < c.t.ipSetMinRange ∧ id ≠ c.t.ipOptTemplateId)) (h2 : id ≠ c.t.ipOptTemplateId)
    (hT : amLookup id st.ipT = some t)
    (hu : ∃ f ∈ t.fields, f.ent = none ∧ c.t.ipTy (c.t.ipField f.typ) = .unknown) :
    ipParseBody (flag c false) st id body = (st, .err) := by
  simp only [ipParseBody, if_neg h1, if_neg h2, hT]
  rw [ipRecLoop_none (flag c false) t.fields (fun i => ipParseRec_unknown_off c t.fields hu 0 i)]
  split <;> rfl

theorem ipParseBody_unknown_off_o (c : Config) (st : PState) (id : Nat) (body : Bytes) (t : IpOptTemplate)
    (h1 : ¬ (id < c.t.ipSetMinRange ∧ id ≠ c.t.ipOptTemplateId)) (h2 : id ≠ c.t.ipOptTemplateId)
    (hT : amLookup id st.ipT = none) (hO : amLookup id st.ipO = some t)
    (hu : ∃ f ∈ t.fields, f.ent = none ∧ c.t.ipTy (c.t.ipField f.typ) = .unknown) :
    ipParseBody (flag c false) st id body = (st, .err) := by
  simp only [ipParseBody, if_neg h1, if_neg h2, hT, hO]
  rw [ipRecLoop_none (flag c false) t.fields (fun i => ipParseRec_unknown_off c t.fields hu 0 i)]
  split <;> rfl

end Netflow.B2
