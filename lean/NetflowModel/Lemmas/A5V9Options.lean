/-
  Lemmas/A5V9Options.lean — layer (f) of the C04 proof: an options-data flowset carrying ONE record
  (the only shape the crate's `OptionsData` type can express): `v9ScopeLoop` then `v9OptLoop` over the
  concatenated field contents.
-/
import NetflowModel.Lemmas.A5V9Templates
namespace Netflow
open Spec

/-- what the crate needs of an options template to decode its data records (NOT demanded by
    `Spec.expV9Set`): every scope field type is one of the five known scope types (an unknown one
    ends the scope loop at once) and every field has a non-zero length (a zero-length field trips
    nom's `many0` no-progress check and fails the whole flowset). -/
def optDataOk (c : Config) (t : V9OptTemplate) : Bool :=
  t.scope.all (fun f => c.t.scopeKnown f.typ && decide (0 < f.len)) && t.opts.all (fun f => decide (0 < f.len))

/-- non-vacuity: scope System/4, options 34/4 and 35/1 -/
example : optDataOk { t := Generated.tables, allowed := [9] } ⟨258, 4, 8, [⟨1, 4⟩], [⟨34, 4⟩, ⟨35, 1⟩]⟩ = true := by decide

theorem v9ScopeLoop_enc (c : Config) : ∀ (fs : List TField) (vs : List Bytes) (rest : Bytes),
    fs.map (·.len) = vs.map (·.length) →
    fs.all (fun f => c.t.scopeKnown f.typ && decide (0 < f.len)) = true →
    v9ScopeLoop c fs (vs.flatten ++ rest) = some ((fs.zip vs).map (fun p => (c.t.scopeField p.1.typ, p.2)), rest) := by
  intro fs
  induction fs with
  | nil =>
    intro vs rest hl _
    have : vs = [] := by cases vs with | nil => rfl | cons _ _ => simp at hl
    subst this
    simp [v9ScopeLoop]
  | cons f fs ih =>
    intro vs rest hl hok
    cases vs with
    | nil => simp at hl
    | cons v vs =>
      simp only [List.map_cons, List.cons.injEq] at hl
      obtain ⟨hl1, hl2⟩ := hl
      simp only [List.all_cons, Bool.and_eq_true, decide_eq_true_eq] at hok
      obtain ⟨⟨hk, hpos⟩, hok2⟩ := hok
      have hne : ¬ (vs.flatten ++ rest).length = (v ++ (vs.flatten ++ rest)).length := by
        rw [List.length_append (as := v)]; omega
      simp only [v9ScopeLoop, List.flatten_cons, List.append_assoc, takeN_append v _ hl1.symm, hk, ↓reduceIte, hne,
        ih vs rest hl2 hok2, List.zip_cons_cons, List.map_cons]

theorem v9OptLoop_enc (c : Config) : ∀ (fs : List TField) (vs : List Bytes) (rest : Bytes),
    fs.map (·.len) = vs.map (·.length) →
    fs.all (fun f => decide (0 < f.len)) = true →
    v9OptLoop c fs (vs.flatten ++ rest) = some ((fs.zip vs).map (fun p => (c.t.v9Field p.1.typ, p.2)), rest) := by
  intro fs
  induction fs with
  | nil =>
    intro vs rest hl _
    have : vs = [] := by cases vs with | nil => rfl | cons _ _ => simp at hl
    subst this
    simp [v9OptLoop]
  | cons f fs ih =>
    intro vs rest hl hok
    cases vs with
    | nil => simp at hl
    | cons v vs =>
      simp only [List.map_cons, List.cons.injEq] at hl
      obtain ⟨hl1, hl2⟩ := hl
      simp only [List.all_cons, Bool.and_eq_true, decide_eq_true_eq] at hok
      obtain ⟨hpos, hok2⟩ := hok
      have hne : ¬ (vs.flatten ++ rest).length = (v ++ (vs.flatten ++ rest)).length := by
        rw [List.length_append (as := v)]; omega
      simp only [v9OptLoop, List.flatten_cons, List.append_assoc, takeN_append v _ hl1.symm, ↓reduceIte, hne,
        ih vs rest hl2 hok2, List.zip_cons_cons, List.map_cons]

/-- LAYER (f): options data, single record. -/
theorem v9ParseBody_optData (c : Config) (st : PState) (id : Nat) (t : V9OptTemplate) (r : List Bytes) (pad : Bytes)
    (hid0 : id ≠ c.t.v9TemplateId) (hid1 : id ≠ c.t.v9OptTemplateId)
    (hO : amLookup id st.v9O = some t)
    (hlen : (t.scope ++ t.opts).map (·.len) = r.map (·.length))
    (hok : optDataOk c t = true) :
    v9ParseBody c st id (r.flatten ++ pad) =
      (st, .ok (.optData ((t.scope.zip (r.take t.scope.length)).map fun p => (c.t.scopeField p.1.typ, p.2))
                         ((t.opts.zip (r.drop t.scope.length)).map fun p => (c.t.v9Field p.1.typ, p.2)) pad)) := by
  simp only [optDataOk, Bool.and_eq_true] at hok
  obtain ⟨hs, ho⟩ := hok
  have hr : r = r.take t.scope.length ++ r.drop t.scope.length := (List.take_append_drop _ _).symm
  have hlen' := hlen
  rw [List.map_append] at hlen'
  have h1 : t.scope.map (·.len) = (r.take t.scope.length).map (·.length) := by
    have := congrArg (List.take t.scope.length) hlen'
    rw [List.take_left' (by simp), ← List.map_take] at this
    exact this
  have h2 : t.opts.map (·.len) = (r.drop t.scope.length).map (·.length) := by
    have := congrArg (List.drop t.scope.length) hlen'
    rw [List.drop_left' (by simp), ← List.map_drop] at this
    exact this
  have hflat : r.flatten ++ pad = (r.take t.scope.length).flatten ++ ((r.drop t.scope.length).flatten ++ pad) := by
    rw [← List.append_assoc, ← List.flatten_append, List.take_append_drop]
  rw [hflat]
  simp only [v9ParseBody, hid0, hid1, ↓reduceIte, hO, v9ScopeLoop_enc c t.scope _ _ h1 hs, v9OptLoop_enc c t.opts _ pad h2 ho]

end Netflow
