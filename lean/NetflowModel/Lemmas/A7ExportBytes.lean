/-
  Lemmas/A7ExportBytes.lean — byte-level facts for the parse-then-print ("coherence") theorems:
  `toBE`/`beNat` are mutually inverse on fixed-width strings, the primitive parsers are coherent
  with `toBE`, and coherence lifts through `countP` / `many0F`.
-/
import NetflowModel.Lemmas.Basic
import NetflowModel.Export
namespace Netflow.A7

/-! ### `toBE` / `beNat` -/

theorem toBE_length : ∀ (w n : Nat), (toBE w n).length = w := by
  intro w
  induction w with
  | zero => intro n; simp [toBE]
  | succ w ih => intro n; simp [toBE, ih]

theorem beNat_nil : beNat [] = 0 := rfl

theorem beNat_snoc (bs : Bytes) (b : UInt8) : beNat (bs ++ [b]) = beNat bs * 256 + b.toNat := by
  simp [beNat, List.foldl_append]

theorem uint8_toNat_lt (b : UInt8) : b.toNat < 256 := by
  have := b.toNat_lt
  simpa using this

/-- every byte string is `dropLast ++ [last]` -/
theorem bytes_snoc_of_length_succ {n : Nat} (bs : Bytes) (h : bs.length = n + 1) :
    ∃ init b, bs = init ++ [b] ∧ init.length = n := by
  have hne : bs ≠ [] := by intro e; simp [e] at h
  refine ⟨bs.dropLast, bs.getLast hne, (List.dropLast_concat_getLast hne).symm, ?_⟩
  simp [h]

theorem beNat_lt : ∀ (n : Nat) (bs : Bytes), bs.length = n → beNat bs < 256 ^ n := by
  intro n
  induction n with
  | zero =>
    intro bs h
    have : bs = [] := List.eq_nil_of_length_eq_zero h
    subst this; simp [beNat_nil]
  | succ n ih =>
    intro bs h
    obtain ⟨init, b, e, hl⟩ := bytes_snoc_of_length_succ bs h
    subst e
    rw [beNat_snoc, Nat.pow_succ]
    have h1 := ih init hl
    have h2 := uint8_toNat_lt b
    omega

theorem beNat_lt' (bs : Bytes) : beNat bs < 256 ^ bs.length := beNat_lt _ bs rfl

theorem toBE_beNat_aux : ∀ (n : Nat) (bs : Bytes), bs.length = n → toBE n (beNat bs) = bs := by
  intro n
  induction n with
  | zero =>
    intro bs h
    have : bs = [] := List.eq_nil_of_length_eq_zero h
    subst this; simp [toBE]
  | succ n ih =>
    intro bs h
    obtain ⟨init, b, e, hl⟩ := bytes_snoc_of_length_succ bs h
    subst e
    have h2 := uint8_toNat_lt b
    rw [beNat_snoc, toBE]
    have e1 : (beNat init * 256 + b.toNat) / 256 = beNat init := by omega
    have e2 : (beNat init * 256 + b.toNat) % 256 = b.toNat := by omega
    rw [e1, e2, ih init hl]
    simp

/-- `toBE` inverts `beNat` at the string's own width -/
theorem toBE_beNat (bs : Bytes) : toBE bs.length (beNat bs) = bs := toBE_beNat_aux _ bs rfl

theorem toBE_beNat_of_length {w : Nat} {bs : Bytes} (h : bs.length = w) : toBE w (beNat bs) = bs := by
  subst h; exact toBE_beNat bs

/-! ### "consumed prefix" bookkeeping -/

/-- if `a ++ r = i` then `a` is the prefix of `i` that precedes `r` -/
theorem prefix_eq_take {a r i : Bytes} (h : a ++ r = i) : a = i.take (i.length - r.length) := by
  subst h
  simp

theorem take_append_drop_eq (n : Nat) (i : Bytes) : i.take n ++ i.drop n = i := List.take_append_drop n i

/-! ### coherence of a parser with an encoder -/

/-- `p` is coherent with encoder `e` on the results satisfying `Q`: re-encoding the parsed
    value and appending the unconsumed input gives back the input -/
def CohOn {α : Type} (p : P α) (e : α → Bytes) (Q : α → Prop) : Prop :=
  ∀ i a r, p i = some (a, r) → Q a → e a ++ r = i

theorem beU_coh {w : Nat} {i r : Bytes} {v : Nat} (h : beU w i = some (v, r)) : toBE w v ++ r = i := by
  obtain ⟨h1, h2, h3⟩ := beU_some h
  subst h2 h3
  rw [toBE_beNat_of_length (by simp; omega)]
  exact List.take_append_drop w i

theorem takeN_coh {n : Nat} {i b r : Bytes} (h : takeN n i = some (b, r)) : b ++ r = i := by
  obtain ⟨_, h2, h3⟩ := takeN_some h
  subst h2 h3
  exact List.take_append_drop n i

theorem takeN_length {n : Nat} {i b r : Bytes} (h : takeN n i = some (b, r)) : b.length = n := by
  obtain ⟨h1, h2, _⟩ := takeN_some h
  subst h2
  simp; omega

theorem countP_coh {α : Type} {p : P α} {e : α → Bytes} {Q : α → Prop} (hp : CohOn p e Q) :
    ∀ (n : Nat) (i : Bytes) (as : List α) (r : Bytes), countP p n i = some (as, r) →
      (∀ a ∈ as, Q a) → as.flatMap e ++ r = i := by
  intro n
  induction n with
  | zero =>
    intro i as r h _
    simp only [countP, Option.some.injEq, Prod.mk.injEq] at h
    obtain ⟨e1, e2⟩ := h
    subst e1 e2
    simp
  | succ n ih =>
    intro i as r h hq
    simp only [countP] at h
    cases hpi : p i with
    | none => simp [hpi] at h
    | some ar =>
      obtain ⟨a, r1⟩ := ar
      simp only [hpi] at h
      cases hc : countP p n r1 with
      | none => simp [hc] at h
      | some asr =>
        obtain ⟨as', r2⟩ := asr
        simp only [hc, Option.some.injEq, Prod.mk.injEq] at h
        obtain ⟨e1, e2⟩ := h
        subst e1 e2
        have h1 := hp i a r1 hpi (hq a List.mem_cons_self)
        have h2 := ih r1 as' r2 hc (fun x hx => hq x (List.mem_cons_of_mem _ hx))
        rw [List.flatMap_cons, List.append_assoc, h2, h1]

theorem many0F_coh {α : Type} {p : P α} {e : α → Bytes} {Q : α → Prop} (hp : CohOn p e Q) :
    ∀ (f : Nat) (i : Bytes) (as : List α) (r : Bytes), many0F p f i = .ok (as, r) →
      (∀ a ∈ as, Q a) → as.flatMap e ++ r = i := by
  intro f
  induction f with
  | zero => intro i as r h; simp [many0F] at h
  | succ f ih =>
    intro i as r h hq
    simp only [many0F] at h
    cases hpi : p i with
    | none =>
      simp only [hpi, Loop.ok.injEq, Prod.mk.injEq] at h
      obtain ⟨e1, e2⟩ := h
      subst e1 e2
      simp
    | some ar =>
      obtain ⟨a, r1⟩ := ar
      simp only [hpi] at h
      by_cases hl : r1.length = i.length
      · simp [hl] at h
      · simp only [hl, ↓reduceIte] at h
        cases hc : many0F p f r1 with
        | ok asr =>
          obtain ⟨as', r2⟩ := asr
          simp only [hc, Loop.ok.injEq, Prod.mk.injEq] at h
          obtain ⟨e1, e2⟩ := h
          subst e1 e2
          have h1 := hp i a r1 hpi (hq a List.mem_cons_self)
          have h2 := ih r1 as' r2 hc (fun x hx => hq x (List.mem_cons_of_mem _ hx))
          rw [List.flatMap_cons, List.append_assoc, h2, h1]
        | err => simp [hc] at h
        | outOfFuel => simp [hc] at h

theorem many0_coh {α : Type} {p : P α} {e : α → Bytes} {Q : α → Prop} (hp : CohOn p e Q)
    (i : Bytes) (as : List α) (r : Bytes) (h : many0 p i = .ok (as, r)) (hq : ∀ a ∈ as, Q a) :
    as.flatMap e ++ r = i :=
  many0F_coh hp _ i as r h hq

/-! ### exporter result algebra -/

theorem Out.ok_append_ok (a b : Bytes) : (Out.ok a).append (.ok b) = .ok (a ++ b) := rfl

theorem Out.append_eq_ok {x y : Out Bytes} {a b : Bytes} (hx : x = .ok a) (hy : y = .ok b) :
    x.append y = .ok (a ++ b) := by
  subst hx hy; rfl

theorem Out.concat_cons (x : Out Bytes) (xs : List (Out Bytes)) :
    Out.concat (x :: xs) = x.append (Out.concat xs) := rfl

/-! ### the generic layout engine: exporting what was parsed -/

/-- (index in the value list, width) of every field of an all-wire layout whose first field
    has index `k` -/
def wirePairs : Layout → Nat → List (Nat × Nat)
  | [], _ => []
  | f :: fs, k => (k, f.kind.width) :: wirePairs fs (k + 1)

def allWire (lay : Layout) : Bool :=
  lay.all fun f => match f.kind with
    | .wire _ => true
    | _ => false

/-- bytes emitted for a list of (index, width) pairs from a value list -/
def emitPairs (vals : List Nat) (ps : List (Nat × Nat)) : Bytes :=
  ps.flatMap fun p => toBE p.2 (vals.getD p.1 0)

theorem exportByOrder_eq_emitPairs (lay : Layout) (order : List String) (vals : List Nat) :
    exportByOrder lay order vals = emitPairs vals (order.map fun n => (lay.indexOf n, lay.widthOf n)) := by
  simp [exportByOrder, emitPairs, List.flatMap_map, Layout.get]

theorem parseFields_coh (proto : Nat → Nat) :
    ∀ (lay : Layout) (acc : List Nat) (i : Bytes) (vals : List Nat) (r : Bytes),
      allWire lay = true → parseFields proto lay acc i = some (vals, r) →
      (∃ vs, vals = acc ++ vs) ∧ emitPairs vals (wirePairs lay acc.length) ++ r = i := by
  intro lay
  induction lay with
  | nil =>
    intro acc i vals r _ h
    simp only [parseFields, Option.some.injEq, Prod.mk.injEq] at h
    obtain ⟨e1, e2⟩ := h
    subst e1 e2
    exact ⟨⟨[], by simp⟩, by simp [wirePairs, emitPairs]⟩
  | cons f fs ih =>
    intro acc i vals r hw h
    simp only [allWire, List.all_cons, Bool.and_eq_true] at hw
    obtain ⟨hf, hfs⟩ := hw
    unfold parseFields at h
    cases hk : f.kind with
    | wire w =>
      simp only [hk] at h
      cases hb : beU w i with
      | none => simp [hb] at h
      | some vr =>
        obtain ⟨v, r1⟩ := vr
        simp only [hb] at h
        obtain ⟨⟨vs, hvs⟩, hc⟩ := ih (acc ++ [v]) r1 vals r hfs h
        refine ⟨⟨v :: vs, by rw [hvs]; simp⟩, ?_⟩
        have hget : vals.getD acc.length 0 = v := by
          rw [hvs]; simp [List.getD_eq_getElem?_getD]
        simp only [List.length_append, List.length_cons, List.length_nil, Nat.zero_add] at hc
        simp only [wirePairs, emitPairs, List.flatMap_cons, hk, FKind.width, hget]
        simp only [emitPairs] at hc
        rw [List.append_assoc, hc]
        exact beU_coh hb
    | const v => simp [hk] at hf
    | protoOf s => simp [hk] at hf

/-- exporting a parsed all-wire layout field by field reproduces the consumed bytes -/
theorem parseLayout_coh (proto : Nat → Nat) (lay : Layout) (hw : allWire lay = true)
    (i : Bytes) (vals : List Nat) (r : Bytes) (h : parseLayout proto lay i = some (vals, r)) :
    emitPairs vals (wirePairs lay 0) ++ r = i :=
  (parseFields_coh proto lay [] i vals r hw h).2

/-- a header layout: a constant `version` field followed by wire fields -/
theorem parseLayout_const_coh (proto : Nat → Nat) (f : LField) (fs : Layout) (k : Nat)
    (hk : f.kind = .const k) (hw : allWire fs = true)
    (i : Bytes) (vals : List Nat) (r : Bytes) (h : parseLayout proto (f :: fs) i = some (vals, r)) :
    vals.getD 0 0 = k ∧ emitPairs vals (wirePairs fs 1) ++ r = i := by
  unfold parseLayout at h
  unfold parseFields at h
  simp only [hk, List.nil_append] at h
  obtain ⟨⟨vs, hvs⟩, hc⟩ := parseFields_coh proto fs [k] i vals r hw h
  simp only [List.length_cons, List.length_nil, Nat.zero_add] at hc
  exact ⟨by rw [hvs]; simp, hc⟩

theorem emitPairs_cons (vals : List Nat) (p : Nat × Nat) (ps : List (Nat × Nat)) :
    emitPairs vals (p :: ps) = toBE p.2 (vals.getD p.1 0) ++ emitPairs vals ps := by
  simp [emitPairs]

theorem emitPairs_nil (vals : List Nat) : emitPairs vals [] = [] := rfl

end Netflow.A7
