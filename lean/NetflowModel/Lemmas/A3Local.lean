/-
  Lemmas/A3Local.lean — locality of the packet parsers, in both directions:

  * **extension stability** (`Ext`, `ExtS`): a successful parse is unaffected by bytes appended
    behind the input (they are handed through to the remainder) — basis of C11;
  * **strictness** (`Strict`, `StrictG`): a cut strictly inside the bytes a successful parse consumed
    makes the parser fail — basis of C14.

  For `Option` parsers strictness is derived generically from extension stability plus a size
  function of the decoded value (`strictG_of_ext_sized`).  The state-threading parsers of V9 / IPFIX
  are handled through one inversion and one introduction lemma per function.
-/
import NetflowModel.Props.C02
namespace Netflow
open Preds

/-! ## notions for `Option` parsers -/

/-- extension stability: bytes appended behind the input are handed through to the remainder -/
def Ext {α : Type} (p : P α) : Prop :=
  ∀ i v r, p i = some (v, r) → ∀ b, p (i ++ b) = some (v, r ++ b)

/-- self-delimiting ("local"): a parse that consumed everything consumes the same prefix of any extension -/
def Local {α : Type} (p : P α) : Prop :=
  ∀ a v, p a = some (v, []) → ∀ b, p (a ++ b) = some (v, b)

/-- a cut strictly inside the consumed bytes makes the parser fail -/
def StrictG {α : Type} (p : P α) : Prop :=
  ∀ i v r, p i = some (v, r) → ∀ k, k < i.length - r.length → p (i.take k) = none

/-- every proper prefix of an input that was consumed completely is rejected -/
def Strict {α : Type} (p : P α) : Prop :=
  ∀ a v, p a = some (v, []) → ∀ k, k < a.length → p (a.take k) = none

/-- the number of consumed bytes is a function `f` of the decoded value -/
def Sized {α : Type} (p : P α) (f : α → Nat) : Prop :=
  ∀ i v r, p i = some (v, r) → f v + r.length = i.length

theorem Ext.local {α : Type} {p : P α} (h : Ext p) : Local p := by
  intro a v ha b
  simpa using h a v [] ha b

theorem StrictG.strict {α : Type} {p : P α} (h : StrictG p) : Strict p := by
  intro a v ha k hk
  exact h a v [] ha k (by simpa using hk)

/-- extension stability read backwards: the value decoded from a prefix is the value decoded from the whole -/
theorem Ext.of_prefix {α : Type} {p : P α} (h : Ext p) {a b : Bytes} {v v' : α} {r r' : Bytes}
    (hab : p (a ++ b) = some (v, r)) (ha : p a = some (v', r')) : v' = v ∧ r = r' ++ b := by
  have := h a v' r' ha b
  rw [hab] at this
  simp only [Option.some.injEq, Prod.mk.injEq] at this
  exact ⟨this.1.symm, this.2⟩

/-- generic strictness: extension-stable + sized ⇒ strict -/
theorem strictG_of_ext_sized {α : Type} {p : P α} {f : α → Nat} (he : Ext p) (hs : Sized p f) : StrictG p := by
  intro i v r hp k hk
  cases hk' : p (i.take k) with
  | none => rfl
  | some vr =>
    obtain ⟨v', r'⟩ := vr
    exfalso
    have hi : p (i.take k ++ i.drop k) = some (v, r) := by rw [List.take_append_drop]; exact hp
    obtain ⟨e1, e2⟩ := he.of_prefix hi hk'
    subst e1
    have h1 := hs _ _ _ hp
    have h2 := hs _ _ _ hk'
    rw [List.length_take] at h2
    omega

/-! ## primitive parsers -/

theorem takeN_ext (n : Nat) : Ext (takeN n) := by
  intro i v r h b
  obtain ⟨h1, h2, h3⟩ := takeN_some h
  subst h2 h3
  rw [takeN_of_le (by rw [List.length_append]; omega), List.take_append_of_le_length h1,
    List.drop_append_of_le_length h1]

theorem beU_ext (w : Nat) : Ext (beU w) := by
  intro i v r h b
  obtain ⟨h1, h2, h3⟩ := beU_some h
  subst h2 h3
  rw [beU_of_le (by rw [List.length_append]; omega), List.take_append_of_le_length h1,
    List.drop_append_of_le_length h1]

theorem takeN_sized (n : Nat) : Sized (takeN n) (fun v => v.length) := by
  intro i v r h
  obtain ⟨h1, h2, h3⟩ := takeN_some h
  subst h2 h3
  simp only [List.length_take, List.length_drop]; omega

theorem beU_sized (w : Nat) : Sized (beU w) (fun _ => w) := by
  intro i v r h
  obtain ⟨h1, _, h3⟩ := beU_some h
  subst h3
  simp only [List.length_drop]; omega

theorem takeN_strict (n : Nat) : StrictG (takeN n) := strictG_of_ext_sized (takeN_ext n) (takeN_sized n)
theorem beU_strict (w : Nat) : StrictG (beU w) := strictG_of_ext_sized (beU_ext w) (beU_sized w)

/-- `takeN` on a prefix that is still long enough -/
theorem takeN_take {n k : Nat} {i b r : Bytes} (h : takeN n i = some (b, r)) (hk : n ≤ k) :
    takeN n (i.take k) = some (b, r.take (k - n)) := by
  obtain ⟨h1, h2, h3⟩ := takeN_some h
  subst h2 h3
  rw [takeN_of_le (by rw [List.length_take]; omega), List.take_take, List.drop_take,
    Nat.min_eq_left hk]

theorem takeN_short {n : Nat} {i : Bytes} (h : i.length < n) : takeN n i = none := by
  simp [takeN]; omega

/-! ## layouts, `count`, the fixed-format packets -/

theorem parseFields_ext (proto : Nat → Nat) :
    ∀ (lay : Layout) (acc : List Nat) (i : Bytes) (vals : List Nat) (r : Bytes),
      parseFields proto lay acc i = some (vals, r) →
      ∀ b, parseFields proto lay acc (i ++ b) = some (vals, r ++ b) := by
  intro lay
  induction lay with
  | nil =>
    intro acc i vals r h b
    simp only [parseFields, Option.some.injEq, Prod.mk.injEq] at h ⊢
    exact ⟨h.1, by rw [h.2]⟩
  | cons f fs ih =>
    intro acc i vals r h b
    unfold parseFields at h ⊢
    cases hk : f.kind with
    | wire w =>
      simp only [hk] at h ⊢
      cases hb : beU w i with
      | none => simp [hb] at h
      | some vr =>
        obtain ⟨v, r1⟩ := vr
        simp only [hb] at h
        rw [beU_ext w i v r1 hb b]
        exact ih _ _ _ _ h b
    | const v =>
      simp only [hk] at h ⊢
      exact ih _ _ _ _ h b
    | protoOf s =>
      simp only [hk] at h ⊢
      exact ih _ _ _ _ h b

theorem parseLayout_ext (proto : Nat → Nat) (lay : Layout) : Ext (parseLayout proto lay) := by
  intro i v r h b
  exact parseFields_ext proto lay [] i v r h b

theorem parseLayout_sized (proto : Nat → Nat) (lay : Layout) :
    Sized (parseLayout proto lay) (fun _ => lay.wireLen) := by
  intro i v r h
  obtain ⟨h1, h2⟩ := parseLayout_consumes proto lay i v r h
  subst h2
  simp only [List.length_drop]; omega

theorem parseLayout_strict (proto : Nat → Nat) (lay : Layout) : StrictG (parseLayout proto lay) :=
  strictG_of_ext_sized (parseLayout_ext proto lay) (parseLayout_sized proto lay)

/-- the layout parser on a prefix that still contains the whole struct decodes the same values -/
theorem parseLayout_take (proto : Nat → Nat) (lay : Layout) {i : Bytes} {h : List Nat} {r : Bytes} {k : Nat}
    (hp : parseLayout proto lay i = some (h, r)) (hk : lay.wireLen ≤ k) :
    parseLayout proto lay (i.take k) = some (h, r.take (k - lay.wireLen)) := by
  obtain ⟨a1, a2⟩ := parseLayout_consumes proto lay i h r hp
  obtain ⟨vals, hv⟩ := parseFields_isSome proto lay [] (i.take k) (by rw [List.length_take]; omega)
  have hi : parseLayout proto lay (i.take k ++ i.drop k) = some (h, r) := by
    rw [List.take_append_drop]; exact hp
  obtain ⟨e1, _⟩ := (parseLayout_ext proto lay).of_prefix hi hv
  subst e1 a2
  unfold parseLayout
  rw [hv, List.drop_take]

theorem countP_ext {α : Type} {p : P α} (hp : Ext p) : ∀ n, Ext (countP p n) := by
  intro n
  induction n with
  | zero =>
    intro i v r h b
    simp only [countP, Option.some.injEq, Prod.mk.injEq] at h ⊢
    exact ⟨h.1, by rw [h.2]⟩
  | succ n ih =>
    intro i v r h b
    simp only [countP] at h ⊢
    cases hpi : p i with
    | none => simp [hpi] at h
    | some ar =>
      obtain ⟨a, r1⟩ := ar
      simp only [hpi] at h
      cases hc : countP p n r1 with
      | none => simp [hc] at h
      | some asr =>
        obtain ⟨as', r2⟩ := asr
        simp only [hc, Option.some.injEq, Prod.mk.injEq] at h
        rw [hp i a r1 hpi b]
        simp only
        rw [ih r1 as' r2 hc b]
        simp only [Option.some.injEq, Prod.mk.injEq]
        exact ⟨h.1, by rw [h.2]⟩

/-- `count` of a parser that always consumes `n` bytes: the size is `n *` the number of results -/
theorem countP_sized {α : Type} {p : P α} {n : Nat} (hp : Consumes p n) (k : Nat) :
    Sized (countP p k) (fun as => n * as.length) := by
  intro i v r h
  obtain ⟨h1, h2, h3⟩ := countP_consumes hp k i v r h
  subst h2
  simp only [List.length_drop, h3]; omega

theorem countP_strict {α : Type} {p : P α} {n : Nat} (he : Ext p) (hp : Consumes p n) (k : Nat) :
    StrictG (countP p k) := strictG_of_ext_sized (countP_ext he k) (countP_sized hp k)

theorem parseFixed_ext (c : Config) (hdr rec : Layout) : Ext (parseFixed c hdr rec) := by
  intro i v r hp b
  unfold parseFixed at hp ⊢
  cases hh : parseLayout c.t.protoFromU8 hdr i with
  | none => simp [hh] at hp
  | some hr =>
    obtain ⟨h', r1⟩ := hr
    simp only [hh] at hp
    cases hc : countP (parseLayout c.t.protoFromU8 rec) (hdr.get "count" h') r1 with
    | none => simp [hc] at hp
    | some cr =>
      obtain ⟨rs', r2⟩ := cr
      simp only [hc, Option.some.injEq, Prod.mk.injEq] at hp
      rw [parseLayout_ext _ _ i h' r1 hh b]
      simp only
      rw [countP_ext (parseLayout_ext _ _) _ r1 rs' r2 hc b]
      simp only [Option.some.injEq, Prod.mk.injEq]
      exact ⟨hp.1, by rw [hp.2]⟩

theorem parseFixed_sized (c : Config) (hdr rec : Layout) :
    Sized (parseFixed c hdr rec) (fun v => hdr.wireLen + rec.wireLen * hdr.get "count" v.1) := by
  intro i v r hp
  obtain ⟨h, rs⟩ := v
  obtain ⟨a1, a2, _⟩ := parseFixed_consumes c hdr rec i h rs r hp
  subst a2
  simp only [List.length_drop]; omega

/-- V5 / V7 body parser: any cut inside the announced length (header + `count` records) is rejected -/
theorem parseFixed_strict (c : Config) (hdr rec : Layout) : StrictG (parseFixed c hdr rec) :=
  strictG_of_ext_sized (parseFixed_ext c hdr rec) (parseFixed_sized c hdr rec)


/-! ### the `Local` / `Strict` corollaries (inputs consumed completely) -/

theorem takeN_local (n : Nat) : Local (takeN n) := (takeN_ext n).local
theorem beU_local (w : Nat) : Local (beU w) := (beU_ext w).local
theorem parseLayout_local (proto : Nat → Nat) (lay : Layout) : Local (parseLayout proto lay) :=
  (parseLayout_ext proto lay).local
theorem countP_local {α : Type} {p : P α} (hp : Ext p) (n : Nat) : Local (countP p n) := (countP_ext hp n).local
theorem parseFixed_local (c : Config) (hdr rec : Layout) : Local (parseFixed c hdr rec) := (parseFixed_ext c hdr rec).local
theorem takeN_strict' (n : Nat) : Strict (takeN n) := (takeN_strict n).strict
theorem beU_strict' (w : Nat) : Strict (beU w) := (beU_strict w).strict
theorem parseLayout_strict' (proto : Nat → Nat) (lay : Layout) : Strict (parseLayout proto lay) :=
  (parseLayout_strict proto lay).strict
theorem countP_strict' {α : Type} {p : P α} {n : Nat} (he : Ext p) (hp : Consumes p n) (k : Nat) :
    Strict (countP p k) := (countP_strict he hp k).strict
theorem parseFixed_strict' (c : Config) (hdr rec : Layout) : Strict (parseFixed c hdr rec) :=
  (parseFixed_strict c hdr rec).strict

/-! ## state-threading parsers: inversion / introduction -/

/-- extension stability for the state-threading parsers of V9 / IPFIX -/
def ExtS {α : Type} (f : PState → Bytes → PState × Res (α × Bytes)) : Prop :=
  ∀ st st' i v r, f st i = (st', .ok (v, r)) → ∀ b, f st (i ++ b) = (st', .ok (v, r ++ b))

theorem v9ParseSet_ok_inv {c : Config} {st st' : PState} {i : Bytes} {s : V9Set} {r : Bytes}
    (hp : v9ParseSet c st i = (st', .ok (s, r))) :
    ∃ h r1 body b, parseLayout c.t.protoFromU8 c.t.v9SetHdr i = some (h, r1) ∧
      takeN (c.t.v9SetHdr.get "length" h - 4) r1 = some (body, r) ∧
      v9ParseBody c st (c.t.v9SetHdr.get "flowset_id" h) body = (st', .ok b) ∧
      s = { id := c.t.v9SetHdr.get "flowset_id" h, len := c.t.v9SetHdr.get "length" h, body := b } := by
  unfold v9ParseSet at hp
  cases hh : parseLayout c.t.protoFromU8 c.t.v9SetHdr i with
  | none => simp [hh] at hp
  | some hr =>
    obtain ⟨h, r1⟩ := hr
    simp only [hh] at hp
    cases ht : takeN (c.t.v9SetHdr.get "length" h - 4) r1 with
    | none => simp [ht] at hp
    | some br =>
      obtain ⟨body, r2⟩ := br
      simp only [ht] at hp
      cases hb : v9ParseBody c st (c.t.v9SetHdr.get "flowset_id" h) body with
      | mk st2 res =>
        cases res with
        | ok b =>
          simp only [hb, Prod.mk.injEq, Res.ok.injEq] at hp
          obtain ⟨e1, e2, e3⟩ := hp
          subst e1 e2 e3
          exact ⟨h, r1, body, b, rfl, ht, hb, rfl⟩
        | err => simp [hb] at hp
        | panic => simp [hb] at hp
        | overflow => simp [hb] at hp

theorem v9ParseSet_ok_intro {c : Config} {st st' : PState} {i : Bytes} {r : Bytes}
    {h : List Nat} {r1 body : Bytes} {b : V9Body}
    (hh : parseLayout c.t.protoFromU8 c.t.v9SetHdr i = some (h, r1))
    (ht : takeN (c.t.v9SetHdr.get "length" h - 4) r1 = some (body, r))
    (hb : v9ParseBody c st (c.t.v9SetHdr.get "flowset_id" h) body = (st', .ok b)) :
    v9ParseSet c st i = (st', .ok ({ id := c.t.v9SetHdr.get "flowset_id" h, len := c.t.v9SetHdr.get "length" h, body := b }, r)) := by
  unfold v9ParseSet
  simp only [hh, ht, hb]

theorem v9ParseSet_ext (c : Config) : ExtS (v9ParseSet c) := by
  intro st st' i s r hp b
  obtain ⟨h, r1, body, bd, hh, ht, hb, e⟩ := v9ParseSet_ok_inv hp
  subst e
  exact v9ParseSet_ok_intro (parseLayout_ext _ _ _ _ _ hh b) (takeN_ext _ _ _ _ ht b) hb

/-- a flowset is decoded identically from any prefix that still contains it -/
theorem v9ParseSet_take (c : Config) (hw : c.t.v9SetHdr.wireLen = 4) {st st' : PState} {i : Bytes} {s : V9Set} {r : Bytes}
    (hp : v9ParseSet c st i = (st', .ok (s, r))) {m : Nat} (hm : max s.len 4 ≤ m) :
    v9ParseSet c st (i.take m) = (st', .ok (s, r.take (m - max s.len 4))) := by
  obtain ⟨h, r1, body, bd, hh, ht, hb, e⟩ := v9ParseSet_ok_inv hp
  subst e
  simp only at hm ⊢
  have h1 := parseLayout_take _ _ (k := m) hh (by omega)
  have h2 := takeN_take (k := m - c.t.v9SetHdr.wireLen) ht (by omega)
  have := v9ParseSet_ok_intro h1 h2 hb
  rw [this]
  congr 4
  omega

/-- a cut inside a flowset (header or body) makes that flowset fail, state untouched -/
theorem v9ParseSet_take_err (c : Config) (hw : c.t.v9SetHdr.wireLen = 4) {st st' : PState} {i : Bytes} {s : V9Set} {r : Bytes}
    (hp : v9ParseSet c st i = (st', .ok (s, r))) {m : Nat} (hm : m < max s.len 4) :
    v9ParseSet c st (i.take m) = (st, .err) := by
  obtain ⟨h, r1, body, bd, hh, ht, hb, e⟩ := v9ParseSet_ok_inv hp
  subst e
  simp only at hm
  obtain ⟨a1, a2⟩ := parseLayout_consumes _ _ _ _ _ hh
  by_cases h4 : m < 4
  · have : parseLayout c.t.protoFromU8 c.t.v9SetHdr (i.take m) = none := by
      rw [parseLayout_none_iff, List.length_take]; omega
    unfold v9ParseSet
    simp only [this]
  · have h1 := parseLayout_take _ _ (k := m) hh (by omega)
    have h2 : takeN (c.t.v9SetHdr.get "length" h - 4) (r1.take (m - c.t.v9SetHdr.wireLen)) = none := by
      apply takeN_short
      rw [List.length_take]; omega
    unfold v9ParseSet
    simp only [h1, h2]

theorem ipParseSet_ok_inv {c : Config} {st st' : PState} {i : Bytes} {s : IpSet} {r : Bytes}
    (hp : ipParseSet c st i = (st', .ok (s, r))) :
    ∃ h r1 body b, parseLayout c.t.protoFromU8 c.t.ipSetHdr i = some (h, r1) ∧
      takeN (c.t.ipSetHdr.get "length" h - 4) r1 = some (body, r) ∧
      ipParseBody c st (c.t.ipSetHdr.get "header_id" h) body = (st', .ok b) ∧
      s = { id := c.t.ipSetHdr.get "header_id" h, len := c.t.ipSetHdr.get "length" h, body := b } := by
  unfold ipParseSet at hp
  cases hh : parseLayout c.t.protoFromU8 c.t.ipSetHdr i with
  | none => simp [hh] at hp
  | some hr =>
    obtain ⟨h, r1⟩ := hr
    simp only [hh] at hp
    cases ht : takeN (c.t.ipSetHdr.get "length" h - 4) r1 with
    | none => simp [ht] at hp
    | some br =>
      obtain ⟨body, r2⟩ := br
      simp only [ht] at hp
      cases hb : ipParseBody c st (c.t.ipSetHdr.get "header_id" h) body with
      | mk st2 res =>
        cases res with
        | ok b =>
          simp only [hb, Prod.mk.injEq, Res.ok.injEq] at hp
          obtain ⟨e1, e2, e3⟩ := hp
          subst e1 e2 e3
          exact ⟨h, r1, body, b, rfl, ht, hb, rfl⟩
        | err => simp [hb] at hp
        | panic => simp [hb] at hp
        | overflow => simp [hb] at hp

theorem ipParseSet_ok_intro {c : Config} {st st' : PState} {i : Bytes} {r : Bytes}
    {h : List Nat} {r1 body : Bytes} {b : IpBody}
    (hh : parseLayout c.t.protoFromU8 c.t.ipSetHdr i = some (h, r1))
    (ht : takeN (c.t.ipSetHdr.get "length" h - 4) r1 = some (body, r))
    (hb : ipParseBody c st (c.t.ipSetHdr.get "header_id" h) body = (st', .ok b)) :
    ipParseSet c st i = (st', .ok ({ id := c.t.ipSetHdr.get "header_id" h, len := c.t.ipSetHdr.get "length" h, body := b }, r)) := by
  unfold ipParseSet
  simp only [hh, ht, hb]

/-- an IPFIX set is framed by its length: what follows it does not influence how it is decoded
    (including the greedy record loop, which only sees the `length - 4` bytes taken) -/
theorem ipParseSet_ext (c : Config) : ExtS (ipParseSet c) := by
  intro st st' i s r hp b
  obtain ⟨h, r1, body, bd, hh, ht, hb, e⟩ := ipParseSet_ok_inv hp
  subst e
  exact ipParseSet_ok_intro (parseLayout_ext _ _ _ _ _ hh b) (takeN_ext _ _ _ _ ht b) hb

/-! ### IPFIX message -/

theorem parseIpfix_ok_inv {c : Config} {st st' : PState} {i : Bytes} {pkt : Packet} {r : Bytes}
    (hp : parseIpfix c st i = (st', .ok (pkt, r))) :
    ∃ h r1 body ss, parseLayout c.t.protoFromU8 c.t.ipHdr i = some (h, r1) ∧
      takeN (c.t.ipHdr.get "length" h - 16) r1 = some (body, r) ∧
      ipParseSets c (body.length + 1) st body = (st', .ok ss) ∧ pkt = .ipfix h ss := by
  unfold parseIpfix at hp
  cases hh : parseLayout c.t.protoFromU8 c.t.ipHdr i with
  | none => simp [hh] at hp
  | some hr =>
    obtain ⟨h, r1⟩ := hr
    simp only [hh] at hp
    cases ht : takeN (c.t.ipHdr.get "length" h - 16) r1 with
    | none => simp [ht] at hp
    | some br =>
      obtain ⟨body, r2⟩ := br
      simp only [ht] at hp
      cases hs : ipParseSets c (body.length + 1) st body with
      | mk st1 res =>
        cases res with
        | ok ss =>
          simp only [hs, Prod.mk.injEq, Res.ok.injEq] at hp
          obtain ⟨e1, e2, e3⟩ := hp
          subst e1 e2 e3
          exact ⟨h, r1, body, ss, rfl, ht, hs, rfl⟩
        | err => simp [hs] at hp
        | panic => simp [hs] at hp
        | overflow => simp [hs] at hp

theorem parseIpfix_ok_intro {c : Config} {st st' : PState} {i : Bytes} {r : Bytes}
    {h : List Nat} {r1 body : Bytes} {ss : List IpSet}
    (hh : parseLayout c.t.protoFromU8 c.t.ipHdr i = some (h, r1))
    (ht : takeN (c.t.ipHdr.get "length" h - 16) r1 = some (body, r))
    (hs : ipParseSets c (body.length + 1) st body = (st', .ok ss)) :
    parseIpfix c st i = (st', .ok (.ipfix h ss, r)) := by
  unfold parseIpfix
  simp only [hh, ht, hs]

/-- the whole IPFIX message sits inside `take(length - 16)` -/
theorem parseIpfix_ext (c : Config) : ExtS (parseIpfix c) := by
  intro st st' i pkt r hp b
  obtain ⟨h, r1, body, ss, hh, ht, hs, e⟩ := parseIpfix_ok_inv hp
  subst e
  exact parseIpfix_ok_intro (parseLayout_ext _ _ _ _ _ hh b) (takeN_ext _ _ _ _ ht b) hs

/-- a cut inside an IPFIX message: the header or `take(length - 16)` fails before any set is
    interpreted, so the caches are untouched -/
theorem parseIpfix_take_err (c : Config) (hw : c.t.ipHdr.wireLen = 14) {st st' : PState} {i : Bytes} {pkt : Packet} {r : Bytes}
    (hp : parseIpfix c st i = (st', .ok (pkt, r))) {k : Nat} (hk : k < i.length - r.length) :
    parseIpfix c st (i.take k) = (st, .err) := by
  obtain ⟨h, r1, body, ss, hh, ht, hs, e⟩ := parseIpfix_ok_inv hp
  obtain ⟨a1, a2⟩ := parseLayout_consumes _ _ _ _ _ hh
  obtain ⟨b1, _, b3⟩ := takeN_some ht
  subst a2 b3
  simp only [List.length_drop] at hk b1
  by_cases h4 : k < 14
  · have : parseLayout c.t.protoFromU8 c.t.ipHdr (i.take k) = none := by
      rw [parseLayout_none_iff, List.length_take]; omega
    unfold parseIpfix
    simp only [this]
  · have h1 := parseLayout_take _ _ (k := k) hh (by omega)
    have h2 : takeN (c.t.ipHdr.get "length" h - 16) ((i.drop c.t.ipHdr.wireLen).take (k - c.t.ipHdr.wireLen)) = none := by
      apply takeN_short
      rw [List.length_take, List.length_drop]; omega
    unfold parseIpfix
    simp only [h1, h2]


/-! ### the V9 flowset loop -/

theorem v9ParseSets_nil (c : Config) : ∀ (n : Nat) (st : PState), v9ParseSets c n st [] = (st, .ok ([], [])) := by
  intro n
  induction n with
  | zero => intro st; rfl
  | succ n ih => intro st; simp [v9ParseSets, ih]

theorem v9ParseSets_succ_ok_inv {c : Config} {n : Nat} {st st' : PState} {i : Bytes} {ss : List V9Set} {r : Bytes}
    (hne : i ≠ []) (hp : v9ParseSets c (n + 1) st i = (st', .ok (ss, r))) :
    ∃ st1 s r1 ss', v9ParseSet c st i = (st1, .ok (s, r1)) ∧ v9ParseSets c n st1 r1 = (st', .ok (ss', r)) ∧
      ss = s :: ss' := by
  unfold v9ParseSets at hp
  have he : i.isEmpty = false := by cases i with | nil => exact absurd rfl hne | cons _ _ => rfl
  simp only [he, Bool.false_eq_true, ↓reduceIte] at hp
  cases hs : v9ParseSet c st i with
  | mk st1 res =>
    cases res with
    | ok sr =>
      obtain ⟨s, r1⟩ := sr
      simp only [hs] at hp
      cases hrest : v9ParseSets c n st1 r1 with
      | mk st2 res2 =>
        cases res2 with
        | ok ssr =>
          obtain ⟨ss', r2⟩ := ssr
          simp only [hrest, Prod.mk.injEq, Res.ok.injEq] at hp
          obtain ⟨e1, e2, e3⟩ := hp
          subst e1 e2 e3
          exact ⟨st1, s, r1, ss', rfl, hrest, rfl⟩
        | err => simp [hrest] at hp
        | panic => simp [hrest] at hp
        | overflow => simp [hrest] at hp
    | err => simp [hs] at hp
    | panic => simp [hs] at hp
    | overflow => simp [hs] at hp

theorem v9ParseSets_succ_ok_intro {c : Config} {n : Nat} {st st1 st' : PState} {i : Bytes} {s : V9Set} {r1 : Bytes}
    {ss' : List V9Set} {r : Bytes} (hne : i ≠ [])
    (hs : v9ParseSet c st i = (st1, .ok (s, r1))) (hrest : v9ParseSets c n st1 r1 = (st', .ok (ss', r))) :
    v9ParseSets c (n + 1) st i = (st', .ok (s :: ss', r)) := by
  have he : i.isEmpty = false := by cases i with | nil => exact absurd rfl hne | cons _ _ => rfl
  unfold v9ParseSets
  simp only [he, Bool.false_eq_true, ↓reduceIte, hs, hrest]

theorem v9ParseSets_succ_err_intro {c : Config} {n : Nat} {st st1 st' : PState} {i : Bytes} {s : V9Set} {r1 : Bytes}
    (hne : i ≠ [])
    (hs : v9ParseSet c st i = (st1, .ok (s, r1))) (hrest : v9ParseSets c n st1 r1 = (st', .err)) :
    v9ParseSets c (n + 1) st i = (st', .err) := by
  have he : i.isEmpty = false := by cases i with | nil => exact absurd rfl hne | cons _ _ => rfl
  unfold v9ParseSets
  simp only [he, Bool.false_eq_true, ↓reduceIte, hs, hrest]

theorem v9ParseSets_succ_err_here {c : Config} {n : Nat} {st st1 : PState} {i : Bytes}
    (hne : i ≠ []) (hs : v9ParseSet c st i = (st1, .err)) :
    v9ParseSets c (n + 1) st i = (st1, .err) := by
  have he : i.isEmpty = false := by cases i with | nil => exact absurd rfl hne | cons _ _ => rfl
  unfold v9ParseSets
  simp only [he, Bool.false_eq_true, ↓reduceIte, hs]

/-- the loop never returns more flowsets than the header count -/
theorem v9ParseSets_len_le (c : Config) : ∀ (n : Nat) (st st' : PState) (i : Bytes) (ss : List V9Set) (r : Bytes),
    v9ParseSets c n st i = (st', .ok (ss, r)) → ss.length ≤ n := by
  intro n
  induction n with
  | zero =>
    intro st st' i ss r h
    simp only [v9ParseSets, Prod.mk.injEq, Res.ok.injEq] at h
    rw [← h.2.1]; simp
  | succ n ih =>
    intro st st' i ss r h
    by_cases hne : i = []
    · subst hne
      rw [v9ParseSets_nil] at h
      simp only [Prod.mk.injEq, Res.ok.injEq] at h
      rw [← h.2.1]; simp
    · obtain ⟨st1, s, r1, ss', _, h2, e⟩ := v9ParseSets_succ_ok_inv hne h
      subst e
      have := ih _ _ _ _ _ h2
      simp only [List.length_cons]; omega

/-- **extension stability of the flowset loop under the exact-count hypothesis**: if all `n`
    iterations decoded a flowset, bytes appended behind the input are not touched.  (Without the
    hypothesis the statement is false: a loop that ran out of input early continues into the
    appended bytes.) -/
theorem v9ParseSets_ext (c : Config) : ∀ (n : Nat) (st st' : PState) (i : Bytes) (ss : List V9Set) (r : Bytes),
    v9ParseSets c n st i = (st', .ok (ss, r)) → ss.length = n →
    ∀ b, v9ParseSets c n st (i ++ b) = (st', .ok (ss, r ++ b)) := by
  intro n
  induction n with
  | zero =>
    intro st st' i ss r h _ b
    simp only [v9ParseSets, Prod.mk.injEq, Res.ok.injEq] at h ⊢
    exact ⟨h.1, h.2.1, by rw [h.2.2]⟩
  | succ n ih =>
    intro st st' i ss r h hl b
    by_cases hne : i = []
    · subst hne
      rw [v9ParseSets_nil] at h
      simp only [Prod.mk.injEq, Res.ok.injEq] at h
      rw [← h.2.1] at hl
      simp at hl
    · obtain ⟨st1, s, r1, ss', h1, h2, e⟩ := v9ParseSets_succ_ok_inv hne h
      subst e
      have hne' : i ++ b ≠ [] := by simp [hne]
      exact v9ParseSets_succ_ok_intro hne' (v9ParseSet_ext c _ _ _ _ _ h1 b)
        (ih _ _ _ _ _ h2 (by simpa using hl) b)

/-- cut points that fall between flowsets, counted from offset `off` -/
def setBoundaries : Nat → List V9Set → List Nat
  | off, [] => [off]
  | off, s :: ss => off :: setBoundaries (off + max s.len 4) ss

theorem setBoundaries_head (off : Nat) (ss : List V9Set) : off ∈ setBoundaries off ss := by
  cases ss <;> simp [setBoundaries]

/-- **strictness of the flowset loop**: a cut inside the flowsets that is not on a flowset
    boundary makes the flowset containing the cut fail -/
theorem v9ParseSets_take_err (c : Config) (hw : c.t.v9SetHdr.wireLen = 4) :
    ∀ (n : Nat) (st st' : PState) (i : Bytes) (ss : List V9Set) (r : Bytes) (off m : Nat),
      v9ParseSets c n st i = (st', .ok (ss, r)) → m < v9SetsLen ss → off + m ∉ setBoundaries off ss →
      ∃ st'', v9ParseSets c n st (i.take m) = (st'', .err) := by
  intro n
  induction n with
  | zero =>
    intro st st' i ss r off m h hm _
    simp only [v9ParseSets, Prod.mk.injEq, Res.ok.injEq] at h
    rw [← h.2.1] at hm
    simp [v9SetsLen] at hm
  | succ n ih =>
    intro st st' i ss r off m h hm hb
    by_cases hne : i = []
    · subst hne
      rw [v9ParseSets_nil] at h
      simp only [Prod.mk.injEq, Res.ok.injEq] at h
      rw [← h.2.1] at hm
      simp [v9SetsLen] at hm
    · obtain ⟨st1, s, r1, ss', h1, h2, e⟩ := v9ParseSets_succ_ok_inv hne h
      subst e
      simp only [v9SetsLen] at hm
      simp only [setBoundaries, List.mem_cons, not_or] at hb
      obtain ⟨hb0, hb1⟩ := hb
      have hm0 : 0 < m := by omega
      have hne' : i.take m ≠ [] := by
        cases i with
        | nil => exact absurd rfl hne
        | cons x xs => cases m with
          | zero => omega
          | succ m => simp
      by_cases hlt : m < max s.len 4
      · exact ⟨st, v9ParseSets_succ_err_here hne' (v9ParseSet_take_err c hw h1 hlt)⟩
      · have hmne : m ≠ max s.len 4 := by
          intro e
          apply hb1
          rw [e]
          exact setBoundaries_head _ _
        have h1' := v9ParseSet_take c hw h1 (m := m) (by omega)
        obtain ⟨st'', h3⟩ := ih _ _ _ _ _ (off + max s.len 4) (m - max s.len 4) h2 (by omega)
          (by
            have : off + max s.len 4 + (m - max s.len 4) = off + m := by omega
            rw [this]; exact hb1)
        exact ⟨st'', v9ParseSets_succ_err_intro hne' h1' h3⟩

/-! ### V9 packet -/

theorem parseV9_ok_inv {c : Config} {st st' : PState} {i : Bytes} {pkt : Packet} {r : Bytes}
    (hp : parseV9 c st i = (st', .ok (pkt, r))) :
    ∃ h r1 ss, parseLayout c.t.protoFromU8 c.t.v9Hdr i = some (h, r1) ∧
      v9ParseSets c (c.t.v9Hdr.get "count" h) st r1 = (st', .ok (ss, r)) ∧ pkt = .v9 h ss := by
  unfold parseV9 at hp
  cases hh : parseLayout c.t.protoFromU8 c.t.v9Hdr i with
  | none => simp [hh] at hp
  | some hr =>
    obtain ⟨h, r1⟩ := hr
    simp only [hh] at hp
    cases hs : v9ParseSets c (c.t.v9Hdr.get "count" h) st r1 with
    | mk st1 res =>
      cases res with
      | ok ssr =>
        obtain ⟨ss, r2⟩ := ssr
        simp only [hs, Prod.mk.injEq, Res.ok.injEq] at hp
        obtain ⟨e1, e2, e3⟩ := hp
        subst e1 e2 e3
        exact ⟨h, r1, ss, rfl, hs, rfl⟩
      | err => simp [hs] at hp
      | panic => simp [hs] at hp
      | overflow => simp [hs] at hp

theorem parseV9_ok_intro {c : Config} {st st' : PState} {i : Bytes} {r : Bytes}
    {h : List Nat} {r1 : Bytes} {ss : List V9Set}
    (hh : parseLayout c.t.protoFromU8 c.t.v9Hdr i = some (h, r1))
    (hs : v9ParseSets c (c.t.v9Hdr.get "count" h) st r1 = (st', .ok (ss, r))) :
    parseV9 c st i = (st', .ok (.v9 h ss, r)) := by
  unfold parseV9
  simp only [hh, hs]

/-- a V9 packet whose header count equals the number of decoded flowsets is extension stable -/
theorem parseV9_ext (c : Config) {st st' : PState} {i : Bytes} {h : List Nat} {ss : List V9Set} {r : Bytes}
    (hp : parseV9 c st i = (st', .ok (.v9 h ss, r))) (hc : c.t.v9Hdr.get "count" h = ss.length) (b : Bytes) :
    parseV9 c st (i ++ b) = (st', .ok (.v9 h ss, r ++ b)) := by
  obtain ⟨h', r1, ss', hh, hs, e⟩ := parseV9_ok_inv hp
  simp only [Packet.v9.injEq] at e
  obtain ⟨e1, e2⟩ := e
  subst e1 e2
  exact parseV9_ok_intro (parseLayout_ext _ _ _ _ _ hh b) (v9ParseSets_ext c _ _ _ _ _ _ hs hc.symm b)

/-- a cut inside a V9 packet, not on a flowset boundary (offsets relative to the bytes after the
    version word): `Err` -/
theorem parseV9_take_err (c : Config) (hw : c.t.v9SetHdr.wireLen = 4) {st st' : PState} {i : Bytes} {h : List Nat}
    {ss : List V9Set} {r : Bytes}
    (hp : parseV9 c st i = (st', .ok (.v9 h ss, r))) {k : Nat} (hk : k < c.t.v9Hdr.wireLen + v9SetsLen ss)
    (hb : k ∉ setBoundaries c.t.v9Hdr.wireLen ss) :
    ∃ st'', parseV9 c st (i.take k) = (st'', .err) ∧ (k < c.t.v9Hdr.wireLen → st'' = st) := by
  obtain ⟨h', r1, ss', hh, hs, e⟩ := parseV9_ok_inv hp
  simp only [Packet.v9.injEq] at e
  obtain ⟨e1, e2⟩ := e
  subst e1 e2
  by_cases h4 : k < c.t.v9Hdr.wireLen
  · have : parseLayout c.t.protoFromU8 c.t.v9Hdr (i.take k) = none := by
      rw [parseLayout_none_iff, List.length_take]; omega
    refine ⟨st, ?_, fun _ => rfl⟩
    unfold parseV9
    simp only [this]
  · have h1 := parseLayout_take _ _ (k := k) hh (by omega)
    obtain ⟨st'', h2⟩ := v9ParseSets_take_err c hw _ _ _ _ _ _ c.t.v9Hdr.wireLen (k - c.t.v9Hdr.wireLen) hs (by omega)
      (by
        have : c.t.v9Hdr.wireLen + (k - c.t.v9Hdr.wireLen) = k := by omega
        rw [this]; exact hb)
    refine ⟨st'', ?_, fun h => absurd h h4⟩
    unfold parseV9
    simp only [h1, h2]


/-! ## packet level -/

/-- the V9 side condition of C11: the header count equals the number of decoded flowsets
    (trivially true of the other versions) -/
def pktCountOk (c : Config) : Packet → Bool
  | .v9 h ss => c.t.v9Hdr.get "count" h == ss.length
  | _ => true

def Packet.isV9 : Packet → Bool
  | .v9 _ _ => true
  | _ => false

/-- cut points (offsets into the whole packet, version word included) at which a V9 packet can be
    cut into a shorter *valid* V9 packet: just after the header and after each flowset.
    Empty for the other versions. -/
def v9Boundaries (c : Config) : Packet → List Nat
  | .v9 _ ss => setBoundaries (2 + c.t.v9Hdr.wireLen) ss
  | _ => []

theorem parseVersioned_ok_inv {c : Config} {st st' : PState} {kind : Nat} {body : Bytes} {pkt : Packet} {rest : Bytes}
    (h : parseVersioned c st kind body = (st', .ok pkt rest)) :
    (kind = 5 ∧ st' = st ∧ ∃ hd rs, parseFixed c c.t.v5Hdr c.t.v5Rec body = some ((hd, rs), rest) ∧ pkt = .v5 hd rs) ∨
    (kind = 7 ∧ st' = st ∧ ∃ hd rs, parseFixed c c.t.v7Hdr c.t.v7Rec body = some ((hd, rs), rest) ∧ pkt = .v7 hd rs) ∨
    (kind = 9 ∧ parseV9 c st body = (st', .ok (pkt, rest))) ∨
    (kind = 10 ∧ parseIpfix c st body = (st', .ok (pkt, rest))) := by
  unfold parseVersioned at h
  split at h
  · rename_i hk
    cases hp : parseFixed c c.t.v5Hdr c.t.v5Rec body with
    | none => simp [hp] at h
    | some x =>
      obtain ⟨⟨hd, rs⟩, r⟩ := x
      simp only [hp, Prod.mk.injEq, Step.ok.injEq] at h
      obtain ⟨e0, e1, e2⟩ := h
      subst e0 e1 e2
      exact Or.inl ⟨hk, rfl, hd, rs, rfl, rfl⟩
  · split at h
    · rename_i hk
      cases hp : parseFixed c c.t.v7Hdr c.t.v7Rec body with
      | none => simp [hp] at h
      | some x =>
        obtain ⟨⟨hd, rs⟩, r⟩ := x
        simp only [hp, Prod.mk.injEq, Step.ok.injEq] at h
        obtain ⟨e0, e1, e2⟩ := h
        subst e0 e1 e2
        exact Or.inr (Or.inl ⟨hk, rfl, hd, rs, rfl, rfl⟩)
    · split at h
      · rename_i hk
        cases hp : parseV9 c st body with
        | mk st1 res =>
          cases res with
          | ok pr =>
            obtain ⟨p, r⟩ := pr
            simp only [hp, liftRes, Prod.mk.injEq, Step.ok.injEq] at h
            obtain ⟨e0, e1, e2⟩ := h
            subst e0 e1 e2
            exact Or.inr (Or.inr (Or.inl ⟨hk, rfl⟩))
          | err => simp [hp, liftRes] at h
          | panic => simp [hp, liftRes] at h
          | overflow => simp [hp, liftRes] at h
      · split at h
        · rename_i hk
          cases hp : parseIpfix c st body with
          | mk st1 res =>
            cases res with
            | ok pr =>
              obtain ⟨p, r⟩ := pr
              simp only [hp, liftRes, Prod.mk.injEq, Step.ok.injEq] at h
              obtain ⟨e0, e1, e2⟩ := h
              subst e0 e1 e2
              exact Or.inr (Or.inr (Or.inr ⟨hk, rfl⟩))
            | err => simp [hp, liftRes] at h
            | panic => simp [hp, liftRes] at h
            | overflow => simp [hp, liftRes] at h
        · simp at h

theorem parseVersioned_5_some {c : Config} {st : PState} {body : Bytes} {h : List Nat} {rs : List (List Nat)} {r : Bytes}
    (hp : parseFixed c c.t.v5Hdr c.t.v5Rec body = some ((h, rs), r)) :
    parseVersioned c st 5 body = (st, .ok (.v5 h rs) r) := by
  simp [parseVersioned, hp]

theorem parseVersioned_5_none {c : Config} {st : PState} {body : Bytes}
    (hp : parseFixed c c.t.v5Hdr c.t.v5Rec body = none) :
    parseVersioned c st 5 body = (st, .fail (.partialParse 5 body)) := by
  simp [parseVersioned, hp]

theorem parseVersioned_7_some {c : Config} {st : PState} {body : Bytes} {h : List Nat} {rs : List (List Nat)} {r : Bytes}
    (hp : parseFixed c c.t.v7Hdr c.t.v7Rec body = some ((h, rs), r)) :
    parseVersioned c st 7 body = (st, .ok (.v7 h rs) r) := by
  simp [parseVersioned, hp]

theorem parseVersioned_7_none {c : Config} {st : PState} {body : Bytes}
    (hp : parseFixed c c.t.v7Hdr c.t.v7Rec body = none) :
    parseVersioned c st 7 body = (st, .fail (.partialParse 7 body)) := by
  simp [parseVersioned, hp]

theorem parseVersioned_9 (c : Config) (st : PState) (body : Bytes) :
    parseVersioned c st 9 body = ((parseV9 c st body).1, liftRes 9 body (parseV9 c st body).2) := by
  simp [parseVersioned]

theorem parseVersioned_10 (c : Config) (st : PState) (body : Bytes) :
    parseVersioned c st 10 body = ((parseIpfix c st body).1, liftRes 10 body (parseIpfix c st body).2) := by
  simp [parseVersioned]

theorem parseVersioned_ext {c : Config} {st st' : PState} {kind : Nat} {body : Bytes} {pkt : Packet} {rest : Bytes}
    (h : parseVersioned c st kind body = (st', .ok pkt rest)) (hc : pktCountOk c pkt = true) (b : Bytes) :
    parseVersioned c st kind (body ++ b) = (st', .ok pkt (rest ++ b)) := by
  rcases parseVersioned_ok_inv h with ⟨hk, e, hd, rs, hp, ep⟩ | ⟨hk, e, hd, rs, hp, ep⟩ | ⟨hk, hp⟩ | ⟨hk, hp⟩
  · subst hk e ep
    exact parseVersioned_5_some (parseFixed_ext c _ _ _ _ _ hp b)
  · subst hk e ep
    exact parseVersioned_7_some (parseFixed_ext c _ _ _ _ _ hp b)
  · subst hk
    obtain ⟨hd, r1, ss, _, _, ep⟩ := parseV9_ok_inv hp
    subst ep
    simp only [pktCountOk, beq_iff_eq] at hc
    rw [parseVersioned_9, parseV9_ext c hp hc b]
    rfl
  · subst hk
    rw [parseVersioned_10, parseIpfix_ext c _ _ _ _ _ hp b]
    rfl

/-- **locality of `parse_packet_by_version`** (general, extension-stable form) -/
theorem parsePacket_ext {c : Config} {st st' : PState} {a : Bytes} {pkt : Packet} {rest : Bytes}
    (h : parsePacket c st a = (st', .ok pkt rest)) (hc : pktCountOk c pkt = true) (b : Bytes) :
    parsePacket c st (a ++ b) = (st', .ok pkt (rest ++ b)) := by
  rcases parsePacket_inv c st st' a _ h with ⟨_, _, hs⟩ | ⟨v, _, _, _, hs⟩ | ⟨v, _, _, _, _, hs⟩ | ⟨v, kind, hv, ha, hd, hpv⟩
  · simp at hs
  · simp at hs
  · simp at hs
  · unfold parsePacket
    rw [beU_ext 2 _ _ _ hv b]
    simp only [ha, ↓reduceIte, hd]
    exact parseVersioned_ext hpv hc b

theorem setBoundaries_shift (d : Nat) : ∀ (ss : List V9Set) (off : Nat),
    setBoundaries (off + d) ss = (setBoundaries off ss).map (· + d) := by
  intro ss
  induction ss with
  | nil => intro off; simp [setBoundaries]
  | cons s ss ih =>
    intro off
    simp only [setBoundaries, List.map_cons]
    rw [← ih, Nat.add_right_comm]

theorem beU_take {w k : Nat} {i r : Bytes} {v : Nat} (h : beU w i = some (v, r)) (hk : w ≤ k) :
    beU w (i.take k) = some (v, r.take (k - w)) := by
  obtain ⟨h1, h2, h3⟩ := beU_some h
  subst h2 h3
  rw [beU_of_le (by rw [List.length_take]; omega), List.take_take, List.drop_take,
    Nat.min_eq_left hk]

/-- **strictness of `parse_packet_by_version`**: any cut strictly inside a packet that was
    accepted with nothing left over (for V9: not on a flowset boundary) is reported as a failure;
    the caches are untouched unless the packet is V9. -/
theorem parsePacket_take_fail (c : Config) (hf : c.t.framingOk = true) {st st' : PState} {p : Bytes} {pkt : Packet}
    (h : parsePacket c st p = (st', .ok pkt [])) {k : Nat} (hk : k < p.length)
    (hb : k ∉ v9Boundaries c pkt) :
    ∃ st'' e, parsePacket c st (p.take k) = (st'', .fail e) ∧
      ((k < 2 ∧ e = .incomplete) ∨
       (2 ≤ k ∧ ∃ v, versionOf p = some v ∧ e = .partialParse v ((p.take k).drop 2))) ∧
      (pkt.isV9 = false → st'' = st) := by
  have hd : ∀ x ∈ c.t.dispatch, x.1 = x.2 := by
    simp only [Tables.framingOk, Bool.and_eq_true, List.all_eq_true, beq_iff_eq] at hf
    exact hf.2
  simp only [Tables.framingOk, Bool.and_eq_true, beq_iff_eq] at hf
  obtain ⟨⟨⟨hw9, hwi⟩, _⟩, _⟩ := hf
  rcases parsePacket_inv c st st' p _ h with ⟨_, _, hs⟩ | ⟨v, _, _, _, hs⟩ | ⟨v, _, _, _, _, hs⟩ | ⟨v, kind, hv, ha, hdk, hpv⟩
  · simp at hs
  · simp at hs
  · simp at hs
  have hvk : v = kind := hd _ (lookup_mem hdk)
  by_cases h2 : k < 2
  · refine ⟨st, .incomplete, ?_, Or.inl ⟨h2, rfl⟩, fun _ => rfl⟩
    have : beU 2 (p.take k) = none := by simp [beU]; omega
    unfold parsePacket
    simp only [this]
  · have hv' := beU_take (k := k) hv (by omega)
    have hdt : (p.take k).drop 2 = (p.drop 2).take (k - 2) := by rw [List.drop_take]
    have hver : versionOf p = some v := by simp [versionOf, hv]
    have hpl : (p.drop 2).length = p.length - 2 := by rw [List.length_drop]
    have hstep : ∀ st'' e, parseVersioned c st kind ((p.drop 2).take (k - 2)) = (st'', .fail e) →
        parsePacket c st (p.take k) = (st'', .fail e) := by
      intro st'' e he
      unfold parsePacket
      simp only [hv', ha, ↓reduceIte, hdk, he]
    rcases parseVersioned_ok_inv hpv with ⟨hk5, e, hd5, rs, hp, ep⟩ | ⟨hk7, e, hd7, rs, hp, ep⟩ | ⟨hk9, hp⟩ | ⟨hk10, hp⟩
    · subst hk5 e ep hvk
      have hn := parseFixed_strict c _ _ _ _ _ hp (k - 2) (by simp only [List.length_nil]; omega)
      exact ⟨_, _, hstep _ _ (parseVersioned_5_none hn), Or.inr ⟨by omega, 5, hver, by rw [hdt]⟩, fun _ => rfl⟩
    · subst hk7 e ep hvk
      have hn := parseFixed_strict c _ _ _ _ _ hp (k - 2) (by simp only [List.length_nil]; omega)
      exact ⟨_, _, hstep _ _ (parseVersioned_7_none hn), Or.inr ⟨by omega, 7, hver, by rw [hdt]⟩, fun _ => rfl⟩
    · subst hk9 hvk
      obtain ⟨hd9, ss, ep, a1, a2⟩ := parseV9_consumes c hw9 _ _ _ _ _ hp
      subst ep
      have hlen : (p.drop 2).length = c.t.v9Hdr.wireLen + v9SetsLen ss := by
        have := congrArg List.length a2
        rw [List.length_drop, List.length_nil] at this
        omega
      simp only [v9Boundaries] at hb
      have hb' : k - 2 ∉ setBoundaries c.t.v9Hdr.wireLen ss := by
        intro hm
        apply hb
        rw [Nat.add_comm 2, setBoundaries_shift, List.mem_map]
        exact ⟨k - 2, hm, by omega⟩
      obtain ⟨st'', he, _⟩ := parseV9_take_err c hw9 hp (k := k - 2) (by omega) hb'
      refine ⟨st'', _, hstep _ _ ?_, Or.inr ⟨by omega, 9, hver, by rw [hdt]⟩, fun h => by simp [Packet.isV9] at h⟩
      rw [parseVersioned_9, he]
      rfl
    · subst hk10 hvk
      have he := parseIpfix_take_err c hwi hp (k := k - 2) (by simp only [List.length_nil]; omega)
      refine ⟨st, _, hstep _ _ ?_, Or.inr ⟨by omega, 10, hver, by rw [hdt]⟩, fun _ => rfl⟩
      rw [parseVersioned_10, he]
      rfl


/-! ## `parse_bytes` -/

theorem parsePacket_ok_len (c : Config) (hf : c.t.framingOk = true) {st st' : PState} {buf : Bytes} {pkt : Packet} {rest : Bytes}
    (h : parsePacket c st buf = (st', .ok pkt rest)) : rest.length + 2 ≤ buf.length := by
  rcases parsePacket_inv c st st' buf _ h with ⟨_, _, hs⟩ | ⟨v, _, _, _, hs⟩ | ⟨v, _, _, _, _, hs⟩ | ⟨v, kind, hv, ha, hd, hpv⟩
  · simp at hs
  · simp at hs
  · simp at hs
  · obtain ⟨m, _, hm, hr⟩ := Props.C02_versioned_ok c hf _ _ _ _ _ _ hpv
    have := (beU_some hv).1
    subst hr
    simp only [List.length_drop] at hm ⊢
    omega

/-- any fuel above the buffer length gives the same result -/
theorem parseBytesF_fuel (c : Config) (hf : c.t.framingOk = true) :
    ∀ (f1 f2 : Nat) (st : PState) (buf : Bytes), buf.length < f1 → buf.length < f2 →
      parseBytesF c f1 st buf = parseBytesF c f2 st buf := by
  intro f1
  induction f1 with
  | zero => intro f2 st buf h; omega
  | succ f1 ih =>
    intro f2 st buf h1 h2
    cases f2 with
    | zero => omega
    | succ f2 =>
      unfold parseBytesF
      by_cases he : buf.isEmpty = true
      · simp only [he, ↓reduceIte]
      · simp only [he, Bool.false_eq_true, ↓reduceIte]
        cases hp : parsePacket c st buf with
        | mk st1 step =>
          cases step with
          | ok pkt rest =>
            simp only
            have := parsePacket_ok_len c hf hp
            rw [ih f2 st1 rest (by omega) (by omega)]
          | fail e => rfl
          | unallowed => rfl
          | panic => rfl
          | overflow => rfl

theorem parseBytes_nil (c : Config) (st : PState) : parseBytes c st [] = (st, .done []) := by
  simp [parseBytes, parseBytesF]

/-- one unfolding of `parse_bytes` at an accepted packet -/
theorem parseBytes_cons_ok (c : Config) (hf : c.t.framingOk = true) {st st' : PState} {buf : Bytes} {pkt : Packet} {rest : Bytes}
    (h : parsePacket c st buf = (st', .ok pkt rest)) :
    parseBytes c st buf = ((parseBytes c st' rest).1, (parseBytes c st' rest).2.cons pkt) := by
  have hl := parsePacket_ok_len c hf h
  have he : buf.isEmpty = false := by cases buf with | nil => simp at hl | cons _ _ => rfl
  unfold parseBytes
  rw [parseBytesF]
  simp only [he, Bool.false_eq_true, ↓reduceIte, h]
  by_cases hre : rest.isEmpty = true
  · have : rest = [] := by simpa using hre
    subst this
    simp [parseBytesF, Outcome.cons]
  · simp only [hre, Bool.false_eq_true, ↓reduceIte]
    rw [parseBytesF_fuel c hf buf.length (rest.length + 1) st' rest (by omega) (by omega)]

/-- one unfolding of `parse_bytes` at a rejected packet -/
theorem parseBytes_fail (c : Config) {st st' : PState} {buf : Bytes} {e : ErrKind} (hne : buf ≠ [])
    (h : parsePacket c st buf = (st', .fail e)) :
    parseBytes c st buf = (st', .done [.error e buf]) := by
  have he : buf.isEmpty = false := by cases buf with | nil => exact absurd rfl hne | cons _ _ => rfl
  unfold parseBytes
  rw [parseBytesF]
  simp only [he, Bool.false_eq_true, ↓reduceIte, h]

/-! ### one call per buffer -/

def Outcome.pkts : Outcome → List Packet
  | .done ps => ps
  | .panic ps => ps
  | .overflow ps => ps

def Outcome.prepend (pre : List Packet) : Outcome → Outcome
  | .done ps => .done (pre ++ ps)
  | .panic ps => .panic (pre ++ ps)
  | .overflow ps => .overflow (pre ++ ps)

theorem Outcome.prepend_nil (o : Outcome) : o.prepend [] = o := by cases o <;> rfl

theorem Outcome.cons_prepend (p : Packet) (pre : List Packet) (o : Outcome) :
    (o.prepend pre).cons p = o.prepend (p :: pre) := by cases o <;> rfl

/-- a buffer that is exactly one accepted packet (nothing left over, and for V9: header count =
    number of flowsets) in parser state `st` -/
def selfDelimiting (c : Config) (st : PState) (a : Bytes) : Bool :=
  match parsePacket c st a with
  | (_, .ok pkt rest) => rest.isEmpty && pktCountOk c pkt
  | _ => false

/-- every buffer of the list is self-delimiting in the state reached after the previous ones -/
def chainOk (c : Config) : PState → List Bytes → Bool
  | _, [] => true
  | st, p :: ps => selfDelimiting c st p && chainOk c (parsePacket c st p).1 ps

/-- delivering the buffers one per `parse_bytes` call on the same parser: final state and the
    concatenation of what the calls returned -/
def foldCalls (c : Config) : PState → List Bytes → PState × List Packet
  | st, [] => (st, [])
  | st, p :: ps =>
    ((foldCalls c (parseBytes c st p).1 ps).1, (parseBytes c st p).2.pkts ++ (foldCalls c (parseBytes c st p).1 ps).2)

theorem selfDelimiting_inv {c : Config} {st : PState} {a : Bytes} (h : selfDelimiting c st a = true) :
    ∃ st' pkt, parsePacket c st a = (st', .ok pkt []) ∧ pktCountOk c pkt = true := by
  unfold selfDelimiting at h
  cases hp : parsePacket c st a with
  | mk st' step =>
    cases step with
    | ok pkt rest =>
      simp only [hp, Bool.and_eq_true, List.isEmpty_iff] at h
      obtain ⟨e, hc⟩ := h
      subst e
      exact ⟨st', pkt, rfl, hc⟩
    | fail e => simp [hp] at h
    | unallowed => simp [hp] at h
    | panic => simp [hp] at h
    | overflow => simp [hp] at h

/-- a self-delimiting buffer followed by anything: `parse_bytes` returns the packet and goes on
    with the tail in the state after the packet -/
theorem parseBytes_selfDelimiting_append (c : Config) (hf : c.t.framingOk = true) {st st' : PState} {a : Bytes} {pkt : Packet}
    (h : parsePacket c st a = (st', .ok pkt [])) (hc : pktCountOk c pkt = true) (b : Bytes) :
    parseBytes c st (a ++ b) = ((parseBytes c st' b).1, (parseBytes c st' b).2.cons pkt) := by
  have := parsePacket_ext h hc b
  rw [List.nil_append] at this
  exact parseBytes_cons_ok c hf this

theorem parseBytes_selfDelimiting (c : Config) (hf : c.t.framingOk = true) {st st' : PState} {a : Bytes} {pkt : Packet}
    (h : parsePacket c st a = (st', .ok pkt [])) : parseBytes c st a = (st', .done [pkt]) := by
  rw [parseBytes_cons_ok c hf h, parseBytes_nil]
  rfl

theorem foldCalls_cons_selfDelimiting (c : Config) (hf : c.t.framingOk = true) {st st' : PState} {a : Bytes} {pkt : Packet}
    (h : parsePacket c st a = (st', .ok pkt [])) (ps : List Bytes) :
    foldCalls c st (a :: ps) = ((foldCalls c st' ps).1, pkt :: (foldCalls c st' ps).2) := by
  simp only [foldCalls, parseBytes_selfDelimiting c hf h, Outcome.pkts, List.singleton_append]

/-- **chain lemma** (general form, with an arbitrary tail): a chain of self-delimiting buffers
    followed by `t`, parsed in one call, = the per-buffer calls followed by parsing `t` -/
theorem parseBytes_chain_append (c : Config) (hf : c.t.framingOk = true) :
    ∀ (qs : List Bytes) (st : PState), chainOk c st qs = true → ∀ t : Bytes,
      parseBytes c st (qs.flatten ++ t) =
        ((parseBytes c (foldCalls c st qs).1 t).1,
         (parseBytes c (foldCalls c st qs).1 t).2.prepend (foldCalls c st qs).2) := by
  intro qs
  induction qs with
  | nil =>
    intro st _ t
    simp [foldCalls, Outcome.prepend_nil]
  | cons q qs ih =>
    intro st h t
    simp only [chainOk, Bool.and_eq_true] at h
    obtain ⟨h1, h2⟩ := h
    obtain ⟨st', pkt, hp, hc⟩ := selfDelimiting_inv h1
    rw [hp] at h2
    rw [List.flatten_cons, List.append_assoc, parseBytes_selfDelimiting_append c hf hp hc,
      ih st' h2 t, foldCalls_cons_selfDelimiting c hf hp, Outcome.cons_prepend]

theorem foldCalls_append (c : Config) : ∀ (xs ys : List Bytes) (st : PState),
    foldCalls c st (xs ++ ys) =
      ((foldCalls c (foldCalls c st xs).1 ys).1, (foldCalls c st xs).2 ++ (foldCalls c (foldCalls c st xs).1 ys).2) := by
  intro xs
  induction xs with
  | nil => intro ys st; simp [foldCalls]
  | cons x xs ih =>
    intro ys st
    simp only [List.cons_append, foldCalls, ih, List.append_assoc]

theorem chainOk_state (c : Config) (hf : c.t.framingOk = true) {st : PState} {p : Bytes}
    (h : selfDelimiting c st p = true) : (parseBytes c st p).1 = (parsePacket c st p).1 := by
  obtain ⟨st', pkt, hp, _⟩ := selfDelimiting_inv h
  rw [parseBytes_selfDelimiting c hf hp, hp]

theorem chainOk_append (c : Config) (hf : c.t.framingOk = true) : ∀ (xs ys : List Bytes) (st : PState),
    chainOk c st (xs ++ ys) = true → chainOk c st xs = true ∧ chainOk c (foldCalls c st xs).1 ys = true := by
  intro xs
  induction xs with
  | nil => intro ys st h; exact ⟨rfl, by simpa [foldCalls] using h⟩
  | cons x xs ih =>
    intro ys st h
    simp only [List.cons_append, chainOk, Bool.and_eq_true] at h ⊢
    obtain ⟨h1, h2⟩ := h
    obtain ⟨h3, h4⟩ := ih ys _ h2
    refine ⟨⟨h1, h3⟩, ?_⟩
    simp only [foldCalls]
    rw [chainOk_state c hf h1]
    exact h4

end Netflow
