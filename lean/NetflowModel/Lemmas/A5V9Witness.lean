/-
  Lemmas/A5V9Witness.lean — helpers for the concrete `C04_*_fails` witnesses: a decidable test
  "the spec expects a packet, the model parser returns something else", and `Repr9` for one-entry
  template memories.
-/
import NetflowModel.Lemmas.A5V9Frame
namespace Netflow
open Spec

def isPkt : Option (Defs × Exp) → Bool
  | some (_, .pkt _) => true
  | _ => false

/-- decidable form of "the spec expects a packet for `m` but the model parser returns something else" -/
def deviatesB (d : List (Nat × V9Def)) (st : PState) (m : V9Msg) : Bool :=
  match expMsg genConfig Generated.protoNames { v9 := d } (.v9 m) with
  | some (_, .pkt p) => (parsePacket genConfig st (encV9 m)).2 != .ok p []
  | _ => false

/-- there is a template memory, a state representing it and a message that the spec maps to a packet
    `p` while the parser does not return `p` -/
def Deviates (d : List (Nat × V9Def)) (st : PState) (m : V9Msg) : Prop :=
  Repr9 d st ∧ ∃ d' p, expMsg genConfig Generated.protoNames { v9 := d } (.v9 m) = some (d', .pkt p) ∧
    (parsePacket genConfig st (encV9 m)).2 ≠ .ok p []

theorem deviatesB_sound {d : List (Nat × V9Def)} {st : PState} {m : V9Msg} (hR : Repr9 d st)
    (h : deviatesB d st m = true) : Deviates d st m := by
  refine ⟨hR, ?_⟩
  unfold deviatesB at h
  split at h
  · next d' p he => exact ⟨d', p, he, by simpa using h⟩
  · simp at h

theorem repr9_single_t (id : Nat) (t : V9Template) : Repr9 [(id, .t t)] { v9T := [(id, t)] } := by
  refine ⟨by simp [AmSorted], by simp [AmSorted], ?_, ?_⟩
  · intro k t'
    simp only [amLookup]
    by_cases hk : k = id <;> simp [hk]
  · intro k t'
    simp only [amLookup]
    by_cases hk : k = id <;> simp [hk]

theorem repr9_single_o (id : Nat) (t : V9OptTemplate) : Repr9 [(id, .o t)] { v9O := [(id, t)] } := by
  refine ⟨by simp [AmSorted], by simp [AmSorted], ?_, ?_⟩
  · intro k t'
    simp only [amLookup]
    by_cases hk : k = id <;> simp [hk]
  · intro k t'
    simp only [amLookup]
    by_cases hk : k = id <;> simp [hk]

def msgOf (sets : List V9FS) : V9Msg :=
  { count := sets.length, sysUpTime := 0, unixSecs := 0, seq := 0, sourceId := 0, sets := sets }

end Netflow
